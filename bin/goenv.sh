# sourced by bin/check and bin/setup: selects the Go toolchain and offline settings
export GOFLAGS=-mod=mod GOPROXY=off GOSUMDB=off GOTOOLCHAIN=local CGO_ENABLED=${CGO_ENABLED:-1}
GO=
for cand in /root/go/pkg/mod/golang.org/toolchain@v0.0.1-go1.25.0.linux-amd64/bin/go \
            "$(command -v go1.26 2>/dev/null)" "$(command -v go1.26.8 2>/dev/null)" "$(command -v go 2>/dev/null)"; do
  if [ -n "$cand" ] && [ -x "$cand" ]; then
    v=$("$cand" env GOVERSION 2>/dev/null)
    case "$v" in go1.2[5-9]*|go1.[3-9][0-9]*) GO=$cand; break;; esac
  fi
done
if [ -z "$GO" ]; then echo "no Go >= 1.25 toolchain found" >&2; exit 2; fi
export GO
