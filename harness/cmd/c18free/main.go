// Command c18free runs free-running (unscheduled) goroutine mixes against one
// real go-pdf Reader / Extractor and prints one JSON record per round.  The
// driver builds it with -race; the records are judged by TLC
// (spec/conc/Outcome_Extractor.tla).
package main

import (
	"bytes"
	"compress/zlib"
	"image"
	"image/jpeg"
	"crypto/sha256"
	"encoding/hex"
	"encoding/json"
	"flag"
	"fmt"
	"io"
	"math/rand"
	"os"
	"sync"

	"seehuhn.de/go/pdf"
	"seehuhn.de/go/pdf/annotation"
	"seehuhn.de/go/pdf/annotation/decode"
	"seehuhn.de/go/pdf/font/cmap"
	"seehuhn.de/go/pdf/font/dict"
	"seehuhn.de/go/pdf/graphics/extract"
	"seehuhn.de/go/pdf/page"
)

type node struct {
	Self int
	Next *node
}
type nodeB struct{ Self int }

type result struct {
	P    int    `json:"p"`
	Op   string `json:"op"`
	Ref  int    `json:"ref"`
	OK   bool   `json:"ok"`
	ID   int    `json:"id"`   // identity of the returned Go value (Decode family), 0 = none
	Dig  string `json:"dig"`  // digest of returned data (Get, DecodeStream, Predefined)
	Solo bool   `json:"solook"`
	SDig string `json:"solodig"`
}

type record struct {
	Seed    int64      `json:"seed"`
	Round   int        `json:"round"`
	G       int        `json:"goroutines"`
	Results []result   `json:"results"`
	Cache   []cacheEnt `json:"cache"`
	Chains  [][]int    `json:"chains"` // [from, to]: object from is a reference to object to
	Runs    []runEnt   `json:"runs"`   // decoder runs for keys only reached through DecodeExclusive
	Writer  bool       `json:"writerok"`
	// Links: pages of a file with an interactive form decoded by several
	// goroutines through one Extractor; one entry per widget found on a page
	Links []linkEnt `json:"links"`
}

// linkEnt: a widget as one page decode returned it.  Field is the identity of
// the field it is linked to (0: none), Tree the identity of the field of that
// name in the form's field tree, Count how often the widget occurs among its
// field's widgets, PageID the identity of the page value.
type linkEnt struct {
	Page   int `json:"page"`
	PageID int `json:"pageid"`
	Widget int `json:"widget"`
	Field  int `json:"field"`
	Tree   int `json:"tree"`
	Count  int `json:"count"`
}
type cacheEnt struct {
	Ref int    `json:"ref"`
	Tp  string `json:"tp"`
	ID  int    `json:"id"`
}
type runEnt struct {
	Ref  int `json:"ref"`
	Runs int `json:"runs"`
}

type memFile struct{ bytes.Buffer }

// fontFile is a tiny independent "file" holding one composite font whose
// /Encoding names a predefined CMap: reading it must not change what the
// package-level CMap cache hands to other readers.
type fontFile struct {
	meta pdf.MetaInfo
	objs map[pdf.Reference]pdf.Native
}

func (g *fontFile) GetMeta() *pdf.MetaInfo { return &g.meta }
func (g *fontFile) Get(ref pdf.Reference, _ bool) (pdf.Native, error) {
	return g.objs[ref], nil
}

// sharedCMaps: predefined CMaps (other than Identity) named by the test fonts,
// with a code whose text is known
var sharedCMaps = []string{"GBKp-EUC-H", "UniJIS-UTF16-H", "90ms-RKSJ-H"}

// extractFont reads a font of kind "A" (CIDFontType0 with a CIDSystemInfo that
// disagrees with the CMap) or "B" (CIDFontType2 without CIDSystemInfo, which
// takes registry and ordering from the CMap) and digests what it got.
func extractFont(kind string, which int) (bool, string) {
	name := sharedCMaps[which%len(sharedCMaps)]
	font, cid := pdf.NewReference(1, 0), pdf.NewReference(2, 0)
	cidDict := pdf.Dict{"Type": pdf.Name("Font"), "Subtype": pdf.Name("CIDFontType2"), "BaseFont": pdf.Name("Test-" + kind)}
	if kind == "A" {
		cidDict["Subtype"] = pdf.Name("CIDFontType0")
		cidDict["CIDSystemInfo"] = pdf.Dict{"Registry": pdf.String("Adobe"), "Ordering": pdf.String("Korea1"), "Supplement": pdf.Integer(2)}
	}
	f := &fontFile{meta: pdf.MetaInfo{Version: pdf.V1_7}, objs: map[pdf.Reference]pdf.Native{
		font: pdf.Dict{"Type": pdf.Name("Font"), "Subtype": pdf.Name("Type0"), "BaseFont": pdf.Name("Test-" + kind),
			"Encoding": pdf.Name(name), "DescendantFonts": pdf.Array{cid}},
		cid: cidDict,
	}}
	d, err := pdf.Decode(pdf.NewCursor(f), font, extract.Dict)
	if err != nil {
		return false, ""
	}
	var ros string
	switch x := d.(type) {
	case *dict.CIDFontType0:
		ros = fmt.Sprint(x.ROS)
	case *dict.CIDFontType2:
		ros = fmt.Sprint(x.ROS)
	default:
		return false, fmt.Sprintf("%T", d)
	}
	return true, ros
}

// embeddedNames: names of predefined CMaps under which the test files embed a
// CMap stream of their own (a trimmed copy under the original name, as sloppy
// producers write them).  Half of them are loaded as predefined CMaps by
// other operations of the mix, the others by nobody.
var embeddedNames = []string{"GBKp-EUC-H", "90ms-RKSJ-H", "ETen-B5-V", "KSCms-UHC-HW-V"}

const embeddedTruth = "stream cid(21)=9 cid(20)=7"

// copyEmbeddedCMap plays an independent Reader/Writer pair: the embedded CMap
// is extracted from a fresh file and embedded into another fresh file.  What
// comes out must not depend on what anybody else in the process has loaded.
func copyEmbeddedCMap(which int) (ok bool, dig string) {
	defer func() {
		if p := recover(); p != nil {
			ok, dig = false, fmt.Sprint("panic: ", p)
		}
	}()
	name := embeddedNames[which%len(embeddedNames)]
	body := "/CIDInit /ProcSet findresource begin\n12 dict begin\nbegincmap\n/CMapName /" + name + " def\n/CMapType 1 def\n/WMode 0 def\n" +
		"/CIDSystemInfo 3 dict dup begin\n  /Registry (Adobe) def\n  /Ordering (Verif1) def\n  /Supplement 0 def\nend def\n" +
		"1 begincodespacerange\n<00> <FF>\nendcodespacerange\n2 begincidchar\n<20> 7\n<21> 9\nendcidchar\nendcmap\n" +
		"CMapName currentdict /CMap defineresource pop\nend\nend\n"
	var src bytes.Buffer
	sw, err := pdf.NewWriter(&src, pdf.V2_0, nil)
	if err != nil {
		return false, err.Error()
	}
	pages := sw.Alloc()
	must(sw.Put(pages, pdf.Dict{"Type": pdf.Name("Pages"), "Kids": pdf.Array{}, "Count": pdf.Integer(0)}))
	sw.GetMeta().Catalog.Pages = pages
	ref := sw.Alloc()
	stm, err := sw.OpenStream(ref, pdf.Dict{"Type": pdf.Name("CMap"), "CMapName": pdf.Name(name)})
	if err != nil {
		return false, err.Error()
	}
	if _, err := stm.Write([]byte(body)); err != nil {
		return false, err.Error()
	}
	must(stm.Close())
	must(sw.Close())
	sr, err := pdf.NewReader(bytes.NewReader(src.Bytes()), int64(src.Len()), nil)
	if err != nil {
		return false, err.Error()
	}
	defer sr.Close()
	f, err := pdf.Decode(pdf.NewCursor(sr), ref, cmap.Extract)
	if err != nil {
		return false, err.Error()
	}
	var dst bytes.Buffer
	dw, err := pdf.NewWriter(&dst, pdf.V2_0, nil)
	if err != nil {
		return false, err.Error()
	}
	pages = dw.Alloc()
	must(dw.Put(pages, pdf.Dict{"Type": pdf.Name("Pages"), "Kids": pdf.Array{}, "Count": pdf.Integer(0)}))
	dw.GetMeta().Catalog.Pages = pages
	rm := pdf.NewResourceManager(dw)
	emb, err := rm.Embed(f)
	if err != nil {
		return false, err.Error()
	}
	must(rm.Close())
	holder := dw.Alloc()
	must(dw.Put(holder, pdf.Dict{"CMap": emb}))
	must(dw.Close())
	dr, err := pdf.NewReader(bytes.NewReader(dst.Bytes()), int64(dst.Len()), nil)
	if err != nil {
		return false, err.Error()
	}
	defer dr.Close()
	back, err := pdf.Decode(pdf.NewCursor(dr), emb, cmap.Extract)
	if err != nil {
		return false, err.Error()
	}
	kind := "stream"
	if _, byName := emb.(pdf.Name); byName {
		kind = "name"
	}
	return true, fmt.Sprintf("%s cid(21)=%d cid(20)=%d", kind, back.LookupCID([]byte{0x21}), back.LookupCID([]byte{0x20}))
}

// formsRound writes a file whose pages carry the widgets of the text fields
// of an interactive form (every field has one widget per page, as separate
// kids), lets several goroutines decode the pages through one Extractor at
// the same time, and reports how the widgets are linked.
func formsRound(r *rand.Rand, ids func(any) int) ([]linkEnt, error) {
	var buf bytes.Buffer
	w, err := pdf.NewWriter(&buf, pdf.V1_7, nil)
	if err != nil {
		return nil, err
	}
	nPages, nFields := 2+r.Intn(3), 20+r.Intn(30)
	pagesRef, formRef := w.Alloc(), w.Alloc()
	pageRefs := make([]pdf.Reference, nPages)
	annots := make([]pdf.Array, nPages)
	for i := range pageRefs {
		pageRefs[i] = w.Alloc()
	}
	var fields pdf.Array
	for f := 0; f < nFields; f++ {
		fieldRef, kidsRef := w.Alloc(), w.Alloc()
		fields = append(fields, fieldRef)
		var kids pdf.Array
		for pg := 0; pg < nPages; pg++ {
			wr := w.Alloc()
			kids = append(kids, wr)
			annots[pg] = append(annots[pg], wr)
			must(w.Put(wr, pdf.Dict{"Type": pdf.Name("Annot"), "Subtype": pdf.Name("Widget"),
				"Rect": pdf.Array{pdf.Integer(10), pdf.Integer(10 + 3*f), pdf.Integer(100), pdf.Integer(12 + 3*f)}, "Parent": fieldRef, "P": pageRefs[pg]}))
		}
		must(w.Put(kidsRef, kids))
		must(w.Put(fieldRef, pdf.Dict{"FT": pdf.Name("Tx"), "T": pdf.String(fmt.Sprintf("field%03d", f)), "Kids": kidsRef}))
	}
	for i, pr := range pageRefs {
		must(w.Put(pr, pdf.Dict{"Type": pdf.Name("Page"), "Parent": pagesRef, "Resources": pdf.Dict{}, "Annots": annots[i],
			"MediaBox": pdf.Array{pdf.Integer(0), pdf.Integer(0), pdf.Integer(200), pdf.Integer(200)}}))
	}
	kidsArr := pdf.Array{}
	for _, pr := range pageRefs {
		kidsArr = append(kidsArr, pr)
	}
	must(w.Put(pagesRef, pdf.Dict{"Type": pdf.Name("Pages"), "Kids": kidsArr, "Count": pdf.Integer(nPages)}))
	must(w.Put(formRef, pdf.Dict{"Fields": fields}))
	w.GetMeta().Catalog.Pages = pagesRef
	w.GetMeta().Catalog.AcroForm = formRef
	must(w.Close())

	rd, err := pdf.NewReader(bytes.NewReader(buf.Bytes()), int64(buf.Len()), nil)
	if err != nil {
		return nil, err
	}
	defer rd.Close()
	x := pdf.NewExtractor(rd)
	G := 2 + r.Intn(4)
	type got struct {
		pg int
		p  *page.Page
	}
	var mu sync.Mutex
	var all []got
	var firstErr error
	var wg sync.WaitGroup
	start := make(chan struct{})
	for g := 0; g < G; g++ {
		order := r.Perm(nPages)
		wg.Add(1)
		go func() {
			defer wg.Done()
			<-start
			for _, pg := range order {
				p, err := pdf.Decode(pdf.CursorAt(x, nil), pageRefs[pg], page.Decode)
				mu.Lock()
				if err != nil && firstErr == nil {
					firstErr = err
				}
				all = append(all, got{pg, p})
				mu.Unlock()
			}
		}()
	}
	close(start)
	wg.Wait()
	if firstErr != nil {
		return nil, firstErr
	}
	form, err := pdf.Decode(pdf.CursorAt(x, nil), formRef, decode.Form)
	if err != nil || form == nil {
		return nil, fmt.Errorf("form: %v", err)
	}
	tree := map[string]int{}
	for _, f := range form.Fields {
		tree[f.PartialName()] = ids(f)
	}
	var links []linkEnt
	for _, g := range all {
		if g.p == nil {
			links = append(links, linkEnt{Page: g.pg})
			continue
		}
		for _, a := range g.p.Annots {
			wd, ok := a.(*annotation.Widget)
			if !ok {
				continue
			}
			l := linkEnt{Page: g.pg, PageID: ids(g.p), Widget: ids(wd)}
			if wd.Field != nil {
				l.Field = ids(wd.Field)
				l.Tree = tree[wd.Field.PartialName()]
				for _, fw := range wd.Field.GetCommon().Widgets {
					if fw == wd {
						l.Count++
					}
				}
			}
			links = append(links, l)
		}
	}
	return links, nil
}

// flateJPEG: a 256 x 256 grey noise image as a JPEG, deflated
var flateJPEG = func() []byte {
	img := image.NewGray(image.Rect(0, 0, 256, 256))
	rnd := rand.New(rand.NewSource(1))
	for i := range img.Pix {
		img.Pix[i] = uint8(rnd.Intn(256))
	}
	var jp, z bytes.Buffer
	must(jpeg.Encode(&jp, img, nil))
	zw := zlib.NewWriter(&z)
	zw.Write(jp.Bytes())
	zw.Close()
	return z.Bytes()
}()

func predefinedROS(which int) (bool, string) {
	f, err := cmap.Predefined(sharedCMaps[which%len(sharedCMaps)])
	if err != nil {
		return false, ""
	}
	return true, fmt.Sprint(f.ROS)
}

// truth of the package-level state, taken before anything else ran
var startTruth = map[op][2]string{}

func init() {
	for i := range sharedCMaps {
		ok, dig := predefinedROS(i)
		startTruth[op{"PredefinedROS", i}] = [2]string{fmt.Sprint(ok), dig}
		ok, dig = extractFont("B", i)
		startTruth[op{"ExtractFontB", i}] = [2]string{fmt.Sprint(ok), dig}
	}
}

func digest(b []byte) string {
	h := sha256.Sum256(b)
	return hex.EncodeToString(h[:6])
}

// buildFile writes a document with value dictionaries in a cycle, chains of
// references, filtered streams and an object stream.
// encModes are the (version, encrypted) combinations of the files: the
// per-object key derivation and the decrypting readers are shared by all
// goroutines that read one encrypted file.
var encModes = []struct {
	v   pdf.Version
	enc bool
}{{pdf.V1_7, false}, {pdf.V1_3, true} /* RC4-40 */, {pdf.V1_4, true} /* RC4-128 */, {pdf.V1_6, true} /* AES-128 */, {pdf.V2_0, true} /* AES-256 */}

const userPassword = "c18-user"

func buildFile(r *rand.Rand, mode int) (data []byte, nvals int, chains [][]int, streams []int, bodies map[int][]byte, excl int) {
	buf := &bytes.Buffer{}
	var opt *pdf.WriterOptions
	if encModes[mode].enc {
		opt = &pdf.WriterOptions{UserPassword: userPassword, OwnerPassword: "c18-owner", UserPermissions: pdf.PermAll}
	}
	w, err := pdf.NewWriter(buf, encModes[mode].v, opt)
	if err != nil {
		panic(err)
	}
	pages := w.Alloc() // 1
	must(w.Put(pages, pdf.Dict{"Type": pdf.Name("Pages"), "Kids": pdf.Array{}, "Count": pdf.Integer(0)}))
	w.GetMeta().Catalog.Pages = pages
	nvals = 3 + r.Intn(3)
	refs := map[int]pdf.Reference{}
	alloc := func() int {
		ref := w.Alloc()
		refs[int(ref.Number())] = ref
		return int(ref.Number())
	}
	var vals []int
	for i := 0; i < nvals; i++ {
		vals = append(vals, alloc())
	}
	// chains: c -> v, cc -> c -> v
	var chainObjs [][2]int
	for i := 0; i < 3; i++ {
		c := alloc()
		target := vals[r.Intn(len(vals))]
		if i == 2 {
			target = chainObjs[0][0]
		}
		chainObjs = append(chainObjs, [2]int{c, target})
		chains = append(chains, []int{c, target})
	}
	bodies = map[int][]byte{}
	for i := 0; i < 3; i++ {
		streams = append(streams, alloc())
	}
	// a value nobody refers to: only ever decoded through DecodeExclusive
	excl = alloc()
	must(w.Put(refs[excl], pdf.Dict{"Self": pdf.Integer(excl), "Next": refs[vals[0]]}))
	// references that lead back to themselves (500 -> 500, 501 -> 502 -> 501):
	// resolving them fails, and every failure must read like the one before
	must(w.Put(pdf.NewReference(500, 0), pdf.NewReference(500, 0)))
	must(w.Put(pdf.NewReference(501, 0), pdf.NewReference(502, 0)))
	must(w.Put(pdf.NewReference(502, 0), pdf.NewReference(501, 0)))
	// values: half of them through an object stream
	var crefs []pdf.Reference
	var cobjs []pdf.Object
	for i, v := range vals {
		next := vals[(i+1)%len(vals)]
		d := pdf.Dict{"Self": pdf.Integer(v), "Next": refs[next], "S": pdf.String(fmt.Sprintf("value %d", v))}
		if i%2 == 0 {
			crefs = append(crefs, refs[v])
			cobjs = append(cobjs, d)
		} else {
			must(w.Put(refs[v], d))
		}
	}
	must(w.WriteCompressed(crefs, cobjs...))
	for _, c := range chainObjs {
		must(w.Put(refs[c[0]], refs[c[1]]))
	}
	for i, s := range streams {
		body := make([]byte, 16*(125+r.Intn(3750)))
		for j := range body {
			body[j] = byte(r.Intn(7) * 31)
		}
		bodies[s] = body
		var filters []pdf.Filter
		switch i {
		case 0:
			filters = []pdf.Filter{pdf.FilterFlate{}}
		case 1:
			filters = []pdf.Filter{pdf.FilterASCII85{}, pdf.FilterFlate{Predictor: 12, Columns: 16}}
		default:
			filters = []pdf.Filter{pdf.FilterLZW{}}
		}
		out, err := w.OpenStream(refs[s], pdf.Dict{"Self": pdf.Integer(s)}, filters...)
		must(err)
		_, err = out.Write(body)
		must(err)
		must(out.Close())
	}
	must(w.Close())
	return buf.Bytes(), nvals, chains, streams, bodies, excl
}

func must(err error) {
	if err != nil {
		fmt.Fprintln(os.Stderr, "c18free:", err)
		os.Exit(3)
	}
}

type world struct {
	r      *pdf.Reader
	cur    pdf.Cursor
	x      *pdf.Extractor
	mu     sync.Mutex
	ids    map[any]int
	runs   map[int]int
	failOn map[int]bool
}

func (w *world) id(v any) int {
	w.mu.Lock()
	defer w.mu.Unlock()
	if id, ok := w.ids[v]; ok {
		return id
	}
	id := len(w.ids) + 1
	w.ids[v] = id
	return id
}

func (w *world) dec() func(pdf.Cursor, pdf.Object, bool) (*node, error) {
	var f func(c pdf.Cursor, obj pdf.Object, direct bool) (*node, error)
	f = func(c pdf.Cursor, obj pdf.Object, direct bool) (*node, error) {
		d, err := c.Dict(obj)
		if err != nil {
			return nil, err
		}
		self, _ := d["Self"].(pdf.Integer)
		w.mu.Lock()
		w.runs[int(self)]++
		w.mu.Unlock()
		if w.failOn[int(self)] {
			return nil, fmt.Errorf("decoder of %d fails", self)
		}
		n := &node{Self: int(self)}
		// mutually referential: follow /Next; a cycle error is ignored
		if next, err := pdf.Decode(c, d["Next"], f); err == nil {
			n.Next = next
		}
		return n, nil
	}
	return f
}

func open(data []byte) *world {
	r, err := pdf.NewReader(bytes.NewReader(data), int64(len(data)), &pdf.ReaderOptions{Password: userPassword})
	must(err)
	cur := pdf.NewCursor(r)
	return &world{r: r, cur: cur, x: pdf.VerifExtractor(cur), ids: map[any]int{}, runs: map[int]int{}, failOn: map[int]bool{}}
}

type op struct {
	Op  string
	Ref int
}

func (w *world) do(o op) (ok bool, id int, dig string) {
	ref := pdf.NewReference(uint32(o.Ref), 0)
	switch o.Op {
	case "Get":
		obj, err := w.r.Get(ref, true)
		if err != nil {
			return false, 0, ""
		}
		var b bytes.Buffer
		if s, isStm := obj.(*pdf.Stream); isStm {
			pdf.Format(&b, 0, s.Dict)
		} else {
			pdf.Format(&b, 0, obj)
		}
		return true, 0, digest(b.Bytes())
	case "ResolveCycle":
		// an error is an answer too: it must not depend on who failed before
		cref := pdf.NewReference(uint32(500+o.Ref%3), 0)
		if _, err := pdf.Resolve(w.r, cref); err != nil {
			return false, 0, "resolve: " + err.Error()
		}
		return true, 0, ""
	case "DecodeCycle":
		cref := pdf.NewReference(uint32(500+o.Ref%3), 0)
		if _, err := pdf.Decode(w.cur, cref, w.dec()); err != nil {
			return false, 0, "decode: " + err.Error()
		}
		return true, 0, ""
	case "AbandonFlateDCT":
		// a stream with /Filter [/FlateDecode /DCTDecode], partly read and
		// closed: nothing of it may still be at work afterwards (the Flate
		// stage's reader goes back into the package-level pool)
		st := pdf.NewStream(pdf.Dict{"Filter": pdf.Array{pdf.Name("FlateDecode"), pdf.Name("DCTDecode")}}, flateJPEG)
		rd, err := pdf.DecodeStream(w.r, nil, st)
		if err != nil {
			return false, 0, err.Error()
		}
		buf := make([]byte, 4096*(1+o.Ref%8))
		_, err = io.ReadFull(rd, buf)
		cerr := rd.Close()
		if err != nil || cerr != nil {
			return false, 0, fmt.Sprint(err, cerr)
		}
		return true, 0, digest(buf)
	case "DecodeStream", "DecodeStreamCloseTwice":
		obj, err := w.r.Get(ref, true)
		if err != nil {
			return false, 0, ""
		}
		s, isStm := obj.(*pdf.Stream)
		if !isStm {
			return false, 0, ""
		}
		rd, err := pdf.DecodeStream(w.r, nil, s)
		if err != nil {
			return false, 0, ""
		}
		if o.Op == "DecodeStreamCloseTwice" {
			// "defer Close" plus an explicit Close: the second one must not
			// hand pooled decoder state back a second time
			defer rd.Close()
		}
		data, err := io.ReadAll(rd)
		rd.Close()
		if err != nil {
			return false, 0, ""
		}
		return true, 0, digest(data)
	case "Decode":
		n, err := pdf.Decode(w.cur, ref, w.dec())
		if err != nil {
			return false, 0, ""
		}
		return true, w.id(n), ""
	case "DecodeExclusive":
		n, err := pdf.DecodeExclusive(w.cur, ref, w.dec())
		if err != nil {
			return false, 0, ""
		}
		return true, w.id(n), ""
	case "DecodeNil", "DecodeExclusiveNil":
		// a decoder whose result is a nil value of an interface type (an
		// optional object): every caller gets nil, whoever decoded first
		defer func() {
			if p := recover(); p != nil {
				ok, id, dig = false, 0, fmt.Sprint("panic: ", p)
			}
		}()
		decn := func(pdf.Cursor, pdf.Object, bool) (fmt.Stringer, error) { return nil, nil }
		var v fmt.Stringer
		var err error
		if o.Op == "DecodeNil" {
			v, err = pdf.Decode(w.cur, ref, decn)
		} else {
			v, err = pdf.DecodeExclusive(w.cur, ref, decn)
		}
		if err != nil || v != nil {
			return false, 0, ""
		}
		return true, 0, ""
	case "ExtractFontA":
		ok, dig = extractFont("A", o.Ref)
		return ok, 0, dig
	case "ExtractFontB":
		ok, dig = extractFont("B", o.Ref)
		return ok, 0, dig
	case "PredefinedROS":
		ok, dig = predefinedROS(o.Ref)
		return ok, 0, dig
	case "CopyEmbeddedCMap":
		ok, dig = copyEmbeddedCMap(o.Ref)
		return ok, 0, dig
	case "LoadEmbeddedName":
		// somebody else loads the predefined CMap of that name
		f, err := cmap.Predefined(embeddedNames[o.Ref%len(embeddedNames)])
		if err != nil {
			return false, 0, ""
		}
		return true, w.id(f), ""
	case "Pair":
		a, _ := pdf.StoreOrLoadPair(w.x, ref, &node{Self: o.Ref}, &nodeB{Self: o.Ref})
		return true, w.id(a), ""
	case "PredefinedFresh":
		f, err := cmap.Predefined(freshCMaps[o.Ref%len(freshCMaps)])
		if err != nil {
			return false, 0, ""
		}
		return true, w.id(f), ""
	case "Predefined":
		names := []string{"Identity-H", "UniJIS-UTF16-H", "GBK-EUC-H", "90ms-RKSJ-H"}
		f, err := cmap.Predefined(names[o.Ref%len(names)])
		if err != nil {
			return false, 0, ""
		}
		return true, w.id(f), ""
	}
	return false, 0, ""
}

// freshCMaps are predefined CMap names used for concurrent FIRST loads: every
// round takes names nobody in this process has asked for yet and lets all
// goroutines request them at the same moment (the package-level cache must
// hand everybody the identical *File).
var freshCMaps = []string{"78-EUC-H", "78-EUC-V", "78-H", "78-RKSJ-H", "78-RKSJ-V", "78-V", "78ms-RKSJ-H", "78ms-RKSJ-V", "83pv-RKSJ-H", "90ms-RKSJ-H", "90ms-RKSJ-V", "90msp-RKSJ-H", "90msp-RKSJ-V", "90pv-RKSJ-H", "90pv-RKSJ-V", "Add-H", "Add-RKSJ-H", "Add-RKSJ-V", "Add-V", "B5-H", "B5-V", "B5pc-H", "B5pc-V", "CNS-EUC-H", "CNS-EUC-V", "CNS1-H", "CNS1-V", "CNS2-H", "CNS2-V", "ETHK-B5-H", "ETHK-B5-V", "ETen-B5-H", "ETen-B5-V", "ETenms-B5-H", "ETenms-B5-V", "EUC-H", "EUC-V", "Ext-H", "Ext-RKSJ-H", "Ext-RKSJ-V", "Ext-V", "GB-EUC-H", "GB-EUC-V", "GB-H", "GB-V", "GBK-EUC-H", "GBK-EUC-V", "GBK2K-H", "GBK2K-V", "GBKp-EUC-H", "GBKp-EUC-V", "GBT-EUC-H", "GBT-EUC-V", "GBT-H", "GBT-V", "GBTpc-EUC-H", "GBTpc-EUC-V", "GBpc-EUC-H", "GBpc-EUC-V", "H", "HKdla-B5-H", "HKdla-B5-V", "HKdlb-B5-H", "HKdlb-B5-V", "HKgccs-B5-H", "HKgccs-B5-V", "HKm314-B5-H", "HKm314-B5-V", "HKm471-B5-H", "HKm471-B5-V", "HKscs-B5-H", "HKscs-B5-V", "Hankaku", "Hiragana", "Identity-H", "Identity-V", "KSC-EUC-H", "KSC-EUC-V", "KSC-H", "KSC-Johab-H", "KSC-Johab-V", "KSC-V", "KSCms-UHC-H", "KSCms-UHC-HW-H", "KSCms-UHC-HW-V", "KSCms-UHC-V", "KSCpc-EUC-H", "KSCpc-EUC-V", "Katakana", "NWP-H", "NWP-V", "RKSJ-H", "RKSJ-V", "Roman", "UniAKR-UTF16-H", "UniAKR-UTF32-H", "UniAKR-UTF8-H", "UniCNS-UCS2-H", "UniCNS-UCS2-V", "UniCNS-UTF16-H", "UniCNS-UTF16-V", "UniCNS-UTF32-H", "UniCNS-UTF32-V", "UniCNS-UTF8-H", "UniCNS-UTF8-V", "UniGB-UCS2-H", "UniGB-UCS2-V", "UniGB-UTF16-H", "UniGB-UTF16-V", "UniGB-UTF32-H", "UniGB-UTF32-V", "UniGB-UTF8-H", "UniGB-UTF8-V", "UniJIS-UCS2-H", "UniJIS-UCS2-HW-H", "UniJIS-UCS2-HW-V", "UniJIS-UCS2-V", "UniJIS-UTF16-H", "UniJIS-UTF16-V", "UniJIS-UTF32-H", "UniJIS-UTF32-V", "UniJIS-UTF8-H", "UniJIS-UTF8-V", "UniJIS2004-UTF16-H", "UniJIS2004-UTF16-V", "UniJIS2004-UTF32-H", "UniJIS2004-UTF32-V", "UniJIS2004-UTF8-H", "UniJIS2004-UTF8-V", "UniJISPro-UCS2-HW-V", "UniJISPro-UCS2-V", "UniJISPro-UTF8-V", "UniJISX0213-UTF32-H", "UniJISX0213-UTF32-V", "UniJISX02132004-UTF32-H", "UniJISX02132004-UTF32-V", "UniKS-UCS2-H", "UniKS-UCS2-V", "UniKS-UTF16-H", "UniKS-UTF16-V", "UniKS-UTF32-H", "UniKS-UTF32-V", "UniKS-UTF8-H", "UniKS-UTF8-V", "V", "WP-Symbol"}

func main() {
	seed := flag.Int64("seed", 1, "")
	rounds := flag.Int("rounds", 20, "")
	flag.Parse()
	enc := json.NewEncoder(os.Stdout)
	for round := 0; round < *rounds; round++ {
		r := rand.New(rand.NewSource(*seed*1000003 + int64(round)))
		mode := []int{0, 0, 1, 2, 3, 4, 1, 4}[r.Intn(8)]
		data, nvals, chains, streams, bodies, excl := buildFile(r, mode)
		w := open(data)
		// references: values are 2..; pick the universe from the file itself
		var valRefs, chainRefs []int
		for i := 0; i < nvals; i++ {
			valRefs = append(valRefs, 2+i)
		}
		for _, c := range chains {
			chainRefs = append(chainRefs, c[0])
		}
		// exclusive-only keys: one value and one chain head
		exclOnly := map[int]bool{excl: true}
		if r.Intn(2) == 0 {
			w.failOn[valRefs[0]] = r.Intn(3) == 0
		}
		G := 2 + r.Intn(7)
		progs := make([][]op, G)
		for g := range progs {
			n := 8 + r.Intn(24)
			for i := 0; i < n; i++ {
				var o op
				switch r.Intn(10) {
				case 0, 1:
					all := append(append(append([]int{1}, valRefs...), chainRefs...), streams...)
					o = op{"Get", all[r.Intn(len(all))]}
				case 2, 3:
					o = op{"DecodeStream", streams[r.Intn(len(streams))]}
					if r.Intn(3) == 0 {
						o.Op = "DecodeStreamCloseTwice"
					} else if r.Intn(4) == 0 {
						o = op{"AbandonFlateDCT", r.Intn(8)}
					} else if r.Intn(5) == 0 {
						o = op{[]string{"ResolveCycle", "DecodeCycle"}[r.Intn(2)], r.Intn(3)}
					}
				case 4, 5, 6:
					all := append(append([]int{}, valRefs...), chainRefs...)
					o = op{"Decode", all[r.Intn(len(all))]}
				case 7:
					o = op{"DecodeExclusive", excl}
					if r.Intn(3) == 0 {
						o.Ref = valRefs[r.Intn(len(valRefs))]
					}
				case 8:
					o = op{"Pair", streams[r.Intn(len(streams))]} // keys nobody decodes
				default:
					o = op{"Predefined", r.Intn(4)}
					switch r.Intn(5) {
					case 0, 1:
						o = op{[]string{"DecodeNil", "DecodeExclusiveNil", "DecodeExclusiveNil"}[r.Intn(3)], valRefs[r.Intn(len(valRefs))]}
					case 2:
						// independent files whose fonts name the same predefined CMap
						o = op{[]string{"ExtractFontA", "ExtractFontB", "PredefinedROS"}[r.Intn(3)], r.Intn(len(sharedCMaps))}
					case 3:
						// independent files which embed a CMap of their own under a predefined name
						o = op{[]string{"CopyEmbeddedCMap", "CopyEmbeddedCMap", "LoadEmbeddedName"}[r.Intn(3)], r.Intn(len(embeddedNames))}
					}
				}
				progs[g] = append(progs[g], o)
			}
		}
		// concurrent first loads of predefined CMaps nobody has loaded yet
		fresh := []int{(round*2 + int(*seed)*7) % len(freshCMaps), (round*2 + 1 + int(*seed)*7) % len(freshCMaps)}
		for g := range progs {
			progs[g] = append([]op{{"PredefinedFresh", fresh[0]}, {"PredefinedFresh", fresh[1]}}, progs[g]...)
		}
		// solo outcomes on a fresh reader each (nothing cached)
		solo := map[op][2]string{}
		for _, p := range progs {
			for _, o := range p {
				if _, done := solo[o]; done {
					continue
				}
				if o.Op == "PredefinedFresh" {
					solo[o] = [2]string{"true", ""} // a predefined CMap always loads; not executed solo (that would fill the cache)
					continue
				}
				if o.Op == "CopyEmbeddedCMap" {
					solo[o] = [2]string{"true", embeddedTruth} // what the harness put into the file
					continue
				}
				if o.Op == "LoadEmbeddedName" {
					solo[o] = [2]string{"true", ""}
					continue
				}
				if t, fixed := startTruth[o]; fixed {
					solo[o] = t // package-level state as it was before any file was read
					continue
				}
				sw := open(data)
				sw.failOn = w.failOn
				ok, _, dig := sw.do(o)
				solo[o] = [2]string{fmt.Sprint(ok), dig}
			}
		}
		// ground truth for streams comes from what was written
		for _, s := range streams {
			if t := solo[op{"DecodeStreamCloseTwice", s}][1]; t != "" && t != digest(bodies[s]) {
				fmt.Fprintln(os.Stderr, "c18free: solo DecodeStream (closed twice) differs from written body")
				os.Exit(3)
			}
			if solo[op{"DecodeStream", s}][1] != "" && solo[op{"DecodeStream", s}][1] != digest(bodies[s]) {
				fmt.Fprintln(os.Stderr, "c18free: solo DecodeStream differs from written body")
				os.Exit(3)
			}
		}

		rec := record{Seed: *seed, Round: round, G: G, Chains: chains, Results: []result{}, Cache: []cacheEnt{}, Runs: []runEnt{}}
		var wg sync.WaitGroup
		var rmu sync.Mutex
		start := make(chan struct{})
		for g := range progs {
			wg.Add(1)
			go func(g int) {
				defer wg.Done()
				<-start
				for _, o := range progs[g] {
					ok, id, dig := w.do(o)
					s := solo[o]
					rmu.Lock()
					rec.Results = append(rec.Results, result{P: g, Op: o.Op, Ref: o.Ref, OK: ok, ID: id, Dig: dig, Solo: s[0] == "true", SDig: s[1]})
					rmu.Unlock()
				}
			}(g)
		}
		// an independent Writer + Reader working at the same time (package-level pools)
		writerOK := true
		wg.Add(1)
		go func() {
			defer wg.Done()
			<-start
			rr := rand.New(rand.NewSource(*seed + int64(round)))
			for k := 0; k < 3; k++ {
				d2, _, _, st2, b2, _ := buildFile(rr, rr.Intn(len(encModes)))
				w2 := open(d2)
				for _, s := range st2 {
					ok, _, dig := w2.do(op{"DecodeStream", s})
					if !ok || dig != digest(b2[s]) {
						writerOK = false
					}
				}
			}
		}()
		close(start)
		wg.Wait()
		rec.Writer = writerOK
		rec.Links = []linkEnt{}
		for k := 0; k < 3; k++ {
			links, err := formsRound(r, w.id)
			if err != nil {
				fmt.Fprintln(os.Stderr, "c18free: forms round:", err)
				os.Exit(3)
			}
			rec.Links = append(rec.Links, links...)
		}

		cache, _ := pdf.VerifCacheSnapshot(w.x)
		for k, v := range cache {
			var num, gen int
			var tp string
			fmt.Sscanf(k, "%d %d %s", &num, &gen, &tp)
			rec.Cache = append(rec.Cache, cacheEnt{Ref: num, Tp: tp, ID: w.id(v)})
		}
		// decoder runs of the exclusive-only key (never touched by Decode or Pair directly,
		// but reachable through /Next of its predecessor: only count when it is not)
		for ref := range exclOnly {
			rec.Runs = append(rec.Runs, runEnt{Ref: ref, Runs: w.runs[ref]})
		}
		must(enc.Encode(rec))
	}
}
