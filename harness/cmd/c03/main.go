package main

import (
	"verif/harness/core"
	"verif/harness/drive/c03"
)

func main() { core.Main(c03.Driver) }
