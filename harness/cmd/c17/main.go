package main

import (
	"verif/harness/core"
	"verif/harness/drive/c17"
)

func main() { core.Main(c17.Driver) }
