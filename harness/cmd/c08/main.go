package main

import (
	"verif/harness/core"
	"verif/harness/drive/c08"
)

func main() { core.Main(c08.Driver) }
