package main

import (
	"os"

	"verif/harness/core"
	"verif/harness/drive/c08"
)

func main() {
	if os.Getenv("VERIF_C08_WORKER") != "" {
		c08.Worker() // measures the cases it is sent on stdin; may be killed by the library
		return
	}
	core.Main(c08.Driver)
}
