package main

import (
	"verif/harness/core"
	"verif/harness/drive/c14"
)

func main() { core.Main(c14.Driver) }
