// Command dbgdump prints the C03 record of a fixed program (debugging aid).
package main

import (
	"encoding/json"
	"os"

	"verif/harness/drive/c02"
	"verif/harness/drive/c03"
)

func main() {
	prog := []c02.Op{{Op: "Put", N: 1, V: "a"}, {Op: "OpenStream", N: 2, V: "b", Lg: "none"}, {Op: "StreamWrite", K: 2},
		{Op: "CloseStream"}, {Op: "WriteCompressed", Ns: []int{6, 7}, Vs: []string{"a", "b"}}, {Op: "Close"}}
	for i := range prog {
		if prog[i].Ns == nil {
			prog[i].Ns, prog[i].Vs = []int{}, []string{}
		}
	}
	r, err := c02.Execute(c02.Config{Version: "1.7", Enc: "none"}, prog, 3)
	if err != nil {
		panic(err)
	}
	os.WriteFile("/tmp/dbg.pdf", r.Data, 0o644)
	json.NewEncoder(os.Stdout).Encode(c03.Observe(r))
}
