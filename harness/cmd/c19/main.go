package main

import (
	"verif/harness/core"
	"verif/harness/drive/c19"
)

func main() { core.Main(c19.Driver) }
