// Command extdev runs one extension driver alone (development aid; not
// registered in MANIFEST.json).  VERIF_EXT selects it; evidence goes to
// VERIF_OUT.
package main

import (
	"os"

	"verif/harness/core"
	"verif/harness/drive/outline"
)

func main() {
	switch os.Getenv("VERIF_EXT") {
	default:
		core.Main(core.Driver{ID: "C16", Level: "model_checking", Run: outline.Run, SelfTest: outline.SelfTest})
	}
}
