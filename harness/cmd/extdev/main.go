// Command extdev runs one extension driver alone (development aid; not
// registered in MANIFEST.json).  VERIF_EXT selects it; evidence goes to
// VERIF_OUT.
package main

import (
	"os"

	"verif/harness/core"
	"verif/harness/drive/labels"
	"verif/harness/drive/outline"
	"verif/harness/drive/ph"
)

func main() {
	switch os.Getenv("VERIF_EXT") {
	case "labels":
		core.Main(core.Driver{ID: "C16", Level: "model_checking", Run: labels.Run, SelfTest: labels.SelfTest})
	case "ph":
		core.Main(core.Driver{ID: "C02", Level: "model_checking", Run: ph.Run, Replay: ph.Replay, SelfTest: ph.SelfTest})
	default:
		core.Main(core.Driver{ID: "C16", Level: "model_checking", Run: outline.Run, SelfTest: outline.SelfTest})
	}
}
