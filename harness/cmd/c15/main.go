package main

import (
	"verif/harness/core"
	"verif/harness/drive/c15"
)

func main() { core.Main(c15.Driver) }
