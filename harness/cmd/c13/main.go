package main

import (
	"verif/harness/core"
	"verif/harness/drive/c13"
)

func main() { core.Main(c13.Driver) }
