package main

import (
	"verif/harness/core"
	"verif/harness/drive/c02"
)

func main() { core.Main(c02.Driver) }
