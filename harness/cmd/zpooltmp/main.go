package main

import (
	"encoding/json"

	"verif/harness/core"
	"verif/harness/drive/zpool"
)

func main() {
	core.Main(core.Driver{ID: "C18", Level: "model_checking", Run: zpool.Run, SelfTest: zpool.SelfTest,
		Replay: func(ctx *core.Ctx, c json.RawMessage) error { _, err := zpool.Replay(ctx, c); return err }})
}
