package main

import (
	"verif/harness/core"
	"verif/harness/drive/c12"
)

func main() { core.Main(c12.Driver) }
