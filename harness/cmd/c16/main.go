package main

import (
	"verif/harness/core"
	"verif/harness/drive/c16"
)

func main() { core.Main(c16.Driver) }
