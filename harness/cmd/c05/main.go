package main

import (
	"os"

	"verif/harness/core"
	"verif/harness/drive/c05"
)

func main() {
	if os.Getenv("C05_WORKER") != "" {
		c05.WorkerMain() // child process: executes cases on the real code (see drive/c05/worker.go)
		return
	}
	core.Main(c05.Driver)
}
