package main

import (
	"verif/harness/core"
	"verif/harness/drive/c09"
)

func main() { core.Main(c09.Driver) }
