package main

import (
	"verif/harness/core"
	"verif/harness/drive/c01"
)

func main() { core.Main(c01.Driver) }
