package main

import (
	"verif/harness/core"
	"verif/harness/drive/c04"
)

func main() { core.Main(c04.Driver) }
