package main

import (
	"verif/harness/core"
	"verif/harness/drive/c11"
)

func main() { core.Main(c11.Driver) }
