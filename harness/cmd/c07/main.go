package main

import (
	"verif/harness/core"
	"verif/harness/drive/c07"
)

func main() { core.Main(c07.Driver) }
