package main

import (
	"verif/harness/core"
	"verif/harness/drive/c10"
)

func main() { core.Main(c10.Driver) }
