package main

import (
	"verif/harness/core"
	"verif/harness/drive/c06"
)

func main() { core.Main(c06.Driver) }
