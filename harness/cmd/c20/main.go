package main

import (
	"verif/harness/core"
	"verif/harness/drive/c20"
)

func main() { core.Main(c20.Driver) }
