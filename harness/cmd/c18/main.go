package main

import (
	"verif/harness/core"
	"verif/harness/drive/c18"
)

func main() { core.Main(c18.Driver) }
