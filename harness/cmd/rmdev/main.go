package main

import (
	"verif/harness/core"
	"verif/harness/drive/rm"
)

func main() { core.Main(core.Driver{ID: "RMDEV", Level: "model_checking", Run: rm.Run, SelfTest: rm.SelfTest}) }
