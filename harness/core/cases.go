package core

import (
	"bytes"
	"encoding/json"
	"fmt"
	"os"
	"path/filepath"
	"sort"
	"sync"
)

// NDJSON renders values one JSON document per line.
func NDJSON[T any](vals []T) ([]byte, error) {
	var buf bytes.Buffer
	enc := json.NewEncoder(&buf)
	enc.SetEscapeHTML(false)
	for _, v := range vals {
		if err := enc.Encode(v); err != nil {
			return nil, err
		}
	}
	return buf.Bytes(), nil
}

// ReadNDJSON parses one JSON document per line.
func ReadNDJSON[T any](data []byte) ([]T, error) {
	var out []T
	dec := json.NewDecoder(bytes.NewReader(data))
	for dec.More() {
		var v T
		if err := dec.Decode(&v); err != nil {
			return out, err
		}
		out = append(out, v)
	}
	return out, nil
}

// JudgeCases lets TLC evaluate the specification on records produced by the
// real code.  The module named in o must follow the TraceLib convention: it
// reads `IOEnv.CASES` (ndjson), steps through the records one state per record,
// and finally writes `[bad |-> <<indices>>]` to `IOEnv.OUT`.  The indices of
// the rejected records (0-based, into cases) are returned.  Batches run as
// parallel single-worker TLC processes.
func JudgeCases[T any](c *Ctx, o TLCOpts, cases []T, batch, parallel int) ([]int, error) {
	if len(cases) == 0 {
		return nil, nil
	}
	if batch <= 0 {
		batch = 2000
	}
	if parallel <= 0 {
		parallel = 8
	}
	type job struct{ lo, hi int }
	var jobs []job
	for lo := 0; lo < len(cases); lo += batch {
		hi := lo + batch
		if hi > len(cases) {
			hi = len(cases)
		}
		jobs = append(jobs, job{lo, hi})
	}
	var (
		mu     sync.Mutex
		bad    []int
		first  error
		wg     sync.WaitGroup
		sem    = make(chan struct{}, parallel)
		events int
	)
	for _, j := range jobs {
		wg.Add(1)
		sem <- struct{}{}
		go func(j job) {
			defer wg.Done()
			defer func() { <-sem }()
			data, err := NDJSON(cases[j.lo:j.hi])
			if err != nil {
				mu.Lock()
				if first == nil {
					first = Infra("encode cases: %v", err)
				}
				mu.Unlock()
				return
			}
			oo := o
			oo.Mode = "trace"
			oo.Workers = 1
			oo.Quiet = true
			oo.Files = map[string][]byte{"cases.ndjson": data}
			for k, v := range o.Files {
				oo.Files[k] = v
			}
			oo.Env = map[string]string{"CASES": "cases.ndjson", "OUT": "out.ndjson"}
			for k, v := range o.Env {
				oo.Env[k] = v
			}
			res, err := c.TLC(oo)
			if err == nil && !res.OK() {
				err = Infra("trace spec %s/%s failed unexpectedly: inv=%q deadlock=%v\n%s", o.Dir, o.Module, res.Invariant, res.Deadlock, tail(res.Output, 2000))
			}
			var got []struct {
				Bad []int `json:"bad"`
			}
			if err == nil {
				var raw []byte
				raw, err = os.ReadFile(filepath.Join(res.RunDir, "out.ndjson"))
				if err == nil {
					got, err = ReadNDJSON[struct {
						Bad []int `json:"bad"`
					}](raw)
				}
				if err != nil {
					err = Infra("trace spec %s/%s wrote no verdict: %v\n%s", o.Dir, o.Module, err, tail(res.Output, 2000))
				} else if len(got) != 1 {
					err = Infra("trace spec %s/%s: malformed verdict", o.Dir, o.Module)
				} else if res.Distinct < int64(j.hi-j.lo) {
					err = Infra("trace spec %s/%s consumed %d of %d records", o.Dir, o.Module, res.Distinct, j.hi-j.lo)
				}
			}
			if res != nil {
				os.RemoveAll(res.RunDir)
			}
			mu.Lock()
			defer mu.Unlock()
			if err != nil {
				if first == nil {
					first = err
				}
				return
			}
			events += j.hi - j.lo
			for _, b := range got[0].Bad {
				bad = append(bad, j.lo+b-1) // TLA+ indices are 1-based
			}
		}(j)
	}
	wg.Wait()
	if first != nil {
		return nil, first
	}
	sort.Ints(bad)
	c.Ev.Traces(len(cases), events)
	c.Logf("tlc %s/%s judged %d records from the implementation, %d rejected", o.Dir, o.Module, len(cases), len(bad))
	return bad, nil
}

// GenCases runs a generator module that writes ndjson records to IOEnv.OUT
// and returns them decoded.
func GenCases[T any](c *Ctx, o TLCOpts) ([]T, *TLCResult, error) {
	oo := o
	if oo.Env == nil {
		oo.Env = map[string]string{}
	}
	oo.Env["OUT"] = "gen.ndjson"
	res, err := c.TLC(oo)
	if err != nil {
		return nil, res, err
	}
	if !res.OK() {
		return nil, res, Infra("generator %s/%s failed:\n%s", o.Dir, o.Module, tail(res.Output, 2000))
	}
	raw, err := os.ReadFile(filepath.Join(res.RunDir, "gen.ndjson"))
	if err != nil {
		return nil, res, Infra("generator %s/%s wrote nothing: %v", o.Dir, o.Module, err)
	}
	vals, err := ReadNDJSON[T](raw)
	if err != nil {
		return nil, res, Infra("generator %s/%s: %v", o.Dir, o.Module, err)
	}
	os.RemoveAll(res.RunDir)
	return vals, res, nil
}

// Fmt is fmt.Sprintf (saves an import in drivers).
func Fmt(format string, a ...any) string { return fmt.Sprintf(format, a...) }
