// Package core is the shared machinery of the go-pdf verification harness:
// command-line handling, TLC execution, evidence and replay files, and the
// known-findings protocol.  It imports nothing from go-pdf.
package core

import (
	"crypto/sha256"
	"encoding/hex"
	"encoding/json"
	"errors"
	"flag"
	"fmt"
	"math/rand"
	"os"
	"path/filepath"
	"sort"
	"strconv"
	"strings"
	"sync"
	"time"
)

// Driver is what a property check provides.
type Driver struct {
	// ID is the property id, e.g. "C12".
	ID string
	// Level is the evidence level ("model_checking", "exploration", ...).
	Level string
	// Run executes the whole check for ctx.Tier.
	Run func(ctx *Ctx) error
	// Replay re-executes one recorded case on the real code.  It must call
	// ctx.Violation again when the case still fails.
	Replay func(ctx *Ctx, c json.RawMessage) error
	// SelfTest runs the negative controls (corrupted trace must be rejected,
	// no vacuous actions).  Optional.
	SelfTest func(ctx *Ctx) error
}

// InfraError marks a failure of the machinery (TLC timeout, build error, ...):
// exit status 2, never a violation.
type InfraError struct{ Err error }

func (e *InfraError) Error() string { return "infrastructure: " + e.Err.Error() }
func (e *InfraError) Unwrap() error { return e.Err }

// Infra wraps err as an infrastructure failure.
func Infra(format string, a ...any) error {
	return &InfraError{fmt.Errorf(format, a...)}
}

// Ctx carries the state of one check run.
type Ctx struct {
	ID       string
	Tier     string // "quick" or "thorough"
	Seed     int64
	VerifDir string // /verif
	RepoDir  string // /repo unless VERIF_REPO is set
	WorkDir  string // scratch directory, removed by bin/check
	SelfTest bool

	Ev *Evidence

	mu         sync.Mutex
	known      []finding
	violations int
	knownHits  map[string]bool
	start      time.Time
	tlcSeq     int
}

// Thorough reports whether the thorough tier was requested.
func (c *Ctx) Thorough() bool { return c.Tier == "thorough" }

// Pick returns q in the quick tier and t in the thorough tier.
func (c *Ctx) Pick(q, t int) int {
	if c.Thorough() {
		return t
	}
	return q
}

// Rand returns a deterministic generator derived from the seed and a label.
func (c *Ctx) Rand(label string) *rand.Rand {
	h := sha256.Sum256([]byte(fmt.Sprintf("%d/%s/%s", c.Seed, c.ID, label)))
	var s int64
	for i := 0; i < 8; i++ {
		s = s<<8 | int64(h[i])
	}
	return rand.New(rand.NewSource(s))
}

// Logf writes progress output to stderr.
func (c *Ctx) Logf(format string, a ...any) {
	fmt.Fprintf(os.Stderr, "[%s %6.1fs] %s\n", c.ID, time.Since(c.start).Seconds(), fmt.Sprintf(format, a...))
}

// SpecDir returns the path of a sub-directory of /verif/spec.
func (c *Ctx) SpecDir(sub string) string { return filepath.Join(c.VerifDir, "spec", sub) }

// Scratch returns a fresh directory below the work directory.
func (c *Ctx) Scratch(name string) string {
	c.mu.Lock()
	c.tlcSeq++
	n := c.tlcSeq
	c.mu.Unlock()
	d := filepath.Join(c.WorkDir, fmt.Sprintf("%s-%d", name, n))
	_ = os.MkdirAll(d, 0o755)
	return d
}

type finding struct {
	kind string // "finding" or "fixed"
	prop string
	key  string
	text string
}

func (c *Ctx) loadKnown() error {
	data, err := os.ReadFile(filepath.Join(c.VerifDir, "known-findings.txt"))
	if errors.Is(err, os.ErrNotExist) {
		return nil
	}
	if err != nil {
		return err
	}
	for _, line := range strings.Split(string(data), "\n") {
		line = strings.TrimSpace(line)
		if line == "" || strings.HasPrefix(line, "#") {
			continue
		}
		var f finding
		switch {
		case strings.HasPrefix(line, "finding:"):
			f.kind = "finding"
			line = strings.TrimSpace(strings.TrimPrefix(line, "finding:"))
		case strings.HasPrefix(line, "fixed:"):
			f.kind = "fixed"
			line = strings.TrimSpace(strings.TrimPrefix(line, "fixed:"))
		default:
			continue
		}
		for _, w := range strings.Fields(line) {
			if strings.HasPrefix(w, "property=") && f.prop == "" {
				f.prop = strings.TrimPrefix(w, "property=")
			} else if strings.HasPrefix(w, "key=") && f.key == "" {
				f.key = strings.TrimPrefix(w, "key=")
			}
		}
		f.text = line
		c.known = append(c.known, f)
	}
	return nil
}

// Violation records that the real code broke the property on the given case.
// key is a stable, specific identifier of the failure class (used to match
// known-findings.txt); what is a one-line description; replayCase is the
// concrete input, stored so that `--replay` can re-execute it.
//
// If key matches a `finding:` line the violation is reported as KNOWN-FINDING
// (once per key) and does not make the check fail.
func (c *Ctx) Violation(key, what string, replayCase any) {
	c.mu.Lock()
	defer c.mu.Unlock()
	for _, f := range c.known {
		if f.kind == "finding" && f.prop == c.ID && f.key == key {
			if !c.knownHits[key] {
				c.knownHits[key] = true
				fmt.Printf("KNOWN-FINDING: property=%s key=%s %s\n", c.ID, key, what)
			}
			c.Ev.KnownFindingHits++
			return
		}
	}
	c.violations++
	c.Ev.Violations = c.violations
	if c.violations > 20 {
		return // enough replay files
	}
	dir := filepath.Join(c.outDir("replays"), c.ID)
	_ = os.MkdirAll(dir, 0o755)
	h := sha256.Sum256([]byte(key + what))
	path := filepath.Join(dir, fmt.Sprintf("%s-%s.json", sanitize(key), hex.EncodeToString(h[:4])))
	rec := map[string]any{
		"property": c.ID,
		"key":      key,
		"what":     what,
		"seed":     c.Seed,
		"tier":     c.Tier,
		"case":     replayCase,
	}
	data, _ := json.MarshalIndent(rec, "", " ")
	_ = os.WriteFile(path, data, 0o644)
	fmt.Printf("VIOLATION property=%s replay=%s\n", c.ID, path)
	fmt.Printf("  key=%s %s\n", key, what)
}

// Violations returns the number of (unknown) violations so far.
func (c *Ctx) Violations() int {
	c.mu.Lock()
	defer c.mu.Unlock()
	return c.violations
}

func sanitize(s string) string {
	var b strings.Builder
	for _, r := range s {
		if r >= 'a' && r <= 'z' || r >= 'A' && r <= 'Z' || r >= '0' && r <= '9' || r == '-' || r == '_' || r == '.' {
			b.WriteRune(r)
		} else {
			b.WriteByte('_')
		}
		if b.Len() > 60 {
			break
		}
	}
	return b.String()
}

func (c *Ctx) outDir(kind string) string {
	if d := os.Getenv("VERIF_OUT"); d != "" {
		return filepath.Join(d, kind)
	}
	return filepath.Join(c.VerifDir, kind)
}

// Main is the entry point of every per-property command.
//
//	cNN <quick|thorough> [--replay path] [--selftest]
func Main(d Driver) {
	fs := flag.NewFlagSet(d.ID, flag.ExitOnError)
	replay := fs.String("replay", "", "replay file to re-execute")
	selftest := fs.Bool("selftest", false, "run negative controls")
	tier := "quick"
	args := os.Args[1:]
	if len(args) > 0 && !strings.HasPrefix(args[0], "-") {
		tier = args[0]
		args = args[1:]
	}
	_ = fs.Parse(args)
	if t := os.Getenv("VERIF_TIER"); t != "" && len(os.Args) < 2 {
		tier = t
	}
	if tier != "quick" && tier != "thorough" {
		fmt.Fprintf(os.Stderr, "unknown tier %q\n", tier)
		os.Exit(2)
	}
	seed := int64(1)
	if s := os.Getenv("VERIF_SEED"); s != "" {
		if v, err := strconv.ParseInt(s, 10, 64); err == nil {
			seed = v
		}
	}
	ctx := &Ctx{
		ID:        d.ID,
		Tier:      tier,
		Seed:      seed,
		VerifDir:  envOr("VERIF_DIR", "/verif"),
		RepoDir:   envOr("VERIF_REPO", "/repo"),
		WorkDir:   os.Getenv("VERIF_WORK"),
		SelfTest:  *selftest,
		knownHits: map[string]bool{},
		start:     time.Now(),
	}
	if ctx.WorkDir == "" {
		w, err := os.MkdirTemp("", "verif-"+d.ID+"-")
		if err != nil {
			fmt.Fprintln(os.Stderr, err)
			os.Exit(2)
		}
		ctx.WorkDir = w
		defer os.RemoveAll(w)
	}
	ctx.Ev = newEvidence(d.ID, tier, seed, d.Level)
	if err := ctx.loadKnown(); err != nil {
		fmt.Fprintln(os.Stderr, err)
		os.Exit(2)
	}

	var err error
	switch {
	case *replay != "":
		err = runReplay(ctx, d, *replay)
	case *selftest:
		if d.SelfTest == nil {
			err = Infra("no self-test defined for %s", d.ID)
		} else {
			err = d.SelfTest(ctx)
		}
	default:
		err = d.Run(ctx)
	}

	code := 0
	if err != nil {
		var ie *InfraError
		fmt.Fprintf(os.Stderr, "%s: %v\n", d.ID, err)
		if ctx.violations == 0 {
			// a failure of the machinery is never a verdict
			code = 2
		}
		// violations already confirmed on the real code stand (exit 1) even if
		// the machinery failed later in the run
		_ = ie
	}
	if *replay == "" && !*selftest && code != 2 {
		ctx.Ev.WallS = time.Since(ctx.start).Seconds()
		if werr := ctx.Ev.write(filepath.Join(ctx.outDir("evidence"), d.ID+".json")); werr != nil {
			fmt.Fprintf(os.Stderr, "%s: cannot write evidence: %v\n", d.ID, werr)
			code = 2
		}
	}
	if code == 0 && ctx.violations > 0 {
		code = 1
	}
	if ctx.WorkDir != "" && os.Getenv("VERIF_WORK") == "" {
		os.RemoveAll(ctx.WorkDir)
	}
	if code == 0 {
		fmt.Printf("OK property=%s tier=%s seed=%d wall=%.1fs\n", d.ID, tier, seed, time.Since(ctx.start).Seconds())
	}
	os.Exit(code)
}

func runReplay(ctx *Ctx, d Driver, path string) error {
	data, err := os.ReadFile(path)
	if err != nil {
		return Infra("replay: %v", err)
	}
	var rec struct {
		Property string          `json:"property"`
		Key      string          `json:"key"`
		What     string          `json:"what"`
		Case     json.RawMessage `json:"case"`
	}
	if err := json.Unmarshal(data, &rec); err != nil {
		return Infra("replay: %v", err)
	}
	if d.Replay == nil {
		return Infra("no replay function defined for %s", d.ID)
	}
	fmt.Printf("replaying %s (key=%s): %s\n", path, rec.Key, rec.What)
	if err := d.Replay(ctx, rec.Case); err != nil {
		return err
	}
	if ctx.violations == 0 && len(ctx.knownHits) == 0 {
		fmt.Printf("replay: case passes on this tree\n")
	}
	return nil
}

func envOr(k, def string) string {
	if v := os.Getenv(k); v != "" {
		return v
	}
	return def
}

// SortedKeys returns the keys of a set in sorted order.
func SortedKeys[V any](m map[string]V) []string {
	keys := make([]string, 0, len(m))
	for k := range m {
		keys = append(keys, k)
	}
	sort.Strings(keys)
	return keys
}

// Dur returns a duration in minutes depending on the tier.
func (c *Ctx) Dur(quickMin, thoroughMin int) time.Duration {
	return time.Duration(c.Pick(quickMin, thoroughMin)) * time.Minute
}
