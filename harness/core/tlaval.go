package core

import (
	"fmt"
	"sort"
	"strconv"
	"strings"
)

// TLA+ values as TLC prints them, parsed into Go:
//
//	integers -> int, strings -> string, TRUE/FALSE -> bool,
//	model values / identifiers -> TLAModel,
//	<<a, b>> -> []any, {a, b} -> TLASet,
//	[f |-> v, ...] -> map[string]any (record),
//	(k :> v @@ ...) -> TLAFunc (keys kept as parsed values)
type (
	// TLAModel is a model value such as p1.
	TLAModel string
	// TLASet is a finite set in the order TLC printed it.
	TLASet []any
	// TLAFunc is a function given by explicit pairs.
	TLAFunc struct {
		Keys []any
		Vals []any
	}
)

// Get returns the value of f at the key whose canonical text equals key.
func (f TLAFunc) Get(key string) (any, bool) {
	for i, k := range f.Keys {
		if TLAString(k) == key {
			return f.Vals[i], true
		}
	}
	return nil, false
}

// TLAString renders a parsed value canonically (used as map key / for comparison).
func TLAString(v any) string {
	switch x := v.(type) {
	case int:
		return strconv.Itoa(x)
	case string:
		return strconv.Quote(x)
	case bool:
		if x {
			return "TRUE"
		}
		return "FALSE"
	case TLAModel:
		return string(x)
	case []any:
		parts := make([]string, len(x))
		for i, e := range x {
			parts[i] = TLAString(e)
		}
		return "<<" + strings.Join(parts, ", ") + ">>"
	case TLASet:
		parts := make([]string, len(x))
		for i, e := range x {
			parts[i] = TLAString(e)
		}
		sort.Strings(parts)
		return "{" + strings.Join(parts, ", ") + "}"
	case map[string]any:
		keys := make([]string, 0, len(x))
		for k := range x {
			keys = append(keys, k)
		}
		sort.Strings(keys)
		parts := make([]string, len(keys))
		for i, k := range keys {
			parts[i] = k + " |-> " + TLAString(x[k])
		}
		return "[" + strings.Join(parts, ", ") + "]"
	case TLAFunc:
		parts := make([]string, len(x.Keys))
		for i := range x.Keys {
			parts[i] = TLAString(x.Keys[i]) + " :> " + TLAString(x.Vals[i])
		}
		sort.Strings(parts)
		return "(" + strings.Join(parts, " @@ ") + ")"
	}
	return fmt.Sprint(v)
}

type tlaParser struct {
	s   string
	pos int
}

// ParseTLA parses one TLA+ value in TLC's output syntax.
func ParseTLA(s string) (any, error) {
	p := &tlaParser{s: s}
	v, err := p.value()
	if err != nil {
		return nil, err
	}
	p.ws()
	if p.pos != len(p.s) {
		return nil, fmt.Errorf("tla value: trailing text at %d: %q", p.pos, p.rest(20))
	}
	return v, nil
}

// ParseTLAState parses a state printed as a conjunction `/\ x = v /\ y = w`.
func ParseTLAState(s string) (map[string]any, error) {
	p := &tlaParser{s: s}
	out := map[string]any{}
	for {
		p.ws()
		if p.pos >= len(p.s) {
			return out, nil
		}
		if strings.HasPrefix(p.s[p.pos:], "/\\") {
			p.pos += 2
			p.ws()
		}
		name := p.ident()
		if name == "" {
			return nil, fmt.Errorf("tla state: variable name expected at %d: %q", p.pos, p.rest(20))
		}
		p.ws()
		if !p.eat("=") {
			return nil, fmt.Errorf("tla state: '=' expected after %s", name)
		}
		v, err := p.value()
		if err != nil {
			return nil, fmt.Errorf("tla state: %s: %w", name, err)
		}
		out[name] = v
	}
}

func (p *tlaParser) rest(n int) string {
	if p.pos+n > len(p.s) {
		return p.s[p.pos:]
	}
	return p.s[p.pos : p.pos+n]
}

func (p *tlaParser) ws() {
	for p.pos < len(p.s) && (p.s[p.pos] == ' ' || p.s[p.pos] == '\n' || p.s[p.pos] == '\t' || p.s[p.pos] == '\r') {
		p.pos++
	}
}

func (p *tlaParser) eat(tok string) bool {
	p.ws()
	if strings.HasPrefix(p.s[p.pos:], tok) {
		p.pos += len(tok)
		return true
	}
	return false
}

func (p *tlaParser) peek(tok string) bool {
	p.ws()
	return strings.HasPrefix(p.s[p.pos:], tok)
}

func (p *tlaParser) ident() string {
	start := p.pos
	for p.pos < len(p.s) {
		c := p.s[p.pos]
		if c >= 'a' && c <= 'z' || c >= 'A' && c <= 'Z' || c >= '0' && c <= '9' || c == '_' {
			p.pos++
		} else {
			break
		}
	}
	return p.s[start:p.pos]
}

func (p *tlaParser) value() (any, error) {
	p.ws()
	if p.pos >= len(p.s) {
		return nil, fmt.Errorf("unexpected end")
	}
	c := p.s[p.pos]
	switch {
	case c == '"':
		p.pos++
		var b strings.Builder
		for p.pos < len(p.s) && p.s[p.pos] != '"' {
			if p.s[p.pos] == '\\' && p.pos+1 < len(p.s) {
				p.pos++
				switch p.s[p.pos] {
				case 'n':
					b.WriteByte('\n')
				case 't':
					b.WriteByte('\t')
				default:
					b.WriteByte(p.s[p.pos])
				}
			} else {
				b.WriteByte(p.s[p.pos])
			}
			p.pos++
		}
		if p.pos >= len(p.s) {
			return nil, fmt.Errorf("unterminated string")
		}
		p.pos++
		return b.String(), nil
	case c == '-' || c >= '0' && c <= '9':
		start := p.pos
		p.pos++
		for p.pos < len(p.s) && p.s[p.pos] >= '0' && p.s[p.pos] <= '9' {
			p.pos++
		}
		n, err := strconv.Atoi(p.s[start:p.pos])
		if err != nil {
			return nil, err
		}
		if p.peek("..") { // interval lo..hi
			p.eat("..")
			hi, err := p.value()
			if err != nil {
				return nil, err
			}
			h, ok := hi.(int)
			if !ok {
				return nil, fmt.Errorf("bad interval")
			}
			var set TLASet
			for i := n; i <= h; i++ {
				set = append(set, i)
			}
			return set, nil
		}
		return n, nil
	case strings.HasPrefix(p.s[p.pos:], "<<"):
		p.pos += 2
		seq := []any{}
		if p.eat(">>") {
			return seq, nil
		}
		for {
			v, err := p.value()
			if err != nil {
				return nil, err
			}
			seq = append(seq, v)
			if p.eat(",") {
				continue
			}
			if p.eat(">>") {
				return seq, nil
			}
			return nil, fmt.Errorf("sequence: ',' or '>>' expected at %d: %q", p.pos, p.rest(20))
		}
	case c == '{':
		p.pos++
		set := TLASet{}
		if p.eat("}") {
			return set, nil
		}
		for {
			v, err := p.value()
			if err != nil {
				return nil, err
			}
			set = append(set, v)
			if p.eat(",") {
				continue
			}
			if p.eat("}") {
				return set, nil
			}
			return nil, fmt.Errorf("set: ',' or '}' expected at %d: %q", p.pos, p.rest(20))
		}
	case c == '[':
		p.pos++
		rec := map[string]any{}
		if p.eat("]") {
			return rec, nil
		}
		for {
			p.ws()
			name := p.ident()
			if name == "" || !p.eat("|->") {
				return nil, fmt.Errorf("record: field expected at %d: %q", p.pos, p.rest(20))
			}
			v, err := p.value()
			if err != nil {
				return nil, err
			}
			rec[name] = v
			if p.eat(",") {
				continue
			}
			if p.eat("]") {
				return rec, nil
			}
			return nil, fmt.Errorf("record: ',' or ']' expected at %d: %q", p.pos, p.rest(20))
		}
	case c == '(':
		p.pos++
		var f TLAFunc
		for {
			k, err := p.value()
			if err != nil {
				return nil, err
			}
			if !p.eat(":>") {
				return nil, fmt.Errorf("function: ':>' expected at %d: %q", p.pos, p.rest(20))
			}
			v, err := p.value()
			if err != nil {
				return nil, err
			}
			f.Keys = append(f.Keys, k)
			f.Vals = append(f.Vals, v)
			if p.eat("@@") {
				continue
			}
			if p.eat(")") {
				return f, nil
			}
			return nil, fmt.Errorf("function: '@@' or ')' expected at %d: %q", p.pos, p.rest(20))
		}
	default:
		id := p.ident()
		switch id {
		case "":
			return nil, fmt.Errorf("unexpected character %q at %d", c, p.pos)
		case "TRUE":
			return true, nil
		case "FALSE":
			return false, nil
		}
		return TLAModel(id), nil
	}
}
