package core

import (
	"bytes"
	"context"
	"fmt"
	"io"
	"os"
	"os/exec"
	"path/filepath"
	"regexp"
	"strconv"
	"strings"
	"time"
)

const (
	tlaJar  = "/opt/veriftools/tla/tla2tools.jar"
	tlaDeps = "/opt/veriftools/tla/CommunityModules-deps.jar"
)

// TLCOpts describes one TLC run.
type TLCOpts struct {
	Dir     string // sub-directory of /verif/spec holding the module
	Module  string // root module (Module.tla)
	Cfg     string // configuration file name inside Dir ...
	CfgText string // ... or the configuration text itself
	// Mode is "exhaustive" (counts toward states/transitions), "simulate",
	// "trace" (validation of recorded traces) or "evaluate" (case tables).
	Mode      string
	Workers   int
	Timeout   time.Duration
	Env       map[string]string // visible to the spec as IOEnv.NAME
	Files     map[string][]byte // extra files placed next to the module
	Simulate  string            // e.g. "num=500" (adds -simulate)
	Depth     int
	Seed      int64
	Coverage  bool
	Continue  bool
	DFS       bool // depth-first state queue (trace validation with branching)
	XssMB     int
	XmxMB     int
	DumpTrace string // file name (json) for a counter-example
	ExtraArgs []string
	Constants string // free text recorded in the evidence
	Quiet     bool
}

// TLCResult is the digest of a TLC run.
type TLCResult struct {
	Generated, Distinct int64
	Depth               int
	ExitCode            int
	Output              string
	RunDir              string
	Invariant           string // name of a violated invariant, if any
	TemporalViolated    bool
	Deadlock            bool
	AssumeFalse         bool
	PostcondFalse       bool
	EvalError           string // TLC runtime error text
	ZeroCoverage        []string
	Wall                float64
}

// OK reports whether the run ended without any violation or error.
func (r *TLCResult) OK() bool {
	return r.ExitCode == 0 && r.Invariant == "" && !r.TemporalViolated && !r.Deadlock &&
		!r.AssumeFalse && !r.PostcondFalse && r.EvalError == ""
}

var (
	reStats   = regexp.MustCompile(`(?m)^(\d+) states generated, (\d+) distinct states found, (\d+) states left on queue`)
	reDepth   = regexp.MustCompile(`The depth of the complete state graph search is (\d+)`)
	reInv     = regexp.MustCompile(`Error: Invariant (\S+) is violated`)
	reCovZero = regexp.MustCompile(`(?m)^<(\w+) line [^>]*>: 0:0$`)
)

// copySpec places spec/lib and spec/<dir> side by side in a scratch directory.
func (c *Ctx) copySpec(dir string) (string, error) {
	run := c.Scratch("tlc")
	for _, d := range []string{"lib", dir} {
		src := c.SpecDir(d)
		ents, err := os.ReadDir(src)
		if err != nil {
			if d == "lib" {
				continue
			}
			return "", err
		}
		for _, e := range ents {
			if e.IsDir() {
				continue
			}
			n := e.Name()
			if !(strings.HasSuffix(n, ".tla") || strings.HasSuffix(n, ".cfg")) {
				continue
			}
			data, err := os.ReadFile(filepath.Join(src, n))
			if err != nil {
				return "", err
			}
			if err := os.WriteFile(filepath.Join(run, n), data, 0o644); err != nil {
				return "", err
			}
		}
	}
	return run, nil
}

// TLC runs the model checker.  An error is returned only for infrastructure
// problems (time-out, JVM failure, parse errors of the spec); violations are
// reported in the result.
func (c *Ctx) TLC(o TLCOpts) (*TLCResult, error) {
	run, err := c.copySpec(o.Dir)
	if err != nil {
		return nil, Infra("tlc: %v", err)
	}
	cfg := o.Cfg
	if o.CfgText != "" {
		cfg = o.Module + "_gen.cfg"
		if err := os.WriteFile(filepath.Join(run, cfg), []byte(o.CfgText), 0o644); err != nil {
			return nil, Infra("tlc: %v", err)
		}
	}
	for name, data := range o.Files {
		if err := os.WriteFile(filepath.Join(run, name), data, 0o644); err != nil {
			return nil, Infra("tlc: %v", err)
		}
	}
	if o.Mode == "" {
		o.Mode = "exhaustive"
	}
	workers := o.Workers
	if workers == 0 {
		if o.Mode == "exhaustive" {
			workers = 8
		} else {
			workers = 1
		}
	}
	timeout := o.Timeout
	if timeout == 0 {
		timeout = 10 * time.Minute
	}
	xss := o.XssMB
	if xss == 0 {
		xss = 256
	}
	xmx := o.XmxMB
	if xmx == 0 {
		xmx = 6000
	}
	// TLC leaves a tlc-* entry in java.io.tmpdir on every run: keep it inside
	// the run directory, which is removed with the scratch directory
	jtmp := filepath.Join(run, "jtmp")
	_ = os.MkdirAll(jtmp, 0o755)
	args := []string{"-XX:+UseParallelGC", fmt.Sprintf("-Xss%dm", xss), fmt.Sprintf("-Xmx%dm", xmx), "-Djava.io.tmpdir=" + jtmp}
	if o.DFS {
		args = append(args, "-Dtlc2.tool.queue.IStateQueue=StateDeque")
	}
	args = append(args, "-cp", tlaJar+":"+tlaDeps, "tlc2.TLC",
		"-metadir", filepath.Join(run, "meta"), "-workers", strconv.Itoa(workers),
		"-config", cfg, "-noGenerateSpecTE")
	if o.Simulate != "" {
		args = append(args, "-simulate", o.Simulate)
	}
	if o.Depth > 0 {
		args = append(args, "-depth", strconv.Itoa(o.Depth))
	}
	if o.Seed != 0 {
		args = append(args, "-seed", strconv.FormatInt(o.Seed, 10))
	}
	if o.Coverage {
		args = append(args, "-coverage", "1")
	}
	if o.Continue {
		args = append(args, "-continue")
	}
	if o.DumpTrace != "" {
		args = append(args, "-dumpTrace", "json", o.DumpTrace)
	}
	args = append(args, o.ExtraArgs...)
	args = append(args, o.Module+".tla")

	cctx, cancel := context.WithTimeout(context.Background(), timeout)
	defer cancel()
	cmd := exec.CommandContext(cctx, "java", args...)
	cmd.Dir = run
	cmd.Env = os.Environ()
	for k, v := range o.Env {
		cmd.Env = append(cmd.Env, k+"="+v)
	}
	cmd.Env = append(cmd.Env, "RUNDIR="+run)
	var buf bytes.Buffer
	cmd.Stdout = &buf
	cmd.Stderr = &buf
	t0 := time.Now()
	runErr := cmd.Run()
	res := &TLCResult{Output: buf.String(), RunDir: run, Wall: time.Since(t0).Seconds()}
	if cctx.Err() != nil {
		return res, Infra("tlc %s/%s: timed out after %v", o.Dir, o.Module, timeout)
	}
	if runErr != nil {
		if ee, ok := runErr.(*exec.ExitError); ok {
			res.ExitCode = ee.ExitCode()
		} else {
			return res, Infra("tlc %s/%s: %v", o.Dir, o.Module, runErr)
		}
	}
	out := res.Output
	if m := reStats.FindAllStringSubmatch(out, -1); len(m) > 0 {
		last := m[len(m)-1]
		res.Generated, _ = strconv.ParseInt(last[1], 10, 64)
		res.Distinct, _ = strconv.ParseInt(last[2], 10, 64)
	}
	if m := reDepth.FindStringSubmatch(out); m != nil {
		res.Depth, _ = strconv.Atoi(m[1])
	}
	if m := reInv.FindStringSubmatch(out); m != nil {
		res.Invariant = m[1]
	}
	res.TemporalViolated = strings.Contains(out, "Temporal properties were violated") ||
		(strings.Contains(out, "Error: Action property") && strings.Contains(out, "is violated")) ||
		(strings.Contains(out, "Error: Temporal property") && strings.Contains(out, "violated"))
	res.Deadlock = strings.Contains(out, "Error: Deadlock reached")
	res.AssumeFalse = strings.Contains(out, "Error: Assumption") && strings.Contains(out, "is false")
	res.PostcondFalse = strings.Contains(out, "Error: The postcondition") || strings.Contains(out, "Postcondition")&&strings.Contains(out, "violated")
	for _, m := range reCovZero.FindAllStringSubmatch(out, -1) {
		res.ZeroCoverage = append(res.ZeroCoverage, m[1])
	}
	// anything else that TLC calls an error is an evaluation / parse problem
	if !res.OK() || strings.Contains(out, "Error:") {
		if res.Invariant == "" && !res.TemporalViolated && !res.Deadlock && !res.AssumeFalse && !res.PostcondFalse {
			i := strings.Index(out, "Error:")
			if i < 0 {
				i = 0
			}
			end := i + 1500
			if end > len(out) {
				end = len(out)
			}
			res.EvalError = out[i:end]
		}
	}
	c.Ev.addModel(ModelRun{Module: o.Dir + "/" + o.Module, Config: cfgName(o), Mode: o.Mode,
		Generated: res.Generated, Distinct: res.Distinct, Depth: res.Depth, WallS: res.Wall, Constants: o.Constants})
	if !o.Quiet {
		c.Logf("tlc %s/%s [%s] %s: generated=%d distinct=%d depth=%d exit=%d %.1fs", o.Dir, o.Module, cfgName(o), o.Mode,
			res.Generated, res.Distinct, res.Depth, res.ExitCode, res.Wall)
	}
	if res.EvalError != "" {
		return res, Infra("tlc %s/%s: %s", o.Dir, o.Module, res.EvalError)
	}
	return res, nil
}

func cfgName(o TLCOpts) string {
	if o.Cfg != "" {
		return o.Cfg
	}
	return "(inline)"
}

// MustHold runs an exhaustive design model and turns any violation of the
// *model* into an infrastructure error: a design model that fails says the
// specification and the machinery disagree, it is never a verdict on the code.
func (c *Ctx) MustHold(o TLCOpts) (*TLCResult, error) {
	res, err := c.TLC(o)
	if err != nil {
		return res, err
	}
	if !res.OK() {
		return res, Infra("design model %s/%s (%s) does not hold: invariant=%q temporal=%v deadlock=%v assume=%v\n%s",
			o.Dir, o.Module, cfgName(o), res.Invariant, res.TemporalViolated, res.Deadlock, res.AssumeFalse, tail(res.Output, 3000))
	}
	if res.Distinct == 0 && o.Mode == "exhaustive" {
		return res, Infra("design model %s/%s explored no states", o.Dir, o.Module)
	}
	return res, nil
}

func tail(s string, n int) string {
	if len(s) <= n {
		return s
	}
	return s[len(s)-n:]
}

// ReadRunFile reads a file TLC wrote into its run directory.
func (r *TLCResult) ReadRunFile(name string) ([]byte, error) {
	f, err := os.Open(filepath.Join(r.RunDir, name))
	if err != nil {
		return nil, err
	}
	defer f.Close()
	return io.ReadAll(f)
}
