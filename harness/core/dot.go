package core

import (
	"bufio"
	"bytes"
	"fmt"
	"math/rand"
	"os"
	"path/filepath"
	"regexp"
	"strings"
)

// StateGraph is a TLC state graph read from `-dump dot,actionlabels`.
type StateGraph struct {
	Init   string              // id of the initial state
	Labels map[string]string   // state id -> state text (conjunction of var = value)
	Out    map[string][]Edge   // outgoing edges
	states map[string]map[string]any
}

// Edge is a labelled transition.
type Edge struct {
	From, To string
	Action   string // e.g. `GetDone(p1)`
}

var (
	reDotNode = regexp.MustCompile(`^(-?\d+) \[label="((?:[^"\\]|\\.)*)"`)
	reDotEdge = regexp.MustCompile(`^(-?\d+) -> (-?\d+) \[label="((?:[^"\\]|\\.)*)"`)
)

func unescapeDot(s string) string {
	var b strings.Builder
	for i := 0; i < len(s); i++ {
		if s[i] == '\\' && i+1 < len(s) {
			i++
			switch s[i] {
			case 'n':
				b.WriteByte('\n')
			case '\\':
				b.WriteByte('\\')
			case '"':
				b.WriteByte('"')
			default:
				b.WriteByte('\\')
				b.WriteByte(s[i])
			}
			continue
		}
		b.WriteByte(s[i])
	}
	return b.String()
}

// ReadStateGraph parses a dot dump written by TLC.
func ReadStateGraph(path string) (*StateGraph, error) {
	f, err := os.Open(path)
	if err != nil {
		return nil, err
	}
	defer f.Close()
	g := &StateGraph{Labels: map[string]string{}, Out: map[string][]Edge{}, states: map[string]map[string]any{}}
	sc := bufio.NewScanner(f)
	sc.Buffer(make([]byte, 1<<20), 1<<28)
	for sc.Scan() {
		line := sc.Bytes()
		if m := reDotEdge.FindSubmatch(line); m != nil {
			from, to := string(m[1]), string(m[2])
			g.Out[from] = append(g.Out[from], Edge{From: from, To: to, Action: unescapeDot(string(m[3]))})
			continue
		}
		if m := reDotNode.FindSubmatch(line); m != nil {
			id := string(m[1])
			if _, seen := g.Labels[id]; !seen {
				g.Labels[id] = unescapeDot(string(m[2]))
				if bytes.Contains(line, []byte("style = filled")) && g.Init == "" {
					g.Init = id
				}
			}
		}
	}
	if err := sc.Err(); err != nil {
		return nil, err
	}
	if g.Init == "" {
		return nil, fmt.Errorf("state graph %s: no initial state", path)
	}
	return g, nil
}

// State returns the parsed variables of a state.
func (g *StateGraph) State(id string) (map[string]any, error) {
	if s, ok := g.states[id]; ok {
		return s, nil
	}
	s, err := ParseTLAState(g.Labels[id])
	if err != nil {
		return nil, err
	}
	g.states[id] = s
	return s, nil
}

// NumEdges returns the number of transitions (self loops excluded).
func (g *StateGraph) NumEdges() int {
	n := 0
	for _, es := range g.Out {
		for _, e := range es {
			if e.From != e.To {
				n++
			}
		}
	}
	return n
}

// EdgeCover returns paths from the initial state that together traverse every
// transition of the graph at least once (self loops excluded).  Each path is
// extended greedily along uncovered edges and otherwise randomly until a state
// without successors (or maxLen) is reached.  With limit > 0 at most that many
// paths are returned (the coverage is then partial; the caller learns it from
// the second result: number of distinct edges covered).
func (g *StateGraph) EdgeCover(rnd *rand.Rand, maxLen, limit int) ([][]Edge, int) {
	// BFS tree for shortest paths from Init
	parent := map[string]*Edge{}
	order := []string{g.Init}
	seen := map[string]bool{g.Init: true}
	for i := 0; i < len(order); i++ {
		for k := range g.Out[order[i]] {
			e := &g.Out[order[i]][k]
			if !seen[e.To] {
				seen[e.To] = true
				parent[e.To] = e
				order = append(order, e.To)
			}
		}
	}
	pathTo := func(id string) []Edge {
		var rev []Edge
		for id != g.Init {
			e := parent[id]
			rev = append(rev, *e)
			id = e.From
		}
		for i, j := 0, len(rev)-1; i < j; i, j = i+1, j-1 {
			rev[i], rev[j] = rev[j], rev[i]
		}
		return rev
	}
	type ek struct{ from, to, act string }
	covered := map[ek]bool{}
	var paths [][]Edge
	for _, id := range order {
		for _, e := range g.Out[id] {
			if e.From == e.To || covered[ek{e.From, e.To, e.Action}] {
				continue
			}
			if limit > 0 && len(paths) >= limit {
				return paths, len(covered)
			}
			p := append(pathTo(e.From), e)
			for _, x := range p {
				covered[ek{x.From, x.To, x.Action}] = true
			}
			cur := e.To
			for len(p) < maxLen {
				outs := g.Out[cur]
				var fresh, any []Edge
				for _, o := range outs {
					if o.From == o.To {
						continue
					}
					any = append(any, o)
					if !covered[ek{o.From, o.To, o.Action}] {
						fresh = append(fresh, o)
					}
				}
				if len(any) == 0 {
					break
				}
				var nx Edge
				if len(fresh) > 0 {
					nx = fresh[rnd.Intn(len(fresh))]
				} else {
					nx = any[rnd.Intn(len(any))]
				}
				covered[ek{nx.From, nx.To, nx.Action}] = true
				p = append(p, nx)
				cur = nx.To
			}
			paths = append(paths, p)
		}
	}
	return paths, len(covered)
}

// DumpGraph runs TLC with `-dump dot,actionlabels` and returns the graph.
func (c *Ctx) DumpGraph(o TLCOpts) (*StateGraph, *TLCResult, error) {
	o.ExtraArgs = append(append([]string{}, o.ExtraArgs...), "-dump", "dot,actionlabels", "graph.dot")
	res, err := c.MustHold(o)
	if err != nil {
		return nil, res, err
	}
	g, err := ReadStateGraph(filepath.Join(res.RunDir, "graph.dot"))
	if err != nil {
		return nil, res, Infra("state graph of %s/%s: %v", o.Dir, o.Module, err)
	}
	return g, res, nil
}
