package core

import (
	"encoding/json"
	"os"
	"path/filepath"
	"sync"
)

// Evidence accumulates what a run actually covered.  All counts are measured.
type Evidence struct {
	mu sync.Mutex

	id, tier, level string
	seed            int64

	// exhaustive TLC models
	States      int64 // distinct states over all exhaustive TLC runs
	Transitions int64 // generated states (= transitions examined)
	Models      []ModelRun

	// trace validation / replay
	TracesValidated int64 // traces of the real code judged by TLC
	TraceEvents     int64 // events in those traces
	Replayed        int64 // TLC-generated behaviours / cases executed on the real code

	Evaluations int64
	distinct    map[string]struct{}
	Rule        string
	samples     []any
	Exhaustive  bool
	Extra       map[string]any

	Assumptions      []string
	Violations       int
	KnownFindingHits int
	WallS            float64
}

// ModelRun describes one TLC run.
type ModelRun struct {
	Module    string  `json:"module"`
	Config    string  `json:"config"`
	Mode      string  `json:"mode"` // "exhaustive", "simulate", "trace", "evaluate"
	Generated int64   `json:"generated"`
	Distinct  int64   `json:"distinct"`
	Depth     int     `json:"depth,omitempty"`
	WallS     float64 `json:"wall_s"`
	Constants string  `json:"constants,omitempty"`
}

func newEvidence(id, tier string, seed int64, level string) *Evidence {
	return &Evidence{id: id, tier: tier, seed: seed, level: level,
		distinct: map[string]struct{}{}, Extra: map[string]any{}}
}

// Eval counts n executions on the real code.
func (e *Evidence) Eval(n int) {
	e.mu.Lock()
	e.Evaluations += int64(n)
	e.mu.Unlock()
}

// Distinct registers a non-trivial case under its canonical key; duplicates
// are counted once.
func (e *Evidence) Distinct(key string) {
	e.mu.Lock()
	if len(e.distinct) < 5_000_000 {
		e.distinct[key] = struct{}{}
	}
	e.mu.Unlock()
}

// Sample stores an example case (at most 8 are kept).
func (e *Evidence) Sample(v any) {
	e.mu.Lock()
	if len(e.samples) < 8 {
		e.samples = append(e.samples, v)
	}
	e.mu.Unlock()
}

// Traces counts traces (with their events) validated by TLC.
func (e *Evidence) Traces(n, events int) {
	e.mu.Lock()
	e.TracesValidated += int64(n)
	e.TraceEvents += int64(events)
	e.mu.Unlock()
}

// AddReplayed counts spec-generated cases executed on the real code.
func (e *Evidence) AddReplayed(n int) {
	e.mu.Lock()
	e.Replayed += int64(n)
	e.mu.Unlock()
}

// Set stores an extra coverage key.
func (e *Evidence) Set(key string, v any) {
	e.mu.Lock()
	e.Extra[key] = v
	e.mu.Unlock()
}

// Add adds n to an extra integer coverage key.
func (e *Evidence) Add(key string, n int64) {
	e.mu.Lock()
	cur, _ := e.Extra[key].(int64)
	e.Extra[key] = cur + n
	e.mu.Unlock()
}

// Assume records an assumption / trusted component.
func (e *Evidence) Assume(s string) {
	e.mu.Lock()
	for _, a := range e.Assumptions {
		if a == s {
			e.mu.Unlock()
			return
		}
	}
	e.Assumptions = append(e.Assumptions, s)
	e.mu.Unlock()
}

func (e *Evidence) addModel(m ModelRun) {
	e.mu.Lock()
	e.Models = append(e.Models, m)
	if m.Mode == "exhaustive" {
		e.States += m.Distinct
		e.Transitions += m.Generated
	}
	e.mu.Unlock()
}

func (e *Evidence) write(path string) error {
	e.mu.Lock()
	defer e.mu.Unlock()
	cov := map[string]any{}
	for k, v := range e.Extra {
		cov[k] = v
	}
	cov["evaluations"] = e.Evaluations
	cov["distinct_nontrivial"] = len(e.distinct)
	cov["rule"] = e.Rule
	samples := e.samples
	if samples == nil {
		samples = []any{}
	}
	cov["samples"] = samples
	cov["states"] = e.States
	cov["transitions"] = e.Transitions
	cov["traces_validated_against_impl"] = e.TracesValidated
	cov["trace_events"] = e.TraceEvents
	cov["spec_cases_replayed_on_impl"] = e.Replayed
	cov["tlc_runs"] = e.Models
	cov["exhaustive"] = e.Exhaustive
	cov["known_finding_hits"] = e.KnownFindingHits
	assumptions := e.Assumptions
	if assumptions == nil {
		assumptions = []string{}
	}
	out := map[string]any{
		"property_id": e.id,
		"tier":        e.tier,
		"seed":        e.seed,
		"level":       e.level,
		"coverage":    cov,
		"assumptions": assumptions,
		"wall_s":      e.WallS,
		"violations":  e.Violations,
	}
	data, err := json.MarshalIndent(out, "", " ")
	if err != nil {
		return err
	}
	if err := os.MkdirAll(filepath.Dir(path), 0o755); err != nil {
		return err
	}
	return os.WriteFile(path, append(data, '\n'), 0o644)
}
