module verif/harness

go 1.25.0

require (
	golang.org/x/image v0.44.0
	golang.org/x/text v0.40.0
	seehuhn.de/go/geom v0.7.5-0.20260817173237-f200797cc36c
	seehuhn.de/go/membudget v0.7.4
	seehuhn.de/go/pdf v0.0.0
	seehuhn.de/go/postscript v0.7.5-0.20260806200436-89e22957abb9
	seehuhn.de/go/sfnt v0.7.5-0.20260806215210-8fa8e1886588
	seehuhn.de/go/xmp v0.7.4
)

require (
	github.com/xdg-go/stringprep v1.0.4 // indirect
	seehuhn.de/go/dag v1.0.0 // indirect
	seehuhn.de/go/icc v0.7.5-0.20260816204135-054437223970 // indirect
)

replace seehuhn.de/go/pdf => /repo
