module verif/harness

go 1.25.0

require seehuhn.de/go/pdf v0.0.0

replace seehuhn.de/go/pdf => /repo
