module verif/harness

go 1.25.0

require seehuhn.de/go/pdf v0.0.0

require (
	github.com/xdg-go/stringprep v1.0.4 // indirect
	golang.org/x/text v0.40.0 // indirect
	seehuhn.de/go/geom v0.7.5-0.20260817173237-f200797cc36c // indirect
	seehuhn.de/go/membudget v0.7.4 // indirect
	seehuhn.de/go/xmp v0.7.4 // indirect
)

replace seehuhn.de/go/pdf => /repo
