package c10

import (
	"bytes"
	"errors"
	"fmt"
	"math/rand"
	"os"

	"seehuhn.de/go/pdf"

	"verif/harness/core"
	"verif/harness/drive/c09"
	"verif/harness/drive/shared"
	"verif/harness/indep/obj"
	"verif/harness/indep/secure"
	"verif/harness/indep/ser"
)

// The reverse direction: files encrypted by indep/secure, laid out by
// indep/ser (tables, cross-reference streams, object streams, incremental
// updates with re-used numbers = non-zero generations, direct and indirect
// /Length) or by the minimal writer of the C09 driver (object numbers up to
// 2^24-1, any generation), must open in the real Reader with both passwords
// and give back the plaintexts.

// dumpForeign (debugging) names a file that receives the bytes built last.
var dumpForeign = os.Getenv("C10_DUMP_FOREIGN")

type foreignCase struct {
	Scheme int    `json:"scheme"`
	Layout string `json:"layout"` // ser | minimal
	Seed   int64  `json:"seed"`
	User   string `json:"user"`
	Owner  string `json:"owner"`
	Num    uint32 `json:"num"`
	Gen    uint16 `json:"gen"`
}

type scheme struct {
	name    string
	version string
	p       secure.Params
}

var schemes = []scheme{
	{"R2-RC4-40", "1.3", secure.Params{R: 2}},
	{"R3-RC4-40-V1", "1.3", secure.Params{R: 3, KeyBits: 40, V: 1}},
	{"R3-RC4-40", "1.4", secure.Params{R: 3, KeyBits: 40}},
	{"R3-RC4-56", "1.4", secure.Params{R: 3, KeyBits: 56}},
	{"R3-RC4-96", "1.5", secure.Params{R: 3, KeyBits: 96}},
	{"R3-RC4-128", "1.5", secure.Params{R: 3}},
	{"R4-AESV2", "1.6", secure.Params{R: 4}},
	{"R4-V2", "1.5", secure.Params{R: 4, RC4: true}},
	{"R4-AESV2-EncryptMetadata-false", "1.7", secure.Params{R: 4, PlainMetadata: true}},
	{"R6-AESV3", "2.0", secure.Params{R: 6}},
	{"R6-AESV3-EncryptMetadata-false", "2.0", secure.Params{R: 6, PlainMetadata: true}},
	{"R6-AESV3-cf-length-in-bytes", "2.0", secure.Params{R: 6, CFLengthBytes: true}},
}

var foreignPasswords = [][2]string{{"user", "owner"}, {"", "owner"}, {"user", ""}, {"pässwörd", "Œuvre"},
	{"0123456789012345678901234567890123456789", "o"}}

func runForeign(c foreignCase) (rec Record) {
	sc := schemes[c.Scheme%len(schemes)]
	rec = Record{Kind: "foreign", Cipher: sc.name, R: sc.p.R, EMD: !sc.p.PlainMetadata, Items: []Item{}, Leaks: []string{},
		Source: c.Layout + "/" + sc.name, replay: map[string]any{"kind": "foreign", "foreign": c}}
	defer func() {
		if r := recover(); r != nil {
			rec.Opened, rec.ContentOK = false, false
			rec.Note = fmt.Sprintf("panic: %v", r)
		}
	}()
	rnd := rand.New(rand.NewSource(c.Seed))
	p := sc.p
	p.User, p.Owner = c.User, c.Owner
	// /P as a signed 32 bit number with reserved bits set
	p.P = 0xFFFFF0C0 | uint32(rnd.Intn(64))<<2 | uint32(rnd.Intn(2))<<8 | uint32(rnd.Intn(4))<<10

	var file []byte
	want := map[obj.Ref]obj.Value{} // non-stream objects
	bodies := map[obj.Ref][]byte{}  // stream data
	dicts := map[obj.Ref]obj.Dict{} // stream dictionaries (our entries)
	if c.Layout == "minimal" {
		ff, err := c09.BuildForeign(p, sc.version, c.Seed, obj.Ref{Num: c.Num, Gen: c.Gen})
		if err != nil {
			rec.Note = "cannot build: " + err.Error()
			return rec
		}
		file = ff.File
		want[ff.StrRef] = obj.Array{ff.Str, obj.Dict{"K": ff.Str}}
		bodies[ff.StmRef] = ff.Body
		dicts[ff.StmRef] = obj.Dict{"Desc": ff.Str}
	} else {
		var err error
		file, want, bodies, dicts, err = buildSer(sc, p, c.Seed, true)
		if err != nil {
			rec.Note = "cannot build: " + err.Error()
			return rec
		}
	}
	if dumpForeign != "" {
		_ = os.WriteFile(dumpForeign, file, 0o644)
	}
	rec.Opened, rec.ContentOK, rec.Note = readCheck(file, c.User, c.Owner, true, want, bodies, dicts)
	if c.Layout == "ser" && !(rec.Opened && rec.ContentOK) {
		// control: the same history without encryption
		if plain, w2, b2, d2, err := buildSer(sc, p, c.Seed, false); err == nil {
			if o, ok, note := readCheck(plain, "", "", false, w2, b2, d2); !(o && ok) {
				rec.Opened, rec.ContentOK = true, true
				rec.Source += "/fails-without-encryption-too"
				rec.Note = "not a C10 matter, the unencrypted history fails as well: " + note
			}
		}
	}
	return rec
}

// buildSer lays out a three-revision history with indep/ser: tables or
// cross-reference streams, object streams, direct and indirect /Length, two
// numbers freed and re-used (generation 1).  withEnc = false gives the same
// history without encryption (control).
func buildSer(sc scheme, p secure.Params, seed int64, withEnc bool) ([]byte, map[obj.Ref]obj.Value, map[obj.Ref][]byte, map[obj.Ref]obj.Dict, error) {
	rnd := rand.New(rand.NewSource(seed ^ 0x5e5))
	want := map[obj.Ref]obj.Value{}
	bodies := map[obj.Ref][]byte{}
	dicts := map[obj.Ref]obj.Dict{}
	p.ID0 = make([]byte, 16)
	rnd.Read(p.ID0)
	p.Rand = rnd
	enc, fileKey, err := secure.NewEncryptDict(p)
	if err != nil {
		return nil, nil, nil, nil, err
	}
	h, err := secure.Parse(enc, p.ID0)
	if err != nil {
		return nil, nil, nil, nil, err
	}
	kind := ser.Table
	if sc.version >= "1.5" && rnd.Intn(3) != 0 {
		kind = ser.Stream
	}
	encIndirect := rnd.Intn(3) == 0
	trailer := func() obj.Dict {
		t := obj.Dict{"Root": obj.Ref{Num: 1}, "ID": obj.Array{obj.Str(p.ID0), obj.Str(p.ID0)}}
		if withEnc && encIndirect {
			t["Encrypt"] = obj.Ref{Num: 4}
		} else if withEnc {
			t["Encrypt"] = enc
		}
		return t
	}
	doc := &ser.Doc{Version: sc.version}
	if encIndirect {
		doc.EncryptRef = obj.Ref{Num: 4}
	}
	rev1 := ser.Revision{Kind: kind, Trailer: trailer()}
	rev1.Ops = append(rev1.Ops,
		ser.Op{Num: 1, Kind: ser.Define, Value: obj.Dict{"Type": obj.Name("Catalog"), "Pages": obj.Ref{Num: 2}}},
		ser.Op{Num: 2, Kind: ser.Define, Value: obj.Dict{"Type": obj.Name("Pages"), "Kids": obj.Array{obj.Ref{Num: 3}}, "Count": obj.Int(1)}},
		ser.Op{Num: 3, Kind: ser.Define, Value: obj.Dict{"Type": obj.Name("Page"), "Parent": obj.Ref{Num: 2}, "Resources": obj.Dict{},
			"MediaBox": obj.Array{obj.Int(0), obj.Int(0), obj.Int(100), obj.Int(100)}}})
	if encIndirect {
		rev1.Ops = append(rev1.Ops, ser.Op{Num: 4, Kind: ser.Define, Value: enc})
	}
	state := map[uint32]uint16{} // generation in force
	forget := func(ref obj.Ref) {
		delete(want, ref)
		delete(bodies, ref)
		delete(dicts, ref)
	}
	define := func(rev *ser.Revision, num uint32) {
		gen := state[num]
		ref := obj.Ref{Num: num, Gen: gen}
		forget(ref)
		if rnd.Intn(3) == 0 {
			body := make([]byte, []int{0, 1, 15, 16, 17, 500, 3000}[rnd.Intn(7)])
			rnd.Read(body)
			d := obj.Dict{"Note": pick(rnd, stringPool), "Deep": obj.Array{randBytes(rnd, 20)}}
			mode := ser.LenDirect
			if rnd.Intn(2) == 0 {
				mode = ser.LenIndirect
			}
			rev.Ops = append(rev.Ops, ser.Op{Num: num, Kind: ser.Define, Value: &obj.Stream{Dict: d, Raw: body}, Length: mode})
			bodies[ref], dicts[ref] = body, d
			return
		}
		v := concreteValue(rnd, "a")
		inStm := rev.Kind == ser.Stream && gen == 0 && rnd.Intn(2) == 0
		rev.Ops = append(rev.Ops, ser.Op{Num: num, Kind: ser.Define, Value: v, InObjStm: inStm})
		want[ref] = v
	}
	for n := uint32(5); n <= 11; n++ {
		define(&rev1, n)
	}
	// update 1: free two objects, replace one
	rev2 := ser.Revision{Kind: kind, Trailer: trailer()}
	for _, n := range []uint32{5, 6} {
		rev2.Ops = append(rev2.Ops, ser.Op{Num: n, Kind: ser.Free, Style: ser.Linked})
		forget(obj.Ref{Num: n, Gen: state[n]})
		state[n]++
	}
	define(&rev2, 7)
	// update 2: the freed numbers come back with generation 1.  (Only numbers
	// of the first revision: the serialiser lists unused numbers below its own
	// auxiliary objects as free, some with generation 65535.)
	rev3 := ser.Revision{Kind: kind, Trailer: trailer()}
	define(&rev3, 5)
	define(&rev3, 6)
	define(&rev3, 11)
	doc.Revisions = []ser.Revision{rev1, rev2, rev3}
	opts := &ser.Options{Seed: seed}
	if withEnc {
		opts.Encrypt = func(ref obj.Ref, isStream bool, data []byte) []byte {
			key, aes, ok := h.KeyFor(fileKey, ref.Num, ref.Gen, isStream)
			if !ok {
				return data
			}
			iv := make([]byte, 16)
			rnd.Read(iv)
			out, err := secure.Encrypt(key, aes, iv, data)
			if err != nil {
				panic(err)
			}
			return out
		}
	}
	res, err := ser.RenderResult(doc, opts)
	if err != nil {
		return nil, nil, nil, nil, err
	}
	return res.Bytes, want, bodies, dicts, nil
}

// readCheck opens a file with the real Reader (both passwords) and compares
// every object with the plaintext.
func readCheck(file []byte, user, ownerPw string, encrypted bool, want map[obj.Ref]obj.Value, bodies map[obj.Ref][]byte, dicts map[obj.Ref]obj.Dict) (opened, contentOK bool, note string) {
	owner := ownerPw
	if owner == "" {
		owner = user
	}
	opened, contentOK = true, true
	fail := func(content bool, format string, a ...any) {
		if content {
			contentOK = false
		} else {
			opened = false
		}
		if note == "" {
			note = fmt.Sprintf(format, a...)
		}
	}
	for _, pw := range []string{user, owner} {
		r, err := pdf.NewReader(bytes.NewReader(file), int64(len(file)), &pdf.ReaderOptions{Password: pw, ErrorHandling: pdf.ErrorHandlingReport})
		if err != nil {
			fail(false, "password %q: %v", pw, err)
			continue
		}
		for ref, v := range want {
			got, err := r.Get(pdf.NewReference(ref.Num, ref.Gen), true)
			if err != nil || !obj.Equal(shared.FromPDF(got), v) {
				fail(true, "object %v: read %s, encrypted %s (%v)", ref, clip(obj.String(shared.FromPDF(got))), clip(obj.String(v)), err)
			}
		}
		for ref, body := range bodies {
			got, err := r.Get(pdf.NewReference(ref.Num, ref.Gen), true)
			stm, ok := got.(*pdf.Stream)
			if err != nil || !ok {
				fail(true, "stream %v: %T %v", ref, got, err)
				continue
			}
			gd, _ := shared.FromPDF(stm.Dict).(obj.Dict)
			if !obj.Equal(stripStreamKeys(gd), dicts[ref]) {
				fail(true, "stream %v: dictionary strings differ", ref)
			}
			data, err := pdf.ReadAll(r, nil, stm, 1<<22)
			if err != nil || !bytes.Equal(data, body) {
				fail(true, "stream %v: %d bytes read, %d encrypted (%v)", ref, len(data), len(body), err)
			}
		}
	}
	if user != "" && encrypted {
		r, err := pdf.NewReader(bytes.NewReader(file), int64(len(file)), &pdf.ReaderOptions{Password: "not the password"})
		var ae *pdf.AuthenticationError
		if err == nil || r != nil || !errors.As(err, &ae) {
			fail(false, "a wrong password does not fail with an AuthenticationError: %v", err)
		}
	}
	return opened, contentOK, note
}

// reverse builds the foreign files of the tier.
func reverse(ctx *core.Ctx) ([]Record, error) {
	rnd := ctx.Rand("reverse")
	var cases []foreignCase
	rounds := ctx.Pick(3, 40)
	for round := 0; round < rounds; round++ {
		for s := range schemes {
			pick2 := func() [2]string {
				if schemes[s].p.R == 6 && rnd.Intn(4) != 0 {
					a, b := r6Passwords[1+rnd.Intn(len(r6Passwords)-1)], r6Passwords[1+rnd.Intn(len(r6Passwords)-1)]
					return [][2]string{{a, b}, {"", a}, {a, ""}, {"user", b}}[rnd.Intn(4)]
				}
				return foreignPasswords[rnd.Intn(len(foreignPasswords))]
			}
			pw := pick2()
			cases = append(cases, foreignCase{Scheme: s, Layout: "ser", Seed: rnd.Int63(), User: pw[0], Owner: pw[1]})
			nums := []uint32{255, 256, 65535, 65536, 0x010203, 1<<24 - 2, 1<<24 - 1, uint32(6 + rnd.Intn(1<<24-7))}
			gens := []uint16{0, 1, 255, 256, 65534, uint16(rnd.Intn(65535))}
			pw = pick2()
			cases = append(cases, foreignCase{Scheme: s, Layout: "minimal", Seed: rnd.Int63(), User: pw[0], Owner: pw[1],
				Num: nums[(round+s)%len(nums)], Gen: gens[(round/2+s)%len(gens)]})
		}
	}
	recs := make([]Record, len(cases))
	done := make(chan int, len(cases))
	sem := make(chan struct{}, 16)
	for i := range cases {
		sem <- struct{}{}
		go func(i int) {
			defer func() { <-sem; done <- i }()
			recs[i] = runForeign(cases[i])
		}(i)
	}
	for range cases {
		<-done
	}
	for _, r := range recs {
		if len(r.Note) > 14 && r.Note[:13] == "cannot build:" {
			return nil, core.Infra("reverse direction: %s (%s)", r.Note, r.Source)
		}
	}
	return recs, nil
}
