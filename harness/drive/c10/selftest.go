package c10

import (
	"fmt"

	"verif/harness/core"
)

// selfTest: (i) corrupted observed states are rejected one by one, intact
// ones accepted; (ii) the defective variants of the model fail their
// invariants; (iii) the observer notices a file that is not what was written.
func selfTest(ctx *core.Ctx) error {
	files, err := specFiles(ctx)
	if err != nil {
		return err
	}
	prog := []Op{{Op: "Configure", V: "AESV2", EMD: false, Meta: true}, {Op: "EmitMetadata"},
		{Op: "CPut", N: 2, G: 1, V: "a"}, {Op: "CPut", N: 3, G: 0, V: "a"}, {Op: "CWC2", Ns: []int{1, 3}, V: "a"},
		{Op: "COpenStream", N: 1, G: 0, V: "a", Lg: "none"}, {Op: "CStreamWrite", K: 2}, {Op: "CCloseStream"}, {Op: "CClose"}}
	prog[4].Ns = []int{6, 5}
	prog[5].N = 7
	mk := func(version string) (Record, error) {
		p, err := execProgram(Config{Version: version, Enc: "both", NumMap: 2}, prog, 11)
		if err != nil {
			return Record{}, core.Infra("self-test program: %v", err)
		}
		return observe(p)
	}
	good, err := mk("1.7")
	if err != nil {
		return err
	}
	good20, err := mk("2.0")
	if err != nil {
		return err
	}
	find := func(r Record, where string) int {
		for i, it := range r.Items {
			if it.Where == where && it.Len >= 6 {
				return i
			}
		}
		return -1
	}
	clone := func(r Record) Record {
		c := r
		c.Items = append([]Item(nil), r.Items...)
		return c
	}
	for _, w := range []string{"string", "member", "container", "body", "metadata", "dictString"} {
		if find(good, w) < 0 {
			return core.Infra("self-test: the program produced no %q item: %+v", w, good.Items)
		}
	}
	b1 := clone(good) // a string left in plaintext
	b1.Items[find(b1, "string")].Cipher = "none"
	b2 := clone(good) // key without the generation
	b2.Items[find(b2, "string")].Key = "generation-ignored"
	b3 := clone(good) // IV of the body reused for a string
	b3.Items[find(b3, "string")].IV = b3.Items[find(b3, "body")].IV
	b4 := clone(good) // member encrypted individually
	b4.Items[find(b4, "member")].Cipher, b4.Items[find(b4, "member")].Key = "AES", "own"
	b5 := clone(good) // container not encrypted
	b5.Items[find(b5, "container")].Cipher = "none"
	b6 := clone(good) // metadata encrypted although EncryptMetadata is false
	b6.Items[find(b6, "metadata")].Cipher, b6.Items[find(b6, "metadata")].Key = "AES", "own"
	b7 := clone(good) // not decryptable
	b7.Items[find(b7, "dictString")].OK = false
	b8 := clone(good) // plaintext found in the raw bytes
	b8.Leaks = []string{"p0123"}
	b9 := clone(good) // equal plaintexts, equal ciphertexts in different objects
	i, j := -1, -1
	for a := range b9.Items {
		for b := a + 1; b < len(b9.Items); b++ {
			x, y := b9.Items[a], b9.Items[b]
			if x.Plain == y.Plain && x.Len >= 6 && x.Num != y.Num && x.Cipher == "AES" && y.Cipher == "AES" && i < 0 {
				i, j = a, b
			}
		}
	}
	if i < 0 {
		return core.Infra("self-test: no equal plaintexts in different objects")
	}
	b9.Items[j].Ct = b9.Items[i].Ct
	b10 := clone(good) // authentication failed
	b10.Auth = false
	recs := []Record{good, b1, b2, b3, good20, b4, b5, b6, b7, b8, b9, b10}
	bad, err := judge(ctx, files, recs)
	if err != nil {
		return err
	}
	if fmt.Sprint(bad) != "[1 2 3 5 6 7 8 9 10 11]" {
		return core.Infra("self-test: corrupted observed states not singled out: rejected %v", bad)
	}
	ctx.Logf("self-test (i): 10 corrupted observed states rejected, 2 states of real files accepted")

	for cfg, inv := range map[string]string{"MC_CryptScope_neg_fixediv.cfg": "IVUniqueOK", "MC_CryptScope_neg_nogen.cfg": "KeyScopeOK",
		"MC_CryptScope_neg_member.cfg": "ExemptPlainOK", "MC_CryptScope_neg_meta.cfg": "NoLeakOK"} {
		res, err := ctx.TLC(core.TLCOpts{Dir: "crypt", Module: "MC_CryptScope", Cfg: cfg, Workers: 4, Files: files, Mode: "negative-control"})
		if err != nil {
			return err
		}
		if res.Invariant != inv {
			return core.Infra("self-test: %s should violate %s, got %q", cfg, inv, res.Invariant)
		}
	}
	ctx.Logf("self-test (ii): fixed IV, generation not hashed, members encrypted individually, metadata never encrypted: the models violate their invariants")

	// (iii) the observer itself: hand it a file with one byte of a ciphertext flipped
	p, err := execProgram(Config{Version: "1.4", Enc: "user"}, []Op{{Op: "Configure", V: "RC4", EMD: true}, {Op: "CPut", N: 1, V: "a"}, {Op: "CClose"}}, 5)
	if err != nil {
		return core.Infra("self-test program: %v", err)
	}
	rec, err := observe(p)
	if err != nil {
		return err
	}
	p.Objs[0].Val = concreteValue(ctx.Rand("other"), "a") // claim another value was written
	rec2, err := observe(p)
	if err == nil {
		ok := true
		for _, it := range rec2.Items {
			ok = ok && it.OK
		}
		if ok {
			return core.Infra("self-test: the observer accepts a file that does not hold what was written")
		}
	}
	_ = rec
	ctx.Logf("self-test (iii): the observer notices a file that does not hold what was written")
	return nil
}
