package c10

import (
	"bytes"
	"fmt"
	"io"
	"math/rand"
	"regexp"
	"strconv"
	"strings"

	"golang.org/x/text/language"
	"seehuhn.de/go/pdf"
	"seehuhn.de/go/xmp"

	"verif/harness/drive/shared"
	"verif/harness/indep/obj"
)

// Op is one action of spec/crypt/CryptScope.tla.
type Op struct {
	Op string `json:"op"` // Configure EmitMetadata CAlloc CPut COpenStream OpenStreamIdentity CStreamWrite CCloseStream CWC1 CWC2 CClose
	N  int    `json:"n,omitempty"`
	G  int    `json:"g,omitempty"`
	V  string `json:"v,omitempty"`
	Lg string `json:"lg,omitempty"`
	K  int    `json:"k,omitempty"`
	Ns []int  `json:"ns,omitempty"`
	// Configure
	EMD  bool `json:"emd,omitempty"`
	Meta bool `json:"meta,omitempty"`
}

var reLabel = regexp.MustCompile(`^(\w+)(?:\((.*)\))?$`)

func parseLabel(label string) (Op, error) {
	m := reLabel.FindStringSubmatch(strings.TrimSpace(label))
	if m == nil {
		return Op{}, fmt.Errorf("bad action label %q", label)
	}
	op := Op{Op: m[1]}
	var f []string
	if m[2] != "" {
		f = strings.Split(m[2], ",")
	}
	num := func(i int) int { n, _ := strconv.Atoi(strings.TrimSpace(f[i])); return n }
	str := func(i int) string { return strings.Trim(strings.TrimSpace(f[i]), `"`) }
	switch op.Op {
	case "EmitMetadata", "CAlloc", "CCloseStream", "CClose":
	case "Configure":
		op.V, op.EMD, op.Meta = str(0), str(1) == "TRUE", str(2) == "TRUE"
	case "CPut", "OpenStreamIdentity":
		op.N, op.G, op.V = num(0), num(1), str(2)
	case "COpenStream":
		op.N, op.G, op.V, op.Lg = num(0), num(1), str(2), str(3)
	case "CStreamWrite":
		op.K = num(0)
	case "CWC1":
		op.Ns, op.V = []int{num(0)}, str(1)
	case "CWC2":
		op.Ns, op.V = []int{num(0), num(1)}, str(2)
	default:
		return op, fmt.Errorf("unknown action %q", label)
	}
	return op, nil
}

// Config is the concrete configuration a program runs under.
type Config struct {
	Version  string `json:"version"` // "1.1" ... "2.0"
	Human    bool   `json:"human"`   // HumanReadable: no object streams, cross-reference table
	Seekable bool   `json:"seekable"`
	Enc      string `json:"enc"`    // user | owner | both
	Filter   string `json:"filter"` // "" | Flate | ASCIIHex+Flate
	NumMap   int    `json:"nummap"` // how model object numbers become real ones
	FixedID  bool   `json:"fixedid"`
	Pw       int    `json:"pw"` // revision 6: which pair of r6Passwords (0: the short ones)
}

func (c Config) passwords() (string, string) {
	user, owner := "u-secret", "o-secret"
	// revision 6: passwords around the 127 byte limit of Algorithm 2.A
	if c.Version >= "2.0" && c.Pw > 0 {
		user = r6Passwords[c.Pw%len(r6Passwords)]
		owner = r6Passwords[(c.Pw+3)%len(r6Passwords)]
	}
	switch c.Enc {
	case "user":
		return user, ""
	case "owner":
		return "", owner
	}
	return user, owner
}

var digits126 = strings.Repeat("0123456789", 13)[:126]

// r6Passwords: the preparation of revision 6 is SASLprep, UTF-8, then a cut
// at exactly 127 bytes - also in the middle of a character.
var r6Passwords = []string{
	"plain",
	digits126 + "\u00e9",                    // 128 bytes, the cut falls inside the last character
	digits126[:125] + "\u00e9",              // exactly 127 bytes
	digits126 + "7\u00e9",                   // the character starts at byte 128
	strings.Repeat("\u20ac", 42) + "\u00e9", // 42 x 3 bytes, then a 2 byte character over the limit
	digits126 + "\u00e9 and a long tail",
	strings.Repeat("long ascii password ", 10),  // 200 bytes
	strings.Repeat("\uff41", 40) + "0123456789", // 130 bytes before, 50 after SASLprep
	strings.Repeat("\u00e4", 63) + "xZ",         // 126 bytes of two byte characters, then two more
	digits126[:124] + "\u20ac",                  // 3 byte character ending exactly at byte 127
	digits126[:125] + "\u20ac",                  // 3 byte character cut after two bytes
}

func (c Config) cipher() string {
	switch {
	case c.Version >= "2.0":
		return "AESV3"
	case c.Version >= "1.6":
		return "AESV2"
	}
	return "RC4"
}

func (c Config) objStm() bool { return c.Version >= "1.5" && !c.Human }

// wobj is one object handed to the Writer, in the harness's value model.
type wobj struct {
	Ref  obj.Ref
	Kind string    // plain | stream | identity | metadata | info
	Val  obj.Value // plain: the value; stream, identity: the dictionary given to OpenStream
	Body []byte    // stream, identity: the data written
	// metadata, info: only a marker is known (the XMP title resp. Info.Title)
	Marker []byte
	// ID is the value id of the model ("a", "b", ...) or a label
	ID string
}

// produced is a file written by the real Writer together with what was
// handed to it (from this executor, from the C02 programs, or from the C09
// document generator).
type produced struct {
	Source  string
	Data    []byte
	UserPw  string
	OwnerPw string
	Objs    []wobj
	Replay  any
}

var stringPool = [][]byte{
	[]byte("plain text string"), []byte("(unbalanced paren"), []byte("back\\slash and more"), []byte("line\r\nbreak inside"),
	{0, 1, 2, 255, 254, 253, 128, 127}, []byte("caf\xe9 au lait"), []byte("ab"), {}, bytes.Repeat([]byte("x"), 300),
	[]byte("sixteen byte str"), []byte("thirty-two bytes of plain text.."), []byte("fifteen bytes.."),
}

func pick(r *rand.Rand, xs [][]byte) obj.Str {
	return obj.Str(append([]byte(nil), xs[r.Intn(len(xs))]...))
}

func randBytes(r *rand.Rand, n int) obj.Str {
	b := make([]byte, n)
	r.Read(b)
	return obj.Str(b)
}

// concreteValue builds the value of a value id: strings at several depths.
func concreteValue(r *rand.Rand, id string) obj.Value {
	tag := obj.Name("Tag" + strings.ToUpper(id))
	switch r.Intn(5) {
	case 0:
		return obj.Array{tag, pick(r, stringPool), obj.Array{obj.Int(1), randBytes(r, 6+r.Intn(40))}}
	case 1:
		return obj.Dict{"Kind": tag, "S": pick(r, stringPool), "D": obj.Dict{"Inner": randBytes(r, 16), "A": obj.Array{pick(r, stringPool), obj.Null{}}}}
	case 2:
		return randBytes(r, 8+r.Intn(60))
	case 3:
		return obj.Array{tag, obj.Dict{"K": obj.Array{obj.Dict{"Deep": randBytes(r, 32)}}}, pick(r, stringPool)}
	}
	return obj.Dict{"Kind": tag, "S1": randBytes(r, 17), "S2": randBytes(r, 17), "E": obj.Str{}}
}

type nonSeekable struct{ w io.Writer }

func (n nonSeekable) Write(p []byte) (int, error) { return n.w.Write(p) }

// numMaps turn the model's object numbers 1..3 into real ones: byte 2 and
// byte 3 of the number enter the per-object key too.  The big maps are used
// only where the Writer does not have to list every number in a table.
var numMaps = []func(n int) uint32{
	func(n int) uint32 { return uint32(n) },
	func(n int) uint32 { return uint32(n) },
	func(n int) uint32 { return uint32(255 + n) },
	func(n int) uint32 { return uint32(257 * n) },
	func(n int) uint32 { return uint32(65536*n + n) },
}

// execProgram runs one CryptScope program on the real Writer.
func execProgram(cfg Config, prog []Op, seed int64) (p *produced, err error) {
	defer func() {
		if r := recover(); r != nil {
			err = fmt.Errorf("panic in Writer: %v", r)
		}
	}()
	r := rand.New(rand.NewSource(seed))
	p = &produced{Source: "cryptscope-program", Replay: map[string]any{"kind": "program", "cfg": cfg, "prog": prog, "seed": seed}}
	p.UserPw, p.OwnerPw = cfg.passwords()
	vals := map[string]obj.Value{}
	sdict := map[string]obj.Dict{}
	for _, id := range []string{"a", "b"} {
		vals[id] = concreteValue(r, id)
		sdict[id] = obj.Dict{"Kind": obj.Name("Stm" + strings.ToUpper(id)), "Note": pick(r, stringPool), "Deep": obj.Array{randBytes(r, 24)}}
	}
	nm := numMaps[cfg.NumMap%len(numMaps)]
	if !cfg.objStm() && cfg.NumMap%len(numMaps) == 4 {
		nm = numMaps[3]
	}
	version, perr := pdf.ParseVersion(cfg.Version)
	if perr != nil {
		return nil, perr
	}
	var emd, meta bool
	emd = true
	for _, o := range prog {
		if o.Op == "Configure" {
			emd, meta = o.EMD, o.Meta
		}
	}
	opt := &pdf.WriterOptions{HumanReadable: cfg.Human, UserPassword: p.UserPw, OwnerPassword: p.OwnerPw, UserPermissions: pdf.PermAll &^ pdf.PermCopy}
	if cfg.FixedID {
		opt.ID = [][]byte{[]byte("0123456789abcdef"), []byte("fedcba9876543210")}
	}
	metaTitle := fmt.Sprintf("C10 metadata title %d", r.Int63())
	if meta {
		packet := xmp.NewPacket()
		dc := &xmp.DublinCore{}
		dc.Title.Set(language.Und, metaTitle)
		if err := packet.Set(dc); err != nil {
			return nil, err
		}
		opt.DocumentMetadata = &pdf.MetadataStream{Data: packet, Plaintext: !emd}
	}
	var w *pdf.Writer
	var fileBytes func() []byte
	if cfg.Seekable {
		ms := &shared.SeekMemSink{}
		w, err = pdf.NewWriter(ms, version, opt)
		fileBytes = ms.Bytes
	} else {
		buf := &bytes.Buffer{}
		w, err = pdf.NewWriter(nonSeekable{buf}, version, opt)
		fileBytes = buf.Bytes
	}
	if err != nil {
		return nil, fmt.Errorf("NewWriter: %w", err)
	}
	if meta {
		// NewWriter allocated the first object for the stream
		p.Objs = append(p.Objs, wobj{Ref: obj.Ref{Num: 1}, Kind: "metadata", Marker: []byte(metaTitle), ID: "meta"})
	}

	var stm io.WriteCloser
	var cur wobj
	remaining := func(i int) int {
		n := 0
		for _, o := range prog[i+1:] {
			if o.Op == "CStreamWrite" {
				n += o.K
			}
			if o.Op == "CCloseStream" {
				break
			}
		}
		return n
	}
	var queued []wobj
	closed := false
	for i, o := range prog {
		ref := pdf.NewReference(nm(o.N), uint16(o.G))
		oref := obj.Ref{Num: nm(o.N), Gen: uint16(o.G)}
		switch o.Op {
		case "Configure", "EmitMetadata":
		case "CAlloc":
			w.Alloc()
		case "CPut":
			if w.Put(ref, shared.ToPDF(vals[o.V])) == nil {
				wo := wobj{Ref: oref, Kind: "plain", Val: vals[o.V], ID: o.V}
				if stm != nil {
					queued = append(queued, wo)
				} else {
					p.Objs = append(p.Objs, wo)
				}
			}
		case "COpenStream", "OpenStreamIdentity":
			if stm != nil {
				continue
			}
			d := shared.ToPDF(sdict[o.V]).(pdf.Dict)
			var filters []pdf.Filter
			kind := "stream"
			if o.Op == "OpenStreamIdentity" {
				if version < pdf.V1_5 {
					continue // no crypt filters before PDF 1.5
				}
				kind = "identity"
				filters = append(filters, pdf.FilterCryptIdentity{})
			}
			if o.Lg == "right" {
				// the caller's /Length counts the bytes as they stand in the file
				n := 512 * remaining(i)
				if cfg.cipher() != "RC4" {
					n = 16 + (n/16+1)*16
				}
				d["Length"] = pdf.Integer(n)
			} else if version >= pdf.V1_2 {
				switch cfg.Filter {
				case "Flate":
					filters = append(filters, pdf.FilterFlate{})
				case "ASCIIHex+Flate":
					filters = append(filters, pdf.FilterASCIIHex{}, pdf.FilterFlate{})
				}
			}
			s, e := w.OpenStream(ref, d, filters...)
			if e == nil {
				stm = s
				cur = wobj{Ref: oref, Kind: kind, Val: sdict[o.V], ID: o.V}
			}
		case "CStreamWrite":
			if stm == nil {
				continue
			}
			data := make([]byte, 512*o.K)
			if r.Intn(2) == 0 {
				r.Read(data)
			} else {
				for j := range data {
					data[j] = "the quick brown fox jumps over the lazy dog\n"[j%44]
				}
			}
			if _, e := stm.Write(data); e != nil {
				return nil, e
			}
			cur.Body = append(cur.Body, data...)
		case "CCloseStream":
			if stm == nil {
				continue
			}
			e := stm.Close()
			stm = nil
			if e != nil {
				return p, fmt.Errorf("%w: CloseStream: %v", errNotClosed, e) // the Writer is unusable; no file
			}
			p.Objs = append(p.Objs, cur)
			p.Objs = append(p.Objs, queued...)
			queued = nil
		case "CWC1", "CWC2":
			if stm != nil {
				continue
			}
			refs := make([]pdf.Reference, len(o.Ns))
			objs := make([]pdf.Object, len(o.Ns))
			for k, n := range o.Ns {
				refs[k] = pdf.NewReference(nm(n), 0)
				objs[k] = shared.ToPDF(vals[o.V])
			}
			if e := w.WriteCompressed(refs, objs...); e != nil {
				return p, fmt.Errorf("%w: WriteCompressed: %v", errNotClosed, e)
			}
			for _, n := range o.Ns {
				p.Objs = append(p.Objs, wobj{Ref: obj.Ref{Num: nm(n)}, Kind: "plain", Val: vals[o.V], ID: o.V})
			}
		case "CClose":
			if stm != nil {
				continue
			}
			pref := w.Alloc()
			if e := w.Put(pref, pdf.Dict{"Type": pdf.Name("Pages"), "Kids": pdf.Array{}, "Count": pdf.Integer(0)}); e != nil {
				return p, fmt.Errorf("%w: Put(pages): %v", errNotClosed, e)
			}
			title := fmt.Sprintf("C10 info title %d", r.Int63())
			w.GetMeta().Catalog.Pages = pref
			w.GetMeta().Info.Title = pdf.TextString(title)
			if e := w.Close(); e != nil {
				return nil, fmt.Errorf("Writer.Close: %w", e)
			}
			p.Objs = append(p.Objs, wobj{Kind: "info", Marker: []byte(title), ID: "info"})
			closed = true
		default:
			return nil, fmt.Errorf("unknown op %q", o.Op)
		}
	}
	if !closed {
		return p, errNotClosed
	}
	p.Data = fileBytes()
	return p, nil
}

var errNotClosed = fmt.Errorf("program does not close the file")
