// Package c10 binds spec/crypt/CryptScope.tla to the bytes pdf.Writer produces
// under encryption, and checks the standard security handler bit-exactly
// through an independent implementation.
//
//	model   MC_CryptScope: what the Writer encrypts, over all small write
//	        programs x cipher x EncryptMetadata (TLC)
//	P-A     programs walked out of the CryptScope state graph (and the
//	        PdfWriter programs of C02) run on the real Writer under encryption
//	P-D     every produced file is parsed by indep/strict, authenticated and
//	        decrypted by indep/secure (own per-object keys); the observed state
//	        {object, where, cipher, key, iv, ciphertext, plaintext} is judged
//	        by TLC (Trace_CryptScope): NoLeak, ExemptPlain, KeyScope, IVUnique,
//	        DistinctCipher, MembersContained, Decrypted = Written, no plaintext
//	        in the raw bytes
//	reverse files encrypted by indep/secure and laid out by indep/ser (and a
//	        minimal writer for extreme object numbers) opened by the real Reader
package c10

import (
	"encoding/json"
	"errors"
	"fmt"
	"os"
	"path/filepath"
	"sort"
	"strings"
	"sync"

	"golang.org/x/text/unicode/norm"

	"verif/harness/core"
	"verif/harness/drive/c02"
	"verif/harness/drive/c09"
	"verif/harness/indep/obj"
	"verif/harness/indep/secure"
)

var Driver = core.Driver{ID: "C10", Level: "model_checking", Run: run, Replay: replay, SelfTest: selfTest}

func init() {
	secure.NFKC = func(s string) (string, bool) { return norm.NFKC.String(s), true }
}

// specFiles: CryptScope extends file/PdfWriter.tla, which lives in another
// directory of /verif/spec.
func specFiles(ctx *core.Ctx) (map[string][]byte, error) {
	data, err := os.ReadFile(filepath.Join(ctx.SpecDir("file"), "PdfWriter.tla"))
	if err != nil {
		return nil, core.Infra("%v", err)
	}
	return map[string][]byte{"PdfWriter.tla": data}, nil
}

var versions = []string{"1.1", "1.2", "1.3", "1.4", "1.5", "1.6", "1.7", "2.0"}

// configFor rotates through the concrete configurations.
func configFor(i int, needAES, needCrypt, needMeta bool) Config {
	for k := 0; ; k++ {
		j := i + k
		c := Config{Version: versions[j%len(versions)], Human: (j/8)%3 == 2, Seekable: (j/24)%2 == 0,
			Enc: []string{"both", "user", "owner"}[(j/3)%3], Filter: []string{"", "Flate", "ASCIIHex+Flate"}[(j/5)%3],
			NumMap: (j / 7) % 5, FixedID: (j/11)%2 == 0, Pw: (j / 8) % 12}
		if needAES && c.Version < "1.6" {
			continue
		}
		if needCrypt && c.Version < "1.5" || needMeta && c.Version < "1.4" {
			continue
		}
		return c
	}
}

// programs walks the state graph of the bounded CryptScope model.
func programs(ctx *core.Ctx, files map[string][]byte, limit int) ([][]Op, int, int, error) {
	g, _, err := ctx.DumpGraph(core.TLCOpts{Dir: "crypt", Module: "MC_CryptScope", Cfg: "MC_CryptScope_g.cfg", Workers: 8, Files: files,
		XmxMB: 4000, Timeout: ctx.Dur(5, 15), Constants: "graph for program generation: MaxNum=3, Vals={a}, MaxOps=4, one cipher", Mode: "graph"})
	if err != nil {
		return nil, 0, 0, err
	}
	paths, covered := g.EdgeCover(ctx.Rand("programs"), 50, limit)
	var progs [][]Op
	for _, p := range paths {
		var prog []Op
		for _, e := range p {
			op, err := parseLabel(e.Action)
			if err != nil {
				return nil, 0, 0, core.Infra("%v", err)
			}
			prog = append(prog, op)
		}
		// a path that stops early is completed: every program ends in a file
		open := false
		for _, o := range prog {
			switch o.Op {
			case "COpenStream", "OpenStreamIdentity":
				open = true
			case "CCloseStream":
				open = false
			}
		}
		if len(prog) == 0 || prog[len(prog)-1].Op != "CClose" {
			if open {
				prog = append(prog, Op{Op: "CCloseStream"})
			}
			prog = append(prog, Op{Op: "CClose"})
		}
		progs = append(progs, prog)
	}
	return progs, g.NumEdges(), covered, nil
}

type job func() (*produced, error)

func programJob(cfg Config, prog []Op, seed int64) job {
	return func() (*produced, error) { return execProgram(cfg, prog, seed) }
}

func c02Job(cfg c02.Config, prog []c02.Op, seed int64) job {
	return func() (*produced, error) {
		cfg.PlainMeta = true // the observer knows the Info title of these files
		run, err := c02.Execute(cfg, append([]c02.Op(nil), prog...), seed)
		if err != nil {
			return nil, err
		}
		if !run.Closed || len(run.Data) == 0 {
			return nil, errNotClosed
		}
		p := &produced{Source: "c02-program", Data: run.Data, Replay: map[string]any{"kind": "c02", "cfg": cfg, "prog": prog, "seed": seed}}
		switch cfg.Enc {
		case "user":
			p.UserPw = "u-secret"
		case "owner":
			p.OwnerPw = "o-secret"
		default:
			p.UserPw, p.OwnerPw = "u-secret", "o-secret"
		}
		var keys [][2]int
		for k := range run.Written {
			keys = append(keys, k)
		}
		sort.Slice(keys, func(i, j int) bool {
			return keys[i][0] < keys[j][0] || keys[i][0] == keys[j][0] && keys[i][1] < keys[j][1]
		})
		for _, k := range keys {
			w := run.Written[k]
			wo := wobj{Ref: obj.Ref{Num: uint32(k[0]), Gen: uint16(k[1])}, Kind: "plain", Val: w.Value, ID: w.ID}
			if w.Stream {
				wo.Kind, wo.Body = "stream", w.Body
			}
			p.Objs = append(p.Objs, wo)
		}
		p.Objs = append(p.Objs, wobj{Kind: "info", Marker: []byte("verification program"), ID: "info"})
		return p, nil
	}
}

type docParams struct {
	Version int    `json:"version"`
	EMD     bool   `json:"emd"`
	User    string `json:"user"`
	Owner   string `json:"owner"`
	Seed    int64  `json:"seed"`
}

func docJob(d docParams) job {
	return func() (*produced, error) {
		doc, err := c09.WriteDocument(d.Version, d.EMD, d.User, d.Owner, []string{"Print", "Forms"}, d.Seed)
		if err != nil {
			return nil, err
		}
		p := &produced{Source: "c09-document", Data: doc.File, UserPw: d.User, OwnerPw: d.Owner, Replay: map[string]any{"kind": "doc", "doc": d}}
		for _, o := range doc.Objs {
			wo := wobj{Ref: o.Ref, Kind: "plain", Val: o.Value, ID: o.Where}
			if o.Stream {
				wo.Kind, wo.Val, wo.Body = "stream", o.Dict, o.Body
				if o.Dict == nil {
					wo.Val = obj.Dict{}
				}
			}
			p.Objs = append(p.Objs, wo)
		}
		p.Objs = append(p.Objs, wobj{Kind: "info", Marker: []byte(doc.Title), ID: "info"})
		if doc.HasMeta {
			p.Objs = append(p.Objs, wobj{Kind: "metadata", Marker: []byte(doc.MetaTitle), ID: "meta"})
		}
		return p, nil
	}
}

// runJobs executes the jobs on the real Writer and observes the files.
func runJobs(jobs []job) ([]Record, map[string]int, error) {
	recs := make([]Record, len(jobs))
	have := make([]bool, len(jobs))
	errs := make([]error, len(jobs))
	why := make([]string, len(jobs))
	var wg sync.WaitGroup
	sem := make(chan struct{}, 16)
	for i := range jobs {
		wg.Add(1)
		sem <- struct{}{}
		go func(i int) {
			defer wg.Done()
			defer func() { <-sem }()
			defer func() {
				if p := recover(); p != nil {
					errs[i] = fmt.Errorf("panic: %v", p)
				}
			}()
			p, err := jobs[i]()
			if errors.Is(err, errNotClosed) {
				why[i] = err.Error()
				if k := strings.LastIndex(why[i], ": "); k > 0 && len(why[i]) > 80 {
					why[i] = why[i][:80]
				}
				return
			}
			if err != nil {
				errs[i] = err
				return
			}
			if p == nil || len(p.Data) == 0 {
				return
			}
			recs[i], errs[i] = observe(p)
			have[i] = errs[i] == nil
		}(i)
	}
	wg.Wait()
	var out []Record
	skipped := map[string]int{}
	for i := range jobs {
		if errs[i] != nil {
			if _, ok := errs[i].(*core.InfraError); ok {
				return nil, nil, errs[i]
			}
			return nil, nil, core.Infra("job %d: %v", i, errs[i])
		}
		if have[i] {
			out = append(out, recs[i])
		} else {
			skipped[why[i]]++
		}
	}
	return out, skipped, nil
}

func run(ctx *core.Ctx) error {
	ctx.Ev.Rule = "one evaluation = one file (written by pdf.Writer and observed through indep/strict + indep/secure, or written by indep/ser + indep/secure and opened by pdf.Reader); " +
		"non-trivial = at least three encrypted items; distinct = distinct (source, configuration, program or seed)"
	ctx.Ev.Assume("TLC evaluates CryptScope.tla faithfully; RefKeyOf/RefExempt state ISO 32000-2 7.6.2, 7.6.3 (Algorithm 1, 1.A)")
	ctx.Ev.Assume("harness/indep/strict and harness/indep/secure (written from ISO 32000-2, unit-tested, cross-checked in C09) are the projection from bytes to the observed state")
	ctx.Ev.Assume("the bit-exact algorithms are checked at exploration level: by the independent handler opening every file (and the Reader opening its files), not by the model")
	files, err := specFiles(ctx)
	if err != nil {
		return err
	}

	// 1. exhaustive models
	kind := "q"
	if ctx.Thorough() {
		kind = "t"
	}
	for _, fam := range []string{"TRUE", "FALSE"} {
		cfg := "MC_CryptScope_" + kind + "_" + fam + ".cfg"
		res, err := ctx.MustHold(core.TLCOpts{Dir: "crypt", Module: "MC_CryptScope", Cfg: cfg, Workers: ctx.Pick(8, 12), Files: files, Coverage: ctx.Thorough(),
			XmxMB: 4000, Timeout: ctx.Dur(6, 25), Constants: "see " + cfg})
		if err != nil {
			return err
		}
		var zero []string
		for _, a := range res.ZeroCoverage {
			// crypt filters need PDF 1.5: the model ties them to OBJSTM
			if !(fam == "FALSE" && a == "OpenStreamIdentity") {
				zero = append(zero, a)
			}
		}
		res.ZeroCoverage = zero
		if ctx.Thorough() && len(res.ZeroCoverage) > 0 {
			return core.Infra("design model %s has actions that are never taken: %v", cfg, res.ZeroCoverage)
		}
	}

	// 2. files from the real Writer
	var jobs []job
	progs, edges, covered, err := programs(ctx, files, ctx.Pick(700, 0))
	if err != nil {
		return err
	}
	seeds := ctx.Rand("seeds")
	per := ctx.Pick(1, 2)
	nprog := 0
	for i, prog := range progs {
		needAES, needCrypt, needMeta := false, false, false
		for _, o := range prog {
			if o.Op == "Configure" && !o.EMD {
				needAES = true
			}
			if o.Op == "Configure" && o.Meta {
				needMeta = true
			}
			if o.Op == "OpenStreamIdentity" {
				needCrypt = true
			}
		}
		for k := 0; k < per; k++ {
			jobs = append(jobs, programJob(configFor(i*per+k+int(ctx.Seed)*13, needAES, needCrypt, needMeta), prog, seeds.Int63()))
			nprog++
		}
	}
	ctx.Ev.Set("model_transitions_of_program_graph", edges)
	ctx.Ev.Set("model_transitions_replayed_on_real_code", covered)
	ctx.Ev.AddReplayed(nprog)

	nc02 := 0
	fams := []c02.Family{{ObjStm: true, Seekable: false}}
	if ctx.Thorough() {
		fams = c02.Families
	}
	for _, fam := range fams {
		ps, _, _, err := c02.Programs(ctx, fam, ctx.Pick(250, 800))
		if err != nil {
			return err
		}
		for i, prog := range ps {
			open, closes := false, false
			for _, o := range prog {
				switch o.Op {
				case "OpenStream":
					open = !o.Err
				case "CloseStream":
					open = false
				case "Close":
					closes = true
				}
			}
			if !closes {
				prog = append([]c02.Op(nil), prog...)
				if open {
					prog = append(prog, c02.Op{Op: "CloseStream", Ns: []int{}, Vs: []string{}})
				}
				prog = append(prog, c02.Op{Op: "Close", Ns: []int{}, Vs: []string{}})
			}
			c := configFor(i+int(ctx.Seed)*7, false, false, false)
			cc := c02.Config{Version: c.Version, Human: !fam.ObjStm && c.Version >= "1.5", Seekable: fam.Seekable, Enc: c.Enc}
			if fam.ObjStm && c.Version < "1.5" {
				cc.Version = []string{"1.5", "1.6", "1.7", "2.0"}[i%4]
			}
			if fam.Seekable && cc.Version >= "1.2" {
				cc.Filter = []string{"", "Flate", "ASCII85", "ASCIIHex+Flate", "RunLength", "LZW"}[i%6]
			}
			jobs = append(jobs, c02Job(cc, prog, seeds.Int63()))
			nc02++
		}
	}
	ndoc := 0
	for round := 0; round < ctx.Pick(6, 60); round++ {
		for _, v := range []int{11, 12, 13, 14, 15, 16, 17, 20} {
			for _, emd := range []bool{true, false} {
				if !emd && v < 16 {
					continue
				}
				pw := [][2]string{{"u-secret", "o-secret"}, {"", "o-secret"}, {"u-secret", ""}, {"same", "same"}}[(round+v)%4]
				if v == 20 && round%3 != 0 {
					// passwords around the 127 byte limit, as user, as owner, as both
					a, b := r6Passwords[1+(round*2)%(len(r6Passwords)-1)], r6Passwords[1+(round*2+5)%(len(r6Passwords)-1)]
					pw = [][2]string{{a, b}, {"", a}, {b, ""}, {a, "o-secret"}}[(round/3)%4]
				}
				jobs = append(jobs, docJob(docParams{Version: v, EMD: emd, User: pw[0], Owner: pw[1], Seed: seeds.Int63()}))
				ndoc++
			}
		}
	}
	recs, skipped, err := runJobs(jobs)
	if err != nil {
		return err
	}
	nskip := 0
	for _, k := range core.SortedKeys(skipped) {
		nskip += skipped[k]
		ctx.Logf("  %d programs end without a file: %s", skipped[k], k)
	}
	ctx.Logf("real Writer: %d CryptScope programs, %d PdfWriter (C02) programs, %d C09 documents -> %d encrypted files observed (%d programs end without a file)",
		nprog, nc02, ndoc, len(recs), nskip)

	// 3. the reverse direction
	foreign, err := reverse(ctx)
	if err != nil {
		return err
	}
	recs = append(recs, foreign...)

	// 4. TLC judges the observed states
	bad, err := judge(ctx, files, recs)
	if err != nil {
		return err
	}
	var rejected []Record
	for _, b := range bad {
		rejected = append(rejected, recs[b])
	}
	if err := confirmAll(ctx, files, rejected); err != nil {
		return err
	}

	// evidence
	items, encItems, aesItems := 0, 0, 0
	wheres := map[string]int{}
	schemes := map[string]int{}
	nWritten, nForeign := 0, 0
	for i, r := range recs {
		ctx.Ev.Eval(1)
		if r.Kind == "foreign" {
			nForeign++
			continue
		}
		nWritten++
		n := 0
		for _, it := range r.Items {
			items++
			wheres[it.Where]++
			if it.Cipher == "RC4" || it.Cipher == "AES" {
				n++
				encItems++
			}
			if it.Cipher == "AES" {
				aesItems++
			}
		}
		schemes[fmt.Sprintf("R%d/%s", r.R, r.Cipher)]++
		if n >= 3 {
			raw, _ := json.Marshal(r.replay)
			ctx.Ev.Distinct(r.Source + string(raw))
		}
		if i%997 == 3 && len(r.Items) > 0 {
			s := r
			if len(s.Items) > 6 {
				s.Items = s.Items[:6]
			}
			ctx.Ev.Sample(map[string]any{"kind": "observed CryptScope state of a Writer file, judged by Trace_CryptScope", "record": s})
		}
	}
	ctx.Ev.Exhaustive = true
	ctx.Ev.Set("exhaustive_scope", "model: all write programs of the bounded CryptScope model x cipher x EncryptMetadata; real code: an edge cover of the program graph (quick: partial) plus seeded documents")
	ctx.Ev.Set("writer_files_cross_opened_by_indep_secure", nWritten)
	ctx.Ev.Set("indep_files_opened_by_reader", nForeign)
	ctx.Ev.Set("items_observed", items)
	ctx.Ev.Set("items_encrypted", encItems)
	ctx.Ev.Set("aes_items_with_iv", aesItems)
	ctx.Ev.Set("items_by_place", wheres)
	ctx.Ev.Set("schemes_seen", schemes)
	return nil
}

func judge(ctx *core.Ctx, files map[string][]byte, recs []Record) ([]int, error) {
	return core.JudgeCases(ctx, core.TLCOpts{Dir: "crypt", Module: "Trace_CryptScope", Cfg: "Trace_CryptScope.cfg", Files: files, XmxMB: 2000,
		XssMB: 512, Timeout: ctx.Dur(8, 25)}, forTLC(recs), 500, 12)
}

// classify names the first clause a record fails (mirrors WrittenOK; used
// for the key and the message only, the verdict is TLC's).
func classify(r Record) (string, string) {
	pre := fmt.Sprintf("R%d/%s", r.R, r.Cipher)
	if r.Kind == "foreign" {
		if !r.Opened {
			return "foreign/" + r.Source + "/not-opened", "the Reader does not open a file encrypted by the independent handler: " + r.Note
		}
		return "foreign/" + r.Source + "/content", "the Reader returns other plaintexts than the independent handler encrypted: " + r.Note
	}
	if r.Cipher != "RC4" && r.Cipher != "AESV2" && r.Cipher != "AESV3" {
		return "written/not-encrypted/" + r.Cipher, "the file has no usable encryption dictionary: " + r.Note
	}
	if !r.Auth {
		return "written/" + pre + "/authentication", "the independent security handler does not authenticate the known passwords: " + r.Note
	}
	exempt := func(w string) bool {
		return w == "trailer" || w == "encryptDict" || w == "xref" || w == "member" || w == "identity" || w == "metadata" && !r.EMD
	}
	for _, it := range r.Items {
		if !it.OK {
			return fmt.Sprintf("written/%s/not-decryptable/%s", pre, it.Where),
				fmt.Sprintf("object %d %d (%s): neither plaintext nor decryptable with any known key derivation", it.Num, it.Gen, it.Where)
		}
	}
	for _, it := range r.Items {
		if !exempt(it.Where) && it.Cipher == "none" {
			return fmt.Sprintf("written/%s/plaintext/%s", pre, it.Where), fmt.Sprintf("object %d %d: %s is stored unencrypted (%d bytes)", it.Num, it.Gen, it.Where, it.Len)
		}
		if exempt(it.Where) && it.Cipher != "none" {
			return fmt.Sprintf("written/%s/exempt-encrypted/%s/%s", pre, it.Where, it.Key), fmt.Sprintf("object %d %d: %s must not be encrypted individually (decrypts with key: %s)", it.Num, it.Gen, it.Where, it.Key)
		}
		if it.Cipher != "none" && it.Key != "own" {
			return fmt.Sprintf("written/%s/key/%s/%s", pre, it.Where, it.Key), fmt.Sprintf("object %d %d: %s is not encrypted with the key of Algorithm 1 for (%d, %d) but with: %s", it.Num, it.Gen, it.Where, it.Num, it.Gen, it.Key)
		}
	}
	for i, a := range r.Items {
		for _, b := range r.Items[i+1:] {
			if a.Cipher == "AES" && b.Cipher == "AES" && a.IV == b.IV {
				w1, w2 := a.Where, b.Where
				if w2 < w1 {
					w1, w2 = w2, w1
				}
				return fmt.Sprintf("written/%s/iv-reuse/%s+%s", pre, w1, w2), fmt.Sprintf("objects %d %d (%s) and %d %d (%s) use the same initialisation vector %s", a.Num, a.Gen, a.Where, b.Num, b.Gen, b.Where, a.IV)
			}
		}
	}
	for _, m := range r.Items {
		if m.Where != "member" {
			continue
		}
		ok := false
		for _, k := range r.Items {
			if k.Where == "container" && k.Num == m.In && k.Cipher != "none" {
				ok = true
			}
		}
		if !ok {
			return "written/" + pre + "/objstm-container-plain", fmt.Sprintf("object stream %d holding object %d is not encrypted", m.In, m.Num)
		}
	}
	for i, a := range r.Items {
		for _, b := range r.Items[i+1:] {
			if a.Cipher != "none" && b.Cipher != "none" && a.Plain == b.Plain && a.Len >= 6 && (a.Num != b.Num || a.Gen != b.Gen) && a.Ct == b.Ct {
				return fmt.Sprintf("written/%s/equal-ciphertexts/%s+%s", pre, a.Where, b.Where), fmt.Sprintf("equal plaintexts in objects %d %d and %d %d have equal ciphertexts", a.Num, a.Gen, b.Num, b.Gen)
			}
		}
	}
	if len(r.Leaks) > 0 {
		return "written/" + pre + "/plaintext-in-raw-bytes", fmt.Sprintf("%d plaintexts handed to the Writer occur in the raw file outside the exempt streams", len(r.Leaks))
	}
	return "written/" + pre + "/other", "rejected by Trace_CryptScope"
}

// confirmAll re-executes rejected cases (the Writer draws keys and IVs from
// crypto/rand) and reports those that TLC rejects again.
func confirmAll(ctx *core.Ctx, files map[string][]byte, rejected []Record) error {
	pending := rejected
	for attempt := 0; attempt < 3 && len(pending) > 0; attempt++ {
		again := make([]Record, len(pending))
		for i, r := range pending {
			n, err := reexecute(r.replay)
			if err != nil {
				return err
			}
			again[i] = n
		}
		bad, err := judge(ctx, files, again)
		if err != nil {
			return err
		}
		isBad := map[int]bool{}
		counts := map[string]int{}
		for _, b := range bad {
			isBad[b] = true
			key, what := classify(again[b])
			counts[key]++
			if counts[key] <= 2 {
				ctx.Violation(key, what+" ["+again[b].Source+"]", again[b].replay)
			}
		}
		for _, k := range core.SortedKeys(counts) {
			ctx.Logf("rejected files with key %s: %d", k, counts[k])
		}
		var rest []Record
		for i := range pending {
			if !isBad[i] {
				rest = append(rest, pending[i])
			}
		}
		pending = rest
	}
	if len(pending) > 0 {
		key, what := classify(pending[0])
		return core.Infra("%d rejected files do not reproduce, e.g. %s: %s", len(pending), key, what)
	}
	return nil
}

// reexecute runs a stored case again.
func reexecute(raw any) (Record, error) {
	data, ok := raw.(json.RawMessage)
	if !ok {
		var err error
		if data, err = json.Marshal(raw); err != nil {
			return Record{}, core.Infra("replay: %v", err)
		}
	}
	var c struct {
		Kind    string          `json:"kind"`
		Cfg     json.RawMessage `json:"cfg"`
		Prog    json.RawMessage `json:"prog"`
		Seed    int64           `json:"seed"`
		Doc     docParams       `json:"doc"`
		Foreign foreignCase     `json:"foreign"`
	}
	if err := json.Unmarshal(data, &c); err != nil {
		return Record{}, core.Infra("replay: %v", err)
	}
	var j job
	switch c.Kind {
	case "program":
		var cfg Config
		var prog []Op
		if json.Unmarshal(c.Cfg, &cfg) != nil || json.Unmarshal(c.Prog, &prog) != nil {
			return Record{}, core.Infra("replay: malformed program case")
		}
		j = programJob(cfg, prog, c.Seed)
	case "c02":
		var cfg c02.Config
		var prog []c02.Op
		if json.Unmarshal(c.Cfg, &cfg) != nil || json.Unmarshal(c.Prog, &prog) != nil {
			return Record{}, core.Infra("replay: malformed C02 program case")
		}
		for i := range prog {
			if prog[i].Ns == nil {
				prog[i].Ns, prog[i].Vs = []int{}, []string{}
			}
		}
		j = c02Job(cfg, prog, c.Seed)
	case "doc":
		j = docJob(c.Doc)
	case "foreign":
		return runForeign(c.Foreign), nil
	default:
		return Record{}, core.Infra("replay: unknown case kind %q", c.Kind)
	}
	p, err := j()
	if err != nil {
		return Record{}, core.Infra("replay: %v", err)
	}
	return observe(p)
}

func replay(ctx *core.Ctx, raw json.RawMessage) error {
	files, err := specFiles(ctx)
	if err != nil {
		return err
	}
	c := raw // kept as bytes: 64 bit seeds do not survive a float64
	for attempt := 0; attempt < 3; attempt++ {
		rec, err := reexecute(c)
		if err != nil {
			return err
		}
		rec.replay = c
		fmt.Printf("  %s file: cipher=%s R=%d EncryptMetadata=%v auth=%v opened=%v contentOK=%v leaks=%d %s\n", rec.Kind, rec.Cipher, rec.R, rec.EMD, rec.Auth, rec.Opened, rec.ContentOK, len(rec.Leaks), rec.Note)
		for _, it := range rec.Items {
			fmt.Printf("    %6d %3d %-12s cipher=%-4s key=%-20s ok=%v len=%d iv=%s\n", it.Num, it.Gen, it.Where, it.Cipher, it.Key, it.OK, it.Len, it.IV)
		}
		bad, err := judge(ctx, files, []Record{rec})
		if err != nil {
			return err
		}
		if len(bad) > 0 {
			key, what := classify(rec)
			ctx.Violation(key, what+" ["+rec.Source+"]", c)
			return nil
		}
	}
	return nil
}

func join(xs []string) string { return strings.Join(xs, ",") }
