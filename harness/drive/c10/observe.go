package c10

import (
	"bytes"
	"crypto/sha256"
	"encoding/hex"
	"fmt"
	"regexp"
	"sort"
	"strings"

	"verif/harness/core"
	"verif/harness/indep/obj"
	"verif/harness/indep/secure"
	"verif/harness/indep/strict"
)

// Item is one string or stream of a file as the independent observer
// (indep/strict + indep/secure) sees it: the observed CryptScope state.
type Item struct {
	Num    int    `json:"num"`
	Gen    int    `json:"gen"`
	Where  string `json:"where"`  // string dictString body member container identity metadata trailer encryptDict xref
	In     int    `json:"in"`     // member: number of the object stream
	Plain  string `json:"plain"`  // id of the plaintext (digest): equal plaintexts have equal ids
	Len    int    `json:"len"`    // plaintext length
	Cipher string `json:"cipher"` // none | RC4 | AES | ? (neither plaintext nor decryptable)
	Key    string `json:"key"`    // own: Algorithm 1/1.A key of (num, gen); otherwise the name of the deviating derivation that worked
	IV     string `json:"iv"`     // AES: the 16 bytes in front of the ciphertext
	Ct     string `json:"ct"`     // digest of the ciphertext (after the IV)
	OK     bool   `json:"ok"`     // decrypts (and decodes) to what was written
}

// Record is what Trace_CryptScope judges.
type Record struct {
	Kind   string   `json:"kind"`   // written | foreign
	Cipher string   `json:"cipher"` // RC4 | AESV2 | AESV3 | none
	EMD    bool     `json:"emd"`
	R      int      `json:"R"`
	Auth   bool     `json:"auth"` // every known password authenticates, with the right kind of access
	Items  []Item   `json:"items"`
	Leaks  []string `json:"leaks"`
	// foreign files (written by indep/secure + indep/ser, opened by the Reader)
	Opened    bool `json:"opened"`
	ContentOK bool `json:"contentOK"`

	Source string `json:"source,omitempty"`
	Note   string `json:"note,omitempty"`
	replay any
}

func forTLC(recs []Record) []Record {
	out := make([]Record, len(recs))
	for i, r := range recs {
		r.Source, r.Note, r.replay = "", "", nil
		if r.Items == nil {
			r.Items = []Item{}
		}
		if r.Leaks == nil {
			r.Leaks = []string{}
		}
		out[i] = r
	}
	return out
}

func plainID(b []byte) string {
	h := sha256.Sum256(b)
	return "p" + hex.EncodeToString(h[:6])
}

func digest(b []byte) string {
	h := sha256.Sum256(b)
	return hex.EncodeToString(h[:8])
}

type keyCand struct {
	name string
	key  []byte
	aes  bool
}

type observer struct {
	f       *strict.File
	h       *secure.Handler
	fileKey []byte
	data    []byte
	exempt  [][2]int64 // byte ranges that are legitimately plaintext
}

// candidates lists the per-object key of the standard first, then the
// deviations the observer can name.
func (ob *observer) candidates(ref obj.Ref, stream bool, container uint32) []keyCand {
	m := ob.h.StrM
	if stream {
		m = ob.h.StmM
	}
	if m == secure.MethodNone {
		return nil
	}
	aes := m.AES()
	c := []keyCand{{"own", secure.ObjectKey(ob.fileKey, ref.Num, ref.Gen, aes), aes}}
	if len(ob.fileKey) == 32 {
		return c
	}
	if ref.Gen != 0 {
		c = append(c, keyCand{"generation-ignored", secure.ObjectKey(ob.fileKey, ref.Num, 0, aes), aes})
	}
	if ref.Num > 0xFFFF {
		c = append(c, keyCand{"two-bytes-of-number", secure.ObjectKey(ob.fileKey, ref.Num&0xFFFF, ref.Gen, aes), aes})
	}
	if ref.Num > 0xFF {
		c = append(c, keyCand{"one-byte-of-number", secure.ObjectKey(ob.fileKey, ref.Num&0xFF, ref.Gen, aes), aes})
	}
	if container != 0 {
		c = append(c, keyCand{"container-number", secure.ObjectKey(ob.fileKey, container, 0, aes), aes})
	}
	c = append(c, keyCand{"salt-flipped", secure.ObjectKey(ob.fileKey, ref.Num, ref.Gen, !aes), aes})
	c = append(c, keyCand{"file-key", ob.fileKey, aes})
	return c
}

// observeString classifies the raw bytes of a string against its plaintext.
func (ob *observer) observeString(ref obj.Ref, where string, container uint32, raw, plain []byte) (Item, bool) {
	it := Item{Num: int(ref.Num), Gen: int(ref.Gen), Where: where, In: int(container), Plain: plainID(plain), Len: len(plain), Cipher: "?", Key: "?"}
	if len(plain) == 0 && !ob.h.StrM.AES() {
		return it, false // RC4 of nothing is nothing: no information
	}
	if bytes.Equal(raw, plain) {
		if len(plain) < 6 && !ob.h.StrM.AES() {
			// a short RC4 ciphertext equals its plaintext with probability
			// 256^-n: no information either way
			return it, false
		}
		it.Cipher, it.Key, it.OK, it.Ct = "none", "", true, digest(raw)
		return it, true
	}
	for _, c := range ob.candidates(ref, false, container) {
		d, err := secure.DecryptString(c.key, c.aes, raw)
		if err == nil && bytes.Equal(d, plain) {
			it.Key, it.OK = c.name, true
			if c.aes {
				it.Cipher, it.IV, it.Ct = "AES", hex.EncodeToString(raw[:16]), digest(raw[16:])
			} else {
				it.Cipher, it.Ct = "RC4", digest(raw)
			}
			return it, true
		}
	}
	it.Ct = digest(raw)
	return it, true
}

// observeBody classifies raw stream data against the decoded data that was
// written (or a marker that must occur in it).
func (ob *observer) observeBody(ref obj.Ref, where string, dict obj.Dict, raw, body, marker []byte) (Item, bool) {
	res := func(r obj.Ref) (obj.Value, bool) { return ob.f.Lookup(r) }
	matches := func(data []byte) bool {
		dec, err := strict.Decode(dict, data, res)
		if err != nil {
			return false
		}
		if marker != nil {
			return bytes.Contains(dec, marker)
		}
		return bytes.Equal(dec, body)
	}
	plain := body
	if marker != nil {
		plain = marker
	}
	it := Item{Num: int(ref.Num), Gen: int(ref.Gen), Where: where, Plain: plainID(plain), Len: len(plain), Cipher: "?", Key: "?", Ct: digest(raw)}
	if matches(raw) {
		if len(raw) == 0 && !ob.h.StmM.AES() {
			return it, false // RC4 of nothing is nothing: no information
		}
		it.Cipher, it.Key, it.OK = "none", "", true
		return it, true
	}
	for _, c := range ob.candidates(ref, true, 0) {
		d, err := secure.DecryptStream(c.key, c.aes, raw)
		if err == nil && matches(d) {
			it.Key, it.OK = c.name, true
			if c.aes {
				it.Cipher, it.IV, it.Ct = "AES", hex.EncodeToString(raw[:16]), digest(raw[16:])
			} else {
				it.Cipher = "RC4"
			}
			return it, true
		}
	}
	return it, true
}

// walk pairs the strings of the value found in the file with the strings of
// the value that was written.
func walk(got, want obj.Value, fn func(g, w obj.Str)) bool {
	switch w := obj.Norm(want).(type) {
	case obj.Str:
		g, ok := got.(obj.Str)
		if !ok {
			return false
		}
		fn(g, w)
	case obj.Array:
		g, ok := got.(obj.Array)
		if !ok || len(g) != len(w) {
			return false
		}
		for i := range w {
			if !walk(g[i], w[i], fn) {
				return false
			}
		}
	case obj.Dict:
		g, ok := got.(obj.Dict)
		if !ok {
			return false
		}
		for _, k := range w.Keys() {
			if !walk(g[k], w[k], fn) {
				return false
			}
		}
	}
	return true
}

func stripStreamKeys(d obj.Dict) obj.Dict {
	out := obj.Dict{}
	for k, v := range d {
		switch k {
		case "Length", "Filter", "DecodeParms":
		default:
			out[k] = v
		}
	}
	return out
}

func firstFilterIsCrypt(d obj.Dict) bool {
	switch f := d["Filter"].(type) {
	case obj.Name:
		return f == "Crypt"
	case obj.Array:
		if len(f) > 0 {
			n, _ := f[0].(obj.Name)
			return n == "Crypt"
		}
	}
	return false
}

var rePDFWords = regexp.MustCompile(`^(endstream|endobj|stream|obj|xref|trailer|startxref|\s)+$`)

func escapeLiteral(b []byte) []byte {
	var out []byte
	for _, c := range b {
		switch c {
		case '\\', '(', ')':
			out = append(out, '\\', c)
		case '\r':
			out = append(out, '\\', 'r')
		case '\n':
			out = append(out, '\\', 'n')
		default:
			out = append(out, c)
		}
	}
	return out
}

// leakScan searches the raw file for a plaintext outside the exempt ranges.
func (ob *observer) leakScan(plain []byte, isString bool) bool {
	if len(plain) < 6 || rePDFWords.Match(plain) {
		return false
	}
	// runs of one byte value (sixteen zero bytes pad /U, ...) occur in any
	// file: only plaintexts with some variety are searched for
	distinct := map[byte]bool{}
	for _, c := range plain {
		distinct[c] = true
	}
	if len(distinct) < 5 {
		return false
	}
	probe := plain
	if len(probe) > 48 {
		probe = probe[:48]
	}
	probes := [][]byte{probe}
	if isString {
		probes = append(probes, escapeLiteral(probe), []byte(hex.EncodeToString(probe)), []byte(strings.ToUpper(hex.EncodeToString(probe))))
	}
	for _, p := range probes {
		from := 0
		for {
			i := bytes.Index(ob.data[from:], p)
			if i < 0 {
				break
			}
			at := int64(from + i)
			ok := false
			for _, e := range ob.exempt {
				if at >= e[0] && at < e[1] {
					ok = true
				}
			}
			if !ok {
				return true
			}
			from += i + 1
		}
	}
	return false
}

// observe builds the observed CryptScope state of a file the real Writer
// produced.  An error is an infrastructure problem (the machinery cannot
// relate the file to what was written); whatever concerns C10 is in the record.
func observe(p *produced) (Record, error) {
	rec := Record{Kind: "written", Cipher: "none", EMD: true, Items: []Item{}, Leaks: []string{}, Source: p.Source, replay: p.Replay}
	f, err := strict.ParseOpts(p.Data, nil)
	if err != nil {
		return rec, core.Infra("the strict parser cannot read a file of the Writer (%s): %v", p.Source, err)
	}
	ob := &observer{f: f, data: p.Data}
	tr := f.Trailer()
	encV, has := tr["Encrypt"]
	if !has {
		rec.Note = "no /Encrypt in the trailer"
		return rec, nil
	}
	if r, isRef := encV.(obj.Ref); isRef {
		encV, _ = f.Lookup(r)
	}
	enc, _ := encV.(obj.Dict)
	var id0 []byte
	if ids, ok := tr["ID"].(obj.Array); ok && len(ids) > 0 {
		if s, ok := ids[0].(obj.Str); ok {
			id0 = s
		}
	}
	h, err := secure.Parse(enc, id0)
	if err != nil {
		rec.Note = "encryption dictionary: " + err.Error()
		return rec, nil
	}
	ob.h = h
	rec.R, rec.EMD = h.R, h.EncryptMetadata
	switch h.StmM {
	case secure.MethodRC4:
		rec.Cipher = "RC4"
	case secure.MethodAESV2:
		rec.Cipher = "AESV2"
	case secure.MethodAESV3:
		rec.Cipher = "AESV3"
	}
	if h.StrM != h.StmM {
		rec.Note = fmt.Sprintf("strings %v, streams %v", h.StrM, h.StmM)
		rec.Cipher = "mixed"
		return rec, nil
	}

	// authentication with every password we know
	rec.Auth = true
	try := func(pw string, wantOwner bool) {
		key, isOwner, err := h.Authenticate(pw)
		if err != nil || isOwner != wantOwner {
			rec.Auth = false
			rec.Note += fmt.Sprintf("password %q: owner=%v err=%v; ", pw, isOwner, err)
			return
		}
		if ob.fileKey != nil && !bytes.Equal(ob.fileKey, key) {
			rec.Auth = false
			rec.Note += "user and owner password give different file keys; "
		}
		ob.fileKey = key
	}
	owner := p.OwnerPw
	if owner == "" {
		owner = p.UserPw
	}
	try(owner, true)
	if p.UserPw != owner {
		try(p.UserPw, false)
	}
	if _, _, err := h.Authenticate("certainly wrong"); err == nil {
		rec.Auth = false
		rec.Note += "a wrong password authenticates; "
	}
	if ob.fileKey == nil {
		return rec, nil
	}
	rec.Items = append(rec.Items, Item{Where: "trailer", Plain: "id", Cipher: "none", OK: true},
		Item{Where: "encryptDict", Plain: "OU", Cipher: "none", OK: true})

	// object streams: is the container encrypted (with its own key)?
	res := func(r obj.Ref) (obj.Value, bool) { return f.Lookup(r) }
	containerPlain := map[obj.Ref]bool{}
	for _, o := range f.Objects {
		st, ok := o.Value.(*obj.Stream)
		if !ok {
			continue
		}
		switch t, _ := st.Dict["Type"].(obj.Name); t {
		case "XRef":
			rec.Items = append(rec.Items, Item{Num: int(o.Ref.Num), Gen: int(o.Ref.Gen), Where: "xref", Plain: "x", Cipher: "none", OK: true})
		case "ObjStm":
			it := Item{Num: int(o.Ref.Num), Gen: int(o.Ref.Gen), Where: "container", Plain: fmt.Sprintf("c%d", o.Ref.Num), Len: len(st.Raw), Cipher: "?", Key: "?", Ct: digest(st.Raw)}
			looksLikeObjStm := func(data []byte) bool {
				dec, err := strict.Decode(st.Dict, data, res)
				if err != nil {
					return false
				}
				first, _ := st.Dict["First"].(obj.Int)
				return int(first) <= len(dec) && int(first) > 0 && dec[0] >= '0' && dec[0] <= '9'
			}
			if looksLikeObjStm(st.Raw) {
				it.Cipher, it.Key, it.OK = "none", "", true
				containerPlain[o.Ref] = true
			} else {
				for _, c := range ob.candidates(o.Ref, true, 0) {
					d, err := secure.DecryptStream(c.key, c.aes, st.Raw)
					if err == nil && looksLikeObjStm(d) {
						it.Key, it.OK = c.name, c.name == "own"
						if c.aes {
							it.Cipher, it.IV, it.Ct = "AES", hex.EncodeToString(st.Raw[:16]), digest(st.Raw[16:])
						} else {
							it.Cipher = "RC4"
						}
						break
					}
				}
			}
			rec.Items = append(rec.Items, it)
		}
	}
	hook := func(ref obj.Ref, isStream bool, data []byte) ([]byte, error) {
		if isStream && containerPlain[ref] {
			return data, nil
		}
		for _, c := range ob.candidates(ref, isStream, 0) {
			if d, err := secure.Decrypt(c.key, c.aes, data); err == nil {
				return d, nil
			}
		}
		return nil, fmt.Errorf("cannot decrypt")
	}
	if err := f.SetDecrypt(hook); err != nil {
		rec.Note += "object streams cannot be expanded: " + err.Error()
		rec.Items = append(rec.Items, Item{Where: "container", Plain: "c", Cipher: "?", Key: "?"})
		return rec, nil
	}

	// the objects that were handed to the Writer
	type scan struct {
		plain    []byte
		isString bool
	}
	var scans []scan
	infoRef, _ := tr["Info"].(obj.Ref)
	var metaRef obj.Ref
	if root, ok := tr["Root"].(obj.Ref); ok {
		if cat, ok := f.Lookup(root); ok {
			if d, ok := cat.(obj.Dict); ok {
				metaRef, _ = d["Metadata"].(obj.Ref)
			}
		}
	}
	for _, w := range p.Objs {
		ref := w.Ref
		switch w.Kind {
		case "info":
			ref = infoRef
		case "metadata":
			ref = metaRef
		}
		o, idx := f.LookupObject(ref)
		if o == nil {
			return rec, core.Infra("%s: object %v (%s) that was written is not in the file", p.Source, ref, w.Kind)
		}
		strWhere, container := "string", uint32(0)
		var got obj.Value = o.Value
		if idx >= 0 {
			if o.ObjStm == nil || idx >= len(o.ObjStm.Members) {
				return rec, core.Infra("%s: object %v: member %d of object stream %v not expanded", p.Source, ref, idx, o.Ref)
			}
			got, strWhere, container = o.ObjStm.Members[idx].Value, "member", o.Ref.Num
		}
		addStrings := func(got, want obj.Value, where string) error {
			okStruct := walk(got, want, func(g, wnt obj.Str) {
				if it, informative := ob.observeString(ref, where, container, g, wnt); informative {
					rec.Items = append(rec.Items, it)
				}
				scans = append(scans, scan{wnt, true})
			})
			if !okStruct {
				return core.Infra("%s: object %v: the value in the file does not have the shape of what was written: %s vs %s", p.Source, ref, clip(obj.String(got)), clip(obj.String(want)))
			}
			return nil
		}
		switch w.Kind {
		case "plain":
			if err := addStrings(got, w.Val, strWhere); err != nil {
				return rec, err
			}
		case "info":
			d, _ := got.(obj.Dict)
			t, _ := d["Title"].(obj.Str)
			want := w.Marker
			if enc, ok := secure.PDFDocEncode(string(w.Marker)); ok {
				want = enc
			}
			if it, informative := ob.observeString(ref, strWhere, container, t, want); informative {
				rec.Items = append(rec.Items, it)
			}
			scans = append(scans, scan{want, true})
		case "stream", "identity", "metadata":
			st, ok := got.(*obj.Stream)
			if !ok || idx >= 0 {
				return rec, core.Infra("%s: object %v was written as a stream", p.Source, ref)
			}
			if w.Val != nil {
				if err := addStrings(stripStreamKeys(st.Dict), w.Val, "dictString"); err != nil {
					return rec, err
				}
			}
			where := "body"
			switch {
			case w.Kind == "metadata":
				where = "metadata"
			case firstFilterIsCrypt(st.Dict):
				where = "identity"
			}
			it, informative := ob.observeBody(ref, where, st.Dict, st.Raw, w.Body, w.Marker)
			if informative {
				rec.Items = append(rec.Items, it)
			}
			if it.Cipher == "none" && (where == "identity" || where == "metadata" && !rec.EMD) && o.Stream != nil {
				ob.exempt = append(ob.exempt, [2]int64{o.Stream.DataOffset, o.Stream.DataOffset + int64(len(st.Raw)) + 1})
			}
			if w.Marker != nil {
				scans = append(scans, scan{w.Marker, false})
			} else if len(st.Dict) > 0 && st.Dict["Filter"] == nil || where == "identity" {
				scans = append(scans, scan{w.Body, false})
			}
		}
	}
	// plaintext scan of the raw bytes
	seen := map[string]bool{}
	for _, s := range scans {
		id := plainID(s.plain)
		if seen[id] {
			continue
		}
		seen[id] = true
		if ob.leakScan(s.plain, s.isString) {
			rec.Leaks = append(rec.Leaks, id)
			rec.Note += fmt.Sprintf("plaintext %q found in the raw bytes; ", clip(string(s.plain)))
		}
	}
	sort.Strings(rec.Leaks)
	return rec, nil
}

func clip(s string) string {
	if len(s) > 200 {
		return s[:200] + "..."
	}
	return s
}
