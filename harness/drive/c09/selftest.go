package c09

import (
	"verif/harness/core"
)

// selfTest: the machinery must notice (i) corrupted records, (ii) the design
// model failing for the defective variants, (iii) a wrong table expectation.
func selfTest(ctx *core.Ctx) error {
	if err := checkFamilies(); err != nil {
		return err
	}
	// real records: one document, opened with the user, the owner, a wrong
	// and no password
	gcs := []genCase{}
	for _, sup := range [][]string{{"A"}, {"B"}, {"C"}, {}} {
		gcs = append(gcs, genCase{User: []string{"A"}, Owner: []string{"B"}, Sup: sup, Perms: []string{"Print", "Copy"}, Version: 17, EMD: true, Enc: true, R: 4})
	}
	g := &docGroup{key: "selftest"}
	for i := range gcs {
		g.cases = append(g.cases, &gcs[i])
	}
	good, err := execGroup(ctx, g, 42, true, newTally())
	if err != nil {
		return err
	}
	if good[0].Outcome != "opened" || good[1].Outcome != "opened" || good[2].Outcome != "autherr" || good[3].Outcome != "autherr" {
		return core.Infra("self-test: unexpected outcomes %s %s %s %s", good[0].Outcome, good[1].Outcome, good[2].Outcome, good[3].Outcome)
	}
	// (i) corrupt one field each
	recs := append([]record{}, good...)
	c1 := good[0] // user access with one permission too many
	c1.PermsOut = append(append([]string{}, c1.PermsOut...), "Modify")
	c2 := good[1] // owner access with a permission missing
	c2.PermsOut = c2.PermsOut[1:]
	c3 := good[2] // wrong password opens
	c3.Outcome, c3.Reader, c3.ContentOK, c3.PermsOut = "opened", true, true, closure(c3.Perms)
	c4 := good[0] // content differs
	c4.ContentOK = false
	c5 := good[2] // wrong password fails with another error
	c5.Outcome = "error"
	c6 := good[0] // right password fails
	c6.Outcome, c6.Reader, c6.PermsOut, c6.ContentOK = "autherr", false, []string{}, false
	c7 := good[2] // failure, but a reader is returned
	c7.Reader = true
	c8 := good[0] // the Writer refuses an acceptable request
	c8.Written, c8.Outcome, c8.Reader, c8.PermsOut, c8.ContentOK = false, "refused", false, []string{}, false
	recs = append(recs, c1, c2, c3, c4, c5, c6, c7, c8)
	bad, err := core.JudgeCases(ctx, core.TLCOpts{Dir: "crypt", Module: "Trace_StdSec", Cfg: "Trace_StdSec.cfg"}, forTLC(recs), 100, 1)
	if err != nil {
		return err
	}
	want := []int{4, 5, 6, 7, 8, 9, 10, 11}
	if len(bad) != len(want) {
		return core.Infra("self-test: corrupted records not singled out: rejected %v, want %v", bad, want)
	}
	for i := range want {
		if bad[i] != want[i] {
			return core.Infra("self-test: corrupted records not singled out: rejected %v, want %v", bad, want)
		}
	}
	ctx.Logf("self-test (i): 8 corrupted records rejected, 4 intact records of the real code accepted")

	// (ii) defective variants of the decision procedure / bit algebra
	for cfg, inv := range map[string]string{"MC_StdSec_neg_userfirst.cfg": "OutcomeOK", "MC_StdSec_neg_noempty.cfg": "OutcomeOK", "MC_StdSec_neg_forget.cfg": "PermsOK"} {
		res, err := ctx.TLC(core.TLCOpts{Dir: "crypt", Module: "MC_StdSec", Cfg: cfg, Workers: 4, Mode: "negative-control"})
		if err != nil {
			return err
		}
		if res.Invariant != inv {
			return core.Infra("self-test: %s should violate %s, got %q", cfg, inv, res.Invariant)
		}
	}
	ctx.Logf("self-test (ii): user-before-owner, no-empty-password and forgotten-implication models violate their invariants")

	// (iii) wrong table expectation
	gc := *good[0].gc
	gc.Ref = []outJ{{Kind: "autherr", Perms: []string{}}}
	if inRef(&gc, good[0].Outcome, good[0].PermsOut) {
		return core.Infra("self-test: wrong table expectation not noticed")
	}
	gc.Ref = []outJ{{Kind: "opened", Perms: []string{"Copy", "Print"}}}
	if inRef(&gc, good[0].Outcome, good[0].PermsOut) {
		return core.Infra("self-test: wrong permission expectation not noticed")
	}
	ctx.Logf("self-test (iii): wrong table expectations noticed")
	return nil
}
