package c09

import (
	"bytes"
	"errors"
	"fmt"
	"strconv"

	"verif/harness/indep/obj"
)

// A small reader for the parts of a PDF file the check looks at without
// go-pdf: the trailer dictionary (classic or cross-reference stream), one
// uncompressed indirect object, a stream with a direct or indirect /Length.
// It understands exactly the syntax of ISO 32000-2 7.3 and is only applied
// to files written by the Writer under test.

type miniParser struct {
	b   []byte
	pos int
}

var errSyntax = errors.New("rawscan: syntax")

func isWhite(c byte) bool {
	return c == 0 || c == 9 || c == 10 || c == 12 || c == 13 || c == 32
}

func isDelim(c byte) bool {
	switch c {
	case '(', ')', '<', '>', '[', ']', '{', '}', '/', '%':
		return true
	}
	return false
}

func (p *miniParser) skip() {
	for p.pos < len(p.b) {
		c := p.b[p.pos]
		if isWhite(c) {
			p.pos++
		} else if c == '%' {
			for p.pos < len(p.b) && p.b[p.pos] != '\n' && p.b[p.pos] != '\r' {
				p.pos++
			}
		} else {
			return
		}
	}
}

func (p *miniParser) token() string {
	start := p.pos
	for p.pos < len(p.b) && !isWhite(p.b[p.pos]) && !isDelim(p.b[p.pos]) {
		p.pos++
	}
	return string(p.b[start:p.pos])
}

func (p *miniParser) value() (obj.Value, error) {
	p.skip()
	if p.pos >= len(p.b) {
		return nil, errSyntax
	}
	c := p.b[p.pos]
	switch {
	case c == '/':
		p.pos++
		raw := p.token()
		var name []byte
		for i := 0; i < len(raw); i++ {
			if raw[i] == '#' && i+2 < len(raw) {
				v, err := strconv.ParseUint(raw[i+1:i+3], 16, 8)
				if err != nil {
					return nil, errSyntax
				}
				name = append(name, byte(v))
				i += 2
			} else {
				name = append(name, raw[i])
			}
		}
		return obj.Name(name), nil
	case c == '(':
		return p.literal()
	case c == '<' && p.pos+1 < len(p.b) && p.b[p.pos+1] == '<':
		p.pos += 2
		d := obj.Dict{}
		for {
			p.skip()
			if bytes.HasPrefix(p.b[p.pos:], []byte(">>")) {
				p.pos += 2
				return d, nil
			}
			k, err := p.value()
			if err != nil {
				return nil, err
			}
			name, ok := k.(obj.Name)
			if !ok {
				return nil, errSyntax
			}
			v, err := p.value()
			if err != nil {
				return nil, err
			}
			d[name] = v
		}
	case c == '<':
		p.pos++
		var out []byte
		var hi byte
		n := 0
		for p.pos < len(p.b) && p.b[p.pos] != '>' {
			ch := p.b[p.pos]
			p.pos++
			if isWhite(ch) {
				continue
			}
			var v byte
			switch {
			case ch >= '0' && ch <= '9':
				v = ch - '0'
			case ch >= 'a' && ch <= 'f':
				v = ch - 'a' + 10
			case ch >= 'A' && ch <= 'F':
				v = ch - 'A' + 10
			default:
				return nil, errSyntax
			}
			if n%2 == 0 {
				hi = v
			} else {
				out = append(out, hi<<4|v)
			}
			n++
		}
		if n%2 == 1 {
			out = append(out, hi<<4)
		}
		p.pos++
		return obj.Str(out), nil
	case c == '[':
		p.pos++
		arr := obj.Array{}
		for {
			p.skip()
			if p.pos < len(p.b) && p.b[p.pos] == ']' {
				p.pos++
				return arr, nil
			}
			v, err := p.value()
			if err != nil {
				return nil, err
			}
			arr = append(arr, v)
		}
	}
	tok := p.token()
	switch tok {
	case "true":
		return obj.Bool(true), nil
	case "false":
		return obj.Bool(false), nil
	case "null":
		return obj.Null{}, nil
	case "":
		return nil, errSyntax
	}
	if n, err := strconv.ParseInt(tok, 10, 64); err == nil {
		// reference?
		save := p.pos
		p.skip()
		t2 := p.token()
		if g, err := strconv.ParseUint(t2, 10, 16); err == nil && t2 != "" {
			p.skip()
			if p.pos < len(p.b) && p.b[p.pos] == 'R' && (p.pos+1 == len(p.b) || isWhite(p.b[p.pos+1]) || isDelim(p.b[p.pos+1])) {
				p.pos++
				return obj.Ref{Num: uint32(n), Gen: uint16(g)}, nil
			}
		}
		p.pos = save
		return obj.Int(n), nil
	}
	if f, err := strconv.ParseFloat(tok, 64); err == nil {
		return obj.Real{F: f, Lit: tok}, nil
	}
	return nil, fmt.Errorf("%w: token %q", errSyntax, tok)
}

func (p *miniParser) literal() (obj.Value, error) {
	p.pos++ // (
	depth := 1
	var out []byte
	for p.pos < len(p.b) {
		c := p.b[p.pos]
		p.pos++
		switch c {
		case '(':
			depth++
			out = append(out, c)
		case ')':
			depth--
			if depth == 0 {
				return obj.Str(out), nil
			}
			out = append(out, c)
		case '\r':
			if p.pos < len(p.b) && p.b[p.pos] == '\n' {
				p.pos++
			}
			out = append(out, '\n')
		case '\\':
			if p.pos >= len(p.b) {
				return nil, errSyntax
			}
			e := p.b[p.pos]
			p.pos++
			switch e {
			case 'n':
				out = append(out, '\n')
			case 'r':
				out = append(out, '\r')
			case 't':
				out = append(out, '\t')
			case 'b':
				out = append(out, '\b')
			case 'f':
				out = append(out, '\f')
			case '\r':
				if p.pos < len(p.b) && p.b[p.pos] == '\n' {
					p.pos++
				}
			case '\n':
			default:
				if e >= '0' && e <= '7' {
					v := int(e - '0')
					for k := 0; k < 2 && p.pos < len(p.b) && p.b[p.pos] >= '0' && p.b[p.pos] <= '7'; k++ {
						v = v*8 + int(p.b[p.pos]-'0')
						p.pos++
					}
					out = append(out, byte(v))
				} else {
					out = append(out, e)
				}
			}
		default:
			out = append(out, c)
		}
	}
	return nil, errSyntax
}

// rawTrailer returns the trailer dictionary (or the dictionary of the
// cross-reference stream) the last startxref points to.
func rawTrailer(file []byte) (obj.Dict, error) {
	i := bytes.LastIndex(file, []byte("startxref"))
	if i < 0 {
		return nil, errors.New("rawscan: no startxref")
	}
	p := &miniParser{b: file, pos: i + len("startxref")}
	p.skip()
	off, err := strconv.Atoi(p.token())
	if err != nil || off < 0 || off >= len(file) {
		return nil, errors.New("rawscan: bad startxref")
	}
	p.pos = off
	p.skip()
	if bytes.HasPrefix(file[p.pos:], []byte("xref")) {
		j := bytes.Index(file[p.pos:], []byte("trailer"))
		if j < 0 {
			return nil, errors.New("rawscan: no trailer")
		}
		p.pos += j + len("trailer")
	} else {
		// N G obj
		p.token()
		p.skip()
		p.token()
		p.skip()
		if p.token() != "obj" {
			return nil, errors.New("rawscan: no cross-reference stream at startxref")
		}
	}
	v, err := p.value()
	if err != nil {
		return nil, err
	}
	d, ok := v.(obj.Dict)
	if !ok {
		return nil, errors.New("rawscan: trailer is not a dictionary")
	}
	return d, nil
}

// rawObject finds the uncompressed indirect object (num, gen) by its header
// at the start of a line and parses it.  For streams Raw holds the bytes
// between "stream" EOL and the position given by /Length.
func rawObject(file []byte, num uint32, gen uint16) (obj.Value, error) {
	header := []byte(fmt.Sprintf("\n%d %d obj", num, gen))
	from := 0
	for {
		i := bytes.Index(file[from:], header)
		if i < 0 {
			return nil, fmt.Errorf("rawscan: object %d %d not found", num, gen)
		}
		i += from
		end := i + len(header)
		from = end
		if end < len(file) && !isWhite(file[end]) && !isDelim(file[end]) {
			continue
		}
		p := &miniParser{b: file, pos: end}
		v, err := p.value()
		if err != nil {
			continue // header-like bytes inside encrypted data
		}
		p.skip()
		d, isDict := v.(obj.Dict)
		if isDict && bytes.HasPrefix(file[p.pos:], []byte("stream")) {
			p.pos += len("stream")
			if p.pos < len(file) && file[p.pos] == '\r' {
				p.pos++
			}
			if p.pos < len(file) && file[p.pos] == '\n' {
				p.pos++
			}
			n, err := rawLength(file, d["Length"])
			if err != nil || p.pos+n > len(file) {
				return nil, fmt.Errorf("rawscan: stream %d %d: bad /Length", num, gen)
			}
			return &obj.Stream{Dict: d, Raw: file[p.pos : p.pos+n]}, nil
		}
		if bytes.HasPrefix(file[p.pos:], []byte("endobj")) {
			return v, nil
		}
	}
}

func rawLength(file []byte, v obj.Value) (int, error) {
	switch x := v.(type) {
	case obj.Int:
		return int(x), nil
	case obj.Ref:
		l, err := rawObject(file, x.Num, x.Gen)
		if err != nil {
			return 0, err
		}
		if n, ok := l.(obj.Int); ok {
			return int(n), nil
		}
	}
	return 0, errSyntax
}
