package c09

import (
	"math/rand"

	"verif/harness/indep/obj"
	"verif/harness/indep/secure"
)

// ExportedObj is one indirect object of a document written by WriteDocument,
// in the harness's own value model (used by the C10 driver).
type ExportedObj struct {
	Ref    obj.Ref
	Where  string    // "array", "dict", "stream", "stream-filtered", "stream-compress", "compressed", "high-number"
	Value  obj.Value // non-stream objects
	Stream bool
	Dict   obj.Dict // entries handed to OpenStream (without /Length, /Filter)
	Body   []byte   // decoded stream data
}

// ExportedDoc is a document written by the real Writer together with what
// was handed to it.
type ExportedDoc struct {
	File      []byte
	Objs      []ExportedObj
	Title     string // Info.Title
	HasMeta   bool   // a document level XMP stream was given to NewWriter
	PlainMeta bool   // ... with Plaintext set (EncryptMetadata false)
	MetaTitle string // the dc:title inside the XMP packet
}

// WriteDocument writes the C09 object graph on the real Writer: strings in
// arrays, dictionaries, compressed objects and stream dictionaries, filtered
// and unfiltered streams, Info, optional XMP metadata, sometimes an object
// with a number above 255 and a generation above 0.
func WriteDocument(version int, encryptMetadata bool, userPw, ownerPw string, perms []string, seed int64) (*ExportedDoc, error) {
	w, err := writeDoc(docSpec{Version: version, EMD: encryptMetadata, UserPw: userPw, OwnerPw: ownerPw, Perms: perms, Seed: seed})
	if err != nil {
		return nil, err
	}
	d := &ExportedDoc{File: w.file, Title: w.title, HasMeta: w.meta != nil, MetaTitle: w.metaTitle}
	if w.meta != nil {
		d.PlainMeta = w.meta.Plaintext
	}
	for _, it := range w.items {
		d.Objs = append(d.Objs, ExportedObj{Ref: obj.Ref{Num: it.ref.Number(), Gen: it.ref.Generation()}, Where: it.where,
			Value: it.want, Stream: it.isStream, Dict: it.dict, Body: it.body})
	}
	return d, nil
}

// ForeignFile is a minimal encrypted file written without go-pdf (classic
// cross-reference table with subsections, so that any object number is cheap).
type ForeignFile struct {
	File     []byte
	Str      obj.Str // plaintext of the strings in object StrRef: [Str <</K Str>>]
	StrRef   obj.Ref
	Body     []byte // plaintext of stream StmRef, whose dictionary has /Desc Str
	StmRef   obj.Ref
	PDFLevel string
}

// BuildForeign encrypts a small file with indep/secure.  at (object number
// above 5) places the string object; p.User, p.Owner, p.P are used, the rest
// of p selects the scheme.
func BuildForeign(p secure.Params, pdfVersion string, seed int64, at obj.Ref) (*ForeignFile, error) {
	rnd := rand.New(rand.NewSource(seed))
	file, s, body, sref, stref, err := buildForeign(revVariant{name: "export", version: pdfVersion, p: p}, p.User, p.Owner, p.P, rnd, at)
	if err != nil {
		return nil, err
	}
	return &ForeignFile{File: file, Str: s, StrRef: sref, Body: body, StmRef: stref, PDFLevel: pdfVersion}, nil
}
