// Package c09 binds spec/crypt/StdSec.tla (+ Perms.tla) to go-pdf's standard
// security handler as seen through pdf.NewWriter / pdf.NewReader.
//
//	model  MC_StdSec: writer and reader decision procedure, all password class
//	       triples x 128 permission sets x versions x EncryptMetadata (TLC)
//	P-C    Gen_StdSec case table -> concrete passwords per revision -> real
//	       Writer writes an object graph, real Reader opens it
//	P-B    one record per (document, open attempt) -> Trace_StdSec (TLC)
//	cross  every written file is also authenticated (and two items decrypted)
//	       by harness/indep/secure, the handler written from ISO 32000
//
// A table mismatch is never a verdict by itself: the execution becomes a
// record and TLC judges it with the reference decision.
package c09

import (
	"encoding/json"
	"fmt"
	"math/rand"
	"sort"
	"strings"
	"sync"

	"golang.org/x/text/unicode/norm"

	"verif/harness/core"
	"verif/harness/indep/secure"
)

var Driver = core.Driver{ID: "C09", Level: "model_checking", Run: run, Replay: replay, SelfTest: selfTest}

func init() {
	// the independent handler has no normalisation tables of its own
	secure.NFKC = func(s string) (string, bool) { return norm.NFKC.String(s), true }
}

type outJ struct {
	Kind  string   `json:"kind"`
	Perms []string `json:"perms"`
}

// genCase is one line of Gen_StdSec's table.
type genCase struct {
	User    []string `json:"user"`
	Owner   []string `json:"owner"`
	Sup     []string `json:"sup"`
	Perms   []string `json:"perms"`
	Version int      `json:"version"`
	EMD     bool     `json:"emd"`
	Enc     bool     `json:"enc"`
	R       int      `json:"R"`
	V       int      `json:"V"`
	Cipher  string   `json:"cipher"`
	Bits    int      `json:"bits"`
	Impl    outJ     `json:"impl"`
	Access  string   `json:"access"`
	Ref     []outJ   `json:"ref"`
}

// record is what Trace_StdSec judges.
type record struct {
	Version   int      `json:"version"`
	EMD       bool     `json:"emd"`
	User      []string `json:"user"`
	Owner     []string `json:"owner"`
	Sup       []string `json:"sup"`
	Perms     []string `json:"perms"`
	Written   bool     `json:"written"` // the Writer produced a document
	Enc       bool     `json:"enc"`
	R         int      `json:"R"`
	Outcome   string   `json:"outcome"`
	Reader    bool     `json:"reader"`
	PermsOut  []string `json:"permsOut"`
	ContentOK bool     `json:"contentOK"`

	// not read by the specification
	Family string    `json:"family,omitempty"`
	Detail string    `json:"detail,omitempty"`
	Conc   *concrete `json:"conc,omitempty"`
	gc     *genCase
}

// forTLC drops what the specification does not read (and what TLC's 32 bit
// integers cannot hold).
func forTLC(recs []record) []record {
	out := make([]record, len(recs))
	for i, r := range recs {
		out[i] = slim(r)
		out[i].Family = ""
		out[i].gc = nil
	}
	return out
}

// concrete is the executable form of a case (stored in replay files).
type concrete struct {
	Spec  docSpec `json:"spec"`
	SupPw string  `json:"supPw"`
}

func sortedCopy(s []string) []string {
	out := append([]string{}, s...)
	sort.Strings(out)
	return out
}

func sameSet(a, b []string) bool {
	a, b = sortedCopy(a), sortedCopy(b)
	if len(a) != len(b) {
		return false
	}
	for i := range a {
		if a[i] != b[i] {
			return false
		}
	}
	return true
}

func tok(pw []string) string {
	if len(pw) == 0 {
		return "-"
	}
	return strings.Join(pw, ".")
}

func inRef(gc *genCase, outcome string, perms []string) bool {
	for _, r := range gc.Ref {
		if r.Kind == outcome && (outcome != "opened" || sameSet(r.Perms, perms)) {
			return true
		}
	}
	return false
}

// docKey groups the lines of the table that share a written document.
func docKey(gc *genCase) string {
	return fmt.Sprintf("%d/%v/%s/%s/%s", gc.Version, gc.EMD, tok(gc.User), tok(gc.Owner), strings.Join(sortedCopy(gc.Perms), "+"))
}

type docGroup struct {
	key   string
	cases []*genCase
}

// generate runs Gen_StdSec once per version and table.
func generate(ctx *core.Ctx, passwords, permSets string) ([]genCase, error) {
	versions := []int{10, 11, 12, 13, 14, 15, 16, 17, 20}
	var (
		all   []genCase
		mu    sync.Mutex
		wg    sync.WaitGroup
		first error
		sem   = make(chan struct{}, 3)
	)
	for i, v := range versions {
		wg.Add(1)
		sem <- struct{}{}
		go func(i, v int) {
			defer wg.Done()
			defer func() { <-sem }()
			cfg := fmt.Sprintf("INIT GInit\nNEXT GNext\nCONSTANTS\n Passwords <- %s\n PermSets <- %s\n Versions = {%d}\n OWNER_FIRST = TRUE\n TRY_EMPTY = TRUE\n FORGET = \"\"\n",
				passwords, permSets, v)
			cs, _, err := core.GenCases[genCase](ctx, core.TLCOpts{Dir: "crypt", Module: "Gen_StdSec", CfgText: cfg, Mode: "evaluate",
				XssMB: 512, XmxMB: 2000, Timeout: ctx.Dur(5, 10), Quiet: i > 0, Constants: passwords + " x " + permSets})
			mu.Lock()
			defer mu.Unlock()
			if err != nil && first == nil {
				first = err
			}
			all = append(all, cs...)
		}(i, v)
	}
	wg.Wait()
	if first != nil {
		return nil, first
	}
	if len(all) == 0 {
		return nil, core.Infra("Gen_StdSec produced no cases")
	}
	return all, nil
}

func group(cases []genCase) []*docGroup {
	idx := map[string]*docGroup{}
	var out []*docGroup
	for i := range cases {
		gc := &cases[i]
		k := docKey(gc)
		g := idx[k]
		if g == nil {
			g = &docGroup{key: k}
			idx[k] = g
			out = append(out, g)
		}
		g.cases = append(g.cases, gc)
	}
	sort.Slice(out, func(i, j int) bool { return out[i].key < out[j].key })
	for _, g := range out {
		sort.Slice(g.cases, func(i, j int) bool { return tok(g.cases[i].Sup) < tok(g.cases[j].Sup) })
	}
	return out
}

// stats shared by the workers
type tally struct {
	mu            sync.Mutex
	docs          int
	reads         int
	tableSuspects int
	implDiverge   int
	refused       int
	schemes       map[string]int
	families      map[string]int
	indepFiles    int
	indepAuth     int
	indepItems    int
	reverseFiles  int
	indepNotes    map[string]int
	indepSample   []string
	strings       int
	streams       int
}

func newTally() *tally {
	return &tally{schemes: map[string]int{}, families: map[string]int{}, indepNotes: map[string]int{}}
}

func (t *tally) note(key, msg string) {
	t.mu.Lock()
	t.indepNotes[key]++
	if len(t.indepSample) < 12 {
		t.indepSample = append(t.indepSample, key+": "+msg)
	}
	t.mu.Unlock()
}

// execGroup writes the group's document and opens it with every supplied
// password of the group.
func execGroup(ctx *core.Ctx, g *docGroup, seed int64, cross bool, tl *tally) ([]record, error) {
	gc0 := g.cases[0]
	rnd := rand.New(rand.NewSource(seed))
	legacy := gc0.Version < 20
	var pws [][]string
	pws = append(pws, gc0.User, gc0.Owner)
	for _, gc := range g.cases {
		pws = append(pws, gc.Sup)
	}
	conc := newConcretiser(legacy, pws, rnd)
	spec := docSpec{Version: gc0.Version, EMD: gc0.EMD, UserPw: conc.spell(gc0.User, -1), OwnerPw: conc.spell(gc0.Owner, -1),
		Perms: sortedCopy(gc0.Perms), Seed: rnd.Int63()}
	w, err := writeDoc(spec)
	if err != nil {
		// the table only lists requests the reference obliges the Writer to
		// accept (preparable passwords, version and metadata in range): a
		// refusal is a deviation of the real code, judged like any other record
		gc := g.cases[0]
		tl.mu.Lock()
		tl.refused++
		tl.mu.Unlock()
		return []record{{Version: gc.Version, EMD: gc.EMD, User: gc.User, Owner: gc.Owner, Sup: gc.Sup, Perms: sortedCopy(gc.Perms),
			Written: false, Enc: gc.Enc, R: gc.R, Outcome: "refused", PermsOut: []string{}, Family: conc.name(), Detail: err.Error(),
			Conc: &concrete{Spec: spec, SupPw: conc.spell(gc.Sup, -1)}, gc: gc}}, nil
	}
	obs, err := observeFile(w.file)
	if err != nil {
		return nil, core.Infra("cannot read back the trailer of a written file (%s): %v", g.key, err)
	}
	var recs []record
	for _, gc := range g.cases {
		supPw := conc.spell(gc.Sup, -1)
		res := readDoc(w, supPw)
		ctx.Ev.Eval(1)
		rec := record{Version: gc.Version, EMD: gc.EMD, User: gc.User, Owner: gc.Owner, Sup: gc.Sup, Perms: sortedCopy(gc.Perms),
			Written: true, Enc: obs.enc, R: obs.R, Outcome: res.Outcome, Reader: res.Reader, PermsOut: res.PermsOut, ContentOK: res.ContentOK,
			Family: conc.name(), Detail: res.Detail, Conc: &concrete{Spec: spec, SupPw: supPw}, gc: gc}
		recs = append(recs, rec)
		if obs.enc {
			ctx.Ev.Distinct(fmt.Sprintf("%s|%s|%s|R%d", g.key, tok(gc.Sup), conc.name(), obs.R))
		}
	}
	tl.mu.Lock()
	tl.docs++
	tl.reads += len(g.cases)
	tl.strings += w.nStrings
	tl.streams += w.nStreams
	if obs.enc {
		tl.schemes[fmt.Sprintf("v%d:V%d/R%d/%s", gc0.Version, obs.V, obs.R, obs.cipher)]++
		tl.families[conc.name()]++
	}
	tl.mu.Unlock()
	if cross && obs.enc {
		crossValidate(w, obs, gc0, conc, tl)
	}
	return recs, nil
}

func run(ctx *core.Ctx) error {
	ctx.Ev.Rule = "one evaluation = one pdf.NewReader call on a document written by pdf.NewWriter (all strings/streams compared on success); " +
		"a case is non-trivial when the document is encrypted; distinct = distinct (version, EncryptMetadata, user, owner, supplied password token, " +
		"permission set, password family, revision)"
	ctx.Ev.Assume("TLC evaluates StdSec.tla/Perms.tla faithfully; RefDecision/Closure/RefRevisions state C09 and ISO 32000-2 7.6.4")
	ctx.Ev.Assume("password families (drive/c09/passwords.go): spellings of one token are equal, different tokens different after the standard's preparation - checked at start-up with harness/indep/secure (own PDFDocEncoding and SASLprep, NFKC from golang.org/x/text)")
	ctx.Ev.Assume("cryptography is ideal in the model; bit-exact algorithms are only observed through harness/indep/secure (logged for C10)")

	if err := checkFamilies(); err != nil {
		return err
	}

	// 1. exhaustive design models, and meanwhile 2. the case tables
	var (
		t1, t2     []genCase
		err1, err2 error
		gwg        sync.WaitGroup
	)
	gwg.Add(2)
	go func() { defer gwg.Done(); t1, err1 = generate(ctx, "Classes4", "AllPermSets") }()
	go func() { defer gwg.Done(); t2, err2 = generate(ctx, "Structured", "FewPermSets") }()
	for _, cfg := range []string{"MC_StdSec_q.cfg", "MC_StdSec_t.cfg"} {
		res, err := ctx.MustHold(core.TLCOpts{Dir: "crypt", Module: "MC_StdSec", Cfg: cfg, Workers: ctx.Pick(8, 12), Coverage: ctx.Thorough(), XmxMB: 3000,
			Constants: "see " + cfg, Timeout: ctx.Dur(5, 15)})
		if err != nil {
			gwg.Wait()
			return err
		}
		if ctx.Thorough() && len(res.ZeroCoverage) > 0 {
			gwg.Wait()
			return core.Infra("design model %s has actions that are never taken: %v", cfg, res.ZeroCoverage)
		}
	}
	gwg.Wait()
	if err1 != nil {
		return err1
	}
	if err2 != nil {
		return err2
	}
	g1, g2 := group(t1), group(t2)
	ctx.Logf("case tables: %d + %d lines, %d + %d documents", len(t1), len(t2), len(g1), len(g2))

	// quick: every (user, owner, version, EncryptMetadata) with a seeded
	// eighth of the permission sets (+ none and all); thorough: everything,
	// the first table with two concretisations
	pick := ctx.Rand("docs")
	var todo []*docGroup
	rounds := map[*docGroup]int{}
	for _, g := range g1 {
		n := len(g.cases[0].Perms)
		if ctx.Thorough() || n == 0 || n == 7 || pick.Intn(8) == 0 {
			todo = append(todo, g)
			rounds[g] = ctx.Pick(1, 2)
		}
	}
	for _, g := range g2 {
		if ctx.Thorough() || pick.Intn(4) == 0 {
			todo = append(todo, g)
			rounds[g] = 1
		}
	}

	tl := newTally()
	var (
		recs  []record
		mu    sync.Mutex
		wg    sync.WaitGroup
		first error
		sem   = make(chan struct{}, 16)
	)
	seeds := ctx.Rand("exec")
	for gi, g := range todo {
		for k := 0; k < rounds[g]; k++ {
			seed := seeds.Int63()
			cross := ctx.Thorough() || gi%4 == 0
			wg.Add(1)
			sem <- struct{}{}
			go func(g *docGroup, seed int64, cross bool) {
				defer wg.Done()
				defer func() { <-sem }()
				rs, err := execGroup(ctx, g, seed, cross, tl)
				mu.Lock()
				defer mu.Unlock()
				if err != nil && first == nil {
					first = err
				}
				recs = append(recs, rs...)
			}(g, seed, cross)
		}
	}
	wg.Wait()
	if first != nil {
		return first
	}
	ctx.Ev.AddReplayed(len(recs))
	ctx.Logf("executed %d documents, %d open attempts on the real Writer/Reader", tl.docs, tl.reads)

	probeRefusals(ctx)
	reverseCheck(ctx.Rand("reverse"), ctx.Pick(3, 40), tl)

	// 3. compare with the table; judge every record with TLC
	sort.SliceStable(recs, func(i, j int) bool {
		a, b := recs[i], recs[j]
		if ka, kb := docKey(a.gc), docKey(b.gc); ka != kb {
			return ka < kb
		}
		return tok(a.Sup) < tok(b.Sup)
	})
	suspect := map[int]bool{}
	for i, r := range recs {
		if !r.Written || !inRef(r.gc, r.Outcome, r.PermsOut) || r.R != r.gc.R || r.Enc != r.gc.Enc || (r.Outcome == "opened") != r.Reader ||
			(r.Enc && r.Outcome == "opened" && !r.ContentOK) {
			suspect[i] = true
			tl.tableSuspects++
		} else if r.Outcome != r.gc.Impl.Kind || (r.Outcome == "opened" && !sameSet(r.PermsOut, r.gc.Impl.Perms)) {
			tl.implDiverge++
		}
	}
	bad, err := core.JudgeCases(ctx, core.TLCOpts{Dir: "crypt", Module: "Trace_StdSec", Cfg: "Trace_StdSec.cfg", XmxMB: 2000, Timeout: ctx.Dur(5, 15)}, forTLC(recs), 4000, 12)
	if err != nil {
		return err
	}
	isBad := map[int]bool{}
	for _, b := range bad {
		isBad[b] = true
	}
	for i := range recs {
		if suspect[i] != isBad[i] {
			// R differing from the model's choice but admitted by the
			// standard is the one legitimate difference
			if suspect[i] && !isBad[i] && recs[i].Written && recs[i].R != recs[i].gc.R {
				tl.implDiverge++
				continue
			}
			return core.Infra("harness and specification disagree on %s sup=%s: table says suspect=%v, Trace_StdSec rejects=%v",
				docKey(recs[i].gc), tok(recs[i].Sup), suspect[i], isBad[i])
		}
	}
	var rejected []record
	for _, b := range bad {
		rejected = append(rejected, recs[b])
	}
	if err := confirmAll(ctx, rejected); err != nil {
		return err
	}

	// evidence
	for i, r := range recs {
		if r.Enc && r.Outcome == "opened" && len(r.Sup) > 0 && i%977 == 0 {
			ctx.Ev.Sample(map[string]any{"kind": "record of the real Writer/Reader judged by Trace_StdSec", "record": slim(r),
				"userPw": r.Conc.Spec.UserPw, "ownerPw": r.Conc.Spec.OwnerPw, "suppliedPw": r.Conc.SupPw})
		}
	}
	for _, r := range recs {
		if r.Enc && r.Outcome == "autherr" {
			ctx.Ev.Sample(map[string]any{"kind": "wrong password record", "record": slim(r), "userPw": r.Conc.Spec.UserPw, "suppliedPw": r.Conc.SupPw})
			break
		}
	}
	ctx.Ev.Exhaustive = ctx.Thorough()
	ctx.Ev.Set("exhaustive_scope", "model: {empty,A,B,C}^3 x 128 permission sets x versions 1.0-2.0 x EncryptMetadata (+ structured passwords); "+
		"real code: thorough executes every line of both tables (first table twice with different concretisations), quick a seeded subset")
	ctx.Ev.Set("documents_written", tl.docs)
	ctx.Ev.Set("open_attempts", tl.reads)
	ctx.Ev.Set("strings_in_written_documents", tl.strings)
	ctx.Ev.Set("streams_in_written_documents", tl.streams)
	ctx.Ev.Set("schemes_seen", tl.schemes)
	ctx.Ev.Set("password_families_used", tl.families)
	ctx.Ev.Set("table_suspects", tl.tableSuspects)
	ctx.Ev.Set("writer_refusals_of_acceptable_requests", tl.refused)
	ctx.Ev.Set("impl_model_divergences_within_property", tl.implDiverge)
	ctx.Ev.Set("indep_secure_files_cross_opened", tl.indepFiles)
	ctx.Ev.Set("indep_secure_authentications", tl.indepAuth)
	ctx.Ev.Set("indep_secure_items_decrypted", tl.indepItems)
	ctx.Ev.Set("indep_secure_built_files_opened_by_reader", tl.reverseFiles)
	ctx.Ev.Set("indep_secure_disagreements_for_C10", tl.indepNotes)
	if len(tl.indepSample) > 0 {
		ctx.Ev.Set("indep_secure_disagreement_samples", tl.indepSample)
		for _, k := range core.SortedKeys(tl.indepNotes) {
			ctx.Logf("NOTE (for C10, not a C09 verdict): indep/secure disagrees with the Writer: %s x%d", k, tl.indepNotes[k])
		}
	}
	ctx.Logf("indep/secure: %d files of the Writer cross-opened (%d authentications, %d items decrypted), %d files built by indep/secure opened by the Reader, %d kinds of disagreement",
		tl.indepFiles, tl.indepAuth, tl.indepItems, tl.reverseFiles, len(tl.indepNotes))
	return nil
}

func slim(r record) record {
	r.Conc = nil
	r.Detail = ""
	return r
}

// relation of the supplied password to the user / owner password after the
// preparation of the file's revision
func relation(r record) string {
	owner := r.Owner
	if len(owner) == 0 {
		owner = r.User
	}
	R := r.R
	if !r.Enc {
		R = 4
	}
	s, u, o := prepTok(R, r.Sup), prepTok(R, r.User), prepTok(R, owner)
	switch {
	case len(r.Sup) == 0:
		return "none"
	case isBad(r.Sup):
		return "unpreparable"
	case s == u && s == o:
		return "user=owner"
	case s == u:
		return "user"
	case s == o:
		return "owner"
	}
	return "other"
}

func violationKey(r record) (string, string) {
	cls := func(pw []string) string {
		if len(pw) == 0 {
			return "empty"
		}
		return "set"
	}
	if !r.Written {
		which := "R<=4"
		if r.Version >= 20 {
			which = "R6"
		}
		key := fmt.Sprintf("writer-refuses/preparable-password/%s/v=%d/family=%s", which, r.Version, r.Family)
		msg := fmt.Sprintf("PDF %d.%d: NewWriter with user=%q owner=%q (passwords the standard's preparation accepts) does not produce a document: %s; rejected by the reference decision (Trace_StdSec)",
			r.Version/10, r.Version%10, r.Conc.Spec.UserPw, r.Conc.Spec.OwnerPw, r.Detail)
		return key, msg
	}
	got := r.Outcome
	what := ""
	switch {
	case r.Outcome == "opened" && !r.ContentOK:
		// which kind of object failed first (the names given in doc.go)
		place := "other"
		if strings.HasPrefix(r.Detail, "writing modified a value of the caller") {
			place = "caller-value-modified"
		} else if f := strings.Fields(r.Detail); len(f) > 0 {
			place = strings.TrimSuffix(f[0], ":")
		}
		got = "opened-content-differs/" + place
		what = "content read back differs: " + r.Detail
	case r.Outcome == "opened" && len(r.User) > 0 && (relation(r) == "other" || relation(r) == "none" || relation(r) == "unpreparable"):
		got = "opened-by-wrong-password"
		what = "a password that is neither the user nor the owner password after the standard's preparation opens the document"
	case r.Outcome == "opened":
		got = "opened/perms=" + strings.Join(r.PermsOut, "+")
		what = fmt.Sprintf("reported permissions {%s} for requested {%s} (closure {%s})", strings.Join(r.PermsOut, ","), strings.Join(r.Perms, ","), strings.Join(closure(r.Perms), ","))
	case r.Reader:
		got += "-with-reader"
	default:
		what = r.Detail
	}
	key := fmt.Sprintf("stdsec/v=%d/R=%d/emd=%v/user=%s/owner=%s/supplied=%s/family=%s/got=%s", r.Version, r.R, r.EMD, cls(r.User), cls(r.Owner), relation(r), r.Family, got)
	if r.Outcome == "opened" && r.ContentOK && got != "opened-by-wrong-password" {
		key += "/requested=" + strings.Join(r.Perms, "+")
	}
	msg := fmt.Sprintf("PDF %d.%d R=%d user=%q owner=%q opened with %q (%s): NewReader -> %s; %s; rejected by the reference decision (Trace_StdSec)",
		r.Version/10, r.Version%10, r.R, r.Conc.Spec.UserPw, r.Conc.Spec.OwnerPw, r.Conc.SupPw, relation(r), r.Outcome, what)
	return key, msg
}

// confirmAll re-executes the rejected cases (a new document is written: the
// Writer draws its file identifier, keys and initialisation vectors from
// crypto/rand, so the bytes differ) and lets TLC judge the new records.  Only
// a rejection that shows again is a violation; up to three attempts.
func confirmAll(ctx *core.Ctx, rejected []record) error {
	pending := rejected
	perKey := map[string]int{}
	defer func() {
		for _, k := range core.SortedKeys(perKey) {
			ctx.Logf("rejected records with key %s: %d", k, perKey[k])
		}
	}()
	for attempt := 0; attempt < 3 && len(pending) > 0; attempt++ {
		again := make([]record, len(pending))
		for i, r := range pending {
			n, err := reexecute(r)
			if err != nil {
				return core.Infra("cannot re-execute rejected case %s sup=%s: %v", docKey(r.gc), tok(r.Sup), err)
			}
			again[i] = n
		}
		bad, err := core.JudgeCases(ctx, core.TLCOpts{Dir: "crypt", Module: "Trace_StdSec", Cfg: "Trace_StdSec.cfg", XmxMB: 2000, Timeout: ctx.Dur(5, 15)}, forTLC(again), 4000, 12)
		if err != nil {
			return err
		}
		isBad := map[int]bool{}
		for _, b := range bad {
			isBad[b] = true
			if again[b].Written && again[b].Outcome == "opened" && !again[b].ContentOK && contentFailsUnencrypted(again[b]) {
				// not caused by encryption: outside C09 (C02's subject)
				ctx.Ev.Add("content_failures_also_without_encryption", 1)
				ctx.Logf("note: content read back differs also without encryption (not a C09 matter): %s", again[b].Detail)
				continue
			}
			key, msg := violationKey(again[b])
			// at most two replay files per failure class, so that every
			// class shows up among the reported ones
			perKey[key]++
			if perKey[key] <= 2 {
				ctx.Violation(key, msg, replayCase{Record: slim(again[b]), Conc: *again[b].Conc})
			}
		}
		var rest []record
		for i := range pending {
			if !isBad[i] {
				rest = append(rest, pending[i])
			}
		}
		pending = rest
	}
	if len(pending) > 0 {
		r := pending[0]
		return core.Infra("%d rejected cases do not reproduce, e.g. %s sup=%s: %s %v %s", len(pending), docKey(r.gc), tok(r.Sup), r.Outcome, r.PermsOut, r.Detail)
	}
	return nil
}

// contentFailsUnencrypted writes the same object graph (same seed) without
// passwords and reports whether reading it back fails as well.
func contentFailsUnencrypted(r record) bool {
	spec := r.Conc.Spec
	spec.UserPw, spec.OwnerPw = "", ""
	w, err := writeDoc(spec)
	if err != nil {
		return false
	}
	res := readDoc(w, "")
	return res.Outcome != "opened" || !res.ContentOK
}

type replayCase struct {
	Record record   `json:"record"`
	Conc   concrete `json:"conc"`
}

func reexecute(r record) (record, error) {
	w, err := writeDoc(r.Conc.Spec)
	if err != nil {
		out := r
		out.Written, out.Outcome, out.Reader, out.PermsOut, out.ContentOK, out.Detail = false, "refused", false, []string{}, false, err.Error()
		return out, nil
	}
	obs, err := observeFile(w.file)
	if err != nil {
		return r, err
	}
	res := readDoc(w, r.Conc.SupPw)
	out := r
	out.Written = true
	out.Enc, out.R = obs.enc, obs.R
	out.Outcome, out.Reader, out.PermsOut, out.ContentOK, out.Detail = res.Outcome, res.Reader, res.PermsOut, res.ContentOK, res.Detail
	return out, nil
}

func replay(ctx *core.Ctx, raw json.RawMessage) error {
	var c replayCase
	if err := json.Unmarshal(raw, &c); err != nil {
		return core.Infra("replay: %v", err)
	}
	rec := c.Record
	rec.Conc = &c.Conc
	var now record
	var bad []int
	for attempt := 0; attempt < 3 && len(bad) == 0; attempt++ {
		var err error
		now, err = reexecute(rec)
		if err != nil {
			return core.Infra("replay: cannot write the document: %v", err)
		}
		fmt.Printf("  document: PDF %d.%d user=%q owner=%q perms=%v EncryptMetadata=%v -> /R %d\n", now.Version/10, now.Version%10,
			c.Conc.Spec.UserPw, c.Conc.Spec.OwnerPw, now.Perms, now.EMD, now.R)
		fmt.Printf("  written=%v NewReader(password=%q): outcome=%s reader=%v permissions=%v contentOK=%v %s\n", now.Written, c.Conc.SupPw, now.Outcome, now.Reader, now.PermsOut, now.ContentOK, now.Detail)
		bad, err = core.JudgeCases(ctx, core.TLCOpts{Dir: "crypt", Module: "Trace_StdSec", Cfg: "Trace_StdSec.cfg"}, forTLC([]record{now}), 1, 1)
		if err != nil {
			return err
		}
	}
	if len(bad) > 0 {
		if now.Outcome == "opened" && !now.ContentOK && contentFailsUnencrypted(now) {
			fmt.Printf("  the same object graph fails to read back without encryption as well: not a C09 matter\n")
			return nil
		}
		key, msg := violationKey(now)
		ctx.Violation(key, msg, replayCase{Record: slim(now), Conc: c.Conc})
	}
	return nil
}

// probeRefusals executes the requests the model's Writer refuses (Refuse
// action: encryption at PDF 1.0, plaintext metadata before 1.6, passwords
// that cannot be prepared).  C09 says nothing about them, so a difference is
// only recorded.
func probeRefusals(ctx *core.Ctx) {
	type probe struct {
		name string
		spec docSpec
	}
	probes := []probe{
		{"encryption at PDF 1.0", docSpec{Version: 10, EMD: true, UserPw: "secret"}},
		{"plaintext metadata at PDF 1.4", docSpec{Version: 14, EMD: false, UserPw: "secret"}},
		{"plaintext metadata at PDF 1.5", docSpec{Version: 15, EMD: false, OwnerPw: "secret"}},
	}
	for i, b := range legacyBad {
		probes = append(probes, probe{"unpreparable user password (R<=4)", docSpec{Version: 11 + i%7, EMD: true, UserPw: b}})
		probes = append(probes, probe{"unpreparable owner password (R<=4)", docSpec{Version: 11 + i%7, EMD: true, UserPw: "u", OwnerPw: b}})
	}
	for _, b := range r6Bad {
		probes = append(probes, probe{"unpreparable user password (R6)", docSpec{Version: 20, EMD: true, UserPw: b}})
		probes = append(probes, probe{"unpreparable owner password (R6)", docSpec{Version: 20, EMD: true, OwnerPw: b}})
	}
	accepted := []string{}
	for _, p := range probes {
		p.spec.Seed = 1
		if _, err := writeDoc(p.spec); err == nil {
			accepted = append(accepted, fmt.Sprintf("%s: %q/%q", p.name, p.spec.UserPw, p.spec.OwnerPw))
		}
	}
	ctx.Ev.Set("writer_refusals_probed", len(probes))
	ctx.Ev.Set("writer_refusals_not_observed", accepted)
	if len(accepted) > 0 {
		ctx.Logf("note: the Writer accepted %d requests the model refuses (outside C09): %v", len(accepted), accepted)
	}
}
