package c09

import (
	"bytes"
	"errors"
	"fmt"

	"verif/harness/core"
	"verif/harness/indep/obj"
	"verif/harness/indep/secure"
)

// observed is what the raw bytes of a written file say about its encryption
// (read without go-pdf).
type observed struct {
	enc     bool
	V, R    int
	cipher  string
	encDict obj.Dict
	id0     []byte
}

func observeFile(file []byte) (observed, error) {
	var o observed
	tr, err := rawTrailer(file)
	if err != nil {
		return o, err
	}
	e, ok := tr["Encrypt"]
	if !ok {
		return o, nil
	}
	if ref, isRef := e.(obj.Ref); isRef {
		if e, err = rawObject(file, ref.Num, ref.Gen); err != nil {
			return o, err
		}
	}
	d, ok := e.(obj.Dict)
	if !ok {
		return o, errors.New("rawscan: /Encrypt is not a dictionary")
	}
	o.enc, o.encDict = true, d
	if v, ok := d["V"].(obj.Int); ok {
		o.V = int(v)
	}
	if r, ok := d["R"].(obj.Int); ok {
		o.R = int(r)
	}
	if ids, ok := tr["ID"].(obj.Array); ok && len(ids) > 0 {
		if s, ok := ids[0].(obj.Str); ok {
			o.id0 = []byte(s)
		}
	}
	switch o.V {
	case 1:
		o.cipher = "RC4-40"
	case 2:
		l, _ := d["Length"].(obj.Int)
		o.cipher = fmt.Sprintf("RC4-%d", int(l))
	case 4, 5:
		cf, _ := d["CF"].(obj.Dict)
		std, _ := cf["StdCF"].(obj.Dict)
		cfm, _ := std["CFM"].(obj.Name)
		o.cipher = string(cfm)
	}
	return o, nil
}

// prepTok is Prep of StdSec.tla on tokens.
func prepTok(R int, pw []string) string {
	keep := 1
	if R > 4 {
		keep = 2
	}
	if len(pw) < keep {
		keep = len(pw)
	}
	return tok(pw[:keep])
}

func decryptValue(v obj.Value, key []byte, aes bool) (obj.Value, error) {
	switch x := v.(type) {
	case obj.Str:
		p, err := secure.DecryptString(key, aes, x)
		return obj.Str(p), err
	case obj.Array:
		out := make(obj.Array, len(x))
		for i, e := range x {
			d, err := decryptValue(e, key, aes)
			if err != nil {
				return nil, err
			}
			out[i] = d
		}
		return out, nil
	case obj.Dict:
		out := obj.Dict{}
		for k, e := range x {
			d, err := decryptValue(e, key, aes)
			if err != nil {
				return nil, err
			}
			out[k] = d
		}
		return out, nil
	}
	return v, nil
}

// crossValidate opens a file of the real Writer with the independent
// security handler.  Disagreements do not contradict C09 (which relates the
// library's Writer and Reader); they are logged for C10.
func crossValidate(w *written, obs observed, gc *genCase, conc *concretiser, tl *tally) {
	scheme := fmt.Sprintf("V%d/R%d/%s", obs.V, obs.R, obs.cipher)
	h, err := secure.Parse(obs.encDict, obs.id0)
	if err != nil {
		tl.note(scheme+"/parse", err.Error())
		return
	}
	tl.mu.Lock()
	tl.indepFiles++
	tl.mu.Unlock()
	auths := 0
	owner := gc.Owner
	if len(owner) == 0 {
		owner = gc.User
	}
	// right passwords, in another spelling where the family has one
	userPw, ownerPw := conc.spell(gc.User, -1), conc.spell(owner, -1)
	fileKey, isOwner, err := h.Authenticate(userPw)
	auths++
	wantOwner := prepTok(obs.R, gc.User) == prepTok(obs.R, owner)
	if err != nil {
		tl.note(scheme+"/user-password-rejected/"+conc.name(), fmt.Sprintf("user password %q (written as %q): %v", userPw, w.spec.UserPw, err))
	} else if isOwner != wantOwner {
		tl.note(scheme+"/user-password-access/"+conc.name(), fmt.Sprintf("user password %q: owner access = %v, want %v", userPw, isOwner, wantOwner))
	}
	fk2, isOwner2, err2 := h.Authenticate(ownerPw)
	auths++
	if err2 != nil {
		tl.note(scheme+"/owner-password-rejected/"+conc.name(), fmt.Sprintf("owner password %q (written as %q): %v", ownerPw, w.spec.OwnerPw, err2))
	} else if !isOwner2 {
		tl.note(scheme+"/owner-password-access/"+conc.name(), fmt.Sprintf("owner password %q gives user access", ownerPw))
	} else if err == nil && !bytes.Equal(fileKey, fk2) {
		tl.note(scheme+"/file-keys-differ", "user and owner password give different file keys")
	}
	// wrong passwords
	wrong := [][]string{{"A"}, {"B"}, {"C"}}
	if conc.structured {
		wrong = [][]string{{"C"}, {"C", "x"}, {"A", "z"}, {"A", "x", "p"}}
	}
	for _, wp := range wrong {
		if prepTok(obs.R, wp) == prepTok(obs.R, gc.User) || prepTok(obs.R, wp) == prepTok(obs.R, owner) {
			continue
		}
		s := conc.spell(wp, -1)
		_, _, e := h.Authenticate(s)
		auths++
		if e == nil {
			tl.note(scheme+"/wrong-password-accepted/"+conc.name(), fmt.Sprintf("password %q accepted (user %q owner %q)", s, w.spec.UserPw, w.spec.OwnerPw))
		} else if !errors.Is(e, secure.ErrWrongPassword) {
			tl.note(scheme+"/wrong-password-error/"+conc.name(), e.Error())
		}
		break
	}
	if len(gc.User) > 0 {
		if _, _, e := h.Authenticate(""); e == nil {
			tl.note(scheme+"/empty-password-accepted", "the empty password opens a file with a user password")
		}
		auths++
	}
	// permissions as Table 22 reads them
	want := map[string]bool{}
	for _, f := range closure(gc.Perms) {
		want[f] = true
	}
	a := secure.AccessFromP(obs.R, h.P)
	got := map[string]bool{"Print": a.Print, "PrintDegraded": a.PrintLowRes, "Modify": a.Modify, "Copy": a.Copy,
		"Annotate": a.Annotate, "Forms": a.Forms, "Assemble": a.Assemble}
	for f, g := range got {
		if g != want[f] {
			tl.note(fmt.Sprintf("%s/P-meaning/%s", scheme, f), fmt.Sprintf("/P=%#x read by Table 22 gives %s=%v, requested closure says %v", h.P, f, g, want[f]))
		}
	}
	// two items decrypted from the raw bytes with own per-object keys
	items := 0
	if err == nil {
		for _, it := range w.items {
			if !it.direct || (it.where != "array" && it.where != "stream" && it.where != "high-number") {
				continue
			}
			raw, e := rawObject(w.file, it.ref.Number(), it.ref.Generation())
			if e != nil {
				tl.note(scheme+"/rawscan", e.Error())
				continue
			}
			key, aes, ok := h.KeyFor(fileKey, it.ref.Number(), it.ref.Generation(), false)
			if !ok {
				tl.note(scheme+"/strings-not-encrypted", "StrF is Identity")
				continue
			}
			if it.isStream {
				s, isStm := raw.(*obj.Stream)
				if !isStm {
					tl.note(scheme+"/rawscan", "stream expected")
					continue
				}
				d, e := decryptValue(stripStreamKeys(s.Dict), key, aes)
				if e != nil || !obj.Equal(d, it.dict) {
					tl.note(scheme+"/stream-dict-string", fmt.Sprintf("object %v: strings of the stream dictionary do not decrypt to what was written (%v)", it.ref, e))
				}
				skey, saes, _ := h.KeyFor(fileKey, it.ref.Number(), it.ref.Generation(), true)
				body, e := secure.DecryptStream(skey, saes, s.Raw)
				if e != nil || !bytes.Equal(body, it.body) {
					tl.note(scheme+"/stream-body", fmt.Sprintf("object %v: body does not decrypt to what was written (%v)", it.ref, e))
				}
			} else {
				d, e := decryptValue(raw, key, aes)
				if e != nil || !obj.Equal(d, it.want) {
					tl.note(scheme+"/string/"+it.where, fmt.Sprintf("object %v: strings do not decrypt to what was written (%v)", it.ref, e))
				}
			}
			items++
		}
	}
	tl.mu.Lock()
	tl.indepAuth += auths
	tl.indepItems += items
	tl.mu.Unlock()
}

// checkFamilies validates the concretisation tables with the independent
// preparation functions: equal spellings, distinct tokens, unpreparable
// passwords, segment lengths.
func checkFamilies() error {
	type prep func(string) ([]byte, error)
	check := func(kind string, fams []family, bad []string, p prep) error {
		empty, err := p("")
		if err != nil {
			return core.Infra("%s: empty password cannot be prepared", kind)
		}
		for _, f := range fams {
			seen := map[string]string{string(empty): "empty"}
			for _, t := range []string{"A", "B", "C"} {
				var first []byte
				for i, s := range f.tok[t] {
					b, err := p(s)
					if err != nil {
						return core.Infra("password table %s/%s: %q cannot be prepared: %v", kind, f.name, s, err)
					}
					if i == 0 {
						first = b
					} else if !bytes.Equal(first, b) {
						return core.Infra("password table %s/%s: spellings of %s differ after preparation: %q vs %q", kind, f.name, t, f.tok[t][0], s)
					}
				}
				if first == nil {
					return core.Infra("password table %s/%s: no spelling for %s", kind, f.name, t)
				}
				if other, dup := seen[string(first)]; dup {
					return core.Infra("password table %s/%s: %s and %s are equal after preparation", kind, f.name, t, other)
				}
				seen[string(first)] = t
			}
		}
		for _, s := range bad {
			if _, err := p(s); err == nil {
				return core.Infra("password table %s: %q was meant to be unpreparable", kind, s)
			}
		}
		return nil
	}
	if err := check("legacy", legacyFamilies, legacyBad, secure.PrepareLegacy); err != nil {
		return err
	}
	if err := check("r6", r6Families, r6Bad, secure.PrepareR6); err != nil {
		return err
	}
	for v := 0; v < 4; v++ {
		for _, t := range []string{"A", "B", "C"} {
			if b, ok := secure.PDFDocEncode(head(t, true, v)); !ok || len(b) != 32 {
				return core.Infra("legacy head segment %s/%d is not 32 bytes", t, v)
			}
			if len(head(t, false, v)) != 32 {
				return core.Infra("r6 head segment %s/%d is not 32 bytes", t, v)
			}
		}
		for _, t := range []string{"x", "y", "z"} {
			if len(tail(t, v)) != 95 {
				return core.Infra("tail segment %s/%d is not 95 bytes", t, v)
			}
		}
	}
	return nil
}
