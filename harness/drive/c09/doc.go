package c09

import (
	"bytes"
	"errors"
	"fmt"
	"math/rand"
	"sort"

	"golang.org/x/text/language"
	"seehuhn.de/go/pdf"
	"seehuhn.de/go/xmp"

	"verif/harness/drive/shared"
	"verif/harness/indep/obj"
)

var flagBits = map[string]pdf.Perm{
	"Copy": pdf.PermCopy, "PrintDegraded": pdf.PermPrintDegraded, "Print": pdf.PermPrint, "Forms": pdf.PermForms,
	"Annotate": pdf.PermAnnotate, "Assemble": pdf.PermAssemble, "Modify": pdf.PermModify,
}

func permOf(flags []string) pdf.Perm {
	var p pdf.Perm
	for _, f := range flags {
		p |= flagBits[f]
	}
	return p
}

func flagsOf(p pdf.Perm) []string {
	out := []string{}
	for name, bit := range flagBits {
		if p&bit != 0 {
			out = append(out, name)
		}
	}
	sort.Strings(out)
	return out
}

func closure(flags []string) []string {
	set := map[string]bool{}
	for _, f := range flags {
		set[f] = true
	}
	if set["Print"] {
		set["PrintDegraded"] = true
	}
	if set["Annotate"] {
		set["Forms"] = true
	}
	if set["Modify"] {
		set["Assemble"] = true
	}
	out := []string{}
	for f := range set {
		out = append(out, f)
	}
	sort.Strings(out)
	return out
}

func pdfVersion(v int) pdf.Version {
	if v == 20 {
		return pdf.V2_0
	}
	return pdf.V1_0 + pdf.Version(v-10)
}

// docSpec is everything needed to write one document again.
type docSpec struct {
	Version int      `json:"version"`
	EMD     bool     `json:"emd"` // EncryptMetadata
	UserPw  string   `json:"userPw"`
	OwnerPw string   `json:"ownerPw"`
	Perms   []string `json:"perms"`
	Seed    int64    `json:"seed"`
}

// item is one indirect object of the written document.
type item struct {
	where string
	ref   pdf.Reference
	want  obj.Value // non-stream objects
	// streams
	isStream bool
	dict     obj.Dict
	body     []byte
	// uncompressed object: can be located in the raw file
	direct bool
}

type written struct {
	spec      docSpec
	file      []byte
	items     []item
	title     string
	metaTitle string
	// argsModified describes a value of the caller that the Writer changed
	argsModified string
	meta         *pdf.MetadataStream
	nStrings     int
	nStreams     int
	writerErr    error
}

var stringLens = []int{0, 1, 2, 15, 16, 17, 31, 32, 33, 47, 48, 64, 100}

func randString(rnd *rand.Rand) obj.Str {
	n := stringLens[rnd.Intn(len(stringLens))]
	b := make([]byte, n)
	switch rnd.Intn(4) {
	case 0: // text with the characters that need escaping
		const chars = "abc XYZ()\\\r\n\t<>[]{}/%#012"
		for i := range b {
			b[i] = chars[rnd.Intn(len(chars))]
		}
	case 1: // one byte value repeated (equal plaintext blocks)
		c := byte(rnd.Intn(256))
		for i := range b {
			b[i] = c
		}
	default:
		rnd.Read(b)
	}
	return obj.Str(b)
}

func countStrings(v obj.Value) int {
	switch x := v.(type) {
	case obj.Str:
		return 1
	case obj.Array:
		n := 0
		for _, e := range x {
			n += countStrings(e)
		}
		return n
	case obj.Dict:
		n := 0
		for _, e := range x {
			n += countStrings(e)
		}
		return n
	}
	return 0
}

// writeDoc writes the document on the real Writer: strings in arrays,
// dictionaries, compressed objects (object streams from PDF 1.5), stream
// dictionaries; stream bodies with and without filters; Info; the XMP
// metadata stream (plaintext iff EncryptMetadata is false).
func writeDoc(spec docSpec) (w *written, err error) {
	w = &written{spec: spec}
	defer func() {
		if r := recover(); r != nil {
			err = fmt.Errorf("panic in Writer: %v", r)
		}
	}()
	rnd := rand.New(rand.NewSource(spec.Seed))
	opt := &pdf.WriterOptions{UserPassword: spec.UserPw, OwnerPassword: spec.OwnerPw, UserPermissions: permOf(spec.Perms)}
	encrypted := spec.UserPw != "" || spec.OwnerPw != ""
	// every random decision is drawn unconditionally, so that the same seed
	// gives the same object graph with and without encryption (control run)
	coin := rnd.Intn(2) == 0
	withMeta := spec.Version >= 14 && (!spec.EMD && encrypted || coin)
	metaNo := rnd.Int63()
	if withMeta {
		packet := xmp.NewPacket()
		dc := &xmp.DublinCore{}
		w.metaTitle = fmt.Sprintf("C09 metadata %d", metaNo)
		dc.Title.Set(language.Und, w.metaTitle)
		if err := packet.Set(dc); err != nil {
			return w, err
		}
		w.meta = &pdf.MetadataStream{Data: packet, Plaintext: !spec.EMD && encrypted}
		opt.DocumentMetadata = w.meta
	}
	id := make([]byte, 16+rnd.Intn(17))
	rnd.Read(id)
	if rnd.Intn(3) == 0 && spec.Version >= 11 {
		opt.ID = [][]byte{id, id}
	}
	buf := &bytes.Buffer{}
	out, err := pdf.NewWriter(buf, pdfVersion(spec.Version), opt)
	if err != nil {
		w.writerErr = err
		return w, err
	}

	put := func(where string, ref pdf.Reference, v obj.Value) error {
		w.items = append(w.items, item{where: where, ref: ref, want: v, direct: true})
		w.nStrings += countStrings(v)
		return out.Put(ref, shared.ToPDF(v))
	}
	putStream := func(where string, dict obj.Dict, body []byte, filters ...pdf.Filter) error {
		ref := out.Alloc()
		w.items = append(w.items, item{where: where, ref: ref, isStream: true, dict: dict, body: body, direct: true})
		w.nStrings += countStrings(dict)
		w.nStreams++
		var d pdf.Dict
		if dict != nil {
			d = shared.ToPDF(dict).(pdf.Dict)
		}
		s, err := out.OpenStream(ref, d, filters...)
		if err != nil {
			return err
		}
		if _, err := s.Write(body); err != nil {
			return err
		}
		return s.Close()
	}
	body := func(n int) []byte {
		b := make([]byte, n)
		if rnd.Intn(3) == 0 {
			for i := range b {
				b[i] = "q 1 0 0 1 0 0 cm Q\n"[i%19]
			}
		} else {
			rnd.Read(b)
		}
		return b
	}

	// page tree (the Reader insists on one)
	pages, page := out.Alloc(), out.Alloc()
	if err = out.Put(page, pdf.Dict{"Type": pdf.Name("Page"), "Parent": pages, "Resources": pdf.Dict{},
		"MediaBox": pdf.Array{pdf.Integer(0), pdf.Integer(0), pdf.Integer(100), pdf.Integer(100)}}); err != nil {
		return w, err
	}
	if err = out.Put(pages, pdf.Dict{"Type": pdf.Name("Pages"), "Kids": pdf.Array{page}, "Count": pdf.Integer(1)}); err != nil {
		return w, err
	}
	out.GetMeta().Catalog.Pages = pages
	w.title = fmt.Sprintf("C09 title (%d) \\ é", rnd.Int63())
	out.GetMeta().Info.Title = pdf.TextString(w.title)

	// strings inside arrays and dictionaries
	refA := out.Alloc()
	if err = put("array", refA, obj.Array{randString(rnd), obj.Array{randString(rnd), obj.Int(7)},
		obj.Dict{"K": randString(rnd)}, obj.Name("N"), randString(rnd)}); err != nil {
		return w, err
	}
	if err = put("dict", out.Alloc(), obj.Dict{"S": randString(rnd), "Arr": obj.Array{randString(rnd), randString(rnd)},
		"Sub": obj.Dict{"T": randString(rnd), "E": obj.Str{}}, "Next": obj.Ref{Num: refA.Number(), Gen: refA.Generation()}}); err != nil {
		return w, err
	}
	// long containers: arrays of 31..33 and of 255..340 elements and a
	// dictionary of 300 entries, strings at every position (a formatter that
	// batches long containers must still encrypt every string)
	{
		mk := func(n int) obj.Array {
			a := make(obj.Array, 0, n)
			for i := 0; i < n; i++ {
				switch i % 4 {
				case 0, 3:
					a = append(a, randString(rnd))
				case 1:
					a = append(a, obj.Int(i))
				default:
					a = append(a, obj.Array{randString(rnd)})
				}
			}
			return a
		}
		if err = put("long-array", out.Alloc(), mk(255+rnd.Intn(86))); err != nil {
			return w, err
		}
		if err = put("dict-with-mid-array", out.Alloc(), obj.Dict{"A": mk(31 + rnd.Intn(3)), "S": randString(rnd)}); err != nil {
			return w, err
		}
		big := obj.Dict{}
		for i := 0; i < 300; i++ {
			big[obj.Name(fmt.Sprintf("K%03d", i))] = randString(rnd)
		}
		if err = put("long-dict", out.Alloc(), big); err != nil {
			return w, err
		}
		if err = putStream("stream-dict-with-long-array", obj.Dict{"Arr": mk(257 + rnd.Intn(20))}, body(20)); err != nil {
			return w, err
		}
	}
	// a stream with strings in its dictionary, unfiltered
	lens := []int{0, 1, 15, 16, 17, 32, 100, 1000}
	if err = putStream("stream", obj.Dict{"Desc": randString(rnd), "Arr": obj.Array{randString(rnd)}}, body(lens[rnd.Intn(len(lens))])); err != nil {
		return w, err
	}
	// an object Put while a stream is open: the Writer queues it and emits
	// the stream dictionary later (at 1024 bytes of data or at Close), so the
	// dictionary's strings are written after the Put call
	{
		sref, qref := out.Alloc(), out.Alloc()
		dict := obj.Dict{"Desc": randString(rnd), "Arr": obj.Array{randString(rnd), obj.Dict{"K": randString(rnd)}}}
		first, second := body([]int{0, 1, 100, 1000}[rnd.Intn(4)]), body([]int{0, 16, 500, 2000}[rnd.Intn(4)])
		queued := obj.Array{randString(rnd), obj.Dict{"K": randString(rnd)}}
		w.items = append(w.items, item{where: "stream-with-queued-put", ref: sref, isStream: true, dict: dict,
			body: append(append([]byte(nil), first...), second...), direct: true})
		w.items = append(w.items, item{where: "queued-put", ref: qref, want: queued, direct: true})
		w.nStrings += countStrings(dict) + countStrings(queued)
		w.nStreams++
		s, err := out.OpenStream(sref, shared.ToPDF(dict).(pdf.Dict))
		if err != nil {
			return w, err
		}
		if _, err = s.Write(first); err != nil {
			return w, err
		}
		if err = out.Put(qref, shared.ToPDF(queued)); err != nil {
			return w, err
		}
		if _, err = s.Write(second); err != nil {
			return w, err
		}
		if err = s.Close(); err != nil {
			return w, err
		}
	}
	// one pdf.String value and one array holding strings, shared by several
	// objects: written by Put (twice in one object, under two references), in
	// a stream dictionary and by WriteCompressed.  Every occurrence must read
	// back as the plaintext and the caller's values must not change.
	var sharedCheck func()
	{
		var plain obj.Str
		for len(plain) < 6 {
			plain = randString(rnd)
		}
		shStr := pdf.String(append([]byte(nil), plain...))
		shArrWant := obj.Array{randString(rnd), obj.Dict{"K": randString(rnd)}, obj.Int(3)}
		shArr := shared.ToPDF(shArrWant).(pdf.Array)
		r1, r2, r3, r4, m1, m2 := out.Alloc(), out.Alloc(), out.Alloc(), out.Alloc(), out.Alloc(), out.Alloc()
		add := func(where string, ref pdf.Reference, want obj.Value, direct bool) {
			w.items = append(w.items, item{where: where, ref: ref, want: want, direct: direct})
			w.nStrings += countStrings(want)
		}
		add("shared-array", r1, obj.Array{plain, shArrWant, plain}, true)
		if err = out.Put(r1, pdf.Array{shStr, shArr, shStr}); err != nil {
			return w, err
		}
		add("shared-dict", r2, obj.Dict{"S": plain, "A": shArrWant, "Sub": obj.Dict{"S": plain}}, true)
		if err = out.Put(r2, pdf.Dict{"S": shStr, "A": shArr, "Sub": pdf.Dict{"S": shStr}}); err != nil {
			return w, err
		}
		add("shared-string", r3, plain, true)
		if err = out.Put(r3, shStr); err != nil {
			return w, err
		}
		sd := obj.Dict{"Desc": plain, "Arr": shArrWant}
		sbody := body(40)
		w.items = append(w.items, item{where: "shared-stream-dict", ref: r4, isStream: true, dict: sd, body: sbody, direct: true})
		w.nStrings += countStrings(sd)
		w.nStreams++
		st, err := out.OpenStream(r4, pdf.Dict{"Desc": shStr, "Arr": shArr})
		if err != nil {
			return w, err
		}
		if _, err = st.Write(sbody); err != nil {
			return w, err
		}
		if err = st.Close(); err != nil {
			return w, err
		}
		add("shared-compressed", m1, obj.Dict{"S": plain, "A": shArrWant}, spec.Version < 15)
		add("shared-compressed", m2, shArrWant, spec.Version < 15)
		if err = out.WriteCompressed([]pdf.Reference{m1, m2}, pdf.Dict{"S": shStr, "A": shArr}, shArr); err != nil {
			return w, err
		}
		sharedCheck = func() {
			if !bytes.Equal(shStr, plain) {
				w.argsModified = fmt.Sprintf("the caller's pdf.String changed from %q to %q", clip(string(plain)), clip(string(shStr)))
			} else if !obj.Equal(shared.FromPDF(shArr), shArrWant) {
				w.argsModified = "the strings inside the caller's pdf.Array changed"
			}
		}
	}
	// compressed objects
	c1, c2, c3 := out.Alloc(), out.Alloc(), out.Alloc()
	cv := []obj.Value{
		obj.Dict{"S": randString(rnd), "Arr": obj.Array{randString(rnd)}},
		obj.Array{randString(rnd), obj.Dict{"K": randString(rnd)}},
		randString(rnd),
	}
	for i, ref := range []pdf.Reference{c1, c2, c3} {
		w.items = append(w.items, item{where: "compressed", ref: ref, want: cv[i], direct: spec.Version < 15})
		w.nStrings += countStrings(cv[i])
	}
	if err = out.WriteCompressed([]pdf.Reference{c1, c2, c3}, shared.ToPDF(cv[0]), shared.ToPDF(cv[1]), shared.ToPDF(cv[2])); err != nil {
		return w, err
	}
	// filtered streams
	var filter pdf.Filter = pdf.FilterFlate{}
	if spec.Version < 12 {
		filter = pdf.FilterASCIIHex{} // no FlateDecode before PDF 1.2
	}
	if err = putStream("stream-filtered", obj.Dict{"Desc": randString(rnd)}, body(lens[rnd.Intn(len(lens))]), filter); err != nil {
		return w, err
	}
	if rnd.Intn(2) == 0 && spec.Version >= 12 {
		if err = putStream("stream-compress", nil, body(200+rnd.Intn(3000)), pdf.FilterCompress{}); err != nil {
			return w, err
		}
	}
	// an object number above 255 and a generation number above 0
	if rnd.Intn(4) == 0 {
		ref := pdf.NewReference(uint32(300+rnd.Intn(400)), uint16(1+rnd.Intn(300)))
		if err = put("high-number", ref, obj.Array{randString(rnd), obj.Dict{"K": randString(rnd)}}); err != nil {
			return w, err
		}
	}
	if err = out.Close(); err != nil {
		return w, err
	}
	sharedCheck()
	w.file = buf.Bytes()
	return w, nil
}

// readResult is what one NewReader call gave.
type readResult struct {
	Outcome   string // "opened" | "autherr" | "error"
	Reader    bool
	PermsOut  []string
	ContentOK bool
	Detail    string
}

func stripStreamKeys(d obj.Dict) obj.Dict {
	out := obj.Dict{}
	for k, v := range d {
		switch k {
		case "Length", "Filter", "DecodeParms":
		default:
			out[k] = v
		}
	}
	return out
}

// readDoc opens the document on the real Reader and compares every string
// and stream with what was written.
func readDoc(w *written, password string) (res readResult) {
	res.PermsOut = []string{}
	defer func() {
		if r := recover(); r != nil {
			res = readResult{Outcome: "error", PermsOut: []string{}, Detail: fmt.Sprintf("panic in Reader: %v", r)}
		}
	}()
	r, err := pdf.NewReader(bytes.NewReader(w.file), int64(len(w.file)), &pdf.ReaderOptions{Password: password})
	if err != nil {
		var ae *pdf.AuthenticationError
		if errors.As(err, &ae) {
			res.Outcome = "autherr"
		} else {
			res.Outcome = "error"
		}
		res.Reader = r != nil
		res.Detail = err.Error()
		return res
	}
	res.Outcome, res.Reader = "opened", true
	res.PermsOut = flagsOf(r.GetMeta().Permissions)
	res.ContentOK, res.Detail = checkContent(w, r)
	return res
}

func checkContent(w *written, r *pdf.Reader) (bool, string) {
	if w.argsModified != "" {
		return false, "writing modified a value of the caller: " + w.argsModified
	}
	for _, it := range w.items {
		got, err := r.Get(it.ref, true)
		if err != nil {
			return false, fmt.Sprintf("%s %v: Get: %v", it.where, it.ref, err)
		}
		if !it.isStream {
			if g := shared.FromPDF(got); !obj.Equal(g, it.want) {
				return false, fmt.Sprintf("%s %v: read %s, written %s", it.where, it.ref, clip(obj.String(g)), clip(obj.String(it.want)))
			}
			continue
		}
		stm, ok := got.(*pdf.Stream)
		if !ok {
			return false, fmt.Sprintf("%s %v: not a stream: %T", it.where, it.ref, got)
		}
		gd, _ := shared.FromPDF(stm.Dict).(obj.Dict)
		wd := it.dict
		if wd == nil {
			wd = obj.Dict{}
		}
		if !obj.Equal(stripStreamKeys(gd), wd) {
			return false, fmt.Sprintf("%s %v: stream dictionary read %s, written %s", it.where, it.ref, clip(obj.String(stripStreamKeys(gd))), clip(obj.String(wd)))
		}
		data, err := pdf.ReadAll(r, nil, stm, 1<<22)
		if err != nil {
			return false, fmt.Sprintf("%s %v: stream body: %v", it.where, it.ref, err)
		}
		if !bytes.Equal(data, it.body) {
			return false, fmt.Sprintf("%s %v: stream body differs (%d bytes read, %d written)", it.where, it.ref, len(data), len(it.body))
		}
	}
	info := r.GetMeta().Info
	if info == nil || string(info.Title) != w.title {
		return false, fmt.Sprintf("Info.Title read %q, written %q", infoTitle(info), w.title)
	}
	if w.meta != nil {
		m := r.GetMeta().Catalog.Metadata
		if m == nil || !m.Equal(w.meta) {
			return false, "catalog metadata stream differs from what was written"
		}
	}
	return true, ""
}

func infoTitle(i *pdf.Info) string {
	if i == nil {
		return "<no Info>"
	}
	return string(i.Title)
}

func clip(s string) string {
	if len(s) > 160 {
		return s[:160] + "..."
	}
	return s
}
