package c09

import (
	"math/rand"
	"strings"
)

// A model password is a sequence of at most three segment tokens (see
// spec/crypt/StdSec.tla): <<>> empty, <<h>>, <<h,t>>, <<h,t,z>>; <<"!">> is a
// password that cannot be prepared.  The tables below concretise tokens by
// real strings.  Within one family the spellings of one token are equal after
// the preparation of the revision family ("legacy" = R 2-4: PDFDocEncoding,
// 32 bytes; "r6": SASLprep, UTF-8, 127 bytes) and different tokens are
// different after preparation.

type family struct {
	name string
	// spellings of the one-segment tokens A, B, C
	tok map[string][]string
}

func rep(s string, n int) string { return strings.Repeat(s, n) }

const (
	p31 = "Tr0ub4dor&3-correct-horse-batte" // 31 bytes
	q30 = "another-thirty-byte-passphrase"  // 30 bytes
	p32 = p31 + "5"
)

var p126 = (rep("0123456789", 13))[:126]

// families for revisions 2-4
var legacyFamilies = []family{
	{"ascii", map[string][]string{"A": {"secret"}, "B": {"Secret"}, "C": {"secret "}}},
	{"pdfdoc", map[string][]string{"A": {"pässwörd"}, "B": {"passwörd"}, "C": {"pässwörd€"}}},
	{"pdfdoc-high", map[string][]string{"A": {"Œuvre•†"}, "B": {"Œuvre•‡"}, "C": {"ﬁﬂ™Ž"}}},
	// a password of 31 (30) bytes followed by the first padding byte(s) is
	// the same password: the padding string starts 28 BF = "(" "¿"
	{"pad-tail", map[string][]string{"A": {p31, p31 + "("}, "B": {q30, q30 + "(¿"}, "C": {p31 + "x"}}},
	// only the first 32 bytes count
	{"long32", map[string][]string{"A": {p32, p32 + "X", p32 + "Y" + rep("tail", 30)}, "B": {p31 + "6" + "X"}, "C": {p31}}},
	// 32 characters that need two bytes each in UTF-8 but one in PDFDocEncoding
	{"pdfdoc-long", map[string][]string{"A": {rep("ä", 32), rep("ä", 32) + "x", rep("ä", 40)}, "B": {rep("ä", 31) + "a" + "x"}, "C": {rep("ä", 16)}}},
	{"blank", map[string][]string{"A": {" "}, "B": {"  "}, "C": {"\t"}}},
	{"paren", map[string][]string{"A": {"("}, "B": {"(("}, "C": {"(¿"}}},
}

// families for revision 6
var r6Families = []family{
	{"ascii", map[string][]string{"A": {"secret"}, "B": {"Secret"}, "C": {"secret "}}},
	// NFC and NFD spellings are the same password (NFKC)
	{"unicode", map[string][]string{"A": {"p\u00e4ssw\u00f6rd", "pa\u0308sswo\u0308rd"}, "B": {"passw\u00f6rd"}, "C": {"пароль"}}},
	{"fullwidth", map[string][]string{"A": {"a", "\uff41"}, "B": {"A", "\uff21"}, "C": {"ab", "\uff41\uff42", "a\uff42"}}},
	// characters mapped to nothing / to space by SASLprep
	{"saslmap", map[string][]string{"A": {"ab", "a\u00adb", "a\ufe0fb", "\ufeffab", "a\u034fb"},
		"B": {"a b", "a\u00a0b", "a\u2003b", "a\u3000b"}, "C": {"a-b"}}},
	{"compat", map[string][]string{"A": {"fi", "\ufb01"}, "B": {"1", "\u00b9", "\u2460", "\uff11"}, "C": {"IV", "\u2163"}}},
	// more than 32 bytes: all of them count
	{"long32", map[string][]string{"A": {p32 + "X"}, "B": {p32 + "Y"}, "C": {p32}}},
	// only the first 127 bytes count
	{"long127", map[string][]string{"A": {p126 + "7", p126 + "7x", p126 + "7y" + rep("tail", 40)}, "B": {p126 + "8x"}, "C": {p126}}},
	// the cut at 127 bytes may fall inside a character
	{"straddle127", map[string][]string{"A": {p126 + "é", p126 + "ê", p126 + "éxyz"}, "B": {p126 + "e"}, "C": {p126[:125] + "é"}}},
	{"multibyte-long", map[string][]string{"A": {rep("ä", 63) + "x", rep("ä", 63) + "xZ"}, "B": {rep("ä", 63) + "y"}, "C": {rep("ä", 63)}}},
	{"blank", map[string][]string{"A": {" "}, "B": {"  "}, "C": {"   ", "\u00a0\u2003 "}}},
	// the 127 byte limit applies to the prepared password: 40 fullwidth
	// letters are 120 bytes before and 40 bytes after SASLprep, so what
	// follows them counts although it lies beyond byte 127 of the input
	{"prep-shrinks", map[string][]string{"A": {rep("\uff41", 40) + "0123456789", rep("a", 40) + "0123456789"},
		"B": {rep("\uff41", 40) + "0123456XYZ"}, "C": {rep("\uff41", 40) + "0123456", rep("a", 40) + "0123456"}}},
}

// passwords that cannot be prepared
var legacyBad = []string{"пароль", "日本語", "a\x00b", "del\x7f", "soft\u00adhyphen", "\U0001F511"}
var r6Bad = []string{"bell\u0007", "private\ue000", "\u05d0b", "mark\u200e", "nul\u0000"}

// segments for structured passwords: heads of exactly 32 encoded bytes that
// differ in byte 32 only, tails of exactly 95 bytes that differ in byte 127
// only
func head(tok string, legacy bool, variant int) string {
	last := map[string]string{"A": "A", "B": "B", "C": "C"}[tok]
	if legacy && variant%2 == 1 {
		return rep("ö", 31) + last // 32 bytes in PDFDocEncoding
	}
	if !legacy && variant%2 == 1 {
		return rep("ö", 15) + "h" + last // 32 bytes in UTF-8
	}
	return rep("h", 31) + last
}

func tail(tok string, variant int) string {
	if variant%2 == 1 {
		return rep("ü", 47) + tok // 95 bytes in UTF-8
	}
	return rep("t", 94) + tok
}

func beyond(tok string) string {
	if tok == "p" {
		return "p"
	}
	return "qq" + tok
}

// concretiser maps the model passwords of one case to strings.
type concretiser struct {
	legacy     bool
	structured bool
	fam        family
	variant    int
	rnd        *rand.Rand
}

func isBad(pw []string) bool { return len(pw) == 1 && pw[0] == "!" }

func newConcretiser(legacy bool, pws [][]string, rnd *rand.Rand) *concretiser {
	c := &concretiser{legacy: legacy, rnd: rnd, variant: rnd.Intn(4)}
	for _, pw := range pws {
		if len(pw) > 1 {
			c.structured = true
		}
	}
	fams := r6Families
	if legacy {
		fams = legacyFamilies
	}
	c.fam = fams[rnd.Intn(len(fams))]
	if c.structured {
		c.fam = family{name: "segments"}
	}
	return c
}

func (c *concretiser) name() string {
	if c.structured {
		if c.variant%2 == 1 {
			return "segments-multibyte"
		}
		return "segments"
	}
	return c.fam.name
}

// spell returns one spelling of the password; which selects among equivalent
// spellings (negative = seeded choice).
func (c *concretiser) spell(pw []string, which int) string {
	switch {
	case len(pw) == 0:
		return ""
	case isBad(pw):
		bad := r6Bad
		if c.legacy {
			bad = legacyBad
		}
		if which < 0 {
			which = c.rnd.Intn(len(bad))
		}
		return bad[which%len(bad)]
	case c.structured:
		s := head(pw[0], c.legacy, c.variant)
		if len(pw) > 1 {
			s += tail(pw[1], c.variant/2)
		}
		if len(pw) > 2 {
			s += beyond(pw[2])
		}
		return s
	}
	sp := c.fam.tok[pw[0]]
	if which < 0 {
		which = c.rnd.Intn(len(sp))
	}
	return sp[which%len(sp)]
}
