package c09

import (
	"bytes"
	"errors"
	"fmt"
	"math/rand"
	"strconv"

	"seehuhn.de/go/pdf"

	"verif/harness/drive/shared"
	"verif/harness/indep/obj"
	"verif/harness/indep/secure"
)

// The reverse direction, as a cross-check of harness/indep/secure's builders
// (used later by C10): a minimal file encrypted by the independent handler
// must open in the real Reader with the user and the owner password and not
// with a wrong one.  Disagreements are logged, they are not C09 verdicts (C09
// is about documents the Writer produced).

func serialise(b *bytes.Buffer, v obj.Value) {
	switch x := v.(type) {
	case obj.Null, nil:
		b.WriteString("null")
	case obj.Bool:
		b.WriteString(strconv.FormatBool(bool(x)))
	case obj.Int:
		b.WriteString(strconv.FormatInt(int64(x), 10))
	case obj.Name:
		b.WriteByte('/')
		for _, c := range []byte(x) {
			if c <= 32 || c >= 127 || c == '#' || isDelim(c) {
				fmt.Fprintf(b, "#%02X", c)
			} else {
				b.WriteByte(c)
			}
		}
	case obj.Str:
		fmt.Fprintf(b, "<%X>", []byte(x))
	case obj.Ref:
		fmt.Fprintf(b, "%d %d R", x.Num, x.Gen)
	case obj.Array:
		b.WriteString("[")
		for i, e := range x {
			if i > 0 {
				b.WriteByte(' ')
			}
			serialise(b, e)
		}
		b.WriteString("]")
	case obj.Dict:
		b.WriteString("<<")
		for _, k := range x.Keys() {
			serialise(b, k)
			b.WriteByte(' ')
			serialise(b, x[k])
			b.WriteByte(' ')
		}
		b.WriteString(">>")
	default:
		panic("serialise: unsupported value")
	}
}

type revVariant struct {
	name    string
	version string
	p       secure.Params
}

var revVariants = []revVariant{
	{"R2", "1.3", secure.Params{R: 2}},
	{"R3-40-V1", "1.3", secure.Params{R: 3, KeyBits: 40, V: 1}},
	{"R3-40", "1.4", secure.Params{R: 3, KeyBits: 40}},
	{"R3-64", "1.4", secure.Params{R: 3, KeyBits: 64}},
	{"R3-128", "1.4", secure.Params{R: 3}},
	{"R4-AESV2", "1.6", secure.Params{R: 4}},
	{"R4-V2", "1.5", secure.Params{R: 4, RC4: true}},
	{"R4-AESV2-plainmeta-flag", "1.6", secure.Params{R: 4, PlainMetadata: true}},
	{"R6", "2.0", secure.Params{R: 6}},
	{"R6-plainmeta-flag", "2.0", secure.Params{R: 6, PlainMetadata: true}},
	{"R6-cf-length-bytes", "2.0", secure.Params{R: 6, CFLengthBytes: true}},
}

// buildForeign writes a small encrypted file without go-pdf.
func buildForeign(v revVariant, user, owner string, P uint32, rnd *rand.Rand, at obj.Ref) (file []byte, strPlain obj.Str, body []byte, strRef, stmRef obj.Ref, err error) {
	p := v.p
	p.User, p.Owner, p.P, p.Rand = user, owner, P, rnd
	p.ID0 = make([]byte, 16)
	rnd.Read(p.ID0)
	enc, fileKey, err := secure.NewEncryptDict(p)
	if err != nil {
		return nil, nil, nil, strRef, stmRef, err
	}
	h, err := secure.Parse(enc, p.ID0)
	if err != nil {
		return nil, nil, nil, strRef, stmRef, err
	}
	strRef = obj.Ref{Num: uint32(256 + rnd.Intn(70000)), Gen: uint16(rnd.Intn(400))}
	if at.Num > 5 {
		strRef = at
	}
	stmRef = obj.Ref{Num: 5}
	strPlain = randString(rnd)
	body = make([]byte, []int{0, 1, 15, 16, 17, 200}[rnd.Intn(6)])
	rnd.Read(body)
	iv := func() []byte { b := make([]byte, 16); rnd.Read(b); return b }
	encBytes := func(ref obj.Ref, stream bool, plain []byte) []byte {
		key, aes, ok := h.KeyFor(fileKey, ref.Num, ref.Gen, stream)
		if !ok {
			return plain
		}
		out, e := secure.Encrypt(key, aes, iv(), plain)
		if e != nil {
			err = e
		}
		return out
	}
	var b bytes.Buffer
	offsets := map[obj.Ref]int{}
	put := func(ref obj.Ref, v obj.Value) {
		b.WriteByte('\n')
		offsets[ref] = b.Len()
		fmt.Fprintf(&b, "%d %d obj\n", ref.Num, ref.Gen)
		serialise(&b, v)
		b.WriteString("\nendobj")
	}
	fmt.Fprintf(&b, "%%PDF-%s\n%%\xe2\xe3\xcf\xd3", v.version)
	put(obj.Ref{Num: 1}, obj.Dict{"Type": obj.Name("Catalog"), "Pages": obj.Ref{Num: 2}})
	put(obj.Ref{Num: 2}, obj.Dict{"Type": obj.Name("Pages"), "Kids": obj.Array{obj.Ref{Num: 3}}, "Count": obj.Int(1)})
	put(obj.Ref{Num: 3}, obj.Dict{"Type": obj.Name("Page"), "Parent": obj.Ref{Num: 2}, "Resources": obj.Dict{},
		"MediaBox": obj.Array{obj.Int(0), obj.Int(0), obj.Int(100), obj.Int(100)}})
	put(strRef, obj.Array{obj.Str(encBytes(strRef, false, strPlain)), obj.Dict{"K": obj.Str(encBytes(strRef, false, strPlain))}})
	encBody := encBytes(stmRef, true, body)
	b.WriteByte('\n')
	offsets[stmRef] = b.Len()
	fmt.Fprintf(&b, "%d %d obj\n", stmRef.Num, stmRef.Gen)
	serialise(&b, obj.Dict{"Length": obj.Int(len(encBody)), "Desc": obj.Str(encBytes(stmRef, false, strPlain))})
	b.WriteString("\nstream\n")
	b.Write(encBody)
	b.WriteString("\nendstream\nendobj")
	b.WriteByte('\n')
	xref := b.Len()
	entry := func(ref obj.Ref) { fmt.Fprintf(&b, "%010d %05d n\r\n", offsets[ref], ref.Gen) }
	b.WriteString("xref\n0 4\n0000000000 65535 f\r\n")
	entry(obj.Ref{Num: 1})
	entry(obj.Ref{Num: 2})
	entry(obj.Ref{Num: 3})
	b.WriteString("5 1\n")
	entry(stmRef)
	fmt.Fprintf(&b, "%d 1\n", strRef.Num)
	entry(strRef)
	b.WriteString("trailer\n")
	serialise(&b, obj.Dict{"Size": obj.Int(strRef.Num + 1), "Root": obj.Ref{Num: 1}, "Encrypt": enc,
		"ID": obj.Array{obj.Str(p.ID0), obj.Str(p.ID0)}})
	fmt.Fprintf(&b, "\nstartxref\n%d\n%%%%EOF\n", xref)
	return b.Bytes(), strPlain, body, strRef, stmRef, err
}

// reverseCheck opens files built by indep/secure with the real Reader.
func reverseCheck(rnd *rand.Rand, rounds int, tl *tally) {
	pws := []struct{ user, owner, wrong string }{
		{"user", "owner", "other"}, {"", "owner", ""}, {"user", "", "User"}, {"pässwörd", "Œuvre", "passwort"},
		{p32 + "X", "o", p32[:31]},
	}
	for round := 0; round < rounds; round++ {
		for _, v := range revVariants {
			pw := pws[rnd.Intn(len(pws))]
			P := 0xFFFFF0C0 | uint32(rnd.Intn(64))<<2 | uint32(rnd.Intn(2))<<8 | uint32(rnd.Intn(4))<<10
			file, sPlain, body, sRef, stRef, err := buildForeign(v, pw.user, pw.owner, P, rnd, obj.Ref{})
			if err != nil {
				tl.note("reverse/"+v.name+"/build", err.Error())
				continue
			}
			tl.mu.Lock()
			tl.reverseFiles++
			tl.mu.Unlock()
			open := func(password string) (*pdf.Reader, error) {
				return pdf.NewReader(bytes.NewReader(file), int64(len(file)), &pdf.ReaderOptions{Password: password, ErrorHandling: pdf.ErrorHandlingReport})
			}
			check := func(who, password string) {
				r, err := open(password)
				if err != nil {
					tl.note("reverse/"+v.name+"/"+who+"-password-rejected", fmt.Sprintf("user %q owner %q: %v", pw.user, pw.owner, err))
					return
				}
				got, err := r.Get(pdf.NewReference(sRef.Num, sRef.Gen), true)
				want := obj.Array{sPlain, obj.Dict{"K": sPlain}}
				if err != nil || !obj.Equal(shared.FromPDF(got), want) {
					tl.note("reverse/"+v.name+"/string", fmt.Sprintf("object %v: read %s, want %s (%v)", sRef, clip(obj.String(shared.FromPDF(got))), clip(obj.String(want)), err))
				}
				so, err := r.Get(pdf.NewReference(stRef.Num, stRef.Gen), true)
				stm, ok := so.(*pdf.Stream)
				if err != nil || !ok {
					tl.note("reverse/"+v.name+"/stream", fmt.Sprintf("%v %T", err, so))
					return
				}
				if d, _ := shared.FromPDF(stm.Dict["Desc"]).(obj.Str); !bytes.Equal(d, sPlain) {
					tl.note("reverse/"+v.name+"/stream-dict-string", "differs")
				}
				data, err := pdf.ReadAll(r, nil, stm, 1<<20)
				if err != nil || !bytes.Equal(data, body) {
					tl.note("reverse/"+v.name+"/stream-body", fmt.Sprintf("%d bytes read, %d written (%v)", len(data), len(body), err))
				}
			}
			owner := pw.owner
			if owner == "" {
				owner = pw.user
			}
			check("user", pw.user)
			check("owner", owner)
			if pw.user != "" {
				if r, err := open(pw.wrong); err == nil || r != nil {
					tl.note("reverse/"+v.name+"/wrong-password-accepted", fmt.Sprintf("%q", pw.wrong))
				} else {
					var ae *pdf.AuthenticationError
					if !errors.As(err, &ae) {
						tl.note("reverse/"+v.name+"/wrong-password-error", err.Error())
					}
				}
			}
		}
	}
}
