//go:build verif

package c04

import (
	"fmt"
	"math/rand"
	"testing"

	"verif/harness/indep/ser"
	"verif/harness/indep/strict"
)

func TestExplore(t *testing.T) {
	fails := map[string]int{}
	shown := 0
	for seed := int64(1); seed <= 20000; seed++ {
		rng := rand.New(rand.NewSource(seed))
		h := randomHistory(rng, 3, 3)
		b := concretise(h, rng)
		res, err := ser.RenderResult(b.doc, &ser.Options{Seed: seed})
		if err != nil {
			t.Fatalf("seed %d: %v (%s)", seed, err, h.key())
		}
		rec := observe(h, b, res.Bytes, res.Sizes[len(res.Sizes)-1], seed)
		// expectation by simulation (exploration only)
		st := make([]objState, h.nObj())
		defRev := make([]int, h.nObj())
		for k, rv := range h {
			for i, op := range rv.O {
				st[i] = applyOp(st[i], op)
				if op != "keep" {
					defRev[i] = 0
					if st[i].st == 2 {
						defRev[i] = k + 1
					}
				}
			}
		}
		bad := ""
		if !rec.Open {
			bad = "open: " + rec.Err
		} else {
			for _, p := range rec.Probes {
				want := 0
				if p[0] != beyond && st[p[0]-1].st == 2 && st[p[0]-1].gen == p[1] {
					want = defRev[p[0]-1]
				}
				if p[2] != want {
					bad = fmt.Sprintf("probe %v want %d err=%s note=%s", p, want, rec.Err, rec.Note)
					break
				}
			}
			if bad == "" && rec.Trailer != len(h) {
				bad = fmt.Sprintf("trailer %d want %d %s", rec.Trailer, len(h), rec.Note)
			}
		}
		if bad != "" {
			if f, err := strict.Parse(res.Bytes); err == nil {
				trig := false
				for _, sec := range f.Sections {
					if sec.Kind == strict.XRefStream { continue }
					idx := 0
					for _, ss := range sec.Subsections {
						if ss.Count > 0 && ss.First == 1 {
							e := sec.Entries[idx]
							if e.Type == strict.Free && e.NextFree == 0 && e.Gen == 65535 { trig = true }
						}
						idx += int(ss.Count)
					}
				}
				if trig { bad = "F11 " + bad[:10] } else { bad = "OTHER " + bad }
			} else { bad = "STRICTFAIL " + err.Error() }
			cls := bad
			if len(cls) > 60 {
				cls = cls[:60]
			}
			fails[cls]++
			if shown < 12 && bad[0] != 'F' {
				shown++
				t.Logf("seed %d %s: %s\n choices %+v", seed, h.key(), bad, res.Choices)
			}
		}
	}
	for k, v := range fails {
		t.Logf("%5d  %s", v, k)
	}
}
