package c04

import "math/rand"

// objState mirrors the object state of XRefHistory.tla (only what is needed
// to choose operations the standard allows; the judge re-checks validity).
type objState struct {
	st  int // 0 absent, 1 free, 2 used
	gen int
}

func opOK(s objState, kind, op string, k int) bool {
	switch op {
	case "keep":
		return k > 1
	case "def":
		return s.st == 0 || s.st == 2 || (s.st == 1 && s.gen != 65535)
	case "defc":
		return kind == "stream" && (s.st == 0 || s.gen == 0)
	case "hdef", "hdefc":
		return kind == "hybrid" && s.st == 1 && s.gen == 65535
	case "freeb":
		return s.st == 0 || (s.st == 2 && s.gen < 65534)
	case "freer":
		return s.st == 0 || s.st == 2
	}
	return false
}

func applyOp(s objState, op string) objState {
	switch op {
	case "def":
		if s.st == 0 {
			return objState{2, 0}
		}
		return objState{2, s.gen}
	case "defc", "hdef", "hdefc":
		return objState{2, 0}
	case "freeb":
		if s.st == 2 {
			return objState{1, s.gen + 1}
		}
		return objState{1, 0}
	case "freer":
		return objState{1, 65535}
	}
	return s
}

var opNames = []string{"keep", "def", "defc", "hdef", "hdefc", "freeb", "freer"}

// randomHistory draws a conforming history beyond the bounds of the
// exhaustive model.
func randomHistory(rng *rand.Rand, maxRevs, nObj int) history {
	st := make([]objState, nObj)
	nrev := 1 + rng.Intn(maxRevs)
	var h history
	for k := 1; k <= nrev; k++ {
		for try := 0; ; try++ {
			kind := []string{"table", "stream", "hybrid"}[rng.Intn(3)]
			ops := make([]string, nObj)
			hidden := false
			ok := true
			for i := range ops {
				var cand []string
				for _, op := range opNames {
					if opOK(st[i], kind, op, k) {
						cand = append(cand, op)
					}
				}
				if len(cand) == 0 {
					ok = false
					break
				}
				ops[i] = cand[rng.Intn(len(cand))]
				if ops[i] == "hdef" || ops[i] == "hdefc" {
					hidden = true
				}
			}
			if !ok || (kind == "hybrid" && !hidden) {
				continue
			}
			for i := range ops {
				st[i] = applyOp(st[i], ops[i])
			}
			h = append(h, rev{K: kind, O: ops, T: randomTrailer(rng)})
			break
		}
	}
	return h
}

// enumerate lists every conforming history with exactly nRev revisions over
// nObj objects (kinds and operations only).  The judge re-checks validity
// (ValidHistory), so a slip here cannot lead to a false alarm, only to an
// infrastructure error.
func enumerate(nRev, nObj int, visit func(history)) {
	var rec func(h history, st []objState)
	rec = func(h history, st []objState) {
		if len(h) == nRev {
			visit(append(history(nil), h...))
			return
		}
		k := len(h) + 1
		for _, kind := range []string{"table", "stream", "hybrid"} {
			ops := make([]string, nObj)
			var fill func(i int, hidden bool)
			fill = func(i int, hidden bool) {
				if i == nObj {
					if kind == "hybrid" && !hidden {
						return
					}
					ns := make([]objState, nObj)
					for j := range st {
						ns[j] = applyOp(st[j], ops[j])
					}
					rec(append(h, rev{K: kind, O: append([]string(nil), ops...), T: fullTrailer}), ns)
					return
				}
				for _, op := range opNames {
					if opOK(st[i], kind, op, k) {
						ops[i] = op
						fill(i+1, hidden || op == "hdef" || op == "hdefc")
					}
				}
			}
			fill(0, false)
		}
	}
	rec(nil, make([]objState, nObj))
}

// randomTrailer draws the optional keys of a revision's trailer.
func randomTrailer(rng *rand.Rand) []string {
	t := []string{}
	if rng.Intn(3) != 0 {
		t = append(t, "Info")
	}
	if rng.Intn(3) != 0 {
		t = append(t, "XX")
	}
	return t
}

// withTrailers gives every revision of h trailer keys drawn from rng.
func withTrailers(h history, rng *rand.Rand) history {
	out := make(history, len(h))
	for i, r := range h {
		r.T = randomTrailer(rng)
		out[i] = r
	}
	return out
}

// manyHistory draws a history for the "many numbers" family: four model
// objects, the first revision a table or a stream that defines them (the
// first may be retired instead, so that a hybrid update can hide it), one to
// three updates that are cross-reference streams or hybrid sections.
func manyHistory(rng *rand.Rand) history {
	const nObj = 4
	for {
		st := make([]objState, nObj)
		ops := []string{"def", "def", "def", "def"}
		if rng.Intn(3) == 0 {
			ops[0] = "freer"
		}
		for i := range ops {
			st[i] = applyOp(st[i], ops[i])
		}
		h := history{{K: []string{"table", "stream"}[rng.Intn(2)], O: ops, T: randomTrailer(rng)}}
		nrev := 2 + rng.Intn(3)
		ok := true
		for k := 2; k <= nrev && ok; k++ {
			ok = false
			for try := 0; try < 20 && !ok; try++ {
				kind := []string{"stream", "stream", "hybrid"}[rng.Intn(3)]
				o := make([]string, nObj)
				hidden, changed, good := false, false, true
				for i := range o {
					var cand []string
					for _, op := range opNames {
						if opOK(st[i], kind, op, k) {
							cand = append(cand, op)
						}
					}
					if len(cand) == 0 {
						good = false
						break
					}
					o[i] = cand[rng.Intn(len(cand))]
					hidden = hidden || o[i] == "hdef" || o[i] == "hdefc"
					changed = changed || o[i] != "keep"
				}
				if !good || (kind == "hybrid" && !hidden) || !changed {
					continue
				}
				for i := range o {
					st[i] = applyOp(st[i], o[i])
				}
				h = append(h, rev{K: kind, O: o, T: randomTrailer(rng)})
				ok = true
			}
		}
		if ok {
			return h
		}
	}
}
