package c04

import (
	"verif/harness/core"
	"verif/harness/indep/ser"
	"verif/harness/indep/strict"
)

// selfTest: the machinery must notice (i) corrupted records, (ii) the
// defective variants of the design model, (iii) a wrong table line.
func selfTest(ctx *core.Ctx) error {
	// (i) corrupt one field of real records
	h := history{{K: "stream", O: []string{"def", "defc", "freer"}, T: fullTrailer}, {K: "hybrid", O: []string{"freeb", "keep", "hdef"}, T: fullTrailer}, {K: "table", O: []string{"def", "freer", "keep"}, T: []string{"XX"}}}
	c := histCase{Kind: "hist", H: h, CSeed: 11, RSeed: 12}
	good, res, err := runHist(c)
	if err != nil {
		return core.Infra("self-test: %v", err)
	}
	if f11Trigger(res.Bytes) {
		return core.Infra("self-test: the chosen history must not have the F11 layout")
	}
	stale := good
	stale.Probes = append([][3]int(nil), good.Probes...)
	stale.Probes[0][2] = 1 // object 1 answered with the value of revision 1 instead of 3
	oldTrailer := good
	oldTrailer.Trailer.Info, oldTrailer.Trailer.MetaInfo = 2, 2 // /Info of the older trailer leaks
	notOpen := good
	notOpen.Open = false
	resurrect := good
	resurrect.Probes = append([][3]int(nil), good.Probes...)
	for i, p := range resurrect.Probes {
		if p[0] == 2 && p[1] == 0 {
			resurrect.Probes[i][2] = 1 // freed object still answers
		}
	}
	lgood, err := runLen(lenCase{Kind: "len", Body: []byte("abc def"), Mode: int(ser.LenMissing), RSeed: 5})
	if err != nil {
		return core.Infra("self-test: %v", err)
	}
	lbad := lgood
	lbad.Got--
	// an encrypted rendering: a string that comes back undecrypted shows as a
	// value no revision wrote
	hk := history{{K: "table", O: []string{"def", "def"}, T: fullTrailer}, {K: "stream", O: []string{"freeb", "defc"}, T: []string{}}, {K: "table", O: []string{"def", "keep"}, T: []string{"Info"}}}
	egood, _, err := runHist(histCase{Kind: "hist", H: hk, CSeed: 21, RSeed: 22, Crypt: "aesv2"})
	if err != nil {
		return core.Infra("self-test: %v", err)
	}
	ebad := egood
	ebad.Probes = append([][3]int(nil), egood.Probes...)
	for i, p := range ebad.Probes {
		if p[0] == 1 && p[1] == 1 {
			ebad.Probes[i][2] = -2 // object 1 (generation 1) read with the wrong key
		}
	}
	// a file as seen by the strict parser, intact and with one object moved
	fgood, err := strict.Parse(res.Bytes)
	if err != nil {
		return core.Infra("self-test: %v", err)
	}
	jgood := strict.ToJSON(fgood)
	jbad := strict.ToJSON(fgood)
	o0 := jbad["objects"].([]any)[0].(map[string]any)
	o0["off"] = o0["off"].(int64) + 1
	recs := []any{good, stale, good, oldTrailer, notOpen, resurrect, lgood, lbad,
		map[string]any{"t": "file", "file": jgood}, map[string]any{"t": "file", "file": jbad}, egood, ebad}
	bad, err := core.JudgeCases(ctx, tlcOpts(), recs, 20, 1)
	if err != nil {
		return err
	}
	want := []int{1, 3, 4, 5, 7, 9, 11}
	if len(bad) != len(want) {
		return core.Infra("self-test: corrupted records not singled out: %v, want %v", bad, want)
	}
	for i := range want {
		if bad[i] != want[i] {
			return core.Infra("self-test: corrupted records not singled out: %v, want %v", bad, want)
		}
	}
	ctx.Logf("self-test (i): corrupted records rejected (stale value, old trailer, open failure, resurrected object, wrong extent, file with an entry off by one, encrypted object read with the wrong key), intact ones accepted")

	// (ii) negative controls of the design model
	r1, err := ctx.TLC(core.TLCOpts{Dir: specDir, Module: "MC_XRefHistory", Cfg: "MC_XRefHistory_ascoded.cfg", Workers: 8, Mode: "negative-control", XssMB: 512})
	if err != nil {
		return err
	}
	if r1.Invariant != "LookupOK" {
		return core.Infra("self-test: the model with decodeXRefSection's offByOne tolerance should violate LookupOK, got %q", r1.Invariant)
	}
	r2, err := ctx.TLC(core.TLCOpts{Dir: specDir, Module: "MC_XRefHistory", Cfg: "MC_XRefHistory_lenstrict.cfg", Workers: 8, Mode: "negative-control", XssMB: 512})
	if err != nil {
		return err
	}
	if r2.Invariant != "ExtentOK" {
		return core.Infra("self-test: without the carve-out for short lengths into trailing white space ExtentOK should fail, got %q", r2.Invariant)
	}
	r3, err := ctx.TLC(core.TLCOpts{Dir: specDir, Module: "MC_XRefHistory", Cfg: "MC_XRefHistory_nullzero.cfg", Workers: 8, Mode: "negative-control", XssMB: 512})
	if err != nil {
		return err
	}
	if r3.Invariant != "ExtentOK" {
		return core.Infra("self-test: a null /Length taken as 0 (the code before 8dab642) should violate ExtentOK, got %q", r3.Invariant)
	}
	r4, err := ctx.TLC(core.TLCOpts{Dir: specDir, Module: "MC_XRefHistory", Cfg: "MC_XRefHistory_trailermerge.cfg", Workers: 8, Mode: "negative-control", XssMB: 512})
	if err != nil {
		return err
	}
	if r4.Invariant != "TrailerOK" {
		return core.Infra("self-test: a reader that merges the trailers of the /Prev chain should violate TrailerOK, got %q", r4.Invariant)
	}
	r5, err := ctx.TLC(core.TLCOpts{Dir: specDir, Module: "MC_XRefHistory", Cfg: "MC_XRefHistory_zerolen.cfg", Workers: 8, Mode: "negative-control", XssMB: 512})
	if err != nil {
		return err
	}
	if r5.Invariant != "ExtentOK" && r5.Invariant != "CorrectOK" {
		return core.Infra("self-test: a /Length of 0 treated as unknown should violate ExtentOK or CorrectOK, got %q", r5.Invariant)
	}
	for _, nc := range []string{"keygen0", "decmembers"} {
		r, err := ctx.TLC(core.TLCOpts{Dir: specDir, Module: "MC_XRefHistory", Cfg: "MC_XRefHistory_" + nc + ".cfg", Workers: 8, Mode: "negative-control", XssMB: 512})
		if err != nil {
			return err
		}
		if r.Invariant != "LookupOK" {
			return core.Infra("self-test: the defective key scope %s should violate LookupOK, got %q", nc, r.Invariant)
		}
	}
	ctx.Logf("self-test (ii): offByOne tolerance violates LookupOK; strict reading of the length clause and null-length-as-0 violate ExtentOK; object key with generation 0 and decrypted object-stream members violate LookupOK, merged trailers violate TrailerOK in the model")

	// (iii) a wrong expectation in a table line
	exp := append([][3]int(nil), good.Probes...)
	if tableMismatch(good, exp, expectedTrailer(h)) {
		return core.Infra("self-test: correct table line reported as mismatch")
	}
	exp[5][2] = 2
	if !tableMismatch(good, exp, expectedTrailer(h)) {
		return core.Infra("self-test: wrong table expectation not noticed")
	}
	ctx.Logf("self-test (iii): wrong table expectation noticed")
	return nil
}
