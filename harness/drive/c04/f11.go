package c04

import (
	"verif/harness/indep/obj"
	"verif/harness/indep/ser"
	"verif/harness/indep/strict"
)

// The functions in this file locate a divergence, they never decide one:
// a record is rejected by TLC with the reference semantics first; only then
// is the failure attributed to a class (the key known-findings.txt matches).
//
// explainedByOffByOne re-derives what a reader answers that merges the
// sections newest first ("first entry wins") *with* the tolerance of xref.go
// decodeXRefSection: a table subsection that starts at object 1 and whose
// first entry is `0000000000 65535 f` is taken for a mis-numbered `0 n`
// subsection and stored one number lower.  If these predicted answers are
// exactly the observed ones, the failure belongs to that class (F11).
func explainedByOffByOne(rec histRecord, res *ser.Result, b *built) bool {
	pw := ""
	if b.crypt != nil {
		pw = b.crypt.password
	}
	f, err := parseStrict(res.Bytes, pw)
	if err != nil {
		return false
	}
	xref := map[uint32]strict.Entry{}
	shifted := false
	for _, sec := range f.Sections { // newest first
		if sec.Kind != strict.XRefStream {
			idx := 0
			for _, ss := range sec.Subsections {
				off := uint32(0)
				for i := ss.First; i < ss.First+ss.Count; i++ {
					e := sec.Entries[idx]
					idx++
					if _, ok := xref[i]; ok {
						continue
					}
					if i == ss.First && ss.First == 1 && e.Type == strict.Free && e.NextFree == 0 && e.Gen == 65535 {
						off = 1
						shifted = true
					}
					xref[i-off] = e
				}
			}
			if sec.XRefStm != nil {
				for _, e := range sec.XRefStm.Entries {
					if _, ok := xref[e.Num]; !ok {
						xref[e.Num] = e
					}
				}
			}
			continue
		}
		for _, e := range sec.Entries {
			if _, ok := xref[e.Num]; !ok {
				xref[e.Num] = e
			}
		}
	}
	if !shifted {
		return false
	}
	// revision that wrote the physical object at an offset / in a container
	revAt := map[int64]int{}
	revIn := map[[2]uint32]int{}
	for _, p := range res.Placed {
		if p.Offset >= 0 {
			revAt[p.Offset] = p.Revision
		} else {
			revIn[[2]uint32{p.Stm, uint32(p.Idx)}] = p.Revision
		}
	}
	// predicted answer: revision number, 0 null, -1 error
	predict := func(n uint32, g uint16) int {
		e, ok := xref[n]
		if !ok || e.Type == strict.Free {
			return 0
		}
		if e.Type == strict.Compressed {
			if g != 0 {
				return 0
			}
			c, ok := xref[e.Stm]
			if !ok || c.Type != strict.InUse {
				return -1
			}
			o := f.ObjectAt(f.Abs(c.Offset))
			if o == nil || o.ObjStm == nil {
				return -1
			}
			for i, m := range o.ObjStm.Members {
				if m.Num == n {
					return revIn[[2]uint32{e.Stm, uint32(i)}]
				}
			}
			return -1
		}
		if e.Gen != g {
			return 0
		}
		o := f.ObjectAt(f.Abs(e.Offset))
		if o == nil || o.Ref != (obj.Ref{Num: n, Gen: g}) {
			return -1
		}
		return revAt[o.Offset]
	}
	if !rec.Open {
		// the catalog, the page tree root or the information dictionary is
		// not found through the shifted table
		for _, n := range []uint32{b.cat, b.cat + 1, b.info} {
			if n != 0 && predict(n, 0) <= 0 {
				return true
			}
		}
		return false
	}
	size := uint32(f.Size())
	for _, p := range rec.Probes {
		n := b.numOf(p[0])
		if p[0] == beyond {
			n = size + uint32(p[1])*3
		}
		if predict(n, uint16(p[1])) != p[2] {
			return false
		}
	}
	return true
}
