package c04

import (
	"bytes"
	"fmt"
	"io"
	"math/rand"

	"seehuhn.de/go/pdf"

	"verif/harness/drive/shared"
	"verif/harness/indep/obj"
	"verif/harness/indep/ser"
)

// rev is one revision of a history in the vocabulary of XRefHistory.tla.
type rev struct {
	K string   `json:"kind"`
	O []string `json:"ops"` // per object number 1..N
	// T lists the optional keys of the revision's trailer: "Info", "XX".
	T []string `json:"tr"`
}

func (r rev) has(key string) bool {
	for _, k := range r.T {
		if k == key {
			return true
		}
	}
	return false
}

var fullTrailer = []string{"Info", "XX"}

type history []rev

func (h history) nObj() int { return len(h[0].O) }

func (h history) key() string {
	var b bytes.Buffer
	for _, r := range h {
		b.WriteString(r.K[:1])
		b.WriteByte(':')
		for _, o := range r.O {
			b.WriteString(o)
			b.WriteByte(',')
		}
		if len(r.T) != 2 {
			b.WriteString("tr=")
			for _, k := range r.T {
				b.WriteString(k)
				b.WriteByte(',')
			}
		}
		b.WriteByte(';')
	}
	return b.String()
}

// value builds the concrete value that revision r gives object n.  Values of
// the same object in different revisions differ, so that the revision an
// answer comes from can be told from the answer.
func value(rng *rand.Rand, n, r int, compressed, encrypted bool) obj.Value {
	mark := obj.Int(1000*r + n)
	if encrypted {
		// every value holds a string or is a stream, so that the key the
		// reader uses shows in the value it returns
		str := obj.Str(fmt.Sprintf("v%d_%d%s", r, n, string(ser.RandomString(rng))))
		k := rng.Intn(5)
		if compressed && k == 4 {
			k = 0
		}
		switch k {
		case 0:
			return obj.Dict{"V": mark, "S": str, "A": obj.Array{ser.RandomString(rng), obj.Dict{"T": ser.RandomString(rng)}}}
		case 1:
			return obj.Array{mark, str, ser.RandomString(rng)}
		case 2:
			return str
		case 3:
			return obj.Dict{"V": mark, "E": obj.Str(""), "S": str}
		default:
			return &obj.Stream{Dict: obj.Dict{"V": mark, "S": str}, Raw: append([]byte(fmt.Sprintf("data %d %d ", r, n)), ser.RandomBody(rng, false)...)}
		}
	}
	refs := []obj.Ref{{Num: uint32(n)}, {Num: 1, Gen: 1}, {Num: 2}, {Num: 3, Gen: 65535}, {Num: 900}}
	k := rng.Intn(9)
	if compressed && k >= 7 {
		k = 0
	}
	switch k {
	case 8:
		// the value of the object is itself a reference (to an object that
		// does not exist: the number tells the revision); never in an object
		// stream (7.5.7: an object there shall not consist solely of a reference)
		return obj.Ref{Num: uint32(100000 + 1000*r + n)}
	case 0:
		return obj.Dict{"V": mark, "X": ser.RandomValue(rng, 2, refs)}
	case 1:
		return obj.Array{mark, ser.RandomValue(rng, 2, refs), ser.RandomString(rng)}
	case 2:
		return mark
	case 3:
		return obj.Name(fmt.Sprintf("v%d_%d%s", r, n, string(ser.RandomName(rng))))
	case 4:
		return obj.Str(fmt.Sprintf("v%d_%d%s", r, n, string(ser.RandomString(rng))))
	case 5:
		return obj.Real{F: float64(1000*r+n) + 0.5}
	case 6:
		d := obj.Dict{"V": mark}
		for i := 0; i < 3; i++ {
			v := ser.RandomValue(rng, 1, refs)
			if _, isNull := v.(obj.Null); !isNull {
				d[ser.RandomName(rng)] = v
			}
		}
		d["V"] = mark
		return d
	default:
		return &obj.Stream{Dict: obj.Dict{"V": mark}, Raw: ser.RandomBody(rng, false)}
	}
}

// built is a concretised history.
type built struct {
	doc    *ser.Doc
	values map[[2]int]obj.Value // (n, r) -> value
	cat    uint32
	info   uint32 // information dictionary of the newest trailer (0: none)
	h      history
	crypt  *cryptSetup
	pad    int // "many numbers" family: object numbers 1..pad are in use
}

// numOf is the object number of model object i (1-based).  In the "many
// numbers" family the model objects are spread over 1..pad, the highest
// number included; all other numbers hold tiny filler objects.
func (b *built) numOf(i int) uint32 {
	if b.pad == 0 {
		return uint32(i)
	}
	switch i {
	case 1:
		return 3
	case 2:
		return uint32(b.pad / 2)
	case 3:
		return uint32(b.pad)
	}
	return uint32(3 + 2*i)
}

// infoNum is the number of the information dictionary revision r writes.
func (b *built) infoNum(r int) uint32 { return b.cat + 1 + uint32(r) }

// concretise turns a model history into a document for the serialiser:
// objects 1..N as the history says, plus a catalog (N+1) and a page tree root
// (N+2) written by the first revision, and for every revision r whose trailer
// has /Info an information dictionary of its own (N+2+r, /Title "history r").
func concretise(h history, rng *rand.Rand, cs *cryptSetup, pad int) *built {
	n := h.nObj()
	if pad > 0 {
		n = pad
	}
	b := &built{doc: &ser.Doc{Version: []string{"1.5", "1.6", "1.7", "2.0"}[rng.Intn(4)]}, values: map[[2]int]obj.Value{},
		cat: uint32(n + 1), h: h, crypt: cs, pad: pad}
	if h[len(h)-1].has("Info") {
		b.info = b.infoNum(len(h))
	}
	if cs != nil {
		b.doc.Version = cs.version
		if cs.indirect {
			b.doc.EncryptRef = obj.Ref{Num: uint32(n + 3 + len(h))}
		}
	}
	pages := uint32(n + 2)
	for k, rv := range h {
		r := k + 1
		sr := ser.Revision{}
		switch rv.K {
		case "table":
			sr.Kind = ser.Table
		case "stream":
			sr.Kind = ser.Stream
		case "hybrid":
			sr.Kind = ser.Hybrid
		}
		for i, op := range rv.O {
			num := b.numOf(i + 1)
			switch op {
			case "keep":
			case "def", "defc", "hdef", "hdefc":
				comp := op == "defc" || op == "hdefc"
				v := value(rng, i+1, r, comp, cs != nil)
				b.values[[2]int{i + 1, r}] = v
				o := ser.Op{Num: num, Kind: ser.Define, Value: v, InObjStm: comp, Hidden: op == "hdef" || op == "hdefc"}
				if _, isStream := v.(*obj.Stream); isStream {
					o.Length = ser.LengthMode(rng.Intn(2)) // direct or indirect, both correct
				}
				sr.Ops = append(sr.Ops, o)
			case "freeb":
				sr.Ops = append(sr.Ops, ser.Op{Num: num, Kind: ser.Free, Style: ser.Linked})
			case "freer":
				sr.Ops = append(sr.Ops, ser.Op{Num: num, Kind: ser.Free, Style: ser.Retired})
			}
		}
		if r == 1 && pad > 0 {
			// tiny filler objects on every other number
			model := map[uint32]bool{}
			for i := range rv.O {
				model[b.numOf(i+1)] = true
			}
			for num := uint32(1); num <= uint32(pad); num++ {
				if !model[num] {
					sr.Ops = append(sr.Ops, ser.Op{Num: num, Kind: ser.Define, Value: obj.Int(num)})
				}
			}
		}
		if r == 1 {
			inStm := sr.Kind == ser.Stream && rng.Intn(2) == 0
			sr.Ops = append(sr.Ops,
				ser.Op{Num: b.cat, Kind: ser.Define, Value: obj.Dict{"Type": obj.Name("Catalog"), "Pages": obj.Ref{Num: pages}}, InObjStm: inStm},
				ser.Op{Num: pages, Kind: ser.Define, Value: obj.Dict{"Type": obj.Name("Pages"), "Kids": obj.Array{}, "Count": obj.Int(0)}, InObjStm: inStm && rng.Intn(2) == 0})
			if cs != nil && cs.indirect {
				sr.Ops = append(sr.Ops, ser.Op{Num: b.doc.EncryptRef.Num, Kind: ser.Define, Value: cs.dict})
			}
		}
		if rv.has("Info") {
			sr.Ops = append(sr.Ops, ser.Op{Num: b.infoNum(r), Kind: ser.Define,
				Value:    obj.Dict{"Title": obj.Str(fmt.Sprintf("history %d", r)), "Producer": obj.Str("indep/ser")},
				InObjStm: sr.Kind == ser.Stream && rng.Intn(3) == 0})
		}
		sr.Trailer = trailerOf(b, r)
		b.doc.Revisions = append(b.doc.Revisions, sr)
	}
	return b
}

func trailerOf(b *built, r int) obj.Dict {
	d := trailerBase(b, r)
	if b.crypt != nil {
		if b.crypt.indirect {
			d["Encrypt"] = b.doc.EncryptRef
		} else {
			d["Encrypt"] = b.crypt.dict
		}
	}
	return d
}

func idOf(r int) string { return fmt.Sprintf("revision-%07d", r) }

func trailerBase(b *built, r int) obj.Dict {
	d := obj.Dict{
		"Root": obj.Ref{Num: b.cat},
		"ID":   obj.Array{obj.Str("0123456789abcdef"), obj.Str(idOf(r))},
	}
	if b.h[r-1].has("Info") {
		d["Info"] = obj.Ref{Num: b.infoNum(r)}
	}
	if b.h[r-1].has("XX") {
		d["XX_Rev"] = obj.Int(r)
	}
	return d
}

// trailerObs says, per item GetMeta() reports, which revision's value it is
// (0: absent, -1: a value of no revision).
type trailerObs struct {
	ID       int `json:"ID"`
	Info     int `json:"Info"`
	XX       int `json:"XX"`
	MetaInfo int `json:"MetaInfo"`
	MetaID   int `json:"MetaID"`
	Other    int `json:"Other"`
}

// expectedTrailer is the harness's own reading (newest trailer only), used
// for the table comparison and to describe failures; TLC judges with
// RefTrailer.
func expectedTrailer(h history) trailerObs {
	l := len(h)
	t := trailerObs{ID: l, MetaID: l}
	if h[l-1].has("Info") {
		t.Info, t.MetaInfo = l, l
	}
	if h[l-1].has("XX") {
		t.XX = l
	}
	return t
}

// observation of the real reader on one rendered history
type probe struct {
	N, G int
}

type histRecord struct {
	T       string     `json:"t"` // "hist"
	H       history    `json:"h"`
	Open    bool       `json:"open"`
	Probes  [][3]int   `json:"probes"` // n, g, result: revision number, 0 null, -1 error, -2 unknown value
	Trailer trailerObs `json:"trailer"`
	Crypt   string     `json:"crypt"`
	// not judged: diagnostics
	Err  string `json:"err,omitempty"`
	Seed int64  `json:"seed"`
	Note string `json:"note,omitempty"`
}

const beyond = 999 // stands for an object number >= /Size in the records

func probesFor(n int) []probe {
	var ps []probe
	for i := 1; i <= n; i++ {
		for _, g := range []int{0, 1, 2, 65535} {
			ps = append(ps, probe{i, g})
		}
	}
	ps = append(ps, probe{beyond, 0}, probe{beyond, 1})
	return ps
}

func open(data []byte) (*pdf.Reader, error) { return openPW(data, "") }

func openPW(data []byte, password string) (*pdf.Reader, error) {
	return pdf.NewReader(bytes.NewReader(data), int64(len(data)), &pdf.ReaderOptions{ErrorHandling: pdf.ErrorHandlingStop, Password: password})
}

// fromReader converts what Reader.Get returned to the harness's value model
// (streams with their raw data).
func fromReader(r *pdf.Reader, v pdf.Native, encrypted bool) (obj.Value, error) {
	if s, ok := v.(*pdf.Stream); ok {
		d, _ := shared.FromPDF(s.Dict).(obj.Dict)
		if d == nil {
			d = obj.Dict{}
		}
		var raw []byte
		var err error
		if encrypted {
			// the streams of the histories have no /Filter: DecodeStream
			// only decrypts
			var rc io.ReadCloser
			rc, err = pdf.DecodeStream(r, nil, s)
			if err == nil {
				raw, err = io.ReadAll(rc)
				rc.Close()
			}
		} else {
			raw, err = io.ReadAll(s.NewReader())
		}
		if err != nil {
			return nil, err
		}
		return &obj.Stream{Dict: d, Raw: raw}, nil
	}
	return shared.FromPDF(v), nil
}

// observe opens the rendered history with the real reader and asks for every
// probe reference.
func observe(h history, b *built, data []byte, size uint32, seed int64) histRecord {
	rec := histRecord{T: "hist", H: h, Seed: seed, Probes: [][3]int{}, Crypt: "none"}
	pw := ""
	if b.crypt != nil {
		rec.Crypt = b.crypt.name
		pw = b.crypt.password
	}
	r, err := openPW(data, pw)
	if err != nil {
		rec.Err = err.Error()
		return rec
	}
	defer r.Close()
	rec.Open = true
	for _, p := range probesFor(h.nObj()) {
		num := b.numOf(p.N)
		if p.N == beyond {
			num = size + uint32(p.G)*3
		}
		res := -2
		v, err := r.Get(pdf.NewReference(num, uint16(p.G)), true)
		switch {
		case err != nil:
			res = -1
			if rec.Err == "" {
				rec.Err = err.Error()
			}
		case v == nil:
			res = 0
		default:
			got, err := fromReader(r, v, b.crypt != nil)
			if err != nil {
				res = -1
				rec.Err = err.Error()
				break
			}
			for k := 1; k <= len(h); k++ {
				if want, ok := b.values[[2]int{p.N, k}]; ok && obj.Equal(got, want) {
					res = k
				}
			}
			if res == -2 && rec.Note == "" {
				rec.Note = fmt.Sprintf("%d %d R = %s", p.N, p.G, obj.String(got))
			}
		}
		rec.Probes = append(rec.Probes, [3]int{p.N, p.G, res})
	}
	// which revisions' trailer entries does GetMeta() report?
	meta := r.GetMeta()
	tr := shared.FromPDF(meta.Trailer)
	td, _ := tr.(obj.Dict)
	t := &rec.Trailer
	for key, v := range td {
		switch key {
		case "Root":
			if !obj.Equal(v, obj.Ref{Num: b.cat}) {
				t.Other++
			}
		case "ID":
			t.ID = -1
			if a, ok := v.(obj.Array); ok && len(a) == 2 && obj.Equal(a[0], obj.Str("0123456789abcdef")) {
				for k := 1; k <= len(h); k++ {
					if obj.Equal(a[1], obj.Str(idOf(k))) {
						t.ID = k
					}
				}
			}
		case "Info":
			t.Info = -1
			for k := 1; k <= len(h); k++ {
				if h[k-1].has("Info") && obj.Equal(v, obj.Ref{Num: b.infoNum(k)}) {
					t.Info = k
				}
			}
		case "XX_Rev":
			t.XX = -1
			if n, ok := v.(obj.Int); ok && n >= 1 && int(n) <= len(h) && h[n-1].has("XX") {
				t.XX = int(n)
			}
		case "Encrypt":
			if b.crypt == nil {
				t.Other++
			}
		default:
			t.Other++
		}
	}
	if _, ok := td["Root"]; !ok {
		t.Other++
	}
	if _, ok := td["Encrypt"]; !ok && b.crypt != nil {
		t.Other++
	}
	if meta.Info != nil {
		t.MetaInfo = -1
		for k := 1; k <= len(h); k++ {
			if string(meta.Info.Title) == fmt.Sprintf("history %d", k) {
				t.MetaInfo = k
			}
		}
	}
	if meta.ID != nil {
		t.MetaID = -1
		if len(meta.ID) == 2 && string(meta.ID[0]) == "0123456789abcdef" {
			for k := 1; k <= len(h); k++ {
				if string(meta.ID[1]) == idOf(k) {
					t.MetaID = k
				}
			}
		}
	}
	if rec.Trailer != expectedTrailer(h) && rec.Note == "" {
		rec.Note = "trailer = " + obj.String(tr)
	}
	return rec
}
