package c04

import (
	"fmt"
	"math/rand"

	"verif/harness/indep/obj"
	"verif/harness/indep/secure"
	"verif/harness/indep/strict"
)

// cryptNames are the encrypted renderings (XRefHistory!CryptNames).
var cryptNames = []string{"rc4-40", "rc4-128", "rc4-cf", "aesv2", "aesv3"}

var id0 = []byte("0123456789abcdef")

// cryptSetup is one way of encrypting a rendering, built with the
// independent security handler (indep/secure).
type cryptSetup struct {
	name     string
	indirect bool // /Encrypt is an indirect object
	user     string
	owner    string
	password string // the one handed to the reader
	version  string
	dict     obj.Dict
	fileKey  []byte
	h        *secure.Handler
	rng      *rand.Rand
}

type rngReader struct{ r *rand.Rand }

func (r rngReader) Read(p []byte) (int, error) {
	for i := range p {
		p[i] = byte(r.r.Intn(256))
	}
	return len(p), nil
}

// newCrypt derives the encryption set-up from the method name and a seed.
func newCrypt(name string, seed int64) (*cryptSetup, error) {
	if name == "" || name == "none" {
		return nil, nil
	}
	rng := rand.New(rand.NewSource(seed*31 + 7))
	c := &cryptSetup{name: name, rng: rng, indirect: rng.Intn(2) == 0}
	c.user = []string{"", "user", "secret pw"}[rng.Intn(3)]
	c.owner = []string{"owner", "0wner!"}[rng.Intn(2)]
	c.password = c.user
	if rng.Intn(3) == 0 {
		c.password = c.owner
	}
	p := secure.Params{User: c.user, Owner: c.owner, P: 0xFFFFFFFC, ID0: id0, Rand: rngReader{rng}}
	switch name {
	case "rc4-40":
		p.R, c.version = 2, []string{"1.5", "1.7"}[rng.Intn(2)]
	case "rc4-128":
		p.R, p.KeyBits, c.version = 3, []int{128, 128, 56}[rng.Intn(3)], []string{"1.5", "1.7"}[rng.Intn(2)]
	case "rc4-cf":
		p.R, p.RC4, c.version = 4, true, []string{"1.5", "1.6"}[rng.Intn(2)]
	case "aesv2":
		p.R, c.version = 4, []string{"1.6", "1.7"}[rng.Intn(2)]
	case "aesv3":
		p.R, c.version = 6, "2.0"
	default:
		return nil, fmt.Errorf("unknown encryption %q", name)
	}
	var err error
	c.dict, c.fileKey, err = secure.NewEncryptDict(p)
	if err != nil {
		return nil, err
	}
	c.h, err = secure.Parse(c.dict, id0)
	return c, err
}

// encrypt is the serialiser's hook: Algorithm 1 / 1.A with the key of the
// object (num, gen) the string or stream belongs to.
func (c *cryptSetup) encrypt(ref obj.Ref, isStream bool, data []byte) []byte {
	key, aes, ok := c.h.KeyFor(c.fileKey, ref.Num, ref.Gen, isStream)
	if !ok {
		return data
	}
	iv := make([]byte, 16)
	for i := range iv {
		iv[i] = byte(c.rng.Intn(256))
	}
	out, err := secure.Encrypt(key, aes, iv, data)
	if err != nil {
		panic(err)
	}
	return out
}

// parseStrict parses a rendered file with the independent strict parser; an
// encrypted file is authenticated and decrypted with indep/secure, starting
// from what the file itself says (its /Encrypt and /ID), not from the set-up
// it was written with.
func parseStrict(data []byte, password string) (*strict.File, error) {
	f, err := strict.Parse(data)
	if err != nil || !f.Encrypted {
		return f, err
	}
	tr := f.Trailer()
	ev := tr["Encrypt"]
	if r, ok := ev.(obj.Ref); ok {
		ev, _ = f.Lookup(r)
	}
	ed, ok := ev.(obj.Dict)
	if !ok {
		return nil, fmt.Errorf("/Encrypt is not a dictionary")
	}
	ida, _ := tr["ID"].(obj.Array)
	if len(ida) != 2 {
		return nil, fmt.Errorf("encrypted file without /ID")
	}
	first, _ := ida[0].(obj.Str)
	h, err := secure.Parse(ed, first)
	if err != nil {
		return nil, err
	}
	key, _, err := h.Authenticate(password)
	if err != nil {
		return nil, err
	}
	err = f.SetDecrypt(func(ref obj.Ref, isStream bool, d []byte) ([]byte, error) {
		k, aes, ok := h.KeyFor(key, ref.Num, ref.Gen, isStream)
		if !ok {
			return d, nil
		}
		return secure.Decrypt(k, aes, d)
	})
	return f, err
}

// strictValue returns the decrypted value the strict parser finds for ref.
func strictValue(f *strict.File, ref obj.Ref) (obj.Value, bool, error) {
	v, ok := f.Lookup(ref)
	if !ok {
		return nil, false, nil
	}
	if o, idx := f.LookupObject(ref); o != nil && idx < 0 && f.Encrypted {
		if enc, isRef := f.Trailer()["Encrypt"].(obj.Ref); isRef && enc == ref {
			return v, true, nil
		}
		w, err := f.DecryptValue(ref, v)
		return w, true, err
	}
	return v, true, nil
}
