// Package c04 binds spec/file/XRefHistory.tla to go-pdf's reader.
//
//	P-C  Gen_XRefHistory (reference semantics) -> every history of the bounded
//	     model with RefLookup per probe -> rendered >= 3 ways by indep/ser ->
//	     pdf.NewReader / Reader.Get / GetMeta().Trailer
//	P-B  what the real reader answered (histories of the table, random
//	     histories beyond the bounds, stream extents for every way of declaring
//	     /Length) -> records -> Trace_XRefHistory (RefLookup, RefExtent)
//	P-D  strict.ToJSON of rendered files -> PdfFile!WellFormed (cross-check of
//	     the serialiser and the strict parser, the trusted observers)
//
// A table mismatch is never reported by itself: every record is judged by TLC.
package c04

import (
	"bytes"
	"encoding/json"
	"fmt"
	"io"
	"math/rand"
	"os"
	"sort"
	"strings"
	"sync"

	"seehuhn.de/go/pdf"

	"verif/harness/core"
	"verif/harness/indep/obj"
	"verif/harness/indep/ser"
	"verif/harness/indep/strict"
)

var Driver = core.Driver{ID: "C04", Level: "model_checking", Run: run, Replay: replay, SelfTest: selfTest}

const specDir = "file"

// genCase is one line of Gen_XRefHistory's table.
type genCase struct {
	T          string     `json:"t"`
	H          history    `json:"h"`
	Expect     [][3]int   `json:"expect"`
	Trailer    trailerObs `json:"trailer"`
	Body       []int      `json:"body"`
	Extent     int        `json:"extent"`
	Admissible bool       `json:"admissible"`
}

// histCase identifies one rendering of a history (replayable).
type histCase struct {
	Kind  string  `json:"kind"` // "hist"
	H     history `json:"h"`
	CSeed int64   `json:"cseed"`           // concretisation of the values
	RSeed int64   `json:"rseed"`           // rendering
	Crypt string  `json:"crypt,omitempty"` // "", "none" or one of cryptNames
	// Pad > 0: the "many numbers" family - object numbers 1..Pad are in use
	// (tiny fillers), the model objects are spread over them, updates are
	// cross-reference streams with a short /Index or hybrids
	Pad int `json:"pad,omitempty"`
}

func runHist(c histCase) (histRecord, *ser.Result, error) {
	rec, res, _, err := runHistB(c)
	return rec, res, err
}

func buildHist(c histCase) (*built, error) {
	cs, err := newCrypt(c.Crypt, c.CSeed)
	if err != nil {
		return nil, err
	}
	return concretise(c.H, rand.New(rand.NewSource(c.CSeed)), cs, c.Pad), nil
}

func runHistB(c histCase) (histRecord, *ser.Result, *built, error) {
	b, err := buildHist(c)
	if err != nil {
		return histRecord{}, nil, nil, err
	}
	// a quarter of the renderings have no end-of-line marker before endstream
	// where /Length is right (the marker is only recommended)
	ch := ser.PickChoices(c.RSeed)
	ch.EndstreamNoEOL = (c.RSeed/7)%4 == 0
	if c.Pad > 0 {
		// short /Index and subsections (not one run over all numbers)
		if ch.Index == 0 {
			ch.Index = 1 + int(c.RSeed%2)
		}
		if ch.Subsections == 0 {
			ch.Subsections = 1 + int(c.RSeed%2)
		}
		// go-pdf caps the number of entries a cross-reference stream may
		// declare by its raw length (8192 + 32 per byte, a documented
		// resource guard): a stream listing every number is written without
		// compression so that the cap does not apply to the original file
		if c.H[0].K == "stream" && ch.XRefFilter != 0 && ch.XRefFilter != 4 {
			ch.XRefFilter = []int{0, 4}[c.RSeed%2]
		}
		ch.Syntax.Comments = 0 // keep the large files small
	}
	opt := &ser.Options{Seed: c.RSeed, Choices: &ch}
	if b.crypt != nil {
		opt.Encrypt = b.crypt.encrypt
	}
	res, err := ser.RenderResult(b.doc, opt)
	if err != nil {
		return histRecord{}, nil, nil, err
	}
	rec := observe(c.H, b, res.Bytes, res.Sizes[len(res.Sizes)-1], c.RSeed)
	return rec, res, b, nil
}

// f11Trigger reports whether a file has the layout that the tolerance hack in
// xref.go decodeXRefSection mistakes for a mis-numbered table: a table
// subsection that starts at object 1 and whose first entry is
// `0000000000 65535 f`.
func f11Trigger(data []byte) bool {
	f, err := strict.Parse(data) // the sections are never encrypted
	if err != nil {
		return false
	}
	for _, sec := range f.Sections {
		if sec.Kind == strict.XRefStream {
			continue
		}
		idx := 0
		for _, ss := range sec.Subsections {
			if ss.Count > 0 && ss.First == 1 {
				e := sec.Entries[idx]
				if e.Type == strict.Free && e.NextFree == 0 && e.Gen == 65535 {
					return true
				}
			}
			idx += int(ss.Count)
		}
	}
	return false
}

// lastOp returns the last operation other than keep on object n.
func lastOp(h history, n int) string {
	op := "none"
	if n < 1 || n > h.nObj() {
		return "beyond"
	}
	for _, r := range h {
		if r.O[n-1] != "keep" {
			op = r.O[n-1]
		}
	}
	return op
}

// histKey names the failure class of a rejected history record.
func histKey(rec histRecord, res *ser.Result, b *built, expect func(n, g int) int) string {
	// attributed to the offByOne tolerance only if the lookups are what fails
	// (not the trailer) and a reader with that tolerance answers exactly so
	lookupFails := !rec.Open
	for _, p := range rec.Probes {
		if expect(p[0], p[1]) != p[2] {
			lookupFails = true
		}
	}
	if lookupFails && (!rec.Open || rec.Trailer == expectedTrailer(rec.H)) && f11Trigger(res.Bytes) && explainedByOffByOne(rec, res, b) {
		return "xref-table/subsection-starts-at-1/first-entry-free-65535-next-0/taken-for-misnumbered-table"
	}
	if !rec.Open {
		if b.pad > 0 {
			return "open-error/many-object-numbers/newest=" + rec.H[len(rec.H)-1].K
		}
		return "open-error/newest=" + rec.H[len(rec.H)-1].K
	}
	for _, p := range rec.Probes {
		want := expect(p[0], p[1])
		if p[2] != want {
			got := "older-or-other-revision"
			switch {
			case p[2] == -1:
				got = "error"
			case p[2] == -2:
				got = "unknown-value"
			case p[2] == 0:
				got = "null"
			}
			w := "value"
			if want == 0 {
				w = "null"
			}
			return fmt.Sprintf("lookup/newest=%s/last-op=%s/want=%s/got=%s", rec.H[len(rec.H)-1].K, lastOp(rec.H, p[0]), w, got)
		}
	}
	// which item of GetMeta() is not the newest trailer's
	want, got := expectedTrailer(rec.H), rec.Trailer
	item := "other-entries"
	switch {
	case got.Info != want.Info:
		item = "Info"
	case got.XX != want.XX:
		item = "private-key"
	case got.ID != want.ID:
		item = "ID"
	case got.MetaInfo != want.MetaInfo:
		item = "decoded-Info"
	case got.MetaID != want.MetaID:
		item = "decoded-ID"
	}
	cls := "of-an-older-revision"
	if got.Info < 0 || got.XX < 0 || got.ID < 0 || got.MetaInfo < 0 || got.MetaID < 0 {
		cls = "unknown-value"
	}
	return fmt.Sprintf("trailer/newest=%s/%s/%s", rec.H[len(rec.H)-1].K, item, cls)
}

// simulate is the harness's own reading of the history, used only to
// describe a failure (class key, message); acceptance is TLC's.
func simulate(h history) func(n, g int) int {
	st := make([]objState, h.nObj())
	def := make([]int, h.nObj())
	for k, rv := range h {
		for i, op := range rv.O {
			if op == "keep" {
				continue
			}
			st[i] = applyOp(st[i], op)
			def[i] = 0
			if st[i].st == 2 {
				def[i] = k + 1
			}
		}
	}
	return func(n, g int) int {
		if n < 1 || n > len(st) || st[n-1].st != 2 || st[n-1].gen != g {
			return 0
		}
		return def[n-1]
	}
}

func mcConstants(ctx *core.Ctx) string {
	if ctx.Thorough() {
		return "Objs={1,2,3}, MaxRevs=3, Styles={runs}, ZeroFree=FALSE, MaxPieces=5, OFFBYONE=FALSE, NULLZERO=FALSE, KEYGEN0=FALSE, DECRYPTMEMBERS=FALSE, TRAILERMERGE=FALSE, ZEROLENUNKNOWN=FALSE; trailer mode: 3 revisions, every choice of optional trailer keys"
	}
	return "Objs={1,2,3}, MaxRevs=2, Styles={one,each,runs}, ZeroFree=TRUE, MaxPieces=4, OFFBYONE=FALSE, NULLZERO=FALSE, KEYGEN0=FALSE, DECRYPTMEMBERS=FALSE, TRAILERMERGE=FALSE, ZEROLENUNKNOWN=FALSE; trailer mode: 3 revisions, every choice of optional trailer keys"
}

func tlcOpts() core.TLCOpts {
	return core.TLCOpts{Dir: specDir, Module: "Trace_XRefHistory", Cfg: "Trace_XRefHistory.cfg", XssMB: 512, XmxMB: 2500}
}

func run(ctx *core.Ctx) error {
	ctx.Ev.Rule = "evaluations = Reader.Get / GetMeta / Stream.NewReader calls on rendered files; a history is non-trivial when it has " +
		">= 2 revisions or a free entry; distinct = distinct (history, rendering seed) pairs plus distinct (body, declared length) pairs"
	ctx.Ev.Assume("TLC evaluates XRefHistory.tla / PdfFile.tla faithfully; RefLookup, RefExtent and the admissible sets state ISO 32000 7.3.8, 7.3.10, 7.5.4-7.5.8 and the property's quantifier")
	ctx.Ev.Assume("indep/secure implements Algorithms 1, 1.A, 2-13 of ISO 32000-2 7.6 (encrypted renderings are cross-checked: the strict parser + indep/secure must read back every written value before go-pdf is judged)")
	ctx.Ev.Assume("indep/ser emits only conforming files (cross-checked: strict.Parse + WellFormed on every rendered file, PdfFile!WellFormed in TLC on a sample, 4000x3 round trips in go test)")

	// 1. exhaustive design model
	cfg := "MC_XRefHistory_q.cfg"
	if ctx.Thorough() {
		cfg = "MC_XRefHistory_t.cfg"
	}
	if _, err := ctx.MustHold(core.TLCOpts{Dir: specDir, Module: "MC_XRefHistory", Cfg: cfg, Workers: ctx.Pick(8, 16),
		Constants: mcConstants(ctx), Timeout: ctx.Dur(5, 25), XssMB: 512, XmxMB: ctx.Pick(4000, 8000)}); err != nil {
		return err
	}

	// 2. case table from the reference semantics
	cases, err := generate(ctx)
	if err != nil {
		return err
	}
	var hcases, bcases []genCase
	for _, c := range cases {
		if c.T == "hist" {
			hcases = append(hcases, c)
		} else {
			bcases = append(bcases, c)
		}
	}
	sort.Slice(hcases, func(i, j int) bool { return hcases[i].H.key() < hcases[j].H.key() })
	ctx.Logf("table: %d histories, %d stream bodies", len(hcases), len(bcases))

	// 3. render every history >= 3 ways, open it with the real reader
	variants := ctx.Pick(3, 8)
	nenc := 0
	var jobs []job
	for i, gc := range hcases {
		for v := 0; v < variants; v++ {
			s := ctx.Seed*1_000_003 + int64(i)*31 + int64(v)
			c := histCase{Kind: "hist", H: gc.H, CSeed: s*2 + 1, RSeed: s}
			// thorough: three of the eight renderings are encrypted
			if ctx.Thorough() && v >= 5 {
				c.Crypt = cryptNames[(i+v)%len(cryptNames)]
			}
			jobs = append(jobs, job{c, gc.Expect, gc.Trailer})
		}
		// quick: one encrypted rendering for every fifth history
		if !ctx.Thorough() && int64(i)%5 == ((ctx.Seed%5)+5)%5 {
			s := ctx.Seed*1_000_003 + int64(i)*31 + 29
			jobs = append(jobs, job{histCase{Kind: "hist", H: gc.H, CSeed: s*2 + 1, RSeed: s, Crypt: cryptNames[(i/5)%len(cryptNames)]}, gc.Expect, gc.Trailer})
			nenc++
		}
	}
	// random histories beyond the bounds of the table (judged by TLC only)
	rng := ctx.Rand("random-histories")
	nrand := ctx.Pick(3000, 40000)
	for i := 0; i < nrand; i++ {
		h := randomHistory(rng, 5, 3+rng.Intn(2))
		c := histCase{Kind: "hist", H: h, CSeed: rng.Int63(), RSeed: rng.Int63()}
		if ctx.Thorough() && i%2 == 1 {
			c.Crypt = cryptNames[rng.Intn(len(cryptNames))]
		}
		jobs = append(jobs, job{c: c})
	}
	// histories in which the key scope matters (an object in use with a
	// generation > 0, compressed or hidden objects), rendered encrypted: the
	// table above has at most two revisions, and an object freed and defined
	// again takes three
	nkey := ctx.Pick(600, 6000)
	for i := 0; i < nkey; {
		h := randomHistory(rng, 5, 2+rng.Intn(3))
		if !keyScopeMatters(h) {
			continue
		}
		jobs = append(jobs, job{c: histCase{Kind: "hist", H: h, CSeed: rng.Int63(), RSeed: rng.Int63(), Crypt: cryptNames[i%len(cryptNames)]}})
		i++
	}
	// the "many numbers" family: an original file with thousands of object
	// numbers, updated by cross-reference streams with a short /Index (the
	// highest number included) and by hybrid sections
	nmany := 0
	for rep := 0; rep < ctx.Pick(5, 40); rep++ {
		for _, pad := range []int{8000, 8600, 9999, 20000} {
			h := manyHistory(rng)
			c := histCase{Kind: "hist", H: h, CSeed: rng.Int63(), RSeed: rng.Int63(), Pad: pad}
			if rep%4 == 3 {
				c.Crypt = cryptNames[rng.Intn(len(cryptNames))]
			}
			jobs = append(jobs, job{c: c})
			nmany++
		}
	}
	ctx.Ev.Set("many_numbers_histories", nmany)
	st := &histStats{seenKey: map[string]int{}}
	if err := processJobs(ctx, jobs, st); err != nil {
		return err
	}
	ctx.Ev.AddReplayed(len(hcases)*variants + nenc)
	ctx.Logf("histories: %d table cases x %d renderings (+%d encrypted) + %d random + %d key-scope histories executed on pdf.NewReader (%d encrypted files); %d table mismatches; %d files have the F11 layout",
		len(hcases), variants, nenc, nrand, nkey, st.encrypted, st.mismatches, st.triggers)
	ctx.Ev.Set("histories_in_table", len(hcases))
	ctx.Ev.Set("renderings_per_history", variants)
	ctx.Ev.Set("random_histories", nrand)
	ctx.Ev.Set("key_scope_histories_encrypted", nkey)
	if len(hcases) > 0 {
		ctx.Ev.Sample(map[string]any{"kind": "table line of Gen_XRefHistory", "case": hcases[len(hcases)/2]})
	}

	// thorough: the histories of exactly 3 revisions over 3 objects (the
	// harness enumerates all 518991; TLC re-checks that each is one the
	// standard allows and judges the answers), one seeded rendering each.
	// One run takes the third selected by the seed (seeds s, s+1, s+2 together
	// cover all); C04_R3_ALL=1 takes all of them.
	if ctx.Thorough() {
		var chunk []job
		n3, taken := 0, 0
		all := os.Getenv("C04_R3_ALL") != ""
		var perr error
		flush := func() {
			if perr == nil && len(chunk) > 0 {
				perr = processJobs(ctx, chunk, st)
			}
			chunk = chunk[:0]
		}
		enumerate(3, 3, func(h history) {
			n3++
			if !all && int64(n3)%3 != ((ctx.Seed%3)+3)%3 {
				return
			}
			taken++
			s := ctx.Seed*7_000_003 + int64(n3)
			c := histCase{Kind: "hist", H: withTrailers(h, rand.New(rand.NewSource(s))), CSeed: s*2 + 1, RSeed: s}
			if n3%2 == 0 {
				c.Crypt = cryptNames[(n3/2)%len(cryptNames)]
			}
			chunk = append(chunk, job{c: c})
			if len(chunk) >= 60000 {
				flush()
			}
		})
		flush()
		if perr != nil {
			return perr
		}
		ctx.Ev.Set("histories_3_revisions_enumerated", n3)
		ctx.Ev.Set("histories_3_revisions_executed", taken)
		ctx.Logf("histories: %d of the %d histories of 3 revisions x 3 objects executed on pdf.NewReader", taken, n3)
	}
	ctx.Ev.Set("files_with_subsection_1_first_entry_65535", st.triggers)
	ctx.Ev.Set("encrypted_renderings", st.encrypted)
	for _, k := range core.SortedKeys(st.seenKey) {
		ctx.Logf("rejected records of class %s: %d", k, st.seenKey[k])
	}
	fileRecs := st.fileRecs

	// 4. P-D: rendered files as seen by the strict parser, judged by PdfFile!WellFormed
	if len(fileRecs) > 0 {
		badf, err := core.JudgeCases(ctx, tlcOpts(), fileRecs, 10, 8)
		if err != nil {
			return err
		}
		if len(badf) > 0 {
			return core.Infra("PdfFile!WellFormed rejects %d of %d files of the serialiser that strict.WellFormed accepts (trusted observers disagree with the specification)", len(badf), len(fileRecs))
		}
	}

	// 5. the /Length clause
	if err := runLengths(ctx, bcases); err != nil {
		return err
	}
	ctx.Ev.Exhaustive = true
	ctx.Ev.Set("exhaustive_scope", "all histories of the bounded model ("+cfg+") in TLC; all histories of Gen_XRefHistory (<=2 revisions x 3 objects) on the real reader; "+
		"all bodies of <= MaxPieces pieces x every declared length; seeded renderings and random histories beyond (thorough: a seeded third of all histories of 3 revisions x 3 objects)")
	return nil
}

// job is one rendering of one history; expect is the line of the table (nil
// for histories that only TLC judges).
type job struct {
	c      histCase
	expect [][3]int
	tr     trailerObs
}

type histStats struct {
	mismatches, triggers int
	encrypted            int
	seenKey              map[string]int
	fileRecs             []map[string]any
	sampled              bool
}

// processJobs renders, observes and judges a batch of histories.
func processJobs(ctx *core.Ctx, jobs []job, st *histStats) error {
	recs := make([]histRecord, len(jobs))
	mismatch := make([]bool, len(jobs))
	trig := make([]bool, len(jobs))
	var mu sync.Mutex
	var first error
	parallel(len(jobs), 16, func(i int) {
		rec, res, b, err := runHistB(jobs[i].c)
		if err != nil {
			mu.Lock()
			if first == nil {
				first = core.Infra("serialiser refuses history %s: %v", jobs[i].c.H.key(), err)
			}
			mu.Unlock()
			return
		}
		recs[i] = rec
		ctx.Ev.Eval(len(rec.Probes) + 2)
		if len(jobs[i].c.H) >= 2 || strings.Contains(jobs[i].c.H.key(), "free") {
			ctx.Ev.Distinct(fmt.Sprintf("%s/%d", jobs[i].c.H.key(), jobs[i].c.RSeed))
		}
		// every rendered file must be well formed for the strict parser, and
		// (decrypted with the independent security handler) hold the values of
		// the newest revision
		pw := ""
		if b.crypt != nil {
			pw = b.crypt.password
			mu.Lock()
			st.encrypted++
			mu.Unlock()
		}
		f, perr := parseStrict(res.Bytes, pw)
		if perr == nil {
			for _, p := range strict.WellFormed(f) {
				if p.Clause != "endstream-eol" { // only recommended by the standard
					perr = fmt.Errorf("%s", p)
					break
				}
			}
		}
		if perr == nil && b.crypt != nil {
			perr = checkStrictValues(f, jobs[i].c.H, b)
		}
		if perr != nil {
			mu.Lock()
			if first == nil {
				first = core.Infra("serialiser emitted a file the strict parser rejects (history %s, seed %d, encryption %q): %v", jobs[i].c.H.key(), jobs[i].c.RSeed, jobs[i].c.Crypt, perr)
			}
			mu.Unlock()
			return
		}
		if i%997 == 0 && jobs[i].c.Pad == 0 {
			mu.Lock()
			if len(st.fileRecs) < ctx.Pick(40, 120) {
				st.fileRecs = append(st.fileRecs, map[string]any{"t": "file", "file": strict.ToJSON(f)})
			}
			mu.Unlock()
		}
		if jobs[i].expect != nil {
			mismatch[i] = tableMismatch(rec, jobs[i].expect, jobs[i].tr)
		}
		trig[i] = f11Trigger(res.Bytes)
	})
	if first != nil {
		return first
	}
	for i := range jobs {
		if mismatch[i] {
			st.mismatches++
		}
		if trig[i] {
			st.triggers++
		}
	}
	bad, err := core.JudgeCases(ctx, tlcOpts(), recs, 2000, ctx.Pick(8, 14))
	if err != nil {
		return err
	}
	isBad := map[int]bool{}
	for _, b := range bad {
		isBad[b] = true
	}
	for i := range jobs {
		if mismatch[i] && !isBad[i] {
			return core.Infra("harness and specification disagree: table mismatch for %s (seed %d) is accepted by Trace_XRefHistory", jobs[i].c.H.key(), jobs[i].c.RSeed)
		}
	}
	for _, b := range bad {
		reportHist(ctx, jobs[b].c, st.seenKey)
	}
	if !st.sampled && len(recs) > 0 {
		st.sampled = true
		ctx.Ev.Sample(map[string]any{"kind": "history rendered by indep/ser, read by pdf.NewReader, judged by Trace_XRefHistory", "record": recs[len(recs)/3]})
	}
	return nil
}

// keyScopeMatters tells whether a history ends with an object in use whose
// generation is not 0, or has compressed or hidden objects.
func keyScopeMatters(h history) bool {
	st := make([]objState, h.nObj())
	for _, rv := range h {
		for i, op := range rv.O {
			st[i] = applyOp(st[i], op)
			if op == "defc" || op == "hdef" || op == "hdefc" {
				return true
			}
		}
	}
	for _, s := range st {
		if s.st == 2 && s.gen > 0 {
			return true
		}
	}
	return false
}

// checkStrictValues compares what the strict parser + the independent
// security handler read from an encrypted rendering with what was written
// (a cross-check of the trusted observers, not of go-pdf).
func checkStrictValues(f *strict.File, h history, b *built) error {
	exp := simulate(h)
	for n := 1; n <= h.nObj(); n++ {
		for _, g := range []int{0, 1, 2} {
			want := exp(n, g)
			v, ok, err := strictValue(f, obj.Ref{Num: b.numOf(n), Gen: uint16(g)})
			if err != nil {
				return fmt.Errorf("object %d %d: %v", n, g, err)
			}
			if ok != (want != 0) {
				return fmt.Errorf("object %d %d: found=%v, want revision %d", n, g, ok, want)
			}
			if ok {
				w := b.values[[2]int{n, want}]
				if s, isStream := v.(*obj.Stream); isStream {
					d := obj.Dict{}
					for k, e := range s.Dict {
						if k != "Length" {
							d[k] = e
						}
					}
					v = &obj.Stream{Dict: d, Raw: s.Raw}
				}
				if !obj.Equal(v, w) {
					return fmt.Errorf("object %d %d decrypts to %s, written %s", n, g, obj.String(v), obj.String(w))
				}
			}
		}
	}
	return nil
}

// tableMismatch compares a record with a line of Gen_XRefHistory's table.
func tableMismatch(rec histRecord, expect [][3]int, tr trailerObs) bool {
	if !rec.Open || rec.Trailer != tr || len(rec.Probes) != len(expect) {
		return true
	}
	for k, p := range rec.Probes {
		if p != expect[k] {
			return true
		}
	}
	return false
}

// reportHist re-executes a rejected case and reports it; every failure class
// (key) is reported once per run, the first (smallest) case standing for it.
func reportHist(ctx *core.Ctx, c histCase, seenKey map[string]int) {
	// re-execute: a violation must reproduce
	rec, res, err := runHist(c)
	if err != nil {
		return
	}
	exp := simulate(c.H)
	b, err := buildHist(c)
	if err != nil {
		return
	}
	key := histKey(rec, res, b, exp)
	if seenKey != nil {
		seenKey[key]++
		if seenKey[key] > 1 {
			return
		}
	}
	what := fmt.Sprintf("history %s rendered with seed %d: ", c.H.key(), c.RSeed)
	if b.crypt != nil {
		what = fmt.Sprintf("history %s rendered with seed %d, encrypted %s (/Encrypt indirect: %v): ", c.H.key(), c.RSeed, b.crypt.name, b.crypt.indirect)
	}
	switch {
	case !rec.Open:
		what += "pdf.NewReader fails: " + rec.Err
	default:
		done := false
		for _, p := range rec.Probes {
			if w := exp(p[0], p[1]); w != p[2] {
				what += fmt.Sprintf("Reader.Get(%d %d R) answers %s, the newest revision says %s", p[0], p[1], resName(p[2]), resName(w))
				if rec.Err != "" {
					what += " (" + rec.Err + ")"
				}
				done = true
				break
			}
		}
		if !done {
			what += fmt.Sprintf("GetMeta() reports %+v (per item the revision it comes from), the trailer of the newest revision %d gives %+v", rec.Trailer, len(c.H), expectedTrailer(c.H))
		}
	}
	ctx.Violation(key, what, c)
}

func resName(r int) string {
	switch r {
	case 0:
		return "null"
	case -1:
		return "an error"
	case -2:
		return "a value no revision wrote"
	}
	return fmt.Sprintf("the value of revision %d", r)
}

func parallel(n, workers int, f func(i int)) {
	var wg sync.WaitGroup
	ch := make(chan int, 256)
	for w := 0; w < workers; w++ {
		wg.Add(1)
		go func() {
			defer wg.Done()
			for i := range ch {
				f(i)
			}
		}()
	}
	for i := 0; i < n; i++ {
		ch <- i
	}
	close(ch)
	wg.Wait()
}

func generate(ctx *core.Ctx) ([]genCase, error) {
	shards := 2
	pieces := ctx.Pick(3, 4)
	var all []genCase
	var mu sync.Mutex
	var wg sync.WaitGroup
	var first error
	for sh := 0; sh < shards; sh++ {
		wg.Add(1)
		go func(sh int) {
			defer wg.Done()
			cfg := fmt.Sprintf("INIT Init\nNEXT Next\nCONSTANTS OFFBYONE = FALSE\n NULLZERO = FALSE\n KEYGEN0 = FALSE\n DECRYPTMEMBERS = FALSE\n TRAILERMERGE = FALSE\n ZEROLENUNKNOWN = FALSE\n Objs = {1, 2, 3}\n MaxRevs = 2\n MaxPieces = %d\n Shard = %d\n Shards = %d\n", pieces, sh, shards)
			cs, _, err := core.GenCases[genCase](ctx, core.TLCOpts{Dir: specDir, Module: "Gen_XRefHistory", CfgText: cfg, Mode: "evaluate",
				XssMB: 512, Timeout: ctx.Dur(5, 15), Quiet: sh > 0, Constants: "Objs=1..3, MaxRevs=2"})
			mu.Lock()
			defer mu.Unlock()
			if err != nil && first == nil {
				first = err
			}
			all = append(all, cs...)
		}(sh)
	}
	wg.Wait()
	if first != nil {
		return nil, first
	}
	if len(all) == 0 {
		return nil, core.Infra("Gen_XRefHistory produced no cases")
	}
	return all, nil
}

// ---------------------------------------------------------------------------
// the /Length clause

// lenCase is one stream with one way of declaring its length (replayable).
type lenCase struct {
	Kind  string `json:"kind"` // "len"
	Body  []byte `json:"body"`
	Mode  int    `json:"mode"` // ser.LengthMode
	Delta int    `json:"delta"`
	RSeed int64  `json:"rseed"`
	// NoEOL: no end-of-line marker before endstream (right lengths only)
	NoEOL bool `json:"noeol,omitempty"`
}

type lenRecord struct {
	T        string `json:"t"` // "len"
	D        []int  `json:"d"`
	Blen     int    `json:"blen"`
	LK       string `json:"lk"`
	Declared int    `json:"declared"`
	Open     bool   `json:"open"`
	Got      int    `json:"got"`
	Same     bool   `json:"same"`
	Mode     string `json:"mode"`
	Err      string `json:"err,omitempty"`
}

func runLen(c lenCase) (lenRecord, error) {
	rec := lenRecord{T: "len", Blen: len(c.Body), Got: -1, Mode: ser.LengthMode(c.Mode).String()}
	rng := rand.New(rand.NewSource(c.RSeed))
	kind := ser.Kind(rng.Intn(2))
	doc := &ser.Doc{Version: "1.7", Revisions: []ser.Revision{{Kind: kind, Ops: []ser.Op{
		{Num: 1, Kind: ser.Define, Value: &obj.Stream{Dict: obj.Dict{"K": obj.Int(1)}, Raw: c.Body}, Length: ser.LengthMode(c.Mode), LengthDelta: c.Delta},
		{Num: 2, Kind: ser.Define, Value: obj.Dict{"Type": obj.Name("Catalog"), "Pages": obj.Ref{Num: 3}}},
		{Num: 3, Kind: ser.Define, Value: obj.Dict{"Type": obj.Name("Pages"), "Kids": obj.Array{}, "Count": obj.Int(0)}},
		{Num: 4, Kind: ser.Define, Value: &obj.Stream{Dict: obj.Dict{}, Raw: []byte("second stream")}},
		{Num: 5, Kind: ser.Define, Value: &obj.Stream{Dict: obj.Dict{}, Raw: []byte("third")}, Length: ser.LenIndirect},
	}, Trailer: obj.Dict{"Root": obj.Ref{Num: 2}}}}}
	ch := ser.PickChoices(c.RSeed)
	ch.EndstreamNoEOL = c.NoEOL
	if c.NoEOL {
		ch.Order = []int{0, 0, 2}[rng.Intn(3)] // mostly with another stream after this one
	}
	res, err := ser.RenderResult(doc, &ser.Options{Seed: c.RSeed, Choices: &ch})
	if err != nil {
		return rec, err
	}
	data := res.Bytes
	start := -1
	for _, p := range res.Placed {
		if p.Ref.Num == 1 && p.DataOffset >= 0 {
			start = int(p.DataOffset)
			rec.Declared = int(p.Declared)
			rec.LK = p.LengthKind
		}
	}
	if start < 0 || !bytes.Equal(data[start:start+len(c.Body)], c.Body) {
		return rec, fmt.Errorf("stream data not found in the rendered file")
	}
	end := start + len(c.Body) + 80
	if rec.Declared > len(c.Body) {
		end = start + rec.Declared + 80
	}
	if end > len(data) {
		end = len(data)
	}
	rec.D = make([]int, end-start)
	for i := range rec.D {
		rec.D[i] = int(data[start+i])
	}
	r, err := open(data)
	if err != nil {
		rec.Err = err.Error()
		return rec, nil
	}
	defer r.Close()
	rec.Open = true
	v, err := r.Get(pdf.NewReference(1, 0), true)
	if err != nil {
		rec.Err = err.Error()
		return rec, nil
	}
	s, ok := v.(*pdf.Stream)
	if !ok {
		rec.Err = fmt.Sprintf("Get returned %T", v)
		return rec, nil
	}
	raw, err := io.ReadAll(s.NewReader())
	if err != nil {
		rec.Err = err.Error()
		return rec, nil
	}
	rec.Got = len(raw)
	rec.Same = start+len(raw) <= len(data) && bytes.Equal(raw, data[start:start+len(raw)])
	return rec, nil
}

func isWS(b byte) bool { return b == 0 || b == 9 || b == 10 || b == 12 || b == 13 || b == 32 }

func lenKey(c lenCase, rec lenRecord) string {
	if rec.LK == "null" {
		// resolve.go asInteger turns the null object into 0, and 0 is trusted
		// when only white space or the text "endstream" follows
		i := 0
		for i < len(c.Body) && isWS(c.Body[i]) {
			i++
		}
		if i == len(c.Body) && rec.Open && rec.Got == 0 {
			return "stream-length/indirect-length-is-null/taken-as-0/white-space-body-dropped"
		}
		if bytes.HasPrefix(c.Body[i:], []byte("endstream")) && rec.Got < 0 {
			return "stream-length/indirect-length-is-null/taken-as-0/body-starts-with-endstream"
		}
	}
	if rec.Declared >= 0 && rec.Declared < len(c.Body) && rec.Got == rec.Declared {
		all := true
		for _, b := range c.Body[rec.Declared:] {
			if !isWS(b) {
				all = false
			}
		}
		if all {
			return "stream-length/short-length-into-trailing-white-space/trusted"
		}
	}
	cls := "wrong-extent"
	switch {
	case !rec.Open || rec.Got < 0:
		cls = "error"
	case rec.Got < len(c.Body):
		cls = "too-short"
	case rec.Got > len(c.Body):
		cls = "too-long"
	}
	rel := ""
	if c.Mode == int(ser.LenWrong) {
		rel = "/short"
		if rec.Declared > len(c.Body) {
			rel = "/long"
		}
	}
	if c.NoEOL {
		rel += "/no-eol-before-endstream"
		if len(c.Body) == 0 {
			rel += "/empty"
		}
	}
	return fmt.Sprintf("stream-length/%s%s/%s", ser.LengthMode(c.Mode), rel, cls)
}

func runLengths(ctx *core.Ctx, bcases []genCase) error {
	rng := ctx.Rand("lengths")
	ws := []byte{32, 9, 0, 12}
	reg := []byte("xQ0(/%>\x80\xff]")
	var cases []lenCase
	add := func(body []byte) {
		for _, m := range []ser.LengthMode{ser.LenDirect, ser.LenIndirect, ser.LenMissing, ser.LenUnresolvable, ser.LenNegative} {
			cases = append(cases, lenCase{Kind: "len", Body: body, Mode: int(m), RSeed: rng.Int63()})
		}
		// a right length without the (only recommended) end-of-line marker
		// before endstream; the empty body several times: /Length 0
		rep := 1
		if len(body) == 0 {
			rep = 12
		}
		for i := 0; i < rep; i++ {
			for _, m := range []ser.LengthMode{ser.LenDirect, ser.LenIndirect} {
				cases = append(cases, lenCase{Kind: "len", Body: body, Mode: int(m), RSeed: rng.Int63(), NoEOL: true})
			}
		}
		for d := -len(body); d <= 14; d++ {
			if d != 0 {
				cases = append(cases, lenCase{Kind: "len", Body: body, Mode: int(ser.LenWrong), Delta: d, RSeed: rng.Int63()})
			}
		}
		cases = append(cases, lenCase{Kind: "len", Body: body, Mode: int(ser.LenWrong), Delta: 40 + rng.Intn(60), RSeed: rng.Int63()},
			lenCase{Kind: "len", Body: body, Mode: int(ser.LenWrong), Delta: 100000, RSeed: rng.Int63()})
	}
	nb := 0
	for _, bc := range bcases {
		if !bc.Admissible {
			continue
		}
		// concretise the abstract bytes: 120 any regular byte, 32 any blank
		for rep := 0; rep < ctx.Pick(1, 2); rep++ {
			body := make([]byte, len(bc.Body))
			for i, x := range bc.Body {
				switch x {
				case 120:
					body[i] = reg[rng.Intn(len(reg))]
				case 32:
					body[i] = ws[rng.Intn(len(ws))]
				default:
					body[i] = byte(x)
				}
			}
			add(body)
			nb++
		}
	}
	for i := 0; i < ctx.Pick(60, 600); i++ {
		add(ser.RandomBody(rng, true))
		nb++
	}
	// long bodies of every length of a 1024-byte period whose extent has to be
	// recovered (no /Length, a wrong one): the end of the data and the keyword
	// fall on every position relative to the scanner's reads
	for l := 940; l < 940+ctx.Pick(1030, 2060); l++ {
		body := bytes.Repeat([]byte{reg[l%len(reg)]}, l)
		body[l/2] = '\n'
		mode, delta := ser.LenMissing, 0
		if l%3 == 0 {
			mode, delta = ser.LenWrong, 40+l%50
		}
		cases = append(cases, lenCase{Kind: "len", Body: body, Mode: int(mode), Delta: delta, RSeed: rng.Int63()})
		nb++
	}
	recs := make([]lenRecord, len(cases))
	var mu sync.Mutex
	var first error
	parallel(len(cases), 16, func(i int) {
		rec, err := runLen(cases[i])
		if err != nil {
			mu.Lock()
			if first == nil {
				first = core.Infra("length case %d: %v", i, err)
			}
			mu.Unlock()
			return
		}
		recs[i] = rec
		ctx.Ev.Eval(2)
		ctx.Ev.Distinct(fmt.Sprintf("len/%x/%d", cases[i].Body, rec.Declared))
	})
	if first != nil {
		return first
	}
	ctx.Ev.AddReplayed(len(cases))
	ctx.Ev.Set("length_bodies", nb)
	ctx.Ev.Set("length_cases", len(cases))
	ctx.Logf("lengths: %d bodies x ways of declaring /Length = %d streams read back", nb, len(cases))
	bad, err := core.JudgeCases(ctx, tlcOpts(), recs, 1500, 8)
	if err != nil {
		return err
	}
	seenKey := map[string]int{}
	for _, b := range bad {
		reportLen(ctx, cases[b], seenKey)
	}
	for _, k := range core.SortedKeys(seenKey) {
		ctx.Logf("rejected records of class %s: %d", k, seenKey[k])
	}
	if len(recs) > 0 {
		r := recs[len(recs)/2]
		if len(r.D) > 40 {
			r.D = r.D[:40]
		}
		ctx.Ev.Sample(map[string]any{"kind": "stream read back, judged by Trace_XRefHistory (RefExtent)", "record": r})
	}
	return nil
}

func reportLen(ctx *core.Ctx, c lenCase, seenKey map[string]int) {
	rec, err := runLen(c)
	if err != nil {
		return
	}
	if seenKey != nil {
		k := lenKey(c, rec)
		seenKey[k]++
		if seenKey[k] > 1 {
			return
		}
	}
	what := fmt.Sprintf("stream of %d bytes %q, /Length %s (resolved %d): ", len(c.Body), c.Body, ser.LengthMode(c.Mode), rec.Declared)
	switch {
	case !rec.Open || rec.Got < 0:
		what += "error: " + rec.Err
	default:
		what += fmt.Sprintf("Stream.NewReader yields %d bytes, the end-of-line before endstream delimits %d", rec.Got, len(c.Body))
	}
	ctx.Violation(lenKey(c, rec), what, c)
}

// ---------------------------------------------------------------------------

func replay(ctx *core.Ctx, raw json.RawMessage) error {
	var k struct {
		Kind string `json:"kind"`
	}
	if err := json.Unmarshal(raw, &k); err != nil {
		return core.Infra("replay: %v", err)
	}
	switch k.Kind {
	case "hist":
		var c histCase
		if err := json.Unmarshal(raw, &c); err != nil {
			return core.Infra("replay: %v", err)
		}
		rec, res, err := runHist(c)
		if err != nil {
			return core.Infra("replay: %v", err)
		}
		fmt.Printf("  history %s, %d bytes, F11 layout: %v\n  open=%v trailer=%+v probes (n, g, revision answered)=%v %s\n",
			c.H.key(), len(res.Bytes), f11Trigger(res.Bytes), rec.Open, rec.Trailer, rec.Probes, rec.Err)
		bad, err := core.JudgeCases(ctx, tlcOpts(), []histRecord{rec}, 1, 1)
		if err != nil {
			return err
		}
		if len(bad) > 0 {
			reportHist(ctx, c, nil)
		}
	case "len":
		var c lenCase
		if err := json.Unmarshal(raw, &c); err != nil {
			return core.Infra("replay: %v", err)
		}
		rec, err := runLen(c)
		if err != nil {
			return core.Infra("replay: %v", err)
		}
		fmt.Printf("  body %q declared %d got %d same=%v %s\n", c.Body, rec.Declared, rec.Got, rec.Same, rec.Err)
		bad, err := core.JudgeCases(ctx, tlcOpts(), []lenRecord{rec}, 1, 1)
		if err != nil {
			return err
		}
		if len(bad) > 0 {
			reportLen(ctx, c, nil)
		}
	default:
		return core.Infra("replay: unknown case kind %q", k.Kind)
	}
	return nil
}
