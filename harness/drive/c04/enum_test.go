package c04

import "testing"

func TestEnumerateCounts(t *testing.T) {
	for _, c := range []struct{ r, n, want int }{{1, 3, 91}, {2, 3, 6399}} {
		n := 0
		enumerate(c.r, c.n, func(history) { n++ })
		if n != c.want {
			t.Errorf("enumerate(%d, %d) = %d histories, want %d (Gen_XRefHistory)", c.r, c.n, n, c.want)
		}
	}
	if !testing.Short() {
		n := 0
		enumerate(3, 3, func(history) { n++ })
		t.Logf("3 revisions x 3 objects: %d histories", n)
	}
}
