// Package c20 binds spec/file/SeqScan.tla to pdf.SequentialScan.
//
//	design   MC_SeqScan: every small file x every crash point x every damage
//	P-C      Gen_SeqScan: table (kind, cut class) -> outcome as coded / as demanded;
//	         every real crash point inside an object is mapped to a table line
//	P-B      crash-point enumeration on real files: for EVERY prefix length
//	         0..len and every single cross-reference damage SequentialScan,
//	         FileInfo.Read of every listed object and MakeReader run on the
//	         real code; the observations are judged by Trace_SeqScan (Ref only)
//
// Ground truth (offsets, values) is recorded while writing and located by the
// byte search of shared/docgen_scan.go; go-pdf's reader is never asked.
package c20

import (
	"bytes"
	"encoding/json"
	"errors"
	"fmt"
	"io"
	"sort"
	"strings"
	"sync"

	"seehuhn.de/go/pdf"

	"verif/harness/core"
	"verif/harness/drive/shared"
	"verif/harness/indep/obj"
)

var Driver = core.Driver{ID: "C20", Level: "fault_enumeration", Run: run, Replay: replay, SelfTest: selfTest}

// ---- ground truth ----

type truthObj struct {
	Num, Gen           int
	Start, HdrEnd, End int64
	Kind               string // model kind: int real name kw str hex ref arr dict stream
	Raw                *shared.RawObject
	Doc                *shared.DocObject // nil for objects the Writer made itself
	// Amb: a stream whose raw body contains a line starting with "endstream";
	// it is unambiguous only where its /Length can be known: from LenEnd on
	// (End for a direct /Length, the end of the object holding an indirect one)
	Amb    bool
	LenEnd int64
}

type truth struct {
	doc  *shared.Doc
	data []byte
	lay  *shared.Layout
	objs []truthObj
}

var modelKind = map[string]string{"dict": "dict", "array": "arr", "int": "int", "real": "real", "name": "name", "string": "str",
	"hexstring": "hex", "bool": "kw", "null": "kw", "ref": "ref", "stream": "stream"}

// buildTruth locates the objects of data independently and attaches the
// recorded values.  Every disagreement between the two independent sources is
// an infrastructure error.
func buildTruth(doc *shared.Doc, data []byte, damaged bool) (*truth, error) {
	lay, err := shared.ScanLayout(data)
	if err != nil {
		return nil, core.Infra("independent layout of generated file (seed %d): %v", doc.Seed, err)
	}
	t := &truth{doc: doc, data: data, lay: lay}
	byStart := map[int64]*shared.DocObject{}
	for i := range doc.Objects {
		o := &doc.Objects[i]
		if o.InObjStm {
			return nil, core.Infra("C20 documents must not use object streams")
		}
		byStart[o.Start] = o
	}
	seen := 0
	for i := range lay.Objects {
		ro := &lay.Objects[i]
		to := truthObj{Num: ro.Num, Gen: ro.Gen, Start: ro.Start, HdrEnd: ro.HdrEnd, End: ro.End, Kind: modelKind[ro.Kind], Raw: ro}
		if d := byStart[ro.Start]; d != nil {
			seen++
			if int(d.Ref.Number()) != ro.Num || int(d.Ref.Generation()) != ro.Gen {
				return nil, core.Infra("object at %d: written as %v, found as %d %d", ro.Start, d.Ref, ro.Num, ro.Gen)
			}
			// (an indirect /Length object is written by the same call, after the stream)
			if ro.End > d.End || (ro.End < d.End-2 && (d.Kind != "stream" || doc.Opt.Seekable)) {
				return nil, core.Infra("object %v: sink says it ends at %d, byte search says %d", d.Ref, d.End, ro.End)
			}
			// the tokenizer must read back what was written (validates the tokenizer)
			if !doc.Opt.Encrypt && !damaged {
				if d.Kind == "stream" {
					rs, ok := ro.Value.(*obj.Stream)
					if !ok {
						return nil, core.Infra("object %v: written as stream, tokenised as %s", d.Ref, ro.Kind)
					}
					if len(d.Filters) == 0 && !bytes.Equal(rs.Raw, d.Decoded) {
						return nil, core.Infra("object %v: stream data located by the tokenizer differs from what was written", d.Ref)
					}
				} else if !obj.Equal(d.Value, ro.Value) {
					return nil, core.Infra("object %v: written %s, tokenised %s", d.Ref, obj.String(d.Value), obj.String(ro.Value))
				}
			}
			to.Doc = d
		}
		to.LenEnd = to.End
		if rs, ok := ro.Value.(*obj.Stream); ok {
			to.Amb = bytes.Contains(rs.Raw, []byte("\nendstream")) || bytes.Contains(rs.Raw, []byte("\rendstream"))
			if ref, indirect := rs.Dict["Length"].(obj.Ref); indirect {
				to.LenEnd = 1 << 40 // beyond every file unless the object is found below
				for j := range lay.Objects {
					if lay.Objects[j].Num == int(ref.Num) && lay.Objects[j].Gen == int(ref.Gen) {
						to.LenEnd = max(to.End, lay.Objects[j].End)
					}
				}
			}
		}
		t.objs = append(t.objs, to)
	}
	if seen != len(doc.Objects) {
		return nil, core.Infra("byte search found %d of the %d objects written (seed %d)", seen, len(doc.Objects), doc.Seed)
	}
	return t, nil
}

// ---- observation of the real code ----

type perObj struct {
	L int    `json:"l"`
	B int    `json:"b"`
	R string `json:"r"` // "v" value as written, "x" other value, "e" error, "-" not read
}

type observation struct {
	Res   string   `json:"res"` // ok eof malformed other panic
	Per   []perObj `json:"per"`
	Extra int      `json:"extra"` // listings that are no object of the file
	MR    string   `json:"mr"`    // MakeReader: ok err baddata panic skipped
	Note  string   `json:"note,omitempty"`
	Tag   string   `json:"tag,omitempty"` // class of a misread, for the violation key
}

func (o *observation) sig() string {
	var b strings.Builder
	b.WriteString(o.Res + "/" + o.MR + "/")
	for _, p := range o.Per {
		fmt.Fprintf(&b, "%d%d%s", p.L, p.B, p.R)
	}
	fmt.Fprintf(&b, "/%d", o.Extra)
	return b.String()
}

// stubGetter lets DecodeStream work on objects returned by FileInfo.Read
// (filters of generated streams are direct objects).
type stubGetter struct{ meta pdf.MetaInfo }

func (g *stubGetter) GetMeta() *pdf.MetaInfo                      { return &g.meta }
func (g *stubGetter) Get(pdf.Reference, bool) (pdf.Native, error) { return nil, nil }

func classify(err error) string {
	switch {
	case err == nil:
		return "ok"
	case pdf.IsMalformed(err):
		return "malformed"
	case errors.Is(err, io.EOF) || errors.Is(err, io.ErrUnexpectedEOF):
		return "eof"
	}
	return "other"
}

// sameAsTruth compares a value returned by go-pdf with the ground truth.
func sameAsTruth(g pdf.Getter, to *truthObj, got pdf.Object) (bool, string) {
	if to.Doc != nil {
		return shared.SameValue(g, to.Doc, got)
	}
	// objects made by the Writer itself (catalog, info, lengths, xref stream):
	// the independent tokenizer's reading of the bytes
	if ws, ok := to.Raw.Value.(*obj.Stream); ok {
		stm, ok := got.(*pdf.Stream)
		if !ok {
			return false, fmt.Sprintf("want stream, got %T", got)
		}
		wd := obj.Dict{}
		for k, v := range ws.Dict {
			if k != "Length" {
				wd[k] = v
			}
		}
		gd, _ := shared.FromPDF(stm.Dict).(obj.Dict)
		delete(gd, "Length")
		if !obj.Equal(wd, gd) {
			return false, "stream dictionary differs"
		}
		raw, err := io.ReadAll(stm.NewReader())
		if err != nil {
			return false, "raw stream data: " + err.Error()
		}
		if !bytes.Equal(raw, ws.Raw) {
			return false, fmt.Sprintf("raw stream data differs (%d vs %d bytes)", len(raw), len(ws.Raw))
		}
		return true, ""
	}
	if _, isStm := got.(*pdf.Stream); isStm {
		return false, "got a stream"
	}
	if !obj.Equal(to.Raw.Value, shared.FromPDF(got)) {
		return false, "value differs: want " + obj.String(to.Raw.Value) + " got " + obj.String(shared.FromPDF(got))
	}
	return true, ""
}

// misreadTag classifies a wrong value coarsely (for the violation key).
func misreadTag(g pdf.Getter, to *truthObj, got pdf.Object) string {
	stm, ok := got.(*pdf.Stream)
	if !ok || to.Doc == nil || to.Doc.Kind != "stream" {
		return to.Kind
	}
	tag := "stream"
	if _, direct := to.Raw.Value.(*obj.Stream).Dict["Length"].(obj.Int); !direct {
		tag += "/indirect-Length-lost"
	}
	if rd, err := pdf.DecodeStream(g, nil, stm); err == nil {
		data, err := io.ReadAll(rd)
		rd.Close()
		w := to.Doc.Decoded
		if err == nil && len(data) < len(w) && bytes.HasPrefix(w, data) && strings.Trim(string(w[len(data):]), "\r\n") == "" {
			return tag + "/trailing-EOL-dropped"
		}
	}
	return tag + "/body-differs"
}

// observe runs the real code on data (a prefix or a damaged copy).
func observe(t *truth, data []byte) (ob observation) {
	ob.Per = make([]perObj, len(t.objs))
	for i := range ob.Per {
		ob.Per[i].R = "-"
	}
	ob.MR = "skipped"
	stage := "SequentialScan"
	defer func() {
		if r := recover(); r != nil {
			ob.Note = fmt.Sprintf("panic in %s: %v", stage, r)
			if stage == "MakeReader" || stage == "Reader.Get" {
				ob.MR = "panic"
			} else {
				ob.Res = "panic"
			}
		}
	}()
	size := int64(len(data))
	fi, err := pdf.SequentialScan(bytes.NewReader(data), size)
	ob.Res = classify(err)
	if err != nil {
		ob.Note = err.Error()
		return ob
	}
	idx := map[[3]int64]int{}
	for i, o := range t.objs {
		idx[[3]int64{o.Start, int64(o.Num), int64(o.Gen)}] = i
	}
	g := &stubGetter{}
	g.meta.Version = pdf.V1_7
	stage = "FileInfo.Read"
	for _, sec := range fi.Sections {
		for _, fo := range sec.Objects {
			i, ok := idx[[3]int64{fo.ObjStart, int64(fo.Number()), int64(fo.Generation())}]
			if !ok {
				ob.Extra++
				continue
			}
			ob.Per[i].L = 1
			if fo.Broken {
				ob.Per[i].B = 1
				continue
			}
			v, err := fi.Read(fo)
			if err != nil {
				ob.Per[i].R = "e"
				ob.Note = fmt.Sprintf("Read(%d %d): %v", fo.Number(), fo.Generation(), err)
				continue
			}
			if same, why := sameAsTruth(g, &t.objs[i], v); same {
				ob.Per[i].R = "v"
			} else {
				ob.Per[i].R = "x"
				ob.Note = fmt.Sprintf("Read(%d %d): %s", fo.Number(), fo.Generation(), why)
				ob.Tag = misreadTag(g, &t.objs[i], v)
			}
		}
	}
	stage = "MakeReader"
	r, err := fi.MakeReader(t.doc.ReaderOptions(pdf.ErrorHandlingRecover))
	if err != nil {
		ob.MR = "err"
		return ob
	}
	ob.MR = "ok"
	stage = "Reader.Get"
	for i := range t.objs {
		o := &t.objs[i]
		if o.End > size || (o.Amb && o.LenEnd > size) {
			continue // not there, or a body with an "endstream" line whose /Length cannot be known
		}
		v, err := r.Get(pdf.NewReference(uint32(o.Num), uint16(o.Gen)), true)
		if err != nil {
			ob.MR = "baddata"
			ob.Note = fmt.Sprintf("MakeReader().Get(%d %d): %v", o.Num, o.Gen, err)
			break
		}
		if same, why := sameAsTruth(r, o, v); !same {
			ob.MR = "baddata"
			ob.Note = fmt.Sprintf("MakeReader().Get(%d %d): %s", o.Num, o.Gen, why)
			break
		}
	}
	return ob
}

// ---- records for Trace_SeqScan ----

type objRec struct {
	Num    int   `json:"num"`
	Start  int64 `json:"start"`
	HdrEnd int64 `json:"hdrEnd"`
	End    int64 `json:"end"`
	Amb    bool  `json:"amb"`
	LenEnd int64 `json:"lenEnd"`
}

type event struct {
	D  int   `json:"d"` // 1-based index into the docs file
	Lo int64 `json:"lo"`
	Hi int64 `json:"hi"`
	// Whole: no byte of the file is missing (intact or xref-damaged)
	Whole bool     `json:"whole"`
	Res   string   `json:"res"`
	MR    string   `json:"mr"`
	Per   []perObj `json:"per"`
	// not judged: labels for keys and coverage
	Class  string `json:"class"`
	Kind   string `json:"kind"`
	Damage string `json:"damage,omitempty"`
	Note   string `json:"note,omitempty"`
	Tag    string `json:"tag,omitempty"`
	Extra  int    `json:"extra"`
}

type docRec struct {
	Objs []objRec `json:"objs"`
}

func objRecs(t *truth) []objRec {
	out := make([]objRec, len(t.objs))
	for i, o := range t.objs {
		out[i] = objRec{o.Num, o.Start, o.HdrEnd, o.End, o.Amb, min(o.LenEnd, 1<<30)}
	}
	return out
}

// cutClass names the place of a crash point.
func cutClass(t *truth, cut int64) (class, kind string) {
	for i := range t.objs {
		o := &t.objs[i]
		if cut > o.Start && cut < o.End {
			c, ok := o.Raw.CutClass(cut)
			if !ok {
				return "in:?:top", o.Kind
			}
			return c, o.Kind
		}
	}
	if len(t.objs) > 0 && cut <= t.objs[0].Start {
		return "head", "-"
	}
	if len(t.objs) > 0 && cut >= t.objs[len(t.objs)-1].End {
		for _, m := range t.lay.Markers {
			if cut > m.Start && cut < m.End {
				return "tail:in:" + m.Word, "-"
			}
		}
		return "tail", "-"
	}
	return "gap", "-"
}

// ---- documents ----

type docSpec struct {
	Seed int64             `json:"seed"`
	Opt  shared.DocOptions `json:"opt"`
	Name string            `json:"name"`
}

func docSpecs(ctx *core.Ctx) []docSpec {
	s := ctx.Seed * 1000
	// every body kind except EOL+"endstream" (see Trace_SeqScan) and the big ones
	// and, where /Length can be an indirect object (non-seekable sink), bodies ending in a bare CR
	// bodies with lines that start with a trailer keyword are in every document
	plainNS := []shared.BodyKind{shared.BodyPlain, shared.BodyBinary, shared.BodyEOL, shared.BodyEndstream, shared.BodyEndobj, shared.BodyMidHeader, shared.BodyEmpty,
		shared.BodyTrailerLine, shared.BodyXrefLine, shared.BodyStartxrefLine, shared.BodyEOFLine}
	// with a direct /Length (seekable sink) also bodies ending in a bare CR and bodies with a line "endstream"
	plain := append([]shared.BodyKind{shared.BodyCR, shared.BodyEOLEndstream}, plainNS...)
	// streams over 1 kB on a non-seekable sink: indirect /Length objects; every third body has a line "endstream", every third a line "endobj"
	bigAmb := []shared.BodyKind{shared.BodyBig, shared.BodyBigEOLEndstream, shared.BodyBigEOLEndobj}
	specs := []docSpec{
		{s + 1, shared.DocOptions{Version: pdf.V1_4, Seekable: true, Objects: 13, Bodies: plain}, "table-1.4"},
		{s + 2, shared.DocOptions{Version: pdf.V1_7, Seekable: true, Objects: 13, Bodies: plain, Info: true}, "table-1.7-pretty"},
		{s + 3, shared.DocOptions{Version: pdf.V1_7, XRefStream: true, Seekable: true, Objects: 13, Bodies: plain, Info: true}, "xrefstream-1.7"},
		{s + 4, shared.DocOptions{Version: pdf.V2_0, XRefStream: true, Seekable: true, Objects: 10, Bodies: plain, Filters: shared.AllFilters}, "xrefstream-2.0-filters"},
		{s + 5, shared.DocOptions{Version: pdf.V1_3, Seekable: false, Objects: 10, Bodies: plainNS, Filters: []string{"ASCIIHex", "RunLength"}}, "table-1.3-noseek"},
	}
	// a non-seekable sink and bodies over 1 kB: /Length is an indirect object written after the stream
	specs = append(specs, docSpec{s + 6, shared.DocOptions{Version: pdf.V1_4, Seekable: false, Objects: 5, Bodies: []shared.BodyKind{shared.BodyBig, shared.BodyPlain}}, "table-1.4-noseek-indirect-length"})
	// every stream has a line starting with trailer / xref / startxref / %%EOF and is followed by a small object
	specs = append(specs,
		docSpec{s + 7, shared.DocOptions{Version: pdf.V1_4, Seekable: true, Objects: 12, MinStreams: 1, MaxBody: 60, Bodies: shared.MarkerBodies}, "table-1.4-marker-lines"},
		docSpec{s + 8, shared.DocOptions{Version: pdf.V1_7, XRefStream: true, Seekable: false, Objects: 12, MinStreams: 1, MaxBody: 60, Bodies: shared.MarkerBodies, Info: true}, "xrefstream-1.7-marker-lines"})
	specs = append(specs,
		docSpec{s + 9, shared.DocOptions{Version: pdf.V1_4, Seekable: false, Objects: 17, MinStreams: 14, CycleBodies: true, Bodies: bigAmb}, "table-1.4-noseek-14-indirect-lengths"})
	if ctx.Thorough() {
		specs = append(specs,
			docSpec{s + 43, shared.DocOptions{Version: pdf.V1_7, XRefStream: true, Seekable: false, Objects: 34, MinStreams: 30, CycleBodies: true, Bodies: bigAmb, Info: true}, "xrefstream-1.7-noseek-30-indirect-lengths"},
			docSpec{s + 44, shared.DocOptions{Version: pdf.V1_6, Seekable: false, Objects: 24, MinStreams: 20, CycleBodies: true, Bodies: bigAmb, Filters: []string{"ASCIIHex"}}, "table-1.6-noseek-20-indirect-lengths"})
		for k := int64(0); k < 6; k++ {
			specs = append(specs,
				docSpec{s + 10 + k, shared.DocOptions{Version: pdf.V1_6, Seekable: k%2 == 0, Objects: 16, Bodies: plainNS, Filters: shared.AllFilters, Info: k%3 == 0}, "table-1.6"},
				docSpec{s + 20 + k, shared.DocOptions{Version: pdf.V1_5, XRefStream: true, Seekable: k%2 == 1, Objects: 16, Bodies: plainNS, Filters: shared.AllFilters, Info: k%3 == 1}, "xrefstream-1.5"})
		}
		specs = append(specs,
			docSpec{s + 40, shared.DocOptions{Version: pdf.V1_7, Seekable: true, Objects: 60, MaxBody: 900, Bodies: append(plain, shared.BodyBig), Filters: []string{"Flate", "ASCII85"}, Info: true}, "table-big"},
			docSpec{s + 41, shared.DocOptions{Version: pdf.V1_7, XRefStream: true, Seekable: true, Objects: 60, MaxBody: 900, Bodies: append(plain, shared.BodyBig), Filters: []string{"Flate", "LZW"}}, "xrefstream-big"},
			docSpec{s + 42, shared.DocOptions{Version: pdf.V1_7, Seekable: false, Objects: 115, MaxBody: 3000, Bodies: append(plainNS, shared.BodyBig), Info: true}, "table-50k-noseek"})
	}
	return specs
}

// ---- the run ----

type tableRow struct {
	Kind    string `json:"kind"`
	Where   string `json:"where"`
	Cls     string `json:"cls"`
	Ctx     string `json:"ctx"`
	AsCoded string `json:"ascoded"`
	Design  string `json:"design"`
}

func loadTable(ctx *core.Ctx) (cases map[string]tableRow, rules map[string]tableRow, err error) {
	rows, _, err := core.GenCases[tableRow](ctx, core.TLCOpts{Dir: "file", Module: "Gen_SeqScan", Cfg: "Gen_SeqScan.cfg", Mode: "evaluate", Timeout: ctx.Dur(3, 5)})
	if err != nil {
		return nil, nil, err
	}
	cases, rules = map[string]tableRow{}, map[string]tableRow{}
	for _, r := range rows {
		k := r.Where + ":" + r.Cls + ":" + r.Ctx
		if r.Kind == "*" {
			rules[k] = r
		} else {
			cases[r.Kind+"/"+k] = r
		}
	}
	if len(cases) == 0 || len(rules) == 0 {
		return nil, nil, core.Infra("Gen_SeqScan produced no table")
	}
	return cases, rules, nil
}

// outcomeOfCutObject: what the real code did with the object that contains the cut.
func outcomeOfCutObject(t *truth, ob *observation, cut int64) string {
	if ob.Res == "malformed" {
		// "no PDF content found": nothing was located at all
		any := false
		for i := range t.objs {
			any = any || t.objs[i].HdrEnd <= cut
		}
		if !any {
			return "unlisted"
		}
	}
	if ob.Res != "ok" {
		return "abort"
	}
	for i := range t.objs {
		if cut > t.objs[i].Start && cut < t.objs[i].End {
			switch {
			case ob.Per[i].L == 0:
				return "unlisted"
			case ob.Per[i].B == 1:
				return "broken"
			}
			return "good"
		}
	}
	return "-"
}

type runStats struct {
	mu                   sync.Mutex
	cuts, inObject       int
	agreeCoded, disCoded int
	agreeDesign          int
	covered              map[string]bool // table cases realised by a real cut
	pairs                map[string]bool // (cutClass x kind) seen
	mrOK                 int
	disExamples          []string
}

func run(ctx *core.Ctx) error {
	ctx.Ev.Rule = "one evaluation = SequentialScan (+ FileInfo.Read of every listed object + MakeReader) on one prefix or one damaged copy of a generated file; " +
		"distinct = distinct (cut class x object kind) pairs, the cut class being the token class/context and at/in position of the crash point inside the object it splits"
	ctx.Ev.Assume("TLC evaluates SeqScan.tla faithfully; the Ref operators state property C20")
	ctx.Ev.Assume("ground truth: offsets from the sink while writing and an independent byte search for `N G obj`/`endobj`; values recorded while writing; for objects the Writer makes itself (catalog, info, xref stream) the independent tokenizer of shared/docgen_scan.go")
	ctx.Ev.Assume("documents: no object streams; stream bodies and strings free of line-initial object headers (lines starting with trailer / xref / startxref / %%EOF do occur in stream bodies); a stream whose body has a line starting with \"endstream\" is judged only where its /Length can be known (direct: from the end of the object on; indirect: from the end of the length object on) - for a shorter prefix what is there is a well-formed shorter object; where /Length can be indirect (non-seekable sink) no body ends in a bare CR (once the length object is cut off, CR + the Writer's LF cannot be told from a CR LF marker); unencrypted")

	cfg := "MC_SeqScan_q.cfg"
	if ctx.Thorough() {
		cfg = "MC_SeqScan_t.cfg"
	}
	var mcErr error
	var mcWG sync.WaitGroup
	mcWG.Add(1)
	go func() {
		defer mcWG.Done()
		_, mcErr = ctx.MustHold(core.TLCOpts{Dir: "file", Module: "MC_SeqScan", Cfg: cfg, Workers: ctx.Pick(6, 12),
			Constants: "object kinds, both tails, all damages; see " + cfg, Timeout: ctx.Dur(5, 25)})
		if mcErr == nil {
			_, mcErr = ctx.MustHold(core.TLCOpts{Dir: "file", Module: "MC_SeqScan", Cfg: "MC_SeqScan_length.cfg", Workers: 4,
				Constants: "1..4 objects of int / stream with indirect length / the same with an endstream line in the body", Timeout: ctx.Dur(5, 10)})
		}
	}()

	cases, rules, err := loadTable(ctx)
	if err != nil {
		return err
	}

	st := &runStats{covered: map[string]bool{}, pairs: map[string]bool{}}
	var recs []event
	var truths []*truth
	var specs []docSpec
	for _, sp := range docSpecs(ctx) {
		doc, err := shared.GenerateDoc(sp.Seed, sp.Opt)
		if err != nil {
			return core.Infra("generate %s: %v", sp.Name, err)
		}
		t, err := buildTruth(doc, doc.Bytes, false)
		if err != nil {
			return err
		}
		di := len(truths)
		truths = append(truths, t)
		specs = append(specs, sp)
		evs := enumerate(ctx, t, cases, rules, st)
		evs = append(evs, damages(ctx, t, st)...)
		ctx.Logf("%s (seed %d): %d bytes, %d objects, %d crash points -> %d events", sp.Name, sp.Seed, len(doc.Bytes), len(t.objs), len(doc.Bytes)+1, len(evs))
		for i := range evs {
			evs[i].D = di + 1
		}
		recs = append(recs, evs...)
	}

	// length sweep: one long stream per document on a non-seekable sink (the
	// /Length is an indirect object written after the stream), every body
	// length of a 1024-byte period, so that the stream's end falls on every
	// position relative to the read buffers of the scan; only the crash
	// points from the end of the stream object to the end of its length
	// object (where the extent has to be recovered) and the whole file
	sweepN := ctx.Pick(1030, 2060)
	for k := 0; k < sweepN; k++ {
		sp := docSpec{ctx.Seed*1000 + 500 + int64(k%7), shared.DocOptions{Version: []pdf.Version{pdf.V1_4, pdf.V1_7}[k%2], Seekable: false, Objects: 3, MinStreams: 1,
			Bodies: []shared.BodyKind{shared.BodyBig}, BigSize: 1030 + k}, fmt.Sprintf("sweep-%d", 1030+k)}
		doc, err := shared.GenerateDoc(sp.Seed, sp.Opt)
		if err != nil {
			return core.Infra("generate %s: %v", sp.Name, err)
		}
		t, err := buildTruth(doc, doc.Bytes, false)
		if err != nil {
			return err
		}
		di := len(truths)
		truths = append(truths, t)
		specs = append(specs, sp)
		evs := enumerateWindow(ctx, t, st)
		for i := range evs {
			evs[i].D = di + 1
		}
		recs = append(recs, evs...)
	}
	// mid-line header sweep: a long stream whose data has "1 0 obj 99 endobj"
	// in the middle of a line (not line-initial: inside the quantifier), at
	// every offset of a 1000-byte period, so that it falls on every position
	// relative to the scan's search windows; the whole file and one prefix
	midN := ctx.Pick(1000, 2000)
	for k := 0; k < midN; k++ {
		sp := docSpec{ctx.Seed*1000 + 600 + int64(k%5), shared.DocOptions{Version: pdf.V1_4, Seekable: k%2 == 0, Objects: 3, MinStreams: 1,
			Bodies: []shared.BodyKind{shared.BodyBig}, BigSize: 2400, MidHeaderAt: 300 + k}, fmt.Sprintf("midheader-%d", 300+k)}
		doc, err := shared.GenerateDoc(sp.Seed, sp.Opt)
		if err != nil {
			return core.Infra("generate %s: %v", sp.Name, err)
		}
		t, err := buildTruth(doc, doc.Bytes, false)
		if err != nil {
			return err
		}
		di := len(truths)
		truths = append(truths, t)
		specs = append(specs, sp)
		evs := enumerateCuts(ctx, t, st, []int{len(t.data), len(t.data) - 7})
		for i := range evs {
			evs[i].D = di + 1
		}
		recs = append(recs, evs...)
	}
	ctx.Logf("length sweep: %d documents with one stream of 1030..%d bytes, crash points between the stream and the end of its length object", sweepN, 1029+sweepN)

	if err := judgeAndReport(ctx, recs, truths, specs, rules); err != nil {
		return err
	}
	mcWG.Wait()
	if mcErr != nil {
		return mcErr
	}

	for k := range st.pairs {
		ctx.Ev.Distinct(k)
	}
	missing := []string{}
	for k := range cases {
		if !st.covered[k] {
			missing = append(missing, k)
		}
	}
	sort.Strings(missing)
	ctx.Ev.AddReplayed(st.inObject)
	ctx.Ev.Set("crash_points", st.cuts)
	ctx.Ev.Set("crash_points_inside_objects", st.inObject)
	ctx.Ev.Set("model_cases", len(cases))
	ctx.Ev.Set("model_cases_realised_by_real_cuts", len(cases)-len(missing))
	ctx.Ev.Set("model_cases_not_realised", missing)
	ctx.Ev.Set("as_coded_model_agrees", st.agreeCoded)
	ctx.Ev.Set("as_coded_model_disagrees", st.disCoded)
	ctx.Ev.Set("as_coded_model_disagreement_examples", st.disExamples)
	ctx.Ev.Set("design_outcome_observed", st.agreeDesign)
	ctx.Ev.Set("makereader_succeeded", st.mrOK)
	ctx.Ev.Exhaustive = true
	ctx.Ev.Set("exhaustive_scope", "per generated document: every prefix length 0..len and every single cross-reference damage; the documents themselves are seeded samples")
	ctx.Logf("%d crash points, %d inside objects; as-coded model agrees on %d, disagrees on %d; %d/%d model cases realised; %d (class x kind) pairs",
		st.cuts, st.inObject, st.agreeCoded, st.disCoded, len(cases)-len(missing), len(cases), len(st.pairs))
	return nil
}

// enumerate runs every prefix length and merges neighbouring crash points
// with identical observations (never across an object boundary).
func enumerate(ctx *core.Ctx, t *truth, cases, rules map[string]tableRow, st *runStats) []event {
	n := len(t.data)
	obs := make([]observation, n+1)
	var wg sync.WaitGroup
	sem := make(chan struct{}, 16)
	for c := 0; c <= n; c++ {
		wg.Add(1)
		sem <- struct{}{}
		go func(c int) {
			defer wg.Done()
			defer func() { <-sem }()
			obs[c] = observe(t, t.data[:c])
		}(c)
	}
	wg.Wait()
	ctx.Ev.Eval(n + 1)

	boundary := map[int64]bool{}
	for _, o := range t.objs {
		boundary[o.Start], boundary[o.HdrEnd], boundary[o.End] = true, true, true
	}
	var evs []event
	var lastSig, lastClass string
	st.mu.Lock()
	defer st.mu.Unlock()
	for c := 0; c <= n; c++ {
		cut := int64(c)
		ob := &obs[c]
		class, kind := cutClass(t, cut)
		st.cuts++
		if ob.MR == "ok" {
			st.mrOK++
		}
		if kind != "-" {
			st.inObject++
			st.pairs[class+"/"+kind] = true
			if _, ok := cases[kind+"/"+class]; ok {
				st.covered[kind+"/"+class] = true
			}
			got := outcomeOfCutObject(t, ob, cut)
			if r, ok := rules[class]; ok {
				if got == r.AsCoded || strings.Contains("|"+r.AsCoded+"|", "|"+got+"|") {
					st.agreeCoded++
				} else {
					st.disCoded++
					if len(st.disExamples) < 6 {
						st.disExamples = append(st.disExamples, fmt.Sprintf("%s/%s at %d: model says %s, code did %s", kind, class, cut, r.AsCoded, got))
					}
				}
				if got == r.Design {
					st.agreeDesign++
				}
			}
		}
		sig := ob.sig()
		if c > 0 && sig == lastSig && class == lastClass && !boundary[cut] {
			evs[len(evs)-1].Hi = cut
			continue
		}
		lastSig, lastClass = sig, class
		evs = append(evs, event{Lo: cut, Hi: cut, Whole: c == n, Res: ob.Res, MR: ob.MR, Per: ob.Per, Class: class, Kind: kind, Note: ob.Note, Tag: ob.Tag, Extra: ob.Extra})
	}
	if len(evs) > 2 {
		ctx.Ev.Sample(map[string]any{"kind": "observation of the real scan at one crash point (judged by Trace_SeqScan)", "file_bytes": n,
			"objects": len(t.objs), "event": evs[len(evs)/2]})
	}
	return evs
}

// enumerateWindow observes, for every stream object, the crash points from
// its end to the end of the object that follows (its indirect /Length), and
// the whole file.
func enumerateWindow(ctx *core.Ctx, t *truth, st *runStats) []event {
	n := len(t.data)
	cuts := map[int]bool{n: true}
	for _, o := range t.objs {
		if o.Kind != "stream" {
			continue
		}
		// the object that follows the stream in the file
		hi := int(o.End) + 40
		var next *truthObj
		for k := range t.objs {
			q := &t.objs[k]
			if q.Start >= o.End && (next == nil || q.Start < next.Start) {
				next = q
			}
		}
		if next != nil {
			hi = int(next.End) + 2
		}
		for c := int(o.End) - 2; c <= hi && c <= n; c++ {
			if c >= 0 {
				cuts[c] = true
			}
		}
	}
	var list []int
	for c := range cuts {
		list = append(list, c)
	}
	sort.Ints(list)
	return enumerateCuts(ctx, t, st, list)
}

// enumerateCuts observes the given crash points (one event each).
func enumerateCuts(ctx *core.Ctx, t *truth, st *runStats, list []int) []event {
	n := len(t.data)
	sort.Ints(list)
	obs := make([]observation, len(list))
	var wg sync.WaitGroup
	sem := make(chan struct{}, 16)
	for k, c := range list {
		wg.Add(1)
		sem <- struct{}{}
		go func(k, c int) {
			defer wg.Done()
			defer func() { <-sem }()
			obs[k] = observe(t, t.data[:c])
		}(k, c)
	}
	wg.Wait()
	ctx.Ev.Eval(len(list))
	var evs []event
	st.mu.Lock()
	defer st.mu.Unlock()
	for k, c := range list {
		cut := int64(c)
		ob := &obs[k]
		class, kind := cutClass(t, cut)
		st.cuts++
		if kind != "-" {
			st.inObject++
		}
		evs = append(evs, event{Lo: cut, Hi: cut, Whole: c == n, Res: ob.Res, MR: ob.MR, Per: ob.Per, Class: class, Kind: kind, Note: ob.Note, Tag: ob.Tag, Extra: ob.Extra})
	}
	return evs
}

// damageCases returns damaged copies of the file: name -> bytes.
func damageCases(t *truth) map[string][]byte {
	out := map[string][]byte{}
	fill := func(name string, lo, hi int64, pat string) {
		if lo < 0 || hi > int64(len(t.data)) || lo >= hi {
			return
		}
		d := append([]byte{}, t.data...)
		for i := lo; i < hi; i++ {
			d[i] = pat[int(i-lo)%len(pat)]
		}
		out[name+"/"+fmt.Sprintf("%q", pat)] = d
	}
	var xref, trailer, sx, eof *shared.Marker
	for i := range t.lay.Markers {
		m := &t.lay.Markers[i]
		switch m.Word {
		case "xref":
			xref = m
		case "trailer":
			trailer = m
		case "startxref":
			sx = m
		case "%%EOF":
			eof = m
		}
	}
	pats := []string{"0", " ", "x", "9 z", "\x00\xff"}
	for _, p := range pats {
		if xref != nil && trailer != nil {
			fill("xref-table-entries", xref.End+1, trailer.Start-1, p)
			fill("xref-table-with-keyword", xref.Start, trailer.Start-1, p)
		}
		if sx != nil && eof != nil {
			fill("startxref-number", sx.End+1, eof.Start-1, p)
			fill("startxref-keyword-and-number", sx.Start, eof.Start-1, p)
		}
		if xref == nil && len(t.objs) > 0 {
			// cross-reference stream: the last object; overwrite its data
			last := t.objs[len(t.objs)-1]
			for _, tk := range last.Raw.Tokens {
				if tk.Class == "data" {
					fill("xref-stream-data", tk.Start, tk.End, p)
				}
			}
		}
	}
	return out
}

func damages(ctx *core.Ctx, t *truth, st *runStats) []event {
	var evs []event
	dc := damageCases(t)
	for _, name := range core.SortedKeys(dc) {
		d := dc[name]
		// ground truth of the damaged file: same objects; the overwritten
		// stream data is whatever is there now
		td, err := buildTruth(t.doc, d, true)
		if err != nil || len(td.objs) != len(t.objs) {
			continue // the pattern created or destroyed a marker: not a single-section damage any more
		}
		ob := observe(td, d)
		ctx.Ev.Eval(1)
		st.mu.Lock()
		st.cuts++
		st.pairs["damage:"+strings.SplitN(name, "/", 2)[0]+"/-"] = true
		if ob.MR == "ok" {
			st.mrOK++
		}
		st.mu.Unlock()
		n := int64(len(d))
		evs = append(evs, event{Lo: n, Hi: n, Whole: true, Res: ob.Res, MR: ob.MR, Per: ob.Per, Class: "damage:" + name, Kind: "-", Damage: name, Note: ob.Note, Tag: ob.Tag, Extra: ob.Extra})
	}
	return evs
}

func judge(ctx *core.Ctx, recs []event, truths []*truth) ([]int, error) {
	docs := make([]docRec, len(truths))
	for i, t := range truths {
		docs[i] = docRec{objRecs(t)}
	}
	dj, err := core.NDJSON(docs)
	if err != nil {
		return nil, core.Infra("%v", err)
	}
	return core.JudgeCases(ctx, core.TLCOpts{Dir: "file", Module: "Trace_SeqScan", Cfg: "Trace_SeqScan.cfg", Timeout: ctx.Dur(10, 30),
		Files: map[string][]byte{"docs.ndjson": dj}, Env: map[string]string{"DOCS": "docs.ndjson"}}, recs, 500, 12)
}

func judgeAndReport(ctx *core.Ctx, recs []event, truths []*truth, specs []docSpec, rules map[string]tableRow) error {
	bad, err := judge(ctx, recs, truths)
	if err != nil {
		return err
	}
	type agg struct {
		n     int
		first event
	}
	byKey := map[string]*agg{}
	for _, b := range bad {
		e := recs[b]
		k := violationKey(e, rules)
		a := byKey[k]
		if a == nil {
			a = &agg{first: e}
			byKey[k] = a
		}
		a.n += int(e.Hi-e.Lo) + 1
	}
	for _, k := range core.SortedKeys(byKey) {
		a := byKey[k]
		sp := specs[a.first.D-1]
		ctx.Violation(k, describe(a.first, truths[a.first.D-1])+fmt.Sprintf(" [%d crash points/damages in this run share the key; document %s seed %d]", a.n, sp.Name, sp.Seed),
			map[string]any{"spec": sp, "cut": a.first.Lo, "damage": a.first.Damage})
	}
	return nil
}

// violationKey: stable and specific.  The class the as-coded model predicts
// (a candidate ending in a bare io.EOF at the top level of the indirect
// object aborts the scan, F8) gets one key; everything else is keyed by what
// was observed.
func violationKey(e event, rules map[string]tableRow) string {
	what := "complete-object-not-recovered"
	switch {
	case e.Res == "panic":
		what = "panic"
	case e.MR == "baddata" || e.MR == "panic":
		what = "MakeReader-" + e.MR
	case e.Whole && e.MR != "ok" && e.Res == "ok":
		what = "MakeReader-fails-on-whole-file"
	case e.Res != "ok":
		if r, ok := rules[e.Class]; ok && strings.HasPrefix(r.AsCoded, "abort") && e.Res == "eof" {
			return "checkObjects-aborts/bare-EOF/cut-at-top-level-of-candidate"
		}
		what = "scan-fails/" + e.Res
	default:
		for _, p := range e.Per {
			if p.L == 1 && p.B == 0 && (p.R == "x" || p.R == "e") {
				what = "read-differs/" + p.R
			}
		}
		if e.Tag != "" {
			// a misread is a matter of the object read, not of where the file ends
			return what + "/" + e.Tag
		}
	}
	if e.Damage != "" {
		return what + "/damage=" + strings.SplitN(e.Damage, "/", 2)[0]
	}
	return what + "/" + e.Kind + "/" + e.Class
}

func describe(e event, t *truth) string {
	complete := 0
	for _, o := range t.objs {
		if o.End <= e.Lo {
			complete++
		}
	}
	where := fmt.Sprintf("file truncated at byte %d of %d (%s", e.Lo, len(t.data), e.Class)
	if e.Kind != "-" {
		where += " of a " + e.Kind + " object"
	}
	where += ")"
	if e.Damage != "" {
		where = "file with damage " + e.Damage
	}
	s := fmt.Sprintf("%s, %d complete objects present: SequentialScan -> %s", where, complete, e.Res)
	if e.Res == "ok" {
		var l, b, bad int
		for i, p := range e.Per {
			if p.L == 1 {
				l++
			}
			if p.B == 1 {
				b++
			}
			if t.objs[i].End <= e.Lo && (p.L == 0 || p.B == 1 || p.R != "v") {
				bad++
			}
		}
		s += fmt.Sprintf(" (%d listed, %d broken, %d complete objects missing/broken/misread)", l, b, bad)
	}
	if e.Note != "" {
		s += "; " + e.Note
	}
	return s
}

func replay(ctx *core.Ctx, raw json.RawMessage) error {
	var c struct {
		Spec   docSpec `json:"spec"`
		Cut    int64   `json:"cut"`
		Damage string  `json:"damage"`
	}
	if err := json.Unmarshal(raw, &c); err != nil {
		return core.Infra("replay: %v", err)
	}
	_, rules, err := loadTable(ctx)
	if err != nil {
		return err
	}
	doc, err := shared.GenerateDoc(c.Spec.Seed, c.Spec.Opt)
	if err != nil {
		return core.Infra("replay: %v", err)
	}
	t, err := buildTruth(doc, doc.Bytes, false)
	if err != nil {
		return err
	}
	var e event
	if c.Damage != "" {
		d, ok := damageCases(t)[c.Damage]
		if !ok {
			return core.Infra("replay: unknown damage %q", c.Damage)
		}
		td, err := buildTruth(doc, d, true)
		if err != nil {
			return err
		}
		ob := observe(td, d)
		e = event{Lo: int64(len(d)), Hi: int64(len(d)), Whole: true, Res: ob.Res, MR: ob.MR, Per: ob.Per, Class: "damage:" + c.Damage, Kind: "-", Damage: c.Damage, Note: ob.Note, Tag: ob.Tag}
	} else {
		if c.Cut < 0 || c.Cut > int64(len(t.data)) {
			return core.Infra("replay: cut %d outside the regenerated file", c.Cut)
		}
		ob := observe(t, t.data[:c.Cut])
		class, kind := cutClass(t, c.Cut)
		e = event{Lo: c.Cut, Hi: c.Cut, Whole: c.Cut == int64(len(t.data)), Res: ob.Res, MR: ob.MR, Per: ob.Per, Class: class, Kind: kind, Note: ob.Note, Tag: ob.Tag}
	}
	fmt.Printf("  %s\n", describe(e, t))
	e.D = 1
	return judgeAndReport(ctx, []event{e}, []*truth{t}, []docSpec{c.Spec}, rules)
}
