package c20

import (
	"seehuhn.de/go/pdf"

	"verif/harness/core"
	"verif/harness/drive/shared"
)

// selfTest: (i) corrupted observations must be rejected, intact ones accepted;
// (ii) the model of checkObjects as coded must violate ScanReturns; (iii) a
// wrong table expectation / a wrong ground truth must be noticed.
func selfTest(ctx *core.Ctx) error {
	doc, err := shared.GenerateDoc(7, shared.DocOptions{Version: pdf.V1_4, Seekable: true, Objects: 6})
	if err != nil {
		return core.Infra("self-test: %v", err)
	}
	t, err := buildTruth(doc, doc.Bytes, false)
	if err != nil {
		return err
	}
	// an intact observation: the complete file
	mk := func(cut int64) event {
		ob := observe(t, t.data[:cut])
		return event{Lo: cut, Hi: cut, Whole: cut == int64(len(t.data)), Res: ob.Res, MR: ob.MR, Per: append([]perObj{}, ob.Per...)}
	}
	full := int64(len(t.data))
	good := mk(full)
	if good.Res != "ok" {
		return core.Infra("self-test: the intact file does not scan: %s", good.Res)
	}
	// a cut inside the last object's dictionary: the scan succeeds, object broken
	last := t.objs[len(t.objs)-1]
	mid := mk(last.End - 8)
	notListed := mk(full)
	notListed.Per[0].L = 0
	flagged := mk(full)
	flagged.Per[1].B = 1
	misread := mk(full)
	misread.Per[2].R = "x"
	failed := mk(full)
	failed.Res = "eof"
	cutGood := mk(last.End - 8)
	cutGood.Per[len(t.objs)-1].B = 0 // a cut object reported as intact
	badReader := mk(full)
	badReader.MR = "baddata"
	recs := []event{good, mid, notListed, flagged, misread, failed, cutGood, badReader, good}
	for i := range recs {
		recs[i].D = 1
	}
	bad, err := judge(ctx, recs, []*truth{t})
	if err != nil {
		return err
	}
	want := []int{2, 3, 4, 5, 6, 7}
	if len(bad) != len(want) {
		return core.Infra("self-test: corrupted observations not singled out: rejected %v, want %v (mid event: %+v)", bad, want, mid)
	}
	for i := range want {
		if bad[i] != want[i] {
			return core.Infra("self-test: corrupted observations not singled out: rejected %v, want %v", bad, want)
		}
	}
	ctx.Logf("self-test (i): 6 corrupted observations rejected, 3 intact ones accepted")

	// (ii) negative control of the design model
	res, err := ctx.TLC(core.TLCOpts{Dir: "file", Module: "MC_SeqScan", Cfg: "MC_SeqScan_ascoded.cfg", Workers: 6, Mode: "negative-control"})
	if err != nil {
		return err
	}
	if res.Invariant != "ScanReturns" {
		return core.Infra("self-test: the model of checkObjects as coded should violate ScanReturns, got %q", res.Invariant)
	}
	ctx.Logf("self-test (ii): checkObjects as coded (bare io.EOF aborts) violates ScanReturns in the model")

	res, err = ctx.TLC(core.TLCOpts{Dir: "file", Module: "MC_SeqScan", Cfg: "MC_SeqScan_trim.cfg", Workers: 6, Mode: "negative-control"})
	if err != nil {
		return err
	}
	if res.Invariant != "PropertyHolds" {
		return core.Infra("self-test: the model of length recovery as coded should violate PropertyHolds, got %q", res.Invariant)
	}
	ctx.Logf("self-test (ii): length recovery as coded (EOL trimmed twice) violates PropertyHolds in the model")

	res, err = ctx.TLC(core.TLCOpts{Dir: "file", Module: "MC_SeqScan", Cfg: "MC_SeqScan_hoisted.cfg", Workers: 6, Mode: "negative-control"})
	if err != nil {
		return err
	}
	if res.Invariant != "PropertyHolds" {
		return core.Infra("self-test: the model of locateObjects with `used = true` hoisted should violate PropertyHolds, got %q", res.Invariant)
	}
	ctx.Logf("self-test (ii): locateObjects with `used = true` hoisted before the switch loses the object after a marker-like body line in the model")

	res, err = ctx.TLC(core.TLCOpts{Dir: "file", Module: "MC_SeqScan", Cfg: "MC_SeqScan_sharedseen.cfg", Workers: 6, Mode: "negative-control"})
	if err != nil {
		return err
	}
	if res.Invariant != "PropertyHolds" {
		return core.Infra("self-test: the model of checkObjects with one makeSafeGetInt for the whole scan should violate PropertyHolds, got %q", res.Invariant)
	}
	ctx.Logf("self-test (ii): a makeSafeGetInt shared by the whole scan cuts a complete stream with a resolvable /Length at the endstream line of its body in the model")

	// (iii) table and ground truth
	cases, rules, err := loadTable(ctx)
	if err != nil {
		return err
	}
	if r := rules["at:ws:top"]; r.AsCoded != "abort" || r.Design != "broken" {
		return core.Infra("self-test: table line at:ws:top is %+v", r)
	}
	if r := cases["dict/in:name:dict"]; r.AsCoded != "broken" {
		return core.Infra("self-test: table line dict/in:name:dict is %+v", r)
	}
	wrong := *doc
	wrong.Objects = append([]shared.DocObject{}, doc.Objects...)
	wrong.Objects[2].Start += 3
	if _, err := buildTruth(&wrong, doc.Bytes, false); err == nil {
		return core.Infra("self-test: a wrong recorded offset was not noticed by the independent byte search")
	}
	ctx.Logf("self-test (iii): table lines as expected; wrong recorded offset noticed")
	return nil
}
