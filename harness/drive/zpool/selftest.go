package zpool

import (
	"seehuhn.de/go/pdf"

	"verif/harness/core"
)

func pdfFlate() pdf.FilterFlate { return pdf.FilterFlate{} }

// SelfTest: (i) a corrupted replay record must be rejected, intact ones
// accepted; (ii) the as-coded configurations of the model must fail
// NoDuplicate / OwnBytes; (iii) the independent check of a sink must notice a
// damaged zlib stream.
func SelfTest(ctx *core.Ctx) error {
	sfs, err := surfaces(pdfFlate(), "")
	if err != nil {
		return core.Infra("zpool self-test: %v", err)
	}
	b := &behaviour{N: 2, Shape: []shape{{1, 1}, {2, 1}}, Ops: []op{{1, "open", "g1"}, {2, "open", "g2"}, {2, "io", "g2"}, {1, "io", "g1"},
		{1, "close", "g1"}, {2, "io", "g2"}, {2, "close", "g2"}}}
	flushPools()
	good := replayOne(sfs[0], b, false) // pdf.DecodeStream
	good2 := replayOne(sfs[3], b, true) // Filter.Encode, two goroutines
	cp := func(r runRec) runRec {
		r.Events = append([]event{}, r.Events...)
		r.Final = append([]string{}, r.Final...)
		return r
	}
	other := cp(good)
	other.Events[3].Res = "other"
	closeErr := cp(good)
	closeErr.Events[4].Res = "err"
	sink := cp(good2)
	sink.Final[1] = "other"
	bad, err := judge(ctx, []runRec{good, other, good2, closeErr, sink})
	if err != nil {
		return err
	}
	if len(bad) != 3 || bad[0] != 1 || bad[1] != 3 || bad[2] != 4 {
		return core.Infra("zpool self-test: corrupted records not singled out: %v (good: %+v / %+v)", bad, good, good2)
	}
	ctx.Logf("zpool self-test (i): 3 corrupted replay records rejected, 2 intact ones accepted")
	for _, nc := range []struct{ cfg, inv string }{
		{"MC_ZlibPool_dec_ascoded.cfg", "NoDuplicate"}, {"MC_ZlibPool_dec_ascoded_data.cfg", "OwnBytes"}, {"MC_ZlibPool_enc_ascoded_data.cfg", "OwnBytes"}} {
		res, err := ctx.TLC(core.TLCOpts{Dir: "conc", Module: "MC_ZlibPool", Cfg: nc.cfg, Workers: 4, Mode: "negative-control"})
		if err != nil {
			return err
		}
		if res.Invariant != nc.inv {
			return core.Infra("zpool self-test: %s should violate %s, got %q", nc.cfg, nc.inv, res.Invariant)
		}
	}
	ctx.Logf("zpool self-test (ii): a Close that puts the object every time violates NoDuplicate and OwnBytes (decoding and encoding) in the model")
	raw := append([]byte{}, flate[1]...)
	if r, _ := checkSink(raw, 1, nChunks); r != "own" {
		return core.Infra("zpool self-test: intact sink rejected")
	}
	if r, _ := checkSink(append(raw, 1, 2, 3, 4), 1, nChunks); r == "own" {
		return core.Infra("zpool self-test: bytes after the zlib stream not noticed")
	}
	if r, _ := checkSink(raw[:len(raw)-9], 1, nChunks); r == "own" {
		return core.Infra("zpool self-test: truncated zlib stream not noticed")
	}
	ctx.Logf("zpool self-test (iii): damaged sinks are noticed by the independent decoder")
	return nil
}
