// Package zpool binds spec/conc/ZlibPool.tla to the package-level pools of
// zlib readers and writers in go-pdf's filter.go (state shared by every Flate
// stream of the process).  It is run from C18's check.
//
//	design   MC_ZlibPool: pool as a multiset, Get (pop any or new) / Reset / Io /
//	         Close once or twice, 3 streams, 2 goroutines; invariants
//	         NoDuplicate, PooledIsFree, Exclusive, OwnBytes
//	P-A      Gen_ZlibPool: every interleaving of the streams' operation lists,
//	         replayed on the real API - pdf.DecodeStream, Cursor.StreamReader,
//	         Filter.Decode and Filter.Encode used directly, Writer.OpenStream -
//	         sequentially and by two goroutines under the behaviour's order
//	P-B      every replay is recorded (per operation: own bytes / other bytes /
//	         error; per stream: what it delivered or what its sink received,
//	         decoded independently) and judged by Trace_ZlibPool
//
// The pools themselves are not observable from outside the package; what is
// judged is their consequence: every stream returns / produces its own bytes.
package zpool

import (
	"bytes"
	"compress/zlib"
	"encoding/json"
	"fmt"
	"io"
	"runtime"
	"strings"
	"sync"

	"seehuhn.de/go/membudget"
	"seehuhn.de/go/pdf"

	"verif/harness/core"
	"verif/harness/drive/shared"
	"verif/harness/indep/obj"
)

const (
	nStreams = 3
	chunkLen = 3000
	nChunks  = 2
)

type shape struct {
	Io     int `json:"io"`
	Closes int `json:"closes"`
}

type op struct {
	S  int    `json:"s"`
	Op string `json:"op"`
	P  string `json:"p"`
}

type behaviour struct {
	N     int     `json:"n"`
	Shape []shape `json:"shape"`
	Ops   []op    `json:"ops"`
}

type event struct {
	S   int    `json:"s"`
	Op  string `json:"op"`
	Res string `json:"res"`
	msg string
}

type runRec struct {
	Surface string   `json:"surface"`
	Mode    string   `json:"mode"` // sequential, two-goroutines
	Events  []event  `json:"events"`
	Final   []string `json:"final"`
	Count   int      `json:"count"`
	beh     *behaviour
	note    string
}

// plain[s] is the data of stream s (1-based), flate[s] its zlib encoding made
// with compress/zlib (not with go-pdf).
var plain, flate [nStreams + 1][]byte

func init() {
	for s := 1; s <= nStreams; s++ {
		var b bytes.Buffer
		for i := 0; b.Len() < chunkLen*nChunks; i++ {
			fmt.Fprintf(&b, "stream %d line %d: %x\n", s, i, (i*2654435761+s*40503)&0xffffff)
		}
		plain[s] = b.Bytes()[:chunkLen*nChunks]
		var z bytes.Buffer
		zw := zlib.NewWriter(&z)
		zw.Write(plain[s])
		zw.Close()
		flate[s] = z.Bytes()
	}
}

// flushPools empties sync.Pool instances (two collections: primary and victim cache).
func flushPools() {
	runtime.GC()
	runtime.GC()
}

// a surface is one way of getting Flate streams through the public API
type surface struct {
	name    string
	encode  bool
	prepare func() (*session, error)
}

// session holds what one replay needs: handles per stream
type session struct {
	open  func(s int) error
	io    func(s int, k int) (res, msg string) // k: number of io calls made before on s
	close func(s int) error
	final func(s int, nio int) (string, string) // after all operations
}

type nopWC struct{ *bytes.Buffer }

func (nopWC) Close() error { return nil }

func readChunk(r io.Reader, s, k int) (string, string) {
	if r == nil {
		return "err", "stream not open"
	}
	buf := make([]byte, chunkLen)
	n, err := io.ReadFull(r, buf)
	want := plain[s][min(k*chunkLen, len(plain[s])):]
	switch {
	case n == 0 && (err == io.EOF) && len(want) == 0:
		return "eof", ""
	case err != nil && err != io.EOF && err != io.ErrUnexpectedEOF:
		return "err", err.Error()
	case n == chunkLen && bytes.Equal(buf, want[:chunkLen]):
		return "own", ""
	}
	for t := 1; t <= nStreams; t++ {
		if t != s && n > 0 && bytes.Contains(plain[t], buf[:n]) {
			return "other", fmt.Sprintf("stream %d delivered %d bytes of stream %d", s, n, t)
		}
	}
	return "other", fmt.Sprintf("stream %d delivered %d bytes that are not its next bytes (err=%v)", s, n, err)
}

// decodeSession: streams are readers
func decodeSession(mk func(s int) (io.ReadCloser, error)) *session {
	h := make([]io.ReadCloser, nStreams+1)
	ok := make([]bool, nStreams+1)
	for i := range ok {
		ok[i] = true
	}
	return &session{
		open: func(s int) error {
			r, err := mk(s)
			h[s] = r
			return err
		},
		io: func(s, k int) (string, string) {
			res, msg := readChunk(h[s], s, k)
			if res != "own" && res != "eof" {
				ok[s] = false
			}
			return res, msg
		},
		close: func(s int) error { return h[s].Close() },
		final: func(s, nio int) (string, string) {
			if ok[s] {
				return "own", ""
			}
			return "other", "the stream delivered bytes that are not its own"
		},
	}
}

// checkSink decodes what a sink received with compress/zlib.
func checkSink(raw []byte, s, nio int) (string, string) {
	want := plain[s][:nio*chunkLen]
	br := bytes.NewReader(raw)
	zr, err := zlib.NewReader(br)
	if err != nil {
		return "other", fmt.Sprintf("sink of stream %d (%d bytes) is no zlib stream: %v", s, len(raw), err)
	}
	got, err := io.ReadAll(zr)
	if err != nil {
		return "other", fmt.Sprintf("sink of stream %d does not decode: %v (%d of %d bytes)", s, err, len(got), len(want))
	}
	if !bytes.Equal(got, want) {
		return "other", fmt.Sprintf("sink of stream %d decodes to %d bytes, %d were written", s, len(got), len(want))
	}
	if br.Len() != 0 {
		return "other", fmt.Sprintf("sink of stream %d has %d bytes after the end of its zlib stream", s, br.Len())
	}
	return "own", ""
}

func surfaces(flt pdf.FilterFlate, tag string) ([]surface, error) {
	// a real file with the three streams, for DecodeStream / Cursor.StreamReader
	sink := &shared.MemSink{}
	w, err := pdf.NewWriter(sink, pdf.V1_7, nil)
	if err != nil {
		return nil, err
	}
	pages := w.Alloc()
	if err := w.Put(pages, pdf.Dict{"Type": pdf.Name("Pages"), "Kids": pdf.Array{}, "Count": pdf.Integer(0)}); err != nil {
		return nil, err
	}
	refs := make([]pdf.Reference, nStreams+1)
	for s := 1; s <= nStreams; s++ {
		refs[s] = w.Alloc()
		ws, err := w.OpenStream(refs[s], pdf.Dict{"S": pdf.Integer(s)}, flt)
		if err != nil {
			return nil, err
		}
		if _, err := ws.Write(plain[s]); err != nil {
			return nil, err
		}
		if err := ws.Close(); err != nil {
			return nil, err
		}
	}
	w.GetMeta().Catalog.Pages = pages
	if err := w.Close(); err != nil {
		return nil, err
	}
	file := sink.Bytes()
	openFile := func() (*pdf.Reader, []*pdf.Stream, error) {
		r, err := pdf.NewReader(bytes.NewReader(file), int64(len(file)), nil)
		if err != nil {
			return nil, nil, err
		}
		stms := make([]*pdf.Stream, nStreams+1)
		for s := 1; s <= nStreams; s++ {
			v, err := r.Get(refs[s], true)
			if err != nil {
				return nil, nil, err
			}
			stm, ok := v.(*pdf.Stream)
			if !ok {
				return nil, nil, fmt.Errorf("object %v is no stream", refs[s])
			}
			stms[s] = stm
		}
		return r, stms, nil
	}
	// the encodings used by Filter.Decode directly: made by compress/zlib when
	// there is no predictor, else taken from go-pdf's own (fault-free) encoder
	encoded := flate
	if flt.Predictor != 0 {
		for s := 1; s <= nStreams; s++ {
			var b bytes.Buffer
			e, err := flt.Encode(pdf.V1_7, nopWC{&b})
			if err != nil {
				return nil, err
			}
			e.Write(plain[s])
			if err := e.Close(); err != nil {
				return nil, err
			}
			encoded[s] = b.Bytes()
		}
		flushPools()
	}
	return []surface{
		{"pdf.DecodeStream" + tag, false, func() (*session, error) {
			r, stms, err := openFile()
			if err != nil {
				return nil, err
			}
			return decodeSession(func(s int) (io.ReadCloser, error) { return pdf.DecodeStream(r, nil, stms[s]) }), nil
		}},
		{"Cursor.StreamReader" + tag, false, func() (*session, error) {
			r, _, err := openFile()
			if err != nil {
				return nil, err
			}
			return decodeSession(func(s int) (io.ReadCloser, error) { return pdf.NewCursor(r).StreamReader(refs[s]) }), nil
		}},
		{"Filter.Decode" + tag, false, func() (*session, error) {
			return decodeSession(func(s int) (io.ReadCloser, error) {
				return flt.Decode(pdf.V1_7, bytes.NewReader(encoded[s]), membudget.New(1<<24))
			}), nil
		}},
		{"Filter.Encode" + tag, true, func() (*session, error) {
			if flt.Predictor != 0 {
				return nil, nil // the output of the predictor is not checked independently
			}
			sinks := make([]*bytes.Buffer, nStreams+1)
			h := make([]io.WriteCloser, nStreams+1)
			return &session{
				open: func(s int) error {
					sinks[s] = &bytes.Buffer{}
					e, err := flt.Encode(pdf.V1_7, nopWC{sinks[s]})
					h[s] = e
					return err
				},
				io: func(s, k int) (string, string) {
					n, err := h[s].Write(plain[s][k*chunkLen : (k+1)*chunkLen])
					if err != nil || n != chunkLen {
						return "err", fmt.Sprintf("Write: %d, %v", n, err)
					}
					return "own", ""
				},
				close: func(s int) error { return h[s].Close() },
				final: func(s, nio int) (string, string) { return checkSink(sinks[s].Bytes(), s, nio) },
			}, nil
		}},
		{"Writer.OpenStream" + tag, true, func() (*session, error) {
			if flt.Predictor != 0 {
				return nil, nil
			}
			ws := make([]*pdf.Writer, nStreams+1)
			sk := make([]*shared.MemSink, nStreams+1)
			h := make([]io.WriteCloser, nStreams+1)
			return &session{
				open: func(s int) error {
					sk[s] = &shared.MemSink{}
					w, err := pdf.NewWriter(sk[s], pdf.V1_7, nil)
					if err != nil {
						return err
					}
					ws[s] = w
					pg := w.Alloc()
					if err := w.Put(pg, pdf.Dict{"Type": pdf.Name("Pages"), "Kids": pdf.Array{}, "Count": pdf.Integer(0)}); err != nil {
						return err
					}
					w.GetMeta().Catalog.Pages = pg
					e, err := w.OpenStream(w.Alloc(), pdf.Dict{"S": pdf.Integer(s)}, flt)
					h[s] = e
					return err
				},
				io: func(s, k int) (string, string) {
					n, err := h[s].Write(plain[s][k*chunkLen : (k+1)*chunkLen])
					if err != nil || n != chunkLen {
						return "err", fmt.Sprintf("Write: %d, %v", n, err)
					}
					return "own", ""
				},
				close: func(s int) error { return h[s].Close() },
				final: func(s, nio int) (string, string) {
					if err := ws[s].Close(); err != nil {
						return "other", "Writer.Close after the stream was closed: " + err.Error()
					}
					lay, err := shared.ScanLayout(sk[s].Bytes())
					if err != nil {
						return "other", "the file written is damaged: " + err.Error()
					}
					for _, o := range lay.Objects {
						if stm, ok := o.Value.(*obj.Stream); ok && obj.Equal(stm.Dict["S"], obj.Int(s)) {
							return checkSink(stm.Raw, s, nio)
						}
					}
					return "other", "the stream is not in the file"
				},
			}, nil
		}},
	}, nil
}

// replayOne executes one behaviour on one surface.
func replayOne(sf surface, b *behaviour, concurrent bool) runRec {
	return replayOneAs(sf, b, concurrent, 0)
}

// replayOneAs: with as > 0 the behaviour's stream 1 carries the data of stream `as`.
func replayOneAs(sf surface, b *behaviour, concurrent bool, as int) (rec runRec) {
	id := func(s int) int {
		if as > 0 {
			return as
		}
		return s
	}
	rec = runRec{Surface: sf.name, Mode: "sequential", Count: 1, beh: b, Events: []event{}, Final: []string{}}
	if concurrent {
		rec.Mode = "two-goroutines"
	}
	ses, err := sf.prepare()
	if err != nil {
		rec.note = "prepare: " + err.Error()
		rec.Final = []string{"setup-failed"}
		return rec
	}
	if ses == nil {
		rec.Surface = ""
		return rec
	}
	// two workers; an operation of goroutine p runs on worker p, one at a time
	// and in the behaviour's order (cooperative schedule)
	var work [2]chan func()
	done := make(chan struct{})
	if concurrent {
		for i := range work {
			work[i] = make(chan func())
			go func(c chan func()) {
				for f := range c {
					f()
					done <- struct{}{}
				}
			}(work[i])
		}
		defer func() {
			close(work[0])
			close(work[1])
		}()
	}
	exec := func(p string, f func()) {
		if !concurrent {
			f()
			return
		}
		i := 0
		if p == "g2" {
			i = 1
		}
		work[i] <- f
		<-done
	}
	nio := make([]int, b.N+1)
	opened := make([]bool, b.N+1)
	for _, o := range b.Ops {
		ev := event{S: o.S, Op: o.Op}
		exec(o.P, func() {
			defer func() {
				if r := recover(); r != nil {
					ev.Res, ev.msg = "panic", fmt.Sprint(r)
				}
			}()
			switch o.Op {
			case "open":
				if err := ses.open(id(o.S)); err != nil {
					ev.Res, ev.msg = "err", err.Error()
				} else {
					ev.Res = "ok"
					opened[o.S] = true
				}
			case "io":
				if !opened[o.S] {
					ev.Res, ev.msg = "err", "not open"
					return
				}
				ev.Res, ev.msg = ses.io(id(o.S), nio[o.S])
				nio[o.S]++
			case "close":
				if !opened[o.S] {
					ev.Res, ev.msg = "err", "not open"
					return
				}
				if err := ses.close(id(o.S)); err != nil {
					ev.Res, ev.msg = "err", err.Error()
				} else {
					ev.Res = "ok"
				}
			}
		})
		rec.Events = append(rec.Events, ev)
	}
	for s := 1; s <= b.N; s++ {
		f, msg := "other", "never opened"
		if opened[s] {
			func() {
				defer func() {
					if r := recover(); r != nil {
						f, msg = "panic", fmt.Sprint(r)
					}
				}()
				f, msg = ses.final(id(s), nio[s])
			}()
		}
		rec.Final = append(rec.Final, f)
		if f != "own" && rec.note == "" {
			rec.note = msg
		}
	}
	for _, e := range rec.Events {
		if e.msg != "" && rec.note == "" {
			rec.note = e.msg
		}
	}
	return rec
}

func doubleClose(b *behaviour) bool {
	for _, s := range b.Shape {
		if s.Closes > 1 {
			return true
		}
	}
	return false
}

func (r *runRec) sig() string {
	var sb strings.Builder
	sb.WriteString(r.Surface + "|" + r.Mode + "|")
	for _, e := range r.Events {
		fmt.Fprintf(&sb, "%d%s%s,", e.S, e.Op, e.Res)
	}
	sb.WriteString(strings.Join(r.Final, ","))
	return sb.String()
}

func judge(ctx *core.Ctx, recs []runRec) ([]int, error) {
	return core.JudgeCases(ctx, core.TLCOpts{Dir: "conc", Module: "Trace_ZlibPool", Cfg: "Trace_ZlibPool.cfg", Timeout: ctx.Dur(10, 30), XssMB: 512}, recs, 3000, 8)
}

func symptom(r *runRec) string {
	closed := map[int]int{}
	for _, e := range r.Events {
		switch {
		case e.Res == "panic":
			return "panic"
		case e.Op == "open" && e.Res != "ok":
			return "open-fails"
		case e.Op == "io" && e.Res == "other":
			return "stream-delivers-bytes-that-are-not-its-own"
		case e.Op == "io" && e.Res == "err":
			return "io-error"
		case e.Op == "close" && e.Res != "ok" && closed[e.S] == 0:
			return "first-close-fails"
		}
		if e.Op == "close" {
			closed[e.S]++
		}
	}
	return "stream-output-is-not-what-was-written"
}

func key(r *runRec) string {
	dc := "no"
	if doubleClose(r.beh) {
		dc = "yes"
	}
	return fmt.Sprintf("zlibpool/%s/%s/a-stream-is-closed-twice=%s", r.Surface, symptom(r), dc)
}

func report(ctx *core.Ctx, recs []runRec, bad []int, alone map[string]*runRec) {
	type agg struct {
		n     int
		first *runRec
	}
	byKey := map[string]*agg{}
	for _, b := range bad {
		r := &recs[b]
		k := key(r)
		a := byKey[k]
		if a == nil {
			a = &agg{first: r}
			byKey[k] = a
		}
		a.n += r.Count
		if len(r.beh.Ops) < len(a.first.beh.Ops) {
			a.first = r
		}
	}
	notes := map[string]any{}
	for _, k := range core.SortedKeys(byKey) {
		a := byKey[k]
		how := " (on pools left behind by earlier replays of the same group; not reproduced on empty pools)"
		if x := alone[k]; x != nil {
			a.first, how = x, " (reproduced on empty pools)"
		} else if !doubleClose(a.first.beh) {
			how = ""
		}
		var ops []string
		for i, e := range a.first.Events {
			ops = append(ops, fmt.Sprintf("%s(%d)@%s=%s", e.Op, e.S, a.first.beh.Ops[i].P, e.Res))
		}
		what := fmt.Sprintf("package-level zlib pools: %s, %s replay of the behaviour %s: streams end %v; %s [%d replays share the key]",
			a.first.Surface, a.first.Mode, strings.Join(ops, " "), a.first.Final, a.first.note+how, a.n)
		if doubleClose(a.first.beh) {
			// needs a caller that closes a stream twice: outside C18's statement,
			// reported as a note of the extension, no influence on the verdict
			fmt.Printf("NOTE extension=zlib-pool key=%s %s\n", k, what)
			notes[k] = map[string]any{"replays": a.n, "example": what}
			continue
		}
		ctx.Violation(k, what, map[string]any{"zpool": true, "surface": a.first.Surface, "mode": a.first.Mode, "behaviour": a.first.beh})
	}
	ctx.Ev.Set("extension_zlib_pool", map[string]any{
		"rule":  "interference between streams that needs a caller closing a stream twice is noted, not counted as a violation of C18",
		"notes": notes,
	})
}

func allSurfaces(ctx *core.Ctx) ([]surface, error) {
	sfs, err := surfaces(pdf.FilterFlate{}, "")
	if err != nil {
		return nil, core.Infra("zpool: cannot prepare the streams: %v", err)
	}
	if ctx.Thorough() {
		more, err := surfaces(pdf.FilterFlate{Predictor: 12, Columns: 4}, "+PNG-predictor")
		if err != nil {
			return nil, core.Infra("zpool: cannot prepare the streams: %v", err)
		}
		sfs = append(sfs, more[:3]...)
	}
	return sfs, nil
}

// Run is called from C18's check.
func Run(ctx *core.Ctx) error {
	ctx.Ev.Assume("zpool: the pools of filter.go are not observable from outside the package; judged is their consequence (every stream delivers / produces its own bytes, decoded independently with compress/zlib), the pool invariants themselves are checked on the model only")
	for _, cfg := range []string{"MC_ZlibPool_dec_q.cfg", "MC_ZlibPool_enc_q.cfg"} {
		if _, err := ctx.MustHold(core.TLCOpts{Dir: "conc", Module: "MC_ZlibPool", Cfg: cfg, Workers: ctx.Pick(4, 8),
			Constants: "3 streams, 2 goroutines, 2 chunks; see " + cfg, Timeout: ctx.Dur(5, 10)}); err != nil {
			return err
		}
	}
	gcfg := "Gen_ZlibPool_q.cfg"
	if ctx.Thorough() {
		gcfg = "Gen_ZlibPool_t.cfg"
	}
	behs, _, err := core.GenCases[behaviour](ctx, core.TLCOpts{Dir: "conc", Module: "MC_Gen_ZlibPool", Cfg: gcfg, Mode: "evaluate", XssMB: 1024, Timeout: ctx.Dur(5, 10)})
	if err != nil {
		return err
	}
	sfs, err := allSurfaces(ctx)
	if err != nil {
		return err
	}
	// Order of the replays.  What a replay leaves in the pools reaches the next
	// one, and emptying the pools (two collections) costs ~10 ms, so: per
	// surface, on empty pools, first every behaviour in which no stream is
	// closed twice (a failure there involves no misuse of the API), then the
	// behaviours with a double Close, then the pools are emptied again.
	var recs []runRec
	ix := map[string]int{}
	total := 0
	add := func(r runRec) {
		if r.Surface == "" {
			return
		}
		total++
		s := r.sig()
		if j, ok := ix[s]; ok {
			recs[j].Count++
			return
		}
		ix[s] = len(recs)
		recs = append(recs, r)
		ctx.Ev.Distinct("zpool/" + s)
	}
	for _, sf := range sfs {
		for _, twice := range []bool{false, true} {
			flushPools()
			for bi := range behs {
				b := &behs[bi]
				if doubleClose(b) != twice {
					continue
				}
				for _, conc := range []bool{false, true} {
					add(replayOne(sf, b, conc))
				}
			}
		}
	}
	flushPools()
	// free-running: two goroutines use their own streams at the same time, no
	// order imposed, nothing closed twice (every iteration is one record)
	free := &behaviour{N: 1, Shape: []shape{{nChunks, 1}}, Ops: []op{{1, "open", "g1"}, {1, "io", "g1"}, {1, "io", "g1"}, {1, "close", "g1"}}}
	for _, sf := range sfs {
		var wg sync.WaitGroup
		out := make([][]runRec, 2)
		for g := 0; g < 2; g++ {
			wg.Add(1)
			go func(g int) {
				defer wg.Done()
				for it := 0; it < ctx.Pick(150, 600); it++ {
					r := replayOneAs(sf, free, false, g+1)
					r.Mode = "free-running"
					out[g] = append(out[g], r)
				}
			}(g)
		}
		wg.Wait()
		for g := range out {
			for _, r := range out[g] {
				add(r)
			}
		}
	}
	flushPools()
	ctx.Ev.Eval(total)
	ctx.Ev.AddReplayed(total)
	ctx.Ev.Set("zpool_behaviours", len(behs))
	ctx.Ev.Set("zpool_replays", total)
	ctx.Ev.Set("zpool_surfaces", func() []string {
		var n []string
		for _, s := range sfs {
			n = append(n, s.name)
		}
		return n
	}())
	ctx.Logf("zpool: %d TLC-generated behaviours x %d surfaces x {sequential, two goroutines} = %d replays, %d distinct observations", len(behs), len(sfs), total, len(recs))
	if len(recs) > 2 {
		ctx.Ev.Sample(map[string]any{"kind": "zpool: replay of a ZlibPool behaviour on the real API (judged by Trace_ZlibPool)", "run": recs[len(recs)/2]})
	}
	bad, err := judge(ctx, recs)
	if err != nil {
		return err
	}
	// Examples for the report: a rejected replay may owe its failure to what
	// earlier replays (with a double Close) left in the pools.  Re-run the
	// first candidates of every key on empty pools and prefer one that fails
	// the same way by itself.
	all := map[string][]int{} // per key and shape of the behaviour
	for _, b := range bad {
		k := key(&recs[b]) + fmt.Sprintf("|%v", recs[b].beh.Shape)
		all[k] = append(all[k], b)
	}
	byName := map[string]surface{}
	for _, sf := range sfs {
		byName[sf.name] = sf
	}
	looksBad := func(r *runRec) bool {
		for _, e := range r.Events {
			if e.Res != "ok" && e.Res != "own" && e.Res != "eof" {
				return true
			}
		}
		for _, f := range r.Final {
			if f != "own" {
				return true
			}
		}
		return false
	}
	rng := ctx.Rand("zpool-examples")
	var iso []runRec
	found := map[string]bool{}
	tries := map[string]int{}
	for _, ks := range core.SortedKeys(all) {
		k := ks[:strings.Index(ks, "|")]
		l := all[ks]
		for try := 0; try < 8 && !found[k] && tries[k] < 40; try++ {
			tries[k]++
			r := &recs[l[rng.Intn(len(l))]]
			if r.Mode == "free-running" {
				break
			}
			flushPools()
			x := replayOne(byName[r.Surface], r.beh, r.Mode == "two-goroutines")
			flushPools()
			if looksBad(&x) && key(&x) == k {
				iso = append(iso, x)
				found[k] = true
			}
		}
	}
	alone := map[string]*runRec{}
	if len(iso) > 0 {
		bad2, err := judge(ctx, iso) // the examples shown are judged like everything else
		if err != nil {
			return err
		}
		for _, j := range bad2 {
			alone[key(&iso[j])] = &iso[j]
		}
	}
	report(ctx, recs, bad, alone)
	return nil
}

// Replay re-executes a stored zpool case; handled is false when the case is
// not one of this package's.
func Replay(ctx *core.Ctx, raw json.RawMessage) (handled bool, err error) {
	var c struct {
		Zpool     bool      `json:"zpool"`
		Surface   string    `json:"surface"`
		Mode      string    `json:"mode"`
		Behaviour behaviour `json:"behaviour"`
	}
	if json.Unmarshal(raw, &c) != nil || !c.Zpool {
		return false, nil
	}
	sfs, err := surfaces(pdf.FilterFlate{}, "")
	if err != nil {
		return true, core.Infra("zpool: %v", err)
	}
	more, err := surfaces(pdf.FilterFlate{Predictor: 12, Columns: 4}, "+PNG-predictor")
	if err != nil {
		return true, core.Infra("zpool: %v", err)
	}
	sfs = append(sfs, more...)
	flushPools()
	for _, sf := range sfs {
		if sf.name != c.Surface {
			continue
		}
		r := replayOne(sf, &c.Behaviour, c.Mode == "two-goroutines")
		flushPools()
		for _, e := range r.Events {
			fmt.Printf("  %s(%d) -> %s %s\n", e.Op, e.S, e.Res, e.msg)
		}
		fmt.Printf("  streams end %v %s\n", r.Final, r.note)
		recs := []runRec{r}
		bad, err := judge(ctx, recs)
		if err != nil {
			return true, err
		}
		report(ctx, recs, bad, nil)
		return true, nil
	}
	return true, core.Infra("zpool: unknown surface %q", c.Surface)
}
