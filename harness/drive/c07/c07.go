// Package c07 binds the format specifications spec/filter/{RunLength,AsciiHex,
// Ascii85,Predictor,Lzw}.tla to go-pdf's codecs, in both directions:
//
//	P-B  library encodes (Filter.Encode)  -> record -> TLC decodes with the format's Ref decoder
//	P-C  Gen_Foreign emits legal encodings the library never writes -> Filter.Decode -> record -> TLC
//
// Bulk volume uses the small Go codecs of harness/indep/codecs (validated
// against the TLA+ modules in the same run); every disagreement is shrunk and
// then judged by TLC.  Flate and CCITTFax are outside the TLA+ models: their
// observers are independent implementations (CPython's zlib, x/image/ccitt,
// x/image/tiff/lzw as a second LZW opinion) and the trace specification only
// states agreement of digests (exploration level).
package c07

import (
	"strconv"
	"bytes"
	"crypto/sha256"
	"errors"
	"encoding/hex"
	"encoding/json"
	"fmt"
	"io"
	"sort"
	"strings"
	"sync"
	"time"

	"seehuhn.de/go/membudget"
	"seehuhn.de/go/pdf"

	"verif/harness/core"
	"verif/harness/drive/c06"
	"verif/harness/indep/codecs"
)

var Driver = core.Driver{ID: "C07", Level: "model_checking", Run: run, Replay: replay, SelfTest: selfTest}

// predP is the predictor parameter record of Predictor.tla.
type predP struct {
	Pred   int `json:"pred"`
	Colors int `json:"colors"`
	Bpc    int `json:"bpc"`
	Cols   int `json:"cols"`
}

func (p predP) indep() codecs.PredParams {
	return codecs.PredParams{Predictor: p.Pred, Colors: p.Colors, BPC: p.Bpc, Columns: p.Cols}
}

// rec is one (encoded, data) pair for Trace_Codec.
type rec struct {
	Dir     string `json:"dir"` // enc | dec | indep
	Fmt     string `json:"fmt"` // rl ah a85 lzw pr lzwpr agree
	Variant string `json:"variant"`
	Early   int    `json:"early"`
	P       predP  `json:"p"`
	Enc     []int  `json:"enc"`
	Data    []int  `json:"data"`
	Err     int    `json:"err"`
	A       string `json:"a"`
	B       string `json:"b"`
	LenA    int    `json:"lenA"`
	LenB    int    `json:"lenB"`
	Note    string `json:"note,omitempty"`
}

func ints(b []byte) []int {
	v := make([]int, len(b))
	for i, x := range b {
		v[i] = int(x)
	}
	return v
}

func toBytes(v []int) []byte {
	b := make([]byte, len(v))
	for i, x := range v {
		b[i] = byte(x)
	}
	return b
}

func digest(b []byte) string {
	h := sha256.Sum256(b)
	return hex.EncodeToString(h[:8])
}

type nopWC struct{ io.Writer }

func (nopWC) Close() error { return nil }

// job is one replayable unit of work on the library.
type job struct {
	Dir     string `json:"dir"` // enc: data -> library encoder; dec: enc -> library decoder
	Fmt     string `json:"fmt"` // rl ah a85 lzw lzwpr flatepr flate ccitt
	Variant string `json:"variant,omitempty"`
	Early   int    `json:"early"`
	P       predP  `json:"p"`
	CC      *c06.P `json:"cc,omitempty"`
	DataHex string `json:"data,omitempty"`
	EncHex  string `json:"enc,omitempty"`
	Level   int    `json:"level,omitempty"`
	// Src (dec): how the encoded bytes reach the decoder: "" all at once,
	// "onebyte" one byte per Read, "split:N" two reads cut at offset N
	Src string `json:"src,omitempty"`

	data, enc []byte
}

func (j *job) Data() []byte {
	if j.data == nil && j.DataHex != "" {
		j.data, _ = hex.DecodeString(j.DataHex)
	}
	return j.data
}

func (j *job) Enc() []byte {
	if j.enc == nil && j.EncHex != "" {
		j.enc, _ = hex.DecodeString(j.EncHex)
	}
	return j.enc
}

func (j *job) freeze() *job {
	if j.data != nil {
		j.DataHex = hex.EncodeToString(j.data)
	}
	if j.enc != nil {
		j.EncHex = hex.EncodeToString(j.enc)
	}
	return j
}

// filter returns the library filter the job talks to.
func (j *job) filter() pdf.Filter {
	switch j.Fmt {
	case "rl":
		return pdf.FilterRunLength{}
	case "ah":
		return pdf.FilterASCIIHex{}
	case "a85":
		return pdf.FilterASCII85{}
	case "lzw":
		return pdf.FilterLZW{OffByOne: j.Early == 1}
	case "lzwpr":
		return pdf.FilterLZW{OffByOne: j.Early == 1, Predictor: pdf.FlatePredictor(j.P.Pred), Colors: j.P.Colors, BitsPerComponent: j.P.Bpc, Columns: j.P.Cols}
	case "flatepr", "pr":
		return pdf.FilterFlate{Predictor: pdf.FlatePredictor(j.P.Pred), Colors: j.P.Colors, BitsPerComponent: j.P.Bpc, Columns: j.P.Cols}
	case "flate":
		return pdf.FilterFlate{}
	case "ccitt":
		return j.CC.Filter()
	}
	panic("c07: unknown format " + j.Fmt)
}

// watchdog: a codec of the library that does not come back (an endless loop
// on some input) must not hang the check: the call is abandoned after
// hangAfter and reported as an error of the library (the record is then
// rejected by Trace_Codec: err = 1).
const hangAfter = 60 * time.Second

var errHang = errors.New("no result within 60 s (the codec does not terminate)")

func withWatchdog(f func() ([]byte, error)) ([]byte, error) {
	type res struct {
		b   []byte
		err error
	}
	done := make(chan res, 1)
	go func() {
		b, err := f()
		done <- res{b, err}
	}()
	t := time.NewTimer(hangAfter)
	defer t.Stop()
	select {
	case r := <-done:
		return r.b, r.err
	case <-t.C:
		return nil, errHang
	}
}

// libEncode runs the library's encoder.
func libEncode(f pdf.Filter, data []byte) ([]byte, error) {
	return withWatchdog(func() ([]byte, error) { return libEncode1(f, data) })
}

// libDecode runs the library's decoder, rebuilt from name and dictionary.
func libDecode(f pdf.Filter, enc []byte) ([]byte, error) {
	return withWatchdog(func() ([]byte, error) { return libDecode1(f, enc, "") })
}

// libDecodeSrc is libDecode with a source that delivers the bytes in pieces.
func libDecodeSrc(f pdf.Filter, enc []byte, src string) ([]byte, error) {
	return withWatchdog(func() ([]byte, error) { return libDecode1(f, enc, src) })
}

type oneByteReader struct{ r io.Reader }

func (o oneByteReader) Read(p []byte) (int, error) {
	if len(p) == 0 {
		return 0, nil
	}
	return o.r.Read(p[:1])
}

func sourceOf(enc []byte, src string) io.Reader {
	switch {
	case src == "onebyte":
		return oneByteReader{bytes.NewReader(enc)}
	case strings.HasPrefix(src, "split:"):
		n, _ := strconv.Atoi(src[6:])
		if n < 0 || n > len(enc) {
			n = len(enc) / 2
		}
		return io.MultiReader(bytes.NewReader(enc[:n]), bytes.NewReader(enc[n:]))
	}
	return bytes.NewReader(enc)
}

func libEncode1(f pdf.Filter, data []byte) (enc []byte, err error) {
	defer func() {
		if p := recover(); p != nil {
			err = fmt.Errorf("panic: %v", p)
		}
	}()
	var buf bytes.Buffer
	w, err := f.Encode(pdf.V1_7, nopWC{&buf})
	if err != nil {
		return nil, err
	}
	if _, err := w.Write(data); err != nil {
		return nil, err
	}
	if err := w.Close(); err != nil {
		return nil, err
	}
	return buf.Bytes(), nil
}

func libDecode1(f pdf.Filter, enc []byte, src string) (out []byte, err error) {
	defer func() {
		if p := recover(); p != nil {
			err = fmt.Errorf("panic: %v", p)
		}
	}()
	name, dict, err := f.Info(pdf.V1_7)
	if err != nil {
		return nil, err
	}
	f2, err := pdf.MakeFilter(name, dict)
	if err != nil {
		return nil, err
	}
	r, err := f2.Decode(pdf.V1_7, sourceOf(enc, src), membudget.New(256<<20))
	if err != nil {
		return nil, err
	}
	defer r.Close()
	out, err = io.ReadAll(r)
	return out, err
}

func key(j *job, sig string) string {
	k := j.Dir + "/" + j.Fmt
	switch j.Fmt {
	case "lzw":
		k += fmt.Sprintf("/early=%d", j.Early)
	case "lzwpr":
		k += fmt.Sprintf("/early=%d/pred=%d/bpc=%d", j.Early, j.P.Pred, j.P.Bpc)
	case "flatepr", "pr":
		k += fmt.Sprintf("/pred=%d/bpc=%d", j.P.Pred, j.P.Bpc)
	case "ccitt":
		k += "/" + strings.TrimPrefix(c06.CCITTCombo(*j.CC), "ccitt/")
	}
	if v := strings.TrimSuffix(j.Variant, "-tlc"); v != "" && v != "bulk" && v != "big" {
		k += "/" + v
	}
	return k + "/" + sig
}

type reporter struct {
	ctx  *core.Ctx
	mu   sync.Mutex
	seen map[string]bool
}

func (rp *reporter) violation(j *job, sig, what string) {
	k := key(j, sig)
	rp.mu.Lock()
	dup := rp.seen[k]
	rp.seen[k] = true
	rp.mu.Unlock()
	if dup {
		return
	}
	rp.ctx.Logf("rejected by the specification: key=%s", k)
	rp.ctx.Violation(k, what, j.freeze())
}

// judge sends records to Trace_Codec and returns the rejected indices.
func judge(ctx *core.Ctx, recs []rec, batch int) (map[int]bool, error) {
	for i := range recs {
		if recs[i].Enc == nil {
			recs[i].Enc = []int{}
		}
		if recs[i].Data == nil {
			recs[i].Data = []int{}
		}
	}
	bad, err := core.JudgeCases(ctx, core.TLCOpts{Dir: "filter", Module: "Trace_Codec", Cfg: "Trace_Codec.cfg", XssMB: 1024,
		Timeout: ctx.Dur(15, 40)}, recs, batch, 12)
	if err != nil {
		return nil, err
	}
	out := map[int]bool{}
	for _, b := range bad {
		out[b] = true
	}
	return out, nil
}

func sortedKeys[V any](m map[string]V) []string {
	keys := make([]string, 0, len(m))
	for k := range m {
		keys = append(keys, k)
	}
	sort.Strings(keys)
	return keys
}

func replay(ctx *core.Ctx, raw json.RawMessage) error {
	var j job
	if err := json.Unmarshal(raw, &j); err != nil {
		return core.Infra("replay: %v", err)
	}
	rp := &reporter{ctx: ctx, seen: map[string]bool{}}
	py, err := startPython()
	if err != nil {
		return err
	}
	defer py.close()
	res, err := execute(ctx, []*job{&j}, py)
	if err != nil {
		return err
	}
	fmt.Printf("  %s %s: %d data bytes, %d encoded bytes; %s\n", j.Dir, j.Fmt, len(res[0].rec.Data), len(res[0].rec.Enc), res[0].rec.Note)
	return verdicts(ctx, rp, []*job{&j}, res, true)
}
