package c07

import (
	"bufio"
	"bytes"
	"compress/zlib"
	"encoding/ascii85"
	"encoding/hex"
	"fmt"
	"io"
	"os/exec"
	"strings"
	"sync"

	"golang.org/x/image/ccitt"
	xlzw "golang.org/x/image/tiff/lzw"

	"verif/harness/core"
	"verif/harness/indep/codecs"
)

// ---------------------------------------------------------------------------
// CPython's zlib (C zlib) as the independent Flate implementation

const pyScript = `
import sys, zlib, binascii
for line in sys.stdin:
    f = line.split()
    try:
        if f[0] == 'd':
            out = zlib.decompress(binascii.unhexlify(f[1]) if len(f) > 1 else b'')
        elif f[0] == 'c':
            out = zlib.compress(binascii.unhexlify(f[2]) if len(f) > 2 else b'', int(f[1]))
        else:
            out = b''
        sys.stdout.write('ok ' + binascii.hexlify(out).decode() + '\n')
    except Exception as e:
        sys.stdout.write('err ' + type(e).__name__ + '\n')
    sys.stdout.flush()
`

type python struct {
	mu   sync.Mutex
	cmd  *exec.Cmd
	in   io.WriteCloser
	out  *bufio.Reader
	dead bool
}

func startPython() (*python, error) {
	cmd := exec.Command("python3", "-u", "-c", pyScript)
	in, err := cmd.StdinPipe()
	if err != nil {
		return nil, core.Infra("python3: %v", err)
	}
	out, err := cmd.StdoutPipe()
	if err != nil {
		return nil, core.Infra("python3: %v", err)
	}
	if err := cmd.Start(); err != nil {
		return &python{dead: true}, nil
	}
	p := &python{cmd: cmd, in: in, out: bufio.NewReaderSize(out, 1<<20)}
	// probe
	if _, err := p.call("c 6 00"); err != nil {
		p.dead = true
	}
	return p, nil
}

func (p *python) close() {
	if p == nil || p.cmd == nil {
		return
	}
	p.in.Close()
	p.cmd.Wait()
}

func (p *python) call(line string) ([]byte, error) {
	p.mu.Lock()
	defer p.mu.Unlock()
	if _, err := io.WriteString(p.in, line+"\n"); err != nil {
		return nil, err
	}
	resp, err := p.out.ReadString('\n')
	if err != nil {
		return nil, err
	}
	resp = strings.TrimSpace(resp)
	if strings.HasPrefix(resp, "ok") {
		return hex.DecodeString(strings.TrimSpace(strings.TrimPrefix(resp, "ok")))
	}
	return nil, fmt.Errorf("python zlib: %s", resp)
}

// inflate decompresses with C zlib (or, when python3 is missing, Go's zlib).
func (p *python) inflate(b []byte) ([]byte, error) {
	if p == nil || p.dead {
		r, err := zlib.NewReader(bytes.NewReader(b))
		if err != nil {
			return nil, err
		}
		return io.ReadAll(r)
	}
	return p.call("d " + hex.EncodeToString(b))
}

// deflate compresses with C zlib at the given level.
func (p *python) deflate(b []byte, level int) ([]byte, error) {
	if p == nil || p.dead {
		var buf bytes.Buffer
		w, _ := zlib.NewWriterLevel(&buf, level)
		w.Write(b)
		w.Close()
		return buf.Bytes(), nil
	}
	return p.call(fmt.Sprintf("c %d %s", level, hex.EncodeToString(b)))
}

// ---------------------------------------------------------------------------

// result of one job: the record for TLC and the harness's own opinion.
type result struct {
	rec     rec
	suspect bool   // an independent codec disagrees with the library
	refused bool   // the library's encoder refused the input: nothing to judge
	why     string // which observer disagrees
}

func indepDecode(j *job, enc []byte) ([]byte, error) {
	switch j.Fmt {
	case "rl":
		return codecs.RunLengthDecode(enc)
	case "ah":
		return codecs.ASCIIHexDecode(enc)
	case "a85":
		return codecs.ASCII85Decode(enc)
	case "lzw":
		return codecs.LZWDecode(enc, j.Early)
	case "lzwpr":
		mid, err := codecs.LZWDecode(enc, j.Early)
		if err != nil {
			return nil, err
		}
		return codecs.PredDecode(j.P.indep(), mid)
	case "pr", "flatepr":
		return codecs.PredDecode(j.P.indep(), enc)
	}
	return nil, fmt.Errorf("no independent decoder for %s", j.Fmt)
}

// second opinions from the Go standard library / x/image
func secondOpinion(j *job, enc, data []byte) string {
	switch {
	case j.Fmt == "lzw" && j.Early == 1:
		// TIFF LZW = MSB first, code length grows one code early
		out, err := io.ReadAll(xlzw.NewReader(bytes.NewReader(enc), xlzw.MSB, 8))
		if err != nil || !bytes.Equal(out, data) {
			return fmt.Sprintf("x/image/tiff/lzw disagrees (%v)", err)
		}
	case j.Fmt == "a85":
		// encoding/ascii85 knows neither "~>" nor partial-group semantics beyond flush: strip the marker
		body := bytes.TrimSuffix(bytes.TrimSpace(enc), []byte("~>"))
		out := make([]byte, 4*len(body)+8)
		n, _, err := ascii85.Decode(out, body, true)
		if err != nil || !bytes.Equal(out[:n], data) {
			return fmt.Sprintf("encoding/ascii85 disagrees (%v)", err)
		}
	}
	return ""
}

func ccittRows(j *job) int {
	row := j.CC.RowBytes()
	return len(j.Data()) / row
}

// xImageDecode decodes the library's CCITT output with x/image/ccitt.
func xImageDecode(j *job, enc []byte) ([]byte, error) {
	p := j.CC
	sf := ccitt.Group4
	if p.K == 0 {
		sf = ccitt.Group3
	}
	cols := p.Cols
	if cols == 0 {
		cols = 1728
	}
	height := ccittRows(j)
	if !p.Ieob && p.Rows == 0 {
		height = ccitt.AutoDetectHeight
	}
	r := ccitt.NewReader(bytes.NewReader(enc), ccitt.MSB, sf, cols, height, &ccitt.Options{Align: p.Align, Invert: p.Black})
	return io.ReadAll(r)
}

func execOne(j *job, py *python) (res result) {
	r := rec{Dir: j.Dir, Fmt: j.Fmt, Variant: j.Variant, Early: j.Early, P: j.P}
	defer func() {
		if p := recover(); p != nil {
			res.rec = r
			res.rec.Err = 1
			res.rec.Note += fmt.Sprintf("panic: %v", p)
			res.suspect = true
		}
	}()
	f := j.filter()
	switch j.Dir {
	case "enc":
		data := j.Data()
		enc, err := libEncode(f, data)
		if err != nil {
			return result{rec: r, refused: true, why: err.Error()}
		}
		r.Data = ints(data)
		switch j.Fmt {
		case "flate", "ccitt":
			var out []byte
			if j.Fmt == "flate" {
				out, err = py.inflate(enc)
			} else {
				out, err = xImageDecode(j, enc)
			}
			r.Fmt = "agree"
			r.Enc, r.Data = []int{}, []int{}
			r.A, r.LenA, r.B, r.LenB = digest(data), len(data), digest(out), len(out)
			if err != nil {
				r.Err = 1
				r.Note = "independent decoder: " + err.Error()
			}
			j.enc = enc
			return result{rec: r, suspect: r.Err != 0 || r.A != r.B, why: r.Note}
		case "flatepr":
			mid, err := py.inflate(enc)
			if err != nil {
				r.Fmt, r.Err, r.Note = "agree", 1, "independent inflate: "+err.Error()
				return result{rec: r, suspect: true, why: r.Note}
			}
			r.Fmt = "pr"
			enc = mid
		}
		r.Enc = ints(enc)
		out, derr := indepDecode(j, enc)
		if derr != nil || !bytes.Equal(out, data) {
			res.suspect, res.why = true, fmt.Sprintf("indep/codecs decodes the library's output differently (%v)", derr)
		} else if s := secondOpinion(j, enc, data); s != "" {
			res.suspect, res.why = true, s
		}
		res.rec = r
		return res
	case "dec":
		enc := j.Enc()
		wire := enc
		switch j.Fmt {
		case "pr": // predictor level bytes: compress them with C zlib first
			var err error
			wire, err = py.deflate(enc, []int{1, 6, 9, 0}[len(enc)%4])
			if err != nil {
				panic(err)
			}
		case "flate":
			var err error
			wire, err = py.deflate(j.Data(), j.Level)
			if err != nil {
				panic(err)
			}
		}
		out, err := libDecodeSrc(f, wire, j.Src)
		if err != nil {
			r.Err = 1
			r.Note = err.Error()
		}
		if j.Fmt == "flate" {
			r.Fmt = "agree"
			r.Enc, r.Data = []int{}, []int{}
			r.A, r.LenA, r.B, r.LenB = digest(j.Data()), len(j.Data()), digest(out), len(out)
			return result{rec: r, suspect: r.Err != 0 || r.A != r.B, why: r.Note}
		}
		r.Enc, r.Data = ints(enc), ints(out)
		if want := j.Data(); j.DataHex != "" || want != nil {
			if err != nil || !bytes.Equal(out, want) {
				res.suspect, res.why = true, fmt.Sprintf("the library decodes a foreign encoding differently from its author (%v)", err)
			}
		}
		res.rec = r
		return res
	}
	panic("c07: unknown direction " + j.Dir)
}

func execute(ctx *core.Ctx, jobs []*job, py *python) ([]result, error) {
	res := make([]result, len(jobs))
	var wg sync.WaitGroup
	sem := make(chan struct{}, 12)
	for i, j := range jobs {
		wg.Add(1)
		sem <- struct{}{}
		go func(i int, j *job) {
			defer wg.Done()
			defer func() { <-sem }()
			res[i] = execOne(j, py)
		}(i, j)
	}
	wg.Wait()
	ctx.Ev.Eval(len(jobs))
	return res, nil
}

// small: records TLC can judge quickly.
func small(r rec) bool { return len(r.Enc) <= 1000 && len(r.Data) <= 1300 }

// verdicts lets TLC judge the records (all small ones, every suspect one,
// every one when all is set) and reports the rejected ones.
func verdicts(ctx *core.Ctx, rp *reporter, jobs []*job, res []result, all bool) error {
	var sel []rec
	var idx []int
	for i, r := range res {
		if r.refused {
			continue
		}
		// (the dense sweeps are compared with the independent codecs; TLC judges the suspects among them)
		sweep := strings.Contains(jobs[i].Variant, "sweep")
		if all || r.suspect || (small(r.rec) && !sweep) || jobs[i].Variant == "big" || jobs[i].Variant == "deferred-clear-tlc" {
			sel = append(sel, r.rec)
			idx = append(idx, i)
		}
	}
	bad, err := judge(ctx, sel, 80)
	if err != nil {
		return err
	}
	for k, i := range idx {
		j, r := jobs[i], res[i]
		if bad[k] {
			sig := "data"
			if r.rec.Err != 0 {
				sig = "error"
			}
			what := fmt.Sprintf("%s %s: ", map[string]string{"enc": "library encoder", "dec": "library decoder"}[j.Dir], j.Fmt)
			if j.Dir == "enc" {
				what += fmt.Sprintf("%d bytes encoded to %d bytes which the format specification does not decode to the input", len(j.Data()), len(r.rec.Enc))
			} else {
				what += fmt.Sprintf("a legal %d byte encoding (%s) is decoded to %d bytes which are not its meaning", len(r.rec.Enc), j.Variant, len(r.rec.Data))
			}
			if r.rec.Fmt == "agree" {
				what = fmt.Sprintf("%s %s: independent implementation and library disagree (%d vs %d bytes)", j.Dir, j.Fmt, r.rec.LenA, r.rec.LenB)
			}
			if r.why != "" {
				what += "; " + r.why
			}
			if r.rec.Note != "" {
				what += " [" + r.rec.Note + "]"
			}
			rp.violation(j, sig, what)
		} else if r.suspect {
			return core.Infra("independent codec and specification disagree on %s %s (%s): the record is accepted by Trace_Codec", j.Dir, j.Fmt, r.why)
		}
	}
	return nil
}
