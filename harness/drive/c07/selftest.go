package c07

import (
	"math/rand"

	"verif/harness/core"
	"verif/harness/drive/c06"
	"verif/harness/indep/codecs"
)

// selfTest: (i) corrupted records must be rejected by TLC, intact ones
// accepted; (ii) the defective encoder variants of MC_Codecs must violate
// their invariants; (iii) a wrong expectation in the foreign-encoding table
// must be noticed.
func selfTest(ctx *core.Ctx) error {
	py, err := startPython()
	if err != nil {
		return err
	}
	defer py.close()
	data := []byte("aaaaaaaaaaaaaaaaaaaaaaaaaaaaaaaaaaaaaaaaaaaaaaaaaaaaaaaaaaaaaaaaaaaaaaaaaaaaaaaaaaaaaaaaaaaaaaaaaaaaaaaaaaaaaaaaaaaaaaaaaaaaaaaaaaaaaaaaaaabcdefgh\x00\x00\x00\x00zz")
	p := predP{14, 3, 8, 4}
	jobs := []*job{
		{Dir: "enc", Fmt: "rl", data: data},
		{Dir: "enc", Fmt: "a85", data: data},
		{Dir: "enc", Fmt: "lzw", Early: 1, data: c06.GenBytes(rand.New(rand.NewSource(3)), "random", 400)},
		{Dir: "enc", Fmt: "lzwpr", Early: 0, P: p, data: data[:144]},
		{Dir: "enc", Fmt: "flatepr", P: p, data: data[:144]},
		{Dir: "dec", Fmt: "ah", data: data, enc: codecs.ASCIIHexEncode(data)},
		{Dir: "enc", Fmt: "flate", data: data},
		{Dir: "enc", Fmt: "ccitt", CC: &c06.P{Kind: "CCITT", K: -1, Cols: 16}, data: []byte{0xf0, 0x0f, 0xff, 0x00, 0x81, 0x18}},
	}
	res, err := execute(ctx, jobs, py)
	if err != nil {
		return err
	}
	var recs []rec
	clone := func(r rec) rec {
		r.Enc = append([]int(nil), r.Enc...)
		r.Data = append([]int(nil), r.Data...)
		return r
	}
	for _, r := range res {
		if r.refused || r.suspect {
			return core.Infra("self-test: base case failed: %s", r.why)
		}
		recs = append(recs, clone(r.rec))
	}
	n := len(recs)
	// corrupted copies
	c := clone(res[0].rec)
	c.Enc[0]++ // run length byte off by one
	recs = append(recs, c)
	c = clone(res[1].rec)
	c.Data[len(c.Data)-1] ^= 1
	recs = append(recs, c)
	c = clone(res[2].rec)
	c.Early = 0 // the other EarlyChange setting must not explain the stream
	recs = append(recs, c)
	c = clone(res[3].rec)
	c.P.Cols = 3 // another row length must not explain it
	recs = append(recs, c)
	c = clone(res[4].rec)
	c.Enc[1] ^= 0x80
	recs = append(recs, c)
	c = clone(res[5].rec)
	c.Err = 1
	recs = append(recs, c)
	c = clone(res[6].rec)
	c.B = "00" + c.B[2:]
	recs = append(recs, c)
	c = clone(res[7].rec)
	c.LenB++
	recs = append(recs, c)
	bad, err := judge(ctx, recs, 40)
	if err != nil {
		return err
	}
	for i := range recs {
		if bad[i] != (i >= n) {
			return core.Infra("self-test: record %d (%s): rejected=%v, expected %v", i, recs[i].Fmt, bad[i], i >= n)
		}
	}
	ctx.Logf("self-test (i): %d intact records accepted, %d corrupted ones rejected", n, len(recs)-n)

	for _, nc := range []struct{ cfg, inv string }{
		{"MC_Codecs_bad_rl.cfg", "RLOK"}, {"MC_Codecs_bad_paeth.cfg", "PROK"}, {"MC_Codecs_bad_lzw.cfg", "LZWOK"}, {"MC_Codecs_bad_lzwclose.cfg", "LZWOK"},
	} {
		r, err := ctx.TLC(core.TLCOpts{Dir: "filter", Module: "MC_Codecs", Cfg: nc.cfg, Workers: 4, XssMB: 1024, Mode: "negative-control"})
		if err != nil {
			return err
		}
		if r.Invariant != nc.inv {
			return core.Infra("self-test: %s should violate %s, got %q", nc.cfg, nc.inv, r.Invariant)
		}
	}
	ctx.Logf("self-test (ii): repeat count 129, reversed Paeth tie-breaking, a shifted LZW code length switch and a Close without incHi (EOD at the old code length) violate the design model")

	// (iii) a wrong table line: the expected data differs from the encoding's meaning
	wrong := &job{Dir: "dec", Fmt: "rl", Variant: "selftest", data: []byte{1, 2, 3}, enc: []byte{2, 1, 2, 4, 128}}
	r, _ := execute(ctx, []*job{wrong}, py)
	if !r[0].suspect {
		return core.Infra("self-test: wrong table expectation not noticed")
	}
	ctx.Logf("self-test (iii): wrong table expectation noticed")
	return nil
}
