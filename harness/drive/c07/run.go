package c07

import (
	"bytes"
	"fmt"
	"math/rand"
	"sync"

	"verif/harness/core"
	"verif/harness/drive/c06"
	"verif/harness/indep/codecs"
)

// ---------------------------------------------------------------------------
// design models

func runModels(ctx *core.Ctx) error {
	cfgs := []string{"MC_Codecs_q1.cfg", "MC_Codecs_q2.cfg"}
	if ctx.Thorough() {
		cfgs = []string{"MC_Codecs_t1.cfg", "MC_Codecs_t2.cfg"}
	}
	var wg sync.WaitGroup
	errs := make([]error, len(cfgs))
	for i, cfg := range cfgs {
		wg.Add(1)
		go func(i int, cfg string) {
			defer wg.Done()
			_, errs[i] = ctx.MustHold(core.TLCOpts{Dir: "filter", Module: "MC_Codecs", Cfg: cfg, Workers: 8, XssMB: 1024,
				Constants: "see spec/filter/" + cfg, Timeout: ctx.Dur(8, 30)})
		}(i, cfg)
	}
	wg.Wait()
	for _, e := range errs {
		if e != nil {
			return e
		}
	}
	return nil
}

// ---------------------------------------------------------------------------
// job generators

var predKinds = []predP{
	{2, 1, 8, 5}, {2, 3, 8, 4}, {2, 1, 1, 13}, {2, 3, 2, 5}, {2, 1, 4, 3}, {2, 2, 16, 3}, {2, 4, 1, 3}, {2, 3, 4, 3},
	{10, 3, 8, 4}, {11, 3, 8, 4}, {12, 3, 8, 4}, {13, 3, 8, 4}, {14, 3, 8, 4}, {15, 3, 8, 4},
	{11, 1, 1, 9}, {13, 1, 2, 7}, {14, 1, 4, 5}, {14, 2, 16, 3}, {12, 4, 16, 2}, {15, 1, 1, 17}, {14, 1, 8, 1}, {13, 5, 8, 2}, {15, 2, 4, 5},
}

func (p predP) rowBytes() int { return (p.Colors*p.Bpc*p.Cols + 7) / 8 }

// encJobs: inputs for the library's encoders (P-B).
func encJobs(ctx *core.Ctx) []*job {
	r := ctx.Rand("enc")
	var jobs []*job
	add := func(fmtName, variant string, early int, p predP, d []byte) {
		jobs = append(jobs, &job{Dir: "enc", Fmt: fmtName, Variant: variant, Early: early, P: p, data: d})
	}
	n := ctx.Pick(1, 3)
	// small inputs, judged by TLC
	for _, f := range []string{"rl", "ah", "a85"} {
		for _, l := range []int{0, 1, 2, 3, 4, 5, 7, 8, 9, 38, 39, 40, 78, 79, 80, 126, 127, 128, 129, 130, 131, 255, 256, 257, 300} {
			for k := 0; k < n; k++ {
				kind := c06.DataKinds[r.Intn(len(c06.DataKinds))]
				add(f, "", 0, predP{}, c06.GenBytes(r, kind, l))
			}
		}
		for k := 0; k < 12*n; k++ { // runs around the 128 boundaries
			add(f, "", 0, predP{}, c06.GenBytes(r, "longruns", 200+r.Intn(700)))
		}
	}
	for early := 0; early <= 1; early++ {
		for _, l := range []int{0, 1, 2, 3, 10, 100, 250, 255, 256, 257, 258, 300} {
			add("lzw", "", early, predP{}, c06.GenBytes(r, c06.DataKinds[r.Intn(len(c06.DataKinds))], l))
		}
		// random bytes: one code per byte or so: 9 -> 10 bits near 255 bytes, 10 -> 11 near 770
		for k := 0; k < 3*n; k++ {
			add("lzw", "", early, predP{}, c06.GenBytes(r, "random", 500+r.Intn(400)))
			add("lzw", "", early, predP{}, c06.GenBytes(r, "pairs", 600+r.Intn(600)))
			add("lzw", "", early, predP{}, c06.GenBytes(r, "equal", 1+r.Intn(1200)))
		}
		if ctx.Thorough() { // 11 -> 12 bits and the clear code of a full table
			add("lzw", "big", early, predP{}, c06.GenBytes(r, "random", 2000))
			add("lzw", "big", early, predP{}, c06.GenBytes(r, "random", 4300))
		}
		for _, p := range predKinds {
			rows := 1 + r.Intn(4)
			add("lzwpr", "", early, p, c06.GenBytes(r, []string{"random", "ramp", "runs", "sparse"}[r.Intn(4)], rows*p.rowBytes()))
		}
	}
	for _, p := range predKinds {
		for k := 0; k < 2*n; k++ {
			rows := 1 + r.Intn(5)
			add("flatepr", "", 0, p, c06.GenBytes(r, []string{"random", "ramp", "runs", "sparse", "equal"}[r.Intn(5)], rows*p.rowBytes()))
		}
	}
	// dense length sweeps (compared with indep/codecs, judged by TLC on
	// disagreement): incompressible data makes the LZW code count follow the
	// length, so the last code falls on every position around the 9->10,
	// 10->11 and 11->12 bit switches; the other formats cross their group and
	// buffer sizes
	for l := 1; l <= ctx.Pick(1830, 4200); l++ {
		d := c06.GenBytes(r, "random", l)
		add("lzw", "sweep", 0, predP{}, d)
		add("lzw", "sweep", 1, predP{}, d)
		if l <= 1300 {
			add([]string{"a85", "ah", "rl"}[l%3], "sweep", 0, predP{}, d)
		}
	}
	// bulk: compared with indep/codecs, judged by TLC only on disagreement
	bulk := ctx.Pick(150, 1500)
	for k := 0; k < bulk; k++ {
		kind := c06.DataKinds[r.Intn(len(c06.DataKinds))]
		l := c06.PickLength(r, 1, ctx.Pick(6000, 40000))
		if l < 1400 {
			l += 1400
		}
		d := c06.GenBytes(r, kind, l)
		switch k % 6 {
		case 0:
			add("rl", "bulk", 0, predP{}, d)
		case 1:
			add("ah", "bulk", 0, predP{}, d)
		case 2:
			add("a85", "bulk", 0, predP{}, d)
		case 3:
			add("lzw", "bulk", k / 6 % 2, predP{}, d)
		case 4:
			p := predKinds[r.Intn(len(predKinds))]
			add("lzwpr", "bulk", k / 6 % 2, p, d[:len(d)/p.rowBytes()*p.rowBytes()])
		case 5:
			p := predKinds[r.Intn(len(predKinds))]
			add("flatepr", "bulk", 0, p, d[:len(d)/p.rowBytes()*p.rowBytes()])
		}
	}
	// Flate against C zlib
	for k := 0; k < ctx.Pick(60, 400); k++ {
		kind := c06.DataKinds[r.Intn(len(c06.DataKinds))]
		add("flate", "", 0, predP{}, c06.GenBytes(r, kind, c06.PickLength(r, 1, ctx.Pick(20000, 200000))))
	}
	// CCITTFax against x/image/ccitt: Group 3 one-dimensional with EOLs, Group 4
	fixed := rand.New(rand.NewSource(0xC07))
	for _, cc := range ccittCombos() {
		for k := 0; k < ctx.Pick(60, 300); k++ {
			p := cc
			p.Cols = []int{1, 2, 7, 8, 9, 16, 17, 33, 64, 65, 200, 1728}[fixed.Intn(12)]
			p.Black = fixed.Intn(2) == 1
			nrows := []int{0, 1, 2, 3, 5, 8}[fixed.Intn(6)]
			if p.Rows > 0 || p.Ieob {
				if nrows == 0 {
					nrows = 1
				}
				p.Rows = nrows
			}
			kind := []string{"zero", "equal", "random", "runs", "longruns", "sparse"}[fixed.Intn(6)]
			d := c06.GenFor(fixed, p, kind, nrows*p.RowBytes())
			pp := p
			jobs = append(jobs, &job{Dir: "enc", Fmt: "ccitt", CC: &pp, data: d})
		}
	}
	return jobs
}

// ccittCombos: the parameter combinations x/image/ccitt can read.
func ccittCombos() []c06.P {
	var out []c06.P
	for _, k := range []int{-1, 0} {
		for _, align := range []bool{false, true} {
			for _, ieob := range []bool{false, true} {
				for _, hasRows := range []bool{false, true} {
					if ieob && !hasRows {
						continue
					}
					if k == 0 && (align || ieob) {
						continue // x/image reads Group 3 only with EOLs, RTC and its own alignment rule
					}
					p := c06.P{Kind: "CCITT", K: k, Eol: k == 0, Align: align, Ieob: ieob}
					if hasRows {
						p.Rows = 1
					}
					out = append(out, p)
				}
			}
		}
	}
	return out
}

type foreignLine struct {
	Fmt     string `json:"fmt"`
	Variant string `json:"variant"`
	Early   int    `json:"early"`
	P       predP  `json:"p"`
	Data    []int  `json:"data"`
	Enc     []int  `json:"enc"`
}

// decJobs: foreign encodings for the library's decoders (P-C): the table of
// Gen_Foreign, and bulk encodings by indep/codecs and the standard library.
func decJobs(ctx *core.Ctx) ([]*job, []foreignLine, error) {
	tier := "q"
	if ctx.Thorough() {
		tier = "t"
	}
	lines, _, err := core.GenCases[foreignLine](ctx, core.TLCOpts{Dir: "filter", Module: "Gen_Foreign",
		CfgText: fmt.Sprintf("INIT Init\nNEXT Next\nCONSTANTS TIER = \"%s\"\nCHECK_DEADLOCK FALSE\n", tier), Mode: "evaluate", XssMB: 1024, Timeout: ctx.Dur(5, 20)})
	if err != nil {
		return nil, nil, err
	}
	if len(lines) == 0 {
		return nil, nil, core.Infra("Gen_Foreign produced no cases")
	}
	var jobs []*job
	for _, l := range lines {
		d := toBytes(l.Data)
		if d == nil {
			d = []byte{}
		}
		jobs = append(jobs, &job{Dir: "dec", Fmt: l.Fmt, Variant: l.Variant, Early: l.Early, P: l.P, data: d, enc: toBytes(l.Enc)})
	}
	ctx.Ev.AddReplayed(len(lines))
	r := ctx.Rand("dec")
	add := func(fmtName, variant string, early int, p predP, d, enc []byte) {
		jobs = append(jobs, &job{Dir: "dec", Fmt: fmtName, Variant: variant, Early: early, P: p, data: d, enc: enc})
	}
	for k := 0; k < ctx.Pick(300, 3000); k++ {
		kind := c06.DataKinds[r.Intn(len(c06.DataKinds))]
		d := c06.GenBytes(r, kind, c06.PickLength(r, 1, ctx.Pick(3000, 20000)))
		switch k % 7 {
		case 0:
			add("rl", "indep", 0, predP{}, d, codecs.RunLengthEncode(d))
		case 1:
			if k%14 == 1 {
				add("ah", "indep", 0, predP{}, d, codecs.ASCIIHexEncode(d))
			} else {
				w := []int{1, 3, 63, 64, 75, 76, 255, 77}[r.Intn(8)]
				ws := []string{" ", "\n", "\r\n", "\t", "\f", "\x00"}[r.Intn(6)]
				add("ah", "indep-wrapped", 0, predP{}, d, codecs.ASCIIHexEncodeWrapped(d, w, ws, r.Intn(2) == 0))
			}
		case 2:
			add("a85", "indep", 0, predP{}, d, codecs.ASCII85Encode(d))
		case 3:
			early := k / 7 % 2
			clear := []int{0, 0, 5, 100, 254, 255, 256, 300, 1000}[r.Intn(9)]
			add("lzw", fmt.Sprintf("indep-clear%d", clear), early, predP{}, d, codecs.LZWEncode(d, early, clear))
		case 4:
			p := predKinds[r.Intn(len(predKinds))]
			d = d[:len(d)/p.rowBytes()*p.rowBytes()]
			var enc []byte
			if p.Pred == 2 {
				enc = codecs.TIFFEncode(p.indep(), d)
			} else {
				off := r.Intn(5)
				enc = codecs.PNGEncode(p.indep(), d, func(row int) int { return (row*3 + off) % 5 })
			}
			add("pr", "indep", 0, p, d, enc)
		case 5:
			early := k / 7 % 2
			p := predKinds[r.Intn(len(predKinds))]
			d = d[:len(d)/p.rowBytes()*p.rowBytes()]
			var mid []byte
			if p.Pred == 2 {
				mid = codecs.TIFFEncode(p.indep(), d)
			} else {
				mid = codecs.PNGEncode(p.indep(), d, func(row int) int { return (row + k) % 5 })
			}
			add("lzwpr", "indep", early, p, d, codecs.LZWEncode(mid, early, 0))
		case 6:
			jobs = append(jobs, &job{Dir: "dec", Fmt: "flate", Variant: "czlib", Level: []int{0, 1, 6, 9}[r.Intn(4)], data: d})
		}
	}
	// dense length sweeps of foreign encodings, all at once and through
	// sources that deliver the bytes in pieces (end markers and groups
	// straddle every position of the decoders' read buffers)
	for l := 0; l <= ctx.Pick(1300, 2600); l++ {
		d := c06.GenBytes(r, []string{"random", "text", "zero"}[l%3], l)
		e85 := codecs.ASCII85Encode(d)
		jobs = append(jobs, &job{Dir: "dec", Fmt: "a85", Variant: "indep-sweep", data: d, enc: e85})
		jobs = append(jobs, &job{Dir: "dec", Fmt: "a85", Variant: "indep-sweep-split", data: d, enc: e85, Src: fmt.Sprintf("split:%d", len(e85)-1)})
		if l%4 == 0 {
			jobs = append(jobs, &job{Dir: "dec", Fmt: "a85", Variant: "indep-sweep-onebyte", data: d, enc: e85, Src: "onebyte"})
		}
		switch l % 3 {
		case 0:
			eh := codecs.ASCIIHexEncode(d)
			jobs = append(jobs, &job{Dir: "dec", Fmt: "ah", Variant: "indep-sweep", data: d, enc: eh},
				&job{Dir: "dec", Fmt: "ah", Variant: "indep-sweep-split", data: d, enc: eh, Src: fmt.Sprintf("split:%d", len(eh)-1)})
		case 1:
			er := codecs.RunLengthEncode(d)
			jobs = append(jobs, &job{Dir: "dec", Fmt: "rl", Variant: "indep-sweep", data: d, enc: er},
				&job{Dir: "dec", Fmt: "rl", Variant: "indep-sweep-split", data: d, enc: er, Src: fmt.Sprintf("split:%d", len(er)-1)})
		default:
			early := l / 3 % 2
			el := codecs.LZWEncode(d, early, 0)
			jobs = append(jobs, &job{Dir: "dec", Fmt: "lzw", Variant: "indep-sweep", Early: early, data: d, enc: el},
				&job{Dir: "dec", Fmt: "lzw", Variant: "indep-sweep-onebyte", Early: early, data: d, enc: el, Src: "onebyte"})
		}
	}
	// LZW from an encoder that defers the clear code: the table is filled
	// completely, n more codes follow (among them the last table entry,
	// repeatedly), then the clear code and ordinary data.  The first ones of
	// each EarlyChange setting are judged by Lzw.RefDecode in TLC, the others
	// by the independent decoder.
	for k := 0; k < ctx.Pick(12, 60); k++ {
		early := k % 2
		n := []int{2, 3, 1, 5, 40, 300}[k/2%6]
		prefix := c06.GenBytes(r, []string{"random", "pairs", "text", "random"}[k%4], 9000)
		tail := c06.GenBytes(r, "random", r.Intn(300))
		enc, d := codecs.LZWEncodeDeferredClear(prefix, early, n, func(i, top int) int {
			switch (i + k) % 4 {
			case 0, 1:
				return top
			case 2:
				return top - 1 - r.Intn(3)
			}
			return 258 + r.Intn(top-257)
		}, tail)
		v := "deferred-clear"
		if k < 4 {
			v = "deferred-clear-tlc"
		}
		add("lzw", v, early, predP{}, d, enc)
	}
	return jobs, lines, nil
}

// ---------------------------------------------------------------------------

// validateIndep: the Go codecs of indep/codecs against the TLA+ modules.
func validateIndep(ctx *core.Ctx, lines []foreignLine) error {
	// (a) the Go decoders on the encodings TLC generated
	for _, l := range lines {
		j := &job{Fmt: l.Fmt, Early: l.Early, P: l.P}
		out, err := indepDecode(j, toBytes(l.Enc))
		if err != nil || !bytes.Equal(out, toBytes(l.Data)) {
			return core.Infra("indep/codecs decodes a Gen_Foreign encoding (%s/%s) differently from the specification: %v", l.Fmt, l.Variant, err)
		}
	}
	// (b) the Go encoders' output judged by the specification
	r := rand.New(rand.NewSource(7))
	var recs []rec
	add := func(f string, early int, p predP, d, enc []byte) {
		recs = append(recs, rec{Dir: "indep", Fmt: f, Early: early, P: p, Data: ints(d), Enc: ints(enc)})
	}
	for k := 0; k < 120; k++ {
		d := c06.GenBytes(r, c06.DataKinds[r.Intn(len(c06.DataKinds))], []int{0, 1, 3, 4, 5, 17, 127, 128, 129, 260, 300}[r.Intn(11)])
		switch k % 6 {
		case 0:
			add("rl", 0, predP{}, d, codecs.RunLengthEncode(d))
		case 1:
			add("ah", 0, predP{}, d, codecs.ASCIIHexEncode(d))
		case 2:
			add("a85", 0, predP{}, d, codecs.ASCII85Encode(d))
		case 3:
			add("lzw", k/6%2, predP{}, d, codecs.LZWEncode(d, k/6%2, []int{0, 3, 100, 255}[r.Intn(4)]))
		case 4, 5:
			p := predKinds[r.Intn(len(predKinds))]
			d = c06.GenBytes(r, "random", (1+r.Intn(3))*p.rowBytes())
			if p.Pred == 2 {
				add("pr", 0, p, d, codecs.TIFFEncode(p.indep(), d))
			} else {
				add("pr", 0, p, d, codecs.PNGEncode(p.indep(), d, func(row int) int { return (row + k) % 5 }))
			}
		}
	}
	bad, err := judge(ctx, recs, 40)
	if err != nil {
		return err
	}
	if len(bad) > 0 {
		for i := range bad {
			return core.Infra("indep/codecs encoder output (%s) is not an encoding according to the specification", recs[i].Fmt)
		}
	}
	ctx.Ev.Set("indep_codecs_validated_against_spec", len(lines)+len(recs))
	return nil
}

func run(ctx *core.Ctx) error {
	ctx.Ev.Rule = "evaluations = runs of a library encoder or decoder; distinct non-trivial = (direction, format, parameters, digest of the data) with non-empty data"
	ctx.Ev.Assume("TLC evaluates the format modules faithfully; RunLength/AsciiHex/Ascii85/Predictor/Lzw.Ref... state ISO 32000-1 7.4.2-7.4.5, PNG (filter algorithms) and TIFF 6.0 sections 13, 14")
	ctx.Ev.Assume("Flate and CCITTFax are not specified in TLA+: CPython's zlib (C zlib), golang.org/x/image/ccitt and golang.org/x/image/tiff/lzw are trusted observers; these clauses are exploration level")
	ctx.Ev.Assume("records larger than about 1 kB are compared with harness/indep/codecs (validated against the TLA+ modules in the same run) and judged by TLC only on disagreement")
	rp := &reporter{ctx: ctx, seen: map[string]bool{}}

	// the design models run while the foreign encodings are generated and executed
	modelErr := make(chan error, 1)
	go func() { modelErr <- runModels(ctx) }()
	py, err := startPython()
	if err != nil {
		return err
	}
	defer py.close()
	if py.dead {
		ctx.Ev.Assume("python3 not available: Go's compress/zlib stands in for C zlib (not independent for Flate)")
	}

	dj, lines, err := decJobs(ctx)
	if err != nil {
		return err
	}
	if err := validateIndep(ctx, lines); err != nil {
		return err
	}
	jobs := append(encJobs(ctx), dj...)
	res, err := execute(ctx, jobs, py)
	if err != nil {
		return err
	}
	refused, byFmt := 0, map[string]int{}
	for i, j := range jobs {
		if res[i].refused {
			refused++
			continue
		}
		byFmt[j.Dir+"/"+j.Fmt]++
		d := j.Data()
		if j.Dir == "dec" {
			d = j.Enc()
		}
		if len(d) > 0 {
			ctx.Ev.Distinct(fmt.Sprintf("%s/%s/%d/%v/%s", j.Dir, j.Fmt, j.Early, j.P, digest(d)))
		}
	}
	ctx.Ev.Set("runs_by_direction_and_format", byFmt)
	ctx.Ev.Set("encoder_refused", refused)
	if err := <-modelErr; err != nil {
		return err
	}
	if err := verdicts(ctx, rp, jobs, res, false); err != nil {
		return err
	}
	for i, j := range jobs {
		if j.Dir == "dec" && j.Variant == "spaced" && j.Fmt == "a85" && len(j.Data()) > 4 && !res[i].suspect {
			ctx.Ev.Sample(map[string]any{"kind": "foreign encoding from Gen_Foreign decoded by the library, record accepted by Trace_Codec", "record": res[i].rec})
			break
		}
	}
	for i, j := range jobs {
		if j.Dir == "enc" && j.Fmt == "rl" && len(j.Data()) > 100 && len(j.Data()) < 200 && !res[i].suspect {
			ctx.Ev.Sample(map[string]any{"kind": "library encoder output decoded by RunLength.RefDecode in TLC", "record": res[i].rec})
			break
		}
	}
	ctx.Ev.Exhaustive = true
	ctx.Ev.Set("exhaustive_scope", "RefDecode(ImplEncode(x)) = x over the bounded input spaces of MC_Codecs in TLC; on the real code: seeded inputs (exploration)")
	return nil
}
