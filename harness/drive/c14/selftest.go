package c14

import (
	"seehuhn.de/go/sfnt/glyph"

	"verif/harness/core"
)

func glyphID(g int) glyph.ID { return glyph.ID(g) }

// selfTest: (i) corrupted event records must be rejected, intact ones accepted;
// (ii) the model whose Embed changes widths beyond the tolerance must fail.
func selfTest(ctx *core.Ctx) error {
	byLabel := map[string]fontKind{}
	for _, k := range fontKinds() {
		byLabel[k.Label] = k
	}
	dc := &docCase{Fonts: []string{"standard/Helvetica", "sample/CFFSimple1"}, Version: "1.7", Pretty: true, Origin: "selftest",
		B: behaviour{Kind: "walk", Steps: []step{
			{Op: "show", F: 1, Items: []item{{1, 1}, {2, 1}, {1, 2}, {3, 1}}},
			{Op: "enc", F: 2, Items: []item{{5, 1}}},
			{Op: "show", F: 2, Items: []item{{5, 1}, {6, 1}, {6, 2}}},
			{Op: "show", F: 1, Items: []item{{2, 1}, {1, 1}}},
		}}}
	good, err := execute(dc, byLabel)
	if err != nil {
		return core.Infra("self-test: %v", err)
	}
	clone := func() record {
		r, _ := execute(dc, byLabel)
		return r
	}
	lastRead := func(r *record) *event {
		for i := len(r.Events) - 1; i >= 0; i-- {
			if r.Events[i].Op == "read" {
				return &r.Events[i]
			}
		}
		return nil
	}
	a := clone() // a width read back 0.002 units off
	if e := lastRead(&a); e != nil {
		e.Codes[0].W += 2000
	} else {
		return core.Infra("self-test: nothing was read back")
	}
	b := clone() // a text read back differently
	lastRead(&b).Chars[1].T = []int{0x7a}
	c := clone() // one string lost on the way
	c.Events = c.Events[:len(c.Events)-1]
	d := clone() // a second Encode of the same pair answering another code
	for i := range d.Events {
		if d.Events[i].Op == "enc" && i > 4 && len(d.Events[i].C) > 0 {
			d.Events[i].C = append([]int{}, d.Events[i].C...)
			d.Events[i].C[len(d.Events[i].C)-1] ^= 1
			break
		}
	}
	bad, err := core.JudgeCases(ctx, traceOpts, []record{good, a, b, good, c, d}, 10, 1)
	if err != nil {
		return err
	}
	want := []int{1, 2, 4, 5}
	ok := len(bad) == len(want)
	for i := 0; ok && i < len(want); i++ {
		ok = bad[i] == want[i]
	}
	if !ok {
		return core.Infra("self-test: corrupted records not singled out: rejected %v, want %v", bad, want)
	}
	ctx.Logf("self-test (i): 4 corrupted documents rejected, intact ones accepted")
	res, err := ctx.TLC(core.TLCOpts{Dir: "font", Module: "MC_FontCodes", Cfg: "MC_FontCodes_badround.cfg", Workers: 4, Mode: "negative-control"})
	if err != nil {
		return err
	}
	if res.Invariant != "ReaderAgrees" {
		return core.Infra("self-test: the model with oversized rounding should violate ReaderAgrees, got %q", res.Invariant)
	}
	ctx.Logf("self-test (ii): widths changed beyond the tolerance violate ReaderAgrees in the model")
	return nil
}
