// Package c14 binds spec/font/FontCodes.tla to go-pdf's font encoders.
//
//	P-B  Gen_FontCodes (TLC) -> interleavings of Encode / Show steps over
//	     several fonts -> executed on real Layouters (14 standard fonts, Go
//	     fonts as simple and composite, the 18 font/embedding samples),
//	     written to an in-memory PDF file, read back (extract.Font(...).Codes
//	     on every shown string, reader.Reader with the Character callback)
//	     -> one record of events per document -> Trace_FontCodes (TLC)
//
// The allocation protocol itself (FontCodes.tla) is model-checked
// exhaustively for a small instance.
package c14

import (
	"bytes"
	"math/rand"
	"encoding/json"
	"fmt"
	"math"
	"sort"
	"strings"
	"sync"

	"seehuhn.de/go/pdf"
	"seehuhn.de/go/pdf/document"
	"seehuhn.de/go/pdf/font"
	"seehuhn.de/go/pdf/font/cff"
	"seehuhn.de/go/pdf/font/encoding/cidenc"
	"seehuhn.de/go/pdf/font/gofont"
	"seehuhn.de/go/pdf/font/opentype"
	"seehuhn.de/go/pdf/font/standard"
	"seehuhn.de/go/pdf/font/truetype"
	"seehuhn.de/go/pdf/graphics/extract"
	"seehuhn.de/go/pdf/page"
	"seehuhn.de/go/pdf/pagetree"
	"seehuhn.de/go/pdf/reader"
	"seehuhn.de/go/pdf/verifx"

	"verif/harness/core"
)

var Driver = core.Driver{ID: "C14", Level: "exploration", Run: run, Replay: replay, SelfTest: selfTest}

var traceOpts = core.TLCOpts{Dir: "font", Module: "Trace_FontCodes", Cfg: "Trace_FontCodes.cfg", XssMB: 1024, XmxMB: 3000,
	Env: map[string]string{"JAVA_TOOL_OPTIONS": "-XX:ParallelGCThreads=2 -XX:CICompilerCount=2"}}

// ---------------------------------------------------------------------------
// font kinds

type fontKind struct {
	Label  string
	Simple bool
	// UTF8: composite font with the UTF-8 encoder (codes derived from the text,
	// private use codes otherwise): any number of texts per glyph
	UTF8 bool
	Make func() (font.Layouter, error)
}

func fontKinds() []fontKind {
	var out []fontKind
	for _, s := range standard.All {
		s := s
		out = append(out, fontKind{Label: "standard/" + string(s), Simple: true, Make: func() (font.Layouter, error) { return s.New() }})
	}
	for _, g := range gofont.All {
		g := g
		out = append(out,
			fontKind{Label: fmt.Sprintf("gofont/%d/simple", int(g)), Simple: true, Make: func() (font.Layouter, error) { return g.NewSimple(nil) }},
			fontKind{Label: fmt.Sprintf("gofont/%d/composite", int(g)), Simple: false, Make: func() (font.Layouter, error) { return g.NewComposite(nil) }})
	}
	for _, s := range verifx.FontSamples() {
		s := s
		out = append(out, fontKind{Label: "sample/" + s.Label, Simple: !s.Composite, Make: func() (font.Layouter, error) { return s.MakeFont(), nil }})
	}
	out = append(out, fontKind{Label: "type3/notdef-width", Simple: true, Make: type3NotdefWidth})
	// composite fonts with the UTF-8 encoder instead of the fixed Identity-H CMap
	for _, g := range gofont.All {
		g := g
		out = append(out, fontKind{Label: fmt.Sprintf("gofont/%d/composite-utf8", int(g)), UTF8: true, Make: func() (font.Layouter, error) {
			return g.NewComposite(&truetype.OptionsComposite{MakeEncoder: cidenc.NewCompositeUtf8})
		}})
	}
	out = append(out,
		fontKind{Label: "utf8/cff", UTF8: true, Make: func() (font.Layouter, error) {
			return cff.NewComposite(verifx.OpenType(), &cff.OptionsComposite{MakeEncoder: cidenc.NewCompositeUtf8})
		}},
		fontKind{Label: "utf8/opentype-cff", UTF8: true, Make: func() (font.Layouter, error) {
			return opentype.NewComposite(verifx.OpenType(), &opentype.OptionsComposite{MakeEncoder: cidenc.NewCompositeUtf8})
		}},
		fontKind{Label: "utf8/opentype-glyf", UTF8: true, Make: func() (font.Layouter, error) {
			return opentype.NewComposite(verifx.TrueType(), &opentype.OptionsComposite{MakeEncoder: cidenc.NewCompositeUtf8})
		}},
		fontKind{Label: "utf8/truetype", UTF8: true, Make: func() (font.Layouter, error) {
			return truetype.NewComposite(verifx.TrueType(), &truetype.OptionsComposite{MakeEncoder: cidenc.NewCompositeUtf8})
		}},
	)
	return out
}

// sample texts: Latin, Greek, Cyrillic, punctuation, ligatures
var sampleTexts = []string{
	"The quick brown fox jumps over the lazy dog. 0123456789",
	"ABCDEFGHIJKLMNOPQRSTUVWXYZ abcdefghijklmnopqrstuvwxyz",
	"office affine fluff fjord — “quoted” ‘single’ … ¡¿?!",
	"Ärger Öl Übung ß àéîõü ÀÉÎÕÜ çñ øå æœ ÆŒ ðþ ÐÞ",
	"Αλφα βήτα γάμμα δέλτα ΩΨΧΦ ά έ ή ί ό ύ ώ",
	"Съешь же ещё этих мягких французских булок АБВГДЕЖЗИЙКЛМНОПРСТУФХЦЧШЩЪЫЬЭЮЯ",
	"!\"#$%&'()*+,-./:;<=>?@[\\]^_`{|}~ ©®™ §¶ ±×÷ €£¥ ¼½¾ °µ",
	"ĀāĂăĄąĆćĈĉĊċČčĎďĐđĒēĔĕĖėĘęĚěĜĝĞğĠġĢģĤĥĦħĨĩĪīĬĭĮįİıĴĵĶķĹĺĻļĽľŁłŃńŅņŇňŌōŎŏŐőŔŕŖŗŘřŚśŜŝŞşŠšŢţŤťŦŧŨũŪūŬŭŮůŰűŲųŴŵŶŷŸŹźŻżŽž",
	"ЀЁЂЃЄЅІЇЈЉЊЋЌЍЎЏабвгдежзийклмнопрстуфхцчшщъыьэюяѐёђѓєѕіїјљњћќѝўџ",
	"αβγδεζηθικλμνξοπρςστυφχψωΆΈΉΊΌΎΏΐΑΒΓΔΕΖΗΘΙΚΛΜΝΞΟΠΡΣΤΥΦΧΨΩΪΫ",
	"✁✂✃✄☎✆✇✈✉☛☞✌✍✎✏✐✑✒✓✔✕✖✗✘✙✚✛✜✝✞✟✠✡✢✣✤✥✦✧★✩✪✫✬✭✮✯✰ ∀∂∃∅∆∇∈∉∋∏∑−∕∗∘∙√∝∞∠∧∨∩∪∫∴∼≅≈≠≡≤≥⊂⊃⊄⊆⊇⊕⊗⊥⋅",
}

func init() {
	// the whole Dingbats block, for ZapfDingbats (its pool must allow 256 pairs)
	var rr []rune
	for r := rune(0x2701); r <= 0x27be; r++ {
		rr = append(rr, r)
	}
	sampleTexts = append(sampleTexts, string(rr))
	// glyphs of width zero where a font has them: NUL (Go fonts: "uni0000"), combining
	// marks, zero width space / joiner / no-break space
	// (first: low slots, so that every walk reaches them)
	sampleTexts = append([]string{"a\x00b\u0301c\u0308d\u200be\u200df\ufeffg\u0300\u0302\u0303\u0327"}, sampleTexts...)
}

type pair struct {
	GID  int
	Text string
}

// pool lists the distinct (glyph, text) pairs Layout produces for the samples.
// Characters the font has no glyph for are laid out as glyph 0 (.notdef) with
// the character as text: simple fonts get two such pairs in low slots (every
// walk reaches them); composite fonts with one code per glyph cannot tell them
// apart (the recorded finding encode/code-shared/composite) and keep none.
func pool(F font.Layouter, k fontKind) []pair {
	seen := map[pair]bool{}
	var out, missing []pair
	for _, s := range sampleTexts {
		seq := F.Layout(nil, 10, s)
		for _, g := range seq.Seq {
			p := pair{int(g.GID), g.Text}
			if seen[p] {
				continue
			}
			seen[p] = true
			if g.GID == 0 {
				if len(missing) < 2 && g.Text != "" {
					missing = append(missing, p)
				}
				continue
			}
			out = append(out, p)
		}
	}
	if k.Simple && len(missing) > 0 && len(out) > 3 {
		out = append(out[:3:3], append(missing, out[3:]...)...)
	}
	return out
}

const nTexts = 5

// variant gives the text of a pair for text variant tv (1 = the text Layout gave).
// Fonts with the UTF-8 encoder get the texts its allocator treats specially:
// private use characters (its own private codes start at U+E000), the empty
// text, and one text repeated for different glyphs.
func variant(k fontKind, t string, slot, tv int) string {
	tv = (tv-1)%nTexts + 1
	if k.UTF8 {
		switch tv {
		case 2:
			return t + "!"
		case 3:
			return string(rune(0xe000 + slot%6))
		case 4:
			return ""
		case 5:
			return "x"
		}
		return t
	}
	if !k.Simple && tv == 5 {
		// composite fonts with the fixed CMap: a glyph shown without text (a caller
		// showing a glyph by its ID, the tail of a one-to-many substitution)
		return ""
	}
	switch tv {
	case 2:
		if t == " " {
			return "\u00a0"
		}
		return t + "!"
	case 3:
		return t + "?"
	case 4:
		return t + "#"
	case 5:
		return t + "%"
	}
	return t
}

// ---------------------------------------------------------------------------
// behaviours and records

type item struct {
	Slot int `json:"slot"`
	TV   int `json:"tv"`
}
type step struct {
	Op    string `json:"op"`
	F     int    `json:"f"`
	Items []item `json:"items"`
	// decoration of the one TextShowGlyphs call of a Show: number of rise changes
	// inside the glyph sequence, and 1 = no / 2 = some / 3 = many adjusted advances
	Rises int `json:"rises"`
	Kern  int `json:"kern"`
}
type behaviour struct {
	Kind  string `json:"kind"`
	Steps []step `json:"steps"`
}

type pairJ struct {
	G int   `json:"g"`
	T []int `json:"t"`
}
type codeJ struct {
	C []int `json:"c"`
	W int   `json:"w"`
	T []int `json:"t"`
}
type charJ struct {
	W int   `json:"w"`
	T []int `json:"t"`
}

// event: see Trace_FontCodes.  Unused fields carry zero values of the right type.
type event struct {
	Op    string  `json:"op"`
	F     int     `json:"f"`
	G     int     `json:"g"`
	T     []int   `json:"t"`
	OK    bool    `json:"ok"`
	C     []int   `json:"c"`
	W     int     `json:"w"`
	WT    []int   `json:"wt"`
	Pairs []pairJ `json:"pairs"`
	// Shape of a show (for the violation key): "plain", "kerning", "rise-change", "rise-change+kerning"
	Shape string  `json:"shape"`
	Codes []codeJ `json:"codes"`
	Chars []charJ `json:"chars"`
}

type fontJ struct {
	Label    string `json:"label"`
	Cap      int    `json:"cap"`
	PerGlyph bool   `json:"perglyph"` // composite font with a fixed CMap: one code per glyph
}

type record struct {
	Fonts   []fontJ `json:"fonts"`
	Events  []event `json:"events"`
	Err     string  `json:"err"`
	// CloseErr is the error of closing the document; the specification allows
	// one only after an Encode that failed for lack of codes
	CloseErr string `json:"closeerr"`
	// Tolerate: second judgement of a document that shows the recorded finding
	// (shared code in a font with one code per glyph), so that it cannot hide
	// another failure in the same document
	Tolerate bool   `json:"tolerate"`
	Version  string `json:"version"`
	Origin   string `json:"origin"`
}

// docCase is what a replay needs: which fonts, which behaviour, which version.
type docCase struct {
	Fonts   []string  `json:"fonts"`
	B       behaviour `json:"behaviour"`
	Version string    `json:"version"`
	Pretty  bool      `json:"pretty"`
	Origin  string    `json:"origin"`
	// Overflow: new pairs are offered to a font that has no codes left (the
	// property quantifies up to the limit; only these documents go beyond it)
	Overflow bool `json:"overflow"`
	// NoSpace: the first font never gets its space glyph, so that code 32 (which
	// the simple encoders keep for "space") is the last code left when it is filled
	NoSpace bool `json:"nospace"`
	// LastParity: 1 / 2 = the pair that takes the first font's last free code has
	// a text starting with an odd / even code point (the allocator scores
	// candidate codes by the low bits of rune XOR code); 0 = whatever comes
	LastParity int `json:"lastparity"`
	// EdgeWidth: the first font only gets glyphs whose width is the font's default
	// width (what an unused code has; /MissingWidth in the file): the used codes at
	// both ends of /FirstChar../LastChar then are the ones a writer leaves out of
	// /Widths
	EdgeWidth bool `json:"edgewidth"`
}

func runes(s string) []int {
	out := []int{}
	for _, r := range s {
		out = append(out, int(r))
	}
	return out
}
func ints(b []byte) []int {
	out := make([]int, len(b))
	for i, x := range b {
		out[i] = int(x)
	}
	return out
}
func micro(w float64) int { return int(math.Round(w * 1e6)) }

func newEvent(op string, f int) event {
	return event{Op: op, F: f, T: []int{}, C: []int{}, WT: []int{}, Pairs: []pairJ{}, Codes: []codeJ{}, Chars: []charJ{}}
}

var versions = map[string]pdf.Version{"1.2": pdf.V1_2, "1.3": pdf.V1_3, "1.4": pdf.V1_4, "1.5": pdf.V1_5, "1.6": pdf.V1_6, "1.7": pdf.V1_7, "2.0": pdf.V2_0}
var versionNames = []string{"1.2", "1.3", "1.4", "1.5", "1.6", "1.7", "2.0"}

const capComposite = 60000 // composite fonts never run out of codes in these documents

// execute runs one behaviour on real fonts and returns the record of events.
func execute(dc *docCase, kinds map[string]fontKind) (rec record, herr error) {
	rec = record{Fonts: []fontJ{}, Events: []event{}, Version: dc.Version, Origin: dc.Origin}
	defer func() {
		if r := recover(); r != nil {
			rec.Err = fmt.Sprintf("panic: %v", r)
		}
	}()
	var fonts []font.Layouter
	var pools [][]pair
	var fkinds []fontKind
	for _, label := range dc.Fonts {
		k, ok := kinds[label]
		if !ok {
			return rec, fmt.Errorf("harness: unknown font kind %q", label)
		}
		F, err := k.Make()
		if err != nil {
			return rec, fmt.Errorf("harness: cannot make font %s: %v", label, err)
		}
		p := pool(F, k)
		if len(p) == 0 {
			return rec, fmt.Errorf("harness: font %s has an empty pool", label)
		}
		fonts = append(fonts, F)
		pools = append(pools, p)
		fkinds = append(fkinds, k)
		c := capComposite
		if k.Simple {
			c = 256
		}
		rec.Fonts = append(rec.Fonts, fontJ{Label: label, Cap: c, PerGlyph: !k.Simple && !k.UTF8})
	}

	buf := &bytes.Buffer{}
	doc, err := document.WriteSinglePage(buf, document.A4, versions[dc.Version], &pdf.WriterOptions{HumanReadable: dc.Pretty})
	if err != nil {
		return rec, fmt.Errorf("harness: %v", err)
	}
	doc.TextBegin()
	doc.TextFirstLine(36, 800)
	cur := -1
	offered := map[string]bool{}
	nOffered := make([]int, len(fonts))
	order := make([][]pair, len(fonts))
	var w0 int
	var gw map[int]int
	if dc.EdgeWidth {
		var err error
		w0, gw, err = glyphWidths(fkinds[0], pools[0])
		if err != nil {
			return rec, err
		}
	}
	isSpace := func(f, slot int) bool {
		p := pools[f][(slot-1)%len(pools[f])]
		if dc.EdgeWidth && f == 0 && gw[p.GID] != w0 {
			return true // not space, but filtered the same way
		}
		if !dc.NoSpace {
			return false
		}
		return p.Text == " " || p.Text == "\u00a0"
	}
	bind := func(f int, it item) pair {
		p := pools[f][(it.Slot-1)%len(pools[f])]
		p.Text = variant(fkinds[f], p.Text, it.Slot, it.TV)
		return p
	}
	encode := func(f int, p pair) {
		F := fonts[f]
		e := newEvent("enc", f+1)
		e.G, e.T = p.GID, runes(p.Text)
		code, ok := F.Encode(glyphID(p.GID), p.Text)
		e.OK = ok
		if ok {
			s := F.Codec().AppendCode(nil, code)
			e.C = ints(s)
			n := 0
			for info := range F.Codes(pdf.String(s)) {
				e.W, e.WT = micro(info.Width), runes(info.Text)
				n++
			}
			if n != 1 {
				rec.Err = fmt.Sprintf("writer-side Codes yields %d codes for one code", n)
			}
		}
		rec.Events = append(rec.Events, e)
	}
	nShow := 0
	show := func(f int, ps []pair, rises, kern int) {
		if len(ps) == 0 {
			return // nothing to show: the font is not even selected
		}
		if cur != f {
			doc.TextSetFont(fonts[f], 10)
			cur = f
		}
		seq := &font.GlyphSeq{}
		e := newEvent("show", f+1)
		for _, p := range ps {
			e.Pairs = append(e.Pairs, pairJ{p.GID, runes(p.Text)})
			seq.Seq = append(seq.Seq, font.Glyph{GID: glyphID(p.GID), Text: p.Text, Advance: advanceOf(fonts[f], p)})
		}
		// decoration: the positions follow from the number of the show, so that a
		// replay shows the same sequence
		nShow++
		lr := rand.New(rand.NewSource(int64(nShow)*7919 + int64(len(ps))))
		n := len(seq.Seq)
		kerned, risen := false, false
		if kern > 1 && n > 0 {
			for i := range seq.Seq {
				if kern == 3 && i%2 == 0 || kern == 2 && lr.Intn(3) == 0 {
					seq.Seq[i].Advance -= 0.2 + 0.1*float64(lr.Intn(6))
					kerned = true
				}
			}
		}
		if rises > 0 && n > 1 {
			cuts := map[int]bool{}
			for k := 0; k < rises; k++ {
				cuts[1+lr.Intn(n-1)] = true
			}
			rise := 0.0
			for i := range seq.Seq {
				if cuts[i] {
					rise = 3 - rise
					risen = true
				}
				seq.Seq[i].Rise = rise
			}
		}
		switch {
		case risen && kerned:
			e.Shape = "rise-change+kerning"
		case risen:
			e.Shape = "rise-change"
		case kerned:
			e.Shape = "kerning"
		default:
			e.Shape = "plain"
		}
		// one call: a rise change makes TextShowGlyphs emit several Tj/TJ operators
		doc.TextShowGlyphs(seq)
		doc.TextSecondLine(0, -1)
		rec.Events = append(rec.Events, e)
		if doc.Err != nil {
			rec.Err = "TextShowGlyphs: " + doc.Err.Error()
		}
	}
	for _, st := range dc.B.Steps {
		f := st.F - 1
		if f < 0 || f >= len(fonts) {
			return rec, fmt.Errorf("harness: step names font %d of %d", st.F, len(fonts))
		}
		var ps []pair
		for _, it := range st.Items {
			if f == 0 && isSpace(f, it.Slot) {
				continue
			}
			ps = append(ps, bind(f, it))
		}
		switch st.Op {
		case "fill":
			// fresh pairs until the font has no code left (simple fonts only)
			if rec.Fonts[f].Cap > 256 {
				continue
			}
			for tv := 1; tv <= nTexts && nOffered[f] < rec.Fonts[f].Cap; tv++ {
				for slot := 1; slot <= len(pools[f]) && nOffered[f] < rec.Fonts[f].Cap; slot++ {
					if f == 0 && isSpace(f, slot) {
						continue
					}
					p := bind(f, item{Slot: slot, TV: tv})
					k := fmt.Sprint(f, p)
					if offered[k] {
						continue
					}
					if dc.LastParity != 0 && nOffered[f] == rec.Fonts[f].Cap-1 {
						// the pair for the last free code: odd or even first code point
						rr := []rune(p.Text)
						if len(rr) == 0 || int(rr[0])%2 != dc.LastParity%2 {
							continue
						}
					}
					offered[k] = true
					order[f] = append(order[f], p)
					nOffered[f]++
					encode(f, p)
				}
			}
			continue
		case "showall":
			// every pair offered to the font so far, sixteen per text-showing operator
			for lo := 0; lo < len(order[f]); lo += 16 {
				k := lo / 16
				show(f, order[f][lo:min(lo+16, len(order[f]))], []int{0, 1, 0, 2, 3, 0}[k%6], []int{1, 3, 2, 1, 3, 2}[(k/2)%6])
				if rec.Err != "" {
					return rec, nil
				}
			}
			continue
		}
		if !dc.Overflow {
			// stay within the font's capacity: pairs a full font has not seen are dropped
			kept := ps[:0]
			for _, p := range ps {
				k := fmt.Sprint(f, p)
				if !offered[k] && nOffered[f] >= rec.Fonts[f].Cap {
					continue
				}
				if !offered[k] {
					nOffered[f]++
					order[f] = append(order[f], p)
				}
				offered[k] = true
				kept = append(kept, p)
			}
			ps = kept
		} else {
			for _, p := range ps {
				k := fmt.Sprint(f, p)
				if !offered[k] {
					offered[k] = true
					nOffered[f]++
					order[f] = append(order[f], p)
				}
			}
		}
		for _, p := range ps {
			encode(f, p)
		}
		if st.Op != "show" {
			continue
		}
		show(f, ps, st.Rises, st.Kern)
		if rec.Err != "" {
			return rec, nil
		}
	}
	doc.TextEnd()
	names := map[pdf.Name]int{}
	if err := doc.Close(); err != nil {
		rec.CloseErr = err.Error()
		return rec, nil
	}
	for name, inst := range doc.Page.Resources.Font {
		for i, F := range fonts {
			if inst == font.Instance(F) {
				names[name] = i
			}
		}
	}

	// read back
	data := buf.Bytes()
	r, err := pdf.NewReader(bytes.NewReader(data), int64(len(data)), nil)
	if err != nil {
		rec.Err = "reopen: " + err.Error()
		return rec, nil
	}
	_, pageDict, err := pagetree.GetPage(r, 0)
	if err != nil {
		rec.Err = "GetPage: " + err.Error()
		return rec, nil
	}
	x := pdf.NewExtractor(r)
	pg, err := pdf.Decode(pdf.CursorAt(x, nil), pageDict, page.Decode)
	if err != nil {
		rec.Err = "page.Decode: " + err.Error()
		return rec, nil
	}
	// the fonts, extracted directly from the resource dictionary
	extracted := map[pdf.Name]font.Instance{}
	c := pdf.NewCursor(r)
	resDict, err := c.Dict(pageDict["Resources"])
	if err != nil {
		rec.Err = "resources: " + err.Error()
		return rec, nil
	}
	fontDict, err := c.Dict(resDict["Font"])
	if err != nil {
		rec.Err = "font resources: " + err.Error()
		return rec, nil
	}
	for name, ref := range fontDict {
		inst, err := pdf.Decode(pdf.NewCursor(r), ref, extract.Font)
		if err != nil {
			rec.Err = fmt.Sprintf("extract.Font(%s): %v", name, err)
			return rec, nil
		}
		extracted[name] = inst
	}

	rd := reader.New(x)
	var chars []charJ
	var curName pdf.Name
	rd.Character = func(cd font.Code) error {
		chars = append(chars, charJ{W: micro(cd.Width), T: runes(cd.Text)})
		return nil
	}
	// every Show is followed by a Td: the Tj/TJ operators up to the next Td (or font
	// change, or the end of the text object) are what one TextShowGlyphs call wrote
	var pending pdf.String
	var pendingName pdf.Name
	havePending := false
	flush := func() error {
		if !havePending {
			return nil
		}
		s, name := pending, pendingName
		pending, havePending = nil, false
		fi, ok := names[name]
		if !ok {
			return fmt.Errorf("text shown with unknown font %q", name)
		}
		inst := extracted[name]
		if inst == nil {
			return fmt.Errorf("font %q not extracted", name)
		}
		e := newEvent("read", fi+1)
		// split the string with the extracted font's codec, decode with its Codes
		codec := inst.Codec()
		var pieces [][]int
		for rest := []byte(s); len(rest) > 0; {
			_, k, _ := codec.Decode(rest)
			if k <= 0 {
				k = 1
			}
			pieces = append(pieces, ints(rest[:k]))
			rest = rest[k:]
		}
		i := 0
		for info := range inst.Codes(s) {
			cj := codeJ{C: []int{}, W: micro(info.Width), T: runes(info.Text)}
			if i < len(pieces) {
				cj.C = pieces[i]
			}
			e.Codes = append(e.Codes, cj)
			i++
		}
		if i != len(pieces) {
			e.Codes = append(e.Codes, codeJ{C: []int{}, T: []int{}}) // the judge sees the disagreement
		}
		e.Chars = append(e.Chars, chars...)
		chars = nil
		rec.Events = append(rec.Events, e)
		return nil
	}
	rd.EveryOp = func(op string, args []pdf.Object) error {
		switch op {
		case "Tf":
			if err := flush(); err != nil {
				return err
			}
			if len(args) > 0 {
				if n, ok := args[0].(pdf.Name); ok {
					curName = n
				}
			}
		case "Td", "TD", "T*", "ET", "BT", "Tm":
			return flush()
		case "Tj", "TJ":
			if !havePending {
				havePending, pendingName = true, curName
			}
			for _, a := range args {
				switch v := a.(type) {
				case pdf.String:
					pending = append(pending, v...)
				case pdf.Array:
					for _, el := range v {
						if str, ok := el.(pdf.String); ok {
							pending = append(pending, str...)
						}
					}
				}
			}
		}
		return nil
	}
	if err := rd.ProcessPage(pg); err != nil {
		rec.Err = "ProcessPage: " + err.Error()
	} else if err := flush(); err != nil {
		rec.Err = "ProcessPage: " + err.Error()
	}
	return rec, nil
}

var widthCache sync.Map // label -> *widthInfo

type widthInfo struct {
	w0 int
	gw map[int]int
}

// glyphWidths learns, on scratch instances of the font (Encode allocates codes),
// the width of a code nothing is allocated to and the width of every pool glyph
// (1e-6 text space units).
func glyphWidths(k fontKind, pool []pair) (int, map[int]int, error) {
	if v, ok := widthCache.Load(k.Label); ok {
		wi := v.(*widthInfo)
		return wi.w0, wi.gw, nil
	}
	wi := &widthInfo{gw: map[int]int{}}
	var F font.Layouter
	used := 0
	for _, p := range pool {
		if _, ok := wi.gw[p.GID]; ok {
			continue
		}
		if F == nil || used >= 200 {
			var err error
			F, err = k.Make()
			if err != nil {
				return 0, nil, fmt.Errorf("harness: cannot make font %s: %v", k.Label, err)
			}
			used = 0
			for info := range F.Codes(pdf.String{0}) {
				wi.w0 = micro(info.Width)
			}
		}
		used++
		wi.gw[p.GID] = micro(advanceOf(F, p) / 10)
	}
	widthCache.Store(k.Label, wi)
	return wi.w0, wi.gw, nil
}

// advanceOf is the font's own width for the glyph, scaled to 10pt.
func advanceOf(F font.Layouter, p pair) float64 {
	code, ok := F.Encode(glyphID(p.GID), p.Text)
	if !ok {
		return 0
	}
	s := F.Codec().AppendCode(nil, code)
	for info := range F.Codes(pdf.String(s)) {
		return info.Width * 10
	}
	return 0
}

// ---------------------------------------------------------------------------

func genBehaviours(ctx *core.Ctx, nf int, seed int64, walks, sweeps int) ([]behaviour, error) {
	cfg := fmt.Sprintf("INIT Init\nNEXT Next\nCONSTANTS NF = %d\n NSlots = %d\n NTexts = 5\n Steps = %d\n MaxShow = 12\n NWalks = %d\n NSweeps = %d\n SweepTo = %d\n",
		nf, ctx.Pick(60, 120), ctx.Pick(30, 60), walks, sweeps, 300)
	bs, _, err := core.GenCases[behaviour](ctx, core.TLCOpts{Dir: "font", Module: "Gen_FontCodes", CfgText: cfg, Mode: "simulate-gen",
		Seed: seed, XmxMB: 2000, Timeout: ctx.Dur(5, 15), Quiet: true})
	return bs, err
}

func run(ctx *core.Ctx) error {
	ctx.Ev.Rule = "cases = documents (2-4 fonts, one TLC-generated interleaving of Encode/Show steps) written and read back; evaluations = Encode calls + codes read back; " +
		"non-trivial = at least one glyph shown and read back; distinct = distinct (font set, behaviour, version)"
	ctx.Ev.Assume("TLC evaluates FontCodes.tla faithfully; a (glyph, text) pair's width is what the writer-side Codes reports right after Encode")
	ctx.Ev.Assume("glyph outlines and the layout of the width arrays are not modelled; widths are compared to 1/1000 text space unit")

	cfg := "MC_FontCodes_q.cfg"
	if ctx.Thorough() {
		cfg = "MC_FontCodes_t.cfg"
	}
	var mcErr error
	var wg sync.WaitGroup
	wg.Add(1)
	go func() {
		defer wg.Done()
		_, mcErr = ctx.MustHold(core.TLCOpts{Dir: "font", Module: "MC_FontCodes", Cfg: cfg, Workers: 6, XmxMB: 4000,
			Constants: "2 fonts (caps 2 and 3), 2 glyphs x 2 texts; see " + cfg, Timeout: ctx.Dur(6, 30)})
	}()

	kinds := fontKinds()
	byLabel := map[string]fontKind{}
	for _, k := range kinds {
		byLabel[k.Label] = k
	}
	ctx.Ev.Set("font_kinds", len(kinds))

	// the lowest PDF version each font kind can be embedded in (a version the
	// library refuses is not a case of the property)
	minVer := map[string]int{}
	for _, k := range kinds {
		minVer[k.Label] = -1
		for vi, v := range versionNames {
			probe := &docCase{Fonts: []string{k.Label}, Version: v, B: behaviour{Kind: "probe", Steps: []step{{Op: "show", F: 1, Items: []item{{1, 1}, {2, 1}}}}}}
			rec, err := execute(probe, byLabel)
			if err != nil {
				return core.Infra("%v", err)
			}
			if rec.CloseErr == "" && rec.Err == "" {
				minVer[k.Label] = vi
				break
			}
		}
		if minVer[k.Label] < 0 {
			return core.Infra("font kind %s cannot be embedded in any PDF version", k.Label)
		}
	}

	// documents: every font kind is the first font of one document per round
	// (companions are drawn at random).  A simple font's own document is a sweep:
	// its first font is filled up to its 256 codes and everything is shown, so that
	// every code 0..255 of every simple font kind is read back.  A few extra sweeps
	// go beyond the limit (their files cannot be closed, see Trace_FontCodes).
	rd := ctx.Rand("documents")
	rounds := ctx.Pick(1, 6)
	var docs []*docCase
	type want struct{ walks, sweeps []*docCase }
	perNF := map[int]*want{2: {}, 3: {}, 4: {}}
	newDocV := func(primary fontKind, sweep, overflow, noSpace bool, parity int, edge bool, vi int) {
		nf := 2 + rd.Intn(3)
		dc := &docCase{Pretty: rd.Intn(2) == 0, Overflow: overflow, NoSpace: noSpace, LastParity: parity, EdgeWidth: edge}
		dc.Fonts = append(dc.Fonts, primary.Label)
		for len(dc.Fonts) < nf {
			dc.Fonts = append(dc.Fonts, kinds[rd.Intn(len(kinds))].Label)
		}
		if !sweep {
			rd.Shuffle(len(dc.Fonts), func(i, j int) { dc.Fonts[i], dc.Fonts[j] = dc.Fonts[j], dc.Fonts[i] })
		}
		lo := 0
		for _, l := range dc.Fonts {
			lo = max(lo, minVer[l])
		}
		dc.Version = versionNames[lo+rd.Intn(len(versionNames)-lo)]
		if vi >= lo {
			dc.Version = versionNames[vi]
		}
		if sweep {
			perNF[nf].sweeps = append(perNF[nf].sweeps, dc)
		} else {
			perNF[nf].walks = append(perNF[nf].walks, dc)
		}
		docs = append(docs, dc)
	}
	newDoc := func(primary fontKind, sweep, overflow, noSpace bool, parity int) {
		newDocV(primary, sweep, overflow, noSpace, parity, false, -1)
	}
	var simpleKinds []fontKind
	for _, k := range kinds {
		if k.Simple {
			simpleKinds = append(simpleKinds, k)
		}
	}
	for round := 0; round < rounds; round++ {
		for _, ki := range rd.Perm(len(kinds)) {
			k := kinds[ki]
			if !k.Simple {
				newDoc(k, false, false, false, 0)
				continue
			}
			// a simple font's own documents: filled to 256 codes with the space glyph
			// (last pair odd / even in turn) and without it (code 32 is left for the
			// last pair: odd first, even in the next round); random walks in between
			// the font used with glyphs of its default width only (the edges of /Widths);
			// the Type 3 font with a wide .notdef in every PDF version
			if k.Label == "type3/notdef-width" {
				for vi := range versionNames {
					newDocV(k, true, false, false, 0, true, vi)
					newDocV(k, false, false, false, 0, false, vi)
				}
			} else if round%2 == 0 {
				newDocV(k, true, false, false, 0, true, -1)
			}
			switch round % 2 {
			case 0:
				newDoc(k, true, false, false, 1+(ki+round/2)%2)
				newDoc(k, true, false, true, 1)
			default:
				newDoc(k, false, false, false, 0)
				newDoc(k, true, false, true, 2)
			}
		}
	}
	for i := 0; i < ctx.Pick(4, 16); i++ {
		newDoc(simpleKinds[rd.Intn(len(simpleKinds))], true, true, i%2 == 1, 0)
	}
	for nf := 2; nf <= 4; nf++ { // fixed order: the seeded generator is shared
		w := perNF[nf]
		if len(w.walks)+len(w.sweeps) == 0 {
			continue
		}
		bs, err := genBehaviours(ctx, nf, ctx.Seed*100+int64(nf), len(w.walks), len(w.sweeps))
		if err != nil {
			wg.Wait()
			return err
		}
		if len(bs) != len(w.walks)+len(w.sweeps) {
			wg.Wait()
			return core.Infra("Gen_FontCodes produced %d behaviours, wanted %d", len(bs), len(w.walks)+len(w.sweeps))
		}
		for i, d := range append(append([]*docCase{}, w.walks...), w.sweeps...) {
			d.B = bs[i] // Gen_FontCodes emits the walks first, then the sweeps
			kind := bs[i].Kind
			if d.Overflow {
				kind += "-overflow"
			}
			if d.NoSpace {
				kind += "-nospace"
			}
			if d.EdgeWidth {
				kind += "-edgewidth"
			}
			if d.LastParity != 0 {
				kind += []string{"", "-lastodd", "-lasteven"}[d.LastParity]
			}
			d.Origin = fmt.Sprintf("%s/%s/v%s", kind, strings.Join(d.Fonts, "+"), d.Version)
		}
	}
	ctx.Ev.AddReplayed(len(docs))

	recs := make([]record, len(docs))
	var first error
	var mu sync.Mutex
	sem := make(chan struct{}, 12)
	var wg2 sync.WaitGroup
	for i, d := range docs {
		wg2.Add(1)
		sem <- struct{}{}
		go func(i int, d *docCase) {
			defer wg2.Done()
			defer func() { <-sem }()
			rec, err := execute(d, byLabel)
			if err != nil {
				mu.Lock()
				if first == nil {
					first = core.Infra("%v", err)
				}
				mu.Unlock()
				return
			}
			recs[i] = rec
		}(i, d)
	}
	wg2.Wait()
	if first != nil {
		wg.Wait()
		return first
	}
	encs, reads, overflow := 0, 0, 0
	filled := 0
	notFilled := map[string]bool{}
	for _, r := range recs {
		used := map[string]bool{}
		for _, e := range r.Events {
			if e.Op == "enc" && e.OK && e.F == 1 {
				used[fmt.Sprint(e.C)] = true
			}
		}
		if len(r.Fonts) > 0 && r.Fonts[0].Cap == 256 && len(used) == 256 {
			filled++
		} else if strings.HasPrefix(r.Origin, "sweep") && !strings.HasPrefix(r.Origin, "sweep-overflow") {
			notFilled[fmt.Sprintf("%s (%d codes)", r.Fonts[0].Label, len(used))] = true
		}
	}
	ctx.Ev.Set("documents_with_first_font_filled_to_256_codes", filled)
	ctx.Ev.Set("sweeps_not_reaching_256_codes", core.SortedKeys(notFilled))
	for i, r := range recs {
		shown := false
		for _, e := range r.Events {
			switch e.Op {
			case "enc":
				encs++
				if !e.OK {
					overflow++
				}
			case "read":
				reads += len(e.Codes)
				shown = true
			}
		}
		if shown {
			data, _ := json.Marshal(docs[i])
			ctx.Ev.Distinct(string(data))
		}
	}
	ctx.Ev.Eval(encs + reads)
	ctx.Ev.Set("encode_calls", encs)
	ctx.Ev.Set("encode_overflows", overflow)
	ctx.Ev.Set("codes_read_back", reads)
	if len(recs) > 0 {
		r := recs[0]
		if len(r.Events) > 6 {
			r.Events = append(append([]event{}, r.Events[:3]...), r.Events[len(r.Events)-2:]...)
		}
		ctx.Ev.Sample(map[string]any{"kind": "document record (events truncated) judged by Trace_FontCodes", "record": r})
	}

	o := traceOpts
	o.Timeout = ctx.Dur(10, 30)
	bad, err := core.JudgeCases(ctx, o, recs, 8, 10)
	wg.Wait()
	if err != nil {
		return err
	}
	if mcErr != nil {
		return mcErr
	}
	return report(ctx, recs, docs, bad)
}

const sharedComposite = "encode/code-shared/composite"

func report(ctx *core.Ctx, recs []record, docs []*docCase, bad []int) error {
	type cls struct {
		n     int
		first int
		what  string
	}
	byKey := map[string]*cls{}
	add := func(k, what string, b int) {
		if byKey[k] == nil {
			byKey[k] = &cls{first: b, what: what}
		}
		byKey[k].n++
	}
	var retry []int
	for _, b := range bad {
		k, what := classify(&recs[b], false)
		add(k, what, b)
		if k == sharedComposite {
			retry = append(retry, b)
		}
	}
	// documents rejected for the shared code of a one-code-per-glyph font are judged
	// again with that answer tolerated: anything else wrong in them must still show
	if len(retry) > 0 {
		again := make([]record, len(retry))
		for i, b := range retry {
			again[i] = recs[b]
			again[i].Tolerate = true
		}
		o := traceOpts
		o.Timeout = ctx.Dur(10, 30)
		bad2, err := core.JudgeCases(ctx, o, again, 8, 10)
		if err != nil {
			return err
		}
		for _, j := range bad2 {
			k, what := classify(&again[j], true)
			if k == sharedComposite || k == "unclassified" {
				k, what = "unclassified/beside-shared-code", "Trace_FontCodes rejects the document even when the shared code of the composite font is tolerated"
			}
			add(k, what, retry[j])
		}
		ctx.Ev.Set("documents_rejudged_with_finding_tolerated", len(retry))
		ctx.Ev.Set("documents_still_rejected", len(bad2))
	}
	keys := make([]string, 0, len(byKey))
	for k := range byKey {
		keys = append(keys, k)
	}
	sort.Strings(keys)
	for _, k := range keys {
		c := byKey[k]
		ctx.Violation(k, fmt.Sprintf("%s (%d documents of this class rejected by Trace_FontCodes; first: %s)", c.what, c.n, recs[c.first].Origin), docs[c.first])
	}
	return nil
}

// classify locates the first event the rules reject (for the key only).
func classify(r *record, tolerant bool) (string, string) {
	if r.Err == "" && r.CloseErr != "" {
		overflowed := false
		for _, e := range r.Events {
			if e.Op == "enc" && !e.OK {
				overflowed = true
			}
		}
		if !overflowed {
			r.Err = "Close: " + r.CloseErr
		}
	}
	if r.Err != "" {
		w := r.Err
		if i := strings.Index(w, ":"); i > 0 {
			w = w[:i]
		}
		return "error/" + strings.ReplaceAll(w, " ", "-"), "go-pdf failed: " + r.Err
	}
	type tab struct {
		code map[string][]int
		info map[string]event
	}
	tabs := make([]tab, len(r.Fonts))
	for i := range tabs {
		tabs[i] = tab{map[string][]int{}, map[string]event{}}
	}
	pk := func(g int, t []int) string { return fmt.Sprint(g, t) }
	// the class of a font kind: the 14 standard fonts and the 12 Go fonts are one class each
	kindOf := func(f int) string {
		l := r.Fonts[f-1].Label
		switch {
		case strings.HasPrefix(l, "standard/"):
			return "standard"
		case strings.HasSuffix(l, "/simple") && strings.HasPrefix(l, "gofont/"), l == "sample/TrueTypeSimple", l == "sample/OpenTypeGlyfSimple":
			return "glyf-simple" // TrueType outlines in a simple font
		case strings.HasPrefix(l, "gofont/"):
			return "gofont-" + l[strings.LastIndex(l, "/")+1:]
		}
		return strings.ReplaceAll(l, "/", "-")
	}
	type want struct {
		f     int
		cs    [][]int
		shape string
	}
	var queue []want
	// what was wrong with a string read back; shows with rise changes / adjusted
	// advances (several operators, numbers inside TJ arrays) form their own classes
	rkey := func(w want, what string, f int) string {
		if w.shape != "" && w.shape != "plain" {
			if what == "code-count" || what == "code-split" || what == "character-count" {
				// the strings in the content stream are wrong: the builder's business, not the font's
				return "show/" + w.shape + "/" + what
			}
			return "show/" + w.shape + "/" + what + "/" + kindOf(f)
		}
		return "read/" + what + "/" + kindOf(f)
	}
	reads := 0
	for _, e := range r.Events {
		t := tabs[e.F-1]
		switch e.Op {
		case "enc":
			if c, ok := t.code[pk(e.G, e.T)]; ok {
				if !e.OK || fmt.Sprint(c) != fmt.Sprint(e.C) {
					return "encode/not-remembered/" + kindOf(e.F), fmt.Sprintf("Encode(%d, %q) answered differently the second time", e.G, string(toRunes(e.T)))
				}
				continue
			}
			if !e.OK {
				taken := false
				if r.Fonts[e.F-1].PerGlyph {
					for _, x := range t.info {
						if x.G == e.G {
							taken = true
						}
					}
				}
				if len(t.info) < r.Fonts[e.F-1].Cap && !taken {
					return "encode/fails-with-free-codes/" + kindOf(e.F), fmt.Sprintf("Encode(%d, %q) fails with %d codes in use", e.G, string(toRunes(e.T)), len(t.info))
				}
				continue
			}
			if holder, used := t.info[fmt.Sprint(e.C)]; used {
				// the recorded finding: a font with one code per glyph answers the
				// glyph's code for a second text of the same glyph
				known := r.Fonts[e.F-1].PerGlyph && holder.G == e.G
				if known && tolerant {
					t.code[pk(e.G, e.T)] = e.C // alias of the glyph's one code
					continue
				}
				cl := kindOf(e.F)
				if known {
					cl = "composite"
				}
				return "encode/code-shared/" + cl, fmt.Sprintf("Encode(%d, %q) returns code %v which the pair (%d, %q) holds", e.G, string(toRunes(e.T)), e.C, holder.G, string(toRunes(holder.T)))
			}
			if fmt.Sprint(e.WT) != fmt.Sprint(e.T) {
				return "encode/writer-text/" + kindOf(e.F), fmt.Sprintf("writer-side Codes gives text %q for the pair (%d, %q)", string(toRunes(e.WT)), e.G, string(toRunes(e.T)))
			}
			t.code[pk(e.G, e.T)] = e.C
			t.info[fmt.Sprint(e.C)] = e
		case "show":
			var cs [][]int
			for _, p := range e.Pairs {
				if c, ok := t.code[pk(p.G, p.T)]; ok {
					cs = append(cs, c)
				}
			}
			if len(cs) > 0 {
				queue = append(queue, want{e.F, cs, e.Shape})
			}
		case "read":
			if reads >= len(queue) {
				return "read/extra-string/" + kindOf(e.F), "the page holds a text-showing operator that was not written"
			}
			w := queue[reads]
			reads++
			if w.f != e.F || len(e.Codes) != len(w.cs) {
				return rkey(w, "code-count", e.F), fmt.Sprintf("a string of %d codes reads back as %d codes", len(w.cs), len(e.Codes))
			}
			if len(e.Chars) != len(w.cs) {
				return rkey(w, "character-count", e.F), fmt.Sprintf("a string of %d codes gives %d Character callbacks", len(w.cs), len(e.Chars))
			}
			for i, c := range w.cs {
				inf := tabs[e.F-1].info[fmt.Sprint(c)]
				if fmt.Sprint(e.Codes[i].C) != fmt.Sprint(c) {
					return rkey(w, "code-split", e.F), fmt.Sprintf("code %v is read back as %v", c, e.Codes[i].C)
				}
				if fmt.Sprint(e.Codes[i].T) != fmt.Sprint(inf.T) || fmt.Sprint(e.Chars[i].T) != fmt.Sprint(inf.T) {
					return rkey(w, "text", e.F), fmt.Sprintf("glyph %d shown with text %q reads back as %q (extract.Font) / %q (reader)", inf.G, string(toRunes(inf.T)), string(toRunes(e.Codes[i].T)), string(toRunes(e.Chars[i].T)))
				}
				if abs(e.Codes[i].W-inf.W) > 1000 || abs(e.Chars[i].W-inf.W) > 1000 {
					return rkey(w, "width", e.F), fmt.Sprintf("glyph %d of width %d reads back with width %d (extract.Font) / %d (reader), 1e-6 units", inf.G, inf.W, e.Codes[i].W, e.Chars[i].W)
				}
			}
		}
	}
	if r.CloseErr == "" && reads != len(queue) {
		return "read/missing-string", fmt.Sprintf("%d strings shown, %d read back", len(queue), reads)
	}
	return "unclassified", "Trace_FontCodes rejects the document"
}

func abs(a int) int {
	if a < 0 {
		return -a
	}
	return a
}

func toRunes(t []int) []rune {
	rr := make([]rune, len(t))
	for i, x := range t {
		rr[i] = rune(x)
	}
	return rr
}

func replay(ctx *core.Ctx, raw json.RawMessage) error {
	var dc docCase
	if err := json.Unmarshal(raw, &dc); err != nil {
		return core.Infra("replay: %v", err)
	}
	byLabel := map[string]fontKind{}
	for _, k := range fontKinds() {
		byLabel[k.Label] = k
	}
	rec, err := execute(&dc, byLabel)
	if err != nil {
		return core.Infra("replay: %v", err)
	}
	bad, err := core.JudgeCases(ctx, traceOpts, []record{rec}, 1, 1)
	if err != nil {
		return err
	}
	fmt.Printf("  %d events, err=%q\n", len(rec.Events), rec.Err)
	return report(ctx, []record{rec}, []*docCase{&dc}, bad)
}
