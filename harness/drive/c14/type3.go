package c14

import (
	"math"

	"seehuhn.de/go/geom/matrix"
	"seehuhn.de/go/sfnt/glyph"

	"seehuhn.de/go/pdf"
	"seehuhn.de/go/pdf/font"
	"seehuhn.de/go/pdf/font/type3"
	"seehuhn.de/go/pdf/graphics/content"
	"seehuhn.de/go/pdf/graphics/content/builder"
	"seehuhn.de/go/pdf/verifx"
)

// type3NotdefWidth makes a Type 3 font whose glyph 0 (the .notdef stand-in) has a
// width that is not zero and that several glyphs share: the width of the digits
// of the TrueType test font.  The font dictionary's /Widths then leaves out the
// used codes at both ends which have that width and relies on /MissingWidth of
// the font descriptor.  (The Type 3 sample of internal/fonttypes has an empty
// glyph 0, so its MissingWidth is 0.)  The glyphs are boxes: outlines are not
// C14's business.
func type3NotdefWidth() (font.Layouter, error) {
	src := verifx.TrueType()
	info := *src
	info.EnsureGlyphNames()

	box := func(width float64, draw bool) (content.Stream, error) {
		b := builder.New(content.Glyph, nil, pdf.V2_0)
		if draw {
			b.Type3UncoloredGlyph(width, 0, 0, 0, width, 700)
			b.Rectangle(0, 0, width, 700)
			b.Fill()
		} else {
			b.Type3UncoloredGlyph(width, 0, 0, 0, 0, 0)
		}
		return b.Harvest()
	}

	// glyph space is 1/1000 text space unit (type3.Font.New converts the width of
	// glyph 0 to 1/1000 units but passes the other widths on in glyph space, so only
	// with this font matrix the two agree)
	q := 1000 / float64(info.UnitsPerEm)
	widthOf := func(gid glyph.ID) float64 { return math.Round(info.GlyphWidth(gid) * q) }
	w0 := 0.0
	for i := 0; i < info.NumGlyphs(); i++ {
		if info.GlyphName(glyph.ID(i)) == "zero" {
			w0 = widthOf(glyph.ID(i))
		}
	}
	notdef, err := box(w0, false)
	if err != nil {
		return nil, err
	}
	fnt := &type3.Font{
		Glyphs:         []*type3.Glyph{{Content: notdef}},
		PostScriptName: info.FontName + "-Boxes",
		FontMatrix:     matrix.Matrix{0.001, 0, 0, 0.001, 0, 0},
		FontFamily:     info.FamilyName,
		FontStretch:    info.Width,
		FontWeight:     info.Weight,
		IsFixedPitch:   info.IsFixedPitch(),
		ItalicAngle:    info.ItalicAngle,
		Ascent:         float64(info.Ascent) * q,
		Descent:        float64(info.Descent) * q,
		Leading:        float64(info.Ascent-info.Descent+info.LineGap) * q,
		CapHeight:      float64(info.CapHeight) * q,
		XHeight:        float64(info.XHeight) * q,
	}
	for i := 0; i < info.NumGlyphs(); i++ {
		name := info.GlyphName(glyph.ID(i))
		if name == ".notdef" || name == "" {
			continue
		}
		w := widthOf(glyph.ID(i))
		stream, err := box(w, w > 0)
		if err != nil {
			return nil, err
		}
		fnt.Glyphs = append(fnt.Glyphs, &type3.Glyph{Name: name, Content: stream})
	}
	return fnt.New()
}
