package c15

import (
	"bytes"
	"compress/zlib"
	"errors"
	"fmt"
	"io"

	"seehuhn.de/go/pdf"
	"seehuhn.de/go/pdf/page"
	"seehuhn.de/go/pdf/pagetree"

	"verif/harness/core"
	"verif/harness/drive/c01"
)

// Seams: a page whose /Contents is an array of streams is read as the
// concatenation of the streams with a separator at every seam (ISO 32000-2
// 7.8.2: the division may occur only at token boundaries).  The pieces used
// here carry NO white space at their end - the final EOL of the writer's
// serialisation is trimmed - so the separator is all that keeps the last
// token of one stream and the first of the next apart.  The length of the
// pieces is swept over the sizes of the read requests (512, 1024, 4096 and
// an exact-fit buffer), so that the end of a piece, the end of a read
// request and the EOF of the segment's source coincide.

type seamCase struct {
	ops    []Op
	cut    []int // operators per piece
	pieces [][]byte
	joined []byte // the pieces with LF at every seam: what the page's content is
	want   []Op
}

// padTo lengthens ops[from:to) (one piece) to exactly n serialised bytes
// (without its final EOL) by inserting text showing operators in front.
func padOps(n, have int) []Op {
	var out []Op
	// every padding operator "(xxx) Tj\n" has len(x)+6 bytes
	need := n - have
	for need > 0 {
		m := need - 6
		if m > 200 {
			m = 200
			if need-206 < 6 { // leave room for a last operator
				m = need - 6 - 6
			}
		}
		if m < 0 {
			return nil
		}
		out = append(out, mkOp("Tj", c01.VStr(bytes.Repeat([]byte{'x'}, m))))
		need -= m + 6
	}
	return out
}

func formatOps(ops []Op) []byte {
	real, err := toReal(ops)
	if err != nil {
		panic(err)
	}
	var b bytes.Buffer
	for _, op := range real {
		if err := op.Format(&b); err != nil {
			panic(err)
		}
	}
	return b.Bytes()
}

// seamCases: base operator sequences cut into 2-4 pieces; the first (and,
// for more pieces, every but the last) piece padded to each length of the
// sweep.
func seamCases(ctx *core.Ctx) []*seamCase {
	img := mkOp(imageName, c01.VDict(map[string]Val{"W": c01.VInt(1), "H": c01.VInt(1), "BPC": c01.VInt(8), "CS": c01.VName([]byte("G"))}), c01.VStr([]byte{0x80}))
	bases := [][][]Op{
		{{mkOp("q")}, {mkOp("Q")}},
		{{mkOp("q"), mkOp("re", c01.VInt(0), c01.VInt(0), c01.VInt(10), c01.VReal(2.5))}, {mkOp("f")}, {mkOp("Q")}},
		{{mkOp("BT"), mkOp("Tf", c01.VName([]byte("F1")), c01.VInt(12))}, {mkOp("Td", c01.VInt(1), c01.VInt(2)), mkOp("Tj", c01.VStr([]byte("a)b")))},
			{mkOp("TJ", c01.VArr(c01.VStr([]byte("x")), c01.VInt(-20)))}, {mkOp("ET")}},
		{{mkOp("q"), img}, {mkOp(rawName, c01.VStr([]byte("%c"))), mkOp("BMC", c01.VName([]byte("A#B")))}, {mkOp("EMC"), mkOp("Q")}},
	}
	var lengths []int
	add := func(lo, hi, step int) {
		for n := lo; n <= hi; n += step {
			lengths = append(lengths, n)
		}
	}
	add(500, 530, 1)
	add(1000, 1050, ctx.Pick(2, 1))
	add(4090, 4100, ctx.Pick(2, 1))
	lengths = append(lengths, 1024, 4096, 2048, 8192)
	nb := ctx.Pick(2, len(bases))
	var out []*seamCase
	for bi, base := range bases[:nb] {
		for _, n := range lengths {
			if bi > 0 && !ctx.Thorough() && n > 1100 {
				continue
			}
			sc := &seamCase{}
			for pi, piece := range base {
				ops := piece
				if pi < len(base)-1 {
					have := len(formatOps(piece)) - 1
					pad := padOps(n, have)
					if pad == nil {
						continue
					}
					ops = append(append([]Op{}, pad...), piece...)
				}
				data := formatOps(ops)
				data = data[:len(data)-1] // without the final EOL
				sc.ops = append(sc.ops, ops...)
				sc.cut = append(sc.cut, len(ops))
				sc.pieces = append(sc.pieces, data)
			}
			sc.joined = bytes.Join(sc.pieces, []byte{'\n'})
			sc.want = normOps(dropRaw(sc.ops))
			out = append(out, sc)
		}
	}
	return out
}

// tailSegment is a page.Segment over fixed bytes whose reader hands over the
// last bytes together with io.EOF (as a decompressor does) or separately.
type tailSegment struct {
	data    []byte
	withEOF bool
}

type tailReader struct {
	data    []byte
	pos     int
	withEOF bool
}

func (r *tailReader) Read(p []byte) (int, error) {
	if r.pos >= len(r.data) {
		return 0, io.EOF
	}
	n := copy(p, r.data[r.pos:])
	r.pos += n
	if r.pos >= len(r.data) && r.withEOF {
		return n, io.EOF
	}
	return n, nil
}

func (r *tailReader) Close() error { return nil }

func (s *tailSegment) RawBytes() (io.ReadCloser, error) {
	return &tailReader{data: s.data, withEOF: s.withEOF}, nil
}

func (s *tailSegment) Embed(*pdf.EmbedHelper) (pdf.Native, error) {
	return nil, errors.New("c15: tailSegment cannot be embedded")
}

// readFit reads r with requests that end exactly where the pieces end.
func readFit(r io.Reader, pieces [][]byte) ([]byte, error) {
	var out []byte
	for i := 0; ; i++ {
		want := 64
		if i < len(pieces) {
			want = len(pieces[i])
			if i > 0 {
				want++ // the separator before the piece
			}
		}
		buf := make([]byte, want)
		for len(buf) > 0 {
			n, err := r.Read(buf)
			out = append(out, buf[:n]...)
			buf = buf[n:]
			if err == io.EOF {
				return out, nil
			}
			if err != nil {
				return out, err
			}
			if len(out) > 1<<22 {
				return out, errors.New("reader does not end")
			}
		}
	}
}

// buildPages writes a PDF file by hand: one page per entry, /Contents an
// array of streams holding the pieces, FlateDecode or unfiltered.
func buildPages(cases []*seamCase, flate bool) ([]byte, []pdf.Reference) {
	var file bytes.Buffer
	var offsets []int
	obj := func(body string) int {
		offsets = append(offsets, file.Len())
		n := len(offsets)
		fmt.Fprintf(&file, "%d 0 obj\n%s\nendobj\n", n, body)
		return n
	}
	file.WriteString("%PDF-1.7\n%\xe2\xe3\xcf\xd3\n")
	// object numbers: 1 catalog, 2 pages, then per case: the streams, the page
	next := 3
	var pageRefs []pdf.Reference
	var kids bytes.Buffer
	type planned struct{ first, page int }
	var plans []planned
	for _, sc := range cases {
		plans = append(plans, planned{first: next, page: next + len(sc.pieces)})
		fmt.Fprintf(&kids, "%d 0 R ", next+len(sc.pieces))
		pageRefs = append(pageRefs, pdf.NewReference(uint32(next+len(sc.pieces)), 0))
		next += len(sc.pieces) + 1
	}
	obj("<</Type/Catalog/Pages 2 0 R>>")
	obj(fmt.Sprintf("<</Type/Pages/Kids[%s]/Count %d>>", kids.String(), len(cases)))
	for ci, sc := range cases {
		var refs bytes.Buffer
		for pi, piece := range sc.pieces {
			data := piece
			filter := ""
			if flate {
				var z bytes.Buffer
				w := zlib.NewWriter(&z)
				w.Write(piece)
				w.Close()
				data = z.Bytes()
				filter = "/Filter/FlateDecode"
			}
			offsets = append(offsets, file.Len())
			fmt.Fprintf(&file, "%d 0 obj\n<</Length %d%s>>\nstream\n", len(offsets), len(data), filter)
			file.Write(data)
			file.WriteString("\nendstream\nendobj\n")
			fmt.Fprintf(&refs, "%d 0 R ", plans[ci].first+pi)
		}
		obj(fmt.Sprintf("<</Type/Page/Parent 2 0 R/MediaBox[0 0 200 200]/Resources<<>>/Contents[%s]>>", refs.String()))
	}
	xref := file.Len()
	fmt.Fprintf(&file, "xref\n0 %d\n0000000000 65535 f \n", len(offsets)+1)
	for _, o := range offsets {
		fmt.Fprintf(&file, "%010d 00000 n \n", o)
	}
	fmt.Fprintf(&file, "trailer\n<</Size %d/Root 1 0 R>>\nstartxref\n%d\n%%%%EOF\n", len(offsets)+1, xref)
	return file.Bytes(), pageRefs
}

// delivered records the bytes a page reader handed out for a case.
func (c *collector) delivered(origin string, sc *seamCase, data []byte, err error) {
	c.ctx.Ev.Eval(1)
	got, serr := scanReal(bytesOpener(data), true)
	ok := err == nil && serr == nil && equalOps(dropRaw(normOps(got)), sc.want)
	r := &record{Kind: "fmt", Origin: origin, Ops: sc.ops, Bytes: c01.Ints(data), Pieces: pieceLens(sc), src: sc.ops, got: normOps(got),
		suspect: !ok, pair: pairSeq.Add(1), seam: sc}
	if err != nil {
		r.errText = err.Error()
	}
	dk := "seam|" + string(data)
	if !ok {
		dk = ""
	}
	c.add(r, dk)
}

// scanned records the operators a page reader returned for a case.
func (c *collector) scanned(origin string, sc *seamCase, got []Op, err error) {
	c.ctx.Ev.Eval(1)
	if err == nil && equalOps(dropRaw(normOps(got)), sc.want) {
		return
	}
	if got == nil {
		got = []Op{}
	}
	// the page's content is, by the standard, the pieces with a separator at every seam
	r := &record{Kind: "scan", Origin: origin, Ops: got, Bytes: c01.Ints(sc.joined), Pieces: pieceLens(sc), src: sc.ops, got: normOps(got),
		suspect: true, pair: pairSeq.Add(1), seam: sc}
	if err != nil {
		r.errText = err.Error()
	}
	c.add(r, "")
}

// seamFromCut rebuilds a case from its operators and the cut (replay).
func seamFromCut(ops []Op, cut []int) *seamCase {
	sc := &seamCase{ops: ops, cut: cut}
	pos := 0
	for _, k := range cut {
		if k <= 0 || pos+k > len(ops) {
			break
		}
		data := formatOps(ops[pos : pos+k])
		sc.pieces = append(sc.pieces, data[:len(data)-1])
		pos += k
	}
	sc.joined = bytes.Join(sc.pieces, []byte{'\n'})
	sc.want = normOps(dropRaw(ops))
	return sc
}

func pieceLens(sc *seamCase) []int {
	out := make([]int, len(sc.pieces))
	for i, p := range sc.pieces {
		out[i] = len(p)
	}
	return out
}

// execSeams runs the seam cases through the page readers of go-pdf.
func (c *collector) execSeams(cases []*seamCase) (int, error) {
	// (a) segments of the harness behind page.SegmentsReader
	forAll(len(cases), func(i int) {
		sc := cases[i]
		for _, withEOF := range []bool{true, false} {
			name := "seam/SegmentsReader/tail-with-EOF"
			if !withEOF {
				name = "seam/SegmentsReader/tail-then-EOF"
			}
			segs := func() []page.Segment {
				var out []page.Segment
				for _, p := range sc.pieces {
					out = append(out, &tailSegment{data: p, withEOF: withEOF})
				}
				return out
			}
			rc := page.SegmentsReader(segs())
			data, err := io.ReadAll(rc)
			rc.Close()
			c.delivered(name+"/ReadAll", sc, data, err)
			rc = page.SegmentsReader(segs())
			data, err = readFit(rc, sc.pieces)
			rc.Close()
			c.delivered(name+"/exact-fit", sc, data, err)
			got, err := scanReal(func() (io.ReadCloser, error) { return page.SegmentsReader(segs()), nil }, true)
			c.scanned(name+"/scanner", sc, got, err)
		}
	})
	// (b) real pages in a real file, FlateDecode and unfiltered
	for _, flate := range []bool{true, false} {
		filter := "unfiltered"
		if flate {
			filter = "FlateDecode"
		}
		file, refs := buildPages(cases, flate)
		r, err := pdf.NewReader(bytes.NewReader(file), int64(len(file)), nil)
		if err != nil {
			return 0, core.Infra("seams: the hand-written file does not open: %v", err)
		}
		forAll(len(cases), func(i int) {
			sc := cases[i]
			rc, err := pagetree.ContentStream(r, refs[i])
			if err != nil {
				c.delivered("seam/pagetree.ContentStream/"+filter+"/ReadAll", sc, nil, err)
				return
			}
			data, err := io.ReadAll(rc)
			rc.Close()
			c.delivered("seam/pagetree.ContentStream/"+filter+"/ReadAll", sc, data, err)
			if rc, err = pagetree.ContentStream(r, refs[i]); err == nil {
				data, err = readFit(rc, sc.pieces)
				rc.Close()
				c.delivered("seam/pagetree.ContentStream/"+filter+"/exact-fit", sc, data, err)
			}
			pg, err := page.Decode(pdf.NewCursor(r), refs[i], false)
			if err != nil {
				c.scanned("seam/Page.NewIter/"+filter, sc, nil, err)
				return
			}
			it := pg.NewIter()
			var got []Op
			for name, args := range it.All() {
				got = append(got, fromReal(name, args, true))
			}
			c.scanned("seam/Page.NewIter/"+filter, sc, got, it.Err())
			if rc, err := pg.RawBytes(); err == nil {
				data, err := readFit(rc, sc.pieces)
				rc.Close()
				c.delivered("seam/Page.RawBytes/"+filter+"/exact-fit", sc, data, err)
			}
			// and the scanner over the page's bytes delivered in short reads
			data, _ = func() ([]byte, error) {
				rc, err := pg.RawBytes()
				if err != nil {
					return nil, err
				}
				defer rc.Close()
				return io.ReadAll(rc)
			}()
			for _, mode := range chunkModes {
				got, err := scanReal(chunkedOpener(data, mode), true)
				if err != nil || !equalOps(dropRaw(normOps(got)), sc.want) {
					c.scanned("seam/Page.RawBytes/"+filter+"/short-reads-"+mode, sc, got, err)
				}
			}
		})
		r.Close()
	}
	return len(cases), nil
}
