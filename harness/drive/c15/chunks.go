package c15

import (
	"bytes"
	"compress/flate"
	"hash/fnv"
	"io"
	"math/rand"
	"sort"
)

// How a source may hand the bytes of a content stream to the scanner.  A
// reader is free to return fewer bytes than asked for (io.Reader): a
// decompressing filter at a block boundary, a network or chunked source.
var chunkModes = []string{"1byte", "half", "random", "tokens", "flate"}

var chunkDoc = map[string]string{
	"1byte":  "one byte per Read",
	"half":   "in reads of half the requested size",
	"random": "in chunks of 1-7 bytes",
	"tokens": "with a chunk boundary inside every #xx, <<, >>, ID and EI",
	"flate":  "through a Flate decompressor",
}

// chunkReader delivers data in the chunks given by their end positions.
type chunkReader struct {
	data []byte
	ends []int // sorted; a Read never crosses one of these positions
	pos  int
	half bool
}

func (r *chunkReader) Read(p []byte) (int, error) {
	if r.pos >= len(r.data) {
		return 0, io.EOF
	}
	n := len(p)
	if r.half && n > 1 {
		n /= 2
	}
	if n == 0 {
		return 0, nil
	}
	end := r.pos + n
	if end > len(r.data) {
		end = len(r.data)
	}
	i := sort.SearchInts(r.ends, r.pos+1)
	if i < len(r.ends) && r.ends[i] < end {
		end = r.ends[i]
	}
	k := copy(p, r.data[r.pos:end])
	r.pos += k
	return k, nil
}

func (r *chunkReader) Close() error { return nil }

func chunkedOpener(data []byte, mode string) func() (io.ReadCloser, error) {
	return func() (io.ReadCloser, error) {
		switch mode {
		case "1byte":
			ends := make([]int, len(data))
			for i := range ends {
				ends[i] = i + 1
			}
			return &chunkReader{data: data, ends: ends}, nil
		case "half":
			return &chunkReader{data: data, half: true}, nil
		case "random":
			h := fnv.New64a()
			h.Write(data)
			r := rand.New(rand.NewSource(int64(h.Sum64())))
			var ends []int
			for p := 0; p < len(data); {
				p += 1 + r.Intn(7)
				ends = append(ends, p)
			}
			return &chunkReader{data: data, ends: ends}, nil
		case "tokens":
			var ends []int
			for i := range data {
				two := ""
				if i+1 < len(data) {
					two = string(data[i : i+2])
				}
				switch {
				case data[i] == '#':
					ends = append(ends, i+1, i+2)
				case two == "<<" || two == ">>" || two == "ID" || two == "EI" || two == "BI":
					ends = append(ends, i+1)
				case data[i] == '\n' || data[i] == '\r':
					ends = append(ends, i+1) // between the EOL and EI
				}
			}
			sort.Ints(ends)
			return &chunkReader{data: data, ends: ends}, nil
		case "flate":
			var buf bytes.Buffer
			w, _ := flate.NewWriter(&buf, flate.BestSpeed)
			// flush often: a decompressor returns at most one block per Read
			for p := 0; p < len(data); p += 5 {
				q := p + 5
				if q > len(data) {
					q = len(data)
				}
				w.Write(data[p:q])
				w.Flush()
			}
			w.Close()
			return flate.NewReader(bytes.NewReader(buf.Bytes())), nil
		}
		panic("c15: unknown chunk mode " + mode)
	}
}
