// Package c15 binds spec/syntax/ContentOps.tla to the content stream writer,
// scanner and Builder of go-pdf (graphics/content).
//
//	design  MC_ContentOps: writer.go (ImplFormatOp) followed by the scanner
//	        written from the standard (RefScanOps) is the identity on operator
//	        sequences, in one piece and cut at operator boundaries; inline
//	        image data round-trips exactly when it is not Ambiguous;
//	        ClosingOperators balances every reachable Builder state
//	P-C     Gen_ContentOps -> operator sequences -> real Operators.RawBytes /
//	        Operator.Format -> real content scanner (one piece, and every cut
//	        into 2-3 segments through page.SegmentsReader) -> must equal;
//	        Builder call sequences -> real Builder -> predicted outcome
//	P-B     the real bytes of every case and of seeded random operator
//	        sequences are rescanned by RefScanOps in TLC; observations of the
//	        real Builder (random call sequences) are judged by the Nesting
//	        model (Trace_ContentOps)
package c15

import (
	"bytes"
	"encoding/json"
	"fmt"
	"hash/fnv"
	"io"
	"sort"
	"strings"
	"sync"
	"sync/atomic"

	"seehuhn.de/go/pdf"
	"seehuhn.de/go/pdf/graphics/content"
	"seehuhn.de/go/pdf/page"

	"verif/harness/core"
	"verif/harness/drive/c01"
)

var Driver = core.Driver{ID: "C15", Level: "model_checking", Run: run, Replay: replay, SelfTest: selfTest}

type Val = c01.Val

// Op is an operator in the shape of the TLA+ modules.
type Op struct {
	Name []int `json:"name"`
	Args []Val `json:"args"`
}

const imageName = "%image%"

func (o Op) name() string { return string(c01.Unints(o.Name)) }

func mkOp(name string, args ...Val) Op {
	if args == nil {
		args = []Val{}
	}
	return Op{Name: c01.Ints([]byte(name)), Args: args}
}

func isImage(o Op) bool {
	return o.name() == imageName && len(o.Args) == 2 && o.Args[0].T == "dict" && o.Args[1].T == "str"
}

// normOps: operands up to Norm; the length entry of an image dictionary is framing.
func normOps(ops []Op) []Op {
	out := make([]Op, len(ops))
	for i, o := range ops {
		n := Op{Name: o.Name, Args: c01.NormSeq(o.Args)}
		if isImage(o) {
			d := n.Args[0]
			nd := Val{T: "dict"}
			for j := range d.E {
				if k := string(d.K[j]); k == "L" || k == "Length" {
					continue
				}
				nd.K = append(nd.K, d.K[j])
				nd.E = append(nd.E, d.E[j])
			}
			n.Args = []Val{nd, n.Args[1]}
		}
		out[i] = n
	}
	return out
}

func equalOps(a, b []Op) bool {
	if len(a) != len(b) {
		return false
	}
	for i := range a {
		if a[i].name() != b[i].name() || !c01.EqualSeq(a[i].Args, b[i].Args) {
			return false
		}
	}
	return true
}

// toReal builds the go-pdf operators.
func toReal(ops []Op) ([]content.Operator, error) {
	out := make([]content.Operator, len(ops))
	for i, o := range ops {
		args, err := c01.ToPDFSeq(o.Args)
		if err != nil {
			return nil, err
		}
		out[i] = content.Operator{Name: content.OpName(o.name()), Args: args}
	}
	return out, nil
}

func fromReal(name content.OpName, args []pdf.Object, realText bool) Op {
	o := Op{Name: c01.Ints([]byte(name)), Args: make([]Val, len(args))}
	for i, a := range args {
		o.Args[i] = c01.FromPDF(a, realText)
	}
	return o
}

// scanReal runs the real content scanner over a byte source.
func scanReal(open func() (io.ReadCloser, error), realText bool) ([]Op, error) {
	it := content.NewScanner(open).NewIter()
	var out []Op
	for name, args := range it.All() {
		out = append(out, fromReal(name, args, realText))
	}
	return out, it.Err()
}

func bytesOpener(b []byte) func() (io.ReadCloser, error) {
	return func() (io.ReadCloser, error) { return io.NopCloser(bytes.NewReader(b)), nil }
}

// a line of Gen_ContentOps
type genCase struct {
	ID        int      `json:"id"`
	Kind      string   `json:"kind"`
	Ops       []Op     `json:"ops"`
	Norm      []Op     `json:"norm"`
	Ambiguous bool     `json:"ambiguous"`
	Pre2      bool     `json:"pre2"`
	Calls     []string `json:"calls"`
	ErrAt     int      `json:"errat"`
	CanClose  bool     `json:"canclose"`
	Closing   []string `json:"closing"`
}

// a record for Trace_ContentOps
type record struct {
	Kind   string `json:"kind"`
	Bytes  []int  `json:"bytes,omitempty"`
	Ops    []Op   `json:"ops,omitempty"`
	Ops2   []Op   `json:"ops2,omitempty"`
	FmtErr bool   `json:"fmterr,omitempty"`
	Origin string `json:"origin"`
	Pieces []int  `json:"pieces,omitempty"` // sizes of the segments (information)
	Chunks string `json:"chunks,omitempty"` // how the source delivered the bytes to the scanner (information)

	// builder observations
	Pre2     bool     `json:"pre2"`
	Calls    []string `json:"calls"`
	ErrAt    int      `json:"errat"`
	CloseOK  bool     `json:"closeok"`
	Closing  []string `json:"closing"`
	Reread   []string `json:"reread"`
	ApplyErr int      `json:"applyerr"`
	// calls per segment handed out / operators re-read per segment
	SegLens    []int `json:"seglens,omitempty"`
	RereadLens []int `json:"rereadlens,omitempty"`

	seam     *seamCase // the page whose /Contents pieces were read
	prog     *program  // the Builder program this stream is part of
	stream   int       // ... and its index in it
	src      []Op      // the operators handed to the writer
	got      []Op
	suspect  bool
	pair     int64
	errText  string
	realOnly bool
}

// tla is the JSON document Trace_ContentOps sees.
func (r *record) tla() map[string]any {
	strs := func(v []string) []string {
		if v == nil {
			return []string{}
		}
		return v
	}
	if r.Kind == "builder" {
		m := map[string]any{"kind": "builder", "origin": r.Origin, "pre2": r.Pre2, "calls": strs(r.Calls), "errat": r.ErrAt,
			"closeok": r.CloseOK, "closing": strs(r.Closing), "reread": strs(r.Reread), "applyerr": r.ApplyErr}
		if r.SegLens != nil && r.RereadLens != nil {
			m["seglens"], m["rereadlens"] = r.SegLens, r.RereadLens
		}
		return m
	}
	ops := r.Ops
	if ops == nil {
		ops = []Op{}
	}
	if r.Kind == "cycle" {
		return map[string]any{"kind": "cycle", "origin": r.Origin, "ops": ops, "ops2": r.Ops2}
	}
	bs := r.Bytes
	if bs == nil {
		bs = []int{}
	}
	m := map[string]any{"kind": r.Kind, "origin": r.Origin, "bytes": bs, "ops": ops, "pieces": r.Pieces, "chunks": r.Chunks}
	if r.FmtErr {
		m["fmterr"] = true
	}
	return m
}

type collector struct {
	ctx  *core.Ctx
	mu   sync.Mutex
	recs []*record
	seen map[string]bool
}

var pairSeq atomic.Int64

func (c *collector) add(r *record, dedup string) {
	if r.Calls == nil {
		r.Calls = []string{}
	}
	if r.Closing == nil {
		r.Closing = []string{}
	}
	if r.Reread == nil {
		r.Reread = []string{}
	}
	c.mu.Lock()
	defer c.mu.Unlock()
	if dedup != "" {
		if c.seen[dedup] {
			return
		}
		c.seen[dedup] = true
	}
	c.recs = append(c.recs, r)
}

func hasTextlessReal(ops []Op) bool {
	var rec func(xs []Val) bool
	rec = func(xs []Val) bool {
		for _, x := range xs {
			if x.T == "real" && len(x.S) == 0 {
				return true
			}
			if rec(x.E) {
				return true
			}
		}
		return false
	}
	for _, o := range ops {
		if rec(o.Args) {
			return true
		}
	}
	return false
}

// cuts returns all ways to cut n operators into 1..maxPieces consecutive
// non-empty pieces, as lists of piece lengths.
func cuts(n, maxPieces int) [][]int {
	var out [][]int
	var rec func(rest int, cur []int)
	rec = func(rest int, cur []int) {
		if rest == 0 {
			out = append(out, append([]int(nil), cur...))
			return
		}
		if len(cur) == maxPieces {
			return
		}
		for k := 1; k <= rest; k++ {
			rec(rest-k, append(cur, k))
		}
	}
	rec(n, nil)
	return out
}

// execOps serialises ops with the real writer, in one piece and cut into
// segments, and rescans every serialisation with the real scanner.
func (c *collector) execOps(origin string, ops, want []Op, realText bool, maxPieces int) {
	real, err := toReal(ops)
	if err != nil {
		panic(err)
	}
	ro := hasTextlessReal(ops)
	for _, cut := range cuts(len(ops), maxPieces) {
		if len(ops) == 0 {
			break
		}
		var segs []page.Segment
		pos := 0
		var direct bytes.Buffer
		var fmtErr error
		for pi, k := range cut {
			part := real[pos : pos+k]
			segs = append(segs, &content.Operators{Ops: part})
			if pi > 0 {
				direct.WriteByte('\n')
			}
			for _, op := range part {
				if err := op.Format(&direct); err != nil {
					fmtErr = err
				}
			}
			pos += k
		}
		rc := page.SegmentsReader(segs)
		data, rerr := io.ReadAll(rc)
		rc.Close()
		c.ctx.Ev.Eval(1)
		pair := pairSeq.Add(1)
		base := record{Kind: "fmt", Ops: ops, Origin: origin, Pieces: cut, src: ops, pair: pair, realOnly: ro}
		if fmtErr != nil || rerr != nil {
			r := base
			r.FmtErr = true
			r.suspect = true
			r.errText = fmt.Sprint(fmtErr, rerr)
			c.add(&r, "")
			continue
		}
		if !bytes.Equal(data, direct.Bytes()) {
			// Operators.RawBytes/SegmentsReader and Operator.Format disagree: judge both
			r := base
			r.Bytes = c01.Ints(direct.Bytes())
			r.Origin += "/Operator.Format"
			r.suspect = true
			c.add(&r, "")
		}
		got, serr := scanReal(func() (io.ReadCloser, error) { return page.SegmentsReader(segs), nil }, realText)
		gotN := normOps(got)
		ok := serr == nil && equalOps(dropRaw(gotN), want) // comments denote nothing
		if len(cut) == 1 {
			c.ctx.Ev.Distinct(string(data))
		}
		r := base
		r.Bytes = c01.Ints(data)
		r.got = gotN
		r.suspect = !ok
		dk := "fmt|" + string(data) + "|" + origin
		if !ok {
			dk = ""
		}
		if ok && len(cut) > 1 && !c.ctx.Thorough() && strings.HasPrefix(origin, "enum/") {
			// quick tier: every cut is executed and compared on the real code, but of
			// the enumerated sequences only a seeded third of the cut serialisations
			// (they differ from the one-piece bytes by the separators) is sent to TLC
			h := fnv.New32a()
			h.Write(data)
			if (int64(h.Sum32())+c.ctx.Seed)%3 != 0 {
				continue
			}
		}
		c.add(&r, dk)
		if !ok {
			s := record{Kind: "scan", Bytes: r.Bytes, Ops: got, Origin: origin, Pieces: cut, src: ops, got: gotN, suspect: true, pair: pair, realOnly: ro}
			if s.Ops == nil {
				s.Ops = []Op{}
			}
			if serr != nil {
				s.errText = serr.Error()
			}
			c.add(&s, "")
			continue
		}
		if len(cut) != 1 {
			continue
		}
		// what the reader returned (operators, and comments as raw content)
		// written again and read again must be the same
		if hasRaw(got) || hasRaw(ops) {
			c.cycle(origin, ops, pair)
		}
		// the operators read must not depend on how the source hands over
		// the bytes: one at a time, in halves, in random chunks, with chunk
		// boundaries inside every multi-byte token, through a decompressor
		for _, mode := range chunkModes {
			got, serr := scanReal(chunkedOpener(data, mode), realText)
			c.ctx.Ev.Eval(1)
			gotN := normOps(got)
			if serr == nil && equalOps(dropRaw(gotN), want) {
				continue
			}
			s := record{Kind: "scan", Bytes: r.Bytes, Ops: got, Origin: origin, Pieces: cut, Chunks: mode, src: ops, got: gotN, suspect: true, pair: pair, realOnly: ro}
			if s.Ops == nil {
				s.Ops = []Op{}
			}
			if serr != nil {
				s.errText = serr.Error()
			}
			c.add(&s, "")
		}
	}
}

const rawName = "%raw%"

func hasRaw(ops []Op) bool {
	for _, o := range ops {
		if o.name() == rawName {
			return true
		}
	}
	return false
}

// dropRaw removes the raw content (comment) pseudo operators.
func dropRaw(ops []Op) []Op {
	if !hasRaw(ops) {
		return ops
	}
	out := make([]Op, 0, len(ops))
	for _, o := range ops {
		if o.name() != rawName {
			out = append(out, o)
		}
	}
	return out
}

// cycle: write ops, read (r1), write r1, read (r2): r1 and r2 must be equal,
// comments included.
func (c *collector) cycle(origin string, ops []Op, pair int64) {
	read := func(ops []Op) ([]Op, []byte, error) {
		real, err := toReal(ops)
		if err != nil {
			return nil, nil, err
		}
		rc, _ := (&content.Operators{Ops: real}).RawBytes()
		data, err := io.ReadAll(rc)
		rc.Close()
		if err != nil {
			return nil, data, err
		}
		got, err := scanReal(bytesOpener(data), true)
		return got, data, err
	}
	r1, _, err1 := read(ops)
	if err1 != nil {
		return // judged elsewhere
	}
	r2, data2, err2 := read(r1)
	c.ctx.Ev.Eval(2)
	if err2 == nil && equalOps(r1, r2) {
		return
	}
	if r1 == nil {
		r1 = []Op{}
	}
	if r2 == nil {
		r2 = []Op{}
	}
	rec := record{Kind: "cycle", Ops: r1, Ops2: r2, Bytes: c01.Ints(data2), Origin: origin, src: ops, got: r2, suspect: true, pair: pairSeq.Add(1)}
	if err2 != nil {
		rec.errText = err2.Error()
	}
	c.add(&rec, "")
}

func traceOpts(ctx *core.Ctx) core.TLCOpts {
	return core.TLCOpts{Dir: "syntax", Module: "Trace_ContentOps", Cfg: "Trace_ContentOps.cfg", XssMB: 1024, Timeout: ctx.Dur(10, 30)}
}

const maxReports = 10

func clip(b []byte, n int) string {
	if len(b) > n {
		return string(b[:n]) + "..."
	}
	return string(b)
}

// judge sends the records to TLC and reports what it rejects.
func (c *collector) judge(batch int) error {
	ctx := c.ctx
	recs := c.recs
	docs := make([]map[string]any, len(recs))
	for i, r := range recs {
		docs[i] = r.tla()
	}
	bad, err := core.JudgeCases(ctx, traceOpts(ctx), docs, batch, 16)
	if err != nil {
		return err
	}
	isBad := map[int]bool{}
	explained := map[int64]bool{}
	for _, b := range bad {
		isBad[b] = true
		explained[recs[b].pair] = true
	}
	order := append([]int(nil), bad...)
	size := func(r *record) int { return len(r.Bytes) + 8*len(r.Calls) }
	sort.SliceStable(order, func(a, b int) bool { return size(recs[order[a]]) < size(recs[order[b]]) })
	reported := map[string]bool{}
	more := 0
	// what the scanner makes of bytes that do not denote the operators is not
	// the scanner's fault: report the writer's record only
	fmtBad := map[int64]bool{}
	for _, i := range bad {
		if recs[i].Kind == "fmt" {
			fmtBad[recs[i].pair] = true
		}
	}
	for _, i := range order {
		r := recs[i]
		if r.Kind == "scan" && fmtBad[r.pair] {
			continue
		}
		key, what := classify(r)
		if reported[key] {
			continue
		}
		reported[key] = true
		if len(reported) > maxReports {
			more++
			continue
		}
		ctx.Violation(key, what, replayCase(r))
	}
	if more > 0 {
		ctx.Logf("%d further classes of rejected executions not listed (the %d simplest are)", more, maxReports)
	}
	for _, r := range recs {
		if !r.suspect || explained[r.pair] {
			continue
		}
		if r.realOnly {
			key := "writer/real-identity"
			if !reported[key] {
				reported[key] = true
				ctx.Violation(key, fmt.Sprintf("a float64 operand does not read back == from %q", clip(c01.Unints(r.Bytes), 200)), replayCase(r))
			}
			continue
		}
		return core.Infra("harness and specification disagree: the Go comparison rejects %s (bytes %q, calls %v, %s) but Trace_ContentOps accepts it",
			r.Origin, clip(c01.Unints(r.Bytes), 200), r.Calls, r.errText)
	}
	return nil
}

// ambiguousData: EOL EI followed by a non-regular character (or the end).
func ambiguousData(d []byte) bool {
	regular := func(b byte) bool {
		return !strings.ContainsRune("\x00\t\n\f\r ()<>[]{}/%", rune(b))
	}
	for q := 0; q+2 < len(d); q++ {
		if (d[q] == '\n' || d[q] == '\r') && d[q+1] == 'E' && d[q+2] == 'I' && (q+3 >= len(d) || !regular(d[q+3])) {
			return true
		}
	}
	return false
}

func opsSig(ops []Op) string {
	var parts []string
	for _, o := range ops {
		n := o.name()
		if n == rawName {
			n = "comment"
		} else if _, known := knownOps[n]; !known && n != imageName {
			n = "unknown-op"
		}
		var as []string
		for _, a := range o.Args {
			as = append(as, c01.Sig(a))
		}
		parts = append(parts, n+"("+strings.Join(as, ",")+")")
	}
	s := strings.Join(parts, ";")
	if len(s) > 120 {
		s = s[:120] + "..."
	}
	return s
}

// classify computes the stable key of a rejected record.
func classify(r *record) (key, what string) {
	text := clip(c01.Unints(r.Bytes), 160)
	if r.Kind == "builder" && r.prog != nil {
		v := "2.0"
		if r.Pre2 {
			v = "1.7"
		}
		order := "each segment serialised as soon as it was handed out"
		mode := r.prog.mode
		if r.prog.deferred {
			order = "the segments kept and serialised after the Builder had finished"
			mode += "-kept"
		}
		if r.prog.mode == "harvest" {
			return fmt.Sprintf("builder/harvest-segments/%s/v%s/%s", mode, v, strings.Join(r.Calls, ".")),
				fmt.Sprintf("one Builder (PDF %s), one stream harvested in segments of %v calls (%s): calls %v: Err after call %d, Close ok=%v, closing operators %v, segments re-read as %v (%v operators each), ApplyOperator refuses at %d - the segments are not the calls that produced them, or not a valid, balanced stream (Nesting model)",
					v, r.SegLens, order, r.Calls, r.ErrAt, r.CloseOK, r.Closing, r.Reread, r.RereadLens, r.ApplyErr)
		}
		return fmt.Sprintf("builder/stream%d-after-%s/v%s/%s", r.stream+1, mode, v, strings.Join(r.Calls, ".")),
			fmt.Sprintf("one Builder (PDF %s) used for %d streams (%s between them; %s): stream %d made by calls %v: Err after call %d, Close ok=%v, closing operators %v, re-read %v, ApplyOperator refuses at %d - not the calls that produced it, or not a valid, balanced stream for that version (Nesting model)",
				v, len(r.prog.streams), r.prog.mode, order, r.stream+1, r.Calls, r.ErrAt, r.CloseOK, r.Closing, r.Reread, r.ApplyErr)
	}
	if r.Kind == "builder" {
		return "builder/" + strings.Join(r.Calls, "."),
			fmt.Sprintf("Builder calls %v (pre-2.0=%v): Err after call %d, Close ok=%v, closing operators %v, re-read %v, ApplyOperator refuses at %d - not explained by the Nesting model",
				r.Calls, r.Pre2, r.ErrAt, r.CloseOK, r.Closing, r.Reread, r.ApplyErr)
	}
	if r.seam != nil {
		what := fmt.Sprintf("a page whose /Contents array holds pieces of %v bytes (cut at operator boundaries, no white space at their ends) ", r.Pieces)
		if r.Kind == "scan" {
			what += fmt.Sprintf("is read as %s instead of %s", opsSig(r.got), opsSig(r.src))
		} else {
			what += fmt.Sprintf("is delivered as %q, which does not denote its operators (a separator is missing at a seam?) %s", clip(c01.Unints(r.Bytes), 40)+" ... "+tailOf(c01.Unints(r.Bytes), 60), r.errText)
		}
		return r.Origin, what
	}
	if r.Kind == "cycle" {
		return "cycle/" + opsSig(r.src), fmt.Sprintf("read, write, read is not stable: %s was read as %s, and after writing that (%q) as %s", opsSig(r.src), opsSig(r.Ops), text, opsSig(r.Ops2))
	}
	if r.FmtErr {
		return "writer/error/" + opsSig(r.src), "the content writer fails on " + opsSig(r.src) + ": " + r.errText
	}
	// inline image classes, most specific first
	for _, o := range r.src {
		if !isImage(o) {
			continue
		}
		d, data := o.Args[0], o.Args[1].S
		hasL, exotic, nilEntry, ascii := false, false, false, false
		for j := range d.E {
			k := string(d.K[j])
			if k == "L" || k == "Length" {
				hasL = true
			}
			if c01.Sig(c01.VName(d.K[j])) != "name" {
				exotic = true
			}
			if d.E[j].T == "null" {
				nilEntry = true
			}
			if (k == "F" || k == "Filter") && d.E[j].T == "name" {
				switch string(d.E[j].S) {
				case "AHx", "A85", "ASCIIHexDecode", "ASCII85Decode":
					ascii = true
				}
			}
		}
		switch {
		case r.Kind == "fmt" && exotic:
			return "writer/inline-image/dict-key-unescaped", fmt.Sprintf("inline image dictionary key written without #-escapes: %q", text)
		case r.Kind == "fmt" && nilEntry:
			return "writer/inline-image/nil-dict-entry", fmt.Sprintf("inline image dictionary entry with a nil value written as a key without value: %q", text)
		case r.Kind == "fmt" && !hasL && ambiguousData(data):
			return "writer/inline-image/data-contains-EOL-EI/no-length",
				fmt.Sprintf("inline image data containing <EOL>EI<delimiter> written without /L: on re-reading the data is cut short (%q)", text)
		case r.Kind == "scan" && ascii && (len(data) == 0 || strings.ContainsRune("\x00\t\n\f\r ", rune(data[0]))):
			return "scan/inline-image/ascii-filter-leading-whitespace", fmt.Sprintf("inline image with an ASCII filter: the scanner drops white space at the start of the data (%q)", text)
		}
	}
	if r.Kind == "scan" && r.Chunks != "" {
		return "scan/short-reads/" + r.Chunks + "/" + opsSig(r.src),
			fmt.Sprintf("the content scanner reads %q as %s when the source delivers it %s (and correctly from a source that fills the buffer)", text, opsSig(r.got), chunkDoc[r.Chunks])
	}
	side := "writer"
	verb := "wrote " + fmt.Sprintf("%q", text) + ", which does not denote the operators (reference scanner of the specification)"
	if r.Kind == "scan" {
		side = "scan"
		verb = "the content scanner reads " + fmt.Sprintf("%q", text) + " as " + opsSig(r.got)
	}
	cut := ""
	if len(r.Pieces) > 1 {
		cut = fmt.Sprintf("/split%d", len(r.Pieces))
	}
	return side + cut + "/" + opsSig(r.src), fmt.Sprintf("content writer on %s: %s", opsSig(r.src), verb)
}

type replayRec struct {
	Side   string   `json:"side"`
	Ops    []Op     `json:"ops,omitempty"`
	Pieces int      `json:"pieces,omitempty"`
	Cut    []int    `json:"cut,omitempty"`
	Pre2   bool     `json:"pre2,omitempty"`
	Calls  []string `json:"calls,omitempty"`
	Text   string   `json:"text,omitempty"`
	// a Builder used for several streams
	Mode     string     `json:"mode,omitempty"`
	Deferred bool       `json:"deferred,omitempty"`
	Streams  [][]string `json:"streams,omitempty"`
}

func tailOf(b []byte, n int) string {
	if len(b) > n {
		b = b[len(b)-n:]
	}
	return string(b)
}

func replayCase(r *record) any {
	if r.seam != nil {
		return replayRec{Side: "seam", Ops: r.seam.ops, Cut: r.seam.cut}
	}
	if r.Kind == "builder" && r.prog != nil {
		return replayRec{Side: "program", Pre2: r.prog.pre2, Mode: r.prog.mode, Deferred: r.prog.deferred, Streams: r.prog.streams}
	}
	if r.Kind == "builder" {
		return replayRec{Side: "builder", Pre2: r.Pre2, Calls: r.Calls}
	}
	return replayRec{Side: "ops", Ops: r.src, Pieces: 3, Text: clip(c01.Unints(r.Bytes), 400)}
}

func forAll(n int, f func(i int)) {
	var wg sync.WaitGroup
	ch := make(chan int, 256)
	for w := 0; w < 16; w++ {
		wg.Add(1)
		go func() {
			defer wg.Done()
			for i := range ch {
				f(i)
			}
		}()
	}
	for i := 0; i < n; i++ {
		ch <- i
	}
	close(ch)
	wg.Wait()
}

func tierCfg(ctx *core.Ctx, stem string) string {
	if ctx.Thorough() {
		return stem + "_t.cfg"
	}
	return stem + "_q.cfg"
}

func run(ctx *core.Ctx) error {
	ctx.Ev.Rule = "an evaluation = one serialisation (Operators.RawBytes / page.SegmentsReader and Operator.Format) + one rescan by the real " +
		"content scanner, or one Builder run; distinct = distinct byte strings written for an operator sequence in one piece, plus distinct Builder call sequences"
	ctx.Ev.Assume("TLC evaluates ContentOps.tla / PdfSyntax.tla faithfully; RefScanOps is a correct reading of ISO 32000-2 7.8.2 and 8.9.7 " +
		"(inline image data without /L ends at the first <EOL>EI<non-regular>)")
	ctx.Ev.Assume("the /L (/Length) entry of an inline image dictionary is framing, not content: operands are compared without it")
	ctx.Ev.Assume("raw content operators are comments: %, then any bytes but CR and LF, optionally ended by an end-of-line marker; they denote no operator (ISO 32000-2 7.2.4); what the scanner returns for them is only required to be stable under write and read")
	ctx.Ev.Assume("admissible operators: names of regular characters other than BI/ID/EI and numbers; operands of the native types without indirect references; inline images with /W and /H")
	ctx.Ev.Assume("inline image data under an ASCII filter (AHx, A85) is generated non-empty and starting with a non-white-space byte: white space is insignificant there and the scanner skips it after ID")
	ctx.Ev.Assume("the digits of reals are outside the model: float64 operands are decided by == after the round trip on the real code")

	mc, err := ctx.MustHold(core.TLCOpts{Dir: "syntax", Module: "MC_ContentOps", Cfg: tierCfg(ctx, "MC_ContentOps"), Workers: 16,
		XssMB: 512, Constants: "see " + tierCfg(ctx, "MC_ContentOps"), Timeout: ctx.Dur(5, 25)})
	if err != nil {
		return err
	}
	_ = mc
	if ctx.Thorough() {
		// the rules of q/Q before PDF 2.0
		for _, cfg := range []string{"MC_ContentOps_pre2.cfg"} {
			if _, err := ctx.MustHold(core.TLCOpts{Dir: "syntax", Module: "MC_ContentOps", Cfg: cfg, Workers: 16, XssMB: 512,
				Constants: "see " + cfg, Timeout: ctx.Dur(5, 25)}); err != nil {
				return err
			}
		}
	}

	cfgs := []string{tierCfg(ctx, "Gen_ContentOps")}
	if ctx.Thorough() {
		cfgs = append(cfgs, "Gen_ContentOps_pre2.cfg")
	}
	var cases []genCase
	for _, cfg := range cfgs {
		cs, _, err := core.GenCases[genCase](ctx, core.TLCOpts{Dir: "syntax", Module: "Gen_ContentOps", Cfg: cfg,
			Mode: "evaluate", XssMB: 1024, Timeout: ctx.Dur(5, 25)})
		if err != nil {
			return err
		}
		cases = append(cases, cs...)
	}
	col := &collector{ctx: ctx, seen: map[string]bool{}}
	nops, nbuild := 0, 0
	for i := range cases {
		if cases[i].Kind == "builder" {
			nbuild++
		} else {
			nops++
		}
	}
	forAll(len(cases), func(i int) {
		gc := &cases[i]
		switch gc.Kind {
		case "ops", "img":
			col.execOps("enum/"+gc.Kind, gc.Ops, gc.Norm, true, 3)
		case "builder":
			col.execBuilder("enum/builder", gc.Pre2, gc.Calls, gc)
		}
	})
	ctx.Ev.AddReplayed(nops + nbuild)
	ctx.Logf("case table: %d operator sequences (every cut into <= 3 segments) and %d Builder call sequences executed on the real code; %d records", nops, nbuild, len(col.recs))

	// seeded random operator sequences and Builder runs
	rnd := randomOps(ctx)
	forAll(len(rnd), func(i int) {
		col.execOps("random", rnd[i], normOps(dropRaw(rnd[i])), false, 3)
	})
	rb := randomCalls(ctx)
	forAll(len(rb), func(i int) {
		col.execBuilder("random/builder", rb[i].pre2, rb[i].calls, nil)
	})
	progs := programs(ctx)
	forAll(len(progs), func(i int) {
		col.execProgram("program", progs[i])
	})
	nseams, err := col.execSeams(seamCases(ctx))
	if err != nil {
		return err
	}
	ctx.Logf("random: %d operator sequences, %d Builder runs, %d Builders used for several streams, %d pages with /Contents arrays (piece lengths around the read sizes); %d records for TLC", len(rnd), len(rb), len(progs), nseams, len(col.recs))

	sortRecords(col.recs)
	nsus := map[string]int{}
	for _, r := range col.recs {
		if r.suspect {
			nsus[r.Origin+"/"+r.Kind]++
		}
	}
	if len(nsus) > 0 {
		ctx.Logf("mismatches seen by the Go comparison (to be judged by TLC): %v", nsus)
	}
	samples(ctx, col.recs)
	if err := col.judge(3000); err != nil {
		return err
	}
	ctx.Ev.Exhaustive = true
	ctx.Ev.Set("exhaustive_scope", "all operator sequences, inline image bodies and Builder call sequences of the bounded model ("+tierCfg(ctx, "MC_ContentOps")+") in TLC and on the real code; seeded random operator sequences and Builder runs beyond")
	return nil
}

func sortRecords(recs []*record) {
	sort.SliceStable(recs, func(i, j int) bool {
		a, b := recs[i], recs[j]
		if a.Origin != b.Origin {
			return a.Origin < b.Origin
		}
		ka := string(c01.Unints(a.Bytes)) + strings.Join(a.Calls, ".")
		kb := string(c01.Unints(b.Bytes)) + strings.Join(b.Calls, ".")
		if ka != kb {
			return ka < kb
		}
		if a.Kind != b.Kind {
			return a.Kind < b.Kind
		}
		return fmt.Sprint(a.Pieces) < fmt.Sprint(b.Pieces)
	})
}

func samples(ctx *core.Ctx, recs []*record) {
	for _, want := range []string{"enum/ops", "enum/img", "random", "enum/builder"} {
		for _, r := range recs {
			if r.Origin == want && !r.suspect && (len(r.Bytes) > 12 && len(r.Bytes) < 200 || len(r.Calls) >= 3) {
				if r.Kind == "builder" {
					ctx.Ev.Sample(map[string]any{"kind": "observation of the real Builder judged by Trace_ContentOps", "calls": r.Calls, "errat": r.ErrAt,
						"closeok": r.CloseOK, "closing": r.Closing, "reread": r.Reread})
				} else {
					ctx.Ev.Sample(map[string]any{"kind": "bytes of the real content writer judged by Trace_ContentOps", "origin": r.Origin,
						"text": string(c01.Unints(r.Bytes)), "segments": r.Pieces, "ops": r.Ops})
				}
				break
			}
		}
	}
}

func replay(ctx *core.Ctx, raw json.RawMessage) error {
	var rc replayRec
	if err := json.Unmarshal(raw, &rc); err != nil {
		return core.Infra("replay: %v", err)
	}
	col := &collector{ctx: ctx, seen: map[string]bool{}}
	switch rc.Side {
	case "ops":
		col.execOps("replay", rc.Ops, normOps(dropRaw(rc.Ops)), !hasTextlessReal(rc.Ops), 3)
	case "builder":
		col.execBuilder("replay", rc.Pre2, rc.Calls, nil)
	case "seam":
		if _, err := col.execSeams([]*seamCase{seamFromCut(rc.Ops, rc.Cut)}); err != nil {
			return err
		}
	case "program":
		col.execProgram("replay", program{pre2: rc.Pre2, mode: rc.Mode, deferred: rc.Deferred, streams: rc.Streams})
	default:
		return core.Infra("replay: unknown side %q", rc.Side)
	}
	for _, r := range col.recs {
		switch r.Kind {
		case "builder":
			fmt.Printf("  builder: calls %v (segments %v) errat=%d closeok=%v closing=%v reread=%v (segments %v) applyerr=%d %s\n", r.Calls, r.SegLens, r.ErrAt, r.CloseOK, r.Closing, r.Reread, r.RereadLens, r.ApplyErr, r.errText)
		case "cycle":
			fmt.Printf("  cycle record: first reading %s, second reading %s\n", opsSig(r.Ops), opsSig(r.Ops2))
		case "scan":
			fmt.Printf("  scan record (segments %v, source %q): %q -> %s\n", r.Pieces, r.Chunks, clip(c01.Unints(r.Bytes), 300), opsSig(r.got))
		default:
			fmt.Printf("  fmt record (segments %v): %q\n", r.Pieces, clip(c01.Unints(r.Bytes), 300))
		}
	}
	return col.judge(100)
}
