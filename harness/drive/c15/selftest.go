package c15

import (
	"verif/harness/core"
	"verif/harness/drive/c01"
)

// selfTest: the machinery must notice (i) corrupted records, (ii) the
// defective variants of the design model, (iii) a wrong table line.
func selfTest(ctx *core.Ctx) error {
	col := &collector{ctx: ctx, seen: map[string]bool{}}
	img := mkOp(imageName, c01.VDict(map[string]Val{"W": c01.VInt(1), "H": c01.VInt(1)}), c01.VStr([]byte("a\nEIx E")))
	seqs := [][]Op{
		{mkOp("q"), mkOp("Tf", c01.VName([]byte("F1")), c01.VInt(12)), mkOp("Tj", c01.VStr([]byte("a(b\r")))},
		{mkOp("BDC", c01.VName([]byte("Span")), c01.VDict(map[string]Val{"MCID": c01.VInt(3)})), img, mkOp("EMC")},
		{mkOp("re", c01.VInt(0), c01.VInt(0), c01.VReal(10.5), c01.VInt(-2)), mkOp("f*")},
	}
	for _, s := range seqs {
		col.execOps("selftest", s, normOps(s), false, 1)
	}
	col.execBuilder("selftest", false, []string{"q", "BT", "TL", "T*", "ET", "re", "W"}, nil)
	col.execBuilder("selftest", true, []string{"BT", "q"}, nil)
	if len(col.recs) != 5 {
		return core.Infra("self-test: expected 5 clean records, got %d", len(col.recs))
	}
	recs := col.recs
	// record 0: a byte of the output changed (the name /F1 becomes /F2)
	for i, b := range recs[0].Bytes {
		if b == '1' && i > 0 && recs[0].Bytes[i-1] == 'F' {
			recs[0].Bytes[i] = '2'
		}
	}
	// record 1: the image data claims one byte less
	ops := append([]Op(nil), recs[1].Ops...)
	ops[1] = mkOp(imageName, ops[1].Args[0], c01.VStr([]byte("a\nEIx ")))
	recs[1].Ops = ops
	// record 3: the Builder is said to have needed no closing operators
	recs[3].Closing = []string{}
	docs := make([]map[string]any, len(recs))
	for i, r := range recs {
		docs[i] = r.tla()
	}
	bad, err := core.JudgeCases(ctx, traceOpts(ctx), docs, 10, 1)
	if err != nil {
		return err
	}
	if len(bad) != 3 || bad[0] != 0 || bad[1] != 1 || bad[2] != 3 {
		return core.Infra("self-test: corrupted records not singled out: %v", bad)
	}
	ctx.Logf("self-test (i): the three corrupted records are rejected, the intact ones accepted")

	// (ii) negative controls of the design model
	for _, nc := range []struct{ cfg, inv string }{
		{"MC_ContentOps_f9.cfg", "ImageAlwaysRoundTrips"}, // the writer as coded loses ambiguous image data
		{"MC_ContentOps_nosep.cfg", "RoundTripOps"},       // a formatter that drops the separator after a name
		{"MC_ContentOps_rawnolf.cfg", "RoundTripOps"},     // a writer that lets a comment run into the next operator
	} {
		res, err := ctx.TLC(core.TLCOpts{Dir: "syntax", Module: "MC_ContentOps", Cfg: nc.cfg, Workers: 8, Mode: "negative-control", XssMB: 512, Quiet: true})
		if err != nil {
			return err
		}
		if res.Invariant != nc.inv && !(nc.inv == "RoundTripOps" && res.Invariant == "SplitOK") {
			return core.Infra("self-test: %s should violate %s, got %q", nc.cfg, nc.inv, res.Invariant)
		}
		ctx.Logf("self-test (ii): %s violates %s in the design model", nc.cfg, res.Invariant)
	}

	// (iii) a wrong expectation is noticed, and TLC does not blame the code
	col = &collector{ctx: ctx, seen: map[string]bool{}}
	s := []Op{mkOp("w", c01.VInt(1))}
	col.execOps("selftest", s, []Op{mkOp("w", c01.VInt(2))}, true, 1)
	gc := &genCase{Calls: []string{"q"}, ErrAt: 0, CanClose: true, Closing: []string{}}
	col.execBuilder("selftest", false, gc.Calls, gc)
	if len(col.recs) != 3 || !col.recs[0].suspect || !col.recs[2].suspect {
		return core.Infra("self-test: wrong table expectations not noticed")
	}
	docs = docs[:0]
	for _, r := range col.recs {
		docs = append(docs, r.tla())
	}
	bad, err = core.JudgeCases(ctx, traceOpts(ctx), docs, 10, 1)
	if err != nil {
		return err
	}
	if len(bad) != 0 {
		return core.Infra("self-test: records of correct executions rejected: %v", bad)
	}
	ctx.Logf("self-test (iii): wrong table expectations noticed by the harness, and not blamed on the code by TLC")
	return nil
}
