package c15

import (
	"bytes"
	"io"
	"strings"

	"seehuhn.de/go/pdf"
	"seehuhn.de/go/pdf/graphics"
	"seehuhn.de/go/pdf/graphics/content"
	"seehuhn.de/go/pdf/graphics/content/builder"
)

// builderCalls: the call classes of the Nesting model that have a Builder
// method (BX/EX have none).
var builderCalls = []string{"q", "Q", "BT", "ET", "BMC", "EMC", "m", "re", "l", "h", "S", "f", "n", "W", "w", "TL", "Td", "T*", "Tj", "BI"}

// apply performs the Builder call of class c (i makes numeric arguments
// differ from call to call: the Builder elides settings that do not change).
func apply(b *builder.Builder, c string, i int) {
	x := float64(i + 2)
	switch c {
	case "q":
		b.PushGraphicsState()
	case "Q":
		b.PopGraphicsState()
	case "BT":
		b.TextBegin()
	case "ET":
		b.TextEnd()
	case "BMC":
		b.MarkedContentStart(&graphics.MarkedContent{Tag: "Span"})
	case "EMC":
		b.MarkedContentEnd()
	case "m":
		b.MoveTo(x, 1)
	case "re":
		b.Rectangle(0, x, 10, 20.5)
	case "l":
		b.LineTo(x, x)
	case "h":
		b.ClosePath()
	case "S":
		b.Stroke()
	case "f":
		b.Fill()
	case "n":
		b.EndPath()
	case "W":
		b.ClipNonZero()
	case "w":
		b.SetLineWidth(x + 0.5)
	case "TL":
		b.TextSetLeading(x + 10)
	case "Td":
		b.TextFirstLine(x, -x)
	case "T*":
		b.TextNextLine()
	case "Tj":
		b.TextShowRaw(pdf.String("x(y"))
	case "BI":
		b.DrawInlineImageRaw(pdf.Dict{"W": pdf.Integer(1), "H": pdf.Integer(1), "BPC": pdf.Integer(8), "CS": pdf.Name("G")}, []byte{0x80})
	default:
		panic("c15: no Builder method for call class " + c)
	}
}

func opNames(names []content.OpName) []string {
	out := make([]string, len(names))
	for i, n := range names {
		out[i] = string(n)
	}
	return out
}

func equalStrings(a, b []string) bool {
	return strings.Join(a, "\x00") == strings.Join(b, "\x00") && len(a) == len(b)
}

// execBuilder drives a fresh Builder through calls and records what it did.
func (c *collector) execBuilder(origin string, pre2 bool, calls []string, gc *genCase) {
	version := pdf.V2_0
	if pre2 {
		version = pdf.V1_7
	}
	b := builder.New(content.Page, nil, version)
	r := c.observe(b, version, origin, pre2, calls, false)
	if gc != nil {
		// exact conformance with the code-shaped model; the property itself
		// only speaks about accepted call sequences
		switch {
		case r.ErrAt != 0 && gc.ErrAt == 0:
			c.ctx.Ev.Add("builder_refuses_what_the_model_accepts", 1)
		case r.ErrAt == 0 && gc.ErrAt != 0:
			r.suspect = true
		case r.ErrAt == 0:
			r.suspect = !(r.CloseOK == gc.CanClose && equalStrings(r.Closing, gc.Closing) && r.ApplyErr == 0 && len(r.Reread) == len(calls))
		}
	}
	c.add(r, "")
}

// program: one Builder used for several streams.
//
//	mode "reset":   Reset between the streams, each harvested
//	mode "build":   every stream through Builder.Build (which resets, runs the
//	                calls, and insists on Close)
//	mode "harvest": ONE stream handed out in several segments: Harvest after
//	                each group of calls, the graphics state continues; the
//	                judged stream is the concatenation of the segments
//
// deferred: the segments handed out are kept and only serialised after the
// Builder has finished all its streams (a segment must stay what it was when
// the Builder goes on); otherwise each is serialised as soon as it exists.
type program struct {
	pre2     bool
	mode     string
	deferred bool
	streams  [][]string
}

// pending is a stream whose segments have been handed out by the Builder
// but not yet (all) looked at.
type pending struct {
	r       *record
	segs    []*content.Operators
	data    [][]byte // serialisations made so far (eager order)
	closing []content.OpName
	version pdf.Version
}

func serialise(ops *content.Operators) []byte {
	rc, _ := ops.RawBytes()
	data, _ := io.ReadAll(rc)
	rc.Close()
	return data
}

// execProgram runs the streams of a program on ONE Builder; every stream is
// recorded (and judged) on its own, with the version of the Builder.
func (c *collector) execProgram(origin string, p program) {
	version := pdf.V2_0
	if p.pre2 {
		version = pdf.V1_7
	}
	b := builder.New(content.Page, nil, version)
	org := origin + "/" + p.mode
	if p.deferred {
		org += "/kept"
	}
	var all []*pending
	if p.mode == "harvest" {
		all = append(all, c.startSegments(b, version, org, p))
	} else {
		for _, calls := range p.streams {
			if p.mode == "reset" || b.Err != nil {
				b.Reset() // Build itself does nothing after an error
			}
			pd := c.start(b, version, org, p.pre2, calls, p.mode == "build")
			if !p.deferred {
				for _, seg := range pd.segs {
					pd.data = append(pd.data, serialise(seg))
				}
			}
			all = append(all, pd)
		}
	}
	// the Builder has finished; now look at everything it handed out
	for k, pd := range all {
		c.finish(pd)
		pp := p
		pd.r.prog, pd.r.stream = &pp, k
		c.add(pd.r, "")
	}
}

// startSegments: one stream, harvested in segments.
func (c *collector) startSegments(b *builder.Builder, version pdf.Version, origin string, p program) *pending {
	r := &record{Kind: "builder", Origin: origin, Pre2: p.pre2, pair: pairSeq.Add(1), SegLens: []int{}}
	pd := &pending{r: r, version: version}
	n := 0
segments:
	for _, calls := range p.streams {
		for _, call := range calls {
			apply(b, call, n)
			n++
			r.Calls = append(r.Calls, call)
			if b.Err != nil {
				r.ErrAt = n
				r.errText = b.Err.Error()
				break segments
			}
		}
		seg, err := b.Harvest()
		if err != nil {
			r.errText = "Harvest: " + err.Error()
			r.ApplyErr = -1
			break
		}
		r.SegLens = append(r.SegLens, len(calls))
		pd.segs = append(pd.segs, seg)
		if !p.deferred {
			pd.data = append(pd.data, serialise(seg))
		}
	}
	if r.ErrAt == 0 {
		r.CloseOK = b.Close() == nil
		pd.closing = b.State.ClosingOperators()
	}
	return pd
}

// execBuilder's and execProgram's first half: perform calls on b and record
// what the Builder did: the call after which Err was set, Close,
// ClosingOperators, and the stream it hands out.
func (c *collector) start(b *builder.Builder, version pdf.Version, origin string, pre2 bool, calls []string, useBuild bool) *pending {
	r := &record{Kind: "builder", Origin: origin, Pre2: pre2, pair: pairSeq.Add(1)}
	pd := &pending{r: r, version: version}
	run := func(b *builder.Builder) error {
		for i, call := range calls {
			apply(b, call, i)
			r.Calls = append(r.Calls, call)
			if b.Err != nil {
				r.ErrAt = i + 1
				r.errText = b.Err.Error()
				break // the error is sticky: later calls do nothing
			}
		}
		return nil
	}
	var ops *content.Operators
	if useBuild {
		ops = b.Build(run)
		if ops == nil && r.ErrAt == 0 {
			// all calls accepted, but Build refused the stream (not balanced)
			r.ErrAt = len(calls) + 1
			if b.Err != nil {
				r.errText = b.Err.Error()
			}
		}
		if ops != nil {
			r.CloseOK = true
			pd.closing = b.State.ClosingOperators()
		}
	} else {
		run(b)
		if r.ErrAt == 0 {
			r.CloseOK = b.Close() == nil
			pd.closing = b.State.ClosingOperators()
			var herr error
			ops, herr = b.Harvest()
			if herr != nil {
				r.errText = "Harvest: " + herr.Error()
				r.ApplyErr = -1
				ops = nil
			}
		}
	}
	if ops != nil {
		pd.segs = []*content.Operators{ops}
		r.SegLens = []int{len(calls)}
	}
	return pd
}

// finish: the segments handed out are serialised (unless they were already),
// re-read from their bytes, and fed in order to a State of the same version.
func (c *collector) finish(pd *pending) {
	r := pd.r
	c.ctx.Ev.Eval(1)
	c.ctx.Ev.Distinct("b:" + strings.Join(r.Calls, "."))
	if r.ErrAt == 0 && r.ApplyErr == 0 && len(pd.segs) > 0 {
		r.Closing = opNames(pd.closing)
		r.RereadLens = []int{}
		st := content.NewState(content.Page, &content.Resources{})
		st.Version = pd.version
		n := 0
		for k, seg := range pd.segs {
			var data []byte
			if k < len(pd.data) {
				data = pd.data[k]
			} else {
				data = serialise(seg)
			}
			it := content.NewScanner(func() (io.ReadCloser, error) { return io.NopCloser(bytes.NewReader(data)), nil }).NewIter()
			m := 0
			for name, args := range it.All() {
				n++
				m++
				r.Reread = append(r.Reread, string(name))
				if r.ApplyErr == 0 {
					if err := st.ApplyOperator(name, args); err != nil {
						r.ApplyErr = n
						r.errText = err.Error()
					}
				}
			}
			r.RereadLens = append(r.RereadLens, m)
		}
		for _, name := range pd.closing {
			n++
			if r.ApplyErr == 0 {
				if err := st.ApplyOperator(name, nil); err != nil {
					r.ApplyErr = n
					r.errText = err.Error()
				}
			}
		}
		if r.ApplyErr == 0 {
			if err := st.CanClose(); err != nil {
				r.ApplyErr = n + 1
				r.errText = err.Error()
			}
		}
	}
	if r.ErrAt == 0 {
		c.ctx.Ev.Add("builder_runs_accepted", 1)
	}
}

// observe = start + finish.
func (c *collector) observe(b *builder.Builder, version pdf.Version, origin string, pre2 bool, calls []string, useBuild bool) *record {
	pd := c.start(b, version, origin, pre2, calls, useBuild)
	c.finish(pd)
	return pd.r
}
