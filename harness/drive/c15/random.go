package c15

import (
	"bytes"
	"math/rand"

	"verif/harness/core"
	"verif/harness/drive/c01"
)

// the operators of ISO 32000-2 Table 50 (without BI/ID/EI, which only occur
// as the framing of an inline image)
var knownOps = map[string]int{
	"b": 0, "B": 0, "b*": 0, "B*": 0, "BDC": 2, "BMC": 1, "BT": 0, "BX": 0, "c": 6, "cm": 6, "CS": 1, "cs": 1, "d": 2, "d0": 2, "d1": 6,
	"Do": 1, "DP": 2, "EMC": 0, "ET": 0, "EX": 0, "f": 0, "F": 0, "f*": 0, "G": 1, "g": 1, "gs": 1, "h": 0, "i": 1, "j": 1, "J": 1,
	"K": 4, "k": 4, "l": 2, "m": 2, "M": 1, "MP": 1, "n": 0, "q": 0, "Q": 0, "re": 4, "RG": 3, "rg": 3, "ri": 1, "s": 0, "S": 0,
	"SC": 3, "sc": 3, "SCN": 4, "scn": 4, "sh": 1, "T*": 0, "Tc": 1, "Td": 2, "TD": 2, "Tf": 2, "Tj": 1, "TJ": 1, "TL": 1, "Tm": 6,
	"Tr": 1, "Ts": 1, "Tw": 1, "Tz": 1, "v": 4, "w": 1, "W": 0, "W*": 0, "y": 4, "'": 1, "\"": 3,
}

var knownList []string

func init() {
	for _, k := range core.SortedKeys(knownOps) {
		knownList = append(knownList, k)
	}
}

func randOpName(r *rand.Rand) string {
	if r.Intn(5) > 0 {
		return knownList[r.Intn(len(knownList))]
	}
	first := "abcdefghijklmnopqrstuvwxyzABCDEFGHJKLMNOPQRSTUVWXYZ'\"*_"
	rest := first + "0123456789#!$&-+.:;=?@^`|~\\"
	for {
		n := 1 + r.Intn(5)
		b := []byte{first[r.Intn(len(first))]}
		for len(b) < n {
			b = append(b, rest[r.Intn(len(rest))])
		}
		s := string(b)
		switch s {
		case "BI", "ID", "EI", "true", "false", "null":
			continue
		}
		return s
	}
}

func randNumber(r *rand.Rand) Val {
	if r.Intn(2) == 0 {
		return c01.VInt(int64(r.Intn(2001) - 1000))
	}
	return c01.RandVal(r, 0, 0)
}

var dataAlphabet = []byte{'E', 'I', ' ', '\n', '\r', 'x', '\t', 0, '/', '(', '>', 'e'}

func randImage(r *rand.Rand) Op {
	m := map[string]Val{"W": c01.VInt(int64(1 + r.Intn(16))), "H": c01.VInt(int64(1 + r.Intn(16)))}
	if r.Intn(2) == 0 {
		m["BPC"] = c01.VInt([]int64{1, 2, 4, 8}[r.Intn(4)])
	}
	switch r.Intn(4) {
	case 0:
		m["CS"] = c01.VName([]byte([]string{"G", "RGB", "CMYK", "Cs1"}[r.Intn(4)]))
	case 1:
		m["CS"] = c01.VArr(c01.VName([]byte("I")), c01.VName([]byte("RGB")), c01.VInt(1), c01.VStr(c01.RandBytes(r, 6)))
	}
	if r.Intn(4) == 0 {
		m["D"] = c01.VArr(c01.VInt(1), c01.VReal(0.5))
	}
	if r.Intn(4) == 0 {
		m["IM"] = c01.VBool(r.Intn(2) == 0)
	}
	if r.Intn(6) == 0 {
		m["DP"] = c01.VDict(map[string]Val{"K": c01.VInt(-1), "Columns": c01.VInt(8)})
	}
	if r.Intn(8) == 0 {
		m["F"] = c01.VName([]byte([]string{"AHx", "A85", "Fl", "RL", "LZW", "DCT", "CCF"}[r.Intn(7)]))
	}
	var data []byte
	switch r.Intn(3) {
	case 0:
		data = c01.RandBytes(r, r.Intn(60))
	default:
		data = make([]byte, r.Intn(12))
		for i := range data {
			data[i] = dataAlphabet[r.Intn(len(dataAlphabet))]
		}
	}
	if f, ok := m["F"]; ok && (string(f.S) == "AHx" || string(f.S) == "A85") {
		// encoded data: white space is insignificant, the scanner skips it after ID
		data = append([]byte("4a"), bytes.TrimLeft(data, "\x00\t\n\f\r ")...)
		data = append(data, '>')
	}
	wrapped := false
	if r.Intn(10) == 0 {
		// line-wrapped data under an ASCII filter with a line that reads "EI"
		// (E and I are base-85 digits, and EOLs are legal anywhere in such
		// data): the writer has to give the length
		m["F"] = c01.VName([]byte([]string{"AHx", "A85", "A85", "ASCII85Decode"}[r.Intn(4)]))
		eol := []string{"\n", "\r", "\r\n"}[r.Intn(3)]
		sep := []string{" ", "\n", "\r\n", "\t", "/", "\x00"}[r.Intn(6)]
		data = []byte("4a6b" + eol + "EI" + sep + "7c" + []string{"", eol + "EI" + eol}[r.Intn(2)] + "~>")
		wrapped = true
	}
	if r.Intn(3) == 0 && len(data) > 0 && !wrapped {
		m["L"] = c01.VInt(int64(len(data)))
	}
	if r.Intn(40) == 0 {
		m[[]string{"A B", "K#", "X(", "/Y"}[r.Intn(4)]] = c01.VInt(1)
	}
	if r.Intn(40) == 0 {
		m["Z"] = c01.VNull()
	}
	return mkOp(imageName, c01.VDict(m), c01.VStr(data))
}

var commentAlphabet = []byte{'%', '(', ')', 'E', 'I', ' ', '\t', 0, '\f', 'a', 'q', '1', '/', '<', '>', '[', '\\', 0x80, 'B', 'D'}
var commentEnds = [][]byte{{}, {}, {' '}, {'\t'}, {'\f'}, {0}, {' ', ' '}, {'\r'}, {'\n'}, {'\r', '\n'}, {'\t', '\n'}}

// randComment: a comment as raw content: "%", bytes other than CR and LF,
// and one of the possible endings.
func randComment(r *rand.Rand) Op {
	b := []byte{'%'}
	for n := r.Intn(9); n > 0; n-- {
		b = append(b, commentAlphabet[r.Intn(len(commentAlphabet))])
	}
	b = append(b, commentEnds[r.Intn(len(commentEnds))]...)
	return mkOp(rawName, c01.VStr(b))
}

func randomOps(ctx *core.Ctx) [][]Op {
	r := ctx.Rand("ops")
	n := ctx.Pick(3000, 30000)
	out := make([][]Op, 0, n)
	for i := 0; i < n; i++ {
		k := 1 + r.Intn(5)
		ops := make([]Op, k)
		for j := range ops {
			if r.Intn(5) == 0 {
				ops[j] = randImage(r)
				continue
			}
			if r.Intn(7) == 0 {
				ops[j] = randComment(r)
				continue
			}
			name := randOpName(r)
			na, known := knownOps[name]
			if !known || r.Intn(4) == 0 {
				na = r.Intn(7)
			}
			args := make([]Val, na)
			for a := range args {
				if r.Intn(3) == 0 {
					args[a] = randNumber(r)
				} else {
					args[a] = c01.RandVal(r, r.Intn(3), ctx.Pick(40, 200))
				}
			}
			ops[j] = mkOp(name, args...)
		}
		out = append(out, ops)
	}
	return out
}

type callSeq struct {
	pre2  bool
	calls []string
}

// programs: Builders that are used for several streams (Reset or Build
// between them), for PDF 1.7 and 2.0.  Fixed programs aim at the rules that
// depend on the version (q/Q inside a text object, 28 open q); seeded random
// ones follow.
func programs(ctx *core.Ctx) []program {
	var out []program
	deep := func(n int) []string {
		var s []string
		for i := 0; i < n; i++ {
			s = append(s, "q")
		}
		for i := 0; i < n; i++ {
			s = append(s, "Q")
		}
		return s
	}
	fixed := [][][]string{
		{{"q", "Q"}, {"BT", "q", "Q", "ET"}, {"BT", "q", "Q", "ET"}},
		{{"BT", "q", "Q", "ET"}, {"re", "f"}},
		{{"re", "f"}, deep(28), deep(29), deep(29)},
		{{"q", "BT", "Tj"}, {"BT", "Td", "q", "TL", "Q", "ET"}, deep(30)},
		{{"BMC", "BT", "ET", "EMC"}, {"q", "BT", "Q", "ET"}, {"BT", "BMC", "q", "Q", "EMC", "ET"}},
	}
	// one stream handed out in segments (the state continues over Harvest)
	segmented := [][][]string{
		{{"q", "w", "re", "S"}, {"m", "l", "S", "Q"}},
		{{"q", "BT", "Td"}, {"TL", "T*", "ET"}, {"Q"}},
		{{"re"}, {"W", "n"}, {"BMC", "re", "f", "EMC"}},
		{{"q", "q", "q", "BMC"}, {"BI"}, {"EMC", "Q"}, {"Q", "Q"}},
		{{"BT", "q", "Q"}, {"ET", "re", "f"}},
		{deep(14)[:20], deep(14)[20:], {"re", "f"}},
	}
	for _, pre2 := range []bool{true, false} {
		for _, deferred := range []bool{false, true} {
			for _, mode := range []string{"reset", "build"} {
				for _, f := range fixed {
					out = append(out, program{pre2: pre2, mode: mode, deferred: deferred, streams: f})
				}
			}
			for _, f := range segmented {
				out = append(out, program{pre2: pre2, mode: "harvest", deferred: deferred, streams: f})
			}
		}
	}
	r := ctx.Rand("programs")
	seqs := randomCalls2(r, ctx.Pick(1500, 15000))
	for i := 0; i+2 < len(seqs); i += 3 {
		p := program{pre2: r.Intn(3) > 0, mode: []string{"reset", "build", "harvest"}[r.Intn(3)], deferred: r.Intn(3) > 0,
			streams: [][]string{seqs[i].calls, seqs[i+1].calls, seqs[i+2].calls}}
		if p.mode == "harvest" {
			// one random program cut into 2-4 segments
			calls := seqs[i].calls
			p.streams = nil
			for len(calls) > 0 {
				k := 1 + r.Intn(len(calls))
				if len(p.streams) == 3 {
					k = len(calls)
				}
				p.streams = append(p.streams, calls[:k])
				calls = calls[k:]
			}
		}
		out = append(out, p)
	}
	return out
}

// randomCalls: longer Builder programs, biased towards calls the current
// state allows (so that the runs get deep) with some that it does not.
func randomCalls(ctx *core.Ctx) []callSeq {
	return randomCalls2(ctx.Rand("calls"), ctx.Pick(3000, 30000))
}

func randomCalls2(r *rand.Rand, n int) []callSeq {
	out := make([]callSeq, 0, n)
	for i := 0; i < n; i++ {
		cs := callSeq{pre2: r.Intn(2) == 0}
		k := 4 + r.Intn(30)
		if r.Intn(20) == 0 {
			k = 40 // reach the q limit of 28 before PDF 2.0
		}
		obj := "page"
		for j := 0; j < k; j++ {
			var c string
			for tries := 0; ; tries++ {
				c = builderCalls[r.Intn(len(builderCalls))]
				if k == 40 && r.Intn(2) == 0 {
					c = "q"
				}
				if tries > 6 || r.Intn(12) == 0 || plausible(obj, c) {
					break
				}
			}
			cs.calls = append(cs.calls, c)
			if plausible(obj, c) {
				switch c {
				case "m", "re":
					obj = "path"
				case "S", "f", "n":
					obj = "page"
				case "W":
					obj = "clip"
				case "BT":
					obj = "text"
				case "ET":
					obj = "page"
				}
			}
		}
		out = append(out, cs)
	}
	return out
}

// plausible is only a sampling heuristic (the model decides what is right).
func plausible(obj, c string) bool {
	switch c {
	case "Tj":
		return false
	case "BT", "BI":
		return obj == "page"
	case "ET", "Td", "T*":
		return obj == "text"
	case "m", "re":
		return obj == "page" || obj == "path"
	case "l", "h", "W":
		return obj == "path"
	case "S", "f", "n":
		return obj == "path" || obj == "clip"
	case "TL":
		return true
	}
	return obj == "page" || obj == "text"
}
