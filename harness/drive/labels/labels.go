// Package labels binds spec/nav/PageLabels.tla to go-pdf's pagelabel package
// (pagelabel/format.go, pagelabel.go).  It is an extension beyond the listed
// properties and runs from C16 (document navigation structures): deviations
// are NOTE lines, never violations of C16.
//
//	model   MC_PageLabels_*.cfg: the greedy Roman numeral table against the
//	        digit-by-digit reading for every number 1..3999, the letter
//	        labels, the binary search of Labels.RangeAt against a linear
//	        scan for every labelling of one to three ranges; three mutation
//	        switches as negative controls (selftest)
//	P-A     Gen_PageLabels writes every labelling of the bounds with the
//	        reference labels; each is built with pagelabel.New, embedded
//	        into a real file, found in the file by the strict parser, and
//	        extracted again
//	P-B     Labels.Format of every page (both stages) and the ranges found
//	        in the file are judged by TLC with Trace_PageLabels; beyond the
//	        bounds: seeded labellings of up to 40 ranges over 5000 pages and
//	        start values up to 3999
package labels

import (
	"bytes"
	"encoding/json"
	"fmt"
	"os"
	"path/filepath"
	"sort"
	"strings"
	"sync"

	"seehuhn.de/go/pdf"
	"seehuhn.de/go/pdf/pagelabel"

	"verif/harness/core"
	"verif/harness/indep/obj"
	"verif/harness/indep/strict"
)

// Range is one labelling range (see PageLabels.tla).
type Range struct {
	First  int    `json:"first"`
	Style  string `json:"style"`
	Prefix []int  `json:"prefix"`
	Start  int    `json:"start"`
}

type Label struct {
	Page int   `json:"page"`
	Text []int `json:"text"`
}

// Case is a replayable case.
type Case struct {
	Ranges  []Range `json:"ranges"`
	Pages   []int   `json:"pages"`
	Version string  `json:"version"`
	Origin  string  `json:"origin"`
}

// Record is what Trace_PageLabels judges.
type Record struct {
	Stage  string  `json:"stage"`
	Err    string  `json:"err"`
	Ranges []Range `json:"ranges"`
	Labels []Label `json:"labels"`
	Tree   []Range `json:"tree"`
	c      *Case
}

var styles = map[string]pagelabel.Style{"-": pagelabel.None, "D": pagelabel.Decimal, "R": pagelabel.UpperRoman, "r": pagelabel.LowerRoman, "A": pagelabel.UpperAlpha, "a": pagelabel.LowerAlpha}

func runesToInts(s string) []int {
	out := []int{}
	for _, r := range s {
		out = append(out, int(r))
	}
	return out
}

func intsToString(v []int) string {
	var sb strings.Builder
	for _, c := range v {
		sb.WriteRune(rune(c))
	}
	return sb.String()
}

func ask(l *pagelabel.Labels, pages []int) []Label {
	out := []Label{}
	for _, p := range pages {
		out = append(out, Label{Page: p, Text: runesToInts(l.Format(p))})
	}
	return out
}

// Execute runs one case: built, then embedded and extracted.
func Execute(c *Case) (recs []*Record, err error) {
	built := &Record{Stage: "built", Ranges: c.Ranges, Labels: []Label{}, Tree: []Range{}, c: c}
	ext := &Record{Stage: "extracted", Ranges: c.Ranges, Labels: []Label{}, Tree: []Range{}, c: c}
	recs = []*Record{built, ext}
	defer func() {
		if p := recover(); p != nil {
			for _, r := range recs {
				if r.Err == "" && len(r.Labels) == 0 {
					r.Err = fmt.Sprintf("panic: %v", p)
				}
			}
		}
	}()
	var entries []pagelabel.Entry
	for _, r := range c.Ranges {
		entries = append(entries, pagelabel.Entry{FirstPage: r.First, Range: pagelabel.Range{Style: styles[r.Style], Prefix: intsToString(r.Prefix), Start: r.Start}})
	}
	l, err := pagelabel.New(entries...)
	if err != nil {
		built.Err, ext.Err = "New: "+err.Error(), "New: "+err.Error()
		return recs, nil
	}
	built.Labels = ask(l, c.Pages)

	var buf bytes.Buffer
	v, verr := pdf.ParseVersion(c.Version)
	if verr != nil {
		return nil, core.Infra("labels: version %q", c.Version)
	}
	w, err := pdf.NewWriter(&buf, v, nil)
	if err != nil {
		return nil, core.Infra("labels: %v", err)
	}
	pagesRef := w.Alloc()
	if err := w.Put(pagesRef, pdf.Dict{"Type": pdf.Name("Pages"), "Kids": pdf.Array{}, "Count": pdf.Integer(0)}); err != nil {
		return nil, core.Infra("labels: %v", err)
	}
	w.GetMeta().Catalog.Pages = pagesRef
	rm := pdf.NewResourceManager(w)
	emb, err := rm.Embed(l)
	if err != nil {
		ext.Err = "Embed: " + err.Error()
		return recs, nil
	}
	holder := w.Alloc()
	if err := w.Put(holder, pdf.Dict{"Labels": emb}); err != nil {
		ext.Err = "Put: " + err.Error()
		return recs, nil
	}
	if err := rm.Close(); err != nil {
		ext.Err = "ResourceManager.Close: " + err.Error()
		return recs, nil
	}
	if err := w.Close(); err != nil {
		ext.Err = "Writer.Close: " + err.Error()
		return recs, nil
	}
	data := buf.Bytes()
	// the number tree as the strict parser finds it
	tree, terr := readTree(data, obj.Ref{Num: holder.Number(), Gen: holder.Generation()})
	if terr != nil {
		ext.Err = "number tree in the file: " + terr.Error()
		return recs, nil
	}
	ext.Tree = tree
	rd, err := pdf.NewReader(bytes.NewReader(data), int64(len(data)), nil)
	if err != nil {
		ext.Err = "NewReader: " + err.Error()
		return recs, nil
	}
	defer rd.Close()
	hd, err := rd.Get(holder, true)
	if err != nil {
		ext.Err = "Get: " + err.Error()
		return recs, nil
	}
	l2, err := pagelabel.Extract(rd, hd.(pdf.Dict)["Labels"])
	if err != nil {
		ext.Err = "Extract: " + err.Error()
		return recs, nil
	}
	ext.Labels = ask(l2, c.Pages)
	return recs, nil
}

// readTree flattens the /PageLabels number tree (12.4.2, 7.9.7) independently.
func readTree(data []byte, holder obj.Ref) ([]Range, error) {
	f, err := strict.Parse(data)
	if err != nil {
		return nil, err
	}
	get := func(v obj.Value) obj.Value {
		for k := 0; k < 8; k++ {
			r, ok := v.(obj.Ref)
			if !ok {
				return v
			}
			v, ok = f.Lookup(r)
			if !ok {
				return obj.Null{}
			}
		}
		return obj.Null{}
	}
	hd, ok := get(holder).(obj.Dict)
	if !ok {
		return nil, fmt.Errorf("holder object not found")
	}
	out := []Range{}
	var walk func(v obj.Value, depth int) error
	walk = func(v obj.Value, depth int) error {
		d, ok := get(v).(obj.Dict)
		if !ok || depth > 20 {
			return fmt.Errorf("tree node is not a dictionary")
		}
		if nums, ok := get(d["Nums"]).(obj.Array); ok {
			for i := 0; i+1 < len(nums); i += 2 {
				k, ok := get(nums[i]).(obj.Int)
				if !ok {
					return fmt.Errorf("key is not an integer")
				}
				r := Range{First: int(k), Style: "-", Prefix: []int{}, Start: 1}
				ld, _ := get(nums[i+1]).(obj.Dict)
				if s, ok := get(ld["S"]).(obj.Name); ok {
					r.Style = string(s)
				}
				if p, ok := get(ld["P"]).(obj.Str); ok {
					r.Prefix = runesToInts(string(p)) // the prefixes used are ASCII
				}
				if st, ok := get(ld["St"]).(obj.Int); ok {
					r.Start = int(st)
				}
				out = append(out, r)
			}
		}
		if kids, ok := get(d["Kids"]).(obj.Array); ok {
			for _, k := range kids {
				if err := walk(k, depth+1); err != nil {
					return err
				}
			}
		}
		return nil
	}
	if err := walk(hd["Labels"], 0); err != nil {
		return nil, err
	}
	sort.SliceStable(out, func(i, j int) bool { return out[i].First < out[j].First })
	return out, nil
}

type genLine struct {
	Ranges []Range `json:"ranges"`
}

var judgeOpts = core.TLCOpts{Dir: "nav", Module: "Trace_PageLabels", Cfg: "Trace_PageLabels.cfg", XssMB: 512}

// Run is the entry point (called from C16).
func Run(ctx *core.Ctx) error {
	ctx.Ev.Assume("extension page labels: prefixes are ASCII; Roman numerals are only asked for numbers up to 3999 and letters up to 26 x 30 (beyond, go-pdf falls back to decimals, about which ISO 32000-2 12.4.2 says nothing)")
	cfg, gcfg := "MC_PageLabels_q.cfg", "Gen_PageLabels_q.cfg"
	maxPage := 5
	if ctx.Thorough() {
		cfg, gcfg, maxPage = "MC_PageLabels_t.cfg", "Gen_PageLabels_t.cfg", 7
	}
	res, err := ctx.MustHold(core.TLCOpts{Dir: "nav", Module: "PageLabels", Cfg: cfg, Workers: 8, Timeout: ctx.Dur(8, 20), XssMB: 512,
		Constants: "numbers 1..3999; labellings of 1-3 ranges over pages 0..5 (thorough 0..7), 6 styles, 2 prefixes, 6 start values"})
	if err != nil {
		return err
	}
	raw, _, err := core.GenCases[string](ctx, core.TLCOpts{Dir: "nav", Module: "Gen_PageLabels", Cfg: gcfg, Workers: 1, Timeout: ctx.Dur(8, 20), XssMB: 512, Mode: "evaluate",
		Constants: "every labelling of the bounds"})
	if err != nil {
		return err
	}
	var cases []*Case
	seen := map[string]bool{}
	pages := []int{}
	for p := 0; p <= maxPage+1; p++ {
		pages = append(pages, p)
	}
	for i, text := range raw {
		if seen[text] {
			continue
		}
		seen[text] = true
		var l genLine
		if err := json.Unmarshal([]byte(text), &l); err != nil {
			return core.Infra("labels: Gen_PageLabels line %d: %v", i, err)
		}
		for k := range l.Ranges {
			if l.Ranges[k].Prefix == nil {
				l.Ranges[k].Prefix = []int{}
			}
		}
		cases = append(cases, &Case{Ranges: l.Ranges, Pages: pages, Version: []string{"1.7", "1.3", "2.0"}[len(cases)%3], Origin: "table"})
	}
	if len(cases) == 0 {
		return core.Infra("labels: Gen_PageLabels wrote nothing")
	}
	nTable := len(cases)
	// beyond the bounds
	rng := ctx.Rand("labels")
	styleNames := []string{"-", "D", "R", "r", "A", "a"}
	for k := 0; k < ctx.Pick(150, 1500); k++ {
		n := 1 + rng.Intn(40)
		firsts := map[int]bool{0: true}
		for len(firsts) < n {
			firsts[rng.Intn(5000)] = true
		}
		var fs []int
		for f := range firsts {
			fs = append(fs, f)
		}
		sort.Ints(fs)
		var rs []Range
		for _, f := range fs {
			st := styleNames[rng.Intn(6)]
			start := []int{1, 2, 3, 4, 9, 14, 26, 27, 40, 49, 90, 99, 400, 499, 900, 999, 1994, 3888, 3990}[rng.Intn(19)]
			if st == "A" || st == "a" {
				start = []int{1, 2, 25, 26, 27, 52, 53, 700}[rng.Intn(8)]
			}
			rs = append(rs, Range{First: f, Style: st, Prefix: [][]int{{}, {65, 45}, {40, 41}, {112, 46, 32}}[rng.Intn(4)], Start: start})
		}
		// pages at the range boundaries and at random, numbers kept within what the reference defines
		var ps []int
		for i, f := range fs {
			limit := 5000
			if i+1 < len(fs) {
				limit = fs[i+1]
			}
			cap := f + 8
			switch rs[i].Style {
			case "R", "r":
				if f+3999-rs[i].Start < limit {
					limit = f + 3999 - rs[i].Start + 1
				}
			case "A", "a":
				if f+780-rs[i].Start < limit {
					limit = f + 780 - rs[i].Start + 1
				}
			}
			for _, p := range []int{f, f + 1, limit - 1, f + rng.Intn(cap-f+1)} {
				if p >= f && p < limit {
					ps = append(ps, p)
				}
			}
		}
		cases = append(cases, &Case{Ranges: rs, Pages: ps, Version: "1.7", Origin: "random"})
	}
	recs := make([]*Record, 0, 2*len(cases))
	all := make([][]*Record, len(cases))
	var wg sync.WaitGroup
	var mu sync.Mutex
	var first error
	sem := make(chan struct{}, 12)
	for i := range cases {
		wg.Add(1)
		sem <- struct{}{}
		go func(i int) {
			defer wg.Done()
			defer func() { <-sem }()
			rs, err := Execute(cases[i])
			mu.Lock()
			if err != nil && first == nil {
				first = err
			}
			all[i] = rs
			mu.Unlock()
		}(i)
	}
	wg.Wait()
	if first != nil {
		return first
	}
	for _, rs := range all {
		recs = append(recs, rs...)
	}
	bad, err := core.JudgeCases(ctx, judgeOpts, recs, 2000, 12)
	if err != nil {
		return err
	}
	findings := map[string]int{}
	for _, b := range bad {
		r := recs[b]
		key := "labels/" + r.Stage
		if r.Err != "" {
			key += "/error"
		}
		findings[key]++
		if findings[key] > 1 {
			continue
		}
		path := ""
		dir := filepath.Join(os.Getenv("VERIF_OUT"), "replays", "labels")
		if os.Getenv("VERIF_OUT") == "" {
			dir = filepath.Join(ctx.VerifDir, "replays", "labels")
		}
		if err := os.MkdirAll(dir, 0o755); err == nil {
			path = filepath.Join(dir, strings.ReplaceAll(key, "/", "_")+".json")
			data, _ := json.MarshalIndent(map[string]any{"extension": "page-labels", "key": key, "case": r.c, "labels": r.Labels, "tree": r.Tree, "error": r.Err}, "", " ")
			_ = os.WriteFile(path, data, 0o644)
		}
		fmt.Printf("NOTE extension=page-labels key=%s labelling of %d ranges (%s): rejected by Trace_PageLabels; %s | replay=%s\n", key, len(r.Ranges), r.c.Origin, r.Err, path)
	}
	ctx.Ev.AddReplayed(len(cases))
	ctx.Ev.Set("extension_page_labels", map[string]any{"model_states": res.Distinct, "labellings_from_the_model": nTable, "labellings_beyond": len(cases) - nTable,
		"records_judged": len(recs), "records_rejected": len(bad), "finding_classes": findings})
	ctx.Logf("page labels: %d model states; %d labellings (%d from the model) built, embedded and extracted on the real code, %d of %d records rejected", res.Distinct, len(cases), nTable, len(bad), len(recs))
	return nil
}

// SelfTest: the mutation switches must be found, corrupted records singled out.
func SelfTest(ctx *core.Ctx) error {
	for cfg, inv := range map[string]string{"MC_PageLabels_neg_noNine.cfg": "LabelAgrees", "MC_PageLabels_neg_alphaOffByOne.cfg": "LabelAgrees", "MC_PageLabels_neg_exactHitOff.cfg": "RangeAgrees"} {
		res, err := ctx.TLC(core.TLCOpts{Dir: "nav", Module: "PageLabels", Cfg: cfg, Workers: 4, Mode: "negative-control"})
		if err != nil {
			return err
		}
		if res.Invariant != inv && res.Invariant != "RomanAgrees" && res.Invariant != "AlphaAgrees" {
			return core.Infra("self-test: %s should violate %s, got %q", cfg, inv, res.Invariant)
		}
	}
	c := &Case{Ranges: []Range{{First: 0, Style: "r", Prefix: []int{}, Start: 1}, {First: 3, Style: "A", Prefix: []int{65, 45}, Start: 26}}, Pages: []int{0, 1, 2, 3, 4, 5}, Version: "1.7", Origin: "selftest"}
	recs, err := Execute(c)
	if err != nil {
		return err
	}
	bad1 := *recs[1]
	bad1.Labels = append([]Label{}, recs[1].Labels...)
	bad1.Labels[3] = Label{Page: 3, Text: []int{65, 45, 65}}
	bad2 := *recs[1]
	bad2.Tree = append([]Range{}, recs[1].Tree...)
	bad2.Tree[1].Start = 25
	bad, err := core.JudgeCases(ctx, judgeOpts, []*Record{recs[0], recs[1], &bad1, &bad2}, 10, 1)
	if err != nil {
		return err
	}
	if fmt.Sprint(bad) != "[2 3]" {
		return core.Infra("self-test page labels: corrupted records not singled out: rejected %v, want [2 3]", bad)
	}
	ctx.Logf("self-test page labels: 3 defective models violate their invariants, 2 corrupted records rejected, 2 intact records accepted")
	return nil
}
