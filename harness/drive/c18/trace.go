package c18

import (
	"verif/harness/core"
)

type traceRec struct {
	Events []event `json:"events"`
}

// validateTraces lets TLC judge the executions recorded during the replay:
// every event must be a step of Extractor.tla whose successor projects to what
// was observed on the real code.
func validateTraces(ctx *core.Ctx, cf config, scheds []schedule, outs []outcome) error {
	var recs []traceRec
	var idx []int
	// quick tier: every execution that showed a problem, and a seeded sample of
	// at most 5000 of the others; thorough: all
	keep := map[int]bool{}
	if !ctx.Thorough() && len(outs) > 5000 {
		for _, i := range ctx.Rand("trace-sample-" + cf.Name).Perm(len(outs))[:5000] {
			keep[i] = true
		}
	}
	for i, o := range outs {
		if len(o.Events) == 0 {
			continue
		}
		if len(keep) > 0 && !keep[i] && len(o.Violations) == 0 && len(o.Divergences) == 0 {
			continue
		}
		recs = append(recs, traceRec{Events: o.Events})
		idx = append(idx, i)
	}
	bad, err := core.JudgeCases(ctx, core.TLCOpts{Dir: "conc", Module: "Trace_Extractor",
		Cfg: cf.Trace, Timeout: ctx.Dur(10, 30)}, recs, 400, 12)
	if err != nil {
		return err
	}
	for _, b := range bad {
		i := idx[b]
		if len(outs[i].Violations) > 0 {
			continue // already reported from the property-level observation
		}
		return core.Infra("%s: TLC rejects a recorded execution that shows no property violation (schedule %s): the specification no longer describes the code", cf.Name, stepsKey(scheds[i]))
	}
	// the other direction: a property-level violation must also be rejected by TLC
	isBad := map[int]bool{}
	for _, b := range bad {
		isBad[idx[b]] = true
	}
	for i, o := range outs {
		if len(o.Violations) > 0 && len(o.Events) > 0 && !isBad[i] && !onlyDeadlock(o) {
			return core.Infra("%s: harness reports %q but Trace_Extractor accepts the execution", cf.Name, o.Violations[0])
		}
	}
	return nil
}

func onlyDeadlock(o outcome) bool {
	for _, k := range o.Keys {
		if len(k) < 8 || k[:8] != "deadlock" {
			return false
		}
	}
	return true
}
