package c18

import "testing"

func TestRaceKeys(t *testing.T) {
	rep := "==================\nWARNING: DATA RACE\nWrite at 0x00c0 by goroutine 27:\n  seehuhn.de/go/pdf/annotation/decode.(*fieldTreeDecoder).decodeTerminal()\n      /x/field.go:83 +0x267\n  seehuhn.de/go/pdf.Decode[...]()\n      /x/cursor.go:1 +0x1\n\nPrevious read at 0x00c0 by goroutine 28:\n  main.formsRound.func1()\n      /x/main.go:55 +0x1cc\n  seehuhn.de/go/pdf/annotation/decode.Form()\n      /x/form.go:1 +0x1\n\nGoroutine 27 (running) created at:\n  main.x()\n==================\n"
	got := raceKeys(rep)
	want := "race/annotation/decode.(*fieldTreeDecoder).decodeTerminal+annotation/decode.Form"
	if _, ok := got[want]; !ok || len(got) != 1 {
		t.Fatalf("got %v", got)
	}
}
