package c18

import (
	"fmt"
	"regexp"
	"sort"
	"strings"
	"time"

	"seehuhn.de/go/pdf"

	"verif/harness/core"
)

// graphs as in MC_Extractor.tla
var graphs = map[string]graph{
	"chain": {Target: map[string]string{"r1": "r2", "r2": "VAL", "r3": "VAL"},
		Children: map[string][]string{"r3": {"r1"}}, Fails: map[string]bool{}},
	"mutual": {Target: map[string]string{"r1": "VAL", "r2": "VAL", "r3": "r1"},
		Children: map[string][]string{"r1": {"r2"}, "r2": {"r1"}}, Fails: map[string]bool{}},
	"cycle": {Target: map[string]string{"r1": "r2", "r2": "r1", "r3": "VAL"},
		Children: map[string][]string{}, Fails: map[string]bool{}},
	"fail": {Target: map[string]string{"r1": "r2", "r2": "VAL", "r3": "VAL"},
		Children: map[string][]string{}, Fails: map[string]bool{"r2": true}},
	"excl": {Target: map[string]string{"r1": "r2", "r2": "VAL", "r3": "VAL"},
		Children: map[string][]string{"r3": {"r2"}}, Fails: map[string]bool{}},
}

var reAction = regexp.MustCompile(`^(\w+)\((\w+)(?:,\[op \|-> "(\w+)", ref \|-> "(\w+)"\])?\)$`)

type step struct {
	Action string `json:"action"`
	Proc   string `json:"proc"`
	Op     string `json:"op,omitempty"`
	Ref    string `json:"ref,omitempty"`
}

func parseAction(label string) (step, error) {
	m := reAction.FindStringSubmatch(strings.ReplaceAll(label, " ", ""))
	if m == nil {
		// retry without stripping (record syntax contains spaces)
		m = reAction.FindStringSubmatch(label)
	}
	if m == nil {
		return step{}, fmt.Errorf("cannot parse action label %q", label)
	}
	return step{Action: m[1], Proc: m[2], Op: m[3], Ref: m[4]}, nil
}

func init() {
	// labels look like: Call(p1,[op |-> "Decode", ref |-> "r1"])
	reAction = regexp.MustCompile(`^(\w+)\((\w+)(?:,\s*\[op \|-> "(\w+)", ref \|-> "(\w+)"\])?\)$`)
}

var gateOfPC = map[string]string{"idle": "idle", "get": "get", "decEntry": "decEntry", "nested": "nested", "decEnd": "decEnd",
	"exclWait": "excl-wait", "exclRun": "excl-run", "exclDecoded": "excl-decoded", "exclHanded": "excl-handover"}

// schedule is one TLC behaviour: the actions and, for conformance, the model
// state after each action.
type schedule struct {
	Graph  string           `json:"graph"`
	Procs  []string         `json:"procs"`
	Steps  []step           `json:"steps"`
	States []map[string]any `json:"-"`
	Final  bool             `json:"final"` // the behaviour ends in a state without successors
}

// outcome of replaying one schedule on the real code
type outcome struct {
	Violations  []string // property-level failures observed on the real code
	Keys        []string
	Divergences []string // the real code left the behaviour the model prescribes
	Events      []event
	StepsRun    int
}

// event is what the real code did in one step (judged again by TLC).
type event struct {
	Proc   string         `json:"p"`
	Action string         `json:"a"`
	Op     string         `json:"op"`
	Ref    string         `json:"ref"`
	Gate   string         `json:"gate"`
	Cache  []cacheObs     `json:"cache"`
	Done   map[string]any `json:"done"`
}

// cacheObs is one entry of the real cache: ids name identical Go values.
type cacheObs struct {
	R  string `json:"r"`
	Tp string `json:"tp"`
	ID int    `json:"id"`
}

func ptrID(ids map[any]int, v any) int {
	if v == nil {
		return 0
	}
	switch x := v.(type) {
	case *ValA:
		if x == nil {
			return 0
		}
	case *ValB:
		if x == nil {
			return 0
		}
	}
	if id, ok := ids[v]; ok {
		return id
	}
	id := len(ids) + 1
	ids[v] = id
	return id
}

func modelKey(ref, tp string) string { return fmt.Sprintf("<<%q, %q>>", ref, tp) }

// replaySchedule drives the real Extractor through one TLC behaviour.
func replaySchedule(sc schedule, limit time.Duration) outcome {
	var out outcome
	g := graphs[sc.Graph]
	s := newSched(g, sc.Procs)
	ids := map[any]int{}          // real identity -> observation id
	model2real := map[int]any{}   // model value id -> real value
	prevCache := map[string]any{} // previous snapshot (CacheStable)
	// exclusive calls in flight: proc -> key, and who overlapped whom
	exclActive := map[string]string{}
	overlap := map[string][]string{} // proc -> procs whose exclusive call on the same key was in flight when it started
	exclResult := map[string]*callResult{}
	stuck := map[string]bool{}
	waiter := map[string]bool{} // goroutines that joined an exclusive decode in progress

	violate := func(key, format string, a ...any) {
		out.Violations = append(out.Violations, fmt.Sprintf(format, a...))
		out.Keys = append(out.Keys, key)
	}
	diverge := func(format string, a ...any) {
		if len(out.Divergences) < 5 {
			out.Divergences = append(out.Divergences, fmt.Sprintf(format, a...))
		}
	}

	for i, st := range sc.Steps {
		var cmd *callSpec
		if st.Action == "Call" {
			cmd = &callSpec{Op: st.Op, Ref: st.Ref}
			if st.Op == "DecodeExclusive" {
				for q, k := range exclActive {
					if k == st.Ref && q != st.Proc {
						overlap[st.Proc] = append(overlap[st.Proc], q)
					}
				}
				exclActive[st.Proc] = st.Ref
			}
		}
		if pr := s.procs[st.Proc]; pr.parked && (pr.last.Gate == "idle") != (st.Action == "Call") {
			diverge("step %d: the model takes %s(%s) but the goroutine waits at %q", i+1, st.Action, st.Proc, pr.last.Gate)
			break
		}
		if stuck[st.Proc] {
			diverge("step %d: %s(%s) but the goroutine is blocked in the library", i+1, st.Action, st.Proc)
			break
		}
		pk, ok := s.step(st.Proc, cmd, limit)
		out.StepsRun++
		if !ok {
			stuck[st.Proc] = true
			violate("deadlock/"+sc.Graph+"/"+st.Action, "goroutine %s does not come back from step %d %s(%s) although the specification enables it: blocked inside the library", st.Proc, i+1, st.Action, st.Proc)
			break
		}
		// ExclusiveOnce on the real code: a goroutine that joined an exclusive
		// decode in progress waits for its outcome and never decodes itself
		if st.Action == "Call" && st.Op == "DecodeExclusive" && pk.Gate == "excl-wait" {
			waiter[st.Proc] = true
		}
		if waiter[st.Proc] {
			switch pk.Gate {
			case "idle":
				delete(waiter, st.Proc)
			case "excl-wait":
			default:
				violate("exclusive-once/"+sc.Graph, "goroutine %s joined an exclusive decode of %s that was in progress, but runs the decode itself (reached %q) instead of sharing the outcome", st.Proc, exclActive[st.Proc], pk.Gate)
				delete(waiter, st.Proc)
			}
		}
		// the model value created by this step, if any
		var mstate map[string]any
		if i < len(sc.States) {
			mstate = sc.States[i]
		}
		if pk.NewObj != nil && mstate != nil {
			if id := topVal(mstate, st.Proc); id != 0 {
				model2real[id] = pk.NewObj
			}
		}
		if pk.Gate == "idle" && pk.Done != nil && st.Action != "" {
			d := pk.Done
			if d.Call.Op == "Pair" && mstate != nil {
				// the two fresh ids of the model are nextId-2, nextId-1
				if n, ok := mstate["nextId"].(int); ok {
					if _, dup := model2real[n-2]; !dup {
						model2real[n-2] = pairA(s, d)
					}
					if _, dup := model2real[n-1]; !dup {
						model2real[n-1] = pairB(s, d)
					}
				}
			}
			if d.Call.Op == "DecodeExclusive" {
				exclResult[st.Proc] = d
				delete(exclActive, st.Proc)
				for _, q := range overlap[st.Proc] {
					if r, ok := exclResult[q]; ok {
						if r.OK != d.OK || (r.OK && r.A != d.A) {
							violate("exclusive-shared/"+sc.Graph, "overlapping DecodeExclusive calls on %s by %s and %s returned different outcomes", d.Call.Ref, st.Proc, q)
						}
					}
				}
				for q, os := range overlap {
					for _, o := range os {
						if o == st.Proc {
							if r, ok := exclResult[q]; ok && q != st.Proc {
								if r.OK != d.OK || (r.OK && r.A != d.A) {
									violate("exclusive-shared/"+sc.Graph, "overlapping DecodeExclusive calls on %s by %s and %s returned different outcomes", d.Call.Ref, st.Proc, q)
								}
							}
						}
					}
				}
				delete(overlap, st.Proc)
			}
		}

		// snapshot of the real cache
		cache, wip := pdf.VerifCacheSnapshot(s.x)
		for k, v := range prevCache {
			if nv, ok := cache[k]; !ok || nv != v {
				violate("cache-stable/"+sc.Graph, "published cache entry %s was replaced or removed in step %d %s(%s)", k, i+1, st.Action, st.Proc)
			}
		}
		prevCache = cache
		ev := event{Proc: st.Proc, Action: st.Action, Op: st.Op, Ref: st.Ref, Gate: pk.Gate, Cache: []cacheObs{}, Done: map[string]any{"has": false}}
		for _, r := range []string{"r1", "r2", "r3", "r4"} {
			for _, tp := range []string{"A", "B"} {
				if v, ok := cache[cacheKey(r, tp)]; ok {
					ev.Cache = append(ev.Cache, cacheObs{R: r, Tp: tp, ID: ptrID(ids, v)})
				}
			}
		}
		if pk.Gate == "idle" && pk.Done != nil {
			d := pk.Done
			same := false
			if v, ok := cache[cacheKey(d.Call.Ref, "A")]; ok && d.OK {
				same = v == any(d.A)
			}
			ev.Done = map[string]any{"has": true, "op": d.Call.Op, "ref": d.Call.Ref, "ok": d.OK, "same": same}
		}
		out.Events = append(out.Events, ev)

		// conformance with the model state after this action
		if mstate != nil {
			compareState(sc, mstate, st, pk, cache, wip, model2real, diverge)
		}
		if len(out.Divergences) > 0 {
			break // the rest of the behaviour is meaningless for this execution
		}
	}

	// property-level checks on everything the real code returned
	s.mu.Lock()
	results := append([]obs(nil), s.results...)
	s.mu.Unlock()
	first := map[string]any{}
	for _, r := range results {
		if !r.OK {
			continue
		}
		k := r.Ref + "/" + r.Tp
		if f, ok := first[k]; ok {
			if f != r.Val {
				violate("agreement/"+sc.Graph, "two decodes of (%s, %s) returned different Go values", r.Ref, r.Tp)
			}
		} else {
			first[k] = r.Val
		}
	}
	// chain consistency of the final cache
	for r, t := range g.Target {
		if t == "VAL" {
			continue
		}
		for _, tp := range []string{"A", "B"} {
			a, okA := prevCache[cacheKey(r, tp)]
			b, okB := prevCache[cacheKey(t, tp)]
			if okA && okB && a != b {
				violate("chain/"+sc.Graph, "references %s -> %s of one chain are cached with different values", r, t)
			}
		}
	}
	// each top-level call's outcome class equals its solo outcome
	for _, r := range results {
		if r.Top && r.Op != "Pair" {
			if want := soloOK(g, r.Ref); want != r.OK {
				violate("sequential/"+sc.Graph, "%s(%s) returned ok=%v in this interleaving but ok=%v when run alone", r.Op, r.Ref, r.OK, want)
			}
		}
	}

	blocked := s.shutdown(limit)
	if len(blocked) > 0 && len(out.Violations) == 0 && len(out.Divergences) == 0 {
		sort.Strings(blocked)
		violate("deadlock/"+sc.Graph+"/end", "goroutines %v remain blocked inside the library at the end of the schedule", blocked)
	}
	return out
}

func pairA(s *sched, d *callResult) any { return findFresh(s, d, "A") }
func pairB(s *sched, d *callResult) any { return findFresh(s, d, "B") }

// For a Pair call the model creates two fresh values whether or not they are
// adopted; only adopted ones are ever observable, so map the ids to what the
// call returned when that is new.
func findFresh(s *sched, d *callResult, tp string) any {
	if tp == "A" {
		return d.A
	}
	return d.B
}

func soloOK(g graph, ref string) bool {
	seen := map[string]bool{}
	for {
		if seen[ref] {
			return false
		}
		seen[ref] = true
		t := g.Target[ref]
		if t == "VAL" {
			return !g.Fails[ref]
		}
		ref = t
	}
}

func topVal(state map[string]any, proc string) int {
	st, ok := state["stack"].(core.TLAFunc)
	if !ok {
		return 0
	}
	v, ok := st.Get(proc)
	if !ok {
		return 0
	}
	frames, _ := v.([]any)
	if len(frames) == 0 {
		return 0
	}
	f, _ := frames[len(frames)-1].(map[string]any)
	id, _ := f["val"].(int)
	return id
}

// compareState checks the projection of the real state against the model.
func compareState(sc schedule, m map[string]any, st step, pk park, cache map[string]any, wip []string,
	model2real map[int]any, diverge func(string, ...any)) {
	// control point of the stepped goroutine
	if pcs, ok := m["pc"].(core.TLAFunc); ok {
		if v, ok := pcs.Get(st.Proc); ok {
			want := gateOfPC[v.(string)]
			if want != pk.Gate {
				diverge("after %s(%s): goroutine waits at %q, the model says %q", st.Action, st.Proc, pk.Gate, want)
			}
		}
	}
	// cache contents
	mc, _ := m["cache"].(core.TLAFunc)
	n := 0
	for i, k := range mc.Keys {
		id, _ := mc.Vals[i].(int)
		if id == 0 {
			continue
		}
		n++
		kk := k.([]any)
		real, ok := cache[cacheKey(kk[0].(string), kk[1].(string))]
		if !ok {
			diverge("after %s(%s): model has cache[%s] set, the real cache has no entry", st.Action, st.Proc, core.TLAString(k))
			continue
		}
		if want, known := model2real[id]; known && want != real {
			diverge("after %s(%s): cache[%s] holds a different value than the model's value %d", st.Action, st.Proc, core.TLAString(k), id)
		}
	}
	if n != len(cache) {
		diverge("after %s(%s): real cache has %d entries, the model %d", st.Action, st.Proc, len(cache), n)
	}
	// decodes in progress
	mw, _ := m["wip"].(core.TLAFunc)
	nw := 0
	for _, v := range mw.Vals {
		if id, _ := v.(int); id != 0 {
			nw++
		}
	}
	if nw != len(wip) {
		diverge("after %s(%s): real wip has %d entries, the model %d", st.Action, st.Proc, len(wip), nw)
	}
	// result of a finished call
	if pk.Gate == "idle" && pk.Done != nil && pk.Done.Call.Op != "Pair" {
		if curs, ok := m["cur"].(core.TLAFunc); ok {
			if v, ok := curs.Get(st.Proc); ok {
				rec := v.(map[string]any)
				if rec["ok"].(bool) != pk.Done.OK {
					diverge("after %s(%s): call returned ok=%v, the model says %v", st.Action, st.Proc, pk.Done.OK, rec["ok"])
				} else if pk.Done.OK {
					if want, known := model2real[rec["val"].(int)]; known && want != any(pk.Done.A) {
						diverge("after %s(%s): call returned a different value than the model's value %v", st.Action, st.Proc, rec["val"])
					}
				}
			}
		}
	}
}
