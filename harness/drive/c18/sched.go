package c18

import (
	"fmt"
	"reflect"
	"runtime"
	"sync"
	"sync/atomic"
	"time"

	"seehuhn.de/go/pdf"
)

// ValA and ValB are the Go values the test decoders produce.
type ValA struct {
	At     string
	Nested []nestedResult
}
type ValB struct{ At string }

type nestedResult struct {
	Ref string
	Val *ValA
	Err error
}

// graph is the concrete form of the model's Target / Children / Fails.
type graph struct {
	Target   map[string]string   // ref -> ref | "VAL"
	Children map[string][]string // ref -> nested decodes of its decoder
	Fails    map[string]bool
}

func refOf(name string) pdf.Reference {
	var n uint32
	fmt.Sscanf(name, "r%d", &n)
	return pdf.NewReference(n, 0)
}

func nameOf(ref pdf.Reference) string { return fmt.Sprintf("r%d", ref.Number()) }

var (
	tpA = reflect.TypeFor[*ValA]().String()
	tpB = reflect.TypeFor[*ValB]().String()
)

func cacheKey(ref, tp string) string {
	t := tpA
	if tp == "B" {
		t = tpB
	}
	return fmt.Sprintf("%d 0 %s", refOf(ref).Number(), t)
}

// park describes where a goroutine waits for the scheduler.
type park struct {
	Gate   string // idle, get, decEntry, nested, decEnd, excl-wait, excl-run, excl-decoded, excl-handover
	Ref    string // get: the reference asked for; decoder gates: the value being decoded
	K      int    // nested: index of the nested call (1-based)
	NewObj *ValA  // the value the decoder has created since the last park
	Done   *callResult
}

type callSpec struct {
	Op  string // Decode, DecodeExclusive, Pair
	Ref string
}

type callResult struct {
	Call callSpec
	OK   bool
	Err  error
	A    *ValA
	B    *ValB
}

type proc struct {
	s      *sched
	name   string
	resume chan *callSpec
	last   park
	parked bool
	gone   chan struct{}
}

// sched is the cooperative scheduler: exactly one goroutine of the system
// under test runs at any time; all others wait in a gate.
type sched struct {
	g       graph
	cursor  pdf.Cursor
	x       *pdf.Extractor
	procs   map[string]*proc
	mu      sync.Mutex
	free    atomic.Bool // gates are no-ops (shutdown)
	parkCh  chan *proc

	// observations for the property-level checks
	decoderRuns map[string]int // decoder entries per reference
	results     []obs          // every completed Decode (top-level and nested)
}

type obs struct {
	Proc string
	Ref  string
	Tp   string
	OK   bool
	Val  any
	Top  bool
	Op   string
}

// Getter side of the system under test.
type getter struct{ s *sched }

func (g getter) GetMeta() *pdf.MetaInfo { return &pdf.MetaInfo{Version: pdf.V2_0} }

func (g getter) Get(ref pdf.Reference, canObjStm bool) (pdf.Native, error) {
	name := nameOf(ref)
	g.s.gate(park{Gate: "get", Ref: name})
	t, ok := g.s.g.Target[name]
	if !ok {
		return nil, nil
	}
	if t == "VAL" {
		return pdf.Dict{"Self": pdf.Name(name)}, nil
	}
	return refOf(t), nil
}

func newSched(g graph, procNames []string) *sched {
	s := &sched{g: g, procs: map[string]*proc{}, parkCh: make(chan *proc, 64), decoderRuns: map[string]int{}}
	s.cursor = pdf.NewCursor(getter{s})
	s.x = pdf.VerifExtractor(s.cursor)
	for _, n := range procNames {
		p := &proc{s: s, name: n, resume: make(chan *callSpec), gone: make(chan struct{})}
		s.procs[n] = p
		go p.loop()
	}
	// every goroutine parks at "idle" first
	for range procNames {
		p := <-s.parkCh
		p.parked = true
	}
	return s
}

// gate is called (in the goroutine of the running process) at every point the
// scheduler controls.
func (s *sched) gate(pk park) { gate(pk) }

// procByGid maps goroutine ids to the scheduled process they run (several
// schedulers may be active in one binary; the yield hook of the library is
// global).
var procByGid sync.Map

func gid() int64 {
	var buf [64]byte
	n := runtime.Stack(buf[:], false)
	// "goroutine 123 [running]:"
	var id int64
	for _, c := range buf[len("goroutine "):n] {
		if c < '0' || c > '9' {
			break
		}
		id = id*10 + int64(c-'0')
	}
	return id
}

func gate(pk park) {
	v, ok := procByGid.Load(gid())
	if !ok {
		return // not a scheduled goroutine (free-running drivers)
	}
	p := v.(*proc)
	if p.s.free.Load() {
		return
	}
	p.last = pk
	p.s.parkCh <- p
	<-p.resume
}

func init() {
	pdf.VerifSetYieldHook(func(point string) { gate(park{Gate: point}) })
}

func (p *proc) loop() {
	id := gid()
	procByGid.Store(id, p)
	defer procByGid.Delete(id)
	var done *callResult
	for {
		p.last = park{Gate: "idle", Done: done}
		p.s.parkCh <- p
		cmd := <-p.resume
		if cmd == nil {
			close(p.gone)
			return
		}
		done = p.exec(*cmd)
	}
}

func (s *sched) decoder(pname string) func(pdf.Cursor, pdf.Object, bool) (*ValA, error) {
	var dec func(c pdf.Cursor, obj pdf.Object, isDirect bool) (*ValA, error)
	dec = func(c pdf.Cursor, obj pdf.Object, isDirect bool) (*ValA, error) {
		at := "?"
		if d, ok := obj.(pdf.Dict); ok {
			if n, ok := d["Self"].(pdf.Name); ok {
				at = string(n)
			}
		}
		s.gate(park{Gate: "decEntry", Ref: at})
		v := &ValA{At: at}
		s.mu.Lock()
		s.decoderRuns[at]++
		s.mu.Unlock()
		fresh := v
		for k, child := range s.g.Children[at] {
			s.gate(park{Gate: "nested", Ref: at, K: k + 1, NewObj: fresh})
			fresh = nil
			cv, err := pdf.Decode(c, refOf(child), dec)
			v.Nested = append(v.Nested, nestedResult{Ref: child, Val: cv, Err: err})
			s.mu.Lock()
			s.results = append(s.results, obs{Proc: pname, Ref: child, Tp: "A", OK: err == nil, Val: cv})
			s.mu.Unlock()
		}
		s.gate(park{Gate: "decEnd", Ref: at, NewObj: fresh})
		if s.g.Fails[at] {
			return nil, fmt.Errorf("decoder of %s fails", at)
		}
		return v, nil
	}
	return dec
}

func (p *proc) exec(c callSpec) *callResult {
	s := p.s
	res := &callResult{Call: c}
	switch c.Op {
	case "Decode":
		v, err := pdf.Decode(s.cursor, refOf(c.Ref), s.decoder(p.name))
		res.A, res.Err, res.OK = v, err, err == nil
	case "DecodeExclusive":
		v, err := pdf.DecodeExclusive(s.cursor, refOf(c.Ref), s.decoder(p.name))
		res.A, res.Err, res.OK = v, err, err == nil
	case "Pair":
		a, b := pdf.StoreOrLoadPair(s.x, refOf(c.Ref), &ValA{At: c.Ref}, &ValB{At: c.Ref})
		res.A, res.B, res.OK = a, b, true
	}
	s.mu.Lock()
	if c.Op == "Pair" {
		s.results = append(s.results, obs{Proc: p.name, Ref: c.Ref, Tp: "A", OK: true, Val: res.A, Top: true, Op: c.Op},
			obs{Proc: p.name, Ref: c.Ref, Tp: "B", OK: true, Val: res.B, Top: true, Op: c.Op})
	} else {
		s.results = append(s.results, obs{Proc: p.name, Ref: c.Ref, Tp: "A", OK: res.OK, Val: res.A, Top: true, Op: c.Op})
	}
	s.mu.Unlock()
	return res
}

// step resumes process p (with a call when it waits at "idle") and waits until
// it parks again.  ok is false when it did not park within the time limit:
// the goroutine is blocked inside the library.
func (s *sched) step(name string, cmd *callSpec, limit time.Duration) (park, bool) {
	p := s.procs[name]
	if !p.parked {
		// it was blocked earlier; maybe it has parked by now
		if !s.await(p, limit) {
			return park{}, false
		}
	}
	p.parked = false
	if p.last.Gate == "idle" {
		p.resume <- cmd
	} else {
		p.resume <- &callSpec{}
	}
	if !s.await(p, limit) {
		return park{}, false
	}
	return p.last, true
}

func (s *sched) await(p *proc, limit time.Duration) bool {
	t := time.NewTimer(limit)
	defer t.Stop()
	for {
		select {
		case q := <-s.parkCh:
			q.parked = true
			if q == p {
				return true
			}
		case <-t.C:
			return false
		}
	}
}

// shutdown lets every goroutine run to the end of its current call and exit.
// It returns the names of goroutines that remain blocked inside the library.
func (s *sched) shutdown(limit time.Duration) []string {
	s.free.Store(true) // gates become no-ops: free running
	for _, p := range s.procs {
		if p.parked {
			p.parked = false
			if p.last.Gate == "idle" {
				p.resume <- nil
			} else {
				p.resume <- &callSpec{}
			}
		}
	}
	deadline := time.After(limit)
	var stuck []string
	for _, p := range s.procs {
	wait:
		for {
			select {
			case <-p.gone:
				break wait
			case q := <-s.parkCh:
				// finished its call and came back to idle: let it exit
				q.resume <- nil
			case <-deadline:
				stuck = append(stuck, p.name)
				break wait
			}
		}
	}
	return stuck
}
