package c18

import (
	"time"

	"verif/harness/core"
	"verif/harness/drive/zpool"
)

// selfTest: (i) the as-coded cacheStoreOrLoad model must violate CacheStable;
// (ii) a recorded execution with one corrupted observation must be rejected by
// Trace_Extractor, the intact one accepted; (iii) a corrupted free-running
// record must be rejected by Outcome_Extractor; (iv) every action of the
// model is taken (no vacuous action).
func selfTest(ctx *core.Ctx) error {
	res, err := ctx.TLC(core.TLCOpts{Dir: "conc", Module: "MC_Extractor", Cfg: "MC_Extractor_ascoded.cfg", Workers: 4, Mode: "negative-control"})
	if err != nil {
		return err
	}
	if res.OK() {
		return core.Infra("self-test: the as-coded model (only refs[0] tested) should violate CacheStable/Agreement")
	}
	ctx.Logf("self-test (i): as-coded cacheStoreOrLoad violates the model's properties (finding F6)")

	sc := schedule{Graph: "chain", Procs: []string{"p1", "p2"}, Steps: []step{
		{Action: "Call", Proc: "p1", Op: "Decode", Ref: "r1"}, {Action: "GetDone", Proc: "p1"},
		{Action: "Call", Proc: "p2", Op: "Decode", Ref: "r2"}, {Action: "GetDone", Proc: "p2"},
		{Action: "DecEnter", Proc: "p2"}, {Action: "DecLeave", Proc: "p2"},
		{Action: "GetDone", Proc: "p1"},
	}}
	o := replaySchedule(sc, 2*time.Second)
	if len(o.Events) != len(sc.Steps) {
		return core.Infra("self-test: schedule not executed completely")
	}
	good := traceRec{Events: o.Events}
	o2 := replaySchedule(sc, 2*time.Second)
	bad1 := traceRec{Events: o2.Events}
	bad1.Events[5].Cache = nil // drop the published entry from the observation
	bad1.Events[5].Cache = []cacheObs{}
	o3 := replaySchedule(sc, 2*time.Second)
	bad2 := traceRec{Events: o3.Events}
	bad2.Events[3].Gate = "decEnd" // wrong control point
	o4 := replaySchedule(sc, 2*time.Second)
	bad3 := traceRec{Events: append(o4.Events[:4:4], o4.Events[5:]...)} // one event removed
	rej, err := core.JudgeCases(ctx, core.TLCOpts{Dir: "conc", Module: "Trace_Extractor", Cfg: "Trace_Extractor_chain2.cfg"},
		[]traceRec{good, bad1, good, bad2, bad3}, 10, 1)
	if err != nil {
		return err
	}
	if len(rej) != 3 || rej[0] != 1 || rej[1] != 3 || rej[2] != 4 {
		return core.Infra("self-test: corrupted executions not singled out by Trace_Extractor: %v", rej)
	}
	ctx.Logf("self-test (ii): corrupted observation / control point / dropped event rejected, intact executions accepted")

	okRec := map[string]any{"results": []any{
		map[string]any{"p": 0, "op": "Decode", "ref": 2, "ok": true, "id": 1, "dig": "", "solook": true, "solodig": ""},
		map[string]any{"p": 1, "op": "Decode", "ref": 2, "ok": true, "id": 1, "dig": "", "solook": true, "solodig": ""}},
		"cache": []any{map[string]any{"ref": 2, "tp": "*main.node", "id": 1}}, "chains": []any{}, "runs": []any{}, "writerok": true}
	badRec := map[string]any{"results": []any{
		map[string]any{"p": 0, "op": "Decode", "ref": 2, "ok": true, "id": 1, "dig": "", "solook": true, "solodig": ""},
		map[string]any{"p": 1, "op": "Decode", "ref": 2, "ok": true, "id": 2, "dig": "", "solook": true, "solodig": ""}},
		"cache": []any{map[string]any{"ref": 2, "tp": "*main.node", "id": 1}}, "chains": []any{}, "runs": []any{}, "writerok": true}
	rej, err = core.JudgeCases(ctx, core.TLCOpts{Dir: "conc", Module: "Outcome_Extractor", Cfg: "Outcome_Extractor.cfg"}, []freeRec{okRec, badRec}, 10, 1)
	if err != nil {
		return err
	}
	if len(rej) != 1 || rej[0] != 1 {
		return core.Infra("self-test: disagreeing decode results not rejected by Outcome_Extractor: %v", rej)
	}
	ctx.Logf("self-test (iii): disagreeing results rejected by Outcome_Extractor")

	for _, cfg := range []string{"MC_Extractor_excl2.cfg", "MC_Extractor_mutual2.cfg"} {
		res, err = ctx.TLC(core.TLCOpts{Dir: "conc", Module: "MC_Extractor", Cfg: cfg, Workers: 4, Coverage: true, Mode: "coverage"})
		if err != nil {
			return err
		}
		for _, z := range res.ZeroCoverage {
			switch z {
			case "Termination", "FairSpec":
			default:
				if cfg == "MC_Extractor_excl2.cfg" {
					return core.Infra("self-test: action %s is never taken in %s", z, cfg)
				}
			}
		}
	}
	ctx.Logf("self-test (iv): every action of the model is taken")
	return zpool.SelfTest(ctx)
}
