// Package c18 binds spec/conc/Extractor.tla to pdf.Extractor / pdf.Decode /
// pdf.DecodeExclusive / pdf.StoreOrLoadPair.
//
//	P-A  every transition of the bounded TLC state graphs is executed on the
//	     real code under a cooperative scheduler (gates in the Getter, in the
//	     decoder callbacks and at the verif yield points of DecodeExclusive);
//	     after every step the projected state is compared with the model state
//	P-B  the events recorded during those runs are validated by TLC against
//	     Trace_Extractor; free-running goroutine mixes on a real file are
//	     judged by TLC (agreement, chain consistency) and run under the race
//	     detector
package c18

import (
	"encoding/json"
	"fmt"
	"strings"
	"sync"
	"time"

	"verif/harness/core"
	"verif/harness/drive/zpool"
)

var Driver = core.Driver{ID: "C18", Level: "model_checking", Run: run, Replay: replay, SelfTest: selfTest}

type config struct {
	Name  string
	Graph string
	Procs []string
	Cfg   string
	Trace string
}

func configs(ctx *core.Ctx) []config {
	cs := []config{}
	for _, g := range []string{"chain", "mutual", "cycle", "fail", "excl"} {
		cs = append(cs, config{Name: g + "2", Graph: g, Procs: []string{"p1", "p2"}, Cfg: "MC_Extractor_" + g + "2.cfg", Trace: "Trace_Extractor_" + g + "2.cfg"})
	}
	if ctx.Thorough() {
		// three goroutines, one call each (the two-call graphs of three
		// goroutines have millions of states: too large to dump and walk)
		for _, g := range []string{"chain", "excl"} {
			cs = append(cs, config{Name: g + "3x1", Graph: g, Procs: []string{"p1", "p2", "p3"}, Cfg: "MC_Extractor_" + g + "3x1.cfg", Trace: "Trace_Extractor_" + g + "3x1.cfg"})
		}
	}
	return cs
}

func run(ctx *core.Ctx) error {
	ctx.Ev.Rule = "a case is one TLC behaviour (schedule) of the bounded Extractor model replayed step by step on the real pdf.Extractor; " +
		"non-trivial = at least two goroutines are inside a call at the same time at some step; distinct = distinct action sequences"
	ctx.Ev.Assume("the Getter and decoder callbacks plus the four verif yield points are the only places where goroutines can be held between critical sections of the cache protocol")
	ctx.Ev.Assume("TLC state graphs are complete for the stated constants (2-3 goroutines, 2 calls each, 3 references)")

	limit := 2 * time.Second
	totalEdges, coveredEdges := 0, 0
	if ctx.Thorough() {
		// exhaustive only (no replay): three goroutines on mutually referential decoders
		if _, err := ctx.MustHold(core.TLCOpts{Dir: "conc", Module: "MC_Extractor", Cfg: "MC_Extractor_mutual3x1.cfg", Workers: 12,
			Timeout: 30 * time.Minute, Constants: "mutual3x1: p1,p2,p3 x 1 call, graph mutual"}); err != nil {
			return err
		}
	}
	var cmu sync.Mutex
	var cwg sync.WaitGroup
	var cerr error
	csem := make(chan struct{}, 3)
	for _, cf := range configs(ctx) {
		cwg.Add(1)
		csem <- struct{}{}
		go func(cf config) {
			defer cwg.Done()
			defer func() { <-csem }()
			if err := func() error {
				three := len(cf.Procs) == 3
				g, res, err := ctx.DumpGraph(core.TLCOpts{Dir: "conc", Module: "MC_Extractor", Cfg: cf.Cfg, Workers: 8,
					Timeout: ctx.Dur(5, 20), Constants: cf.Name + ": " + strings.Join(cf.Procs, ",") + " x 2 calls, graph " + cf.Graph})
				if err != nil {
					return err
				}
				maxPaths := 0
				if three {
					maxPaths = 8000 // sampled edge cover for three goroutines
				}
				paths, covered := g.EdgeCover(ctx.Rand("paths-"+cf.Name), 200, maxPaths)
				cmu.Lock()
				totalEdges += g.NumEdges()
				coveredEdges += covered
				cmu.Unlock()
				ctx.Logf("%s: %d states, %d transitions, %d schedules cover %d transitions", cf.Name, res.Distinct, g.NumEdges(), len(paths), covered)

				// build schedules
				scheds := make([]schedule, 0, len(paths))
				for _, p := range paths {
					sc := schedule{Graph: cf.Graph, Procs: cf.Procs}
					for _, e := range p {
						st, err := parseAction(e.Action)
						if err != nil {
							return core.Infra("%v", err)
						}
						ms, err := g.State(e.To)
						if err != nil {
							return core.Infra("state of %s: %v", cf.Name, err)
						}
						sc.Steps = append(sc.Steps, st)
						sc.States = append(sc.States, ms)
					}
					last := p[len(p)-1].To
					sc.Final = true
					for _, o := range g.Out[last] {
						if o.To != last {
							sc.Final = false
						}
					}
					scheds = append(scheds, sc)
				}

				outs := make([]outcome, len(scheds))
				var wg sync.WaitGroup
				sem := make(chan struct{}, 12)
				for i := range scheds {
					wg.Add(1)
					sem <- struct{}{}
					go func(i int) {
						defer wg.Done()
						defer func() { <-sem }()
						outs[i] = replaySchedule(scheds[i], limit)
					}(i)
				}
				wg.Wait()

				ndiv := 0
				var firstDiv string
				for i, o := range outs {
					ctx.Ev.Eval(1)
					ctx.Ev.Add("steps_executed_on_real_code", int64(o.StepsRun))
					if concurrent(scheds[i]) {
						ctx.Ev.Distinct(cf.Name + ":" + stepsKey(scheds[i]))
					}
					for k, v := range o.Violations {
						ctx.Violation(o.Keys[k], v, scheds[i])
					}
					if len(o.Divergences) > 0 && len(o.Violations) == 0 {
						ndiv++
						if firstDiv == "" {
							firstDiv = o.Divergences[0] + " [schedule " + stepsKey(scheds[i]) + "]"
						}
					}
				}
				ctx.Ev.AddReplayed(len(scheds))
				if len(scheds) > 0 {
					ctx.Ev.Sample(map[string]any{"kind": "TLC behaviour replayed on the real Extractor", "config": cf.Name, "schedule": scheds[len(scheds)/2].Steps})
				}
				if ndiv > 0 && ctx.Violations() == 0 {
					return core.Infra("%s: the real code left the modelled behaviour in %d schedules without violating the property, e.g. %s — the specification no longer describes the code", cf.Name, ndiv, firstDiv)
				}

				// P-B: the recorded events are validated by TLC
				if err := validateTraces(ctx, cf, scheds, outs); err != nil {
					return err
				}
				return nil
			}(); err != nil {
				cmu.Lock()
				if cerr == nil {
					cerr = err
				}
				cmu.Unlock()
			}
		}(cf)
	}
	cwg.Wait()
	if cerr != nil {
		return cerr
	}
	ctx.Ev.Set("model_transitions", totalEdges)
	ctx.Ev.Set("model_transitions_executed_on_real_code", coveredEdges)
	ctx.Ev.Exhaustive = totalEdges == coveredEdges

	if err := freeRunning(ctx); err != nil {
		return err
	}
	// package-level state: the zlib reader/writer pools (spec/conc/ZlibPool.tla)
	return zpool.Run(ctx)
}

func concurrent(sc schedule) bool {
	active := map[string]bool{}
	for i, st := range sc.Steps {
		pcs, _ := sc.States[i]["pc"].(core.TLAFunc)
		for j, k := range pcs.Keys {
			active[core.TLAString(k)] = pcs.Vals[j].(string) != "idle"
		}
		n := 0
		for _, a := range active {
			if a {
				n++
			}
		}
		if n >= 2 {
			return true
		}
		_ = st
	}
	return false
}

func stepsKey(sc schedule) string {
	var b strings.Builder
	for _, st := range sc.Steps {
		fmt.Fprintf(&b, "%s.%s%s%s;", st.Proc, st.Action, st.Op, st.Ref)
	}
	return b.String()
}

func replay(ctx *core.Ctx, raw json.RawMessage) error {
	var sc schedule
	if err := json.Unmarshal(raw, &sc); err != nil {
		return core.Infra("replay: %v", err)
	}
	if handled, err := zpool.Replay(ctx, raw); handled {
		return err
	}
	if sc.Graph == "" {
		return replayFree(ctx, raw)
	}
	o := replaySchedule(sc, 2*time.Second)
	for i, st := range sc.Steps {
		if i < len(o.Events) {
			fmt.Printf("  %2d %s %-12s %s %s -> gate=%s cache=%v\n", i+1, st.Proc, st.Action, st.Op, st.Ref, o.Events[i].Gate, o.Events[i].Cache)
		}
	}
	for k, v := range o.Violations {
		ctx.Violation(o.Keys[k], v, sc)
	}
	return nil
}
