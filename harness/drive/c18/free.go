package c18

import (
	"sort"
	"bytes"
	"encoding/json"
	"fmt"
	"os"
	"os/exec"
	"path/filepath"
	"regexp"
	"strings"
	"time"

	"verif/harness/core"
)

type freeRec = map[string]any

var reRaceFunc = regexp.MustCompile(`(?m)^\s+(seehuhn\.de/go/pdf\S*?)\(\)\s*$`)

// raceKeys splits the race detector's output into reports and keys each by
// the library functions on top of the two conflicting accesses.
func raceKeys(stderr string) map[string]string {
	out := map[string]string{}
	for _, blk := range strings.Split(stderr, "WARNING: DATA RACE")[1:] {
		if k := strings.Index(blk, "\n=================="); k >= 0 {
			blk = blk[:k]
		}
		var fns []string
		for _, part := range regexp.MustCompile(`(?m)^(Write at|Read at|Previous write at|Previous read at|Atomic|Previous atomic)`).Split(blk, -1)[1:] {
			if k := strings.Index(part, "\n\n"); k >= 0 {
				part = part[:k] // the stack of this access only
			}
			fn := "outside-the-library"
			if m := reRaceFunc.FindStringSubmatch(part); m != nil {
				fn = strings.TrimPrefix(m[1], "seehuhn.de/go/pdf/")
				fn = strings.TrimPrefix(fn, "seehuhn.de/go/")
			}
			fns = append(fns, fn)
		}
		sort.Strings(fns)
		if len(fns) > 1 && fns[0] == fns[1] {
			fns = fns[:1]
		}
		key := "race/" + strings.Join(fns, "+")
		if len(fns) == 0 {
			key = "race/unknown"
		}
		if _, seen := out[key]; !seen {
			if len(blk) > 3000 {
				blk = blk[:3000]
			}
			out[key] = blk
		}
	}
	return out
}

// buildFree builds cmd/c18free with the race detector against the tree under test.
func buildFree(ctx *core.Ctx) (string, error) {
	goBin := os.Getenv("GO")
	if goBin == "" {
		goBin = "go"
	}
	out := filepath.Join(ctx.WorkDir, "c18free")
	args := []string{"build", "-race", "-tags", "verif", "-o", out}
	if mf := os.Getenv("VERIF_GOMOD"); mf != "" {
		args = append(args, "-modfile="+mf)
	}
	args = append(args, "./cmd/c18free")
	cmd := exec.Command(goBin, args...)
	cmd.Dir = filepath.Join(ctx.VerifDir, "harness")
	if b, err := cmd.CombinedOutput(); err != nil {
		return "", core.Infra("cannot build the race-enabled driver: %v\n%s", err, b)
	}
	return out, nil
}

func runFree(bin string, seed int64, rounds int) (recs []freeRec, stderr string, err error) {
	cmd := exec.Command(bin, "-seed", fmt.Sprint(seed), "-rounds", fmt.Sprint(rounds))
	var so, se bytes.Buffer
	cmd.Stdout, cmd.Stderr = &so, &se
	cmd.Env = append(os.Environ(), "GORACE=halt_on_error=0 exitcode=0")
	done := make(chan error, 1)
	if err := cmd.Start(); err != nil {
		return nil, "", err
	}
	go func() { done <- cmd.Wait() }()
	select {
	case err = <-done:
	case <-time.After(25 * time.Minute):
		cmd.Process.Kill()
		return nil, se.String(), fmt.Errorf("free-running driver timed out")
	}
	recs, derr := core.ReadNDJSON[freeRec](so.Bytes())
	if err == nil {
		err = derr
	}
	return recs, se.String(), err
}

// freeRunning: unscheduled goroutine mixes over a real file, under the race
// detector; outcomes judged by TLC.
func freeRunning(ctx *core.Ctx) error {
	bin, err := buildFree(ctx)
	if err != nil {
		return err
	}
	rounds := ctx.Pick(60, 500)
	seed := ctx.Seed*7919 + 11
	recs, stderr, err := runFree(bin, seed, rounds)
	// one verdict per kind of race: the functions of the library that made
	// the two conflicting accesses
	for key, report := range raceKeys(stderr) {
		ctx.Violation(key, "the race detector reports a data race while goroutines share one Reader/Extractor: an execution that is not a behaviour of any model with the specification's atomic actions",
			map[string]any{"free": true, "seed": seed, "rounds": rounds, "report": report})
	}
	if err != nil && !strings.Contains(stderr, "WARNING: DATA RACE") {
		if strings.Contains(stderr, "all goroutines are asleep") || strings.Contains(stderr, "timed out") {
			ctx.Violation("deadlock/free", "free-running goroutine mix deadlocks", map[string]any{"free": true, "seed": seed, "rounds": rounds})
			return nil
		}
		return core.Infra("free-running driver failed: %v\n%s", err, stderr)
	}
	if len(recs) == 0 {
		return core.Infra("free-running driver produced no records\n%s", stderr)
	}
	bad, err := core.JudgeCases(ctx, core.TLCOpts{Dir: "conc", Module: "Outcome_Extractor", Cfg: "Outcome_Extractor.cfg", Timeout: ctx.Dur(10, 30)}, recs, 60, 12)
	if err != nil {
		return err
	}
	for _, b := range bad {
		r := recs[b]
		ctx.Violation("free-outcome", fmt.Sprintf("free-running mix (seed %v round %v, %v goroutines): outcomes rejected by Outcome_Extractor (agreement / sequential equivalence / chain consistency / exclusive-once)", r["seed"], r["round"], r["goroutines"]),
			map[string]any{"free": true, "seed": r["seed"], "rounds": int(r["round"].(float64)) + 1})
	}
	calls := 0
	for _, r := range recs {
		if rs, ok := r["results"].([]any); ok {
			calls += len(rs)
		}
	}
	ctx.Ev.Eval(calls)
	ctx.Ev.Set("free_running_rounds_under_race_detector", len(recs))
	ctx.Ev.Set("free_running_calls", calls)
	small := recs[0]
	if rs, ok := small["results"].([]any); ok && len(rs) > 5 {
		small = map[string]any{"seed": small["seed"], "goroutines": small["goroutines"], "results(first 5)": rs[:5], "cache": small["cache"]}
	}
	ctx.Ev.Sample(map[string]any{"kind": "free-running round judged by Outcome_Extractor", "record": small})
	return nil
}

func replayFree(ctx *core.Ctx, raw json.RawMessage) error {
	var c struct {
		Seed   int64 `json:"seed"`
		Rounds int   `json:"rounds"`
	}
	if err := json.Unmarshal(raw, &c); err != nil {
		return core.Infra("replay: %v", err)
	}
	bin, err := buildFree(ctx)
	if err != nil {
		return err
	}
	recs, stderr, err := runFree(bin, c.Seed, c.Rounds)
	if strings.Contains(stderr, "WARNING: DATA RACE") {
		fmt.Println(stderr)
		ctx.Violation("race/replay", "data race reproduced", c)
		return nil
	}
	if err != nil {
		return core.Infra("%v\n%s", err, stderr)
	}
	bad, err := core.JudgeCases(ctx, core.TLCOpts{Dir: "conc", Module: "Outcome_Extractor", Cfg: "Outcome_Extractor.cfg"}, recs, 60, 8)
	if err != nil {
		return err
	}
	for range bad {
		ctx.Violation("free-outcome", "free-running outcome rejected again", c)
	}
	fmt.Printf("free-running replay: %d rounds, %d rejected (interleavings are not reproducible; a pass does not refute the report)\n", len(recs), len(bad))
	return nil
}
