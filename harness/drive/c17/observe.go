package c17

import (
	"bytes"
	"cmp"
	"errors"
	"fmt"
	"io"
	"iter"
	"sort"
	"strings"

	"seehuhn.de/go/pdf"
	"seehuhn.de/go/pdf/nametree"
	"seehuhn.de/go/pdf/numtree"
)

// spec describes one concrete case; it is what a replay file stores.
type spec struct {
	Num   bool   `json:"num"`
	API   string `json:"api"`   // "Write" | "WriteMap"
	Style string `json:"style"` // key style
	N     int    `json:"n"`
	Seed  int64  `json:"seed"`
	Bad   string `json:"bad,omitempty"` // "", "dup", "less", "first"
	At    int    `json:"at,omitempty"`  // the offending key follows the At-th key
	Per   int    `json:"per"`           // absent probes per gap
	// Probe "edges": the streaming reader is asked only for the keys and gaps
	// next to leaf boundaries and a 3% sample of the rest (quick tier, big
	// trees); "" = everything
	Probe string `json:"probe,omitempty"`
	// Ctx is the state of the pdf.Writer around the write: "" (nothing else going on), "stream"
	// (the tree is written while a stream is open on the Writer, so every Put is queued),
	// "puts" (other objects are Put between the entries), "stream+puts"
	Ctx string `json:"ctx,omitempty"`
	// Foreign (api "Foreign"): the tree is not written by go-pdf but rendered by the harness as
	// another producer would write it (see foreign.go); Fan is its fan-out
	Foreign string `json:"foreign,omitempty"`
	Fan     int    `json:"fan,omitempty"`
	// Mem, if set, makes the case a script on ONE in-memory tree value (see mem.go)
	Mem *memSpec `json:"mem,omitempty"`
}

func (s spec) kind() string {
	if s.Num {
		return "num"
	}
	return "name"
}

func (s spec) id() string {
	id := fmt.Sprintf("%s/%s/%s/n=%d", s.kind(), s.API, s.Style, s.N)
	if s.Bad != "" {
		id += fmt.Sprintf("/%s@%d", s.Bad, s.At)
	}
	if s.Ctx != "" {
		id += "/ctx=" + s.Ctx
	}
	if s.Foreign != "" {
		id += fmt.Sprintf("/foreign=%s,fan=%d", s.Foreign, s.Fan)
	}
	if s.Mem != nil {
		id += "/" + s.Mem.String()
	}
	return id
}

// rawNode is one node dictionary as found in the file.
type rawNode struct {
	Kind string // "leaf", "inner", "bad"
	Keys []ckey
	Vals []int
	Kids []int // 1-based indices
	Lim  []ckey
	Note string
}

// node is a rawNode with keys replaced by ranks (the form TLC reads).
type node struct {
	K string `json:"k"`
	E []int  `json:"e"`
	V []int  `json:"v"`
	C []int  `json:"c"`
	L []int  `json:"l"`
}

// record is judged by Trace_KeyTree.
type record struct {
	Seq      int       `json:"seq"`
	ID       string    `json:"id"`
	Kind     string    `json:"kind"`
	API      string    `json:"api"`
	Ord      [][]int   `json:"ord"`
	Val      []int     `json:"val"`
	Input    []int     `json:"input"`
	Accepted bool      `json:"accepted"`
	RootNull bool      `json:"rootnull"`
	Root     int       `json:"root"`
	Nodes    []node    `json:"nodes"`
	LK       []int     `json:"lk"`
	ML       []int     `json:"ml"`
	AllK     []int     `json:"allk"`
	AllV     []int     `json:"allv"`
	MAllK    []int     `json:"mallk"`
	MAllV    []int     `json:"mallv"`
	Size     int       `json:"size"`
	Sampled  bool      `json:"sampled"`
	Exits    []exitRec `json:"exits"`
	// nested use: Lookup / All called from inside the consumer of All(), streaming and in-memory reader
	Nest  nestRec `json:"nest"`
	MNest nestRec `json:"mnest"`
	// the in-memory value itself (multi-step cases): its All() and Lookup after the edits
	Mem   bool  `json:"mem"`
	VAllK []int `json:"vallk"`
	VAllV []int `json:"vallv"`
	VL    []int `json:"vl"`
}

// exitRec: All() consumed by a function that returns false from its K-th call
// on; everything it was called with (also after the stop), for the streaming
// (S) and the in-memory (M) reader; SP/MP = 1 if a range loop breaking at its
// K-th iteration panicked.
type exitRec struct {
	K  int   `json:"k"`
	SK []int `json:"sk"`
	SV []int `json:"sv"`
	MK []int `json:"mk"`
	MV []int `json:"mv"`
	SP int   `json:"sp"`
	MP int   `json:"mp"`
}

// nestRec: All() consumed completely (OK/OV: keys and values as yielded) by a
// consumer that, at selected entries, calls Lookup on the same reader (LK: the
// keys asked, LA: the answers) and starts a second All() which it leaves after
// three entries (AK/AV: what those yielded, AC: how many were started).
type nestRec struct {
	OK []int `json:"ok"`
	OV []int `json:"ov"`
	LK []int `json:"lk"`
	LA []int `json:"la"`
	AK []int `json:"ak"`
	AV []int `json:"av"`
	AC int   `json:"ac"`
	AP int   `json:"ap"` // nested range loops that panicked on break
}

// exitPoints: where the consumer stops (around leaf and subtree boundaries, at the ends).
func exitPoints(n int) []int {
	if n == 0 {
		return []int{1}
	}
	set := map[int]bool{}
	for _, k := range []int{1, 2, 63, 64, 65, 127, 128, 129, 4031, 4032, 4033, 4095, 4096, 4097, 8191, 8192, 8193, n - 1, n} {
		if k >= 1 && k <= n {
			set[k] = true
		}
	}
	var out []int
	for k := range set {
		out = append(out, k)
	}
	sort.Ints(out)
	return out
}

// observation is everything the harness learned about one case.
type observation struct {
	Spec     spec
	Rec      record
	Written  []ckey // the keys of the map, ascending
	Union    []ckey
	Unreal   int // gaps without a concrete absent key
	Absent   int // absent keys the streaming reader was asked for
	Shape    [][]int
	RootKind string // "none", "leaf", "inner", "bad"
	Evals    int
	Err      string // error text of the rejected call
	Consumed int    // entries the writer took from the iterator
}

// Value objects.  Value ids 0..4 are the awkward values: 0 the null object
// (stored directly), 1 an empty array, 2 an empty dictionary, 3 a reference
// to an object that is null, 4 a reference to an object that does not exist.
// From 5 on: five syntactic kinds, recognisable after the round trip.  With
// indirect == nil (values of in-memory trees, which live across files) the
// reference kinds become big integers.
type valRefs struct{ null, missing pdf.Reference }

func valueObj(vid int, indirect func(pdf.Object) pdf.Reference, vr *valRefs) pdf.Object {
	switch vid {
	case 0:
		return nil
	case 1:
		return pdf.Array{}
	case 2:
		return pdf.Dict{}
	case 3, 4:
		if indirect == nil || vr == nil {
			return pdf.Integer(1_000_000 + vid)
		}
		if vid == 3 {
			return vr.null
		}
		return vr.missing
	}
	switch vid % 5 {
	case 0:
		return pdf.Integer(vid)
	case 1:
		return pdf.String(fmt.Sprintf("s%d", vid))
	case 2:
		return pdf.Name(fmt.Sprintf("n%d", vid))
	case 3:
		return pdf.Array{pdf.Integer(vid), pdf.String("x)(\\")}
	default:
		if indirect == nil {
			return pdf.Integer(1_000_000 + vid)
		}
		return indirect(pdf.Integer(1_000_000 + vid))
	}
}

// vidOf recognises a value; -3 if it is none of ours.
func vidOf(r pdf.Getter, obj pdf.Object) int { return (*valRefs)(nil).vidOf(r, obj) }

func (vr *valRefs) vidOf(r pdf.Getter, obj pdf.Object) int {
	if obj == nil {
		return 0
	}
	wasRef := false
	if ref, ok := obj.(pdf.Reference); ok {
		wasRef = true
		if vr != nil && ref == vr.null {
			return 3
		}
		if vr != nil && ref == vr.missing {
			return 4
		}
		if r == nil {
			return -3
		}
	}
	var nat pdf.Object = obj
	if r != nil {
		n2, err := pdf.Resolve(r, obj)
		if err != nil {
			return -3
		}
		nat = n2
	}
	if nat == nil {
		return -3 // a reference of ours never leads to null, except the two above
	}
	vid := -3
	switch x := nat.(type) {
	case pdf.Integer:
		if wasRef || x >= 1_000_000 { // values of in-memory cases are never indirect
			vid = int(x) - 1_000_000
			if vid < 3 || (vid >= 5 && vid%5 != 4) || (wasRef && vid < 5) {
				return -3
			}
		} else {
			vid = int(x)
			if vid < 5 || vid%5 != 0 {
				return -3
			}
		}
	case pdf.String:
		if _, err := fmt.Sscanf(string(x), "s%d", &vid); err != nil || vid < 5 || vid%5 != 1 || string(x) != fmt.Sprintf("s%d", vid) {
			return -3
		}
	case pdf.Name:
		if _, err := fmt.Sscanf(string(x), "n%d", &vid); err != nil || vid < 5 || vid%5 != 2 || string(x) != fmt.Sprintf("n%d", vid) {
			return -3
		}
	case pdf.Array:
		if len(x) == 0 {
			return 1
		}
		if len(x) != 2 {
			return -3
		}
		i, ok := x[0].(pdf.Integer)
		s, ok2 := x[1].(pdf.String)
		if !ok || !ok2 || string(s) != "x)(\\" || int(i)%5 != 3 || i < 5 {
			return -3
		}
		vid = int(i)
	case pdf.Dict:
		if len(x) == 0 {
			return 2
		}
		return -3
	}
	return vid
}

// treeAPI is the public API of nametree / numtree for key type K.
type reader[K cmp.Ordered] interface {
	Lookup(K) (pdf.Object, error)
	All() iter.Seq2[K, pdf.Object]
}

type treeAPI[K cmp.Ordered] struct {
	leafKey  pdf.Name
	toK      func(ckey) K
	fromK    func(K) ckey
	write    func(*pdf.Writer, iter.Seq2[K, pdf.Object]) (pdf.Reference, error)
	writeMap func(*pdf.Writer, map[K]pdf.Object) (pdf.Reference, error)
	fromFile func(pdf.Getter, pdf.Object) (reader[K], error)
	inMemory func(pdf.Getter, pdf.Object) (reader[K], error)
	size     func(pdf.Getter, pdf.Object) (int, error)
	// an in-memory tree value over a given map / extracted from a file, with access to its exported Data
	newMem     func(map[K]pdf.Object) (reader[K], func() map[K]pdf.Object)
	extractMem func(pdf.Getter, pdf.Object) (reader[K], func() map[K]pdf.Object, error)
	notFound   error
	// decodeKey reads a key object found in the file (generic object API only)
	decodeKey func(pdf.Getter, pdf.Object) (ckey, bool)
}

var nameAPI = treeAPI[pdf.Name]{
	leafKey:  "Names",
	toK:      func(k ckey) pdf.Name { return pdf.Name(k.b) },
	fromK:    func(k pdf.Name) ckey { return ckey{b: string(k)} },
	write:    nametree.Write,
	writeMap: nametree.WriteMap,
	fromFile: func(r pdf.Getter, root pdf.Object) (reader[pdf.Name], error) {
		return nametree.ExtractFromFile(r, root)
	},
	inMemory: func(r pdf.Getter, root pdf.Object) (reader[pdf.Name], error) {
		return nametree.ExtractInMemory(r, root)
	},
	size: nametree.Size,
	newMem: func(m map[pdf.Name]pdf.Object) (reader[pdf.Name], func() map[pdf.Name]pdf.Object) {
		t := &nametree.InMemory{Data: m}
		return t, func() map[pdf.Name]pdf.Object { return t.Data }
	},
	extractMem: func(r pdf.Getter, root pdf.Object) (reader[pdf.Name], func() map[pdf.Name]pdf.Object, error) {
		t, err := nametree.ExtractInMemory(r, root)
		if err != nil || t == nil {
			return nil, nil, err
		}
		return t, func() map[pdf.Name]pdf.Object { return t.Data }, nil
	},
	notFound: nametree.ErrKeyNotFound,
	decodeKey: func(r pdf.Getter, o pdf.Object) (ckey, bool) {
		nat, err := pdf.Resolve(r, o)
		s, ok := nat.(pdf.String)
		return ckey{b: string(s)}, err == nil && ok
	},
}

var numAPI = treeAPI[pdf.Integer]{
	leafKey: "Nums",
	toK:     func(k ckey) pdf.Integer { return pdf.Integer(k.i) },
	fromK:   func(k pdf.Integer) ckey { return numKey(int64(k)) },
	write:   numtree.Write,
	fromFile: func(r pdf.Getter, root pdf.Object) (reader[pdf.Integer], error) {
		return numtree.ExtractFromFile(r, root)
	},
	inMemory: func(r pdf.Getter, root pdf.Object) (reader[pdf.Integer], error) {
		return numtree.ExtractInMemory(r, root)
	},
	size: numtree.Size,
	newMem: func(m map[pdf.Integer]pdf.Object) (reader[pdf.Integer], func() map[pdf.Integer]pdf.Object) {
		t := &numtree.InMemory{Data: m}
		return t, func() map[pdf.Integer]pdf.Object { return t.Data }
	},
	extractMem: func(r pdf.Getter, root pdf.Object) (reader[pdf.Integer], func() map[pdf.Integer]pdf.Object, error) {
		t, err := numtree.ExtractInMemory(r, root)
		if err != nil || t == nil {
			return nil, nil, err
		}
		return t, func() map[pdf.Integer]pdf.Object { return t.Data }, nil
	},
	notFound: numtree.ErrKeyNotFound,
	decodeKey: func(r pdf.Getter, o pdf.Object) (ckey, bool) {
		nat, err := pdf.Resolve(r, o)
		i, ok := nat.(pdf.Integer)
		return numKey(int64(i)), err == nil && ok
	},
}

// build derives the concrete input of a case: written keys, value ids, the
// sequence the iterator produces, and the absent probes.
func build(s spec) (written []ckey, vids map[ckey]int, input []ckey, probes []ckey, gapOf []int, unreal int, ok bool) {
	rng := caseRand(s.Seed, fmt.Sprintf("%s/%s/%d", s.kind(), s.Style, s.N))
	written = genKeys(s.Num, s.Style, s.N, rng)
	vids = map[ckey]int{}
	vmax := s.N/2 + 3
	for _, k := range written {
		vids[k] = rng.Intn(vmax)
		if rng.Intn(8) == 0 {
			vids[k] = rng.Intn(5) // the awkward values: null, empty containers, references to null / nothing
		}
	}
	per := s.Per
	if per == 0 {
		per = 1
	}
	probes, gapOf, unreal = absentProbes(s.Num, written, per)
	input = append([]ckey{}, written...)
	if s.Bad != "" {
		p := s.At
		if p < 1 || p > len(written) {
			return nil, nil, nil, nil, nil, 0, false
		}
		var off ckey
		switch s.Bad {
		case "dup":
			off = written[p-1]
		case "first":
			off = written[0]
		case "less": // an absent key just below the p-th key
			var lo *ckey
			if p >= 2 {
				lo = &written[p-2]
			}
			c := between(s.Num, lo, &written[p-1])
			if len(c) == 0 {
				return nil, nil, nil, nil, nil, 0, false // no such key exists (e.g. consecutive integers)
			}
			off = c[len(c)-1]
		default:
			return nil, nil, nil, nil, nil, 0, false
		}
		input = append(append(append([]ckey{}, written[:p]...), off), written[p:]...)
		if _, has := vids[off]; !has {
			vids[off] = rng.Intn(vmax)
		}
	}
	return written, vids, input, probes, gapOf, unreal, true
}

// observe executes one case on the real code and records what happened.
func observe(s spec) (*observation, error) {
	if s.Num {
		return observeK(s, numAPI)
	}
	return observeK(s, nameAPI)
}

func observeK[K cmp.Ordered](s spec, api treeAPI[K]) (*observation, error) {
	written, vids, input, probes, gapOf, unreal, ok := build(s)
	if !ok {
		return nil, nil // the abstract case has no concrete counterpart for this key style
	}
	return examine(s, api, caseInput{written: written, vids: vids, input: input, probes: probes, gapOf: gapOf, unreal: unreal}, nil)
}

// caseInput is the concrete input of one write: the map (written, vids), the
// sequence the iterator yields (Write only) and the absent probes.
type caseInput struct {
	written []ckey
	vids    map[ckey]int
	input   []ckey
	probes  []ckey
	gapOf   []int
	unreal  int
}

// examine performs one write into a real file and everything that is
// recorded about it.  memVal, if not nil, is the in-memory tree value the tree
// is written from (api "InMemory": Write(w, memVal.All())); its own All() and
// Lookup are recorded as well.
func examine[K cmp.Ordered](s spec, api treeAPI[K], in caseInput, memVal reader[K]) (*observation, error) {
	written, vids, input, probes, gapOf, unreal := in.written, in.vids, in.input, in.probes, in.gapOf, in.unreal
	ob := &observation{Spec: s, Written: written, Unreal: unreal, RootKind: "none"}
	rec := &ob.Rec
	rec.ID, rec.Kind, rec.API = s.id(), s.kind(), s.API
	rec.VAllK, rec.VAllV, rec.VL = []int{}, []int{}, []int{}
	rec.Nest = nestRec{OK: []int{}, OV: []int{}, LK: []int{}, LA: []int{}, AK: []int{}, AV: []int{}}
	rec.MNest = rec.Nest

	// --- write a real file
	var buf bytes.Buffer
	w, err := pdf.NewWriter(&buf, pdf.V2_0, nil)
	if err != nil {
		return nil, fmt.Errorf("pdf.NewWriter: %v", err)
	}
	pageRef, pagesRef := w.Alloc(), w.Alloc()
	if err := w.Put(pageRef, pdf.Dict{"Type": pdf.Name("Page"), "Parent": pagesRef, "Resources": pdf.Dict{},
		"MediaBox": pdf.Array{pdf.Integer(0), pdf.Integer(0), pdf.Integer(100), pdf.Integer(100)}}); err != nil {
		return nil, err
	}
	if err := w.Put(pagesRef, pdf.Dict{"Type": pdf.Name("Pages"), "Kids": pdf.Array{pageRef}, "Count": pdf.Integer(1)}); err != nil {
		return nil, err
	}
	w.GetMeta().Catalog.Pages = pagesRef
	var putErr error
	indirect := func(o pdf.Object) pdf.Reference {
		ref := w.Alloc()
		if err := w.Put(ref, o); err != nil && putErr == nil {
			putErr = err
		}
		return ref
	}
	objs := map[ckey]pdf.Object{}
	vr := &valRefs{}
	if memVal == nil {
		vr.null = indirect(nil) // "N 0 obj null endobj"
		vr.missing = w.Alloc()  // never written
		for k, vid := range vids {
			objs[k] = valueObj(vid, indirect, vr)
		}
	}
	if putErr != nil {
		return nil, putErr
	}

	// the in-memory value's own enumeration, before it is written
	type ans struct {
		keys []ckey
		vals []int
	}
	var vall ans
	if memVal != nil {
		rec.Mem = true
		for k, v := range memVal.All() {
			vall.keys = append(vall.keys, api.fromK(k))
			vall.vals = append(vall.vals, vidOf(nil, v))
		}
		ob.Evals++
	}

	// --- the state of the Writer around the write
	withStream, withPuts := strings.Contains(s.Ctx, "stream"), strings.Contains(s.Ctx, "puts")
	otherPut := func(i int) {
		if err := w.Put(w.Alloc(), pdf.Dict{"Other": pdf.Integer(i), "A": pdf.Array{pdf.String("x"), pdf.Integer(i)}}); err != nil && putErr == nil {
			putErr = err
		}
	}
	var stm io.WriteCloser
	if withStream {
		stm, err = w.OpenStream(w.Alloc(), pdf.Dict{"Other": pdf.Name("Stream")})
		if err != nil {
			return nil, fmt.Errorf("OpenStream: %v", err)
		}
		if _, err := stm.Write([]byte("q 1 0 0 1 0 0 cm ")); err != nil {
			return nil, err
		}
	}
	if withPuts {
		otherPut(-1)
	}

	var rootRef pdf.Reference
	var werr error
	switch s.API {
	case "Foreign": // nothing is written by go-pdf; the file is rendered below
		if len(written) > 0 {
			rootRef = pdf.NewReference(1, 0)
		}
	case "InMemory":
		rootRef, werr = api.write(w, memVal.All())
	case "WriteMap":
		if api.writeMap == nil || s.Bad != "" {
			return nil, fmt.Errorf("WriteMap not applicable to %s", s.id())
		}
		m := make(map[K]pdf.Object, len(written))
		for _, k := range written {
			m[api.toK(k)] = objs[k]
		}
		rootRef, werr = api.writeMap(w, m)
	default:
		seq := func(yield func(K, pdf.Object) bool) {
			for i, k := range input {
				ob.Consumed++
				if withPuts && i%17 == 16 {
					otherPut(i)
				}
				if !yield(api.toK(k), objs[k]) {
					return
				}
			}
		}
		rootRef, werr = api.write(w, seq)
	}
	if withPuts {
		otherPut(-2)
	}
	if withStream {
		if _, err := stm.Write([]byte("Q")); err != nil {
			return nil, err
		}
		if err := stm.Close(); err != nil {
			return nil, fmt.Errorf("closing the other stream: %v", err)
		}
	}
	if putErr != nil {
		return nil, putErr
	}
	ob.Evals++
	rec.Accepted = werr == nil
	if werr != nil {
		ob.Err = werr.Error()
	}
	rec.RootNull = rootRef == 0
	if werr == nil && rootRef != 0 {
		if s.Num {
			w.GetMeta().Catalog.PageLabels = rootRef
		} else {
			w.GetMeta().Catalog.Names = pdf.Dict{"Dests": rootRef}
		}
	}
	if err := w.Close(); err != nil {
		return nil, fmt.Errorf("Writer.Close: %v", err)
	}

	// --- re-open
	data := buf.Bytes()
	if s.API == "Foreign" {
		data = renderForeign(s.Num, s.Foreign, max(s.Fan, 2), written, vids)
	}
	r, err := pdf.NewReader(bytes.NewReader(data), int64(len(data)), nil)
	if err != nil {
		return nil, fmt.Errorf("pdf.NewReader: %v", err)
	}
	defer r.Close()

	var root pdf.Object // nil: no tree
	if werr == nil && rootRef != 0 {
		cat := r.GetMeta().Catalog
		if s.Num {
			root = cat.PageLabels
		} else {
			nd, err := pdf.Resolve(r, cat.Names)
			d, ok := nd.(pdf.Dict)
			if err != nil || !ok {
				return nil, fmt.Errorf("catalog /Names not found after re-opening")
			}
			root = d["Dests"]
		}
		if root == nil {
			return nil, fmt.Errorf("tree root not found in the catalog after re-opening")
		}
	}

	// --- every node, through the generic object API only
	var nodes []rawNode
	if root != nil {
		nodes = walk(r, root, api.leafKey, api.decodeKey, vr)
		ob.RootKind = nodes[0].Kind
		ob.Shape = shapeOf(nodes)
	}

	// --- the real readers
	var all, mall ans
	var exits []exitCalls
	var ff, mem reader[K]
	if werr == nil {
		var e1, e2 error
		ff, e1 = api.fromFile(r, root)
		mem, e2 = api.inMemory(r, root)
		if e1 != nil || e2 != nil {
			ff, mem = nil, nil
			rec.Size = -2
		}
	}
	if ff != nil && mem != nil {
		for k, v := range ff.All() {
			all.keys = append(all.keys, api.fromK(k))
			all.vals = append(all.vals, vr.vidOf(r, v))
		}
		for k, v := range mem.All() {
			mall.keys = append(mall.keys, api.fromK(k))
			mall.vals = append(mall.vals, vr.vidOf(r, v))
		}
		n, err := api.size(r, root)
		if err != nil {
			n = -1
		}
		rec.Size = n
		ob.Evals += 3
		for _, k := range exitPoints(len(written)) {
			var e exitCalls
			e.k = k
			e.sk, e.sv = stopAt(ff, k, func(v pdf.Object) int { return vr.vidOf(r, v) }, api.fromK)
			e.mk, e.mv = stopAt(mem, k, func(v pdf.Object) int { return vr.vidOf(r, v) }, api.fromK)
			e.sp, e.mp = breakAt(ff, k), breakAt(mem, k)
			exits = append(exits, e)
			ob.Evals += 4
		}
	}

	// --- ranks: every concrete key seen anywhere, in reference order
	seen := map[ckey]bool{}
	var union []ckey
	addKey := func(k ckey) {
		if !seen[k] {
			seen[k] = true
			union = append(union, k)
		}
	}
	keyLists := [][]ckey{written, input, probes, all.keys, mall.keys, vall.keys}
	for _, e := range exits {
		keyLists = append(keyLists, e.sk, e.mk)
	}
	for _, ks := range keyLists {
		for _, k := range ks {
			addKey(k)
		}
	}
	for _, nd := range nodes {
		for _, k := range nd.Keys {
			addKey(k)
		}
		for _, k := range nd.Lim {
			addKey(k)
		}
	}
	sort.Slice(union, func(i, j int) bool { return less(union[i], union[j]) })
	ob.Union = union
	rank := make(map[ckey]int, len(union))
	rec.Ord = make([][]int, len(union))
	for i, k := range union {
		rank[k] = i + 1
		rec.Ord[i] = ordBytes(k)
	}
	ranks := func(ks []ckey) []int {
		out := make([]int, len(ks))
		for i, k := range ks {
			out[i] = rank[k]
		}
		return out
	}
	nn := func(v []int) []int {
		if v == nil {
			return []int{}
		}
		return v
	}
	rec.Val = make([]int, len(union))
	for i := range rec.Val {
		rec.Val[i] = -1
	}
	for _, k := range written {
		rec.Val[rank[k]-1] = vids[k]
	}
	rec.Input = []int{}
	if s.API == "Write" {
		rec.Input = ranks(input)
	}
	rec.Nodes = []node{}
	for _, nd := range nodes {
		rec.Nodes = append(rec.Nodes, node{K: nd.Kind, E: ranks(nd.Keys), V: nn(nd.Vals), C: nn(nd.Kids), L: ranks(nd.Lim)})
	}
	if len(nodes) > 0 {
		rec.Root = 1
	}
	rec.AllK, rec.AllV, rec.MAllK, rec.MAllV = ranks(all.keys), nn(all.vals), ranks(mall.keys), nn(mall.vals)
	rec.Exits = []exitRec{}
	for _, e := range exits {
		rec.Exits = append(rec.Exits, exitRec{K: e.k, SK: ranks(e.sk), SV: nn(e.sv), MK: ranks(e.mk), MV: nn(e.mv), SP: e.sp, MP: e.mp})
	}
	if memVal != nil {
		rec.VAllK, rec.VAllV = ranks(vall.keys), nn(vall.vals)
		for _, k := range union {
			v, err := memVal.Lookup(api.toK(k))
			switch {
			case err == nil:
				rec.VL = append(rec.VL, vidOf(nil, v))
			case errors.Is(err, api.notFound):
				rec.VL = append(rec.VL, -1)
			default:
				rec.VL = append(rec.VL, -2)
			}
		}
		ob.Evals += len(union)
	}

	// --- Lookup for every key of the union (present keys and absent probes)
	rec.LK, rec.ML = []int{}, []int{}
	if ff != nil && mem != nil {
		answer := func(t reader[K], k ckey) int {
			v, err := t.Lookup(api.toK(k))
			switch {
			case err == nil:
				return vr.vidOf(r, v)
			case errors.Is(err, api.notFound):
				return -1
			default:
				return -2
			}
		}
		// which keys the streaming reader is asked for
		skip := map[ckey]bool{}
		if s.Probe == "edges" {
			rec.Sampled = true
			srng := caseRand(s.Seed, "sample/"+s.id())
			for i, k := range written {
				if m := i % realF; m > 1 && m < realF-2 && srng.Intn(100) >= 3 {
					skip[k] = true
				}
			}
			for i, k := range probes {
				if m := gapOf[i] % realF; m > 1 && m < realF-1 && srng.Intn(100) >= 3 {
					skip[k] = true
				}
			}
		}
		for _, k := range union {
			if skip[k] {
				rec.LK = append(rec.LK, -9)
			} else {
				rec.LK = append(rec.LK, answer(ff, k))
				ob.Evals++
				if _, present := vids[k]; !present || rec.Val[len(rec.LK)-1] < 0 {
					ob.Absent++
				}
			}
			rec.ML = append(rec.ML, answer(mem, k))
		}
		ob.Evals += len(union)

		// nested use of one reader: inside the consumer of All(), at the first entry, at the leaf
		// boundaries and at every step-th entry, Lookup of the current key, of a key in another
		// leaf and of an absent key; at every other of these entries a second All(), left after 3 entries
		step := 17
		if len(written) > 1000 {
			step = 131
		}
		nested := func(t reader[K]) nestRec {
			nr := nestRec{OK: []int{}, OV: []int{}, LK: []int{}, LA: []int{}, AK: []int{}, AV: []int{}}
			i, at := 0, 0
			for k, v := range t.All() {
				ck := api.fromK(k)
				nr.OK = append(nr.OK, rank[ck])
				nr.OV = append(nr.OV, vr.vidOf(r, v))
				if i == 0 || i%realF == 0 || i%realF == realF-1 || i%step == step-1 {
					asks := []ckey{ck}
					if n := len(written); n > 0 {
						asks = append(asks, written[(i+realF+5)%n])
					}
					if len(probes) > 0 {
						asks = append(asks, probes[(i+at)%len(probes)])
					}
					for _, a := range asks {
						nr.LK = append(nr.LK, rank[a])
						nr.LA = append(nr.LA, answer(t, a))
					}
					ob.Evals += len(asks)
					if at%2 == 0 {
						nr.AC++
						func() {
							defer func() {
								if recover() != nil {
									nr.AP++
								}
							}()
							j := 0
							for k2, v2 := range t.All() {
								nr.AK = append(nr.AK, rank[api.fromK(k2)])
								nr.AV = append(nr.AV, vr.vidOf(r, v2))
								j++
								if j >= 3 {
									break
								}
							}
						}()
						ob.Evals++
					}
					at++
				}
				i++
				if i > 3*len(written)+10 {
					break // a reader gone astray
				}
			}
			return nr
		}
		rec.Nest, rec.MNest = nested(ff), nested(mem)
		ob.Evals += 2
	}
	return ob, nil
}

type exitCalls struct {
	k      int
	sk, mk []ckey
	sv, mv []int
	sp, mp int
}

// stopAt consumes t.All() with a function that returns false from its k-th
// call on, and returns everything the function was called with.
func stopAt[K cmp.Ordered](t reader[K], k int, vid func(pdf.Object) int, fromK func(K) ckey) (keys []ckey, vals []int) {
	defer func() { _ = recover() }()
	t.All()(func(key K, v pdf.Object) bool {
		if len(keys) < k+70 { // enough to show calls after the stop
			keys = append(keys, fromK(key))
			vals = append(vals, vid(v))
		}
		return len(keys) < k
	})
	return keys, vals
}

// breakAt runs a range loop over t.All() that breaks at its k-th iteration;
// 1 if that panics ("range function continued iteration ...").
func breakAt[K cmp.Ordered](t reader[K], k int) (panicked int) {
	defer func() {
		if recover() != nil {
			panicked = 1
		}
	}()
	i := 0
	for range t.All() {
		i++
		if i >= k {
			break
		}
	}
	return 0
}

// walk extracts every node dictionary reachable from root.  Nodes are numbered
// in discovery order (root = 1); a node reached twice keeps its number, so
// sharing and cycles show up as a kid list that is not a tree.
func walk(r pdf.Getter, root pdf.Object, leafKey pdf.Name, decodeKey func(pdf.Getter, pdf.Object) (ckey, bool), vr *valRefs) []rawNode {
	var nodes []rawNode
	byRef := map[pdf.Reference]int{}
	type item struct {
		obj pdf.Object
		idx int
	}
	alloc := func(o pdf.Object) (int, bool) {
		if ref, ok := o.(pdf.Reference); ok {
			if idx, seen := byRef[ref]; seen {
				return idx, false
			}
			nodes = append(nodes, rawNode{})
			byRef[ref] = len(nodes)
			return len(nodes), true
		}
		nodes = append(nodes, rawNode{})
		return len(nodes), true
	}
	idx, _ := alloc(root)
	queue := []item{{root, idx}}
	for len(queue) > 0 {
		it := queue[0]
		queue = queue[1:]
		nd := rawNode{Kind: "bad"}
		nat, err := pdf.Resolve(r, it.obj)
		d, isDict := nat.(pdf.Dict)
		if err != nil || !isDict {
			nd.Note = "not a dictionary"
			nodes[it.idx-1] = nd
			continue
		}
		_, hasKids := d["Kids"]
		_, hasLeaf := d[leafKey]
		switch {
		case hasKids && !hasLeaf:
			nd.Kind = "inner"
		case hasLeaf && !hasKids:
			nd.Kind = "leaf"
		default:
			nd.Note = "neither or both of /Kids and the leaf array"
		}
		if lim, has := d["Limits"]; has {
			arr, ok := resolveArray(r, lim)
			if !ok {
				nd.Kind, nd.Note = "bad", "/Limits is not an array"
			}
			for _, e := range arr {
				k, ok := decodeKey(r, e)
				if !ok {
					nd.Kind, nd.Note = "bad", "/Limits holds a non-key"
					continue
				}
				nd.Lim = append(nd.Lim, k)
			}
			if len(arr) == 0 { // present but empty: not the same as absent
				nd.Kind, nd.Note = "bad", "/Limits is empty"
			}
		}
		if hasLeaf {
			arr, ok := resolveArray(r, d[leafKey])
			if !ok || len(arr)%2 != 0 {
				nd.Kind, nd.Note = "bad", "leaf array malformed"
			}
			for i := 0; i+1 < len(arr); i += 2 {
				k, ok := decodeKey(r, arr[i])
				if !ok {
					nd.Kind, nd.Note = "bad", "leaf array holds a non-key"
					continue
				}
				nd.Keys = append(nd.Keys, k)
				nd.Vals = append(nd.Vals, vr.vidOf(r, arr[i+1]))
			}
		}
		if hasKids {
			arr, ok := resolveArray(r, d["Kids"])
			if !ok {
				nd.Kind, nd.Note = "bad", "/Kids is not an array"
			}
			for _, kid := range arr {
				ki, fresh := alloc(kid)
				nd.Kids = append(nd.Kids, ki)
				if fresh {
					queue = append(queue, item{kid, ki})
				}
			}
		}
		nodes[it.idx-1] = nd
	}
	return nodes
}

func resolveArray(r pdf.Getter, o pdf.Object) (pdf.Array, bool) {
	nat, err := pdf.Resolve(r, o)
	arr, ok := nat.(pdf.Array)
	return arr, err == nil && ok
}

// shapeOf is the pre-order skeleton of an observed tree in the form of
// KeyTreeDefs!Skeleton: [level, 0 leaf | 1 inner, entries or kids, 1 if /Limits].
func shapeOf(nodes []rawNode) [][]int {
	var out [][]int
	visited := map[int]bool{}
	var rec func(i, level int)
	rec = func(i, level int) {
		if visited[i] || len(out) > 100000 {
			return
		}
		visited[i] = true
		nd := nodes[i-1]
		kind, cnt, lim := 0, len(nd.Keys), 0
		if nd.Kind != "leaf" {
			kind, cnt = 1, len(nd.Kids)
		}
		if len(nd.Lim) > 0 {
			lim = 1
		}
		out = append(out, []int{level, kind, cnt, lim})
		for _, k := range nd.Kids {
			rec(k, level+1)
		}
	}
	rec(1, 0)
	return out
}
