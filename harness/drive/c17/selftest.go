package c17

import (
	"encoding/json"
	"fmt"

	"verif/harness/core"
)

func cloneRec(r record) record {
	data, _ := json.Marshal(r)
	var out record
	_ = json.Unmarshal(data, &out)
	return out
}

// selfTest: the machinery must notice (i) corrupted records - and name the
// part of the verdict that fails -, (ii) the seeded defects of the design
// model, (iii) a wrong table line.
func selfTest(ctx *core.Ctx) error {
	// (i) real records, one field corrupted each
	ob, err := observe(spec{API: "Write", Style: "prefix", N: 129, Seed: 1, Per: 2, Ctx: "stream+puts"})
	if err != nil || ob == nil {
		return core.Infra("self-test: %v", err)
	}
	obNum, err := observe(spec{Num: true, API: "Write", Style: "extremes", N: 4097, Seed: 1, Per: 1})
	if err != nil || obNum == nil {
		return core.Infra("self-test: %v", err)
	}
	obDup, err := observe(spec{API: "Write", Style: "random", N: 65, Seed: 1, Bad: "dup", At: 64, Per: 1})
	if err != nil || obDup == nil {
		return core.Infra("self-test: %v", err)
	}
	good := ob.Rec
	leaf := -1
	for i, nd := range good.Nodes {
		if nd.K == "leaf" && len(nd.L) == 2 && len(nd.E) > 2 {
			leaf = i
		}
	}
	if leaf < 0 {
		return core.Infra("self-test: no leaf with /Limits in the sample tree")
	}
	type corruption struct {
		name string
		rec  record
		part string
	}
	var cs []corruption
	add := func(name, part string, base record, f func(r *record)) {
		r := cloneRec(base)
		f(&r)
		cs = append(cs, corruption{name, r, part})
	}
	add("greatest key of a leaf's /Limits is the second to last key", "Valid", good, func(r *record) {
		nd := &r.Nodes[leaf]
		nd.L[1] = nd.E[len(nd.E)-2]
	})
	add("root carries /Limits", "Valid", good, func(r *record) { r.Nodes[0].L = []int{1, len(r.Ord)} })
	add("two keys of a leaf swapped", "Valid", good, func(r *record) {
		nd := &r.Nodes[leaf]
		nd.E[0], nd.E[1] = nd.E[1], nd.E[0]
	})
	add("a stored value differs", "TreeContent", good, func(r *record) { r.Nodes[leaf].V[1] += 5 })
	add("streaming Lookup misses a present key", "Faithful", good, func(r *record) {
		for i, v := range r.Val {
			if v >= 0 {
				r.LK[i] = -1
				return
			}
		}
	})
	add("in-memory Lookup finds an absent key", "FaithfulInMemory", good, func(r *record) {
		for i, v := range r.Val {
			if v < 0 {
				r.ML[i] = 0
				return
			}
		}
	})
	add("All yields two entries in the wrong order", "Enumerates", good, func(r *record) {
		r.AllK[3], r.AllK[4] = r.AllK[4], r.AllK[3]
		r.AllV[3], r.AllV[4] = r.AllV[4], r.AllV[3]
	})
	add("All() calls the consumer once more after it stopped", "EarlyExit", good, func(r *record) {
		e := &r.Exits[len(r.Exits)/2]
		e.SK, e.SV = append(e.SK, r.AllK[e.K]), append(e.SV, r.AllV[e.K])
	})
	add("a range loop over the in-memory All() panics on break", "EarlyExitInMemory", good, func(r *record) { r.Exits[0].MP = 1 })
	add("early exit yields too few entries", "EarlyExit", obNum.Rec, func(r *record) {
		e := &r.Exits[len(r.Exits)-2]
		e.SK, e.SV = e.SK[:len(e.SK)-1], e.SV[:len(e.SV)-1]
	})
	add("the outer All() drops a leaf while a nested Lookup is made", "Reentrant", good, func(r *record) {
		r.Nest.OK, r.Nest.OV = append(r.Nest.OK[:64:64], r.Nest.OK[128:]...), append(r.Nest.OV[:64:64], r.Nest.OV[128:]...)
	})
	add("a nested Lookup on the in-memory reader misses a present key", "ReentrantInMemory", good, func(r *record) { r.MNest.LA[0] = -1 })
	add("a nested All() starts in the wrong place", "Reentrant", obNum.Rec, func(r *record) { r.Nest.AK[3] = r.Nest.AK[4] })
	add("Size is off by one", "Size", good, func(r *record) { r.Size++ })
	add("a kid is referenced twice", "Valid", good, func(r *record) {
		for i := range r.Nodes {
			if len(r.Nodes[i].C) >= 2 {
				r.Nodes[i].C[1] = r.Nodes[i].C[0]
				return
			}
		}
	})
	add("duplicate key accepted", "RejectsExactly", obDup.Rec, func(r *record) { r.Accepted = true })
	add("sorted input rejected", "RejectsExactly", good, func(r *record) { r.Accepted = false })
	add("harness ranks out of order", "HarnessOrder", good, func(r *record) { r.Ord[2], r.Ord[3] = r.Ord[3], r.Ord[2] })
	add("65 entries in a leaf (F=64)", "Valid", obNum.Rec, func(r *record) {
		// move the first key of the second leaf into the first leaf and fix the /Limits
		var leaves []int
		for i, nd := range r.Nodes {
			if nd.K == "leaf" {
				leaves = append(leaves, i)
			}
		}
		a, b := &r.Nodes[leaves[0]], &r.Nodes[leaves[1]]
		a.E, a.V = append(a.E, b.E[0]), append(a.V, b.V[0])
		b.E, b.V = b.E[1:], b.V[1:]
		a.L[1], b.L[0] = a.E[len(a.E)-1], b.E[0]
	})

	// the second shape: one in-memory value, a key replaced after a first use
	memObs, err := observeMem(spec{Style: "random", N: 65, Seed: 1, Per: 2,
		Mem: &memSpec{Source: "literal", Pre: "all", Ops: []memOp{{Op: "R", Del: "mid", Add: "hi"}}}}, nil)
	if err != nil || len(memObs) != 1 {
		return core.Infra("self-test: in-memory script: %v", err)
	}
	memGood := memObs[0].Rec
	add("All() of the in-memory value still yields the replaced key", "ValueEnumerates", memGood, func(r *record) {
		for i, v := range r.Val {
			if v < 0 {
				r.VAllK[len(r.VAllK)/2] = i + 1
				return
			}
		}
	})
	add("Lookup on the in-memory value misses the inserted key", "ValueLookup", memGood, func(r *record) {
		r.VL[r.VAllK[len(r.VAllK)-1]-1] = -1
	})

	recs := []record{good, obNum.Rec, obDup.Rec, memGood}
	nGood := len(recs)
	for _, c := range cs {
		recs = append(recs, c.rec)
	}
	bad, why, err := judge(ctx, recs)
	if err != nil {
		return err
	}
	if len(bad) != len(cs) {
		return core.Infra("self-test: %d corrupted records, TLC rejected %v", len(cs), bad)
	}
	for j, b := range bad {
		if b != nGood+j {
			return core.Infra("self-test: corrupted records not singled out: %v", bad)
		}
	}
	for j, c := range cs {
		parts := why[nGood+j]
		if len(parts) == 0 || parts[0] != c.part {
			return core.Infra("self-test: %q should fail %s, got %v", c.name, c.part, parts)
		}
	}
	ctx.Logf("self-test (i): %d corrupted records rejected for the expected reason, %d intact ones accepted", len(cs), nGood)

	// (ii) the seeded defects must violate the design model
	for v, want := range map[string]string{"limitsMaxOff": "Valid", "limitsMinOff": "Valid", "lookupStrict": "Faithful", "collapseAll": "Valid",
		"yieldBreak": "EarlyExit", "leafBufReuse": "Valid", "sharedSeen": "Reentrant"} {
		res, err := ctx.TLC(core.TLCOpts{Dir: "tree", Module: "MC_KeyTree", Cfg: "MC_KeyTree_neg_" + v + ".cfg", Workers: 4, Mode: "negative-control"})
		if err != nil {
			return err
		}
		if res.Invariant != want {
			return core.Infra("self-test: variant %s should violate %s, got %q", v, want, res.Invariant)
		}
	}
	res, err := ctx.TLC(core.TLCOpts{Dir: "tree", Module: "KeyTreeMem", Cfg: "MC_KeyTreeMem_neg_cachedKeys.cfg", Workers: 4, Mode: "negative-control"})
	if err != nil {
		return err
	}
	if res.Invariant != "MemEnumerates" && res.Invariant != "MemWrite" {
		return core.Infra("self-test: variant cachedKeys should violate MemEnumerates/MemWrite, got %q", res.Invariant)
	}
	res, err = ctx.TLC(core.TLCOpts{Dir: "tree", Module: "KeyTreeMem", Cfg: "MC_KeyTreeMem_neg_nullMeansAbsent.cfg", Workers: 4, Mode: "negative-control"})
	if err != nil {
		return err
	}
	if res.Invariant != "MemLookup" {
		return core.Infra("self-test: variant nullMeansAbsent should violate MemLookup, got %q", res.Invariant)
	}
	ctx.Logf("self-test (ii): the seven seeded defects of the tree model (limits max/min off by one, strict lookup comparison, collapse without grouping, lost stop signal in All, shared leaf buffer with queued Puts, one cycle-guard set for overlapping walks) and the two of the in-memory value (kept key slice, null value taken for absent) violate the models")

	// (iii) a wrong table line must be noticed
	if checkTable(genCase{N: 129, Accept: false}, ob) == "" || checkTable(genCase{N: 128, Accept: true}, ob) == "" ||
		checkTable(genCase{N: 65, Bad: "dup", At: 64, Accept: true}, obDup) == "" {
		return core.Infra("self-test: wrong table expectation not noticed")
	}
	if checkTable(genCase{N: 129, Accept: true}, ob) != "" {
		return core.Infra("self-test: correct table line flagged: %s", checkTable(genCase{N: 129, Accept: true}, ob))
	}
	ctx.Logf("self-test (iii): wrong table expectations noticed")
	fmt.Println("self-test passed")
	return nil
}
