package c17

import (
	"bytes"
	"fmt"
	"strings"
)

// Foreign trees: name / number trees as OTHER producers write them, rendered
// byte by byte by the harness (no go-pdf code involved) and read by the real
// readers.  The harness builds a conforming tree for the abstract map with its
// own small fan-out and varies what the standard leaves open - or what
// producers do anyway:
//
//	inline      every kid is a direct dictionary inside its parent's /Kids array
//	mixed       kids alternately direct and indirect, every other leaf array indirect
//	rootdirect  the root itself is a direct dictionary in the catalog, kids inline,
//	            /Limits arrays indirect
//	indirect    kids, leaf arrays and /Limits arrays all indirect (control)
//
// Keys are written as hex strings or as literal strings with escapes (names),
// and with an explicit + sign (non-negative integers).  /Limits is omitted at
// the root only.
var foreignVariants = []string{"inline", "mixed", "rootdirect", "indirect"}

type fnode struct {
	leaf   bool
	keys   []ckey
	vids   []int
	kids   []*fnode
	lo, hi ckey
}

// buildForeign: leaves of up to f entries, then groups of up to f nodes, until one root is left.
func buildForeign(keys []ckey, vids map[ckey]int, f int) *fnode {
	if len(keys) == 0 {
		return nil
	}
	var level []*fnode
	for i := 0; i < len(keys); i += f {
		j := min(i+f, len(keys))
		nd := &fnode{leaf: true, keys: keys[i:j], lo: keys[i], hi: keys[j-1]}
		for _, k := range nd.keys {
			nd.vids = append(nd.vids, vids[k])
		}
		level = append(level, nd)
	}
	for len(level) > 1 {
		var up []*fnode
		for i := 0; i < len(level); i += f {
			j := min(i+f, len(level))
			up = append(up, &fnode{kids: level[i:j], lo: level[i].lo, hi: level[j-1].hi})
		}
		level = up
	}
	return level[0]
}

type foreignFile struct {
	objs    []string // object n+1 = objs[n]
	variant string
	num     bool
	leafKey string
	count   int
}

func (ff *foreignFile) add(body string) string {
	ff.objs = append(ff.objs, body)
	return fmt.Sprintf("%d 0 R", len(ff.objs))
}

func (ff *foreignFile) key(k ckey, i int) string {
	if k.num {
		if k.i >= 0 {
			return fmt.Sprintf("+%d", k.i)
		}
		return fmt.Sprint(k.i)
	}
	if (i+len(ff.variant))%2 == 0 {
		return fmt.Sprintf("<%X>", k.b)
	}
	var b strings.Builder
	b.WriteByte('(')
	for j, c := range []byte(k.b) {
		switch {
		case c == '(' || c == ')' || c == '\\':
			b.WriteByte('\\')
			b.WriteByte(c)
		case c == '\n':
			b.WriteString("\\n")
		case c == '\r':
			b.WriteString("\\r")
		case c < 0x20 || c == 0x7f || (c >= 0x80 && j%2 == 0):
			fmt.Fprintf(&b, "\\%03o", c)
		default:
			b.WriteByte(c) // printable ASCII and (every other) high byte as they are
		}
	}
	b.WriteByte(')')
	return b.String()
}

// value: the direct forms of valueObj
func foreignValue(vid int) string {
	switch {
	case vid == 0:
		return "null"
	case vid == 1:
		return "[ ]"
	case vid == 2:
		return "<< >>"
	case vid == 3 || vid == 4 || vid%5 == 4:
		return fmt.Sprint(1_000_000 + vid)
	case vid%5 == 0:
		return fmt.Sprint(vid)
	case vid%5 == 1:
		return fmt.Sprintf("(s%d)", vid)
	case vid%5 == 2:
		return fmt.Sprintf("/n%d", vid)
	default:
		return fmt.Sprintf("[%d (x\\)\\(\\\\)]", vid)
	}
}

func (ff *foreignFile) node(nd *fnode, isRoot bool) string {
	ff.count++
	me := ff.count
	var b strings.Builder
	b.WriteString("<<")
	if !isRoot {
		lim := fmt.Sprintf("[%s %s]", ff.key(nd.lo, me), ff.key(nd.hi, me+1))
		if ff.variant == "rootdirect" || ff.variant == "indirect" {
			lim = ff.add(lim)
		}
		b.WriteString(" /Limits " + lim)
	}
	if nd.leaf {
		var a strings.Builder
		a.WriteString("[")
		for i, k := range nd.keys {
			a.WriteString(" " + ff.key(k, me+i) + " " + foreignValue(nd.vids[i]))
		}
		a.WriteString(" ]")
		arr := a.String()
		if ff.variant == "indirect" || (ff.variant == "mixed" && me%2 == 0) {
			arr = ff.add(arr)
		}
		b.WriteString(" /" + ff.leafKey + " " + arr)
	} else {
		b.WriteString(" /Kids [")
		for i, kid := range nd.kids {
			body := ff.node(kid, false)
			if ff.variant == "indirect" || (ff.variant == "mixed" && (me+i)%2 == 0) {
				body = ff.add(body)
			}
			b.WriteString(" " + body)
		}
		b.WriteString(" ]")
	}
	b.WriteString(" >>")
	return b.String()
}

// renderForeign returns a complete PDF file whose catalog points at the tree
// (/Names << /Dests root >> for names, /PageLabels root for numbers).
func renderForeign(num bool, variant string, fan int, keys []ckey, vids map[ckey]int) []byte {
	ff := &foreignFile{variant: variant, num: num, leafKey: "Names"}
	if num {
		ff.leafKey = "Nums"
	}
	ff.objs = []string{"", "<< /Type /Pages /Kids [3 0 R] /Count 1 >>", "<< /Type /Page /Parent 2 0 R /Resources << >> /MediaBox [0 0 100 100] >>"}
	entry := ""
	if root := buildForeign(keys, vids, fan); root != nil {
		body := ff.node(root, true)
		if variant != "rootdirect" {
			body = ff.add(body)
		}
		if num {
			entry = " /PageLabels " + body
		} else {
			entry = " /Names << /Dests " + body + " >>"
		}
	}
	ff.objs[0] = "<< /Type /Catalog /Pages 2 0 R" + entry + " >>"

	var out bytes.Buffer
	out.WriteString("%PDF-1.7\n%\xe2\xe3\xcf\xd3\n")
	offs := make([]int, len(ff.objs))
	for i, body := range ff.objs {
		offs[i] = out.Len()
		fmt.Fprintf(&out, "%d 0 obj\n%s\nendobj\n", i+1, body)
	}
	xref := out.Len()
	fmt.Fprintf(&out, "xref\n0 %d\n0000000000 65535 f \n", len(ff.objs)+1)
	for _, o := range offs {
		fmt.Fprintf(&out, "%010d 00000 n \n", o)
	}
	fmt.Fprintf(&out, "trailer\n<< /Size %d /Root 1 0 R >>\nstartxref\n%d\n%%%%EOF\n", len(ff.objs)+1, xref)
	return out.Bytes()
}
