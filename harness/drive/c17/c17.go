// Package c17 binds spec/tree/KeyTree*.tla to nametree / numtree
// (internal/pdftree).
//
//	model  MC_KeyTree: the writer state machine of write.go, exhaustive for small F
//	P-C    Gen_KeyTree (F=64): case table (sizes, offending keys, expected
//	       acceptance, predicted shape, probe plan) -> concretised as names and
//	       integers -> executed on the real Write/WriteMap/Lookup/All/Size
//	P-D    every executed case: the tree found in the re-opened file (all node
//	       dictionaries, generic object API) and the readers' answers -> record
//	       -> Trace_KeyTree judges it with the reference operators
//
// A table mismatch is never reported by itself; verdicts come from TLC's
// judgement of the record of the real execution.
package c17

import (
	"encoding/json"
	"fmt"
	"os"
	"path/filepath"
	"reflect"
	"sort"
	"strconv"
	"strings"
	"sync"

	"verif/harness/core"
)

var Driver = core.Driver{ID: "C17", Level: "model_checking", Run: run, Replay: replay, SelfTest: selfTest}

const realF = 64

// par is the number of parallel TLC processes / executions (VERIF_PAR overrides).
func par() int {
	if v, err := strconv.Atoi(os.Getenv("VERIF_PAR")); err == nil && v > 0 {
		return v
	}
	return 14
}

// genCase is one line of Gen_KeyTree's table.
type genCase struct {
	N      int     `json:"n"`
	Bad    string  `json:"bad"`
	At     int     `json:"at"`
	Key    int     `json:"key"`
	Accept bool    `json:"accept"`
	Root   string  `json:"root"`
	Shape  [][]int `json:"shape"`
}

var fixedSizes = []int{0, 1, 2, 63, 64, 65, 127, 128, 129, 4095, 4096, 4097, 4160}

func sizes(ctx *core.Ctx) []int {
	set := map[int]bool{}
	for _, n := range fixedSizes {
		set[n] = true
	}
	rng := ctx.Rand("sizes")
	if ctx.Thorough() {
		// 12161..12224 (2*64+63 leaves): the smallest sizes whose tail holds 65 nodes when collapse starts
		for _, n := range []int{3, 62, 66, 191, 192, 193, 8191, 8192, 8193, 8256, 12161, 12224, 12225} {
			set[n] = true
		}
		for i := 0; i < 6; i++ {
			set[130+rng.Intn(4000)] = true
		}
		for i := 0; i < 5; i++ {
			set[4200+rng.Intn(6000)] = true
		}
	} else {
		for i := 0; i < 3; i++ {
			set[130+rng.Intn(4000)] = true
		}
		set[4200+rng.Intn(1500)] = true
	}
	var out []int
	for n := range set {
		out = append(out, n)
	}
	sort.Ints(out)
	return out
}

func tlcTrace() core.TLCOpts {
	return core.TLCOpts{Dir: "tree", Module: "Trace_KeyTree", Cfg: "Trace_KeyTree.cfg", XssMB: 1024, XmxMB: 3000}
}

func run(ctx *core.Ctx) error {
	ctx.Ev.Rule = "one case = one call of nametree.Write/WriteMap or numtree.Write on a concrete key sequence, re-opened, every node extracted, " +
		"Lookup (streaming and in-memory) for every present key and every realisable absent probe, All, Size; evaluations = calls of the real API; " +
		"distinct = distinct (tree kind, API, key style, size, offending key) cases whose tree has at least two leaves (n >= 65) or whose input holds an offending key"
	ctx.Ev.Assume("TLC evaluates KeyTreeDefs.tla faithfully; RefValid/Entries/RefTreeLookup/RefKeyLess state ISO 32000-2 7.9.6/7.9.7 and the property's wording")
	ctx.Ev.Assume("the harness's extraction of node dictionaries (pdf.Resolve + type assertions on the re-opened file) and Go's encoding/json are trusted; " +
		"ranks are assigned by the harness and re-checked by TLC against RefKeyLess on the concrete key bytes")
	ctx.Ev.Assume("writer and readers use keys only through comparisons, so the exhaustive small-F model with abstract keys covers all key sets up to order isomorphism; " +
		"the fan-out constant itself (64) is only exercised on the real code and in the F=64 evaluations")

	// 1. exhaustive design models (run alongside the execution of the case table)
	mcErr := make(chan error, 1)
	go func() { mcErr <- designModels(ctx) }()
	mcDone := false
	waitMC := func() error {
		if mcDone {
			return nil
		}
		mcDone = true
		return <-mcErr
	}
	defer waitMC()

	// 2. P-C: the case table at the real fan-out
	szs := sizes(ctx)
	table, err := generate(ctx, szs)
	if err != nil {
		return err
	}

	// 3. execute every table line on the real code, in several concretisations
	type job struct {
		gc genCase
		s  spec
	}
	var jobs []job
	for gi, gc := range table {
		for _, s := range concretisations(ctx, gi, gc) {
			jobs = append(jobs, job{gc, s})
		}
	}
	obs := make([]*observation, len(jobs))
	var wg sync.WaitGroup
	sem := make(chan struct{}, par())
	var mu sync.Mutex
	var first error
	for i := range jobs {
		wg.Add(1)
		sem <- struct{}{}
		go func(i int) {
			defer wg.Done()
			defer func() { <-sem }()
			ob, err := observe(jobs[i].s)
			mu.Lock()
			defer mu.Unlock()
			if err != nil && first == nil {
				first = core.Infra("%s: %v", jobs[i].s.id(), err)
			}
			obs[i] = ob
		}(i)
	}
	wg.Wait()
	if first != nil {
		return first
	}

	var recs []record
	var kept []*observation
	var keptCase []genCase
	suspects := map[int]string{}
	unrealCases, unrealGaps, drift, realGaps := 0, 0, 0, 0
	for i, ob := range obs {
		if ob == nil {
			unrealCases++
			continue
		}
		gc := jobs[i].gc
		if why := checkTable(gc, ob); why != "" {
			suspects[len(recs)] = why
		}
		if gc.Bad == "" && gc.Root != "mem" && ob.Spec.API != "Foreign" && ob.Rec.Accepted && !reflect.DeepEqual(normShape(gc.Shape), normShape(ob.Shape)) {
			drift++
			ctx.Logf("note: %s: the tree's shape differs from the model's prediction (not demanded by the property)", ob.Spec.id())
		}
		unrealGaps += ob.Unreal
		realGaps += ob.Absent
		ctx.Ev.Eval(ob.Evals)
		if ob.Spec.N > realF || ob.Spec.Bad != "" {
			ctx.Ev.Distinct(ob.Spec.id())
		}
		recs = append(recs, ob.Rec)
		kept = append(kept, ob)
		keptCase = append(keptCase, gc)
	}
	tableCases := len(recs)

	// 3b. second shape: scripts on one in-memory tree value, edited between uses
	scripts, err := generateMem(ctx)
	if err != nil {
		return err
	}
	memObs, memRuns, memUnreal, err := runMemScripts(ctx, scripts)
	if err != nil {
		return err
	}
	for _, ob := range memObs {
		gc := genCase{N: len(ob.Written), Accept: true, Root: "mem"}
		if why := checkTable(gc, ob); why != "" {
			suspects[len(recs)] = why
		}
		ctx.Ev.Eval(ob.Evals)
		if ob.Spec.Mem.Step > 0 {
			ctx.Ev.Distinct(ob.Spec.id())
		}
		recs = append(recs, ob.Rec)
		kept = append(kept, ob)
		keptCase = append(keptCase, gc)
	}
	ctx.Ev.Set("inmemory_scripts", len(scripts))
	ctx.Ev.Set("inmemory_script_runs", memRuns)
	ctx.Ev.Set("inmemory_scripts_without_concrete_counterpart", memUnreal)
	ctx.Ev.Set("inmemory_writes_judged", len(memObs))
	ctx.Logf("in-memory scripts: %d from the model -> %d runs on one InMemory value (%d without concrete counterpart), %d writes recorded",
		len(scripts), memRuns, memUnreal, len(memObs))

	ctx.Ev.AddReplayed(len(recs))
	ctx.Ev.Set("table_lines", len(table))
	ctx.Ev.Set("cases_without_concrete_counterpart", unrealCases)
	ctx.Ev.Set("absent_probes_executed", realGaps)
	ctx.Ev.Set("gaps_without_concrete_key", unrealGaps)
	ctx.Ev.Set("shape_differs_from_model", drift)
	ctx.Ev.Set("sizes", szs)
	ctx.Logf("case table: %d lines -> %d concrete cases executed (%d without concrete counterpart), %d table suspects, %d shape differences",
		len(table), tableCases, unrealCases, len(suspects), drift)

	if err := waitMC(); err != nil {
		return err
	}

	// 4. P-D: TLC judges every record
	bad, why, err := judge(ctx, recs)
	if err != nil {
		return err
	}
	isBad := map[int]bool{}
	for _, b := range bad {
		isBad[b] = true
		if err := report(ctx, kept[b], why[b]); err != nil {
			return err
		}
	}
	for i, why := range suspects {
		if !isBad[i] {
			return core.Infra("harness and specification disagree: table mismatch (%s) for %s is accepted by Trace_KeyTree", why, recs[i].ID)
		}
	}
	sampled := map[string]bool{}
	for i, ob := range kept {
		cls := "plain"
		if ob.Spec.Bad != "" {
			cls = "offending"
		} else if ob.Spec.N > 4096 {
			cls = "deep"
		}
		if ob.Spec.Mem != nil {
			cls = "mem"
			if !sampled[cls] && ob.Spec.Mem.Step == 1 && ob.Spec.Mem.Ops[0].Op == "R" && ob.Spec.N >= 64 {
				sampled[cls] = true
				ctx.Ev.Sample(map[string]any{"kind": "edit of one in-memory value, then All/Lookup and Write(w, t.All()), judged by Trace_KeyTree", "case": ob.Spec,
					"observed": map[string]any{"accepted": ob.Rec.Accepted, "nodes": len(ob.Rec.Nodes), "keys_and_probes": len(ob.Union), "size": ob.Rec.Size}})
			}
			continue
		}
		if !sampled[cls] && (ob.Spec.N == 129 || ob.Spec.N == 4097) {
			sampled[cls] = true
			ctx.Ev.Sample(map[string]any{"kind": "case executed on the real code and judged by Trace_KeyTree", "case": ob.Spec,
				"expected": map[string]any{"accept": keptCase[i].Accept, "root": keptCase[i].Root},
				"observed": map[string]any{"accepted": ob.Rec.Accepted, "error": ob.Err, "nodes": len(ob.Rec.Nodes), "keys_and_probes": len(ob.Union), "size": ob.Rec.Size}})
		}
	}
	ctx.Ev.Exhaustive = true
	ctx.Ev.Set("exhaustive_scope", "writer state machine: all inputs (up to order isomorphism; offending key of every order type at every position) "+
		"for the small fan-outs of the MC_KeyTree configurations; at F=64: the listed sizes with every present key and every realisable gap probed")
	return nil
}

// designModels runs MC_KeyTree for the small fan-outs.
func designModels(ctx *core.Ctx) error {
	type mc struct{ module, cfg, note string }
	runs := []mc{
		{"MC_KeyTree", "MC_KeyTree_F2.cfg", "F=2 N<=16"},
		{"MC_KeyTree", "MC_KeyTree_F3.cfg", "F=3 N<=41"},
		{"MC_KeyTree", "MC_KeyTree_F4.cfg", "F=4 N<=86"},
		{"MC_KeyTree", "MC_KeyTree_gaps.cfg", "F=2 N<=11, one or two absent keys between neighbours"},
		{"KeyTreeMem", "MC_KeyTreeMem.cfg", "in-memory value: F=2, 0..5 keys, <=3 edits with uses in between"},
	}
	if ctx.Thorough() {
		runs = append(runs,
			mc{"MC_KeyTree", "MC_KeyTree_F5.cfg", "F=5 N<=157"},
			mc{"MC_KeyTree", "MC_KeyTree_F6.cfg", "F=6 N<=260"},
			mc{"MC_KeyTree", "MC_KeyTree_F8.cfg", "F=8 N<=586"},
			mc{"MC_KeyTree", "MC_KeyTree_gaps2.cfg", "F=2 N<=14, gaps"},
			mc{"MC_KeyTree", "MC_KeyTree_gaps3.cfg", "F=3 N<=14, gaps"},
			mc{"KeyTreeMem", "MC_KeyTreeMem_t.cfg", "in-memory value: F=3, up to 12 keys, <=3 edits"},
		)
	}
	var wg sync.WaitGroup
	errs := make([]error, len(runs))
	sem := make(chan struct{}, 1+par()/4)
	for i, r := range runs {
		wg.Add(1)
		sem <- struct{}{}
		go func(i int, r mc) {
			defer wg.Done()
			defer func() { <-sem }()
			_, errs[i] = ctx.MustHold(core.TLCOpts{Dir: "tree", Module: r.module, Cfg: r.cfg, Workers: 4,
				XssMB: 512, Constants: r.note, Timeout: ctx.Dur(5, 20)})
		}(i, r)
	}
	wg.Wait()
	for _, e := range errs {
		if e != nil {
			return e
		}
	}
	return nil
}

// generate runs Gen_KeyTree at F=64, sharded over parallel TLC processes.
func generate(ctx *core.Ctx, szs []int) ([]genCase, error) {
	shards := 8
	var strs []string
	for _, n := range szs {
		strs = append(strs, fmt.Sprint(n))
	}
	var all []genCase
	var mu sync.Mutex
	var wg sync.WaitGroup
	var first error
	gsem := make(chan struct{}, par())
	for sh := 0; sh < shards; sh++ {
		wg.Add(1)
		gsem <- struct{}{}
		go func(sh int) {
			defer wg.Done()
			defer func() { <-gsem }()
			cfg := fmt.Sprintf("INIT Init\nNEXT Next\nCONSTANTS F = %d\n Variant = \"asCoded\"\n Sizes = {%s}\n Shard = %d\n Shards = %d\n",
				realF, strings.Join(strs, ", "), sh, shards)
			cs, _, err := core.GenCases[genCase](ctx, core.TLCOpts{Dir: "tree", Module: "Gen_KeyTree", CfgText: cfg, Mode: "evaluate",
				XssMB: 1024, XmxMB: 3000, Timeout: ctx.Dur(5, 15), Quiet: sh > 0, Constants: "F=64"})
			mu.Lock()
			defer mu.Unlock()
			if err != nil && first == nil {
				first = err
			}
			all = append(all, cs...)
		}(sh)
	}
	wg.Wait()
	if first != nil {
		return nil, first
	}
	plain := 0
	for _, c := range all {
		if c.Bad == "" {
			plain++
		}
	}
	if plain != len(szs) {
		return nil, core.Infra("Gen_KeyTree produced %d plain cases for %d sizes", plain, len(szs))
	}
	sort.Slice(all, func(i, j int) bool {
		a, b := all[i], all[j]
		if a.N != b.N {
			return a.N < b.N
		}
		if a.At != b.At {
			return a.At < b.At
		}
		return a.Bad < b.Bad
	})
	return all, nil
}

// concretisations chooses the concrete cases for one table line.
// writer contexts, rotating over the concrete cases of a table line
var writeCtxs = []string{"", "stream", "puts", "stream+puts"}

func concretisations(ctx *core.Ctx, gi int, gc genCase) []spec {
	out := concretisations0(ctx, gi, gc)
	rot := gi + int(ctx.Seed)
	if rot < 0 {
		rot = -rot
	}
	for i := range out {
		out[i].Ctx = writeCtxs[(i+rot)%4]
	}
	// foreign trees for the same map: rendered by the harness, read by the real readers
	if gc.Bad == "" {
		fans := []int{2, 3, 5, 7}
		for v, variant := range foreignVariants {
			big := gc.N > 1000
			if big && v != rot%4 && (!ctx.Thorough() || v != (rot+1)%4) {
				continue // big maps: one variant in the quick tier, two in the thorough tier
			}
			fan := fans[(rot+v)%4]
			if big {
				fan = 16
			}
			for _, num := range []bool{false, true} {
				if big && !ctx.Thorough() && num != (rot%2 == 0) {
					continue
				}
				s := spec{Num: num, API: "Foreign", Foreign: variant, Fan: fan, N: gc.N, Seed: ctx.Seed, Per: 2}
				if num {
					s.Style = numStyles[(rot+v+1)%len(numStyles)]
				} else {
					s.Style = nameStyles[(rot+v)%4]
				}
				if big {
					s.Per = 1
					if !ctx.Thorough() {
						s.Probe = "edges"
					}
				}
				out = append(out, s)
			}
		}
	}
	return out
}

func concretisations0(ctx *core.Ctx, gi int, gc genCase) (out []spec) {
	per := 2
	if gc.N > 1000 {
		per = 1
	}
	rot := gi + int(ctx.Seed)
	if rot < 0 {
		rot = -rot
	}
	if gc.Bad != "" {
		// offending keys: Write only; two key styles per tree kind (one for big inputs in the quick tier)
		for k := 0; k < 2; k++ {
			if k == 1 && gc.N > 1000 && !ctx.Thorough() {
				break
			}
			out = append(out,
				spec{API: "Write", Style: nameStyles[(rot+k)%4], N: gc.N, Seed: ctx.Seed, Bad: gc.Bad, At: gc.At, Per: 1},
				spec{Num: true, API: "Write", Style: numStyles[(rot+k+1)%len(numStyles)], N: gc.N, Seed: ctx.Seed, Bad: gc.Bad, At: gc.At, Per: 1})
		}
		return out
	}
	big, huge := gc.N > 1000, gc.N > 5000
	for si := 0; si < 4; si++ {
		api, other := "Write", "WriteMap"
		if (si+rot)%2 == 0 {
			api, other = other, api
		}
		both, probe := true, ""
		switch {
		case big && !ctx.Thorough():
			// quick tier, big trees: two key styles per tree kind (rotating with the seed), one API
			// each; Lookup at the leaf boundaries and by sample, except for the size just above 64^2
			if si != rot%4 && si != (rot+1)%4 {
				continue
			}
			both = false
			if gc.N != realF*realF+1 {
				probe = "edges"
			}
		case huge:
			// thorough tier, more than 5000 keys: every style, one API each; one style probed completely
			both = false
			if si != rot%4 {
				probe = "edges"
			}
		}
		out = append(out, spec{API: api, Style: nameStyles[si], N: gc.N, Seed: ctx.Seed, Per: per, Probe: probe})
		if both {
			out = append(out, spec{API: other, Style: nameStyles[si], N: gc.N, Seed: ctx.Seed, Per: per, Probe: probe})
		}
		out = append(out, spec{Num: true, API: "Write", Style: numStyles[si], N: gc.N, Seed: ctx.Seed, Per: per, Probe: probe})
		if si == rot%4 {
			// keys that are all negative (every size)
			out = append(out, spec{Num: true, API: "Write", Style: "negative", N: gc.N, Seed: ctx.Seed, Per: per, Probe: probe})
		}
	}
	return out
}

func normShape(s [][]int) [][]int {
	if s == nil {
		return [][]int{}
	}
	return s
}

// checkTable compares what the real code did with the table line (reference
// expectations only; the predicted shape is handled separately).
func checkTable(gc genCase, ob *observation) string {
	rec := &ob.Rec
	if rec.Accepted != gc.Accept {
		return fmt.Sprintf("accepted=%v, expected %v", rec.Accepted, gc.Accept)
	}
	if !gc.Accept {
		return ""
	}
	if (gc.N == 0) != rec.RootNull {
		return "null reference iff empty map"
	}
	if rec.Size != gc.N || len(rec.AllK) != gc.N || len(rec.MAllK) != gc.N {
		return "number of entries"
	}
	if len(rec.LK) != len(rec.Val) || len(rec.ML) != len(rec.Val) {
		return "readers not available"
	}
	for _, e := range rec.Exits {
		want := e.K
		if gc.N < want {
			want = gc.N
		}
		if len(e.SK) != want || len(e.MK) != want || e.SP != 0 || e.MP != 0 {
			return fmt.Sprintf("early exit at %d", e.K)
		}
	}
	if len(rec.Nest.OK) != gc.N || len(rec.MNest.OK) != gc.N {
		return "enumeration with nested calls: number of entries"
	}
	for _, nr := range []nestRec{rec.Nest, rec.MNest} {
		for i, rk := range nr.LK {
			if nr.LA[i] != rec.Val[rk-1] {
				return fmt.Sprintf("nested Lookup of rank %d: %d, expected %d", rk, nr.LA[i], rec.Val[rk-1])
			}
		}
	}
	if rec.Mem {
		if len(rec.VAllK) != gc.N || len(rec.VL) != len(rec.Val) {
			return "in-memory value: number of entries"
		}
		for i, want := range rec.Val {
			if rec.VL[i] != want {
				return fmt.Sprintf("Lookup of rank %d on the in-memory value: %d, expected %d", i+1, rec.VL[i], want)
			}
		}
	}
	for i, want := range rec.Val {
		if rec.LK[i] != want && rec.LK[i] != -9 {
			return fmt.Sprintf("streaming Lookup of rank %d: %d, expected %d", i+1, rec.LK[i], want)
		}
		if rec.ML[i] != want {
			return fmt.Sprintf("in-memory Lookup of rank %d: %d, expected %d", i+1, rec.ML[i], want)
		}
	}
	return ""
}

// judge lets TLC judge the records (big ones in small batches) and returns
// the rejected indices with the failed parts of the verdict.
func judge(ctx *core.Ctx, recs []record) ([]int, map[int][]string, error) {
	var bigIdx, midIdx, smallIdx, tinyIdx []int
	for i := range recs {
		recs[i].Seq = i
		r := &recs[i]
		switch {
		case len(r.Ord) > 600 && r.Accepted:
			bigIdx = append(bigIdx, i)
		case len(r.Ord) > 600:
			midIdx = append(midIdx, i) // rejected inputs: only the order and the input are judged
		case len(r.Ord) <= 40:
			tinyIdx = append(tinyIdx, i)
		default:
			smallIdx = append(smallIdx, i)
		}
	}
	whyDir := ctx.Scratch("why")
	defer os.RemoveAll(whyDir)
	var bad []int
	for _, part := range []struct {
		idx   []int
		batch int
	}{{bigIdx, 2}, {midIdx, 12}, {smallIdx, 60}, {tinyIdx, 400}} {
		if len(part.idx) == 0 {
			continue
		}
		sub := make([]record, len(part.idx))
		for j, i := range part.idx {
			sub[j] = recs[i]
		}
		o := tlcTrace()
		o.Timeout = ctx.Dur(10, 30)
		o.Env = map[string]string{"WHY": whyDir}
		b, err := core.JudgeCases(ctx, o, sub, part.batch, par())
		if err != nil {
			return nil, nil, err
		}
		for _, j := range b {
			bad = append(bad, part.idx[j])
		}
	}
	sort.Ints(bad)
	why := map[int][]string{}
	files, _ := filepath.Glob(filepath.Join(whyDir, "why-*.ndjson"))
	for _, f := range files {
		raw, err := os.ReadFile(f)
		if err != nil {
			return nil, nil, core.Infra("reasons: %v", err)
		}
		ws, err := core.ReadNDJSON[struct {
			Seq   int      `json:"seq"`
			Parts []string `json:"parts"`
		}](raw)
		if err != nil {
			return nil, nil, core.Infra("reasons: %v", err)
		}
		for _, w := range ws {
			why[w.Seq] = w.Parts
		}
	}
	for _, b := range bad {
		if len(why[b]) == 0 {
			return nil, nil, core.Infra("Trace_KeyTree rejected %s without giving a reason", recs[b].ID)
		}
	}
	return bad, why, nil
}

// whyRejected judges one record alone and returns the failed parts.
func whyRejected(ctx *core.Ctx, rec record) ([]string, error) {
	bad, why, err := judge(ctx, []record{rec})
	if err != nil || len(bad) == 0 {
		return nil, err
	}
	return why[0], nil
}

// report turns a rejected record into a violation (or an infrastructure error
// if the rejection is about the harness itself).
func report(ctx *core.Ctx, ob *observation, parts []string) error {
	if ob.Spec.API == "Foreign" {
		// the tree itself is the harness's: a complaint about it is no verdict on go-pdf
		switch parts[0] {
		case "Valid", "TreeContent", "TreeLookup", "EmptyNoTree", "RejectsExactly":
			return core.Infra("%s: the harness's foreign tree is not what it should be: %v", ob.Rec.ID, parts)
		}
	}
	if parts[0] == "HarnessOrder" {
		return core.Infra("%s: the harness's key order disagrees with RefKeyLess", ob.Rec.ID)
	}
	s := ob.Spec
	class := "root-leaf"
	switch {
	case s.N == 0:
		class = "empty"
	case s.N >= realF*realF:
		class = "three-levels"
	case s.N > realF:
		class = "two-levels"
	case s.N == realF:
		class = "single-full-leaf"
	}
	if s.Bad != "" {
		class = "offending-" + s.Bad
	}
	if s.Mem != nil {
		class = "after-edits-"
		for i := 0; i < s.Mem.Step && i < len(s.Mem.Ops); i++ {
			class += s.Mem.Ops[i].Op
		}
		if s.Mem.Step == 0 {
			class = "first-use"
		}
	}
	if s.Foreign != "" {
		class = "foreign-" + s.Foreign
	}
	if strings.Contains(s.Ctx, "stream") {
		class += "/stream-open"
	}
	key := fmt.Sprintf("%s/%s/%s/%s", s.kind(), s.API, class, parts[0])
	what := fmt.Sprintf("%s: the real tree / answers are rejected by the reference semantics (Trace_KeyTree): %s%s",
		s.id(), strings.Join(parts, ", "), describe(ob))
	ctx.Violation(key, what, s)
	return nil
}

// describe adds the first concrete discrepancy (diagnostics only).
func describe(ob *observation) string {
	rec := &ob.Rec
	if !rec.Accepted {
		return fmt.Sprintf("; call failed with %q", ob.Err)
	}
	if rec.Mem {
		for i, want := range rec.Val {
			if i < len(rec.VL) && rec.VL[i] != want {
				return fmt.Sprintf("; e.g. Lookup(%s) on the in-memory value = %d, map holds %d (-1 = not found)", ob.Union[i], rec.VL[i], want)
			}
		}
		for _, rk := range rec.VAllK {
			if rec.Val[rk-1] < 0 {
				return fmt.Sprintf("; e.g. All() of the in-memory value yields %s, which is not in the map", ob.Union[rk-1])
			}
		}
	}
	for i, want := range rec.Val {
		if i < len(rec.LK) && rec.LK[i] != want && rec.LK[i] != -9 {
			return fmt.Sprintf("; e.g. streaming Lookup(%s) = %d, written %d (-1 = not found)", ob.Union[i], rec.LK[i], want)
		}
		if i < len(rec.ML) && rec.ML[i] != want {
			return fmt.Sprintf("; e.g. in-memory Lookup(%s) = %d, written %d (-1 = not found)", ob.Union[i], rec.ML[i], want)
		}
	}
	if rec.Accepted && len(rec.Nest.OK) != len(rec.AllK) {
		return fmt.Sprintf("; e.g. streaming All() yields %d of %d entries when its consumer calls Lookup / All on the same reader", len(rec.Nest.OK), len(rec.AllK))
	}
	for _, e := range rec.Exits {
		if e.SP != 0 || e.MP != 0 {
			return fmt.Sprintf("; e.g. a range loop over All() that breaks at its %d. iteration panics", e.K)
		}
		if len(e.SK) > e.K {
			return fmt.Sprintf("; e.g. streaming All(): the consumer stopped at its %d. entry and was called again with %s", e.K, ob.Union[e.SK[e.K]-1])
		}
		if len(e.MK) > e.K {
			return fmt.Sprintf("; e.g. in-memory All(): the consumer stopped at its %d. entry and was called again with %s", e.K, ob.Union[e.MK[e.K]-1])
		}
	}
	for i, nd := range rec.Nodes {
		if nd.K == "bad" {
			return fmt.Sprintf("; e.g. node %d is malformed", i+1)
		}
		if len(nd.L) == 2 && len(nd.E) > 0 && (nd.L[0] != nd.E[0] || nd.L[1] != nd.E[len(nd.E)-1]) {
			return fmt.Sprintf("; e.g. leaf %d has /Limits [%s %s] but keys %s .. %s", i+1, ob.Union[nd.L[0]-1], ob.Union[nd.L[1]-1],
				ob.Union[nd.E[0]-1], ob.Union[nd.E[len(nd.E)-1]-1])
		}
		if len(nd.C) > realF || len(nd.E) > realF {
			return fmt.Sprintf("; e.g. node %d has %d kids / %d entries", i+1, len(nd.C), len(nd.E))
		}
	}
	return ""
}

func replay(ctx *core.Ctx, raw json.RawMessage) error {
	var s spec
	if err := json.Unmarshal(raw, &s); err != nil {
		return core.Infra("replay: %v", err)
	}
	if s.Mem != nil {
		obs, err := observeMem(s, nil)
		if err != nil {
			return core.Infra("replay %s: %v", s.id(), err)
		}
		if obs == nil {
			return core.Infra("replay %s: script has no concrete counterpart", s.id())
		}
		var recs []record
		for _, ob := range obs {
			fmt.Printf("  %s: accepted=%v nodes=%d keys+probes=%d size=%d\n", ob.Spec.id(), ob.Rec.Accepted, len(ob.Rec.Nodes), len(ob.Union), ob.Rec.Size)
			recs = append(recs, ob.Rec)
		}
		bad, why, err := judge(ctx, recs)
		if err != nil {
			return err
		}
		for _, b := range bad {
			if err := report(ctx, obs[b], why[b]); err != nil {
				return err
			}
		}
		return nil
	}
	ob, err := observe(s)
	if err != nil {
		return core.Infra("replay %s: %v", s.id(), err)
	}
	if ob == nil {
		return core.Infra("replay %s: case has no concrete counterpart", s.id())
	}
	fmt.Printf("  %s: accepted=%v root=%s nodes=%d keys+probes=%d size=%d\n", s.id(), ob.Rec.Accepted, ob.RootKind, len(ob.Rec.Nodes), len(ob.Union), ob.Rec.Size)
	bad, why, err := judge(ctx, []record{ob.Rec})
	if err != nil {
		return err
	}
	if len(bad) > 0 {
		return report(ctx, ob, why[0])
	}
	return nil
}

// generateMem runs Gen_KeyTreeMem: every enabled edit sequence on small initial
// maps (two edits; thorough: also around the leaf size) and single edits on
// maps around one and two leaves, with the map expected after every edit.
func generateMem(ctx *core.Ctx) ([]memScript, error) {
	type gen struct {
		sizes string
		steps int
	}
	gens := []gen{{"{2, 3}", 2}, {"{0, 1, 64, 65, 129}", 1}}
	if ctx.Thorough() {
		gens = []gen{{"{1, 2, 3, 64, 65}", 2}, {"{0, 4, 63, 128, 129, 4096, 4097}", 1}, {"{2}", 3}}
	}
	var all []memScript
	seen := map[string]bool{}
	for _, g := range gens {
		cfg := fmt.Sprintf("INIT GInit\nNEXT GNext\nCONSTANTS F = %d\n Variant = \"asCoded\"\n Sizes = %s\n MaxSteps = %d\n Sel = {\"lo\", \"mid\", \"hi\"}\n",
			realF, g.sizes, g.steps)
		cs, _, err := core.GenCases[memScript](ctx, core.TLCOpts{Dir: "tree", Module: "Gen_KeyTreeMem", CfgText: cfg, Mode: "evaluate",
			XssMB: 512, XmxMB: 3000, Timeout: ctx.Dur(5, 15), Constants: "Sizes=" + g.sizes + fmt.Sprintf(" MaxSteps=%d", g.steps)})
		if err != nil {
			return nil, err
		}
		for _, c := range cs {
			// selectors that pick the same keys give the same script: keep one
			key := fmt.Sprint(c.N)
			for i, o := range c.Ops {
				key += fmt.Sprintf("|%s%v%v", o.Op, c.After[i].Keys, c.After[i].Vals)
			}
			if !seen[key] && len(c.Ops) == len(c.After) {
				seen[key] = true
				all = append(all, c)
			}
		}
	}
	if len(all) == 0 {
		return nil, core.Infra("Gen_KeyTreeMem produced no scripts")
	}
	sort.SliceStable(all, func(i, j int) bool { return all[i].N < all[j].N })
	return all, nil
}

// runMemScripts replays the scripts on real InMemory values.
func runMemScripts(ctx *core.Ctx, scripts []memScript) (obs []*observation, runs, unreal int, err error) {
	type job struct {
		s   spec
		exp *memScript
	}
	var jobs []job
	var alts [][]string
	memNum := []string{"random", "extremes", "sparse", "dense"}
	for i := range scripts {
		sc := &scripts[i]
		rot := i + int(ctx.Seed)
		if rot < 0 {
			rot = -rot
		}
		for v := 0; v < 4; v++ {
			// every script: name and integer keys, first use All and Write; the source of the
			// value and the key style rotate.  Big maps: two of the four variants.
			if sc.N > 1000 && v != rot%4 && v != (rot+2)%4 {
				continue
			}
			if sc.N >= 64 && len(sc.Ops) >= 2 && v != rot%4 && v != (rot+1)%4 {
				continue // two-edit scripts on maps of a leaf or more: two variants (one per first use)
			}
			if !ctx.Thorough() && sc.N < 64 && v != rot%4 && v != (rot+1)%4 {
				continue // quick tier: small maps get two variants (one per first use), the tree kind alternates
			}
			pre := []string{"all", "write"}[v%2]
			if (rot+v)%7 == 6 {
				pre = []string{"lookup", "none"}[v%2]
			}
			src := []string{"literal", "extracted"}[(rot+v/2)%2]
			s := spec{Num: (v/2+rot/4)%2 == 1, N: sc.N, Seed: ctx.Seed, Per: 2, Mem: &memSpec{Source: src, Pre: pre, Ops: sc.Ops}}
			if sc.N > 1000 {
				s.Per, s.Probe = 1, "edges"
			}
			s.Ctx = writeCtxs[(rot+v+i/4)%4]
			// key styles in rotating order; the first one in which the script is realisable is used
			// (no key exists below the empty name / MinInt64 or between consecutive integers)
			var styles []string
			for k := 0; k < 4; k++ {
				if s.Num {
					styles = append(styles, memNum[(rot+v+k)%4])
				} else {
					styles = append(styles, nameStyles[(rot+v+k)%4])
				}
			}
			s.Style = styles[0]
			alts = append(alts, styles[1:])
			jobs = append(jobs, job{s, sc})
		}
	}
	res := make([][]*observation, len(jobs))
	var wg sync.WaitGroup
	var mu sync.Mutex
	sem := make(chan struct{}, par())
	for i := range jobs {
		wg.Add(1)
		sem <- struct{}{}
		go func(i int) {
			defer wg.Done()
			defer func() { <-sem }()
			o, e := observeMem(jobs[i].s, jobs[i].exp)
			for _, st := range alts[i] {
				if o != nil || e != nil {
					break
				}
				jobs[i].s.Style = st
				o, e = observeMem(jobs[i].s, jobs[i].exp)
			}
			mu.Lock()
			defer mu.Unlock()
			if e != nil && err == nil {
				err = core.Infra("%s: %v", jobs[i].s.id(), e)
			}
			res[i] = o
		}(i)
	}
	wg.Wait()
	if err != nil {
		return nil, 0, 0, err
	}
	for _, o := range res {
		if o == nil {
			unreal++
			continue
		}
		runs++
		obs = append(obs, o...)
	}
	return obs, runs, unreal, nil
}
