package c17

import (
	"bytes"
	"cmp"
	"fmt"
	"sort"
	"strings"

	"seehuhn.de/go/pdf"
)

// Second shape of C17 (spec/tree/KeyTreeMem.tla): ONE in-memory tree value
// (nametree.InMemory / numtree.InMemory) whose exported Data map is edited
// between uses.  After every edit the value is read (All, Lookup) and a tree
// is written from it (Write(w, t.All())) into a fresh file, which is judged
// like any other case; the map at the time of the write is the oracle.

// memOp is one edit of KeyTreeMem!Ops.
type memOp struct {
	Op  string `json:"op"`  // "R" replace a key, "V" change a value, "A" add, "D" remove
	Del string `json:"del"` // selector of the present key: "lo", "mid", "hi"
	Add string `json:"add"` // selector of the absent key
}

// memSpec is the multi-step part of a spec.
type memSpec struct {
	Source string  `json:"source"` // "literal": &InMemory{Data: m};  "extracted": ExtractInMemory of a written tree
	Pre    string  `json:"pre"`    // first use, before the edits: "all", "write", "lookup", "none"
	Ops    []memOp `json:"ops"`
	// Step is set by the driver in the copy attached to each observation: the
	// number of edits applied when the tree was written (0: the first use)
	Step int `json:"step"`
}

func (m *memSpec) String() string {
	var parts []string
	for _, o := range m.Ops {
		p := o.Op
		if o.Del != "-" && o.Del != "" {
			p += "-" + o.Del
		}
		if o.Add != "-" && o.Add != "" {
			p += "+" + o.Add
		}
		parts = append(parts, p)
	}
	return fmt.Sprintf("mem:%s/%s/%s@%d", m.Source, m.Pre, strings.Join(parts, ","), m.Step)
}

// memScript is one line of Gen_KeyTreeMem's table.
type memScript struct {
	N     int     `json:"n"`
	Ops   []memOp `json:"ops"`
	After []struct {
		Keys []int `json:"keys"`
		Vals []int `json:"vals"`
	} `json:"after"`
}

// directValue: values of in-memory cases are direct objects (the value lives
// across several files); value id 0 is the null object.
func directValue(vid int) pdf.Object { return valueObj(vid, nil, nil) }

// observeMem replays a script; one observation per write (the first use, if
// it is a write, and one after every edit).  exp may be nil (replay).
// Returns nil observations if the script has no concrete counterpart for the
// key style (no key exists where one is to be inserted).
func observeMem(s spec, exp *memScript) ([]*observation, error) {
	if s.Num {
		return observeMemK(s, numAPI, exp)
	}
	return observeMemK(s, nameAPI, exp)
}

func observeMemK[K cmp.Ordered](s spec, api treeAPI[K], exp *memScript) ([]*observation, error) {
	ms := s.Mem
	rng := caseRand(s.Seed, fmt.Sprintf("mem/%s/%s/%d", s.kind(), s.Style, s.N))
	keys := genKeys(s.Num, s.Style, s.N, rng)
	oracle := map[ckey]int{} // the harness's own copy of the map: key -> value id
	for i, k := range keys {
		oracle[k] = i // KeyTreeMem!InitMap: the least key carries the null object
	}
	sorted := func() []ckey {
		ks := make([]ckey, 0, len(oracle))
		for k := range oracle {
			ks = append(ks, k)
		}
		sort.Slice(ks, func(i, j int) bool { return less(ks[i], ks[j]) })
		return ks
	}

	// --- the in-memory value
	var t reader[K]
	var data func() map[K]pdf.Object
	source := ms.Source
	if source == "extracted" && len(keys) == 0 {
		source = "literal" // ExtractInMemory of "no tree" is the nil value
	}
	switch source {
	case "extracted":
		var buf bytes.Buffer
		w, err := pdf.NewWriter(&buf, pdf.V2_0, nil)
		if err != nil {
			return nil, err
		}
		pageRef, pagesRef := w.Alloc(), w.Alloc()
		_ = w.Put(pageRef, pdf.Dict{"Type": pdf.Name("Page"), "Parent": pagesRef, "Resources": pdf.Dict{},
			"MediaBox": pdf.Array{pdf.Integer(0), pdf.Integer(0), pdf.Integer(100), pdf.Integer(100)}})
		_ = w.Put(pagesRef, pdf.Dict{"Type": pdf.Name("Pages"), "Kids": pdf.Array{pageRef}, "Count": pdf.Integer(1)})
		w.GetMeta().Catalog.Pages = pagesRef
		root, err := api.write(w, func(yield func(K, pdf.Object) bool) {
			for _, k := range keys {
				if !yield(api.toK(k), directValue(oracle[k])) {
					return
				}
			}
		})
		if err != nil {
			return nil, fmt.Errorf("initial tree: %v", err)
		}
		if err := w.Close(); err != nil {
			return nil, err
		}
		b := buf.Bytes()
		r, err := pdf.NewReader(bytes.NewReader(b), int64(len(b)), nil)
		if err != nil {
			return nil, err
		}
		defer r.Close()
		t, data, err = api.extractMem(r, root)
		if err != nil || t == nil {
			return nil, fmt.Errorf("ExtractInMemory of the initial tree: %v", err)
		}
	default:
		m := make(map[K]pdf.Object, len(keys))
		for _, k := range keys {
			m[api.toK(k)] = directValue(oracle[k])
		}
		t, data = api.newMem(m)
	}

	var out []*observation
	write := func(step int) error {
		cur := sorted()
		vids := make(map[ckey]int, len(cur))
		for _, k := range cur {
			vids[k] = oracle[k]
		}
		per := s.Per
		if per == 0 {
			per = 2
		}
		probes, gapOf, unreal := absentProbes(s.Num, cur, per)
		ss := s
		m2 := *ms
		m2.Step = step
		ss.Mem = &m2
		ss.API = "InMemory"
		ob, err := examine(ss, api, caseInput{written: cur, vids: vids, probes: probes, gapOf: gapOf, unreal: unreal}, t)
		if err != nil {
			return err
		}
		out = append(out, ob)
		return nil
	}

	// --- first use
	switch ms.Pre {
	case "all":
		for range t.All() {
		}
	case "lookup":
		if len(keys) > 0 {
			_, _ = t.Lookup(api.toK(keys[0]))
		}
	case "write":
		if err := write(0); err != nil {
			return nil, err
		}
	}

	// --- edits; after each one the value is read and written
	abs := map[int]ckey{} // abstract key of the table -> concrete key
	for i, k := range keys {
		abs[8*(i+1)] = k
	}
	for i, o := range ms.Ops {
		cur := sorted()
		var k1, k2 ckey
		if o.Op == "R" || o.Op == "V" || o.Op == "D" {
			if len(cur) == 0 {
				return nil, nil
			}
			switch o.Del {
			case "lo":
				k1 = cur[0]
			case "hi":
				k1 = cur[len(cur)-1]
			default:
				k1 = cur[(len(cur)+1)/2-1]
			}
		}
		if o.Op == "R" || o.Op == "A" {
			var c []ckey
			j := (len(cur) + 1) / 2 // 1-based index of the left middle neighbour
			switch {
			case len(cur) == 0:
				c = genKeys(s.Num, s.Style, 1, rng)
			case o.Add == "lo":
				c = between(s.Num, nil, &cur[0])
			case o.Add == "hi" || len(cur) < 2:
				c = between(s.Num, &cur[len(cur)-1], nil)
			default:
				c = between(s.Num, &cur[j-1], &cur[j])
			}
			if len(c) == 0 {
				return nil, nil // no key exists there (dense integers, below the empty name)
			}
			k2 = c[(i+len(cur))%len(c)]
		}
		if o.Op == "R" || o.Op == "D" {
			for a, k := range abs {
				if k == k1 {
					delete(abs, a)
				}
			}
		}
		m := data()
		switch o.Op {
		case "R": // delete one key and insert another: the size of the map is unchanged
			delete(m, api.toK(k1))
			delete(oracle, k1)
			m[api.toK(k2)] = directValue(3)
			oracle[k2] = 3
		case "V":
			oracle[k1]++
			m[api.toK(k1)] = directValue(oracle[k1])
		case "A":
			m[api.toK(k2)] = directValue(3)
			oracle[k2] = 3
		case "D":
			delete(m, api.toK(k1))
			delete(oracle, k1)
		default:
			return nil, fmt.Errorf("unknown edit %q", o.Op)
		}
		// the table's expectation (reference semantics) against the harness's own map
		if exp != nil && i < len(exp.After) {
			want := exp.After[i]
			now := sorted()
			if len(want.Keys) != len(now) {
				return nil, fmt.Errorf("script %s: table expects %d keys after edit %d, harness has %d", ms, len(want.Keys), i+1, len(now))
			}
			for _, a := range want.Keys {
				if _, known := abs[a]; !known {
					abs[a] = k2
				}
			}
			for j, a := range want.Keys {
				if abs[a] != now[j] || want.Vals[j] != oracle[now[j]] {
					return nil, fmt.Errorf("script %s: table and harness disagree about the map after edit %d (position %d)", ms, i+1, j+1)
				}
			}
		}
		if err := write(i + 1); err != nil {
			return nil, err
		}
	}
	return out, nil
}
