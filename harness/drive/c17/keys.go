package c17

import (
	"bytes"
	"crypto/sha256"
	"encoding/binary"
	"fmt"
	"math"
	"math/rand"
	"sort"
)

// ckey is a concrete key: the bytes of a name, or an integer.
type ckey struct {
	num bool
	b   string
	i   int64
}

func nameKey(b []byte) ckey { return ckey{b: string(b)} }
func numKey(i int64) ckey   { return ckey{num: true, i: i} }

// less is the harness's reading of the reference order (7.9.6: names sorted
// bytewise, a proper prefix first; 7.9.7: integers numerically).  TLC
// re-checks the resulting sequence with RefKeyLess.
func less(a, b ckey) bool {
	if a.num {
		return a.i < b.i
	}
	return bytes.Compare([]byte(a.b), []byte(b.b)) < 0
}

// ordBytes is the representation of a key given to TLC: the bytes of a name;
// for an integer its 8 bytes, big-endian, offset by 2^63 (order preserving).
func ordBytes(k ckey) []int {
	var raw []byte
	if k.num {
		raw = make([]byte, 8)
		binary.BigEndian.PutUint64(raw, uint64(k.i)^(1<<63))
	} else {
		raw = []byte(k.b)
	}
	out := make([]int, len(raw))
	for i, x := range raw {
		out[i] = int(x)
	}
	return out
}

func (k ckey) String() string {
	if k.num {
		return fmt.Sprint(k.i)
	}
	return fmt.Sprintf("%q", k.b)
}

func caseRand(seed int64, label string) *rand.Rand {
	h := sha256.Sum256([]byte(fmt.Sprintf("c17/%d/%s", seed, label)))
	return rand.New(rand.NewSource(int64(binary.BigEndian.Uint64(h[:8]))))
}

var nameStyles = []string{"prefix", "random", "plain", "longprefix"}
var numStyles = []string{"dense", "random", "extremes", "sparse", "negative"}

// bytes that stress the string syntax (delimiters, escapes, line ends) and the order
var nastyBytes = []byte{0x00, 0x01, 0x0a, 0x0d, 0x20, '(', ')', '\\', '/', '#', '<', '>', 'A', 'a', 0x7f, 0x80, 0xc3, 0xa9, 0xfe, 0xff}

// genKeys returns n distinct keys in ascending order.
func genKeys(num bool, style string, n int, rng *rand.Rand) []ckey {
	set := map[ckey]bool{}
	var keys []ckey
	add := func(k ckey) {
		if len(keys) < n && !set[k] {
			set[k] = true
			keys = append(keys, k)
		}
	}
	if !num {
		switch style {
		case "prefix":
			// all strings over a small alphabet in short-lex order: a prefix
			// closed set starting with the empty name; embedded NUL, bytes >= 0x80
			alpha := []byte{0x00, 'a', 0x80, 0xff}
			level := [][]byte{{}}
			for len(keys) < n {
				var next [][]byte
				for _, s := range level {
					add(nameKey(s))
					for _, c := range alpha {
						next = append(next, append(append([]byte{}, s...), c))
					}
				}
				level = next
			}
		case "random":
			add(nameKey(nil))
			for len(keys) < n {
				l := rng.Intn(7)
				if n > 50000 {
					l = 2 + rng.Intn(8)
				}
				s := make([]byte, l)
				for i := range s {
					if rng.Intn(5) == 0 {
						s[i] = byte(rng.Intn(256))
					} else {
						s[i] = nastyBytes[rng.Intn(len(nastyBytes))]
					}
				}
				add(nameKey(s))
				if len(s) > 0 && rng.Intn(3) == 0 {
					add(nameKey(s[:len(s)-1])) // a proper prefix
				}
			}
		case "plain":
			for i := 0; len(keys) < n; i++ {
				add(nameKey([]byte(fmt.Sprintf("key%06d", i))))
			}
		default: // longprefix: 60 common bytes, then two varying bytes of any value
			pre := bytes.Repeat([]byte{0xc3, 0xa9, 'x', 0x00, 0xff}, 12)
			for len(keys) < n {
				s := append(append([]byte{}, pre...), byte(rng.Intn(256)), byte(rng.Intn(256)))
				if rng.Intn(4) == 0 {
					s = s[:len(s)-1]
				}
				add(nameKey(s))
			}
		}
	} else {
		switch style {
		case "dense": // consecutive integers around 0: no absent key between neighbours
			for i := 0; len(keys) < n; i++ {
				add(numKey(int64(i - n/2)))
			}
		case "random":
			for _, x := range []int64{math.MinInt64, math.MaxInt64, 0, -1, 1, math.MinInt64 + 1, math.MaxInt64 - 1, math.MinInt32, math.MaxInt32 + 1} {
				add(numKey(x))
			}
			for len(keys) < n {
				add(numKey(int64(rng.Uint64())))
			}
		case "negative": // every key below zero (the zero value of the key type is above all of them), step 2
			for i := 0; len(keys) < n; i++ {
				add(numKey(int64(-1 - 2*i)))
			}
		case "extremes": // clustered at both ends of the int64 range, step 2
			for i := 0; len(keys) < n; i++ {
				add(numKey(math.MinInt64 + int64(2*i)))
				add(numKey(math.MaxInt64 - int64(2*i)))
			}
		default: // sparse: multiples of 3 and powers of two, both signs
			for i := 0; len(keys) < n; i++ {
				add(numKey(int64(3*i) - int64(3*(n/2))))
				if i < 62 {
					add(numKey(int64(1) << uint(i+1)))
					add(numKey(-(int64(1) << uint(i+1))))
				}
			}
		}
	}
	sort.Slice(keys, func(i, j int) bool { return less(keys[i], keys[j]) })
	return keys
}

// between returns up to two keys strictly between lo and hi (nil bound = open
// end), adversarially close to the bounds; none if no such key exists.
func between(num bool, lo, hi *ckey) []ckey {
	var cands []ckey
	if num {
		if lo != nil && lo.i < math.MaxInt64 {
			cands = append(cands, numKey(lo.i+1))
		}
		if hi != nil && hi.i > math.MinInt64 {
			cands = append(cands, numKey(hi.i-1))
		}
		if lo == nil {
			cands = append(cands, numKey(math.MinInt64))
		}
		if hi == nil {
			cands = append(cands, numKey(math.MaxInt64))
		}
	} else {
		if lo != nil {
			cands = append(cands, nameKey(append([]byte(lo.b), 0x00))) // the immediate successor
		} else {
			cands = append(cands, nameKey(nil))
		}
		if hi != nil && len(hi.b) > 0 {
			h := []byte(hi.b)
			if last := h[len(h)-1]; last > 0 {
				// just below hi: last byte decremented, followed by 0xff 0xff
				cands = append(cands, nameKey(append(append(append([]byte{}, h[:len(h)-1]...), last-1), 0xff, 0xff)))
			}
			cands = append(cands, nameKey(h[:len(h)-1])) // a proper prefix of hi
		}
		if hi == nil && lo != nil {
			cands = append(cands, nameKey(bytes.Repeat([]byte{0xff}, len(lo.b)+1)))
		}
	}
	var out []ckey
	for _, c := range cands {
		if (lo == nil || less(*lo, c)) && (hi == nil || less(c, *hi)) {
			dup := false
			for _, o := range out {
				dup = dup || o == c
			}
			if !dup {
				out = append(out, c)
			}
		}
	}
	if len(out) > 2 {
		out = []ckey{out[0], out[len(out)-1]}
	}
	return out
}

// absentProbes realises the model's absent probes for the sorted keys w: below
// the least key, above the greatest, between every pair of neighbours.  per = 1
// or 2 probes per gap; gapOf[i] is the gap of probes[i] (g = number of keys
// below).  unreal counts the gaps in which no key exists.
func absentProbes(num bool, w []ckey, per int) (probes []ckey, gapOf []int, unreal int) {
	if len(w) == 0 {
		if num {
			return []ckey{numKey(0), numKey(math.MinInt64), numKey(math.MaxInt64), numKey(-7)}, []int{0, 0, 0, 0}, 0
		}
		return []ckey{nameKey(nil), nameKey([]byte("a")), nameKey([]byte{0}), nameKey([]byte{0xff, 0xff})}, []int{0, 0, 0, 0}, 0
	}
	for g := 0; g <= len(w); g++ {
		var lo, hi *ckey
		if g > 0 {
			lo = &w[g-1]
		}
		if g < len(w) {
			hi = &w[g]
		}
		c := between(num, lo, hi)
		if len(c) == 0 {
			unreal++
			continue
		}
		if per == 1 && len(c) > 1 {
			c = c[g%2 : g%2+1]
		}
		for _, k := range c {
			probes = append(probes, k)
			gapOf = append(gapOf, g)
		}
	}
	return probes, gapOf, unreal
}
