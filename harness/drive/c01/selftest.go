package c01

import (
	"os"
	"path/filepath"
	"strings"

	"verif/harness/core"
)

// selfTest: the machinery must notice (i) corrupted records, (ii) seeded
// defects of the formatter in the design model, (iii) a wrong table line.
func selfTest(ctx *core.Ctx) error {
	// (i) real records, two of them corrupted
	col := newCollector(ctx)
	seqs := [][]Val{
		{vStr([]byte("a(b\r\n)c\\")), vInt(-12), vName([]byte("A#B 1"))},
		{vArr(vInt(1), vInt(2), vRef(3, 0)), vDict(map[string]Val{"K": vStr([]byte{0, 128}), "L1": vNull()})},
		{vName([]byte("N1")), vInt(2)},
		{vRealF(1.5), vRealF(-0.25)},
		{vStr([]byte("x)y"))},
	}
	for i, s := range seqs {
		col.execFmt(&fmtCase{Origin: "selftest", Vals: s, Want: NormSeq(s)}, core.Fmt("s%d", i), i%2)
	}
	if len(col.recs) != len(seqs) {
		return core.Infra("self-test: expected %d clean records, got %d (a round trip failed?)", len(seqs), len(col.recs))
	}
	recs := col.recs
	// record 1: one byte of the output changed ("1 2 3 0 R" -> "1 2 3 0 T")
	b := recs[1].Bytes
	for i := range b {
		if b[i] == 'R' {
			b[i] = 'T'
		}
	}
	// record 2: the value claims another integer
	recs[2].Vals = []Val{vName([]byte("N1")), vInt(3)}
	// record 4: string content differs by an escaped parenthesis
	recs[4].Vals = []Val{vStr([]byte("x(y"))}
	bad, err := core.JudgeCases(ctx, traceOpts(ctx), recs, 10, 1)
	if err != nil {
		return err
	}
	if len(bad) != 3 || bad[0] != 1 || bad[1] != 2 || bad[2] != 4 {
		return core.Infra("self-test: corrupted records not singled out: %v", bad)
	}
	ctx.Logf("self-test (i): the three corrupted records are rejected, the intact ones accepted")

	// (ii) seeded defects of the formatter must break the design model
	base, err := os.ReadFile(filepath.Join(ctx.SpecDir("syntax"), "MC_PdfSyntax_q.cfg"))
	if err != nil {
		return core.Infra("self-test: %v", err)
	}
	for _, m := range []string{"crUnescaped", "noSepAfterName", "hashUnescaped", "backslashUnescaped", "nildict"} {
		cfg := strings.Replace(string(base), `Mutation = "none"`, `Mutation = "`+m+`"`, 1)
		if m == "nildict" { // the formatter before the repair of the nil Dict case
			cfg = strings.Replace(string(base), `NilDictIsNull = TRUE`, `NilDictIsNull = FALSE`, 1)
		}
		if cfg == string(base) {
			return core.Infra("self-test: cannot derive the %s configuration", m)
		}
		o := core.TLCOpts{Dir: "syntax", Module: "MC_PdfSyntax", CfgText: cfg, Workers: 8, Mode: "negative-control", XssMB: 512, Quiet: true}
		if m == "nildict" {
			o.CfgText, o.Cfg = "", "MC_PdfSyntax_nildict_ascoded.cfg"
		}
		res, err := ctx.TLC(o)
		if err != nil {
			return err
		}
		if res.Invariant != "RoundTrip" && res.Invariant != "Separable" {
			return core.Infra("self-test: the model with defect %q should violate RoundTrip, got %q", m, res.Invariant)
		}
		ctx.Logf("self-test (ii): seeded defect %s violates %s in the design model", m, res.Invariant)
	}

	// (iii) a wrong expectation in a table line is noticed and TLC blames neither side
	col = newCollector(ctx)
	wrong := &fmtCase{Origin: "selftest", Vals: []Val{vInt(1), vInt(2)}, Want: []Val{vInt(1), vInt(3)}, RealText: true}
	col.execFmt(wrong, "w", 0)
	if len(col.recs) != 2 || !col.recs[0].suspect {
		return core.Infra("self-test: wrong table expectation not noticed")
	}
	bad, err = core.JudgeCases(ctx, traceOpts(ctx), col.recs, 10, 1)
	if err != nil {
		return err
	}
	if len(bad) != 0 {
		return core.Infra("self-test: records of a correct execution rejected: %v", bad)
	}
	ctx.Logf("self-test (iii): wrong table expectation noticed by the harness, and not blamed on the code by TLC")
	return nil
}
