// Package c01 binds spec/syntax/PdfSyntax.tla to pdf.Format and the object
// scanner of go-pdf.
//
//	design  MC_PdfSyntax: ImplFmt (types.go) followed by RefScan (ISO 32000)
//	        is the identity on the bounded value space; Render is sound
//	P-C     Gen_PdfSyntax -> the same value space, executed on the real code
//	        under all 32 option sets: pdf.Format -> VerifParseObjects ->
//	        must equal Norm(v); twice the same bytes; ParseString/ParseName.
//	        Conforming renderings (Render) -> real scanner -> must give v.
//	P-B     the real bytes of every case and of seeded random values are
//	        judged by TLC: RefScan(bytes) = Norm(value) (Trace_PdfSyntax).
//
// A mismatch seen by the Go comparison is never reported by itself: the
// bytes written and the value read by the real code become records, and TLC
// decides with the reference scanner which side broke the property.
package c01

import (
	"bytes"
	"encoding/json"
	"fmt"
	"os"
	"sort"
	"strconv"
	"strings"
	"sync"
	"sync/atomic"

	"seehuhn.de/go/pdf"

	"verif/harness/core"
)

var Driver = core.Driver{ID: "C01", Level: "model_checking", Run: run, Replay: replay, SelfTest: selfTest}

// the five public output options
var optTable = []struct {
	Name string
	Opt  pdf.OutputOptions
}{
	{"Pretty", pdf.OptPretty},
	{"ContentStream", pdf.OptContentStream},
	{"DictTypes", pdf.OptDictTypes},
	{"TextStringUtf8", pdf.OptTextStringUtf8},
	{"TrimStandardFonts", pdf.OptTrimStandardFonts},
}

const nOptSets = 32

// maxReports bounds the number of distinct violation classes listed per run.
const maxReports = 10

func optSet(bits int) (pdf.OutputOptions, []string) {
	var o pdf.OutputOptions
	names := []string{}
	for i, e := range optTable {
		if bits&(1<<i) != 0 {
			o |= e.Opt
			names = append(names, e.Name)
		}
	}
	return o, names
}

// a line of Gen_PdfSyntax
type genCase struct {
	ID    int    `json:"id"`
	Kind  string `json:"kind"`
	Vals  []Val  `json:"vals"`
	Norm  []Val  `json:"norm"`
	Bytes []int  `json:"bytes"`
}

// a record for Trace_PdfSyntax
type record struct {
	Side   string   `json:"side"`
	Bytes  []int    `json:"bytes"`
	Bytes2 []int    `json:"bytes2,omitempty"`
	Vals   []Val    `json:"vals"`
	Err    bool     `json:"err,omitempty"`
	FmtErr bool     `json:"fmterr,omitempty"`
	Opts   []string `json:"opts"`
	Origin string   `json:"origin"`

	// not seen by TLC
	optBits  int
	want     []Val
	got      []Val
	errText  string
	suspect  bool  // the Go comparison saw a mismatch on this execution
	realOnly bool  // the value has reals whose digits TLC does not see
	src      []Val // the values handed to pdf.Format (scan records of formatter output)
	pair     int64 // records of the same execution share this number
}

// fmtCase is one sequence of values to be formatted.
type fmtCase struct {
	Origin   string
	Vals     []Val
	Want     []Val // Norm(Vals), from the specification (Gen) or from Norm
	RealText bool  // reals carry their decimal text
	// MayFail: the case lies outside a documented size limit, an error of
	// the scanner is acceptable (but a wrong value is not)
	MayFail bool
	// Single: parse with VerifReadObject instead of VerifParseObjects
	// (saves the one nesting level of the wrapper)
	Single bool
	NoTLC  bool // too big for TLC: decided by the Go comparison only
}

type collector struct {
	ctx  *core.Ctx
	mu   sync.Mutex
	recs []*record
	seen map[string]bool
	// violations that TLC cannot judge (identity of reals, limits)
	direct []directFinding
}

type directFinding struct {
	key, what string
	c         any
}

var pairSeq atomic.Int64

func newCollector(ctx *core.Ctx) *collector {
	return &collector{ctx: ctx, seen: map[string]bool{}}
}

func (c *collector) add(r *record, dedupKey string) {
	c.mu.Lock()
	defer c.mu.Unlock()
	if dedupKey != "" {
		if c.seen[dedupKey] {
			return
		}
		c.seen[dedupKey] = true
	}
	c.recs = append(c.recs, r)
}

func hasTextlessReal(xs []Val) bool {
	for _, x := range xs {
		if x.T == "real" && len(x.S) == 0 {
			return true
		}
		if hasTextlessReal(x.E) {
			return true
		}
	}
	return false
}

func nontrivial(xs []Val) bool {
	if len(xs) >= 2 {
		return true
	}
	for _, x := range xs {
		switch x.T {
		case "arr", "dict", "nilarr", "nildict", "real":
			return true
		case "str", "name":
			if byteClasses(x.S, x.T == "name") != "" {
				return true
			}
		case "int":
			if len(x.S) > 9 {
				return true
			}
		}
	}
	return false
}

func parseReal(data []byte, single bool) (pdf.Array, error) {
	if single {
		obj, n, err := pdf.VerifReadObject(data)
		if err != nil {
			return nil, err
		}
		if int(n) != len(data) {
			return nil, fmt.Errorf("VerifReadObject consumed %d of %d bytes", n, len(data))
		}
		return pdf.Array{obj}, nil
	}
	return pdf.VerifParseObjects(data)
}

// execFmt runs one case under one option set on the real code.
func (c *collector) execFmt(fc *fmtCase, caseKey string, bits int) {
	opt, names := optSet(bits)
	objs, err := ToPDFSeq(fc.Vals)
	if err != nil {
		panic(err) // generator bug
	}
	var b1, b2 bytes.Buffer
	err1 := pdf.Format(&b1, opt, objs...)
	err2 := pdf.Format(&b2, opt, objs...)
	c.ctx.Ev.Eval(1)
	base := record{Side: "fmt", Vals: fc.Vals, Opts: names, Origin: fc.Origin, optBits: bits, want: fc.Want,
		realOnly: hasTextlessReal(fc.Vals), pair: pairSeq.Add(1)}
	if err1 != nil || err2 != nil {
		r := base
		r.FmtErr = true
		r.Bytes = []int{}
		r.errText = fmt.Sprint(err1, err2)
		r.suspect = true
		c.add(&r, "fmterr|"+caseKey)
		return
	}
	data := b1.Bytes()
	if !bytes.Equal(data, b2.Bytes()) {
		r := base
		r.Bytes, r.Bytes2 = ints(data), ints(b2.Bytes())
		r.suspect = true
		r.Origin += "/det"
		c.add(&r, "det|"+caseKey)
	}
	arr, perr := parseReal(data, fc.Single)
	var got []Val
	ok := false
	if perr == nil {
		got = NormSeq(FromPDFSeq(arr, fc.RealText)) // a nil entry counts as absent
		ok = EqualSeq(got, fc.Want)
	}
	if ok && len(fc.Vals) == 1 {
		// the public single-object parsers
		switch fc.Vals[0].T {
		case "str":
			s, err := pdf.ParseString(data)
			if err != nil || !bytes.Equal(s, fc.Vals[0].S) {
				ok, got, perr = false, []Val{vStr(s)}, err
			}
		case "name":
			n, err := pdf.ParseName(data)
			if err != nil || string(n) != string(fc.Vals[0].S) {
				ok, got, perr = false, []Val{vName([]byte(n))}, err
			}
		}
	}
	if nontrivial(fc.Vals) {
		c.ctx.Ev.Distinct(string(data))
	}
	if fc.MayFail && perr != nil {
		return // outside a documented limit: an error is fine
	}
	if fc.NoTLC {
		if !ok {
			c.mu.Lock()
			c.direct = append(c.direct, directFinding{
				key:  fc.Origin,
				what: fmt.Sprintf("%s: formatted value (%d bytes, options %v) does not read back (err=%v)", fc.Origin, len(data), names, perr),
				c:    map[string]any{"side": "limit", "name": fc.Origin, "opts": bits},
			})
			c.mu.Unlock()
		}
		return
	}
	r := base
	r.Bytes = ints(data)
	r.got = got
	r.suspect = !ok
	dk := "fmt|" + caseKey + "|" + string(data)
	if !ok {
		dk = "" // keep every suspect execution
	}
	c.add(&r, dk)
	if !ok {
		s := record{Side: "scan", Bytes: r.Bytes, Vals: got, Opts: names, Origin: fc.Origin, optBits: bits,
			want: fc.Want, got: got, suspect: true, realOnly: r.realOnly, src: fc.Vals, pair: r.pair}
		if s.Vals == nil {
			s.Vals = []Val{}
		}
		if perr != nil {
			s.Err = true
			s.errText = perr.Error()
		}
		c.add(&s, "")
	}
}

// execScan hands a conforming rendering to the real scanner.
func (c *collector) execScan(gc *genCase) {
	data := unints(gc.Bytes)
	arr, perr := pdf.VerifParseObjects(data)
	c.ctx.Ev.Eval(1)
	var got []Val
	ok := false
	if perr == nil {
		got = NormSeq(FromPDFSeq(arr, true))
		ok = EqualSeq(got, gc.Norm)
	}
	if ok && len(gc.Norm) == 1 {
		switch gc.Kind {
		case "rstr":
			s, err := pdf.ParseString(data)
			if err != nil || !bytes.Equal(s, gc.Norm[0].S) {
				ok, got, perr = false, []Val{vStr(s)}, err
			}
		case "rname":
			n, err := pdf.ParseName(data)
			if err != nil || string(n) != string(gc.Norm[0].S) {
				ok, got, perr = false, []Val{vName([]byte(n))}, err
			}
		}
	}
	c.ctx.Ev.Distinct("r:" + string(data))
	if ok {
		return
	}
	s := record{Side: "scan", Bytes: gc.Bytes, Vals: got, Opts: []string{}, Origin: "render/" + gc.Kind,
		want: gc.Norm, got: got, suspect: true, pair: pairSeq.Add(1)}
	if s.Vals == nil {
		s.Vals = []Val{}
	}
	if perr != nil {
		s.Err = true
		s.errText = perr.Error()
	}
	c.add(&s, "")
}

func traceOpts(ctx *core.Ctx) core.TLCOpts {
	return core.TLCOpts{Dir: "syntax", Module: "Trace_PdfSyntax", Cfg: "Trace_PdfSyntax.cfg", XssMB: 1024, Timeout: ctx.Dur(10, 30)}
}

// judge sends the records to TLC and reports what it rejects.
func (c *collector) judge(batch int) error {
	ctx := c.ctx
	recs := c.recs
	bad, err := core.JudgeCases(ctx, traceOpts(ctx), recs, batch, 16)
	if err != nil {
		return err
	}
	isBad := map[int]bool{}
	for _, b := range bad {
		isBad[b] = true
	}
	reported := map[string]bool{}
	// the simplest rejected executions first; one report per class
	order := append([]int(nil), bad...)
	sort.SliceStable(order, func(a, b int) bool { return len(recs[order[a]].Bytes) < len(recs[order[b]].Bytes) })
	more := 0
	for _, i := range order {
		r := recs[i]
		key, what := classify(r)
		if reported[key] {
			continue
		}
		reported[key] = true
		if len(reported) > maxReports {
			more++
			continue
		}
		ctx.Violation(key, what, replayCase(r))
	}
	if more > 0 {
		ctx.Logf("%d further classes of rejected executions not listed (the %d simplest are)", more, maxReports)
	}
	// every mismatch the Go comparison saw must be explained by a rejection
	// of the bytes written or of the value read in the same execution
	nReal := 0
	explained := map[int64]bool{}
	for i, r := range recs {
		if isBad[i] {
			explained[r.pair] = true
		}
	}
	for _, r := range recs {
		if !r.suspect || explained[r.pair] {
			continue
		}
		if r.realOnly {
			// the digits of a float64 are outside the model: decided by identity on the code;
			// one class per number of significant digits of the real that changed
			if r.Side != "fmt" {
				continue // the scan record of the same execution
			}
			nReal++
			key := "fmt/real-identity/" + changedRealClass(r.Vals, r.got)
			if !reported[key] {
				reported[key] = true
				ctx.Violation(key, fmt.Sprintf("a float64 does not read back == after pdf.Format (options %v): wrote %q", r.Opts, clip(unints(r.Bytes), 200)), replayCase(r))
			}
			continue
		}
		return core.Infra("harness and specification disagree: the Go comparison rejects %s (options %v, bytes %q, err %q) but Trace_PdfSyntax accepts it",
			r.Origin, r.Opts, clip(unints(r.Bytes), 200), r.errText)
	}
	if nReal > 0 {
		ctx.Logf("%d executions in which a float64 did not read back ==", nReal)
	}
	for _, d := range c.direct {
		if !reported[d.key] {
			reported[d.key] = true
			ctx.Violation(d.key, d.what, d.c)
		}
	}
	return nil
}

func clip(b []byte, n int) string {
	if len(b) > n {
		return string(b[:n]) + "..."
	}
	return string(b)
}

func mode(bits int) string {
	if bits&1 != 0 {
		return "pretty"
	}
	return "plain"
}

// classify computes the stable key of a rejected record.
func classify(r *record) (key, what string) {
	text := clip(unints(r.Bytes), 160)
	switch {
	case r.FmtErr:
		return "fmt/error/" + sigSeq(r.Vals), fmt.Sprintf("pdf.Format fails on %s (options %v): %s", sigSeq(r.Vals), r.Opts, r.errText)
	case r.Bytes2 != nil:
		return "fmt/nondeterministic/" + sigSeq(r.Vals), fmt.Sprintf("pdf.Format wrote %q and then %q for the same values", text, clip(unints(r.Bytes2), 160))
	case r.Side == "fmt":
		// the one divergence that is a nil Dict written as "<<>>"
		hasNil := false
		for _, v := range r.Vals {
			hasNil = hasNil || contains(v, "nildict")
		}
		if hasNil && r.got != nil {
			alt := make([]Val, len(r.Vals))
			for i := range r.Vals {
				alt[i] = nilDictAsEmpty(r.Vals[i])
			}
			if EqualSeq(r.got, NormSeq(alt)) {
				return "fmt/nil-dict-written-as-empty-dict",
					fmt.Sprintf("pdf.Format writes a nil pdf.Dict as an empty dictionary, not as null: %s -> %q (options %v)", sigSeq(r.Vals), text, r.Opts)
			}
		}
		return "fmt/" + mode(r.optBits) + "/" + sigSeq(r.Vals),
			fmt.Sprintf("pdf.Format(%s) wrote %q (options %v), which does not denote the value (reference scanner of the specification)", sigSeq(r.Vals), text, r.Opts)
	default:
		src := "formatter output"
		if strings.HasPrefix(r.Origin, "render/") {
			src = "conforming rendering"
		}
		if r.Err {
			return "scan/error/" + sigSeq(r.want), fmt.Sprintf("the scanner refuses the %s %q of %s: %s", src, text, sigSeq(r.want), r.errText)
		}
		return "scan/misread/" + sigSeq(r.want), fmt.Sprintf("the scanner reads the %s %q of %s as %s", src, text, sigSeq(r.want), sigSeq(r.got))
	}
}

type replayRec struct {
	Side  string `json:"side"`
	Vals  []Val  `json:"vals,omitempty"`
	Opts  int    `json:"opts"`
	Bytes []int  `json:"bytes,omitempty"`
	Want  []Val  `json:"want,omitempty"`
	Kind  string `json:"kind,omitempty"`
	Name  string `json:"name,omitempty"`
	Text  string `json:"text,omitempty"`
}

func replayCase(r *record) any {
	if r.Side == "scan" && strings.HasPrefix(r.Origin, "render/") {
		return replayRec{Side: "scan", Bytes: r.Bytes, Want: r.want, Kind: strings.TrimPrefix(r.Origin, "render/"), Text: clip(unints(r.Bytes), 400)}
	}
	// everything else starts from values handed to pdf.Format
	vals := r.src
	if r.Side == "fmt" {
		vals = r.Vals
	}
	return replayRec{Side: "fmt", Vals: vals, Want: r.want, Opts: r.optBits, Text: clip(unints(r.Bytes), 400), Bytes: r.Bytes}
}

// forAll runs f(i) for i in [0,n) on 16 goroutines.
func forAll(n int, f func(i int)) {
	var wg sync.WaitGroup
	ch := make(chan int, 256)
	for w := 0; w < 16; w++ {
		wg.Add(1)
		go func() {
			defer wg.Done()
			for i := range ch {
				f(i)
			}
		}()
	}
	for i := 0; i < n; i++ {
		ch <- i
	}
	close(ch)
	wg.Wait()
}

func tierCfg(ctx *core.Ctx, stem string) string {
	if ctx.Thorough() {
		return stem + "_t.cfg"
	}
	return stem + "_q.cfg"
}

func run(ctx *core.Ctx) error {
	ctx.Ev.Rule = "an evaluation = one pdf.Format + parse (or one parse of a rendering) on the real code; distinct = distinct byte strings " +
		"written by pdf.Format / handed to the scanner, counted only for non-trivial value sequences (two or more values, a container, " +
		"a real, an integer of 10+ digits, or a string/name with a byte that needs escaping, is white space, a delimiter or non-printable)"
	ctx.Ev.Assume("TLC evaluates PdfSyntax.tla faithfully; RefScan and Render are a correct reading of ISO 32000-2 7.2-7.3")
	ctx.Ev.Assume("the digits of reals are outside the model: float64 values are decided by == after the round trip on the real code; TLC checks the token shape only")
	ctx.Ev.Assume("pdf.VerifParseObjects / VerifReadObject (build tag verif) are thin wrappers around scanner.ReadArray / ReadObject")

	// 1. design model
	mc, err := ctx.MustHold(core.TLCOpts{Dir: "syntax", Module: "MC_PdfSyntax", Cfg: tierCfg(ctx, "MC_PdfSyntax"), Workers: 16,
		XssMB: 512, Constants: "see " + tierCfg(ctx, "MC_PdfSyntax"), Timeout: ctx.Dur(5, 25)})
	if err != nil {
		return err
	}
	// 2. the same value space as a case table
	cases, _, err := core.GenCases[genCase](ctx, core.TLCOpts{Dir: "syntax", Module: "Gen_PdfSyntax", Cfg: tierCfg(ctx, "Gen_PdfSyntax"),
		Mode: "evaluate", XssMB: 1024, Timeout: ctx.Dur(5, 25)})
	if err != nil {
		return err
	}
	nfmt, nrender := 0, 0
	for i := range cases {
		if cases[i].Bytes == nil {
			nfmt++
		} else {
			nrender++
		}
	}
	// every case is produced by exactly one action instance of the model
	if int64(nfmt)+1 != mc.Generated {
		return core.Infra("Gen_PdfSyntax emitted %d value sequences but MC_PdfSyntax generated %d states (expected one more): the two enumerations differ", nfmt, mc.Generated)
	}

	col := newCollector(ctx)
	// thin the TLC-judged records of the biggest family in the quick tier
	forAll(len(cases), func(i int) {
		gc := &cases[i]
		if gc.Bytes != nil {
			col.execScan(gc)
			return
		}
		fc := &fmtCase{Origin: "enum/" + gc.Kind, Vals: gc.Vals, Want: gc.Norm, RealText: true}
		for bits := 0; bits < nOptSets; bits++ {
			col.execFmt(fc, fmt.Sprint("g", gc.ID), bits)
		}
	})
	ctx.Ev.AddReplayed(nfmt*nOptSets + nrender)
	ctx.Logf("case table: %d value sequences x %d option sets and %d renderings executed on the real code; %d records", nfmt, nOptSets, nrender, len(col.recs))

	// 3. nil Dict (finding fixed by commit bc77a5c): alone, next to other tokens, as a member
	for i, fc := range nilDictCases() {
		for bits := 0; bits < nOptSets; bits++ {
			col.execFmt(fc, fmt.Sprint("nd", i), bits)
		}
	}

	// 3b. boundary references (object numbers up to 2^24-1, generations up to 65535)
	refs := refCases()
	forAll(len(refs), func(i int) {
		for _, bits := range []int{0, 1, 2, 31} {
			col.execFmt(refs[i], fmt.Sprint("ref", i), bits)
		}
	})

	// 4. seeded random values and the size limits
	rnd := randomCases(ctx)
	forAll(len(rnd), func(i int) {
		r := ctx.Rand(fmt.Sprint("opts", i))
		for _, bits := range []int{0, 1, r.Intn(nOptSets), r.Intn(nOptSets)} {
			col.execFmt(rnd[i], fmt.Sprint("r", i), bits)
		}
	})
	lim := limitCases(ctx)
	forAll(len(lim), func(i int) {
		for _, bits := range []int{0, 1} {
			col.execFmt(lim[i], fmt.Sprint("l", i), bits)
		}
	})
	ctx.Logf("random: %d value sequences, limits: %d probes; %d records for TLC", len(rnd), len(lim), len(col.recs))

	// deterministic order (the goroutines appended in any order)
	sortRecords(col.recs)
	samples(ctx, cases, col.recs)
	nsus := map[string]int{}
	for _, r := range col.recs {
		if r.suspect {
			nsus[r.Origin+"/"+r.Side]++
		}
	}
	if len(nsus) > 0 {
		ctx.Logf("mismatches seen by the Go comparison (to be judged by TLC): %v", nsus)
	}
	if os.Getenv("C01_DUMP") != "" {
		data, _ := core.NDJSON(col.recs)
		_ = os.WriteFile(os.Getenv("C01_DUMP"), data, 0o644)
		return core.Infra("records dumped")
	}
	if err := col.judge(3000); err != nil {
		return err
	}
	ctx.Ev.Exhaustive = true
	ctx.Ev.Set("exhaustive_scope", "all value sequences of the bounded model ("+tierCfg(ctx, "MC_PdfSyntax")+") in TLC and, under all 32 option sets, on the real code; seeded random values beyond")
	ctx.Ev.Set("option_sets", nOptSets)
	return nil
}

func sortRecords(recs []*record) {
	// keep fmt+scan pairs of suspects together: sort by a key that both share
	type keyed struct {
		k string
		r *record
		n int
	}
	ks := make([]keyed, len(recs))
	for i, r := range recs {
		side := "0"
		if r.Side == "scan" {
			side = "1"
		}
		v, _ := json.Marshal(r.want)
		ks[i] = keyed{r.Origin + "|" + string(v) + "|" + string(unints(r.Bytes)) + "|" + fmt.Sprint(r.suspect) + "|" + fmt.Sprintf("%02d", r.optBits) + "|" + side, r, i}
	}
	sort.SliceStable(ks, func(i, j int) bool { return ks[i].k < ks[j].k })
	for i := range ks {
		recs[i] = ks[i].r
	}
}

func samples(ctx *core.Ctx, cases []genCase, recs []*record) {
	for _, want := range []string{"enum/str", "enum/toks", "random", "enum/nest2"} {
		for _, r := range recs {
			if strings.HasPrefix(r.Origin, want) && r.Side == "fmt" && len(r.Bytes) > 6 && len(r.Bytes) < 200 {
				ctx.Ev.Sample(map[string]any{"kind": "record of pdf.Format judged by Trace_PdfSyntax", "origin": r.Origin,
					"opts": r.Opts, "text": string(unints(r.Bytes)), "vals": r.Vals})
				break
			}
		}
	}
	for i := range cases {
		if cases[i].Kind == "rstr" && len(cases[i].Bytes) > 8 {
			ctx.Ev.Sample(map[string]any{"kind": "rendering from the specification parsed by the real scanner", "text": string(unints(cases[i].Bytes)), "norm": cases[i].Norm})
			break
		}
	}
}

// nilDictCases: a nil pdf.Dict alone, next to other tokens, and as a member.
func nilDictCases() []*fmtCase {
	nd := Val{T: "nildict"}
	seqs := [][]Val{
		{nd},
		{vInt(1), nd, vInt(2)},
		{vName([]byte("A")), nd},
		{vArr(nd)},
		{vArr(vInt(1), nd)},
		{vDict(map[string]Val{"K": nd})},
		{vDict(map[string]Val{"K": nd, "L": vInt(1)})},
	}
	var out []*fmtCase
	for _, s := range seqs {
		out = append(out, &fmtCase{Origin: "nildict", Vals: s, Want: NormSeq(s), RealText: true})
	}
	return out
}

func replay(ctx *core.Ctx, raw json.RawMessage) error {
	var rc replayRec
	if err := json.Unmarshal(raw, &rc); err != nil {
		return core.Infra("replay: %v", err)
	}
	col := newCollector(ctx)
	switch rc.Side {
	case "fmt":
		if rc.Vals == nil {
			return core.Infra("replay: no values in the case")
		}
		fc := &fmtCase{Origin: "replay", Vals: rc.Vals, Want: NormSeq(rc.Vals), RealText: !hasTextlessReal(rc.Vals)}
		col.execFmt(fc, "replay", rc.Opts)
	case "scan":
		gc := &genCase{Kind: rc.Kind, Bytes: rc.Bytes, Norm: rc.Want}
		col.execScan(gc)
	case "limit":
		for _, fc := range limitCases(ctx) {
			if fc.Origin == rc.Name {
				col.execFmt(fc, "replay", rc.Opts)
			}
		}
	default:
		return core.Infra("replay: unknown side %q", rc.Side)
	}
	for _, r := range col.recs {
		fmt.Printf("  %s record: bytes %q", r.Side, clip(unints(r.Bytes), 300))
		if r.Side == "scan" {
			if r.Err {
				fmt.Printf(" -> scanner error: %s", r.errText)
			} else {
				v, _ := json.Marshal(r.Vals)
				fmt.Printf(" -> scanner read %s", clip(v, 300))
			}
		}
		fmt.Println()
	}
	if len(col.recs) == 0 && len(col.direct) == 0 {
		return nil
	}
	return col.judge(100)
}

// changedRealClass names the first real of vals that was read back as
// another number: the count of significant digits of its shortest decimal
// form ("other" when the difference is elsewhere).
func changedRealClass(vals, got []Val) string {
	var find func(a, b []Val) string
	find = func(a, b []Val) string {
		for i := range a {
			if i >= len(b) {
				break
			}
			if a[i].T == "real" && b[i].T == "real" && a[i].F != b[i].F {
				d := strings.Trim(strings.ReplaceAll(strings.TrimPrefix(strconv.FormatFloat(a[i].F, 'e', -1, 64), "-"), ".", ""), "0")
				if k := strings.IndexByte(d, 'e'); k >= 0 {
					d = strings.TrimRight(d[:k], "0")
				}
				return fmt.Sprintf("%d-significant-digits", len(d))
			}
			if c := find(a[i].E, b[i].E); c != "" {
				return c
			}
		}
		return ""
	}
	if c := find(NormSeq(vals), got); c != "" {
		return c
	}
	return "other"
}
