package c01

import (
	"bytes"
	"fmt"
	"math"
	"math/rand"
	"strconv"

	"verif/harness/core"
)

var specialInts = []int64{0, 1, -1, 9, 10, -10, 255, 256, 65535, 65536, 1<<24 - 1, 1 << 24, 1<<31 - 1, 1 << 31, -1 << 31, 1<<32 - 1, 1 << 32,
	1<<53 - 1, 1 << 53, 1<<53 + 1, math.MaxInt64, math.MinInt64, math.MaxInt64 - 1, math.MinInt64 + 1}

var specialFloats = []float64{0, math.Copysign(0, -1), 5e-324, -5e-324, math.MaxFloat64, -math.MaxFloat64, math.SmallestNonzeroFloat64 * 3,
	1 << 53, 1<<53 - 1, 1<<53 + 1, -(1 << 53), 0.1, -0.1, 1e-7, 1e21, 1e22, 123456789.125, 0.5, 1.5, -2.25, 1e-300, 2.2250738585072014e-308,
	2.225073858507201e-308, 9007199254740993, 0.30000000000000004, 1e15, 1e16, 1e17, 100, 3.14159, 4294967296, 9223372036854775807, 1e19}

// boundary values of indirect references: pdf.NewReference documents object
// numbers < 2^24, generations are uint16 (ISO 32000-2 7.5.4: at most 65535)
var refNumbers = []uint32{0, 1, 2, 9, 10, 255, 256, 65535, 65536, 1<<23 - 1, 1 << 23, 1<<24 - 2, 1<<24 - 1}
var refGenerations = []uint16{0, 1, 2, 9, 10, 255, 256, 32767, 32768, 65534, 65535}

// refCases: every boundary reference alone, after two integers, in arrays,
// in dictionaries (first, last and only entry), nested, and next to another
// reference.
func refCases() []*fmtCase {
	var out []*fmtCase
	for _, n := range refNumbers {
		for _, g := range refGenerations {
			ref := vRef(n, g)
			other := vRef(1<<24-1-n, 65535-g)
			for _, vals := range [][]Val{
				{ref},
				{vInt(1), vInt(2), ref},
				{ref, vInt(int64(n)), vInt(int64(g)), ref},
				{vArr(ref)},
				{vArr(vInt(int64(g)), vInt(int64(n)), ref, other, vName([]byte("R")))},
				{vDict(map[string]Val{"K": ref})},
				{vDict(map[string]Val{"A": ref, "B": vInt(int64(g)), "C": other, "D": ref})},
				{vArr(vDict(map[string]Val{"K": vArr(ref, ref)}), ref), vDict(map[string]Val{"K": vDict(map[string]Val{"L1": ref})})},
			} {
				out = append(out, &fmtCase{Origin: "refs", Vals: vals, Want: NormSeq(vals), RealText: true})
			}
		}
	}
	return out
}

// bytes that matter to formatName / formatString / the scanner
var spicy = []byte{'(', ')', '\\', '\r', '\n', '#', '/', '%', '<', '>', '[', ']', '{', '}', ' ', 0, 9, 12, '0', '7', '8', 'n', 'r', 'R', 0x7f, 0x80, 0xff, 0x21, 0x7e, 'a'}

func randBytes(r *rand.Rand, n int) []byte {
	b := make([]byte, n)
	style := r.Intn(4)
	for i := range b {
		switch {
		case style == 0: // any byte
			b[i] = byte(r.Intn(256))
		case style == 1: // mostly printable
			if r.Intn(8) == 0 {
				b[i] = spicy[r.Intn(len(spicy))]
			} else {
				b[i] = byte(0x21 + r.Intn(0x5e))
			}
		case style == 2: // delimiters and escapes only
			b[i] = spicy[r.Intn(len(spicy))]
		default: // binary with a few printable ones (hex form under OptPretty is near its 9:1 threshold)
			if r.Intn(10) == 0 {
				b[i] = byte(r.Intn(256))
			} else {
				b[i] = byte(0x20 + r.Intn(0x5f))
			}
		}
	}
	return b
}

func randLen(r *rand.Rand, max int) int {
	switch r.Intn(6) {
	case 0:
		return 0
	case 1:
		return 1 + r.Intn(3)
	case 2:
		return r.Intn(max + 1)
	default:
		return r.Intn(12)
	}
}

// longDecimal: a float64 whose shortest decimal form has (nearly always)
// exactly sig significant digits - the mantissa is drawn with that many
// digits, beyond 2^53 for 16 and 17 - and up to 22 of them after the point.
func longDecimal(r *rand.Rand, sig int) float64 {
	lo := int64(1)
	for i := 1; i < sig; i++ {
		lo *= 10
	}
	m := lo + r.Int63n(9*lo)
	if sig == 16 && r.Intn(4) > 0 {
		m = 1<<53 + r.Int63n(10*lo-1<<53) // integers of 16 digits that float64 cannot all hold
	}
	if m%10 == 0 {
		m++
	}
	f, err := strconv.ParseFloat(strconv.FormatInt(m, 10)+"e-"+strconv.Itoa(r.Intn(23)), 64)
	if err != nil {
		return 0.1
	}
	if r.Intn(2) == 0 {
		f = -f
	}
	return f
}

func randFloat(r *rand.Rand) float64 {
	switch r.Intn(9) {
	case 0, 1, 2:
		return specialFloats[r.Intn(len(specialFloats))]
	case 3, 4:
		return longDecimal(r, 16)
	case 5:
		return longDecimal(r, 15+r.Intn(3))
	}
	for {
		var f float64
		switch r.Intn(3) {
		case 0:
			f = math.Float64frombits(r.Uint64())
		case 1:
			f = float64(r.Int63n(2000000)-1000000) / math.Pow(10, float64(r.Intn(7)))
		default:
			f = (r.Float64() - 0.5) * math.Pow(10, float64(r.Intn(40)-20))
		}
		if !math.IsNaN(f) && !math.IsInf(f, 0) {
			return f
		}
	}
}

func randInt(r *rand.Rand) int64 {
	switch r.Intn(3) {
	case 0:
		return specialInts[r.Intn(len(specialInts))]
	case 1:
		return int64(r.Uint64())
	default:
		return int64(r.Intn(2001) - 1000)
	}
}

func randVal(r *rand.Rand, depth, maxStr int) Val {
	k := r.Intn(100)
	if depth <= 0 && k >= 70 {
		k = r.Intn(70)
	}
	switch {
	case k < 4:
		return vNull()
	case k < 8:
		return vBool(r.Intn(2) == 0)
	case k < 22:
		return vInt(randInt(r))
	case k < 34:
		return vRealF(randFloat(r))
	case k < 48:
		return vName(randBytes(r, randLen(r, 16)))
	case k < 64:
		return vStr(randBytes(r, randLen(r, maxStr)))
	case k < 70:
		if r.Intn(2) == 0 {
			return vRef(refNumbers[r.Intn(len(refNumbers))], refGenerations[r.Intn(len(refGenerations))])
		}
		return vRef(uint32(r.Intn(1<<24)), uint16(r.Intn(1<<16)))
	case k < 84:
		n := r.Intn(5)
		out := Val{T: "arr", E: []Val{}}
		for i := 0; i < n; i++ {
			out.E = append(out.E, randVal(r, depth-1, maxStr))
		}
		return out
	case k < 97:
		n := r.Intn(5)
		m := map[string]Val{}
		for i := 0; i < n; i++ {
			var key []byte
			switch r.Intn(6) {
			case 0:
				key = []byte("Type")
			case 1:
				key = []byte("Subtype")
			case 2:
				key = []byte{}
			default:
				key = randBytes(r, 1+r.Intn(6))
			}
			m[string(key)] = randVal(r, depth-1, maxStr)
		}
		return vDict(m)
	case k < 99:
		return Val{T: "nilarr"}
	default:
		return Val{T: "nildict"}
	}
}

// randomCases draws seeded value sequences: all byte values in strings and
// names, int64 extremes, all sorts of finite float64, nesting.
func randomCases(ctx *core.Ctx) []*fmtCase {
	r := ctx.Rand("values")
	n := ctx.Pick(4000, 20000)
	maxStr := ctx.Pick(300, 800)
	out := make([]*fmtCase, 0, n)
	for i := 0; i < n; i++ {
		k := 1 + r.Intn(4)
		if r.Intn(3) == 0 {
			k = 1
		}
		vals := make([]Val, k)
		for j := range vals {
			vals[j] = randVal(r, 1+r.Intn(4), maxStr)
		}
		out = append(out, &fmtCase{Origin: "random", Vals: vals, Want: NormSeq(vals)})
	}
	// every special number once, alone and between integers
	for _, f := range specialFloats {
		for _, vals := range [][]Val{{vRealF(f)}, {vInt(1), vRealF(f), vInt(2)}, {vRealF(f), vRealF(-f), vName([]byte("N")), vRealF(f)}} {
			out = append(out, &fmtCase{Origin: "random/real", Vals: vals, Want: NormSeq(vals)})
		}
	}
	// reals whose shortest form has 15, 16 and 17 significant digits, every scale
	for i := 0; i < 600; i++ {
		f := longDecimal(r, 15+i%3)
		if i%3 == 2 {
			f = longDecimal(r, 16)
		}
		vals := []Val{vRealF(f)}
		if i%4 == 0 {
			vals = []Val{vArr(vInt(1), vRealF(f), vRealF(-f)), vDict(map[string]Val{"K": vRealF(f)})}
		}
		out = append(out, &fmtCase{Origin: "random/real", Vals: vals, Want: NormSeq(vals)})
	}
	for _, x := range specialInts {
		for _, vals := range [][]Val{{vInt(x)}, {vInt(x), vInt(x), vRef(7, 0)}, {vArr(vInt(x), vInt(-x))}} {
			out = append(out, &fmtCase{Origin: "random/int", Vals: vals, Want: NormSeq(vals)})
		}
	}
	// every single byte as a string and as a name
	for c := 0; c < 256; c++ {
		b := []byte{byte(c)}
		for _, vals := range [][]Val{{vStr(b)}, {vName(b)}, {vName(b), vInt(1)}, {vStr([]byte{'\\', byte(c)})}, {vName([]byte{'#', byte(c), 'A'})}} {
			out = append(out, &fmtCase{Origin: "random/byte", Vals: vals, Want: NormSeq(vals)})
		}
	}
	return out
}

func nest(kind string, d int) Val {
	v := vInt(7)
	for i := 0; i < d; i++ {
		switch {
		case kind == "arr" || (kind == "mix" && i%2 == 0):
			v = vArr(v)
		default:
			v = vDict(map[string]Val{"K": v})
		}
	}
	return v
}

// limitCases probes the documented size limits of the scanner from both
// sides: inside, the round trip must hold; outside, an error is acceptable.
// (scanner.go: maxScannerNestDepth = 256, maxNameBytes = 4096, maxStringBytes
// = 16 MiB, maxArrayLen = 1<<20, maxDictLen = 64<<10.)  On the boundary
// itself both outcomes are accepted.
func limitCases(ctx *core.Ctx) []*fmtCase {
	var out []*fmtCase
	add := func(name string, mayFail, single, noTLC bool, vals ...Val) {
		out = append(out, &fmtCase{Origin: "limit/" + name, Vals: vals, Want: NormSeq(vals), MayFail: mayFail, Single: single, NoTLC: noTLC})
	}
	// names
	for _, n := range []int{4094, 4095, 4096, 4097} {
		add(fmt.Sprintf("name-%d", n), n >= 4096, false, false, vName(bytes.Repeat([]byte{'a'}, n)))
		esc := bytes.Repeat([]byte{'#', ' ', 'b'}, n/3+1)[:n]
		add(fmt.Sprintf("name-escaped-%d", n), n >= 4096, false, true, vName(esc), vInt(1))
	}
	// nesting: the wrapper array of VerifParseObjects is one level itself
	for _, kind := range []string{"arr", "dict", "mix"} {
		add(kind+"-depth-254", false, false, false, nest(kind, 254))
		add(kind+"-depth-255", false, false, false, nest(kind, 255))
		add(kind+"-depth-256-toplevel", false, true, false, nest(kind, 256))
		add(kind+"-depth-256-inside-array", true, false, true, nest(kind, 256))
		add(kind+"-depth-257-toplevel", true, true, true, nest(kind, 257))
		add(kind+"-depth-300-toplevel", true, true, true, nest(kind, 300))
	}
	// strings beyond what TLC is asked to scan
	r := ctx.Rand("limits")
	for _, n := range []int{5000, 70000} {
		add(fmt.Sprintf("str-%d", n), false, false, true, vStr(randBytes(r, n)), vStr(bytes.Repeat([]byte{'(', ')', '\\', '\r', '\n'}, n/5)))
	}
	if ctx.Thorough() {
		const maxStr = 16 * 1024 * 1024
		for _, n := range []int{maxStr - 1, maxStr, maxStr + 1} {
			add(fmt.Sprintf("str-%d", n), n >= maxStr, false, true, vStr(bytes.Repeat([]byte{'x'}, n)))
			add(fmt.Sprintf("str-binary-%d", n), n >= maxStr, false, true, vStr(bytes.Repeat([]byte{0x80, ')'}, n/2+1)[:n]))
		}
		for _, n := range []int{1 << 20, 1<<20 + 1} {
			e := make([]Val, n)
			for i := range e {
				e[i] = vInt(int64(i % 10))
			}
			add(fmt.Sprintf("array-%d", n), n > 1<<20, true, true, Val{T: "arr", E: e})
		}
		for _, n := range []int{64 << 10, 64<<10 + 1} {
			m := map[string]Val{}
			for i := 0; i < n; i++ {
				m[fmt.Sprintf("K%d", i)] = vInt(int64(i))
			}
			add(fmt.Sprintf("dict-%d", n), n > 64<<10, true, true, vDict(m))
		}
	}
	return out
}
