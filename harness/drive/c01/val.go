package c01

import (
	"bytes"
	"encoding/json"
	"fmt"
	"math"
	"math/rand"
	"sort"
	"strconv"
	"strings"

	"seehuhn.de/go/pdf"
)

// Val is the harness's picture of a PDF value, in the shape the TLA+ modules
// use: a record {t, v} (dictionaries: {t, k, v} with the keys in bytewise
// order).
//
//	null    v = []            bool    v = true/false
//	int     v = decimal text  real    v = canonical decimal text, or [] when
//	                                  only the float64 (F) is known
//	name    v = bytes         str     v = bytes
//	arr     v = [values]      dict    k = [keys], v = [values]
//	ref     v = [number text, generation text]
//	nilarr, nildict           the Go values pdf.Array(nil), pdf.Dict(nil)
//	op      v = bytes         a content stream operator (C15)
type Val struct {
	T string
	B bool     // bool
	S []byte   // int, real (text), name, str, op
	E []Val    // arr members, dict values
	K [][]byte // dict keys (sorted)
	N []byte   // ref: number, generation (decimal text)
	G []byte
	F float64 // real: the number (not seen by TLC)
}

func ints(b []byte) []int {
	out := make([]int, len(b))
	for i, c := range b {
		out[i] = int(c)
	}
	return out
}

func unints(v []int) []byte {
	out := make([]byte, len(v))
	for i, c := range v {
		out[i] = byte(c)
	}
	return out
}

// chainOf strips the outer containers that have a single member.
func chainOf(x Val) (links [][]int, inner Val) {
	for (x.T == "arr" || x.T == "dict") && len(x.E) == 1 {
		if x.T == "arr" {
			links = append(links, []int{0})
		} else {
			links = append(links, append([]int{1}, ints(x.K[0])...))
		}
		x = x.E[0]
	}
	return links, x
}

// MarshalJSON renders the TLA+ shape.  Deep towers of single-member
// containers are written as {"t":"chain","c":[links],"v":inner} (TLC's JSON
// reader refuses more than 255 levels): a link is [0] for an array and
// [1, key bytes...] for a dictionary.
func (x Val) MarshalJSON() ([]byte, error) {
	if links, inner := chainOf(x); len(links) >= 50 {
		return json.Marshal(map[string]any{"t": "chain", "c": links, "v": inner})
	}
	m := map[string]any{"t": x.T}
	switch x.T {
	case "null", "nilarr", "nildict":
		m["v"] = []int{}
	case "bool":
		m["v"] = x.B
	case "int", "name", "str", "op":
		m["v"] = ints(x.S)
	case "real":
		m["v"] = ints(x.S)
		m["f"] = strconv.FormatUint(math.Float64bits(x.F), 16)
	case "ref":
		m["v"] = [][]int{ints(x.N), ints(x.G)}
	case "arr":
		e := x.E
		if e == nil {
			e = []Val{}
		}
		m["v"] = e
	case "dict":
		e := x.E
		if e == nil {
			e = []Val{}
		}
		k := make([][]int, len(x.K))
		for i := range x.K {
			k[i] = ints(x.K[i])
		}
		m["k"] = k
		m["v"] = e
	default:
		return nil, fmt.Errorf("c01: cannot encode value type %q", x.T)
	}
	return json.Marshal(m)
}

// UnmarshalJSON reads the TLA+ shape.
func (x *Val) UnmarshalJSON(data []byte) error {
	var raw struct {
		T string          `json:"t"`
		V json.RawMessage `json:"v"`
		K [][]int         `json:"k"`
		F string          `json:"f"`
		C [][]int         `json:"c"`
	}
	if err := json.Unmarshal(data, &raw); err != nil {
		return err
	}
	*x = Val{T: raw.T}
	switch raw.T {
	case "null", "nilarr", "nildict":
	case "bool":
		return json.Unmarshal(raw.V, &x.B)
	case "int", "name", "str", "op", "real":
		var v []int
		if err := json.Unmarshal(raw.V, &v); err != nil {
			return err
		}
		x.S = unints(v)
		if raw.T == "real" {
			if raw.F != "" {
				bits, err := strconv.ParseUint(raw.F, 16, 64)
				if err != nil {
					return err
				}
				x.F = math.Float64frombits(bits)
			} else {
				f, err := strconv.ParseFloat(string(x.S), 64)
				if err != nil {
					return fmt.Errorf("c01: real literal %q: %v", x.S, err)
				}
				x.F = f
			}
		}
	case "ref":
		var v [][]int
		if err := json.Unmarshal(raw.V, &v); err != nil || len(v) != 2 {
			return fmt.Errorf("c01: malformed ref: %v", err)
		}
		x.N, x.G = unints(v[0]), unints(v[1])
	case "chain":
		var inner Val
		if err := json.Unmarshal(raw.V, &inner); err != nil {
			return err
		}
		for i := len(raw.C) - 1; i >= 0; i-- {
			l := raw.C[i]
			if len(l) > 0 && l[0] == 0 {
				inner = Val{T: "arr", E: []Val{inner}}
			} else if len(l) > 0 {
				inner = Val{T: "dict", K: [][]byte{unints(l[1:])}, E: []Val{inner}}
			}
		}
		*x = inner
	case "arr":
		return json.Unmarshal(raw.V, &x.E)
	case "dict":
		if err := json.Unmarshal(raw.V, &x.E); err != nil {
			return err
		}
		for _, k := range raw.K {
			x.K = append(x.K, unints(k))
		}
		if len(x.K) != len(x.E) {
			return fmt.Errorf("c01: dict with %d keys and %d values", len(x.K), len(x.E))
		}
	default:
		return fmt.Errorf("c01: unknown value type %q", raw.T)
	}
	return nil
}

// constructors
func vNull() Val           { return Val{T: "null"} }
func vBool(b bool) Val     { return Val{T: "bool", B: b} }
func vInt(i int64) Val     { return Val{T: "int", S: []byte(strconv.FormatInt(i, 10))} }
func vName(b []byte) Val   { return Val{T: "name", S: b} }
func vStr(b []byte) Val    { return Val{T: "str", S: b} }
func vArr(e ...Val) Val    { return Val{T: "arr", E: e} }
func vRealF(f float64) Val { return Val{T: "real", F: f} }
func vRef(n uint32, g uint16) Val {
	return Val{T: "ref", N: []byte(strconv.FormatUint(uint64(n), 10)), G: []byte(strconv.FormatUint(uint64(g), 10))}
}
func vDict(m map[string]Val) Val {
	keys := make([]string, 0, len(m))
	for k := range m {
		keys = append(keys, k)
	}
	sort.Strings(keys)
	d := Val{T: "dict"}
	for _, k := range keys {
		d.K = append(d.K, []byte(k))
		d.E = append(d.E, m[k])
	}
	return d
}

// ToPDF builds the go-pdf value.
func ToPDF(x Val) (pdf.Object, error) {
	switch x.T {
	case "null":
		return nil, nil
	case "nilarr":
		return pdf.Array(nil), nil
	case "nildict":
		return pdf.Dict(nil), nil
	case "bool":
		return pdf.Boolean(x.B), nil
	case "int":
		i, err := strconv.ParseInt(string(x.S), 10, 64)
		if err != nil {
			return nil, err
		}
		return pdf.Integer(i), nil
	case "real":
		return pdf.Real(x.F), nil
	case "name":
		return pdf.Name(x.S), nil
	case "str":
		return pdf.String(append([]byte{}, x.S...)), nil
	case "op":
		return pdf.Operator(x.S), nil
	case "ref":
		n, err1 := strconv.ParseUint(string(x.N), 10, 32)
		g, err2 := strconv.ParseUint(string(x.G), 10, 16)
		if err1 != nil || err2 != nil || n >= 1<<24 {
			return nil, fmt.Errorf("c01: reference %s %s outside the documented range", x.N, x.G)
		}
		return pdf.NewReference(uint32(n), uint16(g)), nil
	case "arr":
		out := make(pdf.Array, len(x.E))
		for i := range x.E {
			e, err := ToPDF(x.E[i])
			if err != nil {
				return nil, err
			}
			out[i] = e
		}
		return out, nil
	case "dict":
		out := pdf.Dict{}
		for i := range x.E {
			e, err := ToPDF(x.E[i])
			if err != nil {
				return nil, err
			}
			out[pdf.Name(x.K[i])] = e
		}
		return out, nil
	}
	return nil, fmt.Errorf("c01: cannot build a go-pdf value of type %q", x.T)
}

// ToPDFSeq converts a sequence of values.
func ToPDFSeq(xs []Val) ([]pdf.Object, error) {
	out := make([]pdf.Object, len(xs))
	for i := range xs {
		o, err := ToPDF(xs[i])
		if err != nil {
			return nil, err
		}
		out[i] = o
	}
	return out, nil
}

// FromPDF describes what the real scanner returned.  withRealText: reals get
// their shortest decimal text (strconv), otherwise only the float64.
func FromPDF(o pdf.Object, withRealText bool) Val {
	switch v := o.(type) {
	case nil:
		return vNull()
	case pdf.Boolean:
		return vBool(bool(v))
	case pdf.Integer:
		return vInt(int64(v))
	case pdf.Real:
		r := vRealF(float64(v))
		if withRealText {
			r.S = realText(float64(v))
		}
		return r
	case pdf.Name:
		return vName([]byte(v))
	case pdf.String:
		return vStr([]byte(v))
	case pdf.Operator:
		return Val{T: "op", S: []byte(v)}
	case pdf.Reference:
		return vRef(v.Number(), v.Generation())
	case pdf.Array:
		if v == nil {
			return Val{T: "nilarr"}
		}
		out := Val{T: "arr", E: make([]Val, len(v))}
		for i := range v {
			out.E[i] = FromPDF(v[i], withRealText)
		}
		return out
	case pdf.Dict:
		if v == nil {
			return Val{T: "nildict"}
		}
		m := map[string]Val{}
		for k, e := range v {
			m[string(k)] = FromPDF(e, withRealText)
		}
		return vDict(m)
	}
	return Val{T: "unknown:" + fmt.Sprintf("%T", o)}
}

// FromPDFSeq converts a sequence.
func FromPDFSeq(a pdf.Array, withRealText bool) []Val {
	out := make([]Val, len(a))
	for i := range a {
		out[i] = FromPDF(a[i], withRealText)
	}
	return out
}

// realText is the canonical decimal text of the model for a float64 whose
// shortest decimal representation is what strconv prints: "-"? digits "."
// digits, no superfluous zeros, no negative zero.
func realText(f float64) []byte {
	s := strconv.FormatFloat(f, 'f', -1, 64)
	neg := strings.HasPrefix(s, "-")
	s = strings.TrimPrefix(s, "-")
	ip, fp, _ := strings.Cut(s, ".")
	ip = strings.TrimLeft(ip, "0")
	if ip == "" {
		ip = "0"
	}
	fp = strings.TrimRight(fp, "0")
	if ip == "0" && fp == "" {
		neg = false
	}
	out := ip + "." + fp
	if neg {
		out = "-" + out
	}
	return []byte(out)
}

// Norm: nil array / nil dict are null, dictionary entries with null values
// are absent.
func Norm(x Val) Val {
	switch x.T {
	case "nilarr", "nildict":
		return vNull()
	case "arr":
		out := Val{T: "arr", E: make([]Val, len(x.E))}
		for i := range x.E {
			out.E[i] = Norm(x.E[i])
		}
		return out
	case "dict":
		out := Val{T: "dict"}
		for i := range x.E {
			n := Norm(x.E[i])
			if n.T == "null" {
				continue
			}
			out.K = append(out.K, x.K[i])
			out.E = append(out.E, n)
		}
		return out
	}
	return x
}

// NormSeq normalises every value.
func NormSeq(xs []Val) []Val {
	out := make([]Val, len(xs))
	for i := range xs {
		out[i] = Norm(xs[i])
	}
	return out
}

// Equal compares two normalised values; reals by their numeric value.
func Equal(a, b Val) bool {
	if a.T != b.T {
		return false
	}
	switch a.T {
	case "null":
		return true
	case "bool":
		return a.B == b.B
	case "int", "name", "str", "op":
		return bytes.Equal(a.S, b.S)
	case "real":
		return a.F == b.F
	case "ref":
		return bytes.Equal(a.N, b.N) && bytes.Equal(a.G, b.G)
	case "arr":
		if len(a.E) != len(b.E) {
			return false
		}
		for i := range a.E {
			if !Equal(a.E[i], b.E[i]) {
				return false
			}
		}
		return true
	case "dict":
		if len(a.E) != len(b.E) {
			return false
		}
		for i := range a.E {
			if !bytes.Equal(a.K[i], b.K[i]) || !Equal(a.E[i], b.E[i]) {
				return false
			}
		}
		return true
	}
	return false
}

// EqualSeq compares two sequences of normalised values.
func EqualSeq(a, b []Val) bool {
	if len(a) != len(b) {
		return false
	}
	for i := range a {
		if !Equal(a[i], b[i]) {
			return false
		}
	}
	return true
}

// nilDictAsEmpty replaces every nil Dict by an empty one.
func nilDictAsEmpty(x Val) Val {
	switch x.T {
	case "nildict":
		return Val{T: "dict"}
	case "arr", "dict":
		out := x
		out.E = make([]Val, len(x.E))
		for i := range x.E {
			out.E[i] = nilDictAsEmpty(x.E[i])
		}
		return out
	}
	return x
}

func contains(x Val, t string) bool {
	if x.T == t {
		return true
	}
	for _, e := range x.E {
		if contains(e, t) {
			return true
		}
	}
	return false
}

func depth(x Val) int {
	d := 0
	for _, e := range x.E {
		if k := depth(e); k > d {
			d = k
		}
	}
	if x.T == "arr" || x.T == "dict" {
		d++
	}
	return d
}

// byteClasses names the kinds of bytes in a string or name that matter to
// the formatter.
func byteClasses(b []byte, name bool) string {
	seen := map[string]bool{}
	for _, c := range b {
		switch {
		case c == '\r':
			seen["cr"] = true
		case c == '\n':
			seen["lf"] = true
		case c == '(' || c == ')':
			seen["paren"] = true
		case c == '\\':
			seen["backslash"] = true
		case c == '#' && name:
			seen["hash"] = true
		case c == 0 || c == 9 || c == 12 || c == 32:
			seen["ws"] = true
		case name && strings.IndexByte("<>[]{}/%", c) >= 0:
			seen["delim"] = true
		case c < 0x20 || c > 0x7e:
			seen["bin"] = true
		}
	}
	var out []string
	for k := range seen {
		out = append(out, k)
	}
	sort.Strings(out)
	return strings.Join(out, "+")
}

// sig is a short, stable description of the shape of a value (for keys).
func sig(x Val) string {
	switch x.T {
	case "str", "name":
		if c := byteClasses(x.S, x.T == "name"); c != "" {
			return x.T + "(" + c + ")"
		}
		if len(x.S) == 0 {
			return x.T + "(empty)"
		}
		return x.T
	case "int":
		if len(x.S) > 0 && x.S[0] == '-' {
			return "negint"
		}
		return "int"
	case "arr", "dict":
		seen := map[string]bool{}
		for _, e := range x.E {
			seen[sig(e)] = true
		}
		var parts []string
		for k := range seen {
			parts = append(parts, k)
		}
		sort.Strings(parts)
		return x.T + "[" + strings.Join(parts, ",") + "]"
	}
	return x.T
}

func sigSeq(xs []Val) string {
	var parts []string
	for _, x := range xs {
		parts = append(parts, sig(x))
	}
	s := strings.Join(parts, ",")
	if len(s) > 120 {
		s = s[:120] + "..."
	}
	return s
}

// exported constructors (used by the C15 driver)
func VNull() Val                 { return vNull() }
func VBool(b bool) Val           { return vBool(b) }
func VInt(i int64) Val           { return vInt(i) }
func VReal(f float64) Val        { return vRealF(f) }
func VName(b []byte) Val         { return vName(b) }
func VStr(b []byte) Val          { return vStr(b) }
func VArr(e ...Val) Val          { return vArr(e...) }
func VDict(m map[string]Val) Val { return vDict(m) }
func Sig(x Val) string           { return sig(x) }
func Ints(b []byte) []int        { return ints(b) }
func Unints(v []int) []byte      { return unints(v) }

// RandVal draws a random value (no references: they cannot occur in content streams).
func RandVal(r *rand.Rand, depth, maxStr int) Val {
	for {
		v := randVal(r, depth, maxStr)
		if !contains(v, "ref") {
			return v
		}
	}
}

// RandBytes draws random bytes in one of several styles.
func RandBytes(r *rand.Rand, n int) []byte { return randBytes(r, n) }
