// Package outline binds spec/nav/Outline.tla to go-pdf's document outline
// (outline/outline.go).  It is an extension beyond the listed properties and
// runs from C16 (document navigation structures next to the page tree):
// deviations are reported as NOTE lines and in the evidence, never as
// violations of C16.
//
//	model   MC_Outline_*.cfg: every outline of up to 6 (thorough 8) items —
//	        one TLC state each — through the transcription of getCount /
//	        Encode / writeChildren / the flush protocol / Decode, checked
//	        against OutlineRef (ISO 32000-2 12.3.3): WrittenValid,
//	        WrittenMeans, EveryItemOnce, ReaderAgrees, ReaderCapped; four
//	        mutation switches as negative controls (selftest)
//	P-A     Gen_Outline writes every outline of the bounds with the file the
//	        model's writer produces; each is built with AddItem/AddChild,
//	        written by the real Writer (versions, object streams or not),
//	        and the model's file is rendered by the independent serialiser
//	        (indirect /Title and /Count, /Count 0 on leaves, tables or
//	        streams) for the real reader
//	P-B     what the strict parser finds in the real file, and what the real
//	        outline.Decode answers, are judged by TLC with Trace_Outline
//	        (OutlineRef only); beyond the model: seeded outlines of 33-400
//	        items (crossing the 32-entry flush buffer), wide and deep
package outline

import (
	"bytes"
	"encoding/json"
	"fmt"
	"math/rand"
	"os"
	"path/filepath"
	"strconv"
	"strings"
	"sync"

	"seehuhn.de/go/pdf"
	gooutline "seehuhn.de/go/pdf/outline"

	"verif/harness/core"
	"verif/harness/indep/obj"
	"verif/harness/indep/ser"
	"verif/harness/indep/strict"
)

// Item is an item of an abstract outline (pre-order; P: position of the parent, 0 = top level).
type Item struct {
	P int  `json:"p"`
	O bool `json:"o"`
}

// DItem is an item as read back.
type DItem struct {
	T int  `json:"t"`
	P int  `json:"p"`
	O bool `json:"o"`
}

// Root and Node are the dictionaries of a file (see OutlineRef.tla).
type Root struct {
	First int  `json:"first"`
	Last  int  `json:"last"`
	HC    bool `json:"hc"`
	C     int  `json:"c"`
}
type Node struct {
	T      int  `json:"t"`
	Parent int  `json:"parent"`
	Prev   int  `json:"prev"`
	Next   int  `json:"next"`
	First  int  `json:"first"`
	Last   int  `json:"last"`
	HC     bool `json:"hc"`
	C      int  `json:"c"`
}
type File struct {
	Root  Root   `json:"root"`
	Nodes []Node `json:"nodes"`
}

// Case is a replayable case.
type Case struct {
	Kind    string `json:"kind"` // written | foreign
	Tree    []Item `json:"tree"`
	File    *File  `json:"file,omitempty"` // foreign: the conforming file to render
	Version string `json:"version"`
	Human   bool   `json:"human,omitempty"`
	Seed    int64  `json:"seed"`
	Variant int    `json:"variant,omitempty"` // foreign: spelling bits
	Origin  string `json:"origin"`
}

// Record is what Trace_Outline judges.
type Record struct {
	ID     string  `json:"id"`
	Kind   string  `json:"kind"`
	Clause string  `json:"clause"`
	Tree   []Item  `json:"tree"`
	File   File    `json:"file"`
	Dec    []DItem `json:"dec"`
	DecOK  bool    `json:"decok"`
	decErr string
	c      *Case
}

type genLine struct {
	Tree []Item `json:"tree"`
	File File   `json:"file"`
}

func title(i int) string {
	switch i % 4 {
	case 1:
		return fmt.Sprintf("T%d été", i) // PDFDocEncoding
	case 2:
		return fmt.Sprintf("T%d 中", i) // needs UTF-16
	}
	return fmt.Sprintf("T%d", i)
}

func titleID(s string) int {
	s = strings.TrimPrefix(s, "T")
	if k := strings.IndexByte(s, ' '); k >= 0 {
		s = s[:k]
	}
	n, err := strconv.Atoi(s)
	if err != nil {
		return -1
	}
	return n
}

func versionOf(s string) pdf.Version {
	v, err := pdf.ParseVersion(s)
	if err != nil {
		return pdf.V1_7
	}
	return v
}

// refEncode is the harness's own reading of 12.3.3 for a tree (used for
// outlines beyond the model's bounds; TLC checks it as the premise).
func refEncode(tree []Item) File {
	n := len(tree)
	kids := make([][]int, n+1)
	for i, it := range tree {
		kids[it.P] = append(kids[it.P], i+1)
	}
	open := func(i int) bool { return tree[i-1].O && len(kids[i]) > 0 }
	vis := make([]int, n+1)
	for p := n; p >= 0; p-- { // children come after their parent in pre-order
		for _, k := range kids[p] {
			vis[p]++
			if open(k) {
				vis[p] += vis[k]
			}
		}
	}
	anyOpen := false
	f := File{Nodes: make([]Node, n)}
	for i := 1; i <= n; i++ {
		nd := Node{T: i, Parent: tree[i-1].P}
		sibs := kids[tree[i-1].P]
		for k, s := range sibs {
			if s == i {
				if k > 0 {
					nd.Prev = sibs[k-1]
				}
				if k < len(sibs)-1 {
					nd.Next = sibs[k+1]
				}
			}
		}
		if len(kids[i]) > 0 {
			nd.First, nd.Last = kids[i][0], kids[i][len(kids[i])-1]
			nd.HC = true
			if open(i) {
				nd.C, anyOpen = vis[i], true
			} else {
				nd.C = -vis[i]
			}
		}
		f.Nodes[i-1] = nd
	}
	if len(kids[0]) > 0 {
		f.Root.First, f.Root.Last = kids[0][0], kids[0][len(kids[0])-1]
	}
	if anyOpen {
		f.Root.HC, f.Root.C = true, vis[0]
	}
	return f
}

func minimalPages(w *pdf.Writer) error {
	pageRef, pagesRef := w.Alloc(), w.Alloc()
	if err := w.Put(pageRef, pdf.Dict{"Type": pdf.Name("Page"), "Parent": pagesRef, "Resources": pdf.Dict{},
		"MediaBox": pdf.Array{pdf.Integer(0), pdf.Integer(0), pdf.Integer(100), pdf.Integer(100)}}); err != nil {
		return err
	}
	if err := w.Put(pagesRef, pdf.Dict{"Type": pdf.Name("Pages"), "Kids": pdf.Array{pageRef}, "Count": pdf.Integer(1)}); err != nil {
		return err
	}
	w.GetMeta().Catalog.Pages = pagesRef
	return nil
}

// writeReal builds the outline through the public API and writes it.
func writeReal(c *Case) (data []byte, err error) {
	defer func() {
		if p := recover(); p != nil {
			err = fmt.Errorf("panic: %v", p)
		}
	}()
	var buf bytes.Buffer
	var opt *pdf.WriterOptions
	if c.Human {
		opt = &pdf.WriterOptions{HumanReadable: true}
	}
	w, err := pdf.NewWriter(&buf, versionOf(c.Version), opt)
	if err != nil {
		return nil, fmt.Errorf("pdf.NewWriter: %v", err)
	}
	if err := minimalPages(w); err != nil {
		return nil, err
	}
	ol := &gooutline.Outline{}
	items := make([]*gooutline.Item, len(c.Tree)+1)
	for i, it := range c.Tree {
		var x *gooutline.Item
		if it.P == 0 {
			x = ol.AddItem(title(i + 1))
		} else {
			x = items[it.P].AddChild(title(i + 1))
		}
		x.Open = it.O
		items[i+1] = x
	}
	rm := pdf.NewResourceManager(w)
	ref, err := rm.Store(ol)
	if err != nil {
		return nil, fmt.Errorf("Store(outline): %v", err)
	}
	if ref != 0 {
		w.GetMeta().Catalog.Outlines = ref
	}
	if err := rm.Close(); err != nil {
		return nil, fmt.Errorf("ResourceManager.Close: %v", err)
	}
	if err := w.Close(); err != nil {
		return nil, fmt.Errorf("Writer.Close: %v", err)
	}
	return buf.Bytes(), nil
}

// renderForeign renders a conforming outline with the independent serialiser.
// Object 1: catalog, 2: pages, 3: page, 4: outline root, node i: object 4+i.
func renderForeign(c *Case) (data []byte, err error) {
	defer func() {
		if p := recover(); p != nil {
			err = fmt.Errorf("serialiser: %v", p)
		}
	}()
	f := c.File
	rng := rand.New(rand.NewSource(c.Seed ^ 0x0071))
	kind := ser.Table
	if c.Variant&1 != 0 {
		kind = ser.Stream
	}
	next := uint32(5 + len(f.Nodes))
	var ops []ser.Op
	inStm := func() bool { return kind == ser.Stream && c.Variant&2 != 0 && rng.Intn(3) != 0 }
	ind := func(on bool, v obj.Value) obj.Value {
		if !on {
			return v
		}
		num := next
		next++
		ops = append(ops, ser.Op{Num: num, Kind: ser.Define, Value: v, InObjStm: inStm()})
		return obj.Ref{Num: num}
	}
	ref := func(i int) obj.Value { return obj.Ref{Num: uint32(4 + i)} }
	root := obj.Dict{}
	if c.Variant&4 != 0 {
		root["Type"] = obj.Name("Outlines")
	}
	if f.Root.First > 0 {
		root["First"], root["Last"] = ref(f.Root.First), ref(f.Root.Last)
	}
	if f.Root.HC {
		root["Count"] = ind(c.Variant&8 != 0, obj.Int(f.Root.C))
	}
	ops = append(ops,
		ser.Op{Num: 1, Kind: ser.Define, Value: obj.Dict{"Type": obj.Name("Catalog"), "Pages": obj.Ref{Num: 2}, "Outlines": obj.Ref{Num: 4}}},
		ser.Op{Num: 2, Kind: ser.Define, Value: obj.Dict{"Type": obj.Name("Pages"), "Kids": obj.Array{obj.Ref{Num: 3}}, "Count": obj.Int(1)}},
		ser.Op{Num: 3, Kind: ser.Define, Value: obj.Dict{"Type": obj.Name("Page"), "Parent": obj.Ref{Num: 2}, "Resources": obj.Dict{},
			"MediaBox": obj.Array{obj.Int(0), obj.Int(0), obj.Int(100), obj.Int(100)}}},
		ser.Op{Num: 4, Kind: ser.Define, Value: root, InObjStm: inStm()})
	for i, nd := range f.Nodes {
		d := obj.Dict{"Title": ind(c.Variant&16 != 0 && rng.Intn(2) == 0, obj.Str(fmt.Sprintf("T%d", nd.T)))}
		if nd.Parent == 0 {
			d["Parent"] = obj.Ref{Num: 4}
		} else {
			d["Parent"] = ref(nd.Parent)
		}
		if nd.Prev > 0 {
			d["Prev"] = ref(nd.Prev)
		}
		if nd.Next > 0 {
			d["Next"] = ref(nd.Next)
		}
		if nd.First > 0 {
			d["First"], d["Last"] = ref(nd.First), ref(nd.Last)
		}
		if nd.HC {
			d["Count"] = ind(c.Variant&8 != 0 && rng.Intn(2) == 0, obj.Int(nd.C))
		} else if c.Variant&32 != 0 && rng.Intn(2) == 0 {
			d["Count"] = obj.Int(0) // a leaf may carry /Count 0
		}
		ops = append(ops, ser.Op{Num: uint32(5 + i), Kind: ser.Define, Value: d, InObjStm: inStm()})
	}
	doc := &ser.Doc{Version: c.Version, Revisions: []ser.Revision{{Kind: kind, Ops: ops, Trailer: obj.Dict{"Root": obj.Ref{Num: 1}}}}}
	return ser.Render(doc, &ser.Options{Seed: c.Seed}), nil
}

// extract reads the outline dictionaries of a file with the strict parser.
func extract(data []byte) (File, error) {
	var out File
	out.Nodes = []Node{}
	sf, err := strict.Parse(data)
	if err != nil {
		return out, fmt.Errorf("strict parser: %v", err)
	}
	get := func(v obj.Value) obj.Value {
		for k := 0; k < 8; k++ {
			r, ok := v.(obj.Ref)
			if !ok {
				return v
			}
			v, ok = sf.Lookup(r)
			if !ok {
				return obj.Null{}
			}
		}
		return obj.Null{}
	}
	rootRefV, ok := sf.Sections[0].Trailer["Root"]
	if !ok {
		return out, fmt.Errorf("no /Root")
	}
	cat, ok := get(rootRefV).(obj.Dict)
	if !ok {
		return out, fmt.Errorf("no catalog")
	}
	oref, ok := cat["Outlines"].(obj.Ref)
	if !ok {
		return out, fmt.Errorf("catalog without an indirect /Outlines")
	}
	rootD, ok := get(oref).(obj.Dict)
	if !ok {
		return out, fmt.Errorf("/Outlines is not a dictionary")
	}
	index := map[obj.Ref]int{}
	var order []obj.Ref
	var queue []obj.Ref
	visit := func(v obj.Value) {
		r, ok := v.(obj.Ref)
		if !ok || r == oref {
			return
		}
		if _, seen := index[r]; seen {
			return
		}
		d, ok := get(r).(obj.Dict)
		if !ok {
			return
		}
		if _, has := d["Title"]; !has {
			return
		}
		order = append(order, r)
		index[r] = len(order)
		queue = append(queue, r)
	}
	links := []obj.Name{"First", "Next", "Last", "Prev", "Parent"}
	for _, k := range links[:3] {
		visit(rootD[k])
	}
	for len(queue) > 0 {
		r := queue[0]
		queue = queue[1:]
		d := get(r).(obj.Dict)
		for _, k := range links {
			visit(d[k])
		}
		if len(order) > 100000 {
			return out, fmt.Errorf("more than 100000 outline dictionaries")
		}
	}
	link := func(v obj.Value, parent bool) int {
		if v == nil {
			if parent {
				return -1
			}
			return 0
		}
		if _, isNull := v.(obj.Null); isNull {
			if parent {
				return -1
			}
			return 0
		}
		r, ok := v.(obj.Ref)
		if !ok {
			return -1
		}
		if parent && r == oref {
			return 0
		}
		if i, ok := index[r]; ok {
			return i
		}
		return -1
	}
	count := func(v obj.Value) (bool, int) {
		if v == nil {
			return false, 0
		}
		if n, ok := get(v).(obj.Int); ok {
			return true, int(n)
		}
		return true, 1 << 30 // present but not an integer: no valid value
	}
	out.Root.First, out.Root.Last = link(rootD["First"], false), link(rootD["Last"], false)
	out.Root.HC, out.Root.C = count(rootD["Count"])
	for _, r := range order {
		d := get(r).(obj.Dict)
		nd := Node{T: -1, Parent: link(d["Parent"], true), Prev: link(d["Prev"], false), Next: link(d["Next"], false),
			First: link(d["First"], false), Last: link(d["Last"], false)}
		nd.HC, nd.C = count(d["Count"])
		if s, ok := get(d["Title"]).(obj.Str); ok {
			nd.T = titleID(textOf([]byte(s)))
		}
		out.Nodes = append(out.Nodes, nd)
	}
	return out, nil
}

// textOf decodes a text string far enough to find the title number.
func textOf(b []byte) string {
	if len(b) >= 2 && b[0] == 0xfe && b[1] == 0xff {
		var sb strings.Builder
		for i := 2; i+1 < len(b); i += 2 {
			if b[i] == 0 && b[i+1] < 0x80 {
				sb.WriteByte(b[i+1])
			} else {
				sb.WriteByte('?')
			}
		}
		return sb.String()
	}
	if len(b) >= 3 && b[0] == 0xef && b[1] == 0xbb && b[2] == 0xbf {
		return string(b[3:])
	}
	return string(b)
}

// decodeReal is the real reader's answer.
func decodeReal(data []byte) (items []DItem, err error) {
	defer func() {
		if p := recover(); p != nil {
			err = fmt.Errorf("panic: %v", p)
		}
	}()
	items = []DItem{}
	r, err := pdf.NewReader(bytes.NewReader(data), int64(len(data)), nil)
	if err != nil {
		return items, fmt.Errorf("pdf.NewReader: %v", err)
	}
	defer r.Close()
	ol, err := pdf.Decode(pdf.NewCursor(r), r.GetMeta().Catalog.Outlines, gooutline.Decode)
	if err != nil {
		return items, fmt.Errorf("outline.Decode: %v", err)
	}
	if ol == nil {
		return items, fmt.Errorf("outline.Decode: no outline")
	}
	var walk func(list []*gooutline.Item, par int)
	walk = func(list []*gooutline.Item, par int) {
		for _, it := range list {
			items = append(items, DItem{T: titleID(it.Title), P: par, O: it.Open})
			walk(it.Children, len(items))
		}
	}
	walk(ol.Items, 0)
	return items, nil
}

// Execute runs one case on the real code.
func Execute(c *Case) (*Record, error) {
	rec := &Record{Kind: c.Kind, Clause: "all", Tree: c.Tree, c: c, Dec: []DItem{}}
	if rec.Tree == nil {
		rec.Tree = []Item{}
	}
	var data []byte
	var err error
	switch c.Kind {
	case "written":
		data, err = writeReal(c)
		if err != nil {
			// the writer refused or failed: nothing in the file
			rec.File = File{Nodes: []Node{}}
			rec.decErr = err.Error()
			return rec, nil
		}
		rec.File, err = extract(data)
		if err != nil {
			rec.decErr = err.Error()
			rec.File = File{Nodes: []Node{}}
			return rec, nil
		}
	case "foreign":
		data, err = renderForeign(c)
		if err != nil {
			return nil, core.Infra("outline: %v", err)
		}
		rec.File = *c.File
		// the premise is about what is in the file: read it back independently
		got, err := extract(data)
		if err != nil {
			return nil, core.Infra("outline: the rendered foreign file cannot be read back: %v", err)
		}
		if !sameShape(got, *c.File) {
			return nil, core.Infra("outline: the rendered foreign file is not the outline that was handed in")
		}
	default:
		return nil, core.Infra("outline: unknown case kind %q", c.Kind)
	}
	dec, derr := decodeReal(data)
	rec.Dec, rec.DecOK = dec, derr == nil
	if derr != nil {
		rec.decErr = derr.Error()
	}
	return rec, nil
}

// sameShape compares two files up to the numbering of the nodes (titles identify them).
func sameShape(a, b File) bool {
	if len(a.Nodes) != len(b.Nodes) {
		return false
	}
	ta := func(f File, i int) int {
		if i <= 0 {
			return i
		}
		return f.Nodes[i-1].T
	}
	if ta(a, a.Root.First) != ta(b, b.Root.First) || ta(a, a.Root.Last) != ta(b, b.Root.Last) || a.Root.HC != b.Root.HC || (a.Root.HC && a.Root.C != b.Root.C) {
		return false
	}
	byT := map[int]Node{}
	for _, n := range b.Nodes {
		byT[n.T] = n
	}
	for _, n := range a.Nodes {
		m, ok := byT[n.T]
		if !ok {
			return false
		}
		if ta(a, n.Parent) != ta(b, m.Parent) || ta(a, n.Prev) != ta(b, m.Prev) || ta(a, n.Next) != ta(b, m.Next) ||
			ta(a, n.First) != ta(b, m.First) || ta(a, n.Last) != ta(b, m.Last) {
			return false
		}
		// a leaf's /Count 0 is a spelling
		if (n.HC && n.C != 0) != (m.HC && m.C != 0) || (n.HC && m.HC && n.C != m.C) {
			return false
		}
	}
	return true
}

func randomTree(r *rand.Rand, n, maxDepth int, shape string) []Item {
	tree := make([]Item, 0, n)
	depth := []int{0}
	path := []int{0} // rightmost path: positions
	for i := 1; i <= n; i++ {
		var k int
		switch shape {
		case "deep":
			k = len(path) - 1
			if r.Intn(6) == 0 {
				k = r.Intn(len(path))
			}
		case "wide":
			k = 0
			if r.Intn(3) == 0 && len(path) > 1 {
				k = 1
			}
		default:
			k = r.Intn(len(path))
		}
		if k+1 > maxDepth {
			k = maxDepth - 1
		}
		par := path[k]
		tree = append(tree, Item{P: par, O: r.Intn(2) == 0})
		path = append(path[:k+1], i)
		depth = append(depth, k+1)
	}
	return tree
}

var versions = []string{"1.4", "1.7", "2.0", "1.2", "1.5"}

var judgeOpts = core.TLCOpts{Dir: "nav", Module: "Trace_Outline", Cfg: "Trace_Outline.cfg", XssMB: 512}

func executeAll(cases []*Case) ([]*Record, error) {
	recs := make([]*Record, len(cases))
	errs := make([]error, len(cases))
	var wg sync.WaitGroup
	sem := make(chan struct{}, 12)
	for i := range cases {
		wg.Add(1)
		sem <- struct{}{}
		go func(i int) {
			defer wg.Done()
			defer func() { <-sem }()
			recs[i], errs[i] = Execute(cases[i])
			if recs[i] != nil {
				recs[i].ID = fmt.Sprintf("%s#%d", cases[i].Origin, i)
			}
		}(i)
	}
	wg.Wait()
	for _, e := range errs {
		if e != nil {
			return nil, e
		}
	}
	return recs, nil
}

// clausesOf names the clauses each rejected record fails (one TLC run for all).
func clausesOf(ctx *core.Ctx, rs []*Record) ([][]string, error) {
	var recs []*Record
	var owner []int
	var name []string
	for k, r := range rs {
		names := []string{"tree", "counts", "means", "decoded"}
		if r.Kind == "foreign" {
			names = []string{"premise", "r_decoded"}
		}
		for _, n := range names {
			c := *r
			c.Clause = n
			recs = append(recs, &c)
			owner = append(owner, k)
			name = append(name, n)
		}
	}
	bad, err := core.JudgeCases(ctx, judgeOpts, recs, 400, 8)
	if err != nil {
		return nil, err
	}
	out := make([][]string, len(rs))
	for _, b := range bad {
		out[owner[b]] = append(out[owner[b]], name[b])
	}
	return out, nil
}

// Run is the entry point (called from C16).
func Run(ctx *core.Ctx) error {
	ctx.Ev.Assume("extension outline: the strict parser's reading of the outline dictionaries (links by object identity, /Count resolved) is the observer of what was written; titles identify the items")
	stats := map[string]any{}

	// 1. the design model
	cfgs := []string{"MC_Outline_q.cfg", "MC_Outline_cap.cfg"}
	if ctx.Thorough() {
		cfgs = append(cfgs, "MC_Outline_t.cfg")
	}
	var states int64
	for _, cfg := range cfgs {
		res, err := ctx.MustHold(core.TLCOpts{Dir: "nav", Module: "Outline", Cfg: cfg, Workers: 8, Timeout: ctx.Dur(8, 20), XssMB: 512,
			Constants: "q: outlines of up to 6 items, depth 4, flush buffer of 3; cap: reader depth cap 2; t: 8 items, depth 5"})
		if err != nil {
			return err
		}
		states += res.Distinct
	}

	// 2. P-A: every outline of the generator's bounds
	gcfg := "Gen_Outline_q.cfg"
	if ctx.Thorough() {
		gcfg = "Gen_Outline_t.cfg"
	}
	raw, res, err := core.GenCases[string](ctx, core.TLCOpts{Dir: "nav", Module: "Gen_Outline", Cfg: gcfg, Workers: 1, Timeout: ctx.Dur(8, 20), XssMB: 512, Mode: "evaluate",
		Constants: "q: outlines of up to 5 items; t: up to 7 items"})
	if err != nil {
		return err
	}
	// (CSVWrite puts the JSON text of a line into a JSON string)
	// and TLC may evaluate an action more than once: one line per distinct outline)
	var lines []genLine
	seenLine := map[string]bool{}
	for i, text := range raw {
		if seenLine[text] {
			continue
		}
		seenLine[text] = true
		var l genLine
		if err := json.Unmarshal([]byte(text), &l); err != nil {
			return core.Infra("outline: Gen_Outline line %d: %v", i, err)
		}
		lines = append(lines, l)
	}
	if int64(len(lines)) != res.Distinct-1 {
		return core.Infra("outline: Gen_Outline wrote %d lines for %d states", len(lines), res.Distinct)
	}
	var cases []*Case
	for i, l := range lines {
		l := l
		cases = append(cases, &Case{Kind: "written", Tree: l.Tree, Version: versions[i%len(versions)], Human: i%3 == 0, Seed: ctx.Seed + int64(i), Origin: "table"})
		f := l.File
		cases = append(cases, &Case{Kind: "foreign", Tree: l.Tree, File: &f, Version: []string{"1.7", "1.4", "2.0"}[i%3], Seed: ctx.Seed + int64(i), Variant: (i*7 + int(ctx.Seed)) % 64, Origin: "table"})
	}
	// 3. beyond the model: seeded outlines crossing the flush buffer
	rng := ctx.Rand("outline-random")
	nRandom := ctx.Pick(60, 400)
	for k := 0; k < nRandom; k++ {
		n := []int{31, 32, 33, 34, 63, 64, 65, 66, 97, 129, 200, 400}[k%12]
		shape := []string{"any", "deep", "wide"}[k%3]
		tree := randomTree(rng, n+rng.Intn(3), 3+rng.Intn(60), shape)
		cases = append(cases, &Case{Kind: "written", Tree: tree, Version: versions[k%len(versions)], Human: k%4 == 0, Seed: ctx.Seed + int64(k), Origin: "random/" + shape})
		if k%2 == 0 {
			f := refEncode(tree)
			cases = append(cases, &Case{Kind: "foreign", Tree: tree, File: &f, Version: "1.7", Seed: ctx.Seed + int64(k), Variant: rng.Intn(64), Origin: "random/" + shape})
		}
	}
	recs, err := executeAll(cases)
	if err != nil {
		return err
	}
	bad, err := core.JudgeCases(ctx, judgeOpts, recs, 400, 12)
	if err != nil {
		return err
	}
	findings := map[string]int{}
	var badRecs []*Record
	for _, b := range bad {
		badRecs = append(badRecs, recs[b])
	}
	clauses, err := clausesOf(ctx, badRecs)
	if err != nil {
		return err
	}
	for k, r := range badRecs {
		cl := clauses[k]
		if r.Kind == "foreign" {
			for _, c := range cl {
				if c == "premise" {
					return core.Infra("outline: the harness's foreign outline is not conforming (%s)", r.ID)
				}
			}
		}
		key := r.Kind + "/" + strings.Join(cl, "+")
		findings[key]++
		if findings[key] > 1 {
			continue
		}
		path := ""
		dir := filepath.Join(os.Getenv("VERIF_OUT"), "replays", "outline")
		if os.Getenv("VERIF_OUT") == "" {
			dir = filepath.Join(ctx.VerifDir, "replays", "outline")
		}
		if err := os.MkdirAll(dir, 0o755); err == nil {
			path = filepath.Join(dir, strings.NewReplacer("/", "_", "+", "_").Replace(key)+".json")
			data, _ := json.MarshalIndent(map[string]any{"extension": "outline", "key": key, "case": r.c, "file": r.File, "decoded": r.Dec, "error": r.decErr}, "", " ")
			_ = os.WriteFile(path, data, 0o644)
		}
		fmt.Printf("NOTE extension=outline key=%s outline of %d items (%s, PDF %s): rejected by Trace_Outline, clauses %v; %s | replay=%s\n",
			key, len(r.Tree), r.c.Origin, r.c.Version, cl, r.decErr, path)
	}
	nw, nf := 0, 0
	for _, c := range cases {
		if c.Kind == "written" {
			nw++
		} else {
			nf++
		}
	}
	ctx.Ev.AddReplayed(len(cases))
	stats["model_states"] = states
	stats["outlines_written_by_the_real_writer"] = nw
	stats["foreign_outlines_read_by_the_real_reader"] = nf
	stats["records_rejected"] = len(bad)
	stats["finding_classes"] = findings
	ctx.Ev.Set("extension_outline", stats)
	ctx.Logf("outline: %d model states; %d outlines written and %d foreign outlines read on the real code, %d records rejected", states, nw, nf, len(bad))
	return nil
}

// SelfTest: the mutation switches of the model must be found, a corrupted
// record must be singled out.
func SelfTest(ctx *core.Ctx) error {
	for cfg, inv := range map[string]string{"MC_Outline_neg_closedChildCountsAll.cfg": "WrittenValid", "MC_Outline_neg_lastIsSecond.cfg": "WrittenValid",
		"MC_Outline_neg_rootCountAlways.cfg": "WrittenValid", "MC_Outline_neg_noFinalFlush.cfg": "EveryItemOnce"} {
		res, err := ctx.TLC(core.TLCOpts{Dir: "nav", Module: "Outline", Cfg: cfg, Workers: 4, Mode: "negative-control"})
		if err != nil {
			return err
		}
		if res.Invariant != inv {
			return core.Infra("self-test: %s should violate %s, got %q", cfg, inv, res.Invariant)
		}
	}
	tree := []Item{{0, true}, {1, false}, {2, false}, {1, false}, {0, false}}
	good, err := Execute(&Case{Kind: "written", Tree: tree, Version: "1.7", Origin: "selftest"})
	if err != nil {
		return err
	}
	mk := func(f func(r *Record)) *Record {
		c := *good
		c.File.Nodes = append([]Node{}, good.File.Nodes...)
		c.Dec = append([]DItem{}, good.Dec...)
		f(&c)
		return &c
	}
	recs := []*Record{good,
		mk(func(r *Record) { r.File.Nodes[0].C++ }),
		mk(func(r *Record) { r.File.Nodes[0].Parent = 2 }),
		mk(func(r *Record) { r.File.Root.HC = false }),
		mk(func(r *Record) { r.Dec[1].O = true }),
		mk(func(r *Record) { r.Dec = r.Dec[:len(r.Dec)-1] }),
	}
	bad, err := core.JudgeCases(ctx, judgeOpts, recs, 100, 1)
	if err != nil {
		return err
	}
	if fmt.Sprint(bad) != "[1 2 3 4 5]" {
		return core.Infra("self-test outline: corrupted records not singled out: rejected %v, want [1 2 3 4 5]", bad)
	}
	ctx.Logf("self-test outline: 4 defective models violate their invariants, 5 corrupted records rejected, the intact record accepted")
	return nil
}
