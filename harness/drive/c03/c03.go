// Package c03 judges the bytes the real pdf.Writer produces through the
// independent strict parser (harness/indep/strict, no go-pdf code) and the
// TLA+ predicate PdfFile!WellFormed (pattern P-D): the observed abstract file
// is the state, TLC evaluates the well-formedness clauses of property C03 and
// that the values the strict parser extracts equal what the program wrote.
// The files come from the same TLC-generated programs as C02.
package c03

import (
	"crypto/sha256"
	"encoding/hex"
	"encoding/json"
	"fmt"
	"os"
	"sort"

	"verif/harness/core"
	"verif/harness/drive/c02"
	"verif/harness/indep/obj"
	"verif/harness/indep/secure"
	"verif/harness/indep/strict"
)

var Driver = core.Driver{ID: "C03", Level: "model_checking", Run: run, Replay: replay, SelfTest: selfTest}

type writtenRec struct {
	N    int    `json:"n"`
	G    int    `json:"g"`
	Kind string `json:"kind"` // plain | stream
	V    any    `json:"v"`    // obj.JSON of the value (stream: of the dictionary handed to OpenStream)
	Sha  string `json:"sha"`  // stream: SHA-256 of the body written
}

type record struct {
	Cfg       c02.Config   `json:"cfg"`
	StrictErr string       `json:"stricterr"`
	File      any          `json:"file"`
	Written   []writtenRec `json:"written"`
	Version   string       `json:"version"` // header version as the strict parser read it
	IDLens    []int        `json:"idlens"`  // byte lengths of the parts of the trailer /ID ([] if absent)
}

func stripLit(v obj.Value) obj.Value {
	switch x := v.(type) {
	case obj.Real:
		return obj.Real{F: x.F}
	case obj.Array:
		out := make(obj.Array, len(x))
		for i, e := range x {
			out[i] = stripLit(e)
		}
		return out
	case obj.Dict:
		out := obj.Dict{}
		for k, e := range x {
			out[k] = stripLit(e)
		}
		return out
	case *obj.Stream:
		return &obj.Stream{Dict: stripLit(x.Dict).(obj.Dict), Raw: x.Raw}
	}
	return v
}

// Observe parses the produced bytes strictly and projects them to the record
// TLC judges.  Encrypted files are decrypted with the independent security
// handler (harness/indep/secure).
func Observe(r c02.Run) record {
	rec := record{Cfg: r.Cfg, Written: []writtenRec{}, IDLens: []int{}}
	keys := make([][2]int, 0, len(r.Written))
	for k := range r.Written {
		keys = append(keys, k)
	}
	sort.Slice(keys, func(i, j int) bool {
		return keys[i][0] < keys[j][0] || keys[i][0] == keys[j][0] && keys[i][1] < keys[j][1]
	})
	for _, k := range keys {
		w := r.Written[k]
		wr := writtenRec{N: k[0], G: r.ConcreteGen(k[1]), Kind: "plain", V: obj.JSON(w.Value)}
		if w.Stream {
			h := sha256.Sum256(w.Body)
			wr.Kind, wr.Sha = "stream", hex.EncodeToString(h[:])
		}
		rec.Written = append(rec.Written, wr)
	}
	f, err := strict.Parse(r.Data)
	if err != nil {
		rec.StrictErr = err.Error()
		rec.File = map[string]any{}
		return rec
	}
	if f.Encrypted {
		if err := installDecrypt(f, r.Cfg); err != nil {
			rec.StrictErr = "independent security handler: " + err.Error()
			rec.File = map[string]any{}
			return rec
		}
	}
	// numeric fidelity of reals is outside the model: compare by value
	for _, o := range f.Objects {
		if f.Encrypted {
			if _, isStm := o.Value.(*obj.Stream); !isStm {
				if v, err := f.DecryptValue(o.Ref, o.Value); err == nil {
					o.Value = v
				} else {
					rec.StrictErr = "decrypting " + o.Ref.String() + ": " + err.Error()
				}
			} else {
				st := o.Value.(*obj.Stream)
				if t, _ := st.Dict["Type"].(obj.Name); t != "XRef" {
					if d, err := f.DecryptValue(o.Ref, st.Dict); err == nil {
						st.Dict = d.(obj.Dict)
					}
				}
			}
		}
		o.Value = stripLit(o.Value)
		if o.ObjStm != nil {
			for i := range o.ObjStm.Members {
				o.ObjStm.Members[i].Value = stripLit(o.ObjStm.Members[i].Value)
			}
		}
	}
	rec.File = strict.ToJSON(f)
	rec.Version = f.Version
	if id, ok := f.Trailer()["ID"].(obj.Array); ok {
		for _, part := range id {
			if str, ok := part.(obj.Str); ok {
				rec.IDLens = append(rec.IDLens, len(str))
			} else {
				rec.IDLens = append(rec.IDLens, -1)
			}
		}
	}
	return rec
}

func installDecrypt(f *strict.File, cfg c02.Config) error {
	tr := f.Trailer()
	encV, ok := tr["Encrypt"]
	if !ok {
		return fmt.Errorf("no /Encrypt in the trailer")
	}
	if ref, isRef := encV.(obj.Ref); isRef {
		v, ok := f.Lookup(ref)
		if !ok {
			return fmt.Errorf("dangling /Encrypt")
		}
		encV = v
	}
	enc, ok := encV.(obj.Dict)
	if !ok {
		return fmt.Errorf("/Encrypt is not a dictionary")
	}
	var id0 []byte
	if ids, ok := tr["ID"].(obj.Array); ok && len(ids) > 0 {
		if s, ok := ids[0].(obj.Str); ok {
			id0 = s
		}
	}
	h, err := secure.Parse(enc, id0)
	if err != nil {
		return err
	}
	pw := "u-secret"
	if cfg.Enc == "owner" {
		pw = "o-secret"
	}
	key, _, err := h.Authenticate(pw)
	if err != nil {
		return err
	}
	return f.SetDecrypt(func(ref obj.Ref, isStream bool, data []byte) ([]byte, error) {
		k, aes, ok := h.KeyFor(key, ref.Num, ref.Gen, isStream)
		if !ok {
			return data, nil
		}
		return secure.Decrypt(k, aes, data)
	})
}

func run(ctx *core.Ctx) error {
	ctx.Ev.Rule = "a case is one file produced by pdf.Writer from a TLC-generated or seeded write program, parsed by the independent strict parser; non-trivial = the file holds at least two program objects; distinct = distinct (program, configuration)"
	ctx.Ev.Assume("harness/indep/strict is a faithful strict reading of ISO 32000 7.2-7.5 (trusted observer; it shares no code with go-pdf); encrypted files are decrypted by harness/indep/secure")
	// the design model: reachable closed states of PdfWriter satisfy the
	// abstract well-formedness invariants (shared with C02)
	kinds := []string{"r", "q"} // MaxOps 3 with two value ids, MaxOps 4 with one
	if ctx.Thorough() {
		kinds = []string{"u", "t"} // MaxOps 4 with two value ids, MaxOps 5 with one
	}
	if os.Getenv("VERIF_C03_ONLY") == "giant" { // developer switch: time this part alone
		return giantObjectStreams(ctx)
	}
	for _, kind := range kinds {
		for _, f := range c02.Families {
			if _, err := ctx.MustHold(core.TLCOpts{Dir: "file", Module: "PdfWriter", Cfg: "MC_PdfWriter_" + kind + "_" + f.String() + ".cfg", Workers: 12,
				Timeout: ctx.Dur(8, 30), Constants: fmt.Sprintf("MaxNum=3, MaxMembers=2, OBJSTM=%v, SEEKABLE=%v; r: Vals={a,b}, MaxOps=3; q: Vals={a}, MaxOps=4; u: Vals={a,b}, MaxOps=4; t: Vals={a}, MaxOps=5", f.ObjStm, f.Seekable)}); err != nil {
				return err
			}
		}
	}
	if ctx.Thorough() {
		if err := giantObjectStreams(ctx); err != nil {
			return err
		}
	}
	if err := manyObjects(ctx); err != nil {
		return err
	}
	for _, f := range c02.Families {
		progs, _, _, err := c02.Programs(ctx, f, ctx.Pick(500, 6000))
		if err != nil {
			return err
		}
		jobs := c02.Jobs(ctx, f, progs)
		// files around the field-width boundaries of the cross-reference data
		jobs = append(jobs, c02.BoundaryJobs(ctx, f, ctx.Pick(40, 400), 300)...)
		runs, err := c02.ExecuteAll(jobs)
		if err != nil {
			return err
		}
		var recs []record
		var idx []int
		for i, r := range runs {
			if !r.Closed {
				continue
			}
			recs = append(recs, Observe(r))
			idx = append(idx, i)
			ctx.Ev.Eval(1)
			if len(r.Written) >= 2 {
				ctx.Ev.Distinct(fmt.Sprintf("%+v|%d", r.Cfg, i))
			}
		}
		ctx.Ev.AddReplayed(len(progs))
		bad, err := core.JudgeCases(ctx, core.TLCOpts{Dir: "file", Module: "Trace_PdfFileObserved", Cfg: "Trace_PdfFileObserved.cfg",
			Timeout: ctx.Dur(10, 40), XssMB: 512}, recs, 100, 12)
		if err != nil {
			return err
		}
		counts := map[string]int{}
		for _, b := range bad {
			key, what := classify(recs[b])
			counts[key]++
			if counts[key] <= 2 {
				j := jobs[idx[b]]
				ctx.Violation(key, what, map[string]any{"cfg": j.Cfg, "prog": j.Prog, "seed": j.Seed})
			}
		}
		for _, k := range core.SortedKeys(counts) {
			ctx.Logf("rejected files with key %s: %d", k, counts[k])
		}
		if len(recs) > 0 {
			r := recs[len(recs)/2]
			ctx.Ev.Sample(map[string]any{"kind": "file judged by PdfFile!WellFormed", "cfg": r.Cfg, "written": r.Written, "sections": summary(r.File)})
		}
	}
	return nil
}

// giantObjectStreams writes object streams with more members than the
// Reader's own per-stream limit (10 000) in one WriteCompressed call and has
// the strict parser judge the result.
func giantObjectStreams(ctx *core.Ctx) error {
	var recs []record
	for _, n := range []int{9999, 10000, 10001, 20003} {
		r, err := c02.ExecuteGiant(c02.Config{Version: "1.7", Enc: "none"}, n)
		if err != nil {
			return core.Infra("giant object stream: %v", err)
		}
		recs = append(recs, Observe(r))
		ctx.Ev.Eval(1)
		ctx.Ev.Distinct(fmt.Sprintf("giant-objstm-%d", n))
	}
	bad, err := core.JudgeCases(ctx, core.TLCOpts{Dir: "file", Module: "Trace_PdfFileObserved", Cfg: "Trace_PdfFileObserved.cfg",
		Timeout: ctx.Dur(10, 40), XssMB: 1024, XmxMB: 8000}, recs, 1, 4)
	if err != nil {
		return err
	}
	for _, b := range bad {
		key, what := classify(recs[b])
		ctx.Violation(key+"/giant-objstm", what, map[string]any{"giant": len(recs[b].Written)})
	}
	return nil
}

// manyObjects: files with thousands of plain objects of irregular size, so
// that the cross-reference stream itself is longer than the stream writer's
// buffering threshold (its /Length handling differs on non-seekable sinks) and
// the cross-reference table is long.
func manyObjects(ctx *core.Ctx) error {
	var recs []record
	r := ctx.Rand("many-objects")
	for _, cfg := range []c02.Config{
		{Version: "1.7", Seekable: false}, {Version: "1.7", Seekable: true}, {Version: "1.4", Seekable: false}, {Version: "2.0", Human: true, Seekable: false},
	} {
		n := ctx.Pick(1500, 4000) + r.Intn(200)
		run, err := c02.ExecuteMany(cfg, n, r.Int63())
		if err != nil {
			return core.Infra("many objects: %v", err)
		}
		recs = append(recs, Observe(run))
		ctx.Ev.Eval(1)
		ctx.Ev.Distinct(fmt.Sprintf("many-objects-%+v-%d", cfg, n))
	}
	bad, err := core.JudgeCases(ctx, core.TLCOpts{Dir: "file", Module: "Trace_PdfFileObserved", Cfg: "Trace_PdfFileObserved.cfg",
		Timeout: ctx.Dur(10, 40), XssMB: 1024, XmxMB: 8000}, recs, 1, 4)
	if err != nil {
		return err
	}
	for _, b := range bad {
		key, what := classify(recs[b])
		ctx.Violation(key+"/many-objects", what, map[string]any{"many": len(recs[b].Written), "cfg": recs[b].Cfg})
	}
	return nil
}

func summary(file any) any {
	m, ok := file.(map[string]any)
	if !ok {
		return nil
	}
	return map[string]any{"startxref": m["startxref"], "size": m["size"], "filelen": m["filelen"], "problems": m["problems"]}
}

// classify names the failed clause using the strict parser's own diagnosis
// (for the known-findings key only; the verdict is TLC's).
func classify(r record) (string, string) {
	cfg := fmt.Sprintf("objstm=%v/seekable=%v/enc=%s/human=%v", r.Cfg.ObjStm(), r.Cfg.Seekable, r.Cfg.Enc, r.Cfg.Human)
	if r.StrictErr != "" {
		return "strict-parse/" + cfg, "the strict parser refuses the file: " + r.StrictErr
	}
	if m, ok := r.File.(map[string]any); ok {
		if ps, ok := m["problems"].([]any); ok {
			for _, x := range ps {
				p := x.(map[string]any)
				if p["clause"] == "object0" {
					continue // the remark Trace_PdfFileObserved tolerates
				}
				return fmt.Sprintf("wellformed/%v/%s", p["clause"], cfg), fmt.Sprintf("clause %v: %v", p["clause"], p["msg"])
			}
		}
	}
	idBad := len(r.IDLens) != 0 && len(r.IDLens) != 2
	for _, l := range r.IDLens {
		if l < 0 || r.Version == "2.0" && l < 16 {
			idBad = true
		}
	}
	if idBad || r.Version == "2.0" && len(r.IDLens) != 2 {
		return "wellformed/id/" + cfg, fmt.Sprintf("trailer /ID of a PDF %s file has parts of %v bytes (PDF 2.0: two parts of at least 16 bytes)", r.Version, r.IDLens)
	}
	return "extracted-differs/" + cfg, "the values the strict parser extracts differ from what the program wrote"
}

func replay(ctx *core.Ctx, raw json.RawMessage) error {
	var c struct {
		Cfg  c02.Config `json:"cfg"`
		Prog []c02.Op   `json:"prog"`
		Seed int64      `json:"seed"`
	}
	if err := json.Unmarshal(raw, &c); err != nil {
		return core.Infra("replay: %v", err)
	}
	for i := range c.Prog {
		if c.Prog[i].Ns == nil {
			c.Prog[i].Ns, c.Prog[i].Vs = []int{}, []string{}
		}
	}
	r, err := c02.Execute(c.Cfg, c.Prog, c.Seed)
	if err != nil {
		return core.Infra("replay: %v", err)
	}
	if !r.Closed {
		fmt.Println("program does not close the file on this tree")
		return nil
	}
	rec := Observe(r)
	bad, err := core.JudgeCases(ctx, core.TLCOpts{Dir: "file", Module: "Trace_PdfFileObserved", Cfg: "Trace_PdfFileObserved.cfg", XssMB: 512}, []record{rec}, 1, 1)
	if err != nil {
		return err
	}
	if len(bad) > 0 {
		key, what := classify(rec)
		fmt.Printf("  %s\n", what)
		ctx.Violation(key, what, c)
	}
	return nil
}

func selfTest(ctx *core.Ctx) error {
	prog := []c02.Op{{Op: "Put", N: 1, V: "a"}, {Op: "OpenStream", N: 2, V: "b", Lg: "none"}, {Op: "StreamWrite", K: 2},
		{Op: "CloseStream"}, {Op: "WriteCompressed", Ns: []int{6, 7}, Vs: []string{"a", "b"}}, {Op: "Close"}}
	for i := range prog {
		if prog[i].Ns == nil {
			prog[i].Ns, prog[i].Vs = []int{}, []string{}
		}
	}
	mk := func(mut func([]byte) []byte) record {
		r, err := c02.Execute(c02.Config{Version: "1.7", Enc: "none"}, append([]c02.Op(nil), prog...), 3)
		if err != nil || !r.Closed {
			panic(fmt.Sprint("selftest program failed: ", err))
		}
		if mut != nil {
			r.Data = mut(r.Data)
		}
		return Observe(r)
	}
	good := mk(nil)
	// corrupt the file: shift an object by inserting a space before "1 0 obj"
	shifted := mk(func(d []byte) []byte {
		i := indexOf(d, "1 0 obj")
		return append(append(append([]byte{}, d[:i]...), ' '), d[i:]...)
	})
	// corrupt the observation: claim a different written value
	wrongVal := mk(nil)
	wrongVal.Written[0].V = obj.JSON(obj.Int(42))
	bad, err := core.JudgeCases(ctx, core.TLCOpts{Dir: "file", Module: "Trace_PdfFileObserved", Cfg: "Trace_PdfFileObserved.cfg", XssMB: 512},
		[]record{good, shifted, good, wrongVal}, 10, 1)
	if err != nil {
		return err
	}
	if fmt.Sprint(bad) != "[1 3]" {
		return core.Infra("self-test: corrupted files not singled out: %v", bad)
	}
	ctx.Logf("self-test: shifted object and wrong written value rejected, intact files accepted")
	return nil
}

func indexOf(d []byte, s string) int {
	for i := 0; i+len(s) <= len(d); i++ {
		if string(d[i:i+len(s)]) == s {
			return i
		}
	}
	return -1
}
