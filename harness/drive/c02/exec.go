// Package c02 binds spec/file/PdfWriter.tla to pdf.Writer / pdf.Reader.
//
// Programs are behaviours of the bounded TLC model (every transition of the
// state graph lies on some replayed program).  exec.go runs one program on the
// real Writer, reopens the file with the real Reader and records what
// happened; c02.go lets TLC judge the records (Trace_PdfWriter).  Package c03
// reuses the same runs and judges the produced bytes through the independent
// strict parser.
package c02

import (
	"bytes"
	"encoding/hex"
	"errors"
	"fmt"
	"io"
	"math/rand"
	"regexp"
	"strconv"
	"strings"
	"time"

	"seehuhn.de/go/pdf"

	"verif/harness/drive/shared"
	"verif/harness/indep/obj"
)

// Op is one call of the program (one action of PdfWriter.tla).
type Op struct {
	Pad int      `json:"pad"` // StreamWrite: extra bytes (only once the stream has started; invisible to the model)
	Op  string   `json:"op"`  // Alloc AllocN Put OpenStream OpenWhileOpen StreamWrite CloseStream WriteCompressed WriteCompressedBad Close CloseWhileOpen
	N   int      `json:"n"`
	G   int      `json:"g"`
	V   string   `json:"v"`
	K   int      `json:"k"`
	Lg  string   `json:"lg"`
	Ns  []int    `json:"ns"`
	Vs  []string `json:"vs"`
	Why string   `json:"why"`
	// observations on the real code
	Panic  string `json:"panic,omitempty"` // the call panicked
	Err    bool   `json:"err"`             // the call returned an error
	ArgsOK bool   `json:"argsok"`          // the arguments are unchanged after the call
}

// Config is a concrete writer configuration.
type Config struct {
	Version   string `json:"version"` // "1.0" .. "2.0"
	Human     bool   `json:"human"`
	Seekable  bool   `json:"seekable"`
	Enc       string `json:"enc"`                 // none user owner both
	Filter    string `json:"filter"`              // filter used for model streams: "" (exact buffering) or a name
	Tiny      bool   `json:"tiny"`                // smallest possible values (files in which every offset stays below 256)
	PlainMeta bool   `json:"plainmeta,omitempty"` // fixed Info (title "verification program") and ID instead of a drawn document-level plan (for users that know the title)
}

// ObjStm reports whether the configuration uses object streams and an xref stream.
func (c Config) ObjStm() bool {
	v, _ := pdf.ParseVersion(c.Version)
	return v >= pdf.V1_5 && !c.Human
}

func (c Config) passwords() (user, owner string) {
	switch c.Enc {
	case "user":
		return "u-secret", ""
	case "owner":
		return "", "o-secret"
	case "both":
		return "u-secret", "o-secret"
	}
	return "", ""
}

// Read is what the real Reader returned for one reference.
type Read struct {
	N int    `json:"n"`
	G int    `json:"g"`
	V string `json:"v"` // value id recognised ("a", "b", "pages", ..., "null", "other")
}

// Run is the record of one program on the real code.
type Run struct {
	Cfg      Config             `json:"cfg"`
	ObjStm   bool               `json:"objstm"`
	Seekable bool               `json:"seekable"`
	Ops      []Op               `json:"ops"`
	Closed   bool               `json:"closed"` // Close succeeded and the file was reopened
	Reads    []Read             `json:"reads"`
	Size     int                `json:"size"`    // /Size as the Reader sees the file: highest readable number + 1 is not observable, so: probes run to Size-1
	MetaOK   bool               `json:"metaok"`  // version, ID, Info, Catalog round trip
	OpenErr  string             `json:"openerr"` // error of NewReader, if any
	Seed     int64              `json:"seed"`
	Data     []byte             `json:"-"`
	Meta     *metaPlan          `json:"-"`
	Gen1     uint16             `json:"-"` // the concrete generation behind the generation 1 of the model (0: 1)
	MetaDiff string             `json:"-"` // first difference of the document-level round trip
	Written  map[[2]int]Written `json:"-"`
}

// Written is the concrete value the program wrote for a reference.
type Written struct {
	ID     string
	Value  obj.Value // for streams: the dictionary handed to OpenStream
	Stream bool
	Body   []byte
}

var reLabel = regexp.MustCompile(`^(\w+)(?:\((.*)\))?$`)

// ParseLabel turns a TLC action label into an Op.
func ParseLabel(label string) (Op, error) {
	m := reLabel.FindStringSubmatch(strings.TrimSpace(label))
	if m == nil {
		return Op{}, fmt.Errorf("bad action label %q", label)
	}
	op := Op{Op: m[1], Ns: []int{}, Vs: []string{}}
	args := m[2]
	unq := func(s string) string { return strings.Trim(strings.TrimSpace(s), `"`) }
	switch op.Op {
	case "Alloc", "OpenWhileOpen", "CloseStream", "Close", "CloseBad", "CloseWhileOpen":
	case "AllocN":
		op.K, _ = strconv.Atoi(strings.TrimSpace(args))
	case "Put", "PutStm":
		f := strings.Split(args, ",")
		op.N, _ = strconv.Atoi(strings.TrimSpace(f[0]))
		op.G, _ = strconv.Atoi(strings.TrimSpace(f[1]))
		op.V = unq(f[2])
	case "PutBad":
		op.N, _ = strconv.Atoi(strings.TrimSpace(args))
	case "OpenStream":
		f := strings.Split(args, ",")
		op.N, _ = strconv.Atoi(strings.TrimSpace(f[0]))
		op.G, _ = strconv.Atoi(strings.TrimSpace(f[1]))
		op.V = unq(f[2])
		op.Lg = unq(f[3])
	case "StreamWrite":
		op.K, _ = strconv.Atoi(strings.TrimSpace(args))
	case "OpenStreamBad":
		f := strings.Split(args, ",")
		op.N, _ = strconv.Atoi(strings.TrimSpace(f[0]))
		op.G, _ = strconv.Atoi(strings.TrimSpace(f[1]))
		op.Why = unq(f[2])
	case "WriteCompressedBad":
		op.Why = unq(args)
	case "WC1":
		f := strings.Split(args, ",")
		n, _ := strconv.Atoi(strings.TrimSpace(f[0]))
		op.Op, op.Ns, op.Vs = "WriteCompressed", []int{n}, []string{unq(f[1])}
	case "WC2":
		f := strings.Split(args, ",")
		a, _ := strconv.Atoi(strings.TrimSpace(f[0]))
		b, _ := strconv.Atoi(strings.TrimSpace(f[1]))
		op.Op, op.Ns, op.Vs = "WriteCompressed", []int{a, b}, []string{unq(f[2]), unq(f[2])}
	case "WC3":
		f := strings.Split(args, ",")
		a, _ := strconv.Atoi(strings.TrimSpace(f[0]))
		b, _ := strconv.Atoi(strings.TrimSpace(f[1]))
		c, _ := strconv.Atoi(strings.TrimSpace(f[2]))
		op.Op, op.Ns, op.Vs = "WriteCompressed", []int{a, b, c}, []string{unq(f[3]), unq(f[3]), unq(f[3])}
	case "WC0":
		op.Op = "WriteCompressed"
	case "WriteCompressed":
		// <<1, 2>>,<<"a", "a">>
		parts := strings.SplitN(args, ">>", 2)
		for _, x := range strings.Split(strings.Trim(parts[0], "< "), ",") {
			n, _ := strconv.Atoi(strings.TrimSpace(x))
			op.Ns = append(op.Ns, n)
		}
		for _, x := range strings.Split(strings.Trim(parts[1], ",<> "), ",") {
			op.Vs = append(op.Vs, unq(x))
		}
	default:
		return op, fmt.Errorf("unknown action %q", label)
	}
	return op, nil
}

// ---------------------------------------------------------------------------
// concretisation of value ids

var stringPool = [][]byte{
	[]byte("plain"), []byte("(unbalanced"), []byte("back\\slash"), []byte("line\r\nbreak"), {0, 1, 2, 255, 254},
	[]byte("caf\xe9"), []byte(")"), {}, []byte("endstream endobj"), bytes.Repeat([]byte("x"), 300),
}

func pick[T any](r *rand.Rand, xs []T) T { return xs[r.Intn(len(xs))] }

// concrete returns distinct concrete values for the ids "a" and "b".
func concrete(r *rand.Rand, id string) obj.Value {
	tag := obj.Name("Tag" + strings.ToUpper(id))
	switch r.Intn(7) {
	case 6:
		// scalars that are not self-delimiting (object streams separate their
		// members by white space only)
		if id == "a" {
			return obj.Name("ScalarA")
		}
		return obj.Real{F: 7.25}
	case 0:
		return obj.Array{tag, obj.Int(r.Int63n(1<<40) - (1 << 39)), obj.Str(pick(r, stringPool))}
	case 1:
		return obj.Dict{"Kind": tag, "S": obj.Str(pick(r, stringPool)), "A": obj.Array{obj.Int(1), obj.Real{F: 0.5}, obj.Bool(true), obj.Null{}},
			"D": obj.Dict{"Inner": obj.Str(pick(r, stringPool)), "R": obj.Ref{Num: uint32(1 + r.Intn(5)), Gen: 0}}}
	case 2:
		return obj.Dict{"Kind": tag, "Name With Space#": obj.Name("odd /name#\x01\xff")}
	case 3:
		return obj.Array{tag, obj.Array{}, obj.Dict{}, obj.Str(pick(r, stringPool)), obj.Str(pick(r, stringPool))}
	case 4:
		if id == "a" {
			return obj.Str(append([]byte("A:"), pick(r, stringPool)...))
		}
		return obj.Str(append([]byte("B:"), pick(r, stringPool)...))
	default:
		return obj.Dict{"Kind": tag, "N": obj.Real{F: float64(r.Intn(2000)-1000) / 8}}
	}
}

func streamDict(r *rand.Rand, id string) obj.Dict {
	d := obj.Dict{"Kind": obj.Name("Stm" + strings.ToUpper(id))}
	if r.Intn(2) == 0 {
		d["Note"] = obj.Str(pick(r, stringPool))
	}
	return d
}

var bodyEdges = [][]byte{[]byte("\n"), []byte("\r"), []byte("\r\n"), []byte("endstream"), []byte("\nendstream\n"), []byte("endobj"), []byte("\nendobj\n"), {}, {0}}

func chunk(r *rand.Rand, n int) []byte {
	b := make([]byte, n)
	switch r.Intn(3) {
	case 0:
		for i := range b {
			b[i] = byte(r.Intn(256))
		}
	case 1:
		for i := range b {
			b[i] = "abc \n"[r.Intn(5)]
		}
	default:
		for i := range b {
			b[i] = byte(i)
		}
	}
	if r.Intn(4) == 0 {
		// long runs of one byte (127..300: around the run-length coder's limits)
		for i := 0; i < n; {
			l, v := 120+r.Intn(181), byte(r.Intn(256))
			for k := 0; k < l && i < n; k++ {
				b[i] = v
				i++
			}
			i += r.Intn(3)
		}
	}
	if n > 24 {
		e := pick(r, bodyEdges)
		copy(b, e)
		e = pick(r, bodyEdges)
		copy(b[n-len(e):], e)
	}
	return b
}

// ---------------------------------------------------------------------------

type nonSeekable struct{ w io.Writer }

func (n nonSeekable) Write(p []byte) (int, error) { return n.w.Write(p) }

// memSink is an in-memory io.WriteSeeker.
type memSink struct {
	buf []byte
	off int64
}

func (m *memSink) Write(p []byte) (int, error) {
	end := m.off + int64(len(p))
	if end > int64(len(m.buf)) {
		m.buf = append(m.buf, make([]byte, end-int64(len(m.buf)))...)
	}
	copy(m.buf[m.off:], p)
	m.off = end
	return len(p), nil
}

func (m *memSink) Seek(offset int64, whence int) (int64, error) {
	switch whence {
	case io.SeekStart:
		m.off = offset
	case io.SeekCurrent:
		m.off += offset
	case io.SeekEnd:
		m.off = int64(len(m.buf)) + offset
	}
	if m.off < 0 {
		return 0, errors.New("negative position")
	}
	return m.off, nil
}

func (m *memSink) Bytes() []byte { return m.buf }

func snapshot(v pdf.Object) string {
	var b bytes.Buffer
	_ = pdf.Format(&b, 0, v)
	return b.String()
}

func filterFor(name string) []pdf.Filter {
	switch name {
	case "Flate":
		return []pdf.Filter{pdf.FilterFlate{}}
	case "ASCII85":
		return []pdf.Filter{pdf.FilterASCII85{}}
	case "ASCIIHex+Flate":
		return []pdf.Filter{pdf.FilterASCIIHex{}, pdf.FilterFlate{}}
	case "Flate12+ASCIIHex+ASCII85":
		// parameters on an early filter, none on the later ones: /Filter and
		// /DecodeParms must stay parallel
		return []pdf.Filter{pdf.FilterFlate{Predictor: 12, Columns: 4}, pdf.FilterASCIIHex{}, pdf.FilterASCII85{}}
	case "ASCII85+LZW0+RunLength":
		return []pdf.Filter{pdf.FilterASCII85{}, pdf.FilterLZW{}, pdf.FilterRunLength{}}
	case "RunLength":
		return []pdf.Filter{pdf.FilterRunLength{}}
	case "LZW":
		return []pdf.Filter{pdf.FilterLZW{}}
	}
	return nil
}

// metaPlan is what the program puts into the document-level structures
// (Info, Catalog, ID) before Close; it must read back unchanged.
type metaPlan struct {
	Info       pdf.Info
	ID         [][]byte
	CatVersion pdf.Version // 0: not set
	PageLayout pdf.Name
	PageMode   pdf.Name
	Lang       string
	Gen1       uint16 // generation behind the model's generation 1
	BadClose   bool   // the plan holds something the version does not allow: Close must refuse
	BadOpen    bool   // the ID is not allowed for the version: NewWriter must refuse
}

// text strings of the three encodings a TextString can take in a file:
// PDFDocEncoding (incl. its code points that differ from ASCII and Latin-1),
// UTF-16BE and UTF-8
var metaTexts = []pdf.TextString{
	"plain ASCII", "caf\u00e9 na\u00efve", "accents \u02d8\u02c7\u02c6\u02d9\u02dd\u02db\u02da\u02dc end", "\u2013\u2014\u2022\u2122\u0141\u0152\u0160\u0178\u017d",
	"\u0393\u03c1\u03b5\u03b5\u03ba", "\u6f22\u5b57", "astral \U0001F600", "(paren\\thesis)", "line\nbreak\ttab", "x", "\u20ac 12", "\u02d8", "a\u02dcb",
}

func newMetaPlan(r *rand.Rand, version pdf.Version) *metaPlan {
	t := func() pdf.TextString { return metaTexts[r.Intn(len(metaTexts))] }
	m := &metaPlan{}
	m.Info.Title, m.Info.Author = t(), t()
	if r.Intn(2) == 0 {
		m.Info.Subject, m.Info.Keywords = t(), t()
	}
	if r.Intn(2) == 0 {
		m.Info.Creator, m.Info.Producer = t(), t()
	}
	if r.Intn(2) == 0 {
		zone := time.FixedZone("", []int{0, 3600, -5 * 3600, 5*3600 + 1800, -9*3600 - 1800}[r.Intn(5)])
		m.Info.CreationDate = pdf.Date(time.Date(1990+r.Intn(60), time.Month(1+r.Intn(12)), 1+r.Intn(28), r.Intn(24), r.Intn(60), r.Intn(60), 0, zone))
		m.Info.ModDate = pdf.Date(time.Date(2024, 2, 29, 23, 59, 59, 0, time.UTC))
	}
	if r.Intn(3) == 0 && version >= pdf.V1_3 {
		m.Info.Trapped.Set(r.Intn(2) == 0)
	} else if r.Intn(8) == 0 && version < pdf.V1_3 {
		// /Trapped is a PDF 1.3 entry: the Writer refuses it at Close
		m.Info.Trapped.Set(r.Intn(2) == 0)
		m.BadClose = true
	}
	m.Gen1 = []uint16{1, 1, 2, 65535, 65535}[r.Intn(5)]
	if r.Intn(3) == 0 {
		m.Info.Custom = map[string]string{"HarnessKey": string(t()), "Another Key": "v"}
	}
	switch {
	case version == pdf.V1_0:
		// no ID in PDF 1.0
	case r.Intn(8) == 0:
		// one part: the Writer adds the second; PDF 2.0 wants 16 bytes per part
		if r.Intn(2) == 0 {
			m.ID = [][]byte{[]byte("one part of 18 byte")[:18]}
		} else {
			m.ID = [][]byte{[]byte("short-id")}
			m.BadOpen = version == pdf.V2_0
		}
	case r.Intn(3) == 0 && version < pdf.V2_0:
		m.ID = [][]byte{[]byte("short"), {0, 1, 2, 255}} // any length is allowed before PDF 2.0
	case r.Intn(3) == 0:
		m.ID = [][]byte{bytes.Repeat([]byte{0xa5}, 32), []byte("(unbalanced\\ string of 24")}
	default:
		m.ID = [][]byte{[]byte("0123456789abcdef"), []byte("fedcba9876543210")}
	}
	if version >= pdf.V1_4 && r.Intn(4) == 0 {
		later := []pdf.Version{pdf.V1_5, pdf.V1_6, pdf.V1_7, pdf.V2_0}
		if v := later[r.Intn(len(later))]; v > version {
			m.CatVersion = v
		}
	}
	if r.Intn(3) == 0 {
		m.PageLayout = []pdf.Name{"SinglePage", "OneColumn", "TwoColumnLeft", "TwoColumnRight"}[r.Intn(4)]
		m.PageMode = []pdf.Name{"UseNone", "UseOutlines", "UseThumbs", "FullScreen"}[r.Intn(4)]
	}
	return m
}

// diff compares the plan with what the Reader reports.
func (m *metaPlan) diff(meta *pdf.MetaInfo, version pdf.Version) string {
	want := version
	if m.CatVersion > want {
		want = m.CatVersion
	}
	switch {
	case meta.Version != want:
		return fmt.Sprintf("version %v, want %v", meta.Version, want)
	case meta.Info == nil:
		return "no Info"
	case meta.Catalog == nil || meta.Catalog.Pages == 0:
		return "no Catalog / Pages"
	}
	a, b := meta.Info, &m.Info
	for _, f := range []struct {
		name      string
		got, want pdf.TextString
	}{{"Title", a.Title, b.Title}, {"Author", a.Author, b.Author}, {"Subject", a.Subject, b.Subject}, {"Keywords", a.Keywords, b.Keywords},
		{"Creator", a.Creator, b.Creator}, {"Producer", a.Producer, b.Producer}} {
		if f.got != f.want {
			return fmt.Sprintf("Info.%s %q, want %q", f.name, f.got, f.want)
		}
	}
	if !a.CreationDate.Equal(b.CreationDate) || !a.ModDate.Equal(b.ModDate) {
		return fmt.Sprintf("Info dates %v %v, want %v %v", a.CreationDate, a.ModDate, b.CreationDate, b.ModDate)
	}
	ga, oka := a.Trapped.Get()
	gb, okb := b.Trapped.Get()
	if oka != okb || ga != gb {
		return "Info.Trapped"
	}
	if len(a.Custom) != len(b.Custom) {
		return fmt.Sprintf("Info.Custom %v, want %v", a.Custom, b.Custom)
	}
	for k, v := range b.Custom {
		if a.Custom[k] != v {
			return fmt.Sprintf("Info.Custom[%q] %q, want %q", k, a.Custom[k], v)
		}
	}
	if meta.Catalog.PageLayout != m.PageLayout || meta.Catalog.PageMode != m.PageMode {
		return fmt.Sprintf("Catalog PageLayout/PageMode %q %q, want %q %q", meta.Catalog.PageLayout, meta.Catalog.PageMode, m.PageLayout, m.PageMode)
	}
	if len(m.ID) == 1 && len(meta.ID) == 2 {
		// the Writer added the second part
		if !bytes.Equal(meta.ID[0], m.ID[0]) {
			return fmt.Sprintf("ID[0] %x, want %x", meta.ID[0], m.ID[0])
		}
		return ""
	}
	if len(meta.ID) != len(m.ID) {
		return fmt.Sprintf("ID has %d parts, want %d", len(meta.ID), len(m.ID))
	}
	for i := range m.ID {
		if !bytes.Equal(meta.ID[i], m.ID[i]) {
			return fmt.Sprintf("ID[%d] %x, want %x", i, meta.ID[i], m.ID[i])
		}
	}
	return ""
}

var pagesDict = pdf.Dict{"Type": pdf.Name("Pages"), "Kids": pdf.Array{}, "Count": pdf.Integer(0)}

// Execute runs one program on the real Writer and, if it closes, reads the
// file back with the real Reader.
func Execute(cfg Config, prog []Op, seed int64) (run Run, err error) {
	r := rand.New(rand.NewSource(seed))
	run = Run{Cfg: cfg, ObjStm: cfg.ObjStm(), Seekable: cfg.Seekable, Seed: seed, Written: map[[2]int]Written{}, Reads: []Read{}}
	vals := map[string]obj.Value{"a": concrete(r, "a"), "b": concrete(r, "b")}
	if cfg.Tiny {
		vals = map[string]obj.Value{"a": obj.Array{obj.Name("A")}, "b": obj.Array{obj.Name("B")}}
	}
	sdict := map[string]obj.Dict{"a": streamDict(r, "a"), "b": streamDict(r, "b")}
	// the same pdf value objects are reused for every write of a value id:
	// writing must not modify the caller's objects
	pvals := map[string]pdf.Object{"a": shared.ToPDF(vals["a"]), "b": shared.ToPDF(vals["b"])}
	// *Stream values handed to Put (short bodies: the length stays direct)
	pbody := map[string][]byte{"a": chunk(r, 1+r.Intn(300)), "b": chunk(r, r.Intn(40))}
	if cfg.Tiny {
		pbody = map[string][]byte{"a": []byte("x"), "b": {}}
	}
	pstm := map[string]*pdf.Stream{}
	for _, id := range []string{"a", "b"} {
		pstm[id] = pdf.NewStream(shared.ToPDF(sdict[id]).(pdf.Dict), append([]byte(nil), pbody[id]...))
	}

	version, perr := pdf.ParseVersion(cfg.Version)
	if perr != nil {
		return run, perr
	}
	user, owner := cfg.passwords()
	opt := &pdf.WriterOptions{HumanReadable: cfg.Human, UserPassword: user, OwnerPassword: owner, UserPermissions: pdf.PermAll}
	id := [][]byte{[]byte("0123456789abcdef"), []byte("fedcba9876543210")}
	if !cfg.Tiny && !cfg.PlainMeta {
		// an own source: the draws below must not depend on the plan
		run.Meta = newMetaPlan(rand.New(rand.NewSource(seed^0x6d657461)), version)
		id = run.Meta.ID
		run.Gen1 = run.Meta.Gen1
	}
	gen := func(g int) uint16 { return uint16(run.ConcreteGen(g)) }
	if version > pdf.V1_0 {
		opt.ID = id
	}
	sink := &memSink{}
	var w *pdf.Writer
	if cfg.Seekable {
		w, err = pdf.NewWriter(sink, version, opt)
	} else {
		w, err = pdf.NewWriter(nonSeekable{sink}, version, opt)
	}
	if err != nil && run.Meta != nil && run.Meta.BadOpen {
		// refused as it must be: nothing was written (the record has no calls)
		run.Ops = []Op{}
		return run, nil
	}
	if err != nil {
		return run, fmt.Errorf("NewWriter: %w", err)
	}

	var stm io.WriteCloser
	var stmRef [2]int
	var stmID string
	var stmBody []byte
	preHex := false                // the open stream's data is written ASCIIHex-encoded by the program
	remaining := func(i int) int { // bytes written until the stream is closed
		n := 0
		for _, o := range prog[i+1:] {
			if o.Op == "StreamWrite" {
				n += 512*o.K + o.Pad
			}
			if o.Op == "CloseStream" {
				break
			}
		}
		return n
	}
	type pending struct {
		ref [2]int
		w   Written
	}
	var queued []pending

	var done []Op
	for i := range prog {
		op := &prog[i]
		op.ArgsOK = true
		var cerr error
		// which of Close / CloseBad applies is decided by the document-level plan
		if bad := run.Meta != nil && run.Meta.BadClose; (op.Op == "Close" || op.Op == "CloseBad") && stm == nil {
			op.Op = map[bool]string{true: "CloseBad", false: "Close"}[bad]
		}
		// calls that make no sense in the current mode are dropped from random programs
		if (op.Op == "StreamWrite" || op.Op == "CloseStream" || op.Op == "OpenWhileOpen" || op.Op == "CloseWhileOpen") && stm == nil {
			continue
		}
		if (op.Op == "OpenStream" || op.Op == "OpenStreamBad" || op.Op == "WriteCompressed" || op.Op == "Close" || op.Op == "CloseBad") && stm != nil {
			continue
		}
		var fatal error
		func() {
			// a panic of the Writer is an outcome the specification never has
			defer func() {
				if p := recover(); p != nil {
					cerr = fmt.Errorf("panic: %v", p)
					op.Panic = fmt.Sprint(p)
				}
			}()
			switch op.Op {
			case "Alloc":
				w.Alloc()
			case "AllocN":
				for k := 0; k < op.K; k++ {
					w.Alloc()
				}
			case "Put":
				before := snapshot(pvals[op.V])
				cerr = w.Put(pdf.NewReference(uint32(op.N), gen(op.G)), pvals[op.V])
				op.ArgsOK = snapshot(pvals[op.V]) == before
				if cerr == nil {
					wr := Written{ID: op.V, Value: vals[op.V]}
					if stm != nil {
						queued = append(queued, pending{[2]int{op.N, op.G}, wr})
					} else {
						run.Written[[2]int{op.N, op.G}] = wr
					}
				}
			case "PutStm":
				before := snapshot(pstm[op.V].Dict)
				cerr = w.Put(pdf.NewReference(uint32(op.N), gen(op.G)), pstm[op.V])
				op.ArgsOK = snapshot(pstm[op.V].Dict) == before
				if again, rerr := io.ReadAll(pstm[op.V].NewReader()); rerr != nil || !bytes.Equal(again, pbody[op.V]) {
					op.ArgsOK = false
				}
				if cerr == nil {
					wr := Written{ID: op.V, Value: sdict[op.V], Stream: true, Body: pbody[op.V]}
					if stm != nil {
						queued = append(queued, pending{[2]int{op.N, op.G}, wr})
					} else {
						run.Written[[2]int{op.N, op.G}] = wr
					}
				}
			case "OpenStream":
				d := shared.ToPDF(sdict[op.V]).(pdf.Dict)
				// a caller-supplied /Length counts the bytes as they appear in the
				// file: AES adds a 16-byte IV and PKCS#7 padding
				inFile := remaining(i)
				if cfg.Enc != "none" && cfg.Version >= "1.6" {
					inFile = 16 + (inFile/16+1)*16
				}
				switch op.Lg {
				case "right":
					d["Length"] = pdf.Integer(inFile)
				case "wrong":
					d["Length"] = pdf.Integer(inFile + 1)
				}
				preHex = false
				if op.Lg == "none" && strings.HasPrefix(cfg.Filter, "pre:") {
					// the caller's dictionary already names a filter: the program
					// writes data encoded that way, the Writer adds its own filters
					d["Filter"] = pdf.Name("ASCIIHexDecode")
					preHex = true
				}
				before := snapshot(d)
				var filters []pdf.Filter
				if op.Lg == "none" {
					filters = filterFor(strings.TrimPrefix(cfg.Filter, "pre:"))
				}
				stm, cerr = w.OpenStream(pdf.NewReference(uint32(op.N), gen(op.G)), d, filters...)
				op.ArgsOK = snapshot(d) == before
				if cerr != nil {
					stm = nil
				} else {
					stmRef, stmID, stmBody = [2]int{op.N, op.G}, op.V, nil
				}
			case "PutBad":
				// refused for its value (a stream as a direct object inside an
				// array or a dictionary): nothing may be recorded or written
				ref := pdf.NewReference(uint32(op.N), 0)
				inner := pdf.NewStream(pdf.Dict{}, []byte("x"))
				var v pdf.Object = pdf.Array{pdf.Integer(1), inner}
				if i%2 == 1 {
					v = pdf.Dict{"A": pdf.Integer(1), "Z": pdf.Array{inner}}
				}
				cerr = w.Put(ref, v) // (accepted = an outcome the specification does not have)
			case "OpenStreamBad":
				// refused for its arguments: nothing may be recorded
				ref := pdf.NewReference(uint32(op.N), gen(op.G))
				d := shared.ToPDF(sdict["a"]).(pdf.Dict)
				if op.Why == "directStream" {
					d["Inner"] = pdf.Array{pdf.NewStream(pdf.Dict{}, []byte("x"))}
					var s io.WriteCloser
					s, cerr = w.OpenStream(ref, d)
					if cerr == nil {
						s.Close() // (accepted = an outcome the specification does not have)
					}
					return
				}
				var bad []pdf.Filter
				if op.Why == "filterVersion" {
					switch {
					case version < pdf.V1_2:
						bad = []pdf.Filter{pdf.FilterFlate{}}
					case version < pdf.V1_5:
						bad = []pdf.Filter{pdf.FilterCryptIdentity{}}
					}
				}
				if bad == nil {
					d["Length"] = pdf.Name("twelve")
				}
				var s io.WriteCloser
				s, cerr = w.OpenStream(ref, d, bad...)
				if cerr == nil {
					s.Close()
					fatal = errors.New("OpenStream with a bad argument succeeded")
					return
				}
			case "OpenWhileOpen":
				_, cerr = w.OpenStream(pdf.NewReference(4000, 0), pdf.Dict{}) // fails before anything is recorded
				if cerr == nil {
					fatal = errors.New("OpenStream while a stream is open succeeded")
					return
				}
			case "StreamWrite":
				data := chunk(r, 512*op.K+op.Pad)
				keep := append([]byte(nil), data...)
				if preHex {
					enc := []byte(hex.EncodeToString(data))
					_, cerr = stm.Write(enc)
				} else {
					_, cerr = stm.Write(data)
				}
				op.ArgsOK = bytes.Equal(data, keep)
				stmBody = append(stmBody, keep...)
			case "CloseStream":
				if preHex {
					stm.Write([]byte(">"))
				}
				cerr = stm.Close()
				if cerr == nil {
					run.Written[stmRef] = Written{ID: stmID, Value: sdict[stmID], Stream: true, Body: stmBody}
					for _, q := range queued {
						run.Written[q.ref] = q.w
					}
				}
				queued = nil
				stm = nil
			case "WriteCompressed":
				refs := make([]pdf.Reference, len(op.Ns))
				objs := make([]pdf.Object, len(op.Ns))
				var before []string
				for k, n := range op.Ns {
					refs[k] = pdf.NewReference(uint32(n), 0)
					objs[k] = pvals[op.Vs[k]]
					before = append(before, snapshot(objs[k]))
				}
				cerr = w.WriteCompressed(refs, objs...)
				for k := range objs {
					if snapshot(objs[k]) != before[k] {
						op.ArgsOK = false
					}
				}
				if cerr == nil {
					for k, n := range op.Ns {
						run.Written[[2]int{n, 0}] = Written{ID: op.Vs[k], Value: vals[op.Vs[k]]}
					}
				}
			case "WriteCompressedBad":
				ref := pdf.NewReference(uint32(100+i), 0)
				switch op.Why {
				case "streamMember":
					cerr = w.WriteCompressed([]pdf.Reference{ref}, pdf.NewStream(pdf.Dict{}, nil))
				case "refMember":
					cerr = w.WriteCompressed([]pdf.Reference{ref}, pdf.NewReference(1, 0))
				default:
					cerr = w.WriteCompressed([]pdf.Reference{pdf.NewReference(uint32(100+i), 1)}, pdf.Integer(1))
				}
			case "CloseWhileOpen":
				cerr = w.Close()
			case "Close", "CloseBad":
				pref := w.Alloc()
				if cerr = w.Put(pref, pagesDict); cerr == nil {
					w.GetMeta().Catalog.Pages = pref
					w.GetMeta().Info.Title = "verification program"
					w.GetMeta().Info.Author = "harness"
					if cfg.Tiny {
						w.GetMeta().Info.Title = "t"
						w.GetMeta().Info.Author = "h"
					}
					if m := run.Meta; m != nil {
						info := m.Info // the plan keeps its own copy
						*w.GetMeta().Info = info
						w.GetMeta().Catalog.Version = m.CatVersion
						w.GetMeta().Catalog.PageLayout = m.PageLayout
						w.GetMeta().Catalog.PageMode = m.PageMode
					}
					cerr = w.Close()
				}
			default:
				fatal = fmt.Errorf("unknown op %q", op.Op)
				return
			}
		}()
		if fatal != nil {
			return run, fatal
		}
		op.Err = cerr != nil
		done = append(done, *op)
		if cerr != nil && op.Op == "CloseStream" {
			// the model marks the writer as failed after this; the program ends
			// (other errors leave the writer usable: a refused call changes nothing)
			run.Ops = done
			return run, nil
		}
		if op.Op == "Close" && cerr == nil {
			run.Closed = true
		}
	}
	run.Ops = done
	if !run.Closed {
		return run, nil
	}
	run.Data = sink.Bytes()
	readBack(&run, version, id)
	return run, nil
}

// ConcreteGen maps a generation of the model (0 or 1) to the generation used
// in the file.
func (r *Run) ConcreteGen(g int) int {
	if g == 1 && r.Gen1 != 0 {
		return int(r.Gen1)
	}
	return g
}

// readBack opens the produced file with the real Reader and classifies what
// every reference resolves to.
func readBack(run *Run, version pdf.Version, id [][]byte) {
	user, owner := run.Cfg.passwords()
	pw := user
	if pw == "" {
		pw = owner
	}
	rd, err := pdf.NewReader(bytes.NewReader(run.Data), int64(len(run.Data)), &pdf.ReaderOptions{Password: pw, ErrorHandling: pdf.ErrorHandlingStop})
	if err != nil {
		run.OpenErr = err.Error()
		return
	}
	meta := rd.GetMeta()
	title, author := pdf.TextString("verification program"), pdf.TextString("harness")
	if run.Cfg.Tiny {
		title, author = "t", "h"
	}
	run.MetaOK = meta.Version == version && meta.Info != nil && meta.Info.Title == title && meta.Info.Author == author &&
		meta.Catalog != nil && meta.Catalog.Pages != 0
	if version > pdf.V1_0 {
		run.MetaOK = run.MetaOK && len(meta.ID) == 2 && bytes.Equal(meta.ID[0], id[0]) && bytes.Equal(meta.ID[1], id[1])
	}
	if run.Meta != nil {
		run.MetaDiff = run.Meta.diff(meta, version)
		run.MetaOK = run.MetaDiff == ""
	}
	// probe every number the program or the writer can have used, both generations
	maxNum := 0
	for k := range run.Written {
		if k[0] > maxNum {
			maxNum = k[0]
		}
	}
	maxNum += 12
	run.Size = maxNum + 1
	for n := 1; n <= maxNum; n++ {
		for g := 0; g <= 1; g++ {
			run.Reads = append(run.Reads, Read{N: n, G: g, V: classify(rd, run, n, g)})
		}
	}
}

func classify(rd *pdf.Reader, run *Run, n, g int) string {
	ref := pdf.NewReference(uint32(n), uint16(run.ConcreteGen(g)))
	v, err := rd.Get(ref, true)
	if err != nil {
		return "error:" + err.Error()
	}
	if v == nil {
		return "null"
	}
	if s, ok := v.(*pdf.Stream); ok {
		if tp, _ := s.Dict["Type"].(pdf.Name); tp == "ObjStm" {
			return "objstm"
		}
		if tp, _ := s.Dict["Type"].(pdf.Name); tp == "XRef" {
			return "xref"
		}
		body, err := readStream(rd, s)
		if err != nil {
			return "error:" + err.Error()
		}
		d := shared.FromPDF(s.Dict).(obj.Dict)
		delete(d, "Length")
		delete(d, "Filter")
		delete(d, "DecodeParms")
		for _, w := range run.Written {
			if w.Stream && obj.Equal(w.Value, d) && bytes.Equal(w.Body, body) {
				return w.ID
			}
		}
		return "other"
	}
	got := shared.FromPDF(v)
	for _, id := range []string{"a", "b"} {
		for _, w := range run.Written {
			if w.ID == id && !w.Stream && obj.Equal(w.Value, got) {
				return id
			}
		}
	}
	if d, ok := v.(pdf.Dict); ok {
		switch {
		case d["Type"] == pdf.Name("Pages"):
			return "pages"
		case d["Type"] == pdf.Name("Catalog"):
			return "catalog"
		case d["Title"] != nil && d["Author"] != nil:
			return "info"
		}
	}
	if _, ok := v.(pdf.Integer); ok {
		return "len" // the only bare integers in these files are indirect /Length objects
	}
	return "other"
}

func readStream(rd *pdf.Reader, s *pdf.Stream) ([]byte, error) {
	rc, err := pdf.DecodeStream(rd, nil, s)
	if err != nil {
		return nil, err
	}
	defer rc.Close()
	return io.ReadAll(rc)
}

// ExecuteGiant writes n small objects with one WriteCompressed call.
func ExecuteGiant(cfg Config, n int) (Run, error) {
	run := Run{Cfg: cfg, ObjStm: cfg.ObjStm(), Seekable: cfg.Seekable, Written: map[[2]int]Written{}, Reads: []Read{}}
	version, _ := pdf.ParseVersion(cfg.Version)
	sink := &memSink{}
	w, err := pdf.NewWriter(nonSeekable{sink}, version, nil)
	if err != nil {
		return run, err
	}
	refs := make([]pdf.Reference, n)
	objs := make([]pdf.Object, n)
	for i := range refs {
		refs[i] = w.Alloc()
		v := obj.Array{obj.Int(i), obj.Name("G")}
		objs[i] = shared.ToPDF(v)
		run.Written[[2]int{int(refs[i].Number()), 0}] = Written{ID: "g", Value: v}
	}
	if err := w.WriteCompressed(refs, objs...); err != nil {
		return run, err
	}
	pref := w.Alloc()
	if err := w.Put(pref, pagesDict); err != nil {
		return run, err
	}
	w.GetMeta().Catalog.Pages = pref
	if err := w.Close(); err != nil {
		return run, err
	}
	run.Closed = true
	run.Data = sink.Bytes()
	return run, nil
}

// ExecuteMany writes n plain objects of irregular size (so that the
// cross-reference stream does not compress to almost nothing) and closes the
// file.
func ExecuteMany(cfg Config, n int, seed int64) (Run, error) {
	r := rand.New(rand.NewSource(seed))
	run := Run{Cfg: cfg, ObjStm: cfg.ObjStm(), Seekable: cfg.Seekable, Written: map[[2]int]Written{}, Reads: []Read{}, Seed: seed}
	version, _ := pdf.ParseVersion(cfg.Version)
	sink := &memSink{}
	var out io.Writer = nonSeekable{sink}
	if cfg.Seekable {
		out = sink
	}
	w, err := pdf.NewWriter(out, version, &pdf.WriterOptions{HumanReadable: cfg.Human})
	if err != nil {
		return run, err
	}
	for i := 0; i < n; i++ {
		ref := w.Alloc()
		v := obj.Array{obj.Int(i), obj.Str(bytes.Repeat([]byte{byte('a' + i%26)}, r.Intn(90)))}
		if err := w.Put(ref, shared.ToPDF(v)); err != nil {
			return run, err
		}
		run.Written[[2]int{int(ref.Number()), 0}] = Written{ID: "m", Value: v}
	}
	pref := w.Alloc()
	if err := w.Put(pref, pagesDict); err != nil {
		return run, err
	}
	w.GetMeta().Catalog.Pages = pref
	if err := w.Close(); err != nil {
		return run, err
	}
	run.Closed = true
	run.Data = sink.Bytes()
	return run, nil
}
