package c02

import (
	"os"
	"encoding/json"
	"fmt"
	"math/rand"
	"sort"
	"strings"
	"sync"

	"verif/harness/core"
	"verif/harness/drive/ph"
	"verif/harness/drive/rm"
)

var Driver = core.Driver{ID: "C02", Level: "model_checking", Run: run, Replay: replay, SelfTest: selfTest}

var versions = []string{"1.0", "1.1", "1.2", "1.3", "1.4", "1.5", "1.6", "1.7", "2.0"}
var encs = []string{"none", "user", "owner", "both"}
var filtersSeekable = []string{"", "", "Flate", "ASCII85", "ASCIIHex+Flate", "RunLength", "LZW", "Flate12+ASCIIHex+ASCII85", "ASCII85+LZW0+RunLength", "RunLength", "pre:Flate", "pre:ASCII85+LZW0+RunLength"}

// Family is a pair of model constants.
type Family struct{ ObjStm, Seekable bool }

func (f Family) String() string {
	return strings.ToUpper(fmt.Sprint(f.ObjStm)) + "_" + strings.ToUpper(fmt.Sprint(f.Seekable))
}

// Families lists the four instances of the model.
var Families = []Family{{true, true}, {true, false}, {false, true}, {false, false}}

// configsOf enumerates the concrete configurations of a family.
func configsOf(f Family) []Config {
	var out []Config
	for _, v := range versions {
		for _, human := range []bool{false, true} {
			c := Config{Version: v, Human: human, Seekable: f.Seekable}
			if c.ObjStm() != f.ObjStm {
				continue
			}
			for _, e := range encs {
				if v == "1.0" && e != "none" {
					continue
				}
				c.Enc = e
				out = append(out, c)
			}
		}
	}
	return out
}

// Programs returns TLC behaviours of the bounded model of a family, as
// programs.  limit > 0 caps the number (seeded partial edge cover).
func Programs(ctx *core.Ctx, f Family, limit int) ([][]Op, int, int, error) {
	g, res, err := ctx.DumpGraph(core.TLCOpts{Dir: "file", Module: "PdfWriter", Cfg: "MC_PdfWriter_g_" + f.String() + ".cfg", Workers: 8,
		Timeout: ctx.Dur(5, 20), Constants: "graph for program generation: MaxNum=3, Vals={a}, MaxOps=4, " + f.String(), Mode: "graph"})
	if err != nil {
		return nil, 0, 0, err
	}
	_ = res
	paths, covered := g.EdgeCover(ctx.Rand("programs-"+f.String()), 50, limit)
	var progs [][]Op
	for _, p := range paths {
		var prog []Op
		for _, e := range p {
			op, err := ParseLabel(e.Action)
			if err != nil {
				return nil, 0, 0, core.Infra("%v", err)
			}
			prog = append(prog, op)
		}
		progs = append(progs, prog)
	}
	return progs, g.NumEdges(), covered, nil
}

// giantLists runs programs whose single WriteCompressed call holds more
// objects than one object stream may have.
func giantLists(ctx *core.Ctx) error {
	// (30000 and more objects: the cross-reference stream the Writer makes for
	// them compresses so well that it runs into the Reader's entry cap, which
	// is tied to the compressed size: recorded finding roundtrip/.../xref-entry-cap)
	sizes := []int{10001, 30000}
	if ctx.Thorough() {
		sizes = []int{9999, 10000, 10001, 20003, 30000, 60000}
	}
	var jobs []Job
	for i, n := range sizes {
		ns := make([]int, n)
		vs := make([]string, n)
		for k := range ns {
			ns[k], vs[k] = k+1, []string{"a", "b"}[(k/7)%2]
		}
		prog := []Op{{Op: "AllocN", K: n}, {Op: "WriteCompressed", Ns: ns, Vs: vs}, {Op: "Put", N: n + 5, G: 0, V: "b"}, {Op: "Close"}}
		for k := range prog {
			if prog[k].Ns == nil {
				prog[k].Ns, prog[k].Vs = []int{}, []string{}
			}
		}
		// seekable sinks only: on a non-seekable sink a container of this size
		// gets an indirect /Length object at a moment the Flate filter's
		// buffering decides, which PdfWriter.tla does not model (see the
		// assumption on filtered streams above)
		cfg := Config{Version: []string{"1.7", "2.0", "1.5", "1.6"}[i%4], Seekable: true, Enc: "none", Tiny: true}
		jobs = append(jobs, Job{Cfg: cfg, Prog: prog, Seed: ctx.Seed + int64(i)})
	}
	runs, err := ExecuteAll(jobs)
	if err != nil {
		return err
	}
	for i, r := range runs {
		f := Family{ObjStm: r.ObjStm, Seekable: r.Seekable}
		bad, err := core.JudgeCases(ctx, core.TLCOpts{Dir: "file", Module: "Trace_PdfWriter", Cfg: "Trace_PdfWriter_giant_" + f.String() + ".cfg",
			Timeout: ctx.Dur(10, 30), XssMB: 1024, XmxMB: 6000}, []Run{r}, 1, 1)
		if err != nil {
			return err
		}
		for range bad {
			key, what := classifyFailure(r)
			if strings.Contains(r.OpenErr, "invalid cross-reference table") && len(jobs[i].Prog[1].Ns) > 20003 {
				key = "roundtrip/giant-list/xref-entry-cap"
			}
			ctx.Violation(key+"/giant-list", what+fmt.Sprintf(" (one WriteCompressed call with %d objects)", len(jobs[i].Prog[1].Ns)),
				map[string]any{"cfg": r.Cfg, "giant": len(jobs[i].Prog[1].Ns), "seed": jobs[i].Seed})
		}
		ctx.Ev.Eval(1)
		ctx.Ev.Distinct(fmt.Sprintf("giant-list-%d", len(jobs[i].Prog[1].Ns)))
	}
	return nil
}

// randomProgram draws a program beyond the bounds of the TLC model: longer,
// two value ids, object numbers up to 6, several streams.
func randomProgram(r *rand.Rand) []Op {
	var prog []Op
	inStream := false
	n := 4 + r.Intn(14)
	num := func() int { return 1 + r.Intn(6) }
	val := func() string { return []string{"a", "b"}[r.Intn(2)] }
	for i := 0; i < n; i++ {
		switch x := r.Intn(12); {
		case x == 0:
			prog = append(prog, Op{Op: "Alloc"})
		case x <= 3:
			if r.Intn(4) == 0 {
				prog = append(prog, Op{Op: "PutStm", N: num(), G: r.Intn(2), V: val()})
			} else {
				prog = append(prog, Op{Op: "Put", N: num(), G: r.Intn(2), V: val()})
			}
		case x <= 5 && !inStream:
			prog = append(prog, Op{Op: "OpenStream", N: num(), G: r.Intn(2), V: val(), Lg: []string{"none", "none", "none", "right"}[r.Intn(4)]})
			inStream = true
		case x <= 7 && inStream:
			prog = append(prog, Op{Op: "StreamWrite", K: r.Intn(3)})
		case x == 8 && inStream:
			prog = append(prog, Op{Op: "CloseStream"})
			inStream = false
		case x == 9 && !inStream:
			a, b := num(), num()
			if c := num(); r.Intn(8) == 0 {
				prog = append(prog, Op{Op: "WriteCompressed"}) // the empty list
			} else if c != a && c != b && a != b && r.Intn(4) == 0 {
				v := val()
				prog = append(prog, Op{Op: "WriteCompressed", Ns: []int{a, b, c}, Vs: []string{v, val(), val()}})
			} else if a == b || r.Intn(3) == 0 {
				prog = append(prog, Op{Op: "WriteCompressed", Ns: []int{a}, Vs: []string{val()}})
			} else {
				v := val()
				prog = append(prog, Op{Op: "WriteCompressed", Ns: []int{a, b}, Vs: []string{v, val()}})
			}
		case x == 10 && !inStream && r.Intn(2) == 0:
			if r.Intn(3) == 0 {
				prog = append(prog, Op{Op: "PutBad", N: num()})
			} else {
				prog = append(prog, Op{Op: "OpenStreamBad", N: num(), G: 0, Why: []string{"badLength", "filterVersion", "directStream"}[r.Intn(3)]})
			}
		case x == 10:
			prog = append(prog, Op{Op: "WriteCompressedBad", Why: []string{"streamMember", "refMember", "genMember"}[r.Intn(3)]})
		default:
			if inStream {
				prog = append(prog, Op{Op: "StreamWrite", K: r.Intn(3)})
			} else {
				prog = append(prog, Op{Op: "Put", N: num(), G: 0, V: val()})
			}
		}
	}
	if inStream {
		prog = append(prog, Op{Op: "CloseStream"})
	}
	prog = append(prog, Op{Op: "Close"})
	for i := range prog {
		if prog[i].Ns == nil {
			prog[i].Ns = []int{}
		}
		if prog[i].Vs == nil {
			prog[i].Vs = []string{}
		}
	}
	return prog
}

// boundaryPrograms are programs around the places where field widths of the
// cross-reference data change: object numbers beyond 255 (references
// allocated but never written, then an object stream), and files whose
// cross-reference section starts near byte 65536.  The number of allocated
// references stays below the Reader's documented cap on declared
// cross-reference entries (8192 + 32 per raw byte of the xref stream): a
// small file declaring more is refused on purpose.
func boundaryPrograms(r *rand.Rand, n, maxAlloc int) [][]Op {
	var out [][]Op
	e := func(ops ...Op) {
		for i := range ops {
			if ops[i].Ns == nil {
				ops[i].Ns, ops[i].Vs = []int{}, []string{}
			}
		}
		out = append(out, ops)
	}
	for i := 0; i < n; i++ {
		switch i % 4 {
		case 0: // many allocated numbers, then compressed objects and a plain one
			k := []int{250, 254, 255, 256, 256, 257, 300, 300, 4000, 8000}[r.Intn(10)]
			if k > maxAlloc {
				k = 250 + r.Intn(50)
			}
			e(Op{Op: "AllocN", K: k}, Op{Op: "WriteCompressed", Ns: []int{2, 1}, Vs: []string{"a", "b"}}, Op{Op: "Put", N: 3, V: "a"}, Op{Op: "Close"})
			e(Op{Op: "AllocN", K: k}, Op{Op: "WriteCompressed"}, Op{Op: "Put", N: 1, V: "a"}, Op{Op: "WriteCompressed"}, Op{Op: "Close"})
		case 1:
			k := []int{253, 255, 256, 7000}[r.Intn(4)]
			if k > maxAlloc {
				k = 250 + r.Intn(50)
			}
			e(Op{Op: "Put", N: 1, V: "b"}, Op{Op: "AllocN", K: k}, Op{Op: "OpenStream", N: 2, V: "a", Lg: "none"}, Op{Op: "StreamWrite", K: 2},
				Op{Op: "CloseStream"}, Op{Op: "WriteCompressed", Ns: []int{3}, Vs: []string{"a"}}, Op{Op: "Close"})
		default: // the end of the body lands near 65536
			pad := r.Intn(512)
			k := 125
			if r.Intn(4) == 0 {
				k = 123 + r.Intn(4)
			}
			e(Op{Op: "Put", N: 1, V: "a"}, Op{Op: "OpenStream", N: 2, V: "b", Lg: "none"}, Op{Op: "StreamWrite", K: 2},
				Op{Op: "StreamWrite", K: k, Pad: pad}, Op{Op: "CloseStream"}, Op{Op: "WriteCompressed", Ns: []int{4}, Vs: []string{"a"}}, Op{Op: "Close"})
		}
	}
	return out
}

// BoundaryJobs pairs the boundary programs with configurations of the family.
func BoundaryJobs(ctx *core.Ctx, f Family, n, maxAlloc int) []Job {
	cfgs := configsOf(f)
	r := ctx.Rand("boundary-" + f.String())
	var jobs []Job
	for i, p := range boundaryPrograms(r, n, maxAlloc) {
		c := cfgs[r.Intn(len(cfgs))]
		if i%4 == 0 {
			// a file so small that every offset fits one byte while object
			// numbers need two: no encryption, minimal values
			c.Tiny = true
			for c.Enc != "none" {
				c = cfgs[r.Intn(len(cfgs))]
				c.Tiny = true
			}
		}
		jobs = append(jobs, Job{Cfg: c, Prog: p, Seed: r.Int63()})
	}
	return jobs
}

// Job is one (program, configuration, seed) to execute.
type Job struct {
	Cfg  Config
	Prog []Op
	Seed int64
}

// Jobs builds the work list of a family: model programs under rotating
// concrete configurations, plus seeded random programs.
func Jobs(ctx *core.Ctx, f Family, progs [][]Op) []Job {
	cfgs := configsOf(f)
	r := ctx.Rand("jobs-" + f.String())
	var jobs []Job
	per := ctx.Pick(1, 3)
	for i, p := range progs {
		for k := 0; k < per; k++ {
			c := cfgs[(i*per+k+int(ctx.Seed))%len(cfgs)]
			if f.Seekable && c.Version >= "1.2" {
				c.Filter = filtersSeekable[r.Intn(len(filtersSeekable))]
			}
			jobs = append(jobs, Job{Cfg: c, Prog: clone(p), Seed: r.Int63()})
		}
	}
	nrand := ctx.Pick(600, 6000)
	for i := 0; i < nrand; i++ {
		c := cfgs[r.Intn(len(cfgs))]
		if f.Seekable && c.Version >= "1.2" {
			c.Filter = filtersSeekable[r.Intn(len(filtersSeekable))]
		}
		jobs = append(jobs, Job{Cfg: c, Prog: randomProgram(r), Seed: r.Int63()})
	}
	return jobs
}

func clone(p []Op) []Op {
	out := make([]Op, len(p))
	copy(out, p)
	return out
}

// ExecuteAll runs the jobs on the real code in parallel.
func ExecuteAll(jobs []Job) ([]Run, error) {
	runs := make([]Run, len(jobs))
	errs := make([]error, len(jobs))
	var wg sync.WaitGroup
	sem := make(chan struct{}, 16)
	for i := range jobs {
		wg.Add(1)
		sem <- struct{}{}
		go func(i int) {
			defer wg.Done()
			defer func() { <-sem }()
			defer func() {
				if p := recover(); p != nil {
					errs[i] = fmt.Errorf("panic: %v", p)
				}
			}()
			runs[i], errs[i] = Execute(jobs[i].Cfg, jobs[i].Prog, jobs[i].Seed)
		}(i)
	}
	wg.Wait()
	for i, e := range errs {
		if e != nil {
			return runs, core.Infra("program %d (%+v): %v", i, jobs[i].Cfg, e)
		}
	}
	return runs, nil
}

func progKey(p []Op) string {
	var b strings.Builder
	for _, o := range p {
		fmt.Fprintf(&b, "%s%d.%d%s%d+%d%s%v%v%s;", o.Op, o.N, o.G, o.V, o.K, o.Pad, o.Lg, o.Ns, o.Vs, o.Why)
	}
	return b.String()
}

// classifyFailure names what is wrong with a rejected run, as specifically as
// the harness can tell without the model (used as known-findings key).
func classifyFailure(r Run) (key, what string) {
	cfg := fmt.Sprintf("objstm=%v/seekable=%v/enc=%s", r.ObjStm, r.Seekable, encClass(r.Cfg))
	for _, o := range r.Ops {
		if o.Panic != "" {
			return "panic/" + o.Op + "/" + cfg, fmt.Sprintf("%s panicked: %s (%s)", o.Op, o.Panic, cfg)
		}
	}
	for _, o := range r.Ops {
		if !o.ArgsOK {
			return "args-modified/" + o.Op + "/" + encClass(r.Cfg), fmt.Sprintf("%s modified the caller's argument (%s)", o.Op, cfg)
		}
	}
	if r.Closed && r.OpenErr != "" {
		return "reopen-failed/" + cfg, "the Reader cannot open the produced file: " + r.OpenErr
	}
	if r.Closed && !r.MetaOK {
		return "meta/" + cfg, "version, ID, Info or Catalog did not round-trip: " + r.MetaDiff
	}
	if r.Closed {
		got := map[[2]int]string{}
		for _, rd := range r.Reads {
			got[[2]int{rd.N, rd.G}] = rd.V
		}
		var keys [][2]int
		for k := range r.Written {
			keys = append(keys, k)
		}
		sort.Slice(keys, func(i, j int) bool {
			return keys[i][0] < keys[j][0] || keys[i][0] == keys[j][0] && keys[i][1] < keys[j][1]
		})
		for _, k := range keys {
			w := r.Written[k]
			if got[k] != w.ID {
				kind := "plain"
				if w.Stream {
					kind = "stream"
				}
				return "roundtrip/" + kind + "/" + cfg, fmt.Sprintf("reference %d %d was written as value %q but reads back as %q (%s)", k[0], k[1], w.ID, got[k], cfg)
			}
		}
		for _, rd := range r.Reads {
			if strings.HasPrefix(rd.V, "error:") {
				return "read-error/" + cfg, fmt.Sprintf("Get(%d %d) fails: %s", rd.N, rd.G, rd.V)
			}
		}
		return "unwritten-not-null/" + cfg, "a reference the program never wrote does not read as null, or an internal object is misplaced"
	}
	return "call-outcome/" + cfg, "a Writer call returned an error where the specification has none, or vice versa"
}

func encClass(c Config) string {
	if c.Enc == "none" {
		return "none"
	}
	switch {
	case c.Version >= "2.0":
		return "aes256"
	case c.Version >= "1.6":
		return "aes128"
	case c.Version >= "1.4":
		return "rc4-128"
	}
	return "rc4-40"
}

func run(ctx *core.Ctx) error {
	if os.Getenv("VERIF_C02_ONLY") == "giant" { // developer switch: this part alone
		return giantLists(ctx)
	}
	ctx.Ev.Rule = "a case is one write program executed on pdf.Writer under one configuration, reopened with pdf.Reader; non-trivial = the file closes and holds at least two program objects; distinct = distinct (program, configuration)"
	ctx.Ev.Assume("value ids are recognised by structural equality of what the Reader returns with the concrete values written (the projection function of the harness)")
	ctx.Ev.Assume("filtered streams on non-seekable sinks are not replayed against the model (the filter's internal buffering decides when the 1024-byte threshold is crossed); C06 covers them")
	kinds := []string{"r", "q"} // MaxOps 3 with two value ids, MaxOps 4 with one
	if ctx.Thorough() {
		kinds = []string{"u", "t"} // MaxOps 4 with two value ids, MaxOps 5 with one
	}
	for _, kind := range kinds {
		for _, f := range Families {
			if _, err := ctx.MustHold(core.TLCOpts{Dir: "file", Module: "PdfWriter", Cfg: "MC_PdfWriter_" + kind + "_" + f.String() + ".cfg", Workers: 12,
				Timeout: ctx.Dur(8, 30), Constants: fmt.Sprintf("MaxNum=3, MaxMembers=2, OBJSTM=%v, SEEKABLE=%v; r: Vals={a,b}, MaxOps=3; q: Vals={a}, MaxOps=4; u: Vals={a,b}, MaxOps=4; t: Vals={a}, MaxOps=5", f.ObjStm, f.Seekable)}); err != nil {
				return err
			}
		}
	}
	totalEdges, covEdges := 0, 0
	for _, f := range Families {
		progs, edges, covered, err := Programs(ctx, f, ctx.Pick(1200, 40000))
		if err != nil {
			return err
		}
		totalEdges += edges
		covEdges += covered
		jobs := Jobs(ctx, f, progs)
		runs, err := ExecuteAll(jobs)
		if err != nil {
			return err
		}
		ctx.Ev.AddReplayed(len(progs) * ctx.Pick(1, 3))
		bad, err := core.JudgeCases(ctx, core.TLCOpts{Dir: "file", Module: "Trace_PdfWriter", Cfg: "Trace_PdfWriter_" + f.String() + ".cfg",
			Timeout: ctx.Dur(10, 40), XssMB: 512}, runs, 300, 12)
		if err != nil {
			return err
		}
		counts := map[string]int{}
		for _, b := range bad {
			key, what := classifyFailure(runs[b])
			counts[key]++
			if counts[key] <= 2 {
				ctx.Violation(key, what, map[string]any{"cfg": runs[b].Cfg, "prog": jobs[b].Prog, "seed": jobs[b].Seed})
			}
		}
		for _, k := range core.SortedKeys(counts) {
			ctx.Logf("rejected runs with key %s: %d", k, counts[k])
		}
		for i, r := range runs {
			ctx.Ev.Eval(1)
			if r.Closed && len(r.Written) >= 2 {
				ctx.Ev.Distinct(fmt.Sprintf("%+v|%s", r.Cfg, progKey(jobs[i].Prog)))
			}
		}
		// boundary programs (object numbers / offsets around 2^8 and 2^16)
		bjobs := BoundaryJobs(ctx, f, ctx.Pick(24, 240), 8000)
		bruns, err := ExecuteAll(bjobs)
		if err != nil {
			return err
		}
		bbad, err := core.JudgeCases(ctx, core.TLCOpts{Dir: "file", Module: "Trace_PdfWriter", Cfg: "Trace_PdfWriter_big_" + f.String() + ".cfg",
			Timeout: ctx.Dur(10, 40), XssMB: 512, XmxMB: 3000}, bruns, 6, 8)
		if err != nil {
			return err
		}
		for _, b := range bbad {
			key, what := classifyFailure(bruns[b])
			ctx.Violation(key+"/boundary", what, map[string]any{"cfg": bruns[b].Cfg, "prog": bjobs[b].Prog, "seed": bjobs[b].Seed})
		}
		for i, r := range bruns {
			ctx.Ev.Eval(1)
			if r.Closed {
				ctx.Ev.Distinct(fmt.Sprintf("%+v|%s", r.Cfg, progKey(bjobs[i].Prog)))
			}
		}
		if len(runs) > 0 {
			r := runs[len(runs)/3]
			ctx.Ev.Sample(map[string]any{"kind": "program run on pdf.Writer, judged by Trace_PdfWriter", "cfg": r.Cfg, "ops": r.Ops, "reads(first 8)": firstReads(r.Reads, 8)})
		}
	}
	// object lists longer than the Reader's per-object-stream limit (10 000),
	// which WriteCompressed must split; judged with the real MaxMembers
	if err := giantLists(ctx); err != nil {
		return err
	}
	ctx.Ev.Set("model_transitions_of_program_graphs", totalEdges)
	ctx.Ev.Set("model_transitions_replayed_on_real_code", covEdges)
	// *Placeholder values (spec/file/Placeholder.tla): written by Put,
	// WriteCompressed and in stream dictionaries, before and after Set
	if err := ph.Run(ctx); err != nil {
		return err
	}
	if ctx.Thorough() {
		// extension beyond the listed properties: the ResourceManager protocol
		// (spec/file/ResourceManager.tla); deviations are NOTE lines, not verdicts
		if err := rm.Run(ctx); err != nil {
			return err
		}
	}
	return nil
}

func firstReads(r []Read, n int) []Read {
	if len(r) > n {
		return r[:n]
	}
	return r
}

type replayCase struct {
	Cfg  Config `json:"cfg"`
	Prog []Op   `json:"prog"`
	Seed int64  `json:"seed"`
}

func replay(ctx *core.Ctx, raw json.RawMessage) error {
	var kind struct {
		Kind string `json:"kind"`
	}
	if json.Unmarshal(raw, &kind) == nil && kind.Kind == "placeholder" {
		return ph.Replay(ctx, raw)
	}
	var c replayCase
	if err := json.Unmarshal(raw, &c); err != nil {
		return core.Infra("replay: %v", err)
	}
	for i := range c.Prog {
		if c.Prog[i].Ns == nil {
			c.Prog[i].Ns = []int{}
		}
		if c.Prog[i].Vs == nil {
			c.Prog[i].Vs = []string{}
		}
	}
	r, err := Execute(c.Cfg, c.Prog, c.Seed)
	if err != nil {
		return core.Infra("replay: %v", err)
	}
	f := Family{r.ObjStm, r.Seekable}
	bad, err := core.JudgeCases(ctx, core.TLCOpts{Dir: "file", Module: "Trace_PdfWriter", Cfg: "Trace_PdfWriter_" + f.String() + ".cfg", XssMB: 512}, []Run{r}, 1, 1)
	if err != nil {
		return err
	}
	for _, o := range r.Ops {
		fmt.Printf("  %-18s n=%d g=%d v=%s k=%d lg=%s ns=%v -> err=%v argsok=%v\n", o.Op, o.N, o.G, o.V, o.K, o.Lg, o.Ns, o.Err, o.ArgsOK)
	}
	fmt.Printf("  closed=%v openerr=%q metaok=%v reads=%v\n", r.Closed, r.OpenErr, r.MetaOK, r.Reads)
	if len(bad) > 0 {
		key, what := classifyFailure(r)
		ctx.Violation(key, what, c)
	}
	return nil
}

func selfTest(ctx *core.Ctx) error {
	// (i) a correct run is accepted; corrupting one read, one error flag or
	// dropping an op makes TLC reject exactly those
	prog := []Op{{Op: "Put", N: 1, G: 0, V: "a"}, {Op: "OpenStream", N: 2, G: 0, V: "b", Lg: "none"}, {Op: "StreamWrite", K: 2},
		{Op: "Put", N: 6, G: 1, V: "a"}, {Op: "CloseStream"}, {Op: "WriteCompressed", Ns: []int{8, 9}, Vs: []string{"a", "b"}}, {Op: "Close"}}
	for i := range prog {
		if prog[i].Ns == nil {
			prog[i].Ns, prog[i].Vs = []int{}, []string{}
		}
	}
	cfg := Config{Version: "1.7", Seekable: false, Enc: "none"}
	mk := func() Run {
		r, err := Execute(cfg, clone(prog), 7)
		if err != nil {
			panic(err)
		}
		return r
	}
	good := mk()
	if !good.Closed || len(good.Reads) == 0 {
		return core.Infra("self-test: the self-test program does not produce a file")
	}
	b1 := mk()
	b1.Reads[0].V = "b"
	b2 := mk()
	b2.Ops[0].Err = true
	b3 := mk()
	b3.Ops = append(b3.Ops[:3:3], b3.Ops[4:]...)
	b4 := mk()
	b4.Ops[0].ArgsOK = false
	bad, err := core.JudgeCases(ctx, core.TLCOpts{Dir: "file", Module: "Trace_PdfWriter", Cfg: "Trace_PdfWriter_TRUE_FALSE.cfg", XssMB: 512},
		[]Run{good, b1, b2, good, b3, b4}, 10, 1)
	if err != nil {
		return err
	}
	if fmt.Sprint(bad) != "[1 2 4 5]" {
		return core.Infra("self-test: corrupted runs not singled out: %v", bad)
	}
	ctx.Logf("self-test (i): corrupted read / error flag / dropped call / modified argument rejected, intact runs accepted")
	return ph.SelfTest(ctx)
}
