package c13

import "fmt"

// Order preserving, injective concretisations of the abstract bytes 0..3, one
// per byte position.  Consecutive images keep runs of consecutive codes,
// {0x00,0x01,0xFE,0xFF} puts a run at each end of the byte range (a run that
// ends at ..FF is followed, as an integer, by the next prefix's ..00), the
// spread map leaves no runs at all.
var byteMaps = [][]int{
	{0x00, 0x01, 0x02, 0x03},
	{0xfc, 0xfd, 0xfe, 0xff},
	{0x00, 0x01, 0xfe, 0xff},
	{0x7e, 0x7f, 0x80, 0x81},
	{0x00, 0x55, 0xaa, 0xff},
	{0x20, 0x21, 0x22, 0x7e},
}

// translations for hand-made files (ranks depend on the spans, so only
// translations keep the table's answers); B = 3 there
var byteOffsets = []int{0x00, 0x40, 0xfd, 0x7f}

// valueMap is an injective substitution of CIDs or runes.  The answers of the
// table are lookups m[c], so any injection commutes with them.
type valueMap struct {
	name string
	cid  func(int) int
	rune func(int) int
}

func shiftBelow(limit, off int) func(int) int {
	return func(x int) int {
		if x < limit {
			return x + off
		}
		return x
	}
}

var cidMaps = []valueMap{
	{name: "id", cid: func(x int) int { return x }},
	{name: "+1", cid: func(x int) int { return x + 1 }},
	{name: "+253", cid: func(x int) int { return x + 253 }},
	{name: "+65520", cid: func(x int) int { return x + 65520 }},
	{name: "*3+1", cid: func(x int) int { return 3*x + 1 }},
}

// rune substitutions per value family (see CMapBounds.Values)
var runeMaps = map[string][]valueMap{
	"tu1": {
		{name: "id", rune: func(x int) int { return x }},
		{name: "lowbyte-FF", rune: shiftBelow(0xd000, 0xfe-65)},   // FE FF 100 101: the last UTF-16 byte wraps
		{name: "bmp-astral", rune: shiftBelow(0xd000, 0xfffe-65)}, // FFFE FFFF 10000 10001
		{name: "astral", rune: shiftBelow(0xd000, 0x1f600-65)},
		{name: "top", rune: shiftBelow(0xd000, 0x10fffc-65)}, // 10FFFC..10FFFF
	},
	"tuEdge": {
		{name: "id", rune: func(x int) int { return x }}, // D7FE D7FF FFFD FFFE (10FFFF)
		{name: "max", rune: func(x int) int { // 10FFFE 10FFFF FFFD FFFE (D7FF)
			switch {
			case x == 0x10ffff:
				return 0xd7ff
			case x < 0xd800:
				return x + (0x10ffff - 0xd7ff)
			}
			return x
		}},
	},
	"tuMix": {
		{name: "id", rune: func(x int) int { return x }},
		{name: "astral-prefix", rune: func(x int) int {
			switch x {
			case 102:
				return 0x1f600
			case 105:
				return 0xff
			case 106:
				return 0x100
			}
			return x
		}},
	},
	"tuPrefix": {
		{name: "id", rune: func(x int) int { return x }}, // fi fj tj tk
		{name: "astral-prefix-lowbyte", rune: func(x int) int { // leading runes astral, last runes FF 100 101
			switch x {
			case 102:
				return 0x1f600
			case 116:
				return 0x1f601
			case 105, 106, 107:
				return x - 105 + 0xff
			case 255:
				return 0x2ff
			}
			return x
		}},
		{name: "astral-last", rune: func(x int) int { // last runes 1FFFE 1FFFF 20000
			switch x {
			case 105, 106, 107:
				return x - 105 + 0x1fffe
			}
			return x
		}},
	},
	"rect": {
		{name: "id", rune: func(x int) int { return x }},
		{name: "astral", rune: func(x int) int { return x + 0x1f600 }},
		{name: "bmp-astral", rune: func(x int) int { return x + 0xfffa - 48 }},
	},
}

func mapBytes(c []int, pos [][]int) []int {
	out := make([]int, len(c))
	for i, x := range c {
		out[i] = pos[i][x]
	}
	return out
}

func (vm valueMap) apply(v val) val {
	if v.Text {
		t := make([]int, len(v.T))
		for i, x := range v.T {
			t[i] = vm.rune(x)
		}
		return val{Text: true, T: t}
	}
	return cidVal(vm.cid(v.N))
}

// allStrings lists every byte string of length 1..maxLen over 0..b-1.
func allStrings(b, maxLen int) [][]int {
	var out [][]int
	var rec func(prefix []int)
	rec = func(prefix []int) {
		if len(prefix) > 0 {
			out = append(out, append([]int(nil), prefix...))
		}
		if len(prefix) == maxLen {
			return
		}
		for x := 0; x < b; x++ {
			rec(append(prefix, x))
		}
	}
	rec(nil)
	return out
}

// concretise turns a table line into a concrete case with its expectations.
// k selects the concretisation (k = 0: identity bytes, identity values).
func concretise(g *genCase, k int, opt options) (*conCase, error) {
	c := &conCase{Kind: g.Kind, Opt: opt, hasTab: true, want: map[string]val{}, merged: map[string]val{}}
	rect := g.Kind == "rect-cid" || g.Kind == "rect-tu"
	var pos [][]int
	if rect {
		// B = 3, translations
		for p := 0; p < 4; p++ {
			off := byteOffsets[(k+p*(k+1))%len(byteOffsets)]
			if k == 0 {
				off = 0
			}
			pos = append(pos, []int{off, off + 1, off + 2})
		}
	} else {
		for p := 0; p < 4; p++ {
			m := byteMaps[(k*(p+2)+p*k*k)%len(byteMaps)]
			if k == 0 {
				m = byteMaps[0]
			}
			pos = append(pos, m)
		}
	}
	var vm valueMap
	switch {
	case g.Kind == "cid" || g.Kind == "rect-cid":
		vm = cidMaps[k%len(cidMaps)]
		if rect {
			vm = cidMaps[k%4] // translations only: rank + base must stay rank + base
		}
	case rect:
		vm = runeMaps["rect"][k%len(runeMaps["rect"])]
	default:
		ms, ok := runeMaps[g.Fam]
		if !ok {
			return nil, fmt.Errorf("no rune maps for family %q", g.Fam)
		}
		vm = ms[k%len(ms)]
	}
	c.Origin = fmt.Sprintf("table:%s/%s/k=%d/%s", g.Sp, g.Fam, k, vm.name)
	if k > 0 && (g.Kind == "cid" || g.Kind == "rect-cid") {
		// the second concretisation also clones every file and re-maps the clone, and
		// gives the parents of a chain the name of a predefined CMap
		c.CloneStep = true
		if len(g.Layers) > 1 {
			c.ParentName = []string{"Identity-H", "UniJIS-UCS2-H", "90ms-RKSJ-H"}[k%3]
			c.Origin += "/parent=" + c.ParentName
		}
	}

	for _, r := range g.CSR {
		c.CSR = append(c.CSR, rng{mapBytes(r.Lo, pos), mapBytes(r.Hi, pos)})
	}
	for _, l := range g.Layers {
		cl := layer{Entries: []entry{}, Notdef: []notdef{}}
		for _, e := range l.Entries {
			cl.Entries = append(cl.Entries, entry{C: mapBytes(e.C, pos), V: vm.apply(e.V)})
		}
		for _, n := range l.Notdef {
			cl.Notdef = append(cl.Notdef, notdef{Lo: mapBytes(n.Lo, pos), Hi: mapBytes(n.Hi, pos), V: vm.cid(n.V)})
		}
		c.Layers = append(c.Layers, cl)
	}
	maxLen := 2
	b := 4
	if g.File != nil {
		b = 3
		for _, r := range g.File.Ranges {
			cr := fRange{First: mapBytes(r.First, pos), Last: mapBytes(r.Last, pos)}
			if r.V != nil {
				v := vm.cid(*r.V)
				cr.V = &v
			}
			for _, t := range r.Vals {
				cr.Vals = append(cr.Vals, vm.apply(textVal(t)).T)
			}
			c.File.Ranges = append(c.File.Ranges, cr)
			if len(r.First) > maxLen {
				maxLen = len(r.First)
			}
		}
		for _, s := range g.File.Singles {
			c.File.Singles = append(c.File.Singles, fSingle{Code: mapBytes(s.Code, pos), V: vm.apply(s.V)})
		}
	}
	for _, r := range g.CSR {
		if len(r.Lo) > maxLen {
			maxLen = len(r.Lo)
		}
	}
	for _, s := range allStrings(b, maxLen) {
		c.Probes = append(c.Probes, mapBytes(s, pos))
	}
	for _, e := range g.Expect {
		c.want[key(mapBytes(e.C, pos))] = vm.apply(e.V)
	}
	for _, e := range g.Merged {
		c.merged[key(mapBytes(e.C, pos))] = vm.apply(e.V)
	}
	return c, nil
}

// checkTable compares a record with the table's expectations.  It returns ""
// when they agree, else the name of what differs.
func checkTable(c *conCase, r *record) string {
	if r.Err != "" {
		return "error"
	}
	tu := isTU(c.Kind)
	for _, p := range r.Probes {
		w, determined := c.want[key(p.C)]
		switch {
		case tu && determined != p.OK:
			return "lookup-presence"
		case tu && determined && !w.eq(p.V):
			return "lookup-value"
		case !tu && determined && !w.eq(p.V):
			return "lookup-value"
		case !tu && !determined && p.V.N != 0:
			return "lookup-default"
		}
	}
	if c.Kind == "cid" || c.Kind == "tu" {
		// the enumeration read as a map
		got := map[string]val{}
		for _, e := range r.All {
			got[key(e.C)] = e.V
		}
		for k, v := range got {
			w, ok := c.merged[k]
			if !ok || !w.eq(v) {
				return "all-extra"
			}
		}
		if tu || len(c.Layers) == 1 {
			if len(got) != len(c.merged) {
				return "all-missing"
			}
			if len(c.Layers) == 1 && len(r.All) != len(c.merged) {
				return "all-repeats"
			}
		}
	} else {
		// hand-made files: enumeration and table agree, every code once
		seen := map[string]bool{}
		for _, e := range r.All {
			w, ok := c.want[key(e.C)]
			if !ok || !w.eq(e.V) || seen[key(e.C)] {
				return "all-value"
			}
			seen[key(e.C)] = true
		}
		for _, p := range c.Probes {
			if _, ok := c.want[key(p)]; ok && !seen[key(p)] {
				return "all-missing"
			}
		}
	}
	return ""
}
