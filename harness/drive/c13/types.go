// Package c13 binds spec/font/CMap.tla to font/cmap.
//
//	P-C  Gen_CMap (reference semantics) -> case table -> real SetMapping /
//	     NewToUnicodeFile / LookupCID / Lookup / All / GetMapping, before and
//	     after Embed into an in-memory PDF file + Extract / ExtractToUnicode
//	P-B  every real answer (table cases, seeded large random maps, hand-made
//	     rectangular files) -> records -> Trace_CMap (TLC)
//
// A table mismatch is never reported by itself: the record of what the real
// code answered is judged by TLC with the reference operators.
package c13

import (
	"encoding/json"
	"fmt"
	"sort"
	"strings"
)

// val is a CMap value: a CID (JSON integer) or a text (JSON array of runes).
type val struct {
	Text bool
	N    int
	T    []int
}

func cidVal(n int) val    { return val{N: n} }
func textVal(t []int) val { return val{Text: true, T: append([]int{}, t...)} }

func (v val) MarshalJSON() ([]byte, error) {
	if v.Text {
		if v.T == nil {
			return []byte("[]"), nil
		}
		return json.Marshal(v.T)
	}
	return json.Marshal(v.N)
}

func (v *val) UnmarshalJSON(b []byte) error {
	s := strings.TrimSpace(string(b))
	if strings.HasPrefix(s, "[") {
		v.Text = true
		v.T = []int{}
		return json.Unmarshal(b, &v.T)
	}
	v.Text = false
	return json.Unmarshal(b, &v.N)
}

func (v val) eq(w val) bool {
	if v.Text != w.Text {
		return false
	}
	if !v.Text {
		return v.N == w.N
	}
	if len(v.T) != len(w.T) {
		return false
	}
	for i := range v.T {
		if v.T[i] != w.T[i] {
			return false
		}
	}
	return true
}

func (v val) String() string {
	if !v.Text {
		return fmt.Sprint(v.N)
	}
	var parts []string
	for _, r := range v.T {
		parts = append(parts, fmt.Sprintf("U+%04X", r))
	}
	return "<" + strings.Join(parts, " ") + ">"
}

type rng struct {
	Lo []int `json:"lo"`
	Hi []int `json:"hi"`
}

type entry struct {
	C []int `json:"c"`
	V val   `json:"v"`
}

type notdef struct {
	Lo []int `json:"lo"`
	Hi []int `json:"hi"`
	V  int   `json:"v"`
}

type layer struct {
	Entries []entry  `json:"entries"`
	Notdef  []notdef `json:"notdef"`
}

type fSingle struct {
	Code []int `json:"code"`
	V    val   `json:"v"`
}

// fRange is a range of a hand-made file: V for CMaps, Vals for ToUnicode.
type fRange struct {
	First []int   `json:"first"`
	Last  []int   `json:"last"`
	V     *int    `json:"v,omitempty"`
	Vals  [][]int `json:"vals,omitempty"`
}

type fileSpec struct {
	Singles []fSingle `json:"singles"`
	Ranges  []fRange  `json:"ranges"`
}

type expect struct {
	C   []int  `json:"c"`
	Src string `json:"src"` // "map" or "notdef"
	V   val    `json:"v"`
}

// genCase is one line of the table written by Gen_CMap (abstract bytes).
type genCase struct {
	Kind   string    `json:"kind"` // cid, tu, rect-cid, rect-tu
	Fam    string    `json:"fam"`
	Sp     string    `json:"sp"`
	CSR    []rng     `json:"csr"`
	Layers []layer   `json:"layers"`
	File   *fileSpec `json:"file"`
	Expect []expect  `json:"expect"`
	Merged []entry   `json:"merged"`
}

// options of one embedding.
type options struct {
	Version string `json:"version"` // "1.2" .. "2.0"
	Pretty  bool   `json:"pretty"`
	WMode   int    `json:"wmode"`
}

// conCase is a concrete case: real bytes, real CIDs / runes.
type conCase struct {
	Kind   string   `json:"kind"`
	CSR    []rng    `json:"csr"`
	Layers []layer  `json:"layers"`
	File   fileSpec `json:"file"`
	Probes [][]int  `json:"probes"`
	Opt    options  `json:"opt"`
	Origin string   `json:"origin,omitempty"`
	// ParentName: the files below the child carry this name (that of a predefined
	// CMap) although they are ordinary files embedded as streams
	ParentName string `json:"parentname,omitempty"`
	// CloneStep: before the file is queried, every file of its chain is cloned and the
	// clone gets another mapping (SetMapping); the original must not notice
	CloneStep bool `json:"clonestep,omitempty"`
	// Predefined: name of a predefined CMap (kind "frame-cid")
	Predefined string `json:"predefined,omitempty"`
	// NotdefSingles: one-code notdef ranges are given as notdefchar entries
	NotdefSingles bool `json:"notdefsingles,omitempty"`
	// table expectations (P-C only; nil for random cases)
	want map[string]val
	// the chain read as one map (P-C only)
	merged map[string]val
	hasTab bool
}

type probeRec struct {
	C  []int `json:"c"`
	OK bool  `json:"ok"`
	V  val   `json:"v"`
}

// record is what the real code answered for one case in one stage; judged by
// Trace_CMap.
type record struct {
	Kind    string     `json:"kind"`
	Stage   string     `json:"stage"`
	Err     string     `json:"err"`
	CSR     []rng      `json:"csr"`
	Layers  []layer    `json:"layers"`
	File    fileSpec   `json:"file"`
	CSR2    []rng      `json:"csr2"`
	Probes  []probeRec `json:"probes"`
	All     []entry    `json:"all"`
	// AllCount: kind "full-cid": the number of entries the enumeration delivered
	// (All then holds its first and last three)
	AllCount int       `json:"allcount"`
	Mapping []entry    `json:"mapping"`
	Opt     options    `json:"opt"`
	Origin  string     `json:"origin"`
	// how the case was set up (for the replay)
	ParentName string `json:"parentname"`
	CloneStep  bool   `json:"clonestep"`
	Predefined string `json:"predefined"`
	NotdefSingles bool `json:"notdefsingles"`
	// ProbeCodes repeats the probed codes (also when the real code failed before
	// answering): a replay needs them
	ProbeCodes [][]int `json:"probecodes"`
	// All2: kind "frame-cid": the enumeration before the step that must not change it
	All2 []entry `json:"all2"`
}

func key(c []int) string {
	b := make([]byte, len(c))
	for i, x := range c {
		b[i] = byte(x)
	}
	return string(b)
}

func toBytes(v []int) []byte {
	b := make([]byte, len(v))
	for i, x := range v {
		b[i] = byte(x)
	}
	return b
}

func toInts(b []byte) []int {
	v := make([]int, len(b))
	for i, x := range b {
		v[i] = int(x)
	}
	return v
}

func runesOf(s string) []int {
	out := []int{}
	for _, r := range s {
		out = append(out, int(r))
	}
	return out
}

func stringOf(t []int) string {
	rr := make([]rune, len(t))
	for i, x := range t {
		rr[i] = rune(x)
	}
	return string(rr)
}

// normalise replaces nil slices by empty ones: TLC's JSON reader wants arrays.
func (r *record) normalise() {
	if r.CSR == nil {
		r.CSR = []rng{}
	}
	if r.CSR2 == nil {
		r.CSR2 = []rng{}
	}
	if r.Layers == nil {
		r.Layers = []layer{}
	}
	for i := range r.Layers {
		if r.Layers[i].Entries == nil {
			r.Layers[i].Entries = []entry{}
		}
		if r.Layers[i].Notdef == nil {
			r.Layers[i].Notdef = []notdef{}
		}
	}
	if r.File.Singles == nil {
		r.File.Singles = []fSingle{}
	}
	if r.File.Ranges == nil {
		r.File.Ranges = []fRange{}
	}
	if r.Probes == nil {
		r.Probes = []probeRec{}
	}
	if r.All == nil {
		r.All = []entry{}
	}
	if r.Mapping == nil {
		r.Mapping = []entry{}
	}
	if r.All2 == nil {
		r.All2 = []entry{}
	}
	if r.ProbeCodes == nil {
		r.ProbeCodes = [][]int{}
	}
}

func canonCSR(rs []rng) string {
	var parts []string
	for _, r := range rs {
		parts = append(parts, fmt.Sprintf("%x-%x", toBytes(r.Lo), toBytes(r.Hi)))
	}
	sort.Strings(parts)
	return strings.Join(parts, ",")
}

// canonCase is the canonical form of a concrete case (evidence: distinct cases).
func canonCase(c *conCase) string {
	var sb strings.Builder
	sb.WriteString(c.Kind)
	sb.WriteByte('|')
	sb.WriteString(canonCSR(c.CSR))
	for _, l := range c.Layers {
		sb.WriteString("|L")
		es := make([]string, 0, len(l.Entries))
		for _, e := range l.Entries {
			es = append(es, fmt.Sprintf("%x=%s", toBytes(e.C), e.V))
		}
		sort.Strings(es)
		sb.WriteString(strings.Join(es, ","))
		for _, n := range l.Notdef {
			fmt.Fprintf(&sb, ";nd%x-%x=%d", toBytes(n.Lo), toBytes(n.Hi), n.V)
		}
	}
	for _, r := range c.File.Ranges {
		fmt.Fprintf(&sb, "|R%x-%x", toBytes(r.First), toBytes(r.Last))
		if r.V != nil {
			fmt.Fprintf(&sb, "=%d", *r.V)
		}
		for _, v := range r.Vals {
			fmt.Fprintf(&sb, "=%s", textVal(v))
		}
	}
	for _, s := range c.File.Singles {
		fmt.Fprintf(&sb, "|S%x=%s", toBytes(s.Code), s.V)
	}
	return sb.String()
}
