package c13

import (
	"bytes"
	"fmt"
	"maps"
	"sort"

	"seehuhn.de/go/pdf"
	"seehuhn.de/go/pdf/font"
	"seehuhn.de/go/pdf/font/charcode"
	"seehuhn.de/go/pdf/font/cmap"
	"seehuhn.de/go/postscript/cid"
)

var versions = map[string]pdf.Version{
	"1.2": pdf.V1_2, "1.3": pdf.V1_3, "1.4": pdf.V1_4, "1.5": pdf.V1_5,
	"1.6": pdf.V1_6, "1.7": pdf.V1_7, "2.0": pdf.V2_0,
}
var versionNames = []string{"1.2", "1.3", "1.4", "1.5", "1.6", "1.7", "2.0"}

func toCSR(rs []rng) charcode.CodeSpaceRange {
	var csr charcode.CodeSpaceRange
	for _, r := range rs {
		csr = append(csr, charcode.Range{Low: toBytes(r.Lo), High: toBytes(r.Hi)})
	}
	return csr
}

func fromCSR(csr charcode.CodeSpaceRange) []rng {
	out := []rng{}
	for _, r := range csr {
		out = append(out, rng{toInts(r.Low), toInts(r.High)})
	}
	return out
}

// harnessError marks a problem of the harness's own input (never a verdict).
type harnessError struct{ msg string }

func (e harnessError) Error() string { return e.msg }

// live is a case with the objects the real code built for it.
type live struct {
	c     *conCase
	codec *charcode.Codec
	cid   *cmap.File
	tu    *cmap.ToUnicodeFile
	ref   pdf.Object
	err   string // first error of the real code
}

func isTU(kind string) bool { return kind == "tu" || kind == "rect-tu" }

func codeOf(codec *charcode.Codec, c []int) (charcode.Code, error) {
	b := toBytes(c)
	code, k, ok := codec.Decode(b)
	if !ok || k != len(b) {
		return 0, harnessError{fmt.Sprintf("harness: %x is not a code of the code space", b)}
	}
	return code, nil
}

var ros = &cid.SystemInfo{Registry: "Verif", Ordering: "Test", Supplement: 0}

// build runs SetMapping / NewToUnicodeFile (or assembles the hand-made file).
func build(c *conCase, seq int) (l *live, herr error) {
	l = &live{c: c}
	csr := toCSR(c.CSR)
	codec, err := charcode.NewCodec(csr)
	if err != nil {
		return nil, harnessError{"harness: invalid code space: " + err.Error()}
	}
	l.codec = codec
	defer func() {
		if r := recover(); r != nil {
			if he, ok := r.(harnessError); ok {
				herr = he
				return
			}
			l.err = fmt.Sprintf("panic in build: %v", r)
		}
	}()
	wmode := font.Horizontal
	if c.Opt.WMode == 1 {
		wmode = font.Vertical
	}
	switch c.Kind {
	case "cid":
		var parent *cmap.File
		for i := len(c.Layers) - 1; i >= 0; i-- {
			f := &cmap.File{Name: fmt.Sprintf("Verif-%d-L%d", seq, i), ROS: ros, WMode: wmode, Parent: parent}
			if i > 0 && c.ParentName != "" {
				f.Name = c.ParentName
				if i < len(c.Layers)-1 {
					f.Name = "Identity-V"
				}
			}
			for _, n := range c.Layers[i].Notdef {
				if key(n.Lo) == key(n.Hi) && c.NotdefSingles {
					f.NotdefSingles = append(f.NotdefSingles, cmap.Single{Code: toBytes(n.Lo), Value: cmap.CID(n.V)})
					continue
				}
				f.NotdefRanges = append(f.NotdefRanges, cmap.Range{First: toBytes(n.Lo), Last: toBytes(n.Hi), Value: cmap.CID(n.V)})
			}
			data := map[charcode.Code]cid.CID{}
			for _, e := range c.Layers[i].Entries {
				code, err := codeOf(codec, e.C)
				if err != nil {
					panic(err)
				}
				data[code] = cid.CID(e.V.N)
			}
			f.SetMapping(codec, data)
			parent = f
		}
		l.cid = parent
	case "tu":
		var parent *cmap.ToUnicodeFile
		for i := len(c.Layers) - 1; i >= 0; i-- {
			data := map[charcode.Code]string{}
			for _, e := range c.Layers[i].Entries {
				code, err := codeOf(codec, e.C)
				if err != nil {
					panic(err)
				}
				data[code] = stringOf(e.V.T)
			}
			tu, err := cmap.NewToUnicodeFile(csr, data)
			if err != nil {
				l.err = "NewToUnicodeFile: " + err.Error()
				return l, nil
			}
			tu.Parent = parent
			parent = tu
		}
		l.tu = parent
	case "rect-cid", "wide-cid", "full-cid":
		f := &cmap.File{Name: fmt.Sprintf("Verif-%d-R", seq), ROS: ros, WMode: wmode, CodeSpaceRange: csr}
		for _, r := range c.File.Ranges {
			f.CIDRanges = append(f.CIDRanges, cmap.Range{First: toBytes(r.First), Last: toBytes(r.Last), Value: cmap.CID(*r.V)})
		}
		for _, s := range c.File.Singles {
			f.CIDSingles = append(f.CIDSingles, cmap.Single{Code: toBytes(s.Code), Value: cmap.CID(s.V.N)})
		}
		l.cid = f
	case "rect-tu":
		tu := &cmap.ToUnicodeFile{CodeSpaceRange: csr}
		for _, r := range c.File.Ranges {
			var vals []string
			for _, v := range r.Vals {
				vals = append(vals, stringOf(v))
			}
			tu.Ranges = append(tu.Ranges, cmap.ToUnicodeRange{First: toBytes(r.First), Last: toBytes(r.Last), Values: vals})
		}
		for _, s := range c.File.Singles {
			tu.Singles = append(tu.Singles, cmap.ToUnicodeSingle{Code: toBytes(s.Code), Value: stringOf(s.V.T)})
		}
		l.tu = tu
	default:
		return nil, harnessError{"harness: unknown kind " + c.Kind}
	}
	return l, nil
}

// query asks the real code everything the record holds.
func query(c *conCase, stage string, fc *cmap.File, ft *cmap.ToUnicodeFile, codec *charcode.Codec, errText string) (rec record) {
	rec = record{Kind: c.Kind, Stage: stage, Err: errText, CSR: c.CSR, Layers: c.Layers, File: c.File, Opt: c.Opt, Origin: c.Origin, ProbeCodes: c.Probes,
		ParentName: c.ParentName, CloneStep: c.CloneStep, NotdefSingles: c.NotdefSingles}
	defer rec.normalise()
	if errText != "" {
		return rec
	}
	defer func() {
		if r := recover(); r != nil {
			rec.Err = fmt.Sprintf("panic in %s query: %v", stage, r)
		}
	}()
	var buf []byte
	if c.CloneStep && fc != nil {
		cloneStep(c, fc, codec)
	}
	if isTU(c.Kind) {
		rec.CSR2 = fromCSR(ft.CodeSpaceRange)
		for _, p := range c.Probes {
			s, ok := ft.Lookup(toBytes(p))
			rec.Probes = append(rec.Probes, probeRec{C: p, OK: ok, V: textVal(runesOf(s))})
		}
		for code, s := range ft.All(codec) {
			buf = codec.AppendCode(buf[:0], code)
			rec.All = append(rec.All, entry{C: toInts(buf), V: textVal(runesOf(s))})
		}
		m, err := ft.GetMapping()
		if err != nil {
			rec.Err = "GetMapping: " + err.Error()
			return rec
		}
		for code, s := range m {
			buf = codec.AppendCode(buf[:0], code)
			rec.Mapping = append(rec.Mapping, entry{C: toInts(buf), V: textVal(runesOf(s))})
		}
	} else {
		rec.CSR2 = fromCSR(fc.CodeSpaceRange)
		for _, p := range c.Probes {
			v := fc.LookupCID(toBytes(p))
			rec.Probes = append(rec.Probes, probeRec{C: p, OK: true, V: cidVal(int(v))})
		}
		if c.Kind == "full-cid" {
			// an enumeration of exactly as many codes as the enumeration budget
			// allows: counted, the first and the last three entries kept
			var tail []entry
			for code, v := range fc.All(codec) {
				buf = codec.AppendCode(buf[:0], code)
				e := entry{C: toInts(buf), V: cidVal(int(v))}
				rec.AllCount++
				if rec.AllCount <= 3 {
					rec.All = append(rec.All, e)
				} else {
					tail = append(tail, e)
					if len(tail) > 3 {
						tail = tail[1:]
					}
				}
			}
			rec.All = append(rec.All, tail...)
			return rec
		}
		for code, v := range fc.All(codec) {
			buf = codec.AppendCode(buf[:0], code)
			rec.All = append(rec.All, entry{C: toInts(buf), V: cidVal(int(v))})
			if c.Kind == "wide-cid" && len(rec.All) >= 3000 {
				break // a range of 2^32 codes: the beginning of the enumeration is judged
			}
		}
		if c.Kind == "wide-cid" {
			return rec
		}
		for code, v := range maps.Collect(fc.All(codec)) {
			buf = codec.AppendCode(buf[:0], code)
			rec.Mapping = append(rec.Mapping, entry{C: toInts(buf), V: cidVal(int(v))})
		}
	}
	sort.Slice(rec.Mapping, func(i, j int) bool { return key(rec.Mapping[i].C) < key(rec.Mapping[j].C) })
	return rec
}

// cloneStep: Clone every file of the chain and give the clone another mapping with
// the same shape (the layer's entries with other CIDs).  Clone copies the File, so
// nothing of this may show in the original.
func cloneStep(c *conCase, f *cmap.File, codec *charcode.Codec) {
	i := 0
	for g := f; g != nil; g = g.Parent {
		cl := g.Clone()
		data := map[charcode.Code]cid.CID{}
		if i < len(c.Layers) {
			for _, e := range c.Layers[i].Entries {
				if code, err := codeOf(codec, e.C); err == nil {
					data[code] = cid.CID(e.V.N + 7)
				}
			}
		} else if len(c.File.Ranges) > 0 {
			if code, err := codeOf(codec, c.File.Ranges[0].First); err == nil {
				data[code] = 4242
			}
		}
		cl.SetMapping(codec, data)
		i++
	}
}

// frameCase: a predefined CMap from the package's cache is cloned and the clone gets
// a mapping; lookups and the enumeration of the cached file before and after go
// into one record (kind "frame-cid").
func frameCase(c *conCase) (rec record) {
	rec = record{Kind: "frame-cid", Stage: "built", CSR: []rng{}, Opt: c.Opt, Origin: c.Origin, Predefined: c.Predefined}
	defer rec.normalise()
	defer func() {
		if r := recover(); r != nil {
			rec.Err = fmt.Sprintf("panic: %v", r)
		}
	}()
	p, err := cmap.Predefined(c.Predefined)
	if err != nil {
		rec.Err = "Predefined: " + err.Error()
		return rec
	}
	codec, err := p.Codec()
	if err != nil {
		rec.Err = "Codec: " + err.Error()
		return rec
	}
	rec.CSR = fromCSR(p.CodeSpaceRange)
	rec.CSR2 = rec.CSR
	listing := func() (out []entry, codes [][]int) {
		var buf []byte
		for code, v := range p.All(codec) {
			buf = codec.AppendCode(buf[:0], code)
			out = append(out, entry{C: toInts(buf), V: cidVal(int(v))})
			if len(out) >= 400 {
				break
			}
		}
		return out, nil
	}
	rec.All2, _ = listing()
	probes := append([][]int{}, c.Probes...)
	for i, e := range rec.All2 {
		if i%5 == 0 {
			probes = append(probes, e.C)
		}
	}
	for _, pc := range probes {
		rec.Mapping = append(rec.Mapping, entry{C: pc, V: cidVal(int(p.LookupCID(toBytes(pc))))})
	}
	// the step that must leave p alone
	cl := p.Clone()
	data := map[charcode.Code]cid.CID{}
	for i, e := range rec.All2 {
		if i%3 == 0 && len(data) < 40 {
			if code, err := codeOf(codec, e.C); err == nil {
				data[code] = cid.CID(60000 + i)
			}
		}
	}
	cl.SetMapping(codec, data)
	for _, pc := range probes {
		rec.Probes = append(rec.Probes, probeRec{C: pc, OK: true, V: cidVal(int(p.LookupCID(toBytes(pc))))})
	}
	rec.All, _ = listing()
	rec.ProbeCodes = probes
	return rec
}

// runBatch executes the cases on the real code: build, query, embed all of
// them into one in-memory PDF file (version and prettiness of the first
// case), reopen it, extract, query again.  Two records per case.
func runBatch(cases []*conCase, seq0 int) ([]record, error) {
	lives := make([]*live, len(cases))
	recs := make([]record, 0, 2*len(cases))
	for i, c := range cases {
		l, herr := build(c, seq0+i)
		if herr != nil {
			return nil, herr
		}
		lives[i] = l
	}
	// built stage
	builtRecs := make([]record, len(cases))
	for i, l := range lives {
		builtRecs[i] = query(l.c, "built", l.cid, l.tu, l.codec, l.err)
	}

	// embed
	opt := cases[0].Opt
	v, ok := versions[opt.Version]
	if !ok {
		return nil, harnessError{"harness: unknown version " + opt.Version}
	}
	buf := &bytes.Buffer{}
	w, err := pdf.NewWriter(buf, v, &pdf.WriterOptions{HumanReadable: opt.Pretty})
	if err != nil {
		return nil, harnessError{"harness: NewWriter: " + err.Error()}
	}
	rm := pdf.NewResourceManager(w)
	for _, l := range lives {
		if l.err != "" {
			continue
		}
		func() {
			defer func() {
				if r := recover(); r != nil {
					l.err = fmt.Sprintf("panic in Embed: %v", r)
				}
			}()
			var ref pdf.Native
			var err error
			if isTU(l.c.Kind) {
				ref, err = rm.Embed(l.tu)
			} else {
				ref, err = rm.Embed(l.cid)
			}
			if err != nil {
				l.err = "Embed: " + err.Error()
				return
			}
			l.ref = ref
		}()
	}
	if err := rm.Close(); err != nil {
		return nil, harnessError{"harness: ResourceManager.Close: " + err.Error()}
	}
	pages := w.Alloc()
	if err := w.Put(pages, pdf.Dict{"Type": pdf.Name("Pages"), "Kids": pdf.Array{}, "Count": pdf.Integer(0)}); err != nil {
		return nil, harnessError{"harness: " + err.Error()}
	}
	w.GetMeta().Catalog.Pages = pages
	if err := w.Close(); err != nil {
		return nil, harnessError{"harness: Writer.Close: " + err.Error()}
	}

	// reopen and extract
	data := buf.Bytes()
	r, err := pdf.NewReader(bytes.NewReader(data), int64(len(data)), nil)
	if err != nil {
		return nil, harnessError{"harness: cannot reopen the file: " + err.Error()}
	}
	for i, l := range lives {
		recs = append(recs, builtRecs[i])
		if l.err != "" {
			recs = append(recs, query(l.c, "extracted", nil, nil, nil, l.err))
			continue
		}
		var (
			fc    *cmap.File
			ft    *cmap.ToUnicodeFile
			codec *charcode.Codec
			errT  string
		)
		func() {
			defer func() {
				if r := recover(); r != nil {
					errT = fmt.Sprintf("panic in Extract: %v", r)
				}
			}()
			var err error
			if isTU(l.c.Kind) {
				ft, err = pdf.Decode(pdf.NewCursor(r), l.ref, cmap.ExtractToUnicode)
				if err == nil && ft == nil {
					err = fmt.Errorf("no ToUnicode CMap returned")
				}
				if err == nil {
					codec, err = charcode.NewCodec(ft.CodeSpaceRange)
				}
			} else {
				fc, err = pdf.Decode(pdf.NewCursor(r), l.ref, cmap.Extract)
				if err == nil && fc == nil {
					err = fmt.Errorf("no CMap returned")
				}
				if err == nil {
					codec, err = fc.Codec()
				}
			}
			if err != nil {
				errT = "Extract: " + err.Error()
			}
		}()
		rec := query(l.c, "extracted", fc, ft, codec, errT)
		recs = append(recs, rec)
	}
	return recs, nil
}
