package c13

import (
	"fmt"
	"math/rand"
	"sort"

	"verif/harness/core"
)

// real code spaces for the seeded maps
var spaces = map[string][]rng{
	"1byte": {{[]int{0}, []int{0xff}}},
	"2byte": {{[]int{0, 0}, []int{0xff, 0xff}}},
	"rksj": {{[]int{0}, []int{0x80}}, {[]int{0x81, 0x40}, []int{0x9f, 0xfc}}, {[]int{0xa0}, []int{0xdf}},
		{[]int{0xe0, 0x40}, []int{0xfc, 0xfc}}},
	"utf8ish": {{[]int{0}, []int{0x7f}}, {[]int{0xc2, 0x80}, []int{0xdf, 0xbf}},
		{[]int{0xe0, 0x80, 0x80}, []int{0xef, 0xbf, 0xbf}}},
	"3byte": {{[]int{0, 0, 0}, []int{2, 0xff, 0xff}}},
	"4byte": {{[]int{0x8e, 0xa1, 0, 0}, []int{0x8e, 0xa2, 0xff, 0xff}}, {[]int{0}, []int{0x7f}}},
}
var spaceNames = []string{"1byte", "2byte", "rksj", "utf8ish", "3byte", "4byte"}

// next returns the code after c inside range r in odometer order (nil at the end).
func next(r rng, c []int) []int {
	out := append([]int(nil), c...)
	for p := len(out) - 1; p >= 0; p-- {
		if out[p] < r.Hi[p] {
			out[p]++
			return out
		}
		out[p] = r.Lo[p]
	}
	return nil
}

func randCode(rd *rand.Rand, r rng) []int {
	c := make([]int, len(r.Lo))
	for i := range c {
		lo, hi := r.Lo[i], r.Hi[i]
		switch rd.Intn(5) {
		case 0:
			c[i] = lo
		case 1:
			c[i] = hi
		default:
			c[i] = lo + rd.Intn(hi-lo+1)
		}
	}
	// the last byte near the ends of its interval more often: runs that wrap
	if rd.Intn(3) == 0 {
		l := len(c) - 1
		d := rd.Intn(4)
		if r.Hi[l]-d >= r.Lo[l] {
			c[l] = r.Hi[l] - d
		}
	}
	return c
}

func validRune(x int) bool { return x >= 0 && x <= 0x10ffff && !(x >= 0xd800 && x <= 0xdfff) }

var runeStarts = []int{0x20, 0x41, 0xe0, 0xf8, 0xfe, 0x3b1, 0x4e00, 0xd7f0, 0xd7fd, 0xe000, 0xfff0, 0xfffb, 0xfffe, 0x1f600, 0x1fffd, 0x10fff0, 0x10fffd}

// randRun adds a run of consecutive codes with (mostly) consecutive values.
func randRun(rd *rand.Rand, kind string, r rng, m map[string]entry, limit int) (first, last []int) {
	c := randCode(rd, r)
	n := 1 + rd.Intn(40)
	switch rd.Intn(10) {
	case 0:
		n = 1
	case 1:
		n = 150 + rd.Intn(300)
	}
	first = c
	// values
	cid := rd.Intn(60000)
	if rd.Intn(8) == 0 {
		cid = rd.Intn(3)
	}
	var prefix []int
	for i := rd.Intn(3); i > 0; i-- {
		x := runeStarts[rd.Intn(len(runeStarts))] + rd.Intn(5)
		if !validRune(x) {
			x = 0x66
		}
		prefix = append(prefix, x)
	}
	ru := runeStarts[rd.Intn(len(runeStarts))] + rd.Intn(3)
	throughInvalid := rd.Intn(2) == 0
	varyPrefix := rd.Intn(3) == 0
	for i := 0; i < n && c != nil && len(m) < limit; i++ {
		var v val
		if kind == "cid" {
			v = cidVal(cid)
			cid++
		} else {
			if !validRune(ru) {
				if throughInvalid {
					ru = 0xfffd // what an increment past the top of a block turns into
				} else {
					ru = 0xe000 + rd.Intn(100)
				}
			}
			if len(prefix) > 0 && varyPrefix && rd.Intn(3) == 0 {
				prefix = append([]int{}, prefix...)
				prefix[rd.Intn(len(prefix))] = 0x61 + rd.Intn(26)
			}
			v = textVal(append(append([]int{}, prefix...), ru))
			if rd.Intn(40) == 0 {
				v = textVal([]int{}) // empty text
			}
			ru++
		}
		// irregularities: a jump, a repeat, a step back
		switch rd.Intn(25) {
		case 0:
			cid += 1 + rd.Intn(5)
			ru += 1 + rd.Intn(5)
		case 1:
			cid--
			ru--
		case 2:
			cid -= 2
			ru -= 2
		}
		if cid < 0 {
			cid = 0
		}
		if ru < 0 {
			ru = 0x20
		}
		m[key(c)] = entry{C: c, V: v}
		last = c
		c = next(r, c)
		if rd.Intn(30) == 0 && c != nil {
			c = next(r, c) // a hole in the codes
		}
	}
	return first, last
}

func neighbours(c []int) [][]int {
	var out [][]int
	l := len(c) - 1
	for _, d := range []int{-1, 1} {
		x := c[l] + d
		if x >= 0 && x <= 255 {
			n := append([]int(nil), c...)
			n[l] = x
			out = append(out, n)
		}
	}
	if len(c) > 1 {
		out = append(out, c[:l])
		if c[l] == 0xff {
			n := append([]int(nil), c...)
			n[l] = 0
			n[l-1] = (n[l-1] + 1) & 0xff
			out = append(out, n)
		}
	}
	out = append(out, append(append([]int(nil), c...), 0))
	return out
}

func sortedEntries(m map[string]entry) []entry {
	keys := make([]string, 0, len(m))
	for k := range m {
		keys = append(keys, k)
	}
	sort.Strings(keys)
	out := make([]entry, 0, len(m))
	for _, k := range keys {
		out = append(out, m[k])
	}
	return out
}

// randomMapCase draws a large map (possibly with a parent layer).
func randomMapCase(rd *rand.Rand, kind string, size int, id int) *conCase {
	name := spaceNames[rd.Intn(len(spaceNames))]
	csr := spaces[name]
	c := &conCase{Kind: kind, CSR: csr, Origin: fmt.Sprintf("random:%s/%s/#%d", kind, name, id)}
	c.Opt = options{Version: versionNames[rd.Intn(len(versionNames))], Pretty: rd.Intn(2) == 0, WMode: rd.Intn(2)}
	nLayers := 1
	if rd.Intn(3) == 0 {
		nLayers = 2 + rd.Intn(2)
	}
	probeSet := map[string][]int{}
	addProbe := func(p []int) {
		if len(p) > 0 && len(p) <= 5 {
			probeSet[key(p)] = p
		}
	}
	for li := 0; li < nLayers; li++ {
		m := map[string]entry{}
		target := size
		if li > 0 {
			target = size / 4
		}
		if nLayers > 1 && target > 400 {
			target = 400 // the judge compares chains pairwise
		}
		if name == "1byte" && target > 180 {
			target = 180
		}
		for tries := 0; len(m) < target && tries < 20*target+100; tries++ {
			r := csr[rd.Intn(len(csr))]
			f, l := randRun(rd, kind, r, m, target)
			for _, x := range [][]int{f, l} {
				if x != nil {
					addProbe(x)
					for _, n := range neighbours(x) {
						addProbe(n)
					}
				}
			}
		}
		lay := layer{Entries: sortedEntries(m), Notdef: []notdef{}}
		if kind == "cid" && rd.Intn(2) == 0 {
			used := map[string]bool{}
			for k := 1 + rd.Intn(3); k > 0; k-- {
				r := csr[rd.Intn(len(csr))]
				lo := randCode(rd, r)
				pre := key(lo[:len(lo)-1]) + fmt.Sprint(len(lo))
				if used[pre] {
					continue
				}
				used[pre] = true
				hi := append([]int(nil), lo...)
				l := len(lo) - 1
				hi[l] = lo[l] + rd.Intn(r.Hi[l]-lo[l]+1)
				lay.Notdef = append(lay.Notdef, notdef{Lo: lo, Hi: hi, V: 1 + rd.Intn(5)})
				addProbe(lo)
				addProbe(hi)
				for _, n := range neighbours(hi) {
					addProbe(n)
				}
			}
		}
		c.Layers = append(c.Layers, lay)
	}
	// mapped and unmapped codes at random
	for _, l := range c.Layers {
		for i := 0; i < 60 && len(l.Entries) > 0; i++ {
			addProbe(l.Entries[rd.Intn(len(l.Entries))].C)
		}
	}
	for i := 0; i < 60; i++ {
		addProbe(randCode(rd, csr[rd.Intn(len(csr))]))
	}
	keys := make([]string, 0, len(probeSet))
	for k := range probeSet {
		keys = append(keys, k)
	}
	sort.Strings(keys)
	if len(keys) > 500 {
		rd.Shuffle(len(keys), func(i, j int) { keys[i], keys[j] = keys[j], keys[i] })
		keys = keys[:500]
		sort.Strings(keys)
	}
	for _, k := range keys {
		c.Probes = append(c.Probes, probeSet[k])
	}
	return c
}

// randomRectCase draws a hand-made file of disjoint rectangular ranges.
func randomRectCase(rd *rand.Rand, kind string, id int) *conCase {
	n := 2 + rd.Intn(2) // code length
	lo, hi := make([]int, n), make([]int, n)
	for i := range hi {
		hi[i] = 0xff
	}
	c := &conCase{Kind: kind, CSR: []rng{{lo, hi}}, Origin: fmt.Sprintf("random:%s/#%d", kind, id)}
	c.Opt = options{Version: versionNames[rd.Intn(len(versionNames))], Pretty: rd.Intn(2) == 0, WMode: rd.Intn(2)}
	probeSet := map[string][]int{}
	addProbe := func(p []int) { probeSet[key(p)] = append([]int(nil), p...) }
	nr := 1 + rd.Intn(4)
	firstByte := 0
	for k := 0; k < nr && firstByte < 250; k++ {
		first, last := make([]int, n), make([]int, n)
		// disjoint first-byte intervals keep the rectangles disjoint
		first[0] = firstByte + rd.Intn(3)
		last[0] = first[0] + rd.Intn(3)
		firstByte = last[0] + 1
		size := last[0] - first[0] + 1
		for i := 1; i < n; i++ {
			a := rd.Intn(256)
			span := 1 + rd.Intn(12)
			if rd.Intn(4) == 0 {
				a = 256 - span // up to FF
			}
			if a+span > 256 {
				span = 256 - a
			}
			if size*span > 1500 {
				span = 1
			}
			size *= span
			first[i], last[i] = a, a+span-1
		}
		r := fRange{First: first, Last: last}
		if kind == "rect-cid" {
			v := rd.Intn(60000)
			r.V = &v
		} else {
			base := []int{runeStarts[rd.Intn(len(runeStarts))]}
			if !validRune(base[0]) {
				base[0] = 0x41
			}
			if rd.Intn(3) == 0 {
				base = append([]int{0x66}, base...)
			}
			if rd.Intn(3) == 0 && size <= 64 {
				for j := 0; j < size; j++ {
					r.Vals = append(r.Vals, []int{0x3b1 + rd.Intn(20)})
				}
			} else {
				r.Vals = [][]int{base}
			}
		}
		c.File.Ranges = append(c.File.Ranges, r)
		// probes: corners, just outside, random inside
		addProbe(first)
		addProbe(last)
		for _, x := range neighbours(first) {
			addProbe(x)
		}
		for _, x := range neighbours(last) {
			addProbe(x)
		}
		for j := 0; j < 12; j++ {
			p := make([]int, n)
			for i := range p {
				p[i] = first[i] + rd.Intn(last[i]-first[i]+1)
			}
			addProbe(p)
			if j%3 == 0 {
				q := append([]int(nil), p...)
				i := rd.Intn(n)
				q[i] = last[i] + 1
				if q[i] <= 255 {
					addProbe(q)
				}
			}
		}
	}
	// singles above all rectangles
	for k := rd.Intn(3); k > 0 && firstByte < 255; k-- {
		code := make([]int, n)
		code[0] = firstByte
		firstByte++
		for i := 1; i < n; i++ {
			code[i] = rd.Intn(256)
		}
		s := fSingle{Code: code, V: cidVal(rd.Intn(1000))}
		if kind == "rect-tu" {
			s.V = textVal([]int{0x1f600 + rd.Intn(50)})
		}
		c.File.Singles = append(c.File.Singles, s)
		addProbe(code)
	}
	keys := make([]string, 0, len(probeSet))
	for k := range probeSet {
		keys = append(keys, k)
	}
	sort.Strings(keys)
	for _, k := range keys {
		c.Probes = append(c.Probes, probeSet[k])
	}
	return c
}

// chunkCase builds a map that compresses to exactly nS singles and nR ranges:
// the writer emits sections of at most 100 entries.
func chunkCase(kind string, nS, nR int, id int) *conCase {
	c := &conCase{Kind: kind, CSR: spaces["2byte"], Origin: fmt.Sprintf("chunks:%s/singles=%d/ranges=%d", kind, nS, nR)}
	c.Opt = options{Version: versionNames[id%len(versionNames)], Pretty: id%2 == 0, WMode: id % 2}
	lay := layer{Notdef: []notdef{}}
	value := func(i int) val {
		if kind == "cid" {
			return cidVal(10 + 7*i)
		}
		return textVal([]int{0x4e00 + 7*i})
	}
	n := 0
	// singles: every third code of the rows 0x10.., values not consecutive
	for i := 0; i < nS; i++ {
		code := []int{0x10 + (3*i)/256, (3 * i) % 256}
		lay.Entries = append(lay.Entries, entry{C: code, V: value(n)})
		n += 3
	}
	// ranges: pairs of consecutive codes with consecutive values in the rows 0x80..
	for i := 0; i < nR; i++ {
		a := []int{0x80 + (4*i)/256, (4 * i) % 256}
		b := []int{a[0], a[1] + 1}
		v := value(n)
		w := v
		if kind == "cid" {
			w = cidVal(v.N + 1)
		} else {
			w = textVal([]int{v.T[0] + 1})
		}
		lay.Entries = append(lay.Entries, entry{C: a, V: v}, entry{C: b, V: w})
		n += 3
	}
	c.Layers = []layer{lay}
	for i, e := range lay.Entries {
		if i%9 == 0 || i >= len(lay.Entries)-3 {
			c.Probes = append(c.Probes, e.C)
		}
	}
	c.Probes = append(c.Probes, []int{0x10, 1}, []int{0x80, 2}, []int{0xff, 0xff}, []int{0x10})
	return c
}

// stackCase: nR two-code ranges followed by one row of n codes with irregular
// values (a bfrange with a value list of n strings) in the same section: the
// reader's PostScript interpreter holds 3 operands per earlier entry while the
// list is being built.
func stackCase(nR, n int, id int) *conCase {
	c := &conCase{Kind: "tu", CSR: spaces["2byte"], Origin: fmt.Sprintf("stack:ranges=%d/list=%d", nR, n)}
	c.Opt = options{Version: versionNames[id%len(versionNames)], Pretty: id%2 == 0}
	lay := layer{Notdef: []notdef{}}
	for i := 0; i < nR; i++ {
		a := []int{0x20 + (4*i)/256, (4 * i) % 256}
		lay.Entries = append(lay.Entries, entry{C: a, V: textVal([]int{0x4e00 + 3*i})}, entry{C: []int{a[0], a[1] + 1}, V: textVal([]int{0x4e01 + 3*i})})
	}
	for j := 0; j < n; j++ {
		lay.Entries = append(lay.Entries, entry{C: []int{0xe0, j}, V: textVal([]int{0x3041 + (7*j)%83, 0x3099})})
	}
	c.Layers = []layer{lay}
	for i, e := range lay.Entries {
		if i%11 == 0 || i >= len(lay.Entries)-2 {
			c.Probes = append(c.Probes, e.C)
		}
	}
	c.Probes = append(c.Probes, []int{0x20, 2}, []int{0xe1, 0})
	if n < 256 {
		c.Probes = append(c.Probes, []int{0xe0, n})
	}
	return c
}

// wideNotdefCase: notdef ranges that span a whole 3- or 4-byte code space (more
// than 2^31 codes for four bytes).  Every code of a notdef range has the same
// CID, so the reference needs no position arithmetic; the probes sit at the
// first and last code, on both sides of position 0x7FFFFFFF, and at random.
func wideNotdefCase(rd *rand.Rand, n, variant, id int) *conCase {
	lo, hi := make([]int, n), make([]int, n)
	for i := range hi {
		hi[i] = 0xff
	}
	c := &conCase{Kind: "cid", CSR: []rng{{lo, hi}}, Origin: fmt.Sprintf("widenotdef:%dbyte/v%d", n, variant)}
	c.Opt = options{Version: versionNames[id%len(versionNames)], Pretty: id%2 == 0, WMode: id % 2}
	code := func(bs ...int) []int {
		out := make([]int, n)
		copy(out[n-len(bs):], bs)
		return out
	}
	top := func(first int, rest int) []int { // first byte, all other bytes = rest
		out := make([]int, n)
		out[0] = first
		for i := 1; i < n; i++ {
			out[i] = rest
		}
		return out
	}
	wide := notdef{Lo: lo, Hi: hi, V: 7}
	upper := notdef{Lo: top(0x80, 0), Hi: hi, V: 9} // the upper half only
	lowerHi := top(0x7f, 0xff)
	mapped := []entry{{C: code(0x41), V: cidVal(100)}, {C: code(0x42), V: cidVal(101)}, {C: top(0x80, 0), V: cidVal(300)}, {C: top(0xc3, 0x11), V: cidVal(5)}}
	parentMap := []entry{{C: top(0xfe, 0xfe), V: cidVal(42)}, {C: code(0x41), V: cidVal(1)}}
	switch variant {
	case 0: // one file, the whole space
		c.Layers = []layer{{Entries: mapped, Notdef: []notdef{wide}}}
	case 1: // one file, two ranges that meet at the middle of the space
		c.Layers = []layer{{Entries: mapped[:2], Notdef: []notdef{{Lo: lo, Hi: lowerHi, V: 3}, upper}}}
	case 2: // the range belongs to the child of a usecmap chain
		c.Layers = []layer{{Entries: mapped, Notdef: []notdef{wide}}, {Entries: parentMap, Notdef: []notdef{}}}
	case 3: // the range belongs to the root, the child has the upper half
		c.Layers = []layer{{Entries: mapped[:1], Notdef: []notdef{upper}}, {Entries: parentMap, Notdef: []notdef{wide}}}
	default: // three layers, only the grandparent has the range
		c.Layers = []layer{{Entries: mapped[2:], Notdef: []notdef{}}, {Entries: mapped[:2], Notdef: []notdef{}}, {Entries: parentMap, Notdef: []notdef{wide}}}
	}
	probes := [][]int{lo, hi, lowerHi, top(0x80, 0), top(0x7f, 0), top(0x80, 0xff), top(0xff, 0), code(1), code(0x41), code(0x42), code(0x43),
		top(0xc3, 0x11), top(0xfe, 0xfe), top(0xfe, 0xff), lo[:n-1], append(append([]int{}, hi...), 0)}
	for i := 0; i < 40; i++ {
		p := make([]int, n)
		for j := range p {
			p[j] = rd.Intn(256)
		}
		if i%4 == 0 {
			p[0] = 0x7f + rd.Intn(2)
		}
		probes = append(probes, p)
	}
	seen := map[string]bool{}
	for _, p := range probes {
		if !seen[key(p)] {
			seen[key(p)] = true
			c.Probes = append(c.Probes, p)
		}
	}
	return c
}

// fullRangeCase: a three-byte code space <000000>-<0FFFFF> filled by one
// cidrange: 2^20 codes, exactly what one enumeration may visit
// (limits.MaxCMapMappings).  Every code must be enumerated, the last one too.
func fullRangeCase(id int) *conCase {
	lo, hi := []int{0, 0, 0}, []int{0x0f, 0xff, 0xff}
	base := 5 + id
	c := &conCase{Kind: "full-cid", CSR: []rng{{lo, hi}}, Origin: "fullrange:2^20"}
	c.Opt = options{Version: versionNames[id%len(versionNames)], Pretty: id%2 == 0}
	c.File.Ranges = []fRange{{First: lo, Last: hi, V: &base}}
	c.Probes = [][]int{lo, hi, {0x0f, 0xff, 0xfe}, {0x08, 0, 0}, {0x10, 0, 0}, {0, 0}}
	return c
}

// notdefZeroCase: a notdef entry with the value 0 is not redundant when it
// lies over a notdef range of the usecmap parent: the child's answer (CID 0)
// wins for its codes.
func notdefZeroCase(variant int) *conCase {
	lo, hi := []int{0}, []int{0xff}
	c := &conCase{Kind: "cid", CSR: []rng{{lo, hi}}, Origin: fmt.Sprintf("notdefzero/v%d", variant)}
	c.Opt = options{Version: versionNames[variant%len(versionNames)], Pretty: variant%2 == 0}
	switch variant {
	case 0: // a single code of the child over a range of the parent
		c.Layers = []layer{
			{Entries: []entry{{C: []int{0x41}, V: cidVal(100)}}, Notdef: []notdef{{Lo: []int{0x20}, Hi: []int{0x20}, V: 0}}},
			{Entries: []entry{{C: []int{0x42}, V: cidVal(5)}}, Notdef: []notdef{{Lo: []int{0x10}, Hi: []int{0x3f}, V: 7}}}}
	case 1: // a range of the child inside a range of the parent that covers everything
		c.Layers = []layer{
			{Entries: []entry{{C: []int{0x41}, V: cidVal(100)}}, Notdef: []notdef{{Lo: []int{0x30}, Hi: []int{0x37}, V: 0}}},
			{Entries: []entry{{C: []int{0x42}, V: cidVal(5)}}, Notdef: []notdef{{Lo: lo, Hi: hi, V: 9}}}}
	default: // three layers: the middle one answers 0
		c.Layers = []layer{
			{Entries: []entry{{C: []int{0x41}, V: cidVal(100)}}, Notdef: []notdef{}},
			{Entries: []entry{{C: []int{0x43}, V: cidVal(3)}}, Notdef: []notdef{{Lo: []int{0x20}, Hi: []int{0x2f}, V: 0}}},
			{Entries: []entry{{C: []int{0x42}, V: cidVal(5)}}, Notdef: []notdef{{Lo: []int{0x10}, Hi: []int{0x3f}, V: 7}}}}
	}
	c.Probes = [][]int{{0x0f}, {0x10}, {0x1f}, {0x20}, {0x21}, {0x2f}, {0x30}, {0x37}, {0x38}, {0x3f}, {0x40}, {0x41}, {0x42}, {0x43}, {0xff}}
	return c
}

// wideRangeCase: one cidrange over a whole 3- or 4-byte code space, value 0.
// Positions up to 0x7FFFFFFF are probed (rangeIndex documents that it treats
// larger positions as unmapped; TLC's integers end there too).
func wideRangeCase(rd *rand.Rand, n, id int) *conCase {
	lo, hi := make([]int, n), make([]int, n)
	for i := range hi {
		hi[i] = 0xff
	}
	zero := 0
	c := &conCase{Kind: "wide-cid", CSR: []rng{{lo, hi}}, Origin: fmt.Sprintf("widerange:%dbyte", n)}
	c.Opt = options{Version: versionNames[id%len(versionNames)], Pretty: id%2 == 0}
	c.File.Ranges = []fRange{{First: lo, Last: hi, V: &zero}}
	fill := func(first, rest int) []int {
		out := make([]int, n)
		out[0] = first
		for i := 1; i < n; i++ {
			out[i] = rest
		}
		return out
	}
	c.Probes = [][]int{lo, fill(0, 0xff), fill(0x7f, 0xff), fill(0x7f, 0), fill(0x40, 0x80), lo[:n-1]}
	if n < 4 {
		c.Probes = append(c.Probes, hi, fill(0x80, 0))
	}
	for i := 0; i < 30; i++ {
		p := make([]int, n)
		for j := range p {
			p[j] = rd.Intn(256)
		}
		if n == 4 {
			p[0] &= 0x7f
		}
		c.Probes = append(c.Probes, p)
	}
	return c
}

// multiRuneCase: runs of consecutive codes with texts of 2-4 runes (BMP and astral):
// (a) everything but the last rune equal, the last rune incrementing - a genuine
// incrementing bfrange, (b) the last rune incrementing but a leading rune different,
// (c) the last rune incrementing but the lengths different, (d) the last rune
// stepping over a low-byte boundary (..FF -> ..00), also at the BMP/astral border.
func multiRuneCase(rd *rand.Rand, id int) *conCase {
	name := []string{"1byte", "2byte", "rksj"}[id%3]
	csr := spaces[name]
	c := &conCase{Kind: "tu", CSR: csr, Origin: fmt.Sprintf("multirune:%s/#%d", name, id)}
	c.Opt = options{Version: versionNames[id%len(versionNames)], Pretty: id%2 == 0}
	m := map[string]entry{}
	leads := []int{0x66, 0x74, 0x73, 0x1f600, 0x4e00, 0x10000, 0x61}
	lasts := []int{0x69, 0xfd, 0x1fd, 0xfffd - 0x100, 0xfffc, 0x1fffd, 0x10fff0, 0x3b1}
	for len(m) < 150 {
		r := csr[rd.Intn(len(csr))]
		code := randCode(rd, r)
		n := 2 + rd.Intn(3) // runes per text
		prefix := make([]int, n-1)
		for i := range prefix {
			prefix[i] = leads[rd.Intn(len(leads))]
		}
		last := lasts[rd.Intn(len(lasts))]
		mode := rd.Intn(4) // 0 genuine, 1 prefix differs, 2 lengths differ, 3 genuine across a byte boundary
		if mode == 3 {
			last = []int{0xfe, 0x1fe, 0xfffe, 0x1fffe}[rd.Intn(4)]
		}
		for k := 0; k < 2+rd.Intn(5) && code != nil; k++ {
			t := append(append([]int{}, prefix...), last+k)
			switch mode {
			case 1:
				if k > 0 {
					t[rd.Intn(n-1)] = leads[(rd.Intn(len(leads)-1)+1+k)%len(leads)]
				}
			case 2:
				if k%2 == 1 {
					t = append([]int{0x78}, t...)
				}
			}
			ok := true
			for _, x := range t {
				ok = ok && validRune(x)
			}
			if !ok {
				break
			}
			m[key(code)] = entry{C: code, V: textVal(t)}
			c.Probes = append(c.Probes, code)
			code = next(r, code)
		}
		if code != nil {
			c.Probes = append(c.Probes, code)
		}
	}
	c.Layers = []layer{{Entries: sortedEntries(m), Notdef: []notdef{}}}
	seen := map[string]bool{}
	ps := c.Probes
	c.Probes = nil
	for _, p := range ps {
		if !seen[key(p)] {
			seen[key(p)] = true
			c.Probes = append(c.Probes, p)
		}
	}
	return c
}

// notdefChunkCase: n notdef ranges and n one-code notdef entries (written as
// notdefrange and notdefchar sections), a few mapped codes among them.
func notdefChunkCase(n, id int) *conCase {
	c := &conCase{Kind: "cid", CSR: spaces["2byte"], Origin: fmt.Sprintf("chunks:notdef/ranges=%d/chars=%d", n, n), NotdefSingles: true}
	c.Opt = options{Version: versionNames[(id+3)%len(versionNames)], Pretty: id%2 == 1}
	lay := layer{Entries: []entry{}, Notdef: []notdef{}}
	for i := 0; i < n; i++ {
		row, col := 0x30+(8*i)/256, (8*i)%256
		lay.Notdef = append(lay.Notdef, notdef{Lo: []int{row, col}, Hi: []int{row, col + 3}, V: 1 + i%5})
		lay.Notdef = append(lay.Notdef, notdef{Lo: []int{0x90 + (2*i)/256, (2 * i) % 256}, Hi: []int{0x90 + (2*i)/256, (2 * i) % 256}, V: 6 + i%3})
		if i%10 == 0 {
			lay.Entries = append(lay.Entries, entry{C: []int{row, col + 1}, V: cidVal(1000 + i)})
		}
		if i%7 == 0 || i >= n-2 {
			c.Probes = append(c.Probes, []int{row, col}, []int{row, col + 1}, []int{row, col + 3}, []int{row, col + 4},
				[]int{0x90 + (2*i)/256, (2 * i) % 256}, []int{0x90 + (2*i)/256, (2*i)%256 + 1})
		}
	}
	c.Layers = []layer{lay}
	return c
}

// crossLengthCase: mixed-length code spaces whose longer codes start with 0x00 bytes
// (1+2, 1+3, 2+4 bytes); runs of consecutive last bytes and consecutive values that
// cross from one code length to the other, in both directions.  Codes of different
// length never belong to one range.
func crossLengthCase(id int) *conCase {
	kind := []string{"cid", "tu"}[id%2]
	var short, long rng
	switch id / 2 {
	case 0:
		short, long = rng{[]int{0x20}, []int{0x7f}}, rng{[]int{0, 0}, []int{0, 0xff}}
	case 1:
		short, long = rng{[]int{0x20}, []int{0x7f}}, rng{[]int{0, 0, 0}, []int{0, 0, 0xff}}
	default:
		short, long = rng{[]int{0, 0x20}, []int{0, 0x7f}}, rng{[]int{0, 0, 0, 0}, []int{0, 0, 0, 0xff}}
	}
	c := &conCase{Kind: kind, CSR: []rng{short, long}, Origin: fmt.Sprintf("crosslength:%s/%d+%d", kind, len(short.Lo), len(long.Lo))}
	c.Opt = options{Version: versionNames[id%len(versionNames)], Pretty: id%2 == 0}
	code := func(r rng, last int) []int {
		out := append([]int{}, r.Lo...)
		out[len(out)-1] = last
		return out
	}
	lay := layer{Notdef: []notdef{}}
	v := 100
	// last bytes 0x1e..0x7f+2: below 0x20 only the long codes exist; from 0x20 on the run
	// alternates between the lengths every one, two or three codes
	for last, k := 0x1e, 0; last <= 0x82; last, k = last+1, k+1 {
		r := long
		if last >= 0x20 && last <= 0x7f && (k/(1+last%3))%2 == 0 {
			r = short
		}
		val := cidVal(v)
		if kind == "tu" {
			val = textVal([]int{0x3b1 + v - 100})
		}
		if last%17 != 0 { // some holes
			lay.Entries = append(lay.Entries, entry{C: code(r, last), V: val})
		}
		c.Probes = append(c.Probes, code(short, last&0xff), code(long, last))
		v++
	}
	c.Layers = []layer{lay}
	seen := map[string]bool{}
	ps := c.Probes
	c.Probes = nil
	for _, p := range ps {
		if !seen[key(p)] {
			seen[key(p)] = true
			c.Probes = append(c.Probes, p)
		}
	}
	return c
}

func randomCases(ctx *core.Ctx) []*conCase {
	rd := ctx.Rand("random-maps")
	var out []*conCase
	defer func() {
		// half of the CMap cases: clone + SetMapping on the clone before every query;
		// chains: parents named like predefined CMaps
		n := 0
		for _, c := range out {
			if c.Kind == "cid" || c.Kind == "rect-cid" {
				n++
				if n%2 == 0 {
					c.CloneStep = true
				}
				if len(c.Layers) > 1 && n%3 != 0 {
					c.ParentName = []string{"Identity-H", "UniGB-UCS2-H", "90ms-RKSJ-H"}[n%3]
					c.Origin += "/parent=" + c.ParentName
				}
			}
		}
	}()
	for i := 0; i < ctx.Pick(6, 30); i++ {
		out = append(out, multiRuneCase(rd, i))
	}
	out = append(out, wideRangeCase(rd, 4, 0), wideRangeCase(rd, 3, 1))
	out = append(out, fullRangeCase(0), fullRangeCase(1), notdefZeroCase(0), notdefZeroCase(1), notdefZeroCase(2))
	for v := 0; v < 5; v++ {
		out = append(out, wideNotdefCase(rd, 4, v, v), wideNotdefCase(rd, 3, v, v+1))
	}
	for i, p := range [][2]int{{10, 256}, {70, 256}, {99, 200}, {99, 256}, {150, 256}} {
		out = append(out, stackCase(p[0], p[1], i))
	}
	// sections of exactly 99 / 100 / 101 / 200 / 201 entries of every kind: cidchar and
	// cidrange, bfchar and (short, incrementing) bfrange, notdefrange and notdefchar
	for i, n := range []int{99, 100, 101, 200, 201} {
		out = append(out, chunkCase("cid", n, n, 2*i), chunkCase("tu", n, n, 2*i+1), notdefChunkCase(n, i))
	}
	for i := 0; i < 6; i++ {
		out = append(out, crossLengthCase(i))
	}
	n := ctx.Pick(40, 300)
	for i := 0; i < n; i++ {
		kind := "cid"
		if i%2 == 1 {
			kind = "tu"
		}
		size := 200 + rd.Intn(ctx.Pick(2500, 5000))
		if i%5 == 0 {
			size = 5 + rd.Intn(60)
		}
		out = append(out, randomMapCase(rd, kind, size, i))
	}
	m := ctx.Pick(40, 300)
	for i := 0; i < m; i++ {
		kind := "rect-cid"
		if i%2 == 1 {
			kind = "rect-tu"
		}
		out = append(out, randomRectCase(rd, kind, i))
	}
	return out
}
