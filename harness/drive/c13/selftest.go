package c13

import (
	"verif/harness/core"
)

func selfCases() []*conCase {
	one := []rng{{[]int{0}, []int{0xff}}}
	two := []rng{{[]int{0, 0}, []int{0xff, 0xff}}}
	var probes1, probes2 [][]int
	for _, x := range []int{0x3f, 0x40, 0x41, 0x42, 0x43, 0x44, 0xfe, 0xff} {
		probes1 = append(probes1, []int{x})
		probes2 = append(probes2, []int{0x20, x}, []int{0x21, x})
	}
	probes2 = append(probes2, []int{0x21, 0x00}, []int{0x20})
	v5 := 5
	return []*conCase{
		{Kind: "tu", CSR: one, Probes: probes1, Opt: options{Version: "1.7", Pretty: true}, Origin: "selftest-tu",
			Layers: []layer{{Entries: []entry{{[]int{0x41}, textVal([]int{0x61})}, {[]int{0x42}, textVal([]int{0x62})},
				{[]int{0x43}, textVal([]int{0x1f600, 0x21})}, {[]int{0xff}, textVal([]int{})}}, Notdef: []notdef{}}}},
		{Kind: "cid", CSR: two, Probes: probes2, Opt: options{Version: "2.0", WMode: 1}, Origin: "selftest-cid",
			Layers: []layer{
				{Entries: []entry{{[]int{0x20, 0xfe}, cidVal(7)}, {[]int{0x20, 0xff}, cidVal(8)}, {[]int{0x21, 0x00}, cidVal(9)}}, Notdef: []notdef{}},
				{Entries: []entry{{[]int{0x20, 0x41}, cidVal(1)}, {[]int{0x20, 0x42}, cidVal(2)}, {[]int{0x20, 0xff}, cidVal(3)}},
					Notdef: []notdef{{Lo: []int{0x21, 0x40}, Hi: []int{0x21, 0x44}, V: 4}}}}},
		{Kind: "rect-cid", CSR: two, Probes: probes2, Opt: options{Version: "1.4"}, Origin: "selftest-rect",
			File: fileSpec{Ranges: []fRange{{First: []int{0x20, 0x40}, Last: []int{0x21, 0x43}, V: &v5}}}},
	}
}

// selfTest: the machinery must notice (i) corrupted records, (ii) the as-coded
// variants of the model failing, (iii) a wrong table line.
func selfTest(ctx *core.Ctx) error {
	cases := selfCases()
	var recs []record
	for i, c := range cases {
		rs, err := runBatch([]*conCase{c}, i)
		if err != nil {
			return core.Infra("self-test: %v", err)
		}
		recs = append(recs, rs...)
	}
	// 0..5 intact; corrupted copies follow
	deep := func(r record) record {
		c := r
		c.Probes = append([]probeRec(nil), r.Probes...)
		c.All = append([]entry(nil), r.All...)
		c.Mapping = append([]entry(nil), r.Mapping...)
		c.CSR2 = append([]rng(nil), r.CSR2...)
		return c
	}
	a := deep(recs[1]) // tu, extracted: one lookup value changed
	a.Probes[2].V = textVal([]int{0x7a})
	b := deep(recs[1]) // tu: one enumerated pair dropped
	b.All = b.All[1:]
	c := deep(recs[3]) // cid chain, extracted: lookup of an unmapped code under the root's notdef range
	for i := range c.Probes {
		if key(c.Probes[i].C) == key([]int{0x21, 0x42}) {
			c.Probes[i].V = cidVal(0)
		}
	}
	d := deep(recs[3]) // cid: reported code space shrunk
	d.CSR2 = []rng{{[]int{0, 0}, []int{0xff, 0xfe}}}
	e := deep(recs[5]) // rect: position in the rectangle off by one row
	for i := range e.Probes {
		if key(e.Probes[i].C) == key([]int{0x21, 0x40}) {
			e.Probes[i].V = cidVal(e.Probes[i].V.N + 1)
		}
	}
	f := deep(recs[0]) // an error of the real code
	f.Err = "Embed: injected"
	all := append(append([]record{}, recs...), a, b, c, d, e, f)
	bad, err := core.JudgeCases(ctx, traceOpts, all, 20, 1)
	if err != nil {
		return err
	}
	want := []int{6, 7, 8, 9, 10, 11}
	if len(bad) != len(want) {
		return core.Infra("self-test: corrupted records not singled out: rejected %v, want %v", bad, want)
	}
	for i := range want {
		if bad[i] != want[i] {
			return core.Infra("self-test: corrupted records not singled out: rejected %v, want %v", bad, want)
		}
	}
	ctx.Logf("self-test (i): 6 corrupted records rejected, 6 intact ones accepted")

	// (ii) the as-coded variants must violate LookupOK in the model
	for _, cfg := range []string{"MC_CMap_tuascoded.cfg", "MC_CMap_notdefascoded.cfg", "MC_CMap_stackascoded.cfg"} {
		res, err := ctx.TLC(core.TLCOpts{Dir: "font", Module: "MC_CMap", Cfg: cfg, Workers: 4, Mode: "negative-control"})
		if err != nil {
			return err
		}
		want := "LookupOK"
		if cfg == "MC_CMap_stackascoded.cfg" {
			want = "ReadableOK"
		}
		if res.Invariant != want {
			return core.Infra("self-test: %s should violate %s, got %q", cfg, want, res.Invariant)
		}
	}
	ctx.Logf("self-test (ii): the as-coded increment rule and notdef lookup violate LookupOK, the as-coded section cutting violates ReadableOK in the model")

	// (iii) a wrong expectation in a table line
	g := genCase{Kind: "cid", Fam: "cid", Sp: "s1", CSR: []rng{{[]int{0}, []int{3}}},
		Layers: []layer{{Entries: []entry{{[]int{1}, cidVal(2)}}, Notdef: []notdef{}}},
		Expect: []expect{{C: []int{1}, Src: "map", V: cidVal(3)}}, Merged: []entry{{[]int{1}, cidVal(2)}}}
	cc, err := concretise(&g, 0, options{Version: "1.7"})
	if err != nil {
		return core.Infra("self-test: %v", err)
	}
	rs, err := runBatch([]*conCase{cc}, 0)
	if err != nil {
		return core.Infra("self-test: %v", err)
	}
	if checkTable(cc, &rs[0]) == "" || checkTable(cc, &rs[1]) == "" {
		return core.Infra("self-test: wrong table expectation not noticed")
	}
	g.Expect[0].V = cidVal(2)
	cc, _ = concretise(&g, 0, options{Version: "1.7"})
	rs, err = runBatch([]*conCase{cc}, 0)
	if err != nil {
		return core.Infra("self-test: %v", err)
	}
	if s := checkTable(cc, &rs[1]); s != "" {
		return core.Infra("self-test: correct table line reported as %q", s)
	}
	ctx.Logf("self-test (iii): wrong table expectation noticed, right one accepted")
	return nil
}
