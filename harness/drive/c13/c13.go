package c13

import (
	"encoding/json"
	"fmt"
	"sort"
	"strings"
	"sync"
	"time"

	"verif/harness/core"
)

var Driver = core.Driver{ID: "C13", Level: "model_checking", Run: run, Replay: replay, SelfTest: selfTest}

const runeConsts = " RuneMax = 1114111\n HoleLo = 55296\n HoleHi = 57343\n Repl = 65533\n TU_FROM_START = TRUE\n NOTDEF_OWN = TRUE\n STACK = 500\n CHUNK_STACK = TRUE\n"

// single-worker TLC runs: many of them run side by side, so keep each JVM's helper threads few
var smallJVM = map[string]string{"JAVA_TOOL_OPTIONS": "-XX:ParallelGCThreads=2 -XX:CICompilerCount=2"}

var traceOpts = core.TLCOpts{Dir: "font", Module: "Trace_CMap", Cfg: "Trace_CMap.cfg", XssMB: 512, XmxMB: 2500, Env: smallJVM}

// genJob is one run of Gen_CMap.
type genJob struct {
	mode, sp, fam          string
	parts                  string // TLA+ set text
	b                      int
	maxTop, maxTotal, maxD int
	wide, notdef           bool
	shards                 int
}

func (j genJob) cfg(shard int) string {
	tf := func(b bool) string {
		if b {
			return "TRUE"
		}
		return "FALSE"
	}
	return fmt.Sprintf("INIT Init\nNEXT Next\nCONSTANTS B = %d\n WITH_GAPS = TRUE\n%s CHUNK = 100\n Wide = %s\n WideSpaces = {\"s1\", \"s2\", \"mix\", \"mixw\", \"s2w\", \"s3\"}\n Mode = %q\n SpName = %q\n Fam = %q\n Parts = %s\n"+
		" MaxTop = %d\n MaxTotal = %d\n MaxDepth = %d\n NotdefOn = %s\n Shard = %d\n Shards = %d\n",
		j.b, runeConsts, tf(j.wide), j.mode, j.sp, j.fam, j.parts, j.maxTop, j.maxTotal, j.maxD, tf(j.notdef), shard, j.shards)
}

var fams = []string{"cid", "tu1", "tuEdge", "tuMix", "tuPrefix"}

func genJobs(ctx *core.Ctx) []genJob {
	var jobs []genJob
	single := `{"single"}`
	chains := `{"two", "three"}`
	// quick: three entries in the two-group space for the two basic families, two for the others (time)
	s2top := map[string]int{"cid": 3, "tu1": 3, "tuEdge": 2, "tuMix": 2, "tuPrefix": 2}
	if !ctx.Thorough() {
		for _, f := range fams {
			sh := 1
			if f == "cid" {
				sh = 2
			}
			jobs = append(jobs,
				genJob{mode: "map", sp: "s1", fam: f, parts: single, b: 4, maxTop: 4, maxD: 1, notdef: true, shards: 1},
				// mixed lengths with a zero first byte of the longer codes (cross-length runs)
				genJob{mode: "map", sp: "mix0", fam: f, parts: single, b: 4, maxTop: 3, maxD: 1, notdef: true, shards: 1},
				genJob{mode: "map", sp: "s2", fam: f, parts: single, b: 4, maxTop: s2top[f], maxD: 1, notdef: true, shards: sh},
				genJob{mode: "map", sp: "s1", fam: f, parts: chains, b: 4, maxTop: 0, maxTotal: 2, maxD: 3, notdef: true, shards: 1},
			)
		}
		jobs = append(jobs,
			genJob{mode: "rect", sp: "s2w", fam: "cid", parts: "{}", b: 3, shards: 2},
			genJob{mode: "rect", sp: "s2w", fam: "tu1", parts: "{}", b: 3, shards: 2},
		)
		return jobs
	}
	for _, f := range fams {
		c := 1
		if f == "cid" {
			c = 2
		}
		jobs = append(jobs,
			genJob{mode: "map", sp: "s1", fam: f, parts: single, b: 4, maxTop: 4, maxD: 1, notdef: true, shards: 1},
			genJob{mode: "map", sp: "mix", fam: f, parts: single, b: 4, maxTop: 4, maxD: 1, wide: true, notdef: true, shards: 3 * c},
			genJob{mode: "map", sp: "s2", fam: f, parts: single, b: 4, maxTop: 4, maxD: 1, notdef: true, shards: 3 * c},
			genJob{mode: "map", sp: "mix0", fam: f, parts: single, b: 4, maxTop: 4, maxD: 1, notdef: true, shards: c},
			genJob{mode: "map", sp: "s1", fam: f, parts: chains, b: 4, maxTotal: 3, maxD: 3, notdef: true, shards: 1 + 7*(c-1)},
		)
		if f != "tuPrefix" { // the wide mixed space only for the four older families (time)
			jobs = append(jobs, genJob{mode: "map", sp: "mixw", fam: f, parts: single, b: 4, maxTop: 3, maxD: 1, notdef: true, shards: 2})
		}
	}
	jobs = append(jobs,
		genJob{mode: "rect", sp: "s2w", fam: "cid", parts: "{}", b: 3, shards: 2},
		genJob{mode: "rect", sp: "s2w", fam: "tu1", parts: "{}", b: 3, shards: 2},
		genJob{mode: "rect", sp: "s3", fam: "cid", parts: "{}", b: 3, shards: 8},
		genJob{mode: "rect", sp: "s3", fam: "tu1", parts: "{}", b: 3, shards: 8},
	)
	return jobs
}

// verdicts collects what TLC rejected, one report per failure class.
type verdicts struct {
	mu      sync.Mutex
	byKey   map[string]int
	first   map[string]*record
	what    map[string]string
	missed  int // rejected by TLC although the table comparison saw nothing
	suspect int
}

func newVerdicts() *verdicts {
	return &verdicts{byKey: map[string]int{}, first: map[string]*record{}, what: map[string]string{}}
}

func (v *verdicts) add(r *record) {
	k, what := classify(r)
	v.mu.Lock()
	defer v.mu.Unlock()
	v.byKey[k]++
	if v.first[k] == nil {
		rr := *r
		v.first[k] = &rr
		v.what[k] = what
	}
}

func (v *verdicts) report(ctx *core.Ctx) {
	for _, k := range core.SortedKeys(v.byKey) {
		r := v.first[k]
		ctx.Violation(k, fmt.Sprintf("%s (%d records of this class rejected by Trace_CMap; first: %s, stage %s)", v.what[k], v.byKey[k], r.Origin, r.Stage),
			replayCaseOf(r))
	}
}

func replayCaseOf(r *record) *conCase {
	return &conCase{Kind: r.Kind, CSR: r.CSR, Layers: r.Layers, File: r.File, Opt: r.Opt, Origin: r.Origin, Probes: r.ProbeCodes,
		ParentName: r.ParentName, CloneStep: r.CloneStep, Predefined: r.Predefined, NotdefSingles: r.NotdefSingles}
}

// judge sends records to TLC and files the rejected ones.  suspects[i] is the
// table's opinion of record i ("" = agrees); a suspect that TLC accepts means
// harness and specification disagree.
func judge(ctx *core.Ctx, recs []record, suspects []string, v *verdicts, batch, parallel int) error {
	o := traceOpts
	o.Timeout = ctx.Dur(10, 30)
	bad, err := core.JudgeCases(ctx, o, recs, batch, parallel)
	if err != nil {
		return err
	}
	isBad := map[int]bool{}
	for _, b := range bad {
		isBad[b] = true
		v.add(&recs[b])
		if suspects != nil && suspects[b] == "" {
			v.mu.Lock()
			v.missed++
			v.mu.Unlock()
		}
	}
	for i, s := range suspects {
		if s != "" {
			v.mu.Lock()
			v.suspect++
			v.mu.Unlock()
			if !isBad[i] {
				data, _ := json.Marshal(recs[i])
				return core.Infra("harness and specification disagree: table mismatch %q accepted by Trace_CMap: %s", s, data)
			}
		}
	}
	return nil
}

func run(ctx *core.Ctx) error {
	ctx.Ev.Rule = "cases = (chain of code->value maps or hand-made file, stage, option set) executed on font/cmap, each with one lookup per probe " +
		"and one enumeration; non-trivial = at least one mapped code; distinct = distinct concrete cases (code space, entries, notdef ranges, parents)"
	ctx.Ev.Assume("TLC evaluates CMap.tla faithfully; RefCID/RefTU/RefFile... state what a CMap means (ISO 32000-2 9.7.5, 9.10.3; usecmap: child overrides parent; notdef ranges apply to codes no layer maps)")
	ctx.Ev.Assume("the closed form of the lexicographic rank used by Trace_CMap for big rectangles equals the declarative LexRank (invariant RectOK of MC_CMap, checked exhaustively for B=3)")
	ctx.Ev.Assume("the PostScript syntax of the CMap stream is the business of postscript.ReadCMap; only the extracted meaning is judged")

	// 1. exhaustive design models, in the background
	var mcErr error
	var mcWG sync.WaitGroup
	mcRun := func(cfg, consts string, workers int) {
		defer mcWG.Done()
		_, err := ctx.MustHold(core.TLCOpts{Dir: "font", Module: "MC_CMap", Cfg: cfg, Workers: workers, XssMB: 512, XmxMB: 4000,
			Constants: consts, Timeout: ctx.Dur(12, 45)})
		if err != nil && mcErr == nil {
			mcErr = err
		}
	}
	mcWG.Add(2)
	if ctx.Thorough() {
		mcWG.Add(1)
		go mcRun("MC_CMap_t.cfg", "B=4; see MC_CMap_t.cfg", 10)
		go mcRun("MC_CMap_rect_q.cfg", "B=3; see MC_CMap_rect_q.cfg", 3)
		go mcRun("MC_CMap_rect_t.cfg", "B=3; see MC_CMap_rect_t.cfg", 3)
	} else {
		go mcRun("MC_CMap_q.cfg", "B=4; see MC_CMap_q.cfg", 10)
		go mcRun("MC_CMap_rect_q.cfg", "B=3; see MC_CMap_rect_q.cfg", 3)
	}

	v := newVerdicts()

	// 2. P-C + P-B on the table; 3. P-B on seeded large maps and hand-made files (concurrently)
	var randErr error
	var rWG sync.WaitGroup
	rWG.Add(1)
	go func() {
		defer rWG.Done()
		randErr = runRandom(ctx, v)
	}()
	tabErr := runTable(ctx, v)
	rWG.Wait()
	if tabErr != nil || randErr != nil {
		mcWG.Wait()
		if tabErr != nil {
			return tabErr
		}
		return randErr
	}

	mcWG.Wait()
	if mcErr != nil {
		return mcErr
	}
	v.report(ctx)
	ctx.Ev.Set("table_suspects", v.suspect)
	ctx.Ev.Set("rejected_without_table_mismatch", v.missed)
	ctx.Ev.Exhaustive = true
	ctx.Ev.Set("exhaustive_scope", "all chains / hand-made files of the bounded universe (MC_CMap cfgs) in TLC; the table part of it on the real code; seeded large maps beyond")
	return nil
}

// runTable generates the table shard by shard and executes it.
func runTable(ctx *core.Ctx, v *verdicts) error {
	type unit struct {
		j     genJob
		shard int
	}
	var units []unit
	for _, j := range genJobs(ctx) {
		for s := 0; s < j.shards; s++ {
			units = append(units, unit{j, s})
		}
	}
	nk := 2
	var (
		mu     sync.Mutex
		first  error
		wg     sync.WaitGroup
		sem    = make(chan struct{}, ctx.Pick(6, 12))
		ncases int
		seq    int
		sample sync.Once
	)
	t0 := time.Now()
	for ui, u := range units {
		wg.Add(1)
		sem <- struct{}{}
		go func(ui int, u unit) {
			defer wg.Done()
			defer func() { <-sem }()
			fail := func(err error) {
				mu.Lock()
				if first == nil {
					first = err
				}
				mu.Unlock()
			}
			mu.Lock()
			stop := first != nil
			mu.Unlock()
			if stop {
				return
			}
			cases, _, err := core.GenCases[genCase](ctx, core.TLCOpts{Dir: "font", Module: "Gen_CMap", CfgText: u.j.cfg(u.shard), Mode: "evaluate",
				XssMB: 512, XmxMB: 3000, Timeout: ctx.Dur(6, 30), Quiet: true, Env: map[string]string{"JAVA_TOOL_OPTIONS": smallJVM["JAVA_TOOL_OPTIONS"]}})
			if err != nil {
				fail(err)
				return
			}
			if len(cases) == 0 {
				fail(core.Infra("Gen_CMap produced no cases for %s/%s shard %d", u.j.sp, u.j.fam, u.shard))
				return
			}
			mu.Lock()
			ncases += len(cases)
			base := seq
			seq += len(cases) * nk
			mu.Unlock()
			sample.Do(func() {
				ctx.Ev.Sample(map[string]any{"kind": "table line of Gen_CMap (abstract bytes)", "case": cases[len(cases)/2]})
			})
			// concretise
			var cons []*conCase
			for ci := range cases {
				for k := 0; k < nk; k++ {
					kk := k
					if k > 0 {
						kk = 1 + (ci*7+k*3+int(ctx.Seed)*5+ui)%11
					}
					n := ci*nk + k + ui
					opt := options{WMode: (ci + k) % 2}
					c, err := concretise(&cases[ci], kk, opt)
					if err != nil {
						fail(core.Infra("concretise: %v", err))
						return
					}
					_ = n
					cons = append(cons, c)
				}
			}
			// batches share one PDF file: version and prettiness per batch
			const bs = 64
			var recs []record
			var sus []string
			for lo := 0; lo < len(cons); lo += bs {
				hi := min(lo+bs, len(cons))
				bi := lo/bs + ui + int(ctx.Seed)
				ver := versionNames[bi%len(versionNames)]
				pretty := (bi/len(versionNames))%2 == 0
				for _, c := range cons[lo:hi] {
					c.Opt.Version, c.Opt.Pretty = ver, pretty
				}
				rs, err := runBatch(cons[lo:hi], base+lo)
				if err != nil {
					fail(core.Infra("%v", err))
					return
				}
				for i := range rs {
					c := cons[lo+i/2]
					s := checkTable(c, &rs[i])
					sus = append(sus, s)
					ctx.Ev.Eval(2 + len(rs[i].Probes))
					if len(c.merged) > 0 || len(c.want) > 0 {
						ctx.Ev.Distinct(canonCase(c))
					}
				}
				recs = append(recs, rs...)
			}
			ctx.Ev.AddReplayed(len(cons))
			if err := judge(ctx, recs, sus, v, 6000, 3); err != nil {
				fail(err)
				return
			}
		}(ui, u)
	}
	wg.Wait()
	if first != nil {
		return first
	}
	ctx.Logf("table: %d lines of Gen_CMap x %d concretisations x 2 stages executed on font/cmap in %.0fs; %d table mismatches", ncases, nk, time.Since(t0).Seconds(), v.suspect)
	ctx.Ev.Set("table_lines", ncases)
	return nil
}

func runRandom(ctx *core.Ctx, v *verdicts) error {
	cases := randomCases(ctx)
	// predefined CMaps from the package cache: Clone + SetMapping on the clone
	var frames []record
	for i, name := range []string{"90ms-RKSJ-H", "UniGB-UCS2-H", "Identity-H", "GBK-EUC-H", "UniJIS-UCS2-V"} {
		fc := &conCase{Kind: "frame-cid", Predefined: name, Origin: "predefined:" + name,
			Probes: [][]int{{0x20}, {0x41}, {0x81, 0x40}, {0x00, 0x41}, {0x4e, 0x00}, {0xff, 0xff}, {0x8e, 0xa1}, {byte2(i), 0x21}}}
		frames = append(frames, frameCase(fc))
	}
	if err := judge(ctx, frames, nil, v, 10, 1); err != nil {
		return err
	}
	for i := range frames {
		ctx.Ev.Eval(2 * len(frames[i].Probes))
	}
	recs := make([]record, 2*len(cases))
	var (
		wg    sync.WaitGroup
		sem   = make(chan struct{}, 12)
		mu    sync.Mutex
		first error
	)
	for i, c := range cases {
		wg.Add(1)
		sem <- struct{}{}
		go func(i int, c *conCase) {
			defer wg.Done()
			defer func() { <-sem }()
			rs, err := runBatch([]*conCase{c}, 1_000_000+i)
			if err != nil {
				mu.Lock()
				if first == nil {
					first = core.Infra("%v", err)
				}
				mu.Unlock()
				return
			}
			recs[2*i], recs[2*i+1] = rs[0], rs[1]
		}(i, c)
	}
	wg.Wait()
	if first != nil {
		return first
	}
	entries := 0
	for i := range recs {
		ctx.Ev.Eval(2 + len(recs[i].Probes))
		entries += len(recs[i].All)
	}
	for _, c := range cases {
		ctx.Ev.Distinct(canonCase(c))
	}
	ctx.Ev.Set("random_cases", len(cases))
	ctx.Ev.Set("random_enumerated_entries", entries)
	if len(recs) > 1 {
		r := recs[1]
		r.Layers = nil
		if len(r.Probes) > 4 {
			r.Probes = r.Probes[:4]
		}
		if len(r.All) > 4 {
			r.All = r.All[:4]
		}
		if len(r.Mapping) > 4 {
			r.Mapping = r.Mapping[:4]
		}
		ctx.Ev.Sample(map[string]any{"kind": "record of a seeded large map after Embed/Extract (truncated), judged by Trace_CMap", "record": r})
	}
	return judge(ctx, recs, nil, v, ctx.Pick(10, 20), 10)
}

// ---------------------------------------------------------------------------
// classification of rejected records (for the violation key only; the verdict
// is TLC's)

func refLayers(r *record) (maps []map[string]val) {
	for _, l := range r.Layers {
		m := map[string]val{}
		for _, e := range l.Entries {
			m[key(e.C)] = e.V
		}
		maps = append(maps, m)
	}
	return maps
}

func inRect(lo, hi, c []int) bool {
	if len(lo) != len(c) || len(hi) != len(c) {
		return false
	}
	for i := range c {
		if c[i] < lo[i] || c[i] > hi[i] {
			return false
		}
	}
	return true
}

func lens(rs []rng) string {
	seen := map[int]bool{}
	for _, r := range rs {
		seen[len(r.Lo)] = true
	}
	var ls []string
	for l := 1; l <= 4; l++ {
		if seen[l] {
			ls = append(ls, fmt.Sprint(l))
		}
	}
	return strings.Join(ls, "+")
}

// errClass: the call that failed and the kind of error ("Extract: stackoverflow")
func errClass(s string) string {
	parts := strings.SplitN(s, ":", 3)
	if len(parts) > 2 {
		parts = parts[:2]
	}
	var ws []string
	for _, p := range parts {
		w := strings.Fields(p)
		if len(w) > 3 {
			w = w[:3]
		}
		ws = append(ws, strings.Join(w, "-"))
	}
	return strings.Join(ws, "/")
}

func classify(r *record) (k, what string) {
	shape := fmt.Sprintf("layers=%d/lens=%s", len(r.Layers), lens(r.CSR))
	if r.Err != "" {
		return fmt.Sprintf("%s/%s/error/%s", r.Kind, r.Stage, errClass(r.Err)),
			fmt.Sprintf("font/cmap failed on a %s case (%s): %s", r.Kind, r.Stage, r.Err)
	}
	switch r.Kind {
	case "tu":
		maps := refLayers(r)
		for _, p := range r.Probes {
			var want *val
			for _, m := range maps {
				if w, ok := m[key(p.C)]; ok {
					want = &w
					break
				}
			}
			if (want != nil) == p.OK && (want == nil || want.eq(p.V)) {
				continue
			}
			// the answer went through U+FFFD although the map says otherwise:
			// walk down the run of consecutive codes the wrong one belongs to
			if want != nil && p.OK && len(p.V.T) > 0 && p.V.T[len(p.V.T)-1] == 0xfffd {
				prev := append([]int(nil), p.C...)
				for prev[len(prev)-1] > 0 {
					prev[len(prev)-1]--
					var w val
					found := false
					for _, m := range maps {
						if x, ok := m[key(prev)]; ok {
							w, found = x, true
							break
						}
					}
					if !found {
						break
					}
					if len(w.T) > 0 && w.T[len(w.T)-1] == 0xfffd {
						return "tu/NewToUnicodeFile/increment-form-through-invalid-rune",
							fmt.Sprintf("NewToUnicodeFile writes a run whose values step through U+FFFD (after U+D7FF or U+10FFFF) as one incrementing bfrange: Lookup(<%x>) = %s, the map says %s",
								toBytes(p.C), p.V, *want)
					}
				}
			}
			return fmt.Sprintf("tu/lookup/%s/%s", r.Stage, shape),
				fmt.Sprintf("ToUnicode Lookup(<%x>) = %s (present=%v), the map says %v", toBytes(p.C), p.V, p.OK, want)
		}
		return fmt.Sprintf("tu/enumeration-or-codespace/%s/%s", r.Stage, shape),
			"ToUnicode All / GetMapping / code space disagree with the map although every probed Lookup is right"
	case "cid":
		maps := refLayers(r)
		for _, p := range r.Probes {
			mapped := false
			for _, m := range maps {
				if w, ok := m[key(p.C)]; ok {
					mapped = true
					if w.eq(p.V) {
						goto next
					}
					return fmt.Sprintf("cid/lookup/%s/%s", r.Stage, shape),
						fmt.Sprintf("LookupCID(<%x>) = %s, the map says %s", toBytes(p.C), p.V, w)
				}
			}
			if !mapped {
				for i, l := range r.Layers {
					for _, n := range l.Notdef {
						if inRect(n.Lo, n.Hi, p.C) {
							if p.V.N == n.V {
								goto next
							}
							if i < len(r.Layers)-1 {
								return "cid/LookupCID/notdef-of-file-with-parent-ignored",
									fmt.Sprintf("LookupCID(<%x>) = %s: the code is unmapped and inside the notdef range <%x>-<%x> -> %d of a CMap that has a parent (usecmap); its own notdef ranges are never consulted",
										toBytes(p.C), p.V, toBytes(n.Lo), toBytes(n.Hi), n.V)
							}
							return fmt.Sprintf("cid/notdef/%s/%s", r.Stage, shape),
								fmt.Sprintf("LookupCID(<%x>) = %s, the notdef range says %d", toBytes(p.C), p.V, n.V)
						}
					}
				}
				if p.V.N != 0 {
					return fmt.Sprintf("cid/unmapped/%s/%s", r.Stage, shape),
						fmt.Sprintf("LookupCID(<%x>) = %s for a code that nothing maps", toBytes(p.C), p.V)
				}
			}
		next:
		}
		return fmt.Sprintf("cid/enumeration-or-codespace/%s/%s", r.Stage, shape),
			"All / code space disagree with the map although every probed LookupCID is right"
	}
	if r.Kind == "frame-cid" {
		return "frame-cid/clone-setmapping-changes-original", fmt.Sprintf("SetMapping on a Clone of the predefined CMap %s changes what the cached original answers", r.Predefined)
	}
	return fmt.Sprintf("%s/%s/ranges=%d/len=%s", r.Kind, r.Stage, len(r.File.Ranges), lens(r.CSR)),
		"lookup and enumeration of a hand-made file with rectangular ranges disagree with value + lexicographic rank"
}

// ---------------------------------------------------------------------------

func byte2(i int) int { return 0x30 + i }

func replay(ctx *core.Ctx, raw json.RawMessage) error {
	var c conCase
	if err := json.Unmarshal(raw, &c); err != nil {
		return core.Infra("replay: %v", err)
	}
	var recs []record
	var err error
	if c.Kind == "frame-cid" {
		recs = []record{frameCase(&c)}
	} else {
		recs, err = runBatch([]*conCase{&c}, 0)
	}
	if err != nil {
		return core.Infra("replay: %v", err)
	}
	v := newVerdicts()
	if err := judge(ctx, recs, nil, v, 2, 1); err != nil {
		return err
	}
	for _, r := range recs {
		fmt.Printf("  stage %s: err=%q, %d probes, %d enumerated\n", r.Stage, r.Err, len(r.Probes), len(r.All))
	}
	keys := make([]string, 0, len(v.byKey))
	for k := range v.byKey {
		keys = append(keys, k)
	}
	sort.Strings(keys)
	for _, k := range keys {
		fmt.Printf("  rejected: %s\n", v.what[k])
	}
	v.report(ctx)
	return nil
}
