// Package c16 binds spec/tree/PageTree.tla (+ PageTreeRef.tla) to go-pdf's
// pagetree package.
//
//	P-A  Gen_PageTree (TLC behaviours: exhaustive for short ones, -simulate
//	     for long ones) -> scaled to the code's fan-out 16 -> replayed on the
//	     real pagetree.Writer; the document order, the callback values and the
//	     call after which each callback fired are compared with the model.
//	P-D  the written file is reopened, the raw /Pages dictionaries are read
//	     generically (pdf.Resolve, not pagetree's reader) into a node table,
//	     and TLC judges Order/Counts/Parents/Fanout(16)/Effective with
//	     Trace_PageTree (reference operators only).  The answers of
//	     pagetree.Iterator, GetPage, NumPages and the logged NextPageNumber
//	     callback invocations are judged in the same record.
//
// A mismatch seen by the Go-side comparison is never a verdict by itself:
// the record of the real execution is judged by TLC.
package c16

import (
	"bytes"
	"crypto/sha256"
	"encoding/hex"
	"encoding/json"
	"fmt"
	"math"
	"regexp"
	"strconv"
	"strings"

	"seehuhn.de/go/pdf"
	"seehuhn.de/go/pdf/graphics/content"
	"seehuhn.de/go/pdf/page"
	"seehuhn.de/go/pdf/pagetree"

	"verif/harness/core"
	"verif/harness/drive/shared"
	"verif/harness/indep/obj"
)

var Driver = core.Driver{ID: "C16", Level: "model_checking", Run: run, Replay: replay, SelfTest: selfTest}

// Fan is the fan-out limit of the real code (pagetree.maxDegree).
const Fan = 16

// attrs are the four inheritable attributes as small value ids; "-" = absent.
type attrs struct {
	M string `json:"m"`
	C string `json:"c"`
	R string `json:"r"`
	S string `json:"s"`
}

var noAttrs = attrs{"-", "-", "-", "-"}

// op is one call of the program (see PageTreeRef.tla).  API is not read by
// the specification: "dict" = AppendPageDict, "page" = AppendPage,
// "ref" = AppendPageRef.
type op struct {
	Op  string `json:"op"`
	W   int    `json:"w"`
	ID  int    `json:"id,omitempty"`
	A   *attrs `json:"a,omitempty"`
	Sub int    `json:"sub,omitempty"`
	C   int    `json:"c,omitempty"`
	API string `json:"api,omitempty"`
}

// pcase is a replayable case: a program for the real pagetree.Writer.
type pcase struct {
	Version string `json:"version"`
	Human   bool   `json:"human,omitempty"`
	Prog    []op   `json:"prog"`
	Probes  []int  `json:"probes"` // page numbers asked of GetPage
	Origin  string `json:"origin,omitempty"`
}

type node struct {
	T  string `json:"t"`
	K  []int  `json:"k"`
	N  int    `json:"n"`
	P  int    `json:"p"`
	A  attrs  `json:"a"`
	ID int    `json:"id"`
}

type seenPage struct {
	ID int   `json:"id"`
	A  attrs `json:"a"`
}

type gotPage struct {
	I  int   `json:"i"`
	ID int   `json:"id"`
	A  attrs `json:"a"`
}

type firing struct {
	C    int `json:"c"`
	V    int `json:"v"`
	Step int `json:"step"` // index of the call during which it fired (not judged)
}

// record is what one real execution did; judged by Trace_PageTree.
type record struct {
	Fan      int        `json:"fan"`
	Prog     []op       `json:"prog"`
	Root     int        `json:"root"`
	Nodes    []node     `json:"nodes"`
	Iter     []seenPage `json:"iter"`
	GetPage  []gotPage  `json:"getpage"`
	NumPages int        `json:"numpages"`
	Fired    []firing   `json:"fired"`
	Version  string     `json:"version"`
	Origin   string     `json:"origin,omitempty"`
	Err      string     `json:"err,omitempty"`
	Clause   string     `json:"clause,omitempty"` // judge only this clause (used to classify a rejection)
	Kind     string     `json:"kind,omitempty"`   // "reader": a foreign tree read by pagetree (see foreign.go)
	Dec      []seenPage `json:"dec"`              // page.Decode of the pages the iterator yielded (reader records)
}

// ---------------------------------------------------------------------------
// value universe

var (
	mediaBoxes = map[string][4]float64{"A": {0, 0, 612, 792}, "B": {0, 0, 595, 842}, "B2": {0, 0, 1224, 792}}
	cropBoxes  = map[string][4]float64{"A": {10, 10, 500, 700}, "B": {20, 20, 400, 600}}
	rotations  = map[string]int{"0": 0, "90": 90, "180": 180, "270": 270}
	procSets   = map[string][]string{"R1": {"PDF"}, "R2": {"PDF", "Text"}, "R3": {"PDF", "ImageB"}, "E": nil}
)

func versions() []string { return []string{"1.1", "1.2", "1.3", "1.4", "1.5", "1.6", "1.7", "2.0"} }

func parseVersion(s string) (pdf.Version, error) { return pdf.ParseVersion(s) }

func rect(b [4]float64) *pdf.Rectangle {
	return &pdf.Rectangle{LLx: b[0], LLy: b[1], URx: b[2], URy: b[3]}
}

func boxArray(b [4]float64) pdf.Array {
	return pdf.Array{pdf.Integer(b[0]), pdf.Integer(b[1]), pdf.Integer(b[2]), pdf.Integer(b[3])}
}

func resDict(id string) pdf.Dict {
	d := pdf.Dict{}
	if ps := procSets[id]; len(ps) > 0 {
		arr := pdf.Array{}
		for _, n := range ps {
			arr = append(arr, pdf.Name(n))
		}
		d["ProcSet"] = arr
	}
	return d
}

// canonical text of a resource dictionary -> value id
var resByText = func() map[string]string {
	m := map[string]string{}
	for id := range procSets {
		m[obj.String(shared.FromPDF(resDict(id)))] = id
	}
	return m
}()

// ---------------------------------------------------------------------------
// executing a program on the real code

type runner struct {
	out     *pdf.Writer
	rm      *pdf.ResourceManager
	version pdf.Version
	writers map[int]*pagetree.Writer
	fired   []firing
	step    int
	r3      pdf.Reference
	pageRes map[string]*content.Resources
}

func (r *runner) dictFor(o op) pdf.Dict {
	d := pdf.Dict{"Type": pdf.Name("Page"), "VerifPage": pdf.Integer(o.ID)}
	a := o.A
	if b, ok := mediaBoxes[a.M]; ok {
		d["MediaBox"] = boxArray(b)
	}
	if b, ok := cropBoxes[a.C]; ok {
		d["CropBox"] = boxArray(b)
	}
	if deg, ok := rotations[a.R]; ok {
		d["Rotate"] = pdf.Integer(deg)
	}
	switch a.S {
	case "R1", "R2", "E":
		d["Resources"] = resDict(a.S)
	case "R3": // one shared, indirect resource dictionary
		if r.r3 == 0 {
			r.r3 = r.out.Alloc()
			if err := r.out.Put(r.r3, resDict("R3")); err != nil {
				panic(err)
			}
		}
		d["Resources"] = r.r3
	}
	return d
}

func (r *runner) pageFor(o op) *page.Page {
	p := &page.Page{Duration: float64(o.ID)} // /Dur carries the page id
	a := o.A
	if b, ok := mediaBoxes[a.M]; ok {
		p.MediaBox = rect(b)
	}
	if b, ok := cropBoxes[a.C]; ok {
		p.CropBox = rect(b)
	}
	if deg, ok := rotations[a.R]; ok {
		p.Rotate = page.RotationFromDegrees(deg)
	}
	if a.S != "-" {
		res := r.pageRes[a.S]
		if res == nil {
			res = &content.Resources{SingleUse: a.S != "R2" && a.S != "R3"}
			for _, n := range procSets[a.S] {
				switch n {
				case "PDF":
					res.ProcSet.PDF = true
				case "Text":
					res.ProcSet.Text = true
				case "ImageB":
					res.ProcSet.ImageB = true
				}
			}
			r.pageRes[a.S] = res
		}
		p.Resources = res
	}
	return p
}

// execute runs the program and observes the result.  It never fails: errors
// and panics of the library end up in the record.
func execute(c *pcase) (rec record) {
	rec = record{Fan: Fan, Prog: c.Prog, Nodes: []node{}, Iter: []seenPage{}, GetPage: []gotPage{}, NumPages: -1, Dec: []seenPage{},
		Fired: []firing{}, Version: c.Version, Origin: c.Origin}
	data, fired, err := write(c)
	rec.Fired = append(rec.Fired, fired...)
	if err != nil {
		rec.Err = err.Error()
		return rec
	}
	if err := observe(data, c, &rec); err != nil {
		rec.Err = err.Error()
	}
	return rec
}

func write(c *pcase) (data []byte, fired []firing, err error) {
	r := &runner{writers: map[int]*pagetree.Writer{}, pageRes: map[string]*content.Resources{}}
	defer func() {
		fired = r.fired
		if p := recover(); p != nil {
			err = fmt.Errorf("panic: %v", p)
		}
	}()
	v, err := parseVersion(c.Version)
	if err != nil {
		return nil, nil, err
	}
	r.version = v
	buf := &bytes.Buffer{}
	var opt *pdf.WriterOptions
	if c.Human {
		opt = &pdf.WriterOptions{HumanReadable: true}
	}
	r.out, err = pdf.NewWriter(buf, v, opt)
	if err != nil {
		return nil, nil, err
	}
	r.rm = pdf.NewResourceManager(r.out)
	r.writers[1] = pagetree.NewWriter(r.out, r.rm)
	var rootRef pdf.Reference
	var rootErr error
	rootClosed := false
	for i, o := range c.Prog {
		r.step = i
		w := r.writers[o.W]
		if w == nil {
			return nil, nil, fmt.Errorf("harness: call %d names unknown writer %d", i, o.W)
		}
		switch o.Op {
		case "page":
			switch o.API {
			case "page":
				err = w.AppendPage(r.pageFor(o))
			case "ref":
				err = w.AppendPageRef(r.out.Alloc(), r.pageFor(o))
			default:
				err = w.AppendPageDict(r.out.Alloc(), r.dictFor(o))
			}
		case "range":
			var sub *pagetree.Writer
			sub, err = w.NewRange()
			r.writers[o.Sub] = sub
		case "close":
			var ref pdf.Reference
			ref, err = w.Close()
			if o.W == 1 {
				// only NextPageNumber calls can follow; they are still made
				rootRef, rootClosed, rootErr, err = ref, true, err, nil
			}
		case "cb":
			id := o.C
			w.NextPageNumber(func(n int) { r.fired = append(r.fired, firing{C: id, V: n, Step: r.step}) })
		default:
			return nil, nil, fmt.Errorf("harness: unknown call %q", o.Op)
		}
		if err != nil {
			return nil, nil, fmt.Errorf("call %d (%s on writer %d): %w", i, o.Op, o.W, err)
		}
	}
	if !rootClosed {
		return nil, nil, fmt.Errorf("harness: program does not close the root")
	}
	if rootErr != nil {
		return nil, nil, fmt.Errorf("closing the root: %w", rootErr)
	}
	r.out.GetMeta().Catalog.Pages = rootRef
	if err = r.rm.Close(); err != nil {
		return nil, nil, err
	}
	if err = r.out.Close(); err != nil {
		return nil, nil, err
	}
	return buf.Bytes(), r.fired, nil
}

// ---------------------------------------------------------------------------
// observing the written file

func number(v pdf.Object) (float64, bool) {
	switch x := v.(type) {
	case pdf.Integer:
		return float64(x), true
	case pdf.Real:
		return float64(x), true
	case pdf.Number:
		return float64(x), true
	}
	return 0, false
}

func boxID(r pdf.Getter, v pdf.Object, table map[string][4]float64) string {
	if v == nil {
		return "-"
	}
	n, err := pdf.Resolve(r, v)
	if err != nil {
		return "?err"
	}
	if n == nil {
		return "-" // a reference to an undefined object is null: no entry (7.3.10)
	}
	arr, ok := n.(pdf.Array)
	if !ok || len(arr) != 4 {
		return "?" + obj.String(shared.FromPDF(n))
	}
	var b [4]float64
	for i, e := range arr {
		e2, _ := pdf.Resolve(r, e)
		f, ok := number(e2)
		if !ok {
			return "?" + obj.String(shared.FromPDF(n))
		}
		b[i] = f
	}
	for id, t := range table {
		if t == b {
			return id
		}
	}
	return "?" + obj.String(shared.FromPDF(n))
}

func rotID(r pdf.Getter, v pdf.Object) string {
	if v == nil {
		return "-"
	}
	n, err := pdf.Resolve(r, v)
	if err != nil {
		return "?err"
	}
	if n == nil {
		return "-"
	}
	f, ok := number(n)
	if !ok || f != math.Trunc(f) {
		return "?" + obj.String(shared.FromPDF(n))
	}
	return strconv.Itoa(int(f))
}

func resID(r pdf.Getter, v pdf.Object) string {
	if v == nil {
		return "-"
	}
	n, err := pdf.Resolve(r, v)
	if err != nil {
		return "?err"
	}
	if n == nil {
		return "-"
	}
	d, ok := n.(pdf.Dict)
	if !ok {
		return "?" + obj.String(shared.FromPDF(n))
	}
	// one level of indirection inside (ProcSet array may be a reference)
	dd := pdf.Dict{}
	for k, e := range d {
		e2, _ := pdf.Resolve(r, e)
		dd[k] = e2
	}
	s := obj.String(shared.FromPDF(dd))
	if id, ok := resByText[s]; ok {
		return id
	}
	return "?" + s
}

func attrsOf(r pdf.Getter, d pdf.Dict) attrs {
	return attrs{M: boxID(r, d["MediaBox"], mediaBoxes), C: boxID(r, d["CropBox"], cropBoxes),
		R: rotID(r, d["Rotate"]), S: resID(r, d["Resources"])}
}

func pageIDOf(r pdf.Getter, d pdf.Dict) int {
	for _, key := range []pdf.Name{"VerifPage", "Dur"} {
		if v, ok := d[key]; ok {
			n, _ := pdf.Resolve(r, v)
			if f, ok := number(n); ok && f == math.Trunc(f) {
				return int(f)
			}
		}
	}
	return 0
}

// readTree follows /Kids from root and returns one node per object.  It uses
// only pdf.Resolve / Reader.Get; nothing from package pagetree.
func readTree(r pdf.Getter, root pdf.Reference) []node {
	index := map[pdf.Reference]int{}
	var nodes []node
	var parents []pdf.Object
	var visit func(ref pdf.Reference) int
	visit = func(ref pdf.Reference) int {
		if i, ok := index[ref]; ok {
			return i
		}
		nodes = append(nodes, node{T: "?", K: []int{}, N: -1, A: noAttrs})
		parents = append(parents, nil)
		i := len(nodes) // 1-based
		index[ref] = i
		n, err := pdf.Resolve(r, ref)
		d, ok := n.(pdf.Dict)
		if err != nil || !ok {
			return i
		}
		nd := node{T: "?", K: []int{}, N: -1, A: attrsOf(r, d)}
		if tp, err := pdf.Resolve(r, d["Type"]); err == nil {
			if name, ok := tp.(pdf.Name); ok {
				nd.T = string(name)
			}
		}
		if cnt, err := pdf.Resolve(r, d["Count"]); err == nil {
			if c, ok := cnt.(pdf.Integer); ok && c >= 0 && c < 1<<30 {
				nd.N = int(c)
			}
		}
		nd.ID = pageIDOf(r, d)
		parents[i-1] = d["Parent"]
		if kids, err := pdf.Resolve(r, d["Kids"]); err == nil {
			if arr, ok := kids.(pdf.Array); ok {
				for _, kid := range arr {
					if kref, ok := kid.(pdf.Reference); ok {
						nd.K = append(nd.K, visit(kref))
					} else {
						// a kid that is not an indirect reference: an untyped node
						nodes = append(nodes, node{T: "?direct", K: []int{}, N: -1, A: noAttrs})
						parents = append(parents, nil)
						nd.K = append(nd.K, len(nodes))
					}
				}
			}
		}
		nodes[i-1] = nd
		return i
	}
	visit(root)
	for i := range nodes {
		switch p := parents[i].(type) {
		case nil:
			nodes[i].P = 0
		case pdf.Reference:
			if j, ok := index[p]; ok {
				nodes[i].P = j
			} else {
				nodes[i].P = -1
			}
		default:
			nodes[i].P = -1
		}
	}
	return nodes
}

func observe(data []byte, c *pcase, rec *record) error {
	r, err := pdf.NewReader(bytes.NewReader(data), int64(len(data)), nil)
	if err != nil {
		return fmt.Errorf("reopening the written file: %w", err)
	}
	defer r.Close()
	root := r.GetMeta().Catalog.Pages
	if root == 0 {
		return fmt.Errorf("written file has no /Pages")
	}
	rec.Nodes = readTree(r, root)
	rec.Root = 1

	// the library's own reader
	it := pagetree.NewIterator(r)
	for _, d := range it.All() {
		rec.Iter = append(rec.Iter, seenPage{ID: pageIDOf(r, d), A: attrsOf(r, d)})
	}
	if it.Err != nil {
		rec.Iter = append(rec.Iter, seenPage{ID: -1, A: noAttrs})
	}
	if n, err := pagetree.NumPages(r); err == nil {
		rec.NumPages = n
	} else {
		rec.NumPages = 1 << 30
	}
	for _, i := range c.Probes {
		_, d, err := pagetree.GetPage(r, i)
		if err != nil {
			rec.GetPage = append(rec.GetPage, gotPage{I: i, ID: -1, A: noAttrs})
			continue
		}
		rec.GetPage = append(rec.GetPage, gotPage{I: i, ID: pageIDOf(r, d), A: attrsOf(r, d)})
	}
	return nil
}

// leafIDs lists the page ids in the order of the raw tree (Go-side
// comparison with the model only; the verdict is TLC's).
func leafIDs(rec *record) []int {
	var out []int
	seen := map[int]bool{}
	var walk func(i, depth int)
	walk = func(i, depth int) {
		if i < 1 || i > len(rec.Nodes) || depth > 64 || seen[i] {
			return
		}
		n := rec.Nodes[i-1]
		if n.T != "Pages" {
			out = append(out, n.ID)
			return
		}
		seen[i] = true
		for _, k := range n.K {
			walk(k, depth+1)
		}
		seen[i] = false
	}
	if rec.Root != 0 {
		walk(rec.Root, 0)
	}
	return out
}

// ---------------------------------------------------------------------------
// judging

var clauses = []string{"tree", "finite", "types", "order", "counts", "parents", "fanout",
	"eff_m", "eff_c", "eff_r", "eff_s", "iter", "getpage", "numpages", "callbacks"}

func traceOpts(ctx *core.Ctx, clause string) core.TLCOpts {
	o := core.TLCOpts{Dir: "tree", Module: "Trace_PageTree", Cfg: "Trace_PageTree.cfg", XssMB: 1024, XmxMB: 2000,
		Timeout: ctx.Dur(10, 30)}
	if clause != "" {
		o.Env = map[string]string{"CLAUSE": clause}
	}
	return o
}

// judge lets TLC judge the records; big records travel alone.
func judge(ctx *core.Ctx, recs []record, clause string, parallel int) ([]int, error) {
	var small, big []int
	for i, r := range recs {
		if len(r.Prog) > 600 {
			big = append(big, i)
		} else {
			small = append(small, i)
		}
	}
	var bad []int
	run := func(idx []int, batch int) error {
		if len(idx) == 0 {
			return nil
		}
		sub := make([]record, len(idx))
		for j, i := range idx {
			sub[j] = recs[i]
		}
		b, err := core.JudgeCases(ctx, traceOpts(ctx, clause), sub, batch, parallel)
		if err != nil {
			return err
		}
		for _, j := range b {
			bad = append(bad, idx[j])
		}
		return nil
	}
	if err := run(small, 150); err != nil {
		return nil, err
	}
	if err := run(big, 2); err != nil {
		return nil, err
	}
	return bad, nil
}

// failingClause finds the first clause of the property the record violates
// (one TLC run over copies of the record, each naming one clause).
func failingClause(ctx *core.Ctx, rec record) (string, error) {
	copies := make([]record, len(clauses))
	for i, cl := range clauses {
		copies[i] = rec
		copies[i].Clause = cl
	}
	bad, err := core.JudgeCases(ctx, traceOpts(ctx, ""), copies, len(copies), 1)
	if err != nil {
		return "", err
	}
	if len(bad) == 0 {
		return "", core.Infra("record rejected as a whole but accepted clause by clause")
	}
	return clauses[bad[0]], nil
}

func countOps(prog []op) (pages, ranges, cbs int, apis string) {
	seen := map[string]bool{}
	for _, o := range prog {
		switch o.Op {
		case "page":
			pages++
			api := o.API
			if api == "" {
				api = "dict"
			}
			seen[api] = true
		case "range":
			ranges++
		case "cb":
			cbs++
		}
	}
	return pages, ranges, cbs, strings.Join(core.SortedKeys(seen), "+")
}

func sizeClass(n int) string {
	switch {
	case n == 0:
		return "0"
	case n <= Fan:
		return "1-16"
	case n <= Fan*Fan:
		return "17-256"
	case n <= Fan*Fan*Fan:
		return "257-4096"
	}
	return ">4096"
}

// report turns a rejected record into a VIOLATION with a specific key:
// clause / shape of the program (ranges or not, size class, API flavour).
func report(ctx *core.Ctx, c *pcase, rec record) error {
	cl, err := failingClause(ctx, rec)
	if err != nil {
		return err
	}
	pages, ranges, _, apis := countOps(c.Prog)
	shape := "flat"
	if ranges > 0 {
		shape = "ranges"
	}
	key := fmt.Sprintf("pagetree/%s/%s/pages=%s/api=%s", cl, shape, sizeClass(pages), apis)
	if strings.HasPrefix(rec.Err, "panic:") {
		// a panic of the library is its own class, identified by its message
		key = "pagetree/panic/" + panicClass(rec.Err)
	}
	what := fmt.Sprintf("pagetree.Writer, PDF %s, %d pages, %d ranges: clause %q of the page-tree property is rejected by Trace_PageTree", c.Version, pages, ranges, cl)
	if rec.Err != "" {
		what += " (" + rec.Err + ")"
	}
	ctx.Violation(key, what, c)
	return nil
}

var reRange = regexp.MustCompile(`invalid subtree node range (\d+), (\d+)`)

// panicClass names a panic by its message with the numbers abstracted:
// mergeNodes' "invalid subtree node range a, b" becomes the width b-a.
func panicClass(msg string) string {
	if m := reRange.FindStringSubmatch(msg); m != nil {
		a, _ := strconv.Atoi(m[1])
		b, _ := strconv.Atoi(m[2])
		return fmt.Sprintf("mergeNodes-invalid-subtree-node-range/width=%d", b-a)
	}
	msg = strings.TrimPrefix(msg, "panic: ")
	if len(msg) > 50 {
		msg = msg[:50]
	}
	return strings.Map(func(r rune) rune {
		if r >= '0' && r <= '9' {
			return -1
		}
		if r == ' ' {
			return '-'
		}
		return r
	}, msg)
}

func caseKey(c *pcase) string {
	data, _ := json.Marshal(c.Prog)
	h := sha256.Sum256(append(data, c.Version...))
	return hex.EncodeToString(h[:12])
}

func nonTrivial(c *pcase) bool {
	pages, ranges, _, _ := countOps(c.Prog)
	return pages > Fan || (ranges > 0 && pages > 1)
}

func replay(ctx *core.Ctx, raw json.RawMessage) error {
	var f struct {
		Foreign *fcase `json:"foreign"`
	}
	if err := json.Unmarshal(raw, &f); err == nil && f.Foreign != nil {
		rec := observeForeign(f.Foreign)
		bad, err := judge(ctx, []record{rec}, "", 1)
		if err != nil {
			return err
		}
		fmt.Printf("  foreign tree: %d nodes, PDF %s, xref %s, objstm %v, update %q; iterator yielded %d pages, NumPages %d; error: %q\n",
			len(f.Foreign.Nodes), f.Foreign.Version, f.Foreign.XRef, f.Foreign.ObjStm, f.Foreign.Update, len(rec.Iter), rec.NumPages, rec.Err)
		if len(bad) > 0 {
			err := reportForeign(ctx, foreignOut{f.Foreign, rec, ""})
			fmt.Printf("  the reader deviation is reproduced on this tree (extension finding: not a violation of property C16 as stated)\n")
			return err
		}
		fmt.Printf("  the reader's answers are accepted by Trace_PageTree\n")
		return nil
	}
	var c pcase
	if err := json.Unmarshal(raw, &c); err != nil {
		return core.Infra("replay: %v", err)
	}
	rec := execute(&c)
	bad, err := judge(ctx, []record{rec}, "", 1)
	if err != nil {
		return err
	}
	pages, ranges, cbs, apis := countOps(c.Prog)
	fmt.Printf("  program: PDF %s, %d pages, %d ranges, %d callbacks, api=%s; tree nodes read back: %d; error: %q\n",
		c.Version, pages, ranges, cbs, apis, len(rec.Nodes), rec.Err)
	if len(bad) > 0 {
		return report(ctx, &c, rec)
	}
	return nil
}
