package c16

import (
	"bufio"
	"bytes"
	"encoding/json"
	"fmt"
	"math/rand"
	"os"
	"path/filepath"
	"sort"
	"sync"

	"verif/harness/core"
)

// ---------------------------------------------------------------------------
// behaviours written by Gen_PageTree

type genOp struct {
	Op  string `json:"op"`
	W   int    `json:"w"`
	ID  []int  `json:"id"` // model page <<writer, item>>
	A   *attrs `json:"a"`
	Sub int    `json:"sub"`
	C   int    `json:"c"`
	NF  []int  `json:"nf"` // per callback: number of invocations after this call
}

type genRec struct {
	Hist  []genOp `json:"hist"`
	Order [][]int `json:"order"` // model pages in document order
	Fired [][]int `json:"fired"` // per callback: the values it was called with
	Ncb   int     `json:"ncb"`
	D     int     `json:"d"`
}

// generate runs Gen_PageTree (one worker: the module appends lines to a file).
func generate(ctx *core.Ctx, cfg, simulate string, depth int, seed int64, quiet bool) ([]genRec, error) {
	o := core.TLCOpts{Dir: "tree", Module: "Gen_PageTree", Cfg: cfg, Mode: "generate", Workers: 1,
		Env: map[string]string{"OUT": "gen.txt"}, Timeout: ctx.Dur(10, 30), XssMB: 256, Quiet: quiet}
	if simulate != "" {
		o.Mode, o.Simulate, o.Depth, o.Seed = "simulate", simulate, depth, seed
	}
	res, err := ctx.TLC(o)
	if err != nil {
		return nil, err
	}
	if !res.OK() {
		return nil, core.Infra("generator tree/Gen_PageTree (%s) failed: invariant=%q\n%s", cfg, res.Invariant, tailOf(res.Output, 2500))
	}
	f, err := os.Open(filepath.Join(res.RunDir, "gen.txt"))
	if err != nil {
		return nil, core.Infra("generator tree/Gen_PageTree (%s) wrote nothing: %v", cfg, err)
	}
	defer f.Close()
	var out []genRec
	sc := bufio.NewScanner(f)
	sc.Buffer(make([]byte, 1<<20), 1<<26)
	for sc.Scan() {
		line := bytes.TrimSpace(sc.Bytes())
		if len(line) == 0 {
			continue
		}
		var inner string // each line is a JSON string holding the JSON text
		if err := json.Unmarshal(line, &inner); err != nil {
			return nil, core.Infra("generator output: %v", err)
		}
		var g genRec
		if err := json.Unmarshal([]byte(inner), &g); err != nil {
			return nil, core.Infra("generator output: %v", err)
		}
		out = append(out, g)
	}
	os.RemoveAll(res.RunDir)
	if len(out) == 0 {
		return nil, core.Infra("generator tree/Gen_PageTree (%s) produced no behaviour", cfg)
	}
	return out, nil
}

func tailOf(s string, n int) string {
	if len(s) <= n {
		return s
	}
	return s[len(s)-n:]
}

// ---------------------------------------------------------------------------
// scaling a model behaviour to the code's fan-out

// expect is what the model says about the scaled program.
type expect struct {
	Order   []int       // real page ids in document order
	Value   map[int]int // model callback -> value it must be called with
	FiredAt map[int]int // model callback -> model call during which it fires
	StepOf  []int       // real call -> model call
}

var (
	mAll = []string{"A", "B", "B2"}
	cAll = []string{"-", "A", "B"}
	rAll = []string{"-", "0", "90", "180"}
	sAll = []string{"-", "R1", "R2", "R3", "E"}
)

func pick(rng *rand.Rand, xs []string) string { return xs[rng.Intn(len(xs))] }

func other(rng *rand.Rand, xs []string, not string) string {
	for {
		x := pick(rng, xs)
		if x != not || len(xs) == 1 {
			return x
		}
	}
}

// blockAttrs draws the attributes of the pages of one block around a base
// value, so that siblings agree, nearly agree, or disagree.
func blockAttrs(rng *rand.Rand, base attrs, size int) []attrs {
	out := make([]attrs, size)
	alt := attrs{M: other(rng, mAll, base.M), C: other(rng, cAll, base.C), R: other(rng, rAll, base.R), S: other(rng, sAll, base.S)}
	mix := func(useAlt bool) attrs {
		if !useAlt {
			return base
		}
		a := base
		// change a random non-empty subset of the keys
		mask := 1 + rng.Intn(15)
		if mask&1 != 0 {
			a.M = alt.M
		}
		if mask&2 != 0 {
			a.C = alt.C
		}
		if mask&4 != 0 {
			a.R = alt.R
		}
		if mask&8 != 0 {
			a.S = alt.S
		}
		return a
	}
	pattern := rng.Intn(6)
	off := rng.Intn(size)
	for i := range out {
		switch pattern {
		case 0: // uniform
			out[i] = base
		case 1: // one page differs
			out[i] = mix(i == off)
		case 2: // alternating
			out[i] = mix(i%2 == 1)
		case 3: // two runs
			out[i] = mix(i >= off)
		case 4: // every 16th differs (one per leaf-level node)
			out[i] = mix(i%Fan == off%Fan)
		default: // independent
			out[i] = attrs{M: pick(rng, mAll), C: pick(rng, cAll), R: pick(rng, rAll), S: pick(rng, sAll)}
			if rng.Intn(12) == 0 {
				out[i].M = "-" // a page without any MediaBox blocks hoisting above it
			}
		}
	}
	return out
}

// restrict adapts attributes to what the typed API can express.
func restrict(a attrs, api, version string) attrs {
	if api == "dict" {
		return a
	}
	if a.S == "R3" {
		a.S = "R2"
	}
	if version == "2.0" && (a.S == "R1" || a.S == "R2") {
		a.S = "E" // ProcSet is not allowed in PDF 2.0
	}
	return a
}

var boundarySizes = []int{1, 1, 2, 3, 15, 16, 17, 31, 32, 33, 48, 255, 256, 257}

// pickSizes splits a total into n block sizes (each >= 1), preferring sizes
// next to multiples of the fan-out.
func pickSizes(rng *rand.Rand, n, total int) []int {
	if total < n {
		total = n
	}
	sizes := make([]int, n)
	rem := total
	for i := 0; i < n-1; i++ {
		maxHere := rem - (n - 1 - i)
		var s int
		if rng.Intn(3) == 0 {
			s = 1 + rng.Intn(maxHere)
		} else {
			s = boundarySizes[rng.Intn(len(boundarySizes))]
		}
		if s > maxHere {
			s = maxHere
		}
		sizes[i] = s
		rem -= s
	}
	if n > 0 {
		sizes[n-1] = rem
	}
	rng.Shuffle(n, func(i, j int) { sizes[i], sizes[j] = sizes[j], sizes[i] })
	return sizes
}

// scale turns a model behaviour into a program for the real writer.  sizes
// gives the number of real pages per model page (in call order).
func scale(g *genRec, sizes []int, version string, rng *rand.Rand, origin string) (*pcase, *expect) {
	c := &pcase{Version: version, Origin: origin, Probes: []int{}, Human: rng.Intn(8) == 0}
	ex := &expect{Value: map[int]int{}, FiredAt: map[int]int{}}
	type block struct{ first, size int }
	blocks := map[[2]int]block{}
	next := 1
	bi := 0
	extraCb := 1000
	for step, o := range g.Hist {
		switch o.Op {
		case "page":
			size := sizes[bi]
			bi++
			blocks[[2]int{o.ID[0], o.ID[1]}] = block{next, size}
			base := attrs{M: o.A.M, C: o.A.C, R: o.A.R, S: o.A.S}
			if base.C == "-" && rng.Intn(2) == 0 {
				base.C = pick(rng, cAll)
			}
			if base.S == "-" {
				base.S = pick(rng, sAll)
			}
			as := blockAttrs(rng, base, size)
			api := []string{"dict", "dict", "page", "ref", "mixed"}[rng.Intn(5)]
			cbAt := -1
			if size > 1 && rng.Intn(4) == 0 {
				cbAt = 1 + rng.Intn(size-1) // an extra callback registered inside the block
			}
			for i := 0; i < size; i++ {
				if i == cbAt {
					c.Prog = append(c.Prog, op{Op: "cb", W: o.W, C: extraCb})
					ex.StepOf = append(ex.StepOf, step)
					extraCb++
				}
				a := api
				if a == "mixed" {
					a = []string{"dict", "page", "ref"}[rng.Intn(3)]
				}
				at := restrict(as[i], a, version)
				c.Prog = append(c.Prog, op{Op: "page", W: o.W, ID: next, A: &at, API: a})
				ex.StepOf = append(ex.StepOf, step)
				next++
			}
		case "range":
			c.Prog = append(c.Prog, op{Op: "range", W: o.W, Sub: o.Sub})
			ex.StepOf = append(ex.StepOf, step)
		case "close":
			c.Prog = append(c.Prog, op{Op: "close", W: o.W})
			ex.StepOf = append(ex.StepOf, step)
		case "cb":
			c.Prog = append(c.Prog, op{Op: "cb", W: o.W, C: o.C})
			ex.StepOf = append(ex.StepOf, step)
		}
		for cb, n := range o.NF {
			if _, done := ex.FiredAt[cb+1]; n > 0 && !done {
				ex.FiredAt[cb+1] = step
			}
		}
	}
	// document order and callback values, from the model's answers
	before := make([]int, len(g.Order)+1)
	for i, id := range g.Order {
		b := blocks[[2]int{id[0], id[1]}]
		for k := 0; k < b.size; k++ {
			ex.Order = append(ex.Order, b.first+k)
		}
		before[i+1] = before[i] + b.size
	}
	for cb := 1; cb <= g.Ncb; cb++ {
		if len(g.Fired[cb-1]) != 1 {
			ex.Value[cb] = -2 // the model itself would be wrong; PageNumbers forbids it
			continue
		}
		v := g.Fired[cb-1][0]
		if v < 0 {
			ex.Value[cb] = -1
		} else {
			ex.Value[cb] = before[v]
		}
	}
	// probes for GetPage: everything for small documents, boundaries + sample otherwise
	n := next - 1
	if n <= 40 {
		for i := 0; i < n; i++ {
			c.Probes = append(c.Probes, i)
		}
	} else {
		set := map[int]bool{0: true, n - 1: true}
		for _, b := range []int{Fan, Fan * Fan, Fan * Fan * Fan} {
			for d := -1; d <= 1; d++ {
				if i := b + d; i >= 0 && i < n {
					set[i] = true
				}
			}
		}
		for len(set) < 40 {
			set[rng.Intn(n)] = true
		}
		for i := range set {
			c.Probes = append(c.Probes, i)
		}
		sort.Ints(c.Probes)
	}
	return c, ex
}

// compare checks a record against the model's expectation (Go side; a
// mismatch makes the record a suspect that TLC must reject).
func compare(rec *record, ex *expect) string {
	if rec.Err != "" && len(ex.Order) > 0 {
		return "error"
	}
	got := leafIDs(rec)
	if len(got) != len(ex.Order) {
		return "order"
	}
	for i := range got {
		if got[i] != ex.Order[i] {
			return "order"
		}
	}
	count := map[int]int{}
	for _, f := range rec.Fired {
		count[f.C]++
		want, isModel := ex.Value[f.C]
		if !isModel {
			continue // extra callbacks of the harness: judged by TLC only
		}
		if f.V != want {
			return "callback-value"
		}
	}
	for cb := range ex.Value {
		if count[cb] != 1 {
			return "callback-count"
		}
	}
	for _, f := range rec.Fired {
		if at, ok := ex.FiredAt[f.C]; ok && f.Step < len(ex.StepOf) && ex.StepOf[f.Step] != at {
			return "callback-time"
		}
	}
	return ""
}

// ---------------------------------------------------------------------------

type job struct {
	g      *genRec
	sizes  []int
	origin string
	judge  bool // send the record to TLC even if the Go-side comparison agrees
}

type outcome struct {
	c       *pcase
	rec     record
	suspect string
}

func nBlocks(g *genRec) int {
	n := 0
	for _, o := range g.Hist {
		if o.Op == "page" {
			n++
		}
	}
	return n
}

// runJobs executes the jobs on the real code (in parallel) and returns the
// outcomes that are to be judged by TLC.
func runJobs(ctx *core.Ctx, jobs []job, label string) ([]outcome, int, error) {
	var (
		mu    sync.Mutex
		keep  []outcome
		wg    sync.WaitGroup
		sem   = make(chan struct{}, 16)
		nSusp int
	)
	vs := versions()
	for i := range jobs {
		wg.Add(1)
		sem <- struct{}{}
		go func(i int) {
			defer wg.Done()
			defer func() { <-sem }()
			j := jobs[i]
			rng := rand.New(rand.NewSource(ctx.Rand(fmt.Sprintf("%s/%d", label, i)).Int63()))
			version := vs[(i+int(ctx.Seed))%len(vs)]
			c, ex := scale(j.g, j.sizes, version, rng, j.origin)
			rec := execute(c)
			ctx.Ev.Eval(1)
			if nonTrivial(c) {
				ctx.Ev.Distinct(caseKey(c))
			}
			sus := compare(&rec, ex)
			if sus == "" && !j.judge {
				return
			}
			mu.Lock()
			if sus != "" {
				nSusp++
			}
			keep = append(keep, outcome{c, rec, sus})
			mu.Unlock()
		}(i)
	}
	wg.Wait()
	sort.Slice(keep, func(a, b int) bool { return caseKey(keep[a].c) < caseKey(keep[b].c) })
	ctx.Ev.AddReplayed(len(jobs))
	ctx.Logf("%s: %d spec behaviours replayed on pagetree.Writer, %d suspects, %d records kept for TLC", label, len(jobs), nSusp, len(keep))
	return keep, nSusp, nil
}
