package c16

// Reader side of C16: page trees the Writer did not produce.  TLC enumerates
// the small ordered tree shapes (Gen_PageTreeShape); each is scaled (fan-out,
// depth), dressed with attributes at any level, rendered by the independent
// serialiser (indep/ser: classic tables, cross-reference streams with the
// nodes in object streams, indirect attribute values, incremental updates
// that replace a page or insert a kid) and read by pagetree.Iterator,
// GetPage, NumPages and page.Decode.  TLC judges the answers against
// PageTreeRef!RefPages of the tree that was handed to the serialiser.

import (
	"bufio"
	"bytes"
	"encoding/json"
	"fmt"
	"math/rand"
	"os"
	"path/filepath"
	"sort"
	"strconv"
	"sync"

	"seehuhn.de/go/pdf"
	"seehuhn.de/go/pdf/page"
	"seehuhn.de/go/pdf/pagetree"

	"verif/harness/core"
	"verif/harness/indep/obj"
	"verif/harness/indep/ser"
)

// fnode is a node of a foreign tree.  Ind marks what is written as an
// indirect object: bit 0 MediaBox, 1 CropBox, 2 Rotate, 3 Resources,
// 4 the /Kids array, 5 /Count, 6 /Type.
type fnode struct {
	T   string `json:"t"`
	K   []int  `json:"k"` // 1-based indices into Nodes
	A   attrs  `json:"a"`
	ID  int    `json:"id"`
	Ind int    `json:"ind,omitempty"`
	// Nul: keys that are absent from the node but spelled out as "/Key null"
	// (7.3.9: the same as no entry): bit 0 MediaBox, 1 CropBox, 2 Rotate,
	// 3 Resources; with bit 4 set the null is an indirect reference to a
	// free object number instead (7.3.10: also null).
	Nul int `json:"nul,omitempty"`
}

// fcase is a replayable reader case: the final tree and how it is rendered.
type fcase struct {
	Version string  `json:"version"`
	Nodes   []fnode `json:"nodes"` // Nodes[0] is the root
	Seed    int64   `json:"seed"`  // seed of the serialiser's spelling choices
	XRef    string  `json:"xref"`  // "table" or "stream"
	ObjStm  bool    `json:"objstm"`
	Update  string  `json:"update,omitempty"` // "", "replace", "insert"
	At      int     `json:"at,omitempty"`     // index (1-based) of the page replaced / inserted
	Probes  []int   `json:"probes"`
	Origin  string  `json:"origin,omitempty"`
}

var rotForeign = []string{"0", "90", "180", "270", "360", "450", "-90", "-180"}

func attrValue(key byte, id string) obj.Value {
	switch key {
	case 'm':
		b := mediaBoxes[id]
		return obj.Array{obj.Int(b[0]), obj.Int(b[1]), obj.Int(b[2]), obj.Int(b[3])}
	case 'c':
		b := cropBoxes[id]
		return obj.Array{obj.Int(b[0]), obj.Int(b[1]), obj.Int(b[2]), obj.Int(b[3])}
	case 'r':
		n, _ := strconv.Atoi(id)
		return obj.Int(n)
	default:
		d := obj.Dict{}
		if ps := procSets[id]; len(ps) > 0 {
			arr := obj.Array{}
			for _, n := range ps {
				arr = append(arr, obj.Name(n))
			}
			d["ProcSet"] = arr
		}
		return d
	}
}

// parentsAndCounts derives /Parent and /Count of a tree.
func parentsAndCounts(nodes []fnode) (parent, count []int) {
	parent = make([]int, len(nodes)+1)
	count = make([]int, len(nodes)+1)
	var walk func(i int) int
	walk = func(i int) int {
		n := nodes[i-1]
		if n.T == "Page" {
			count[i] = 1
			return 1
		}
		c := 0
		for _, k := range n.K {
			parent[k] = i
			c += walk(k)
		}
		count[i] = c
		return c
	}
	walk(1)
	return parent, count
}

// render serialises the case.  Object 1 is the catalog, node i is object i+1.
func (c *fcase) render() (data []byte, err error) {
	defer func() {
		if p := recover(); p != nil {
			err = fmt.Errorf("serialiser: %v", p)
		}
	}()
	kind := ser.Table
	if c.XRef == "stream" {
		kind = ser.Stream
	}
	next := uint32(len(c.Nodes) + 2)
	rng := rand.New(rand.NewSource(c.Seed ^ 0x5eed))
	inStm := func() bool { return kind == ser.Stream && c.ObjStm && rng.Intn(4) != 0 }

	build := func(nodes []fnode, skip int, alt map[int]fnode) (map[uint32]obj.Value, []ser.Op) {
		// skip: a page left out of the tree (insert update); alt: replaced values
		view := make([]fnode, len(nodes))
		copy(view, nodes)
		for i, n := range alt {
			view[i-1] = n
		}
		if skip > 0 {
			for i := range view {
				var ks []int
				for _, k := range view[i].K {
					if k != skip {
						ks = append(ks, k)
					}
				}
				view[i].K = ks
			}
		}
		parent, count := parentsAndCounts(view)
		vals := map[uint32]obj.Value{}
		var extra []ser.Op
		ind := func(n fnode, bit int, v obj.Value) obj.Value {
			if n.Ind&(1<<bit) == 0 {
				return v
			}
			num := next
			next++
			extra = append(extra, ser.Op{Num: num, Kind: ser.Define, Value: v, InObjStm: inStm()})
			return obj.Ref{Num: num}
		}
		for i, n := range view {
			if i+1 == skip {
				continue
			}
			d := obj.Dict{"Type": ind(n, 6, obj.Name(n.T))}
			if parent[i+1] != 0 {
				d["Parent"] = obj.Ref{Num: uint32(parent[i+1] + 1)}
			}
			if n.T == "Pages" {
				kids := obj.Array{}
				for _, k := range n.K {
					kids = append(kids, obj.Ref{Num: uint32(k + 1)})
				}
				d["Kids"] = ind(n, 4, kids)
				d["Count"] = ind(n, 5, obj.Int(count[i+1]))
			} else {
				d["Dur"] = obj.Int(n.ID)
				d["VerifPage"] = obj.Int(n.ID)
			}
			if n.A.M != "-" {
				d["MediaBox"] = ind(n, 0, attrValue('m', n.A.M))
			}
			if n.A.C != "-" {
				d["CropBox"] = ind(n, 1, attrValue('c', n.A.C))
			}
			if n.A.R != "-" {
				d["Rotate"] = ind(n, 2, attrValue('r', n.A.R))
			}
			if n.A.S != "-" {
				d["Resources"] = ind(n, 3, attrValue('s', n.A.S))
			}
			for bit, key := range []obj.Name{"MediaBox", "CropBox", "Rotate", "Resources"} {
				if _, has := d[key]; !has && n.Nul&(1<<bit) != 0 {
					if n.Nul&16 != 0 {
						d[key] = obj.Ref{Num: 4000000 + uint32(i)} // never defined: null
					} else {
						d[key] = obj.Null{}
					}
				}
			}
			vals[uint32(i+2)] = d
		}
		return vals, extra
	}

	trailer := obj.Dict{"Root": obj.Ref{Num: 1}}
	doc := &ser.Doc{Version: c.Version}
	ops := func(vals map[uint32]obj.Value, only map[uint32]bool) []ser.Op {
		var nums []int
		for n := range vals {
			if only == nil || only[n] {
				nums = append(nums, int(n))
			}
		}
		sort.Ints(nums)
		var out []ser.Op
		for _, n := range nums {
			out = append(out, ser.Op{Num: uint32(n), Kind: ser.Define, Value: vals[uint32(n)], InObjStm: inStm()})
		}
		return out
	}
	catalog := ser.Op{Num: 1, Kind: ser.Define, Value: obj.Dict{"Type": obj.Name("Catalog"), "Pages": obj.Ref{Num: 2}}}

	switch c.Update {
	case "replace":
		// first revision: the page has another id and other attributes
		old := c.Nodes[c.At-1]
		old.ID += 9000
		old.A = attrs{M: "B2", C: "-", R: "270", S: "R1"}
		old.Ind = 0
		first, firstExtra := build(c.Nodes, 0, map[int]fnode{c.At: old})
		final, finalExtra := build(c.Nodes, 0, nil)
		r1 := append([]ser.Op{catalog}, ops(first, nil)...)
		r1 = append(r1, firstExtra...)
		doc.Revisions = append(doc.Revisions, ser.Revision{Kind: kind, Ops: r1, Trailer: trailer})
		// the update defines the page again (and the objects its value refers to)
		r2 := ops(final, map[uint32]bool{uint32(c.At + 1): true})
		r2 = append(r2, extrasOf(finalExtra, final[uint32(c.At+1)])...)
		doc.Revisions[0].Ops = append(doc.Revisions[0].Ops, freeFor(doc.Revisions[0].Ops, r2)...)
		// (the two builds number auxiliary objects independently: the update
		// brings fresh ones for the page, the other nodes keep the first revision's)
		doc.Revisions = append(doc.Revisions, ser.Revision{Kind: kind, Ops: r2, Trailer: trailer})
		return ser.Render(doc, &ser.Options{Seed: c.Seed}), nil
	case "insert":
		first, firstExtra := build(c.Nodes, c.At, nil)
		final, finalExtra := build(c.Nodes, 0, nil)
		r1 := append([]ser.Op{catalog}, ops(first, nil)...)
		r1 = append(r1, firstExtra...)
		doc.Revisions = append(doc.Revisions, ser.Revision{Kind: kind, Ops: r1, Trailer: trailer})
		// the update: the new page, and every node whose /Kids or /Count changed
		changed := map[uint32]bool{uint32(c.At + 1): true}
		parent, _ := parentsAndCounts(c.Nodes)
		for p := parent[c.At]; p != 0; p = parent[p] {
			changed[uint32(p+1)] = true
		}
		second := map[uint32]obj.Value{}
		for n := range changed {
			second[n] = final[n]
		}
		var r2 []ser.Op
		for _, o := range ops(second, nil) {
			r2 = append(r2, o)
			r2 = append(r2, extrasOf(finalExtra, o.Value)...)
		}
		doc.Revisions[0].Ops = append(doc.Revisions[0].Ops, freeFor(doc.Revisions[0].Ops, r2)...)
		doc.Revisions = append(doc.Revisions, ser.Revision{Kind: kind, Ops: r2, Trailer: trailer})
		return ser.Render(doc, &ser.Options{Seed: c.Seed}), nil
	}
	final, finalExtra := build(c.Nodes, 0, nil)
	r1 := append([]ser.Op{catalog}, ops(final, nil)...)
	r1 = append(r1, finalExtra...)
	doc.Revisions = append(doc.Revisions, ser.Revision{Kind: kind, Ops: r1, Trailer: trailer})
	return ser.Render(doc, &ser.Options{Seed: c.Seed}), nil
}

// freeFor lists, for the first revision, the numbers only the update will
// define as free with generation 0 (an ordinary member of the free list), so
// that the update can use them with generation 0.  (Left to itself the
// serialiser may mark never-used numbers below /Size as retired, generation
// 65535, and would then define them with that generation.)
func freeFor(first, second []ser.Op) []ser.Op {
	have := map[uint32]bool{}
	for _, o := range first {
		have[o.Num] = true
	}
	var out []ser.Op
	for _, o := range second {
		if !have[o.Num] {
			out = append(out, ser.Op{Num: o.Num, Kind: ser.Free, Style: ser.Linked})
		}
	}
	return out
}

// extrasOf selects the auxiliary objects a dictionary refers to directly.
func extrasOf(extra []ser.Op, v obj.Value) []ser.Op {
	d, _ := v.(obj.Dict)
	var out []ser.Op
	for _, e := range d {
		if r, ok := e.(obj.Ref); ok {
			for _, x := range extra {
				if x.Num == r.Num {
					out = append(out, x)
				}
			}
		}
	}
	sort.Slice(out, func(i, j int) bool { return out[i].Num < out[j].Num })
	return out
}

// ---------------------------------------------------------------------------

// observeForeign reads the rendered file with the real reader.
func observeForeign(c *fcase) (rec record) {
	rec = record{Kind: "reader", Fan: 0, Prog: []op{}, Root: 1, Nodes: []node{}, Iter: []seenPage{}, GetPage: []gotPage{},
		NumPages: -1, Fired: []firing{}, Dec: []seenPage{}, Version: c.Version, Origin: c.Origin}
	parent, count := parentsAndCounts(c.Nodes)
	for i, n := range c.Nodes {
		k := n.K
		if k == nil {
			k = []int{}
		}
		rec.Nodes = append(rec.Nodes, node{T: n.T, K: k, N: count[i+1], P: parent[i+1], A: n.A, ID: n.ID})
	}
	data, err := c.render()
	if err != nil {
		rec.Err = "harness: " + err.Error()
		return rec
	}
	defer func() {
		if p := recover(); p != nil {
			rec.Err = fmt.Sprintf("panic: %v", p)
			rec.Iter = append(rec.Iter, seenPage{ID: -1, A: noAttrs})
		}
	}()
	r, err := pdf.NewReader(bytes.NewReader(data), int64(len(data)), nil)
	if err != nil {
		rec.Err = "opening the file: " + err.Error()
		rec.Iter = append(rec.Iter, seenPage{ID: -1, A: noAttrs})
		return rec
	}
	defer r.Close()
	cur := pdf.NewCursor(r)
	it := pagetree.NewIterator(r)
	for _, d := range it.All() {
		rec.Iter = append(rec.Iter, seenPage{ID: pageIDOf(r, d), A: attrsOf(r, d)})
		// the typed view of the same dictionary
		p, err := pdf.Decode(cur, d, page.Decode)
		if err != nil {
			rec.Dec = append(rec.Dec, seenPage{ID: -1, A: noAttrs})
			continue
		}
		rec.Dec = append(rec.Dec, seenPage{ID: int(p.Duration), A: decodedAttrs(p)})
	}
	if it.Err != nil {
		rec.Iter = append(rec.Iter, seenPage{ID: -1, A: noAttrs})
	}
	if n, err := pagetree.NumPages(r); err == nil {
		rec.NumPages = n
	} else {
		rec.NumPages = 1 << 30
	}
	for _, i := range c.Probes {
		_, d, err := pagetree.GetPage(r, i)
		if err != nil {
			rec.GetPage = append(rec.GetPage, gotPage{I: i, ID: -1, A: noAttrs})
			continue
		}
		rec.GetPage = append(rec.GetPage, gotPage{I: i, ID: pageIDOf(r, d), A: attrsOf(r, d)})
	}
	return rec
}

func rectID(b *pdf.Rectangle, table map[string][4]float64) string {
	if b == nil {
		return "-"
	}
	v := [4]float64{b.LLx, b.LLy, b.URx, b.URy}
	for id, t := range table {
		if t == v {
			return id
		}
	}
	return fmt.Sprintf("?%v", v)
}

func decodedAttrs(p *page.Page) attrs {
	a := attrs{M: rectID(p.MediaBox, mediaBoxes), C: rectID(p.CropBox, cropBoxes), R: "-", S: "-"}
	if p.Rotate != page.RotateInherit {
		a.R = strconv.Itoa(p.Rotate.Degrees())
	}
	if res := p.Resources; res != nil {
		ps := res.ProcSet
		switch {
		case ps.PDF && ps.Text && !ps.ImageB && !ps.ImageC && !ps.ImageI:
			a.S = "R2"
		case ps.PDF && ps.ImageB && !ps.Text && !ps.ImageC && !ps.ImageI:
			a.S = "R3"
		case ps.PDF && !ps.Text && !ps.ImageB && !ps.ImageC && !ps.ImageI:
			a.S = "R1"
		case !ps.PDF && !ps.Text && !ps.ImageB && !ps.ImageC && !ps.ImageI:
			a.S = "E"
		default:
			a.S = "?procset"
		}
	}
	return a
}

// expectedPages is the harness's own walk (pre-filter only; the verdict is
// TLC's with PageTreeRef!RefPages).
func expectedPages(nodes []fnode) []seenPage {
	var out []seenPage
	var walk func(i int, inh attrs)
	walk = func(i int, inh attrs) {
		n := nodes[i-1]
		a := inh
		if n.A.M != "-" {
			a.M = n.A.M
		}
		if n.A.C != "-" {
			a.C = n.A.C
		}
		if n.A.R != "-" {
			a.R = n.A.R
		}
		if n.A.S != "-" {
			a.S = n.A.S
		}
		if n.T == "Page" {
			out = append(out, seenPage{ID: n.ID, A: a})
			return
		}
		for _, k := range n.K {
			walk(k, a)
		}
	}
	walk(1, noAttrs)
	return out
}

func sameAttrsGo(given, got attrs) bool {
	nr := func(s string) string {
		if s == "-" {
			return "0"
		}
		return s
	}
	return given.M == got.M && given.C == got.C && nr(given.R) == nr(got.R) && (given.S == got.S || (given.S == "-" && got.S == "E"))
}

func compareForeign(rec *record, want []seenPage) string {
	if rec.Err != "" {
		return "error"
	}
	if len(rec.Iter) != len(want) {
		return "iter"
	}
	for i := range want {
		if rec.Iter[i].ID != want[i].ID || !sameAttrsGo(want[i].A, rec.Iter[i].A) {
			return "iter"
		}
	}
	if rec.NumPages != len(want) {
		return "numpages"
	}
	for _, g := range rec.GetPage {
		if g.I < 0 || g.I >= len(want) || g.ID != want[g.I].ID || !sameAttrsGo(want[g.I].A, g.A) {
			return "getpage"
		}
	}
	if len(rec.Dec) != len(want) {
		return "decode"
	}
	for i := range want {
		if rec.Dec[i].ID != want[i].ID {
			return "decode"
		}
	}
	return ""
}

// ---------------------------------------------------------------------------
// shapes from TLC

type shapeNode struct {
	P int    `json:"p"`
	T string `json:"t"`
	V string `json:"v"`
}

type shape struct {
	Tree []shapeNode `json:"tree"`
}

func generateShapes(ctx *core.Ctx, cfg string) ([]shape, error) {
	res, err := ctx.TLC(core.TLCOpts{Dir: "tree", Module: "Gen_PageTreeShape", Cfg: cfg, Mode: "generate", Workers: 1,
		Env: map[string]string{"OUT": "shapes.txt"}, Timeout: ctx.Dur(10, 30), XssMB: 256})
	if err != nil {
		return nil, err
	}
	if !res.OK() {
		return nil, core.Infra("generator tree/Gen_PageTreeShape (%s) failed: invariant=%q\n%s", cfg, res.Invariant, tailOf(res.Output, 2500))
	}
	f, err := os.Open(filepath.Join(res.RunDir, "shapes.txt"))
	if err != nil {
		return nil, core.Infra("generator tree/Gen_PageTreeShape wrote nothing: %v", err)
	}
	defer f.Close()
	var out []shape
	sc := bufio.NewScanner(f)
	sc.Buffer(make([]byte, 1<<20), 1<<24)
	for sc.Scan() {
		line := bytes.TrimSpace(sc.Bytes())
		if len(line) == 0 {
			continue
		}
		var inner string
		if err := json.Unmarshal(line, &inner); err != nil {
			return nil, core.Infra("shape generator output: %v", err)
		}
		var s shape
		if err := json.Unmarshal([]byte(inner), &s); err != nil {
			return nil, core.Infra("shape generator output: %v", err)
		}
		out = append(out, s)
	}
	os.RemoveAll(res.RunDir)
	if len(out) == 0 {
		return nil, core.Infra("generator tree/Gen_PageTreeShape produced no shape")
	}
	return out, nil
}

// layer maps the abstract attribute layer of a shape to concrete values of
// one key; explicit /Rotate 0 and the other multiples of 90 are among them.
type layer struct {
	key  byte
	x, y string
}

var layers = []layer{
	{'r', "0", "90"}, {'r', "90", "0"}, {'r', "-90", "450"}, {'r', "360", "180"}, {'r', "270", "0"},
	{'m', "A", "B"}, {'m', "B2", "A"}, {'c', "A", "B"}, {'s', "R1", "R2"}, {'s', "E", "R3"},
}

func setKey(a *attrs, key byte, v string) {
	switch key {
	case 'm':
		a.M = v
	case 'c':
		a.C = v
	case 'r':
		a.R = v
	case 's':
		a.S = v
	}
}

// dress turns a TLC shape into a foreign tree.  mode 0: as it is (one page
// per leaf); mode 1: leaves multiplied (fan-out up to 40) and single-kid
// chains inserted (depth up to 6).
func dress(s *shape, rng *rand.Rand, mode int, withNull bool) []fnode {
	ly := layers[rng.Intn(len(layers))]
	others := rng.Intn(3) // 0: only the layer, 1: sparse other keys, 2: dense
	randomOthers := func(a *attrs) {
		for _, key := range []byte{'m', 'c', 'r', 's'} {
			if key == ly.key || others == 0 || rng.Intn(4-others) != 0 {
				continue
			}
			switch key {
			case 'm':
				a.M = pick(rng, mAll)
			case 'c':
				a.C = pick(rng, []string{"A", "B"})
			case 'r':
				a.R = pick(rng, rotForeign)
			case 's':
				a.S = pick(rng, []string{"R1", "R2", "R3", "E"})
			}
		}
	}
	var nodes []fnode
	idx := make([]int, len(s.Tree)+1) // shape node -> index of the node its kids hang below
	top := make([]int, len(s.Tree)+1) // shape node -> index of the node its parent lists
	nextID := 1
	add := func(n fnode) int {
		nodes = append(nodes, n)
		return len(nodes)
	}
	indBits := func() int {
		if rng.Intn(3) != 0 {
			return 0
		}
		return rng.Intn(128)
	}
	nulBits := func() int {
		if !withNull || rng.Intn(3) != 0 {
			return 0
		}
		return rng.Intn(32)
	}
	for i, sn := range s.Tree {
		a := noAttrs
		switch sn.V {
		case "x":
			setKey(&a, ly.key, ly.x)
		case "y":
			setKey(&a, ly.key, ly.y)
		}
		randomOthers(&a)
		if sn.T == "Page" {
			n := 1
			if mode == 1 {
				n = []int{1, 1, 2, 3, 15, 16, 17, 40}[rng.Intn(8)]
			}
			first := 0
			for j := 0; j < n; j++ {
				pa := a
				if j > 0 && rng.Intn(3) == 0 {
					pa = noAttrs
					randomOthers(&pa)
				}
				k := add(fnode{T: "Page", A: pa, ID: nextID, Ind: indBits() & 0x4f, Nul: nulBits()})
				nextID++
				if j == 0 {
					first = k
				}
				if sn.P != 0 {
					nodes[idx[sn.P]-1].K = append(nodes[idx[sn.P]-1].K, k)
				}
			}
			idx[i+1], top[i+1] = first, first
			continue
		}
		// a /Pages node, possibly stretched into a chain of single-kid nodes
		chain := 0
		if mode == 1 && sn.P != 0 && rng.Intn(3) == 0 {
			chain = 1 + rng.Intn(3)
		}
		k := add(fnode{T: "Pages", A: a, Ind: indBits(), Nul: nulBits()})
		top[i+1] = k
		if sn.P != 0 {
			nodes[idx[sn.P]-1].K = append(nodes[idx[sn.P]-1].K, k)
		}
		for j := 0; j < chain; j++ {
			ca := noAttrs
			if rng.Intn(2) == 0 {
				randomOthers(&ca)
				if rng.Intn(2) == 0 {
					setKey(&ca, ly.key, []string{ly.x, ly.y}[rng.Intn(2)])
				}
			}
			k2 := add(fnode{T: "Pages", A: ca, Ind: indBits(), Nul: nulBits()})
			nodes[k-1].K = append(nodes[k-1].K, k2)
			k = k2
		}
		idx[i+1] = k
	}
	return nodes
}

func makeCase(s *shape, rng *rand.Rand, mode int, withNull bool, origin string) *fcase {
	c := &fcase{Nodes: dress(s, rng, mode, withNull), Seed: rng.Int63n(1 << 40), Origin: origin, Probes: []int{}}
	c.Version = []string{"1.4", "1.5", "1.6", "1.7", "2.0"}[rng.Intn(5)]
	c.XRef = "table"
	if c.Version != "1.4" && rng.Intn(2) == 0 {
		c.XRef = "stream"
		c.ObjStm = rng.Intn(3) != 0
	}
	var pages []int
	for i, n := range c.Nodes {
		if n.T == "Page" {
			pages = append(pages, i+1)
		}
	}
	if len(pages) > 0 {
		switch rng.Intn(4) {
		case 0:
			c.Update, c.At = "replace", pages[rng.Intn(len(pages))]
		case 1:
			c.Update, c.At = "insert", pages[rng.Intn(len(pages))]
		}
	}
	n := len(pages)
	if n <= 48 {
		for i := 0; i < n; i++ {
			c.Probes = append(c.Probes, i)
		}
	} else {
		set := map[int]bool{0: true, n - 1: true}
		for len(set) < 48 {
			set[rng.Intn(n)] = true
		}
		for i := range set {
			c.Probes = append(c.Probes, i)
		}
		sort.Ints(c.Probes)
	}
	return c
}

type foreignOut struct {
	c       *fcase
	rec     record
	suspect string
}

// runForeign renders and reads the cases; it returns those to be judged.
func runForeign(ctx *core.Ctx, shapes []shape, perShape, scaledEvery, judgeEvery int) ([]foreignOut, int, error) {
	var (
		mu   sync.Mutex
		keep []foreignOut
		wg   sync.WaitGroup
		sem  = make(chan struct{}, 16)
		n    int
		bad  error
	)
	for i := range shapes {
		wg.Add(1)
		sem <- struct{}{}
		go func(i int) {
			defer wg.Done()
			defer func() { <-sem }()
			rng := rand.New(rand.NewSource(ctx.Rand(fmt.Sprintf("foreign/%d", i)).Int63()))
			for v := 0; v < perShape; v++ {
				mode, origin := 0, "shape"
				if (i+v)%scaledEvery == 0 {
					mode, origin = 1, "shape/scaled"
				}
				// one case in eight spells absent attributes as "/Key null"
				withNull := (i+v)%8 == 3
				if withNull {
					origin += "/null-entries"
				}
				c := makeCase(&shapes[i], rng, mode, withNull, origin)
				rec := observeForeign(c)
				if len(rec.Err) > 8 && rec.Err[:8] == "harness:" {
					mu.Lock()
					bad = core.Infra("foreign tree could not be rendered: %s", rec.Err)
					mu.Unlock()
					return
				}
				ctx.Ev.Eval(1)
				sus := compareForeign(&rec, expectedPages(c.Nodes))
				mu.Lock()
				n++
				if sus != "" || mode == 1 || (i+v)%judgeEvery == int(ctx.Seed)%judgeEvery {
					keep = append(keep, foreignOut{c, rec, sus})
				}
				mu.Unlock()
			}
		}(i)
	}
	wg.Wait()
	if bad != nil {
		return nil, 0, bad
	}
	sort.Slice(keep, func(a, b int) bool {
		ka, _ := json.Marshal(keep[a].c)
		kb, _ := json.Marshal(keep[b].c)
		return bytes.Compare(ka, kb) < 0
	})
	ctx.Ev.AddReplayed(n)
	ctx.Logf("reader: %d foreign trees (from %d TLC shapes) rendered by indep/ser and read by pagetree, %d records kept for TLC", n, len(shapes), len(keep))
	return keep, n, nil
}

// nullClass: differential classification of a rejected case that has null
// entries: if the same tree without them is read correctly, the null entries
// are the cause ("direct": the null object, "indirect": a reference to an
// undefined object).
func nullClass(c *fcase) string {
	kind := ""
	for _, n := range c.Nodes {
		if n.Nul&15 != 0 {
			if n.Nul&16 != 0 {
				kind = "indirect"
			} else if kind == "" {
				kind = "direct"
			}
		}
	}
	if kind == "" {
		return ""
	}
	plain := *c
	plain.Nodes = append([]fnode(nil), c.Nodes...)
	for i := range plain.Nodes {
		plain.Nodes[i].Nul = 0
	}
	rec := observeForeign(&plain)
	if compareForeign(&rec, expectedPages(plain.Nodes)) != "" {
		return ""
	}
	return kind
}

// Deviations of the reader on foreign trees are outside the statement of
// property C16 (which is about trees the Writer produces): they are reported
// as NOTE lines, counted in the evidence and given a replay file per class,
// but never as a VIOLATION and never through the exit status.
type extNotes struct {
	mu     sync.Mutex
	counts map[string]int
}

var notes = &extNotes{counts: map[string]int{}}

func note(ctx *core.Ctx, key, what string, c *fcase) {
	notes.mu.Lock()
	defer notes.mu.Unlock()
	notes.counts[key]++
	if notes.counts[key] > 1 {
		return
	}
	base := os.Getenv("VERIF_OUT")
	if base == "" {
		base = ctx.VerifDir
	}
	dir := filepath.Join(base, "replays", ctx.ID)
	_ = os.MkdirAll(dir, 0o755)
	name := []byte("ext-" + key)
	for i, ch := range name {
		if !(ch >= 'a' && ch <= 'z' || ch >= 'A' && ch <= 'Z' || ch >= '0' && ch <= '9' || ch == '-' || ch == '_' || ch == '.') {
			name[i] = '_'
		}
	}
	path := filepath.Join(dir, string(name)+".json")
	data, _ := json.MarshalIndent(map[string]any{"property": ctx.ID, "extension": "pagetree-reader", "key": key, "what": what,
		"seed": ctx.Seed, "tier": ctx.Tier, "case": map[string]any{"foreign": c}}, "", " ")
	_ = os.WriteFile(path, data, 0o644)
	fmt.Printf("NOTE extension=pagetree-reader key=%s %s (replay=%s)\n", key, what, path)
}

var readerClauses = []string{"premise", "r_iter", "r_getpage", "r_numpages", "r_decode"}

// readerFailingClause: the first clause a reader record violates (one TLC run).
func readerFailingClause(ctx *core.Ctx, rec record) (string, error) {
	copies := make([]record, len(readerClauses))
	for i, cl := range readerClauses {
		copies[i] = rec
		copies[i].Clause = cl
	}
	bad, err := core.JudgeCases(ctx, traceOpts(ctx, ""), copies, len(copies), 1)
	if err != nil {
		return "", err
	}
	if len(bad) == 0 {
		return "", core.Infra("reader record rejected as a whole but accepted clause by clause")
	}
	return readerClauses[bad[0]], nil
}

func reportForeign(ctx *core.Ctx, o foreignOut) error {
	cl, err := readerFailingClause(ctx, o.rec)
	if err != nil {
		return err
	}
	if cl == "premise" {
		return core.Infra("harness built a foreign tree the reference semantics calls non-conforming (case seed %d)", o.c.Seed)
	}
	if kind := nullClass(o.c); kind != "" {
		note(ctx, "pagetree-reader/null-entry/"+kind, fmt.Sprintf("pagetree reader on a foreign conforming tree (%d nodes, PDF %s): an inheritable attribute spelled \"/Key null\" (%s) masks the inherited value; clause %q rejected by Trace_PageTree, the same tree without the null entries is read correctly",
			len(o.c.Nodes), o.c.Version, kind, cl), o.c)
		return nil
	}
	feature := "plain"
	switch {
	case o.c.Update != "":
		feature = "update-" + o.c.Update
	case o.c.ObjStm:
		feature = "objstm"
	}
	empty := false
	for _, n := range o.c.Nodes[1:] {
		if n.T == "Pages" && len(n.K) == 0 {
			empty = true
		}
	}
	key := fmt.Sprintf("pagetree-reader/%s/%s/emptynode=%v", cl, feature, empty)
	if len(o.rec.Err) > 6 && o.rec.Err[:6] == "panic:" {
		key = "pagetree-reader/panic/" + panicClass(o.rec.Err)
	}
	what := fmt.Sprintf("pagetree reader on a foreign conforming tree (%d nodes, PDF %s, xref %s): clause %q rejected by Trace_PageTree", len(o.c.Nodes), o.c.Version, o.c.XRef, cl)
	if o.rec.Err != "" {
		what += " (" + o.rec.Err + ")"
	}
	note(ctx, key, what, o.c)
	return nil
}
