package c16

import (
	"fmt"
	"math/rand"
	"os"
	"sync"

	"verif/harness/core"
	"verif/harness/drive/labels"
	"verif/harness/drive/outline"
)

// design models: shape, attribute keys one at a time, callbacks (see MC_PageTree.tla)
var (
	modelsQuick    = []string{"struct_d2_q", "struct_d3_q", "box_q", "box2_q", "rot_q", "mix_q", "cb_q", "cb1_q"}
	modelsThorough = []string{"struct_d2_t", "struct_d3_t", "struct_d4_t", "struct5_d2_t", "box_t", "rot_t", "mix_t", "cb_t", "cb3_t"}
)

func checkModels(ctx *core.Ctx) error {
	if os.Getenv("C16_DEV_SKIP_MODELS") != "" {
		// development aid only (shared machine): never set by bin/check or the manifest
		ctx.Logf("DEV: design models skipped (C16_DEV_SKIP_MODELS is set)")
		ctx.Ev.Set("dev_models_skipped", true)
		return nil
	}
	names := modelsQuick
	workers := 2
	if ctx.Thorough() {
		names = modelsThorough
		workers = 4
	}
	var wg sync.WaitGroup
	errs := make([]error, len(names))
	sem := make(chan struct{}, ctx.Pick(8, 4))
	for i, n := range names {
		wg.Add(1)
		go func(i int, n string) {
			defer wg.Done()
			sem <- struct{}{}
			defer func() { <-sem }()
			_, errs[i] = ctx.MustHold(core.TLCOpts{Dir: "tree", Module: "MC_PageTree", Cfg: "MC_PageTree_" + n + ".cfg",
				Workers: workers, Constants: "see MC_PageTree_" + n + ".cfg", Timeout: ctx.Dur(8, 30), XssMB: 256, XmxMB: 3000})
		}(i, n)
	}
	wg.Wait()
	for _, err := range errs {
		if err != nil {
			return err
		}
	}
	return nil
}

var (
	midTotals = []int{15, 16, 17, 18, 31, 32, 33, 47, 48, 49, 64, 240, 241, 255, 256, 257, 258, 271, 272, 273, 300, 511, 512, 513}
	bigTotals = []int{4095, 4096, 4097, 4098, 4111, 4112, 4113, 4352}
)

// leadJobs: behaviours taken from a counter-example TLC found in the design
// model of the code before commit 85b29fa (NoPanic, D = 2, 12 pages: the last
// node of a tail standing alone behind a full run of D nodes of equal depth),
// re-sized for fan-out 16: a sub-range of 15*256 + k*16 pages followed by
// 17-k pages gives the tail <<2 x 16, 0>>.  Variant A met the panic in
// collapse (root), variant B in the first loop of merge (the sub-range sits
// one level deeper and 16 more pages follow).  Kept as regression cases.
func leadJobs(ctx *core.Ctx) []job {
	nf := []int{}
	a := &attrs{"A", "-", "-", "-"}
	varA := &genRec{D: 2, Fired: [][]int{}, Order: [][]int{{2, 1}, {1, 2}}, Hist: []genOp{
		{Op: "range", W: 1, Sub: 2, NF: nf},
		{Op: "page", W: 2, ID: []int{2, 1}, A: a, NF: nf},
		{Op: "page", W: 1, ID: []int{1, 2}, A: a, NF: nf},
		{Op: "close", W: 1, NF: nf}}}
	varB := &genRec{D: 2, Fired: [][]int{}, Order: [][]int{{3, 1}, {2, 2}, {1, 2}}, Hist: []genOp{
		{Op: "range", W: 1, Sub: 2, NF: nf},
		{Op: "range", W: 2, Sub: 3, NF: nf},
		{Op: "page", W: 3, ID: []int{3, 1}, A: a, NF: nf},
		{Op: "page", W: 2, ID: []int{2, 2}, A: a, NF: nf},
		{Op: "page", W: 1, ID: []int{1, 2}, A: a, NF: nf},
		{Op: "close", W: 1, NF: nf}}}
	ks := []int{2, 15}
	if ctx.Thorough() {
		ks = []int{2, 3, 4, 5, 6, 7, 8, 9, 10, 11, 12, 13, 14, 15}
	}
	var jobs []job
	for i, k := range ks {
		n := 15*Fan*Fan + k*Fan
		jobs = append(jobs, job{g: varA, sizes: []int{n, Fan + 1 - k}, origin: "model-lead/lone-node/collapse", judge: true})
		// neighbours that must work
		jobs = append(jobs, job{g: varA, sizes: []int{n, Fan - k}, origin: "model-lead/lone-node/neighbour", judge: true})
		if i == 0 || ctx.Thorough() {
			jobs = append(jobs, job{g: varB, sizes: []int{n, Fan + 1 - k, Fan}, origin: "model-lead/lone-node/merge", judge: true})
		}
	}
	return jobs
}

func tinySizes(rng *rand.Rand, n int) []int {
	out := make([]int, n)
	for i := range out {
		out[i] = []int{1, 1, 1, 2, 14, 15, 16, 17}[rng.Intn(8)]
	}
	return out
}

func run(ctx *core.Ctx) error {
	ctx.Ev.Rule = "evaluations = programs (sequences of AppendPage*/NewRange/Close/NextPageNumber calls) executed on the real pagetree.Writer, " +
		"each read back generically and through pagetree's reader; non-trivial = more than 16 pages (tree of height >= 2) or pages " +
		"spread over at least one sub-range; distinct = distinct (program, PDF version) by hash of the call list with attributes"
	ctx.Ev.Assume("TLC evaluates PageTreeRef.tla faithfully; its operators state ISO 32000-2 7.7.3 (page tree, inheritance) and the documented contract of NextPageNumber")
	ctx.Ev.Assume("the written file is read back with go-pdf's object reader (pdf.NewReader, pdf.Resolve); only the page-tree logic of package pagetree is avoided when reading the raw tree")
	ctx.Ev.Assume("page identity is carried by a marker entry in each page dictionary (/VerifPage, or /Dur for page.Page values)")

	// 1. exhaustive design models, concurrently with the generators
	var wg sync.WaitGroup
	var mcErr, simErr error
	var small, sim []genRec
	cfgs := []string{"Gen_PageTree_small.cfg", "Gen_PageTree_small2.cfg"}
	if ctx.Thorough() {
		cfgs = []string{"Gen_PageTree_small_t.cfg", "Gen_PageTree_small2_t.cfg", "Gen_PageTree_small3_t.cfg"}
	}
	parts := make([][]genRec, len(cfgs))
	partErr := make([]error, len(cfgs))
	var shapes []shape
	var shapeErr error
	wg.Add(3 + len(cfgs))
	go func() {
		defer wg.Done()
		shapes, shapeErr = generateShapes(ctx, map[bool]string{false: "Gen_PageTreeShape_q.cfg", true: "Gen_PageTreeShape_t.cfg"}[ctx.Thorough()])
	}()
	go func() { defer wg.Done(); mcErr = checkModels(ctx) }()
	for i, cfg := range cfgs {
		go func(i int, cfg string) {
			defer wg.Done()
			parts[i], partErr[i] = generate(ctx, cfg, "", 0, 0, false)
		}(i, cfg)
	}
	go func() {
		defer wg.Done()
		n := ctx.Pick(250, 1500)
		sim, simErr = generate(ctx, "Gen_PageTree_sim.cfg", fmt.Sprintf("num=%d", n), 70, 1000+ctx.Seed, false)
	}()
	wg.Wait()
	for _, err := range append([]error{mcErr, simErr, shapeErr}, partErr...) {
		if err != nil {
			return err
		}
	}
	for _, p := range parts {
		small = append(small, p...)
	}

	// 2. P-A: the behaviours, scaled, on the real writer
	var jobs []job
	rng := ctx.Rand("plan")
	every := ctx.Pick(25, 6)
	nflat := 0
	for i := range small {
		g := &small[i]
		nb := nBlocks(g)
		jobs = append(jobs, job{g: g, sizes: tinySizes(rng, nb), origin: "gen-small", judge: i%every == int(ctx.Seed)%every})
		if nb == 1 && len(g.Hist) <= 3 && nflat < 5 {
			nflat++
			// flat documents of every size around the powers of the fan-out
			var ns []int
			for n := 1; n <= ctx.Pick(40, 530); n++ {
				ns = append(ns, n)
			}
			for n := 250; n <= 262 && !ctx.Thorough(); n++ {
				ns = append(ns, n)
			}
			for n := 4090; n <= 4100 && ctx.Thorough(); n++ {
				ns = append(ns, n)
			}
			for _, n := range ns {
				jobs = append(jobs, job{g: g, sizes: []int{n}, origin: "gen-small/flat", judge: true})
			}
		}
	}
	nbig := 0
	for i := range sim {
		g := &sim[i]
		nb := nBlocks(g)
		if nb == 0 {
			jobs = append(jobs, job{g: g, sizes: nil, origin: "gen-sim", judge: true})
			continue
		}
		jobs = append(jobs, job{g: g, sizes: pickSizes(rng, nb, nb+rng.Intn(6*nb)), origin: "gen-sim/small", judge: true})
		jobs = append(jobs, job{g: g, sizes: pickSizes(rng, nb, midTotals[rng.Intn(len(midTotals))]), origin: "gen-sim/mid", judge: true})
		if ctx.Thorough() && nb >= 3 && nbig < 40 && i%7 == 0 {
			nbig++
			jobs = append(jobs, job{g: g, sizes: pickSizes(rng, nb, bigTotals[rng.Intn(len(bigTotals))]), origin: "gen-sim/big", judge: true})
		}
	}
	if !ctx.Thorough() {
		// two documents beyond 16^3 also in the quick tier
		for i := range sim {
			if nb := nBlocks(&sim[i]); nb >= 3 && nbig < 2 {
				nbig++
				jobs = append(jobs, job{g: &sim[i], sizes: pickSizes(rng, nb, bigTotals[rng.Intn(3)]), origin: "gen-sim/big", judge: true})
			}
		}
	}
	jobs = append(jobs, leadJobs(ctx)...)
	outs, _, err := runJobs(ctx, jobs, "replay")
	if err != nil {
		return err
	}

	// 3. P-D: TLC judges the records of the real executions
	recs := make([]record, len(outs))
	for i := range outs {
		recs[i] = outs[i].rec
	}
	bad, err := judge(ctx, recs, "", 12)
	if err != nil {
		return err
	}
	isBad := map[int]bool{}
	for _, b := range bad {
		isBad[b] = true
		if ctx.Violations() < 6 {
			if err := report(ctx, outs[b].c, outs[b].rec); err != nil {
				return err
			}
		} else {
			ctx.Violation("pagetree/more", "further rejected records (not classified)", outs[b].c)
		}
	}
	for i, o := range outs {
		if o.suspect != "" && !isBad[i] {
			if o.suspect == "callback-time" {
				return core.Infra("the implementation-shaped model and the code disagree on the call during which a NextPageNumber callback fires "+
					"(values and order are accepted by the reference semantics: not a violation of the property; PageTree.tla needs updating); case %s", caseKey(o.c))
			}
			return core.Infra("harness and specification disagree: Go-side mismatch %q is accepted by Trace_PageTree (case %s)", o.suspect, caseKey(o.c))
		}
	}

	// 4. the reader on trees the Writer did not produce (foreign.go)
	fouts, nForeign, err := runForeign(ctx, shapes, ctx.Pick(1, 2), ctx.Pick(20, 40), ctx.Pick(20, 40))
	if err != nil {
		return err
	}
	frecs := make([]record, len(fouts))
	for i := range fouts {
		frecs[i] = fouts[i].rec
	}
	fbad, err := judge(ctx, frecs, "", 12)
	if err != nil {
		return err
	}
	fIsBad := map[int]bool{}
	classified := 0
	for _, b := range fbad {
		fIsBad[b] = true
		if kind := nullClass(fouts[b].c); kind != "" && classified >= 3 {
			// same class as records already classified with TLC's clause verdict
			note(ctx, "pagetree-reader/null-entry/"+kind, "further record of this class", fouts[b].c)
			continue
		}
		if classified < 10 {
			classified++
			if err := reportForeign(ctx, fouts[b]); err != nil {
				return err
			}
		} else {
			note(ctx, "pagetree-reader/unclassified", fmt.Sprintf("%d rejected reader records in all, only the first ones are classified by clause", len(fbad)), fouts[b].c)
		}
	}
	var fstat = map[string]int{}
	for i, o := range fouts {
		if o.suspect != "" && !fIsBad[i] {
			return core.Infra("harness and specification disagree: reader mismatch %q is accepted by Trace_PageTree (seed %d)", o.suspect, o.c.Seed)
		}
		fstat["judged"]++
		if o.c.Update != "" {
			fstat["judged_with_incremental_update_"+o.c.Update]++
		}
		if o.c.ObjStm {
			fstat["judged_with_nodes_in_object_streams"]++
		}
		depth, fan, empty, single, indirect := treeStats(o.c.Nodes)
		if depth >= 5 {
			fstat["judged_depth_ge_5"]++
		}
		if fan > Fan {
			fstat["judged_fanout_gt_16"]++
		}
		if empty {
			fstat["judged_with_empty_pages_node"]++
		}
		if single {
			fstat["judged_with_single_kid_pages_node"]++
		}
		if indirect {
			fstat["judged_with_indirect_attribute_values"]++
		}
	}
	fstat["rejected_by_tlc"] = len(fbad)
	fstat["foreign_trees_read"] = nForeign
	ctx.Ev.Set("reader_on_foreign_trees", fstat)
	notes.mu.Lock()
	ext := map[string]int{}
	for k, v := range notes.counts {
		ext[k] = v
	}
	notes.mu.Unlock()
	ctx.Ev.Set("extension_findings", ext)
	ctx.Ev.Set("shapes_from_tlc", len(shapes))
	for _, o := range fouts {
		if o.c.Update == "insert" && len(o.c.Nodes) <= 8 {
			ctx.Ev.Sample(map[string]any{"kind": "foreign tree rendered by indep/ser and read by pagetree (record judged by Trace_PageTree)", "case": o.c, "iter": o.rec.Iter})
			break
		}
	}

	// evidence
	var maxPages, withRanges, withCbs int
	for _, o := range outs {
		p, r, c, _ := countOps(o.c.Prog)
		if p > maxPages {
			maxPages = p
		}
		if r > 0 {
			withRanges++
		}
		if c > 0 {
			withCbs++
		}
	}
	// how often the interesting mechanisms were really exercised
	hoist := map[string]int{}
	for _, o := range outs {
		given := map[int]attrs{}
		for _, e := range o.c.Prog {
			if e.Op == "page" {
				given[e.ID] = *e.A
			}
		}
		for _, n := range o.rec.Nodes {
			if n.T == "Pages" {
				if n.A.M != "-" {
					hoist["pages_nodes_with_MediaBox"]++
				}
				if n.A.C != "-" {
					hoist["pages_nodes_with_CropBox"]++
				}
				if n.A.R != "-" && n.A.R != "0" {
					hoist["pages_nodes_with_nonzero_Rotate"]++
				}
				if len(n.K) == Fan {
					hoist["pages_nodes_with_16_kids"]++
				}
			} else if g, ok := given[n.ID]; ok {
				if g.R == "-" && n.A.R == "0" {
					hoist["pages_with_default_Rotate_written_back"]++
				}
				if g.M != "-" && n.A.M == "-" {
					hoist["pages_whose_MediaBox_moved_up"]++
				}
				if g.M != "-" && n.A.M != "-" {
					hoist["pages_keeping_own_MediaBox"]++
				}
			}
		}
	}
	ctx.Ev.Set("mechanisms_observed_in_written_trees", hoist)
	ctx.Ev.Set("largest_document_pages", maxPages)
	ctx.Ev.Set("judged_programs_with_ranges", withRanges)
	ctx.Ev.Set("judged_programs_with_callbacks", withCbs)
	ctx.Ev.Set("behaviours_from_tlc", map[string]int{"exhaustive_small": len(small), "simulated": len(sim)})
	for _, o := range outs {
		if p, r, _, _ := countOps(o.c.Prog); r > 0 && p > Fan && p < 80 {
			s := o.rec
			s.Nodes, s.Iter, s.GetPage = nil, nil, nil
			ctx.Ev.Sample(map[string]any{"kind": "program executed on pagetree.Writer (tree, reader answers omitted)", "record": s})
			break
		}
	}
	for i := range small {
		if len(small[i].Hist) >= 5 {
			ctx.Ev.Sample(map[string]any{"kind": "behaviour written by Gen_PageTree (model, fan-out D)", "behaviour": small[i]})
			break
		}
	}
	ctx.Ev.Exhaustive = true
	ctx.Ev.Set("exhaustive_scope", "PageTree.tla: all interleavings within the constants of the MC_PageTree_*.cfg files; "+
		"on the real code: every complete behaviour of Gen_PageTree_small*.cfg (scaled), simulated long behaviours beyond")
	// extension beyond the listed properties: the document outline
	// (spec/nav/Outline.tla); deviations are NOTE lines, not verdicts
	if err := outline.Run(ctx); err != nil {
		return err
	}
	// ... and page labels (spec/nav/PageLabels.tla)
	return labels.Run(ctx)
}

func treeStats(nodes []fnode) (depth, fan int, empty, single, indirect bool) {
	var walk func(i, d int)
	walk = func(i, d int) {
		n := nodes[i-1]
		if d > depth {
			depth = d
		}
		if n.Ind != 0 {
			indirect = true
		}
		if n.T != "Pages" {
			return
		}
		if len(n.K) > fan {
			fan = len(n.K)
		}
		if len(n.K) == 0 && i != 1 {
			empty = true
		}
		if len(n.K) == 1 {
			single = true
		}
		for _, k := range n.K {
			walk(k, d+1)
		}
	}
	walk(1, 0)
	return
}
