package c16

import (
	"encoding/json"
	"math/rand"
	"time"

	"verif/harness/core"
	"verif/harness/drive/labels"
	"verif/harness/drive/outline"
)

// a fixed program with two nested ranges, callbacks and 45 pages
func selfCase() *pcase {
	g := &genRec{D: 3, Ncb: 2,
		Hist: []genOp{
			{Op: "page", W: 1, ID: []int{1, 1}, A: &attrs{"A", "-", "-", "-"}, NF: []int{0, 0}},
			{Op: "cb", W: 1, C: 1, NF: []int{0, 0}},
			{Op: "range", W: 1, Sub: 3, NF: []int{0, 0}},
			{Op: "page", W: 3, ID: []int{3, 1}, A: &attrs{"B", "-", "90", "-"}, NF: []int{0, 0}},
			{Op: "range", W: 3, Sub: 5, NF: []int{0, 0}},
			{Op: "cb", W: 5, C: 2, NF: []int{0, 0}},
			{Op: "page", W: 1, ID: []int{1, 3}, A: &attrs{"A", "-", "-", "-"}, NF: []int{0, 0}},
			{Op: "page", W: 5, ID: []int{5, 1}, A: &attrs{"A", "-", "90", "-"}, NF: []int{0, 1}},
			{Op: "close", W: 1, NF: []int{1, 1}},
		},
		Order: [][]int{{1, 1}, {3, 1}, {5, 1}, {1, 3}},
		Fired: [][]int{{3}, {2}},
	}
	c, _ := scale(g, []int{17, 9, 16, 3}, "1.7", rand.New(rand.NewSource(1)), "selftest")
	return c
}

func clone(r record) record {
	data, _ := json.Marshal(r)
	var out record
	_ = json.Unmarshal(data, &out)
	return out
}

// selfTest: the machinery must notice (i) a corrupted record (each clause),
// (ii) seeded defects of the design model, (iii) a wrong model expectation in
// the Go-side comparison; (iv) every action of the design model is taken.
func selfTest(ctx *core.Ctx) error {
	c := selfCase()
	good := execute(c)
	if good.Err != "" {
		return core.Infra("self-test: %s", good.Err)
	}
	// find an inner /Pages node with kids, and a leaf
	inner, leaf := -1, -1
	for i, n := range good.Nodes {
		if n.T == "Pages" && i != good.Root-1 && len(n.K) >= 2 && inner < 0 {
			inner = i
		}
		if n.T == "Page" && leaf < 0 {
			leaf = i
		}
	}
	if inner < 0 || leaf < 0 {
		return core.Infra("self-test: unexpected tree shape")
	}
	type mut struct {
		clause string
		f      func(r *record)
	}
	muts := []mut{
		{"order", func(r *record) { k := r.Nodes[inner].K; k[0], k[1] = k[1], k[0] }},
		{"counts", func(r *record) { r.Nodes[inner].N++ }},
		{"parents", func(r *record) { r.Nodes[r.Nodes[inner].K[0]-1].P = r.Root }},
		{"fanout", func(r *record) { r.Fan = len(r.Nodes[inner].K) - 1 }},
		{"eff_m", func(r *record) {
			given := "-"
			for _, o := range r.Prog {
				if o.Op == "page" && o.ID == r.Nodes[leaf].ID {
					given = o.A.M
				}
			}
			if given == "B2" {
				r.Nodes[leaf].A.M = "A"
			} else {
				r.Nodes[leaf].A.M = "B2"
			}
		}},
		{"eff_r", func(r *record) { r.Nodes[inner].A.R = "270" }},
		{"types", func(r *record) { r.Nodes[leaf].T = "Pag" }},
		{"finite", func(r *record) { r.Nodes[inner].K[0] = r.Root }},
		{"iter", func(r *record) { r.Iter = r.Iter[1:] }},
		{"getpage", func(r *record) { r.GetPage[3].ID++ }},
		{"numpages", func(r *record) { r.NumPages++ }},
		{"callbacks", func(r *record) { r.Fired[0].V++ }},
		{"callbacks", func(r *record) { r.Fired = append(r.Fired, r.Fired[0]) }},
		{"tree", func(r *record) { r.Root = 0 }},
	}
	recs := []record{good}
	for _, m := range muts {
		r := clone(good)
		m.f(&r)
		recs = append(recs, r, good)
	}
	bad, err := judge(ctx, recs, "", 8)
	if err != nil {
		return err
	}
	if len(bad) != len(muts) {
		return core.Infra("self-test: %d corrupted records, TLC rejected %v", len(muts), bad)
	}
	for i, b := range bad {
		if b != 1+2*i {
			return core.Infra("self-test: corrupted records not singled out: %v", bad)
		}
		cl, err := failingClause(ctx, recs[b])
		if err != nil {
			return err
		}
		if cl != muts[i].clause {
			return core.Infra("self-test: corruption %d should fail clause %q, TLC says %q", i, muts[i].clause, cl)
		}
	}
	ctx.Logf("self-test (i): %d corrupted records rejected, each for the expected clause; intact ones accepted", len(muts))

	// (i') the same for a reader record (foreign tree: root /Rotate 90, an
	// inner node overriding it with an explicit 0, an empty /Pages node)
	fc := &fcase{Version: "1.7", XRef: "stream", ObjStm: true, Seed: 11, Update: "insert", At: 5, Probes: []int{0, 1, 2, 3},
		Nodes: []fnode{
			{T: "Pages", K: []int{2, 3, 4, 7}, A: attrs{"A", "-", "90", "R1"}, Ind: 5},
			{T: "Page", A: noAttrs, ID: 1},
			{T: "Pages", K: []int{}, A: noAttrs},
			{T: "Pages", K: []int{5, 6}, A: attrs{"-", "A", "0", "-"}, Ind: 16},
			{T: "Page", A: attrs{"B", "-", "-", "-"}, ID: 2},
			{T: "Page", A: attrs{"-", "-", "-90", "-"}, ID: 3},
			{T: "Page", A: noAttrs, ID: 4}}}
	fgood := observeForeign(fc)
	if fgood.Err != "" || compareForeign(&fgood, expectedPages(fc.Nodes)) != "" {
		return core.Infra("self-test: reader case: %q", fgood.Err)
	}
	fmuts := []mut{
		{"r_iter", func(r *record) { r.Iter[1].A.R = "90" }}, // explicit 0 of the inner node lost
		{"r_iter", func(r *record) { r.Iter[0], r.Iter[1] = r.Iter[1], r.Iter[0] }},
		{"r_getpage", func(r *record) { r.GetPage[3].ID = r.GetPage[2].ID }}, // miscounted across the empty node
		{"r_numpages", func(r *record) { r.NumPages-- }},
		{"r_decode", func(r *record) { r.Dec[2].A.R = "90" }}, // -90 must decode as 270
		{"premise", func(r *record) { r.Nodes[3].N++ }},       // the given tree itself must be conforming
	}
	frecs := []record{fgood}
	for _, m := range fmuts {
		r := clone(fgood)
		m.f(&r)
		frecs = append(frecs, r, fgood)
	}
	fbad, err := judge(ctx, frecs, "", 4)
	if err != nil {
		return err
	}
	if len(fbad) != len(fmuts) {
		return core.Infra("self-test: %d corrupted reader records, TLC rejected %v", len(fmuts), fbad)
	}
	for i, b := range fbad {
		if b != 1+2*i {
			return core.Infra("self-test: corrupted reader records not singled out: %v", fbad)
		}
		cl, err := readerFailingClause(ctx, frecs[b])
		if err != nil {
			return err
		}
		if cl != fmuts[i].clause {
			return core.Infra("self-test: reader corruption %d should fail clause %q, TLC says %q", i, fmuts[i].clause, cl)
		}
	}
	ctx.Logf("self-test (i'): %d corrupted reader records rejected, each for the expected clause", len(fmuts))

	// (ii) seeded defects of the design model
	for _, nc := range []struct{ cfg, inv string }{
		{"MC_PageTree_neg_key_skipabsent.cfg", "EffectiveSoFar"},
		{"MC_PageTree_neg_rot_norestore.cfg", "EffectiveSoFar"},
		{"MC_PageTree_neg_count_kids.cfg", "EffectiveSoFar"},
		{"MC_PageTree_neg_merge_swapped.cfg", "RootDone"},
		{"MC_PageTree_neg_inc_inplace.cfg", "PageNumbers"},
		{"MC_PageTree_neg_lone_node.cfg", "NoPanic"}, // the code before 85b29fa (defect found by this model)
	} {
		res, err := ctx.TLC(core.TLCOpts{Dir: "tree", Module: "MC_PageTree", Cfg: nc.cfg, Workers: 6, Mode: "negative-control", Timeout: 20 * time.Minute})
		if err != nil {
			return err
		}
		if res.Invariant != nc.inv {
			return core.Infra("self-test: %s should violate %s, got %q", nc.cfg, nc.inv, res.Invariant)
		}
	}
	ctx.Logf("self-test (ii): six defective variants of the design model (five seeded, one the code before 85b29fa) violate the expected invariants")

	// (iii) a wrong model expectation is noticed by the Go-side comparison
	g := &genRec{D: 2, Hist: []genOp{{Op: "page", W: 1, ID: []int{1, 1}, A: &attrs{"A", "-", "-", "-"}, NF: []int{}},
		{Op: "page", W: 1, ID: []int{1, 2}, A: &attrs{"A", "-", "-", "-"}, NF: []int{}}, {Op: "close", W: 1, NF: []int{}}},
		Order: [][]int{{1, 2}, {1, 1}}, Fired: [][]int{}}
	c2, ex := scale(g, []int{2, 2}, "1.4", rand.New(rand.NewSource(2)), "selftest")
	rec := execute(c2)
	if compare(&rec, ex) != "order" {
		return core.Infra("self-test: wrong model expectation not noticed")
	}
	ctx.Logf("self-test (iii): wrong expectation noticed by the replay comparison")

	// (iv) no action of the design model is dead
	res, err := ctx.TLC(core.TLCOpts{Dir: "tree", Module: "MC_PageTree", Cfg: "MC_PageTree_cov.cfg", Workers: 4, Coverage: true, Mode: "coverage"})
	if err != nil {
		return err
	}
	if !res.OK() {
		return core.Infra("self-test: coverage model failed: %q", res.Invariant)
	}
	if len(res.ZeroCoverage) > 0 {
		return core.Infra("self-test: actions never taken: %v", res.ZeroCoverage)
	}
	ctx.Logf("self-test (iv): every action of MC_PageTree is taken (coverage run, %d states)", res.Distinct)
	if err := outline.SelfTest(ctx); err != nil {
		return err
	}
	return labels.SelfTest(ctx)
}
