package c06

import (
	"math/rand"

	"verif/harness/core"
)

// newFixedRand: the generator of the CCITTFax corpus, independent of VERIF_SEED.
func newFixedRand() *rand.Rand { return rand.New(rand.NewSource(0xC06)) }

// selfTest: the machinery must notice (i) corrupted records, (ii) the
// defective variants of the design models, (iii) a wrong table line.
func selfTest(ctx *core.Ctx) error {
	// (i-a) pipe records: corrupt one field of a real record
	mk := func() *PipeRec {
		c := &PipeCase{Filters: []P{fl("Flate", 12, 3, 8, 4, false), {Kind: "ASCII85"}}, Ver: 17, Via: "direct", Writes: []int{5, 0, 19}, ReadPat: []int{7, 0}}
		c.SetData([]byte("0123456789abcdefghijklmn"))
		return RunDirect(c)
	}
	good := mk()
	b1 := mk()
	b1.OutSum = "00" + b1.OutSum[2:]
	b2 := mk()
	b2.Reads[0][1]++ // one byte more than was delivered
	b3 := mk()
	b3.Out[5] ^= 1
	b4 := mk()
	b4.Reads = b4.Reads[:len(b4.Reads)-1] // end of file never reported
	b5 := mk()
	b5.Writes[0][1]-- // short write
	bad, err := judgePipes(ctx, []*PipeRec{good, b1, good, b2, b3, b4, b5})
	if err != nil {
		return err
	}
	if len(bad) != 5 || bad[0] || bad[2] || !bad[1] || !bad[3] || !bad[4] || !bad[5] || !bad[6] {
		return core.Infra("self-test: corrupted pipe records not singled out: %v", bad)
	}
	ctx.Logf("self-test (i-a): corrupted pipe records rejected, intact ones accepted")

	// (i-b) parameter records
	p := fl("LZW", 12, 3, 8, 7, false)
	g := ObserveInfo(p, 17)
	c1 := ObserveInfo(p, 17)
	c1.Dict["Columns"] = Val{T: "int", I: 8}
	c2 := ObserveInfo(p, 17)
	c2.Parsed.Obo = true
	c3 := ObserveInfo(p, 17)
	delete(c3.Dict2, "EarlyChange")
	c4 := ObserveInfo(p, 17)
	c4.Dict["Colors"] = Val{T: "name", S: "3"}
	// (i-c) chain records
	pc := &PipeCase{Filters: []P{{Kind: "ASCII85"}, fl("Flate", 12, 1, 8, 4, false)}, Ver: 17, Via: "openstream", Writes: []int{8}, ReadPat: []int{64}}
	pc.SetData([]byte("abcdefgh"))
	_, infos := RunOpenStream(17, []*PipeCase{pc}, nil)
	if infos[0] == nil {
		return core.Infra("self-test: OpenStream wrote no stream")
	}
	gc := chainRecord(pc, nil, infos[0])
	bc := chainRecord(pc, nil, infos[0])
	if bc.P.T != "array" || len(bc.P.A) != 2 {
		return core.Infra("self-test: unexpected /DecodeParms %+v", bc.P)
	}
	bc.P = Val{T: "array", A: []Val{bc.P.A[1], bc.P.A[0]}} // parameters attached to the wrong filter
	recs := []any{g, c1, g, c2, c3, c4, gc, bc}
	badp, err := core.JudgeCases(ctx, core.TLCOpts{Dir: "filter", Module: "Trace_FilterParams", Cfg: "Trace_FilterParams.cfg", XssMB: 512}, recs, 100, 1)
	if err != nil {
		return err
	}
	want := []int{1, 3, 4, 5, 7}
	if len(badp) != len(want) {
		return core.Infra("self-test: corrupted parameter records not singled out: %v", badp)
	}
	for i := range want {
		if badp[i] != want[i] {
			return core.Infra("self-test: corrupted parameter records not singled out: %v", badp)
		}
	}
	ctx.Logf("self-test (i-b/c): corrupted Info and chain records rejected, intact ones accepted")

	// (ii) negative controls of the design models
	for _, nc := range []struct{ module, cfg, inv string }{
		{"MC_FilterParams", "MC_FilterParams_badparse.cfg", "ParamsOK"},
		{"MC_FilterParams", "MC_FilterParams_badappend.cfg", "AppendOK"},
		{"MC_FilterParams", "MC_FilterParams_vac1.cfg", "SomeValid"},
		{"MC_FilterParams", "MC_FilterParams_vac2.cfg", "SomeInvalid"},
		{"MC_FilterPipe", "MC_FilterPipe_baddrop.cfg", "ConservationW"},
		{"MC_FilterPipe", "MC_FilterPipe_badeof.cfg", "EOFLast"},
	} {
		res, err := ctx.TLC(core.TLCOpts{Dir: "filter", Module: nc.module, Cfg: nc.cfg, Workers: 4, Mode: "negative-control"})
		if err != nil {
			return err
		}
		if res.Invariant != nc.inv {
			return core.Infra("self-test: %s should violate %s, got %q", nc.cfg, nc.inv, res.Invariant)
		}
	}
	ctx.Logf("self-test (ii): defective parse / append / flush / end-of-file variants violate their invariants; validation is not vacuous")

	// (iii) a wrong table expectation
	line := GenLine{P: p, V: 17, Valid: true, Name: "LZWDecode", Dict: g.Dict, Norm: g.Parsed}
	if CheckLine(line, g) != "" {
		return core.Infra("self-test: correct table line refused: %s", CheckLine(line, g))
	}
	line.Norm.Cols = 8
	if CheckLine(line, g) == "" {
		return core.Infra("self-test: wrong table expectation not noticed")
	}
	line.Norm = g.Parsed
	line.Valid = false
	if CheckLine(line, g) != "validity" {
		return core.Infra("self-test: wrong validity expectation not noticed")
	}
	ctx.Logf("self-test (iii): wrong table expectations noticed")
	return nil
}
