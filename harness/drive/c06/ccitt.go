package c06

// ccitt.go: CCITTFaxDecode.  The parameter combinations are triaged on the
// real code with a corpus that does not depend on VERIF_SEED, so that the
// violation keys are stable:
//
//	ccitt/<K<0|K=0|K>0>/eol=E/align=A/eob=B/rows=R/sig=<signatures joined by +>
//
// signatures (coarse on purpose, so that the keys are stable): error (the
// decoder reports an error), data (no error, but other bytes than were
// written), write (Write or Close refuse data of admissible shape).

import (
	"fmt"
	"math/rand"
	"sort"
	"strings"
)

// CCITTCombo is the key prefix of a parameter combination.
func CCITTCombo(p P) string {
	kc := "K=0"
	if p.K < 0 {
		kc = "K<0"
	} else if p.K > 0 {
		kc = "K>0"
	}
	return fmt.Sprintf("ccitt/%s/eol=%d/align=%d/eob=%d/rows=%d", kc, b2i(p.Eol), b2i(p.Align), b2i(!p.Ieob), b2i(p.Rows > 0))
}

// ccittMaxRows: FilterCCITTFax.Decode bounds its output to images of at most
// 65536 rows (internal/limits.MaxImageHeight); taller inputs are outside the
// admissible shape (FilterPipe.tla).
const ccittMaxRows = 1 << 16

// CCITTAdmissible states the admissible shape of FilterPipe.tla for CCITTFax:
// at most /Rows rows, and the data must be delimited by the format itself.
func CCITTAdmissible(p P, nrows int) bool {
	if p.Rows > 0 && nrows > p.Rows {
		return false
	}
	if p.Ieob && (p.Rows == 0 || nrows != p.Rows) {
		return false
	}
	return true
}

var ccittCols = []int{1, 2, 7, 8, 9, 16, 17, 33, 64, 65, 200, 1728}
var ccittRows = []int{0, 1, 2, 3, 5, 8}
var ccittKinds = []string{"zero", "equal", "random", "runs", "longruns", "sparse", "runs", "random"}

// ccittParams enumerates the admissible parameter combinations (K classes
// with several representatives); hasRows is resolved per case.
func ccittCombos() []P {
	var out []P
	for _, k := range []int{-1, -3, 0, 1, 2, 4} {
		for m := 0; m < 16; m++ {
			p := P{Kind: "CCITT", K: k, Eol: m&1 != 0, Align: m&2 != 0, Ieob: m&4 != 0}
			if m&8 != 0 {
				p.Rows = 1 // placeholder: "has /Rows"
			}
			if p.Ieob && p.Rows == 0 {
				continue // not delimited: outside the admissible shape
			}
			out = append(out, p)
		}
	}
	return out
}

// ccittCase draws one case for the combination.
func ccittCase(r *rand.Rand, combo P, i int) *PipeCase {
	p := combo
	p.Cols = ccittCols[r.Intn(len(ccittCols))]
	if i%7 == 0 {
		p.Cols = 0 // the default 1728
	}
	nrows := ccittRows[r.Intn(len(ccittRows))]
	p.Black = r.Intn(2) == 1
	if combo.Rows > 0 {
		p.Rows = nrows
		if p.Rows == 0 {
			nrows = 1 + r.Intn(3)
			p.Rows = nrows
		}
		if !p.Ieob && r.Intn(4) == 0 {
			p.Rows = nrows + 1 + r.Intn(2) // fewer rows than announced, ended by the block end
		}
	}
	row := p.RowBytes()
	data := GenFor(r, p, ccittKinds[r.Intn(len(ccittKinds))], nrows*row)
	c := &PipeCase{Filters: []P{p}, Ver: 17, Via: "direct", Writes: []int{len(data)}, ReadPat: []int{4096}, Origin: "ccitt-corpus"}
	c.SetData(data)
	return c
}

// ccittKey builds the violation key of a combination from its signatures.
func ccittKey(combo string, sigs map[string]bool) string {
	var s []string
	for k := range sigs {
		s = append(s, k)
	}
	sort.Strings(s)
	return combo + "/sig=" + strings.Join(s, "+")
}

// ccittSig is the coarse failure class used in CCITTFax keys.
func ccittSig(rec *PipeRec, c *PipeCase) string {
	switch rec.Signature(c.Data()) {
	case "error":
		return "error"
	case "short", "long", "differs", "protocol", "stuck":
		return "data"
	case "panic":
		return "panic"
	}
	return "write"
}
